import FitProps.WriterOutcomeLemmas
import FitProps.C02ChainLemmas
/-!
# C02, the write-back clause: "header and CRC values the encoder writes back into the caller's FIT value equal the
bytes on the wire"

* `C02_writeback_steps` — the step-by-step model of the assignments to `fit.FileHeader` / `fit.CRC`
  (`Writer.encodeWB`: both strategies, any writer kind and buffer size, any fault schedule) gives, on every call that
  returns success, the closed form `Wire.writeBack`;
* `C02_writeback` — the closed form IS what is on the wire: parsing the stream `encodeChain o fits` with the independent
  framing reader gives, sequence by sequence, a header whose size, protocol version, profile version, data size and CRC
  field, and a file CRC, that are exactly the values written back (a 12-byte header has no CRC field; 0 is written back).

PROPERTY THEOREMS (audited by ./check): C02_writeback_steps, C02_writeback
-/
namespace Fit.C02
open Fit.Wire Fit.Writer
open Fit.Crc (write)

theorem encodeBodyWB_run (F : Faults) (o : Opts) (e : Enc) (h : Hdr) (ds : Nat) (ms : List WMsg) (crcIn : Nat) :
    (encodeBodyWB F o e h ds ms crcIn).2 = encodeBody F o e h ds ms := by
  unfold encodeBodyWB encodeBody
  by_cases h1 : (encodeFileHeader F e h ds).2 = true
  · by_cases h2 : (encodeMessages F o (encodeFileHeader F e h ds).1 ms).2 = true
    · simp [h1, h2]
    · simp [h1, h2]
  · simp [h1]

/-- the values assigned by the shared steps when they all succeed, from an encoder in its per-sequence reset state -/
theorem encodeBodyWB_spec (F : Faults) (o : Opts) (e : Enc) (h : Hdr) (ds : Nat) (ms : List WMsg) (crcIn : Nat)
    (hg : e.w.Good) (hf : e.Fresh o) (hok : (encodeBody F o e h ds ms).2 = true) :
    (encodeBodyWB F o e h ds ms crcIn).1 =
      ⟨h.size, h.protoVer, h.profileVer, ds, hdrCrcBack 0 h ds, write 0 (encodeMsgs o (freshEnc o) ms)⟩ := by
  obtain ⟨h1, _, _, h1c, h1d, h1e⟩ := encodeFileHeader_spec F e h ds hg
  have hok1 : (encodeFileHeader F e h ds).2 = true := by
    cases hx : (encodeFileHeader F e h ds).2 with
    | true => rfl
    | false => unfold encodeBody at hok; simp [hx] at hok
  have hok2 : (encodeMessages F o (encodeFileHeader F e h ds).1 ms).2 = true := by
    cases hx : (encodeMessages F o (encodeFileHeader F e h ds).1 ms).2 with
    | true => rfl
    | false => unfold encodeBody at hok; simp [hok1, hx] at hok
  rw [hok1] at h1
  have h2 := encodeMessages_wrote F o (encodeFileHeader F e h ds).1 ms h1.good (by rw [h1d, hf.ds]; decide)
  rw [hok2] at h2
  have hc0 : (encodeFileHeader F e h ds).1.crc = 0 := by rw [h1c, hf.crc]; simp
  have hcrc := h2.crc rfl
  rw [hc0, h1e, hf.es] at hcrc
  unfold encodeBodyWB
  simp only [hok1, hok2, Bool.not_true, Bool.false_eq_true, if_false, hcrc, hf.crc]

/-- STEP BY STEP = CLOSED FORM: whenever `Encode` returns success — whatever the writer kind, the buffer size, the
strategy, the caller's stale `DataSize`, and whatever the destination did — the header and CRC values the code has
assigned to the caller's FIT value are `Wire.writeBack`: the header as normalised, the exact record byte count, the
CRC-16 of the final header's twelve bytes (0 for a 12-byte header), the CRC-16 of the records. -/
theorem C02_writeback_steps (F : Faults) (o : Opts) (e : Enc) (f : FitIn) (crcIn : Nat)
    (hg : e.w.Good) (hf : e.Fresh o) (hok : (encode F o e f).2 = true) :
    encodeWB F o e f crcIn = writeBack o f.hdr f.msgs := by
  unfold encode at hok
  unfold encodeWB
  by_cases hdir : e.w.kind.direct = true
  · rw [if_pos hdir] at hok ⊢
    have hokD : (encodeDirect F o e f.hdr f.ds0 f.msgs).2 = true := by
      cases hx : (encodeDirect F o e f.hdr f.ds0 f.msgs).2 with
      | true => rfl
      | false => simp [hx] at hok
    have hokB : (encodeBody F o e f.hdr f.ds0 f.msgs).2 = true := by
      cases hx : (encodeBody F o e f.hdr f.ds0 f.msgs).2 with
      | true => rfl
      | false => unfold encodeDirect at hokD; simp [hx] at hokD
    obtain ⟨_, _, b3⟩ := encodeBody_spec F o e f.hdr f.ds0 f.msgs hg hf
    obtain ⟨_, c2, c3⟩ := b3 hokB
    have hwb := encodeBodyWB_spec F o e f.hdr f.ds0 f.msgs crcIn hg hf hokB
    have hrun := encodeBodyWB_run F o e f.hdr f.ds0 f.msgs crcIn
    unfold encodeDirectWB
    simp only [hrun, hokB, Bool.not_true, Bool.false_eq_true, if_false, hwb, c2, c3]
    unfold writeBack
    by_cases hsame : f.ds0 = (encodeMsgs o (freshEnc o) f.msgs).length % 4294967296
    · rw [if_pos hsame, hsame]
    · rw [if_neg hsame]
      by_cases h14 : f.hdr.size = 14
      · simp [h14]
      · simp [h14, hdrCrcBack]
  · rw [if_neg hdir] at hok ⊢
    have hokE : (encodeEarly F o e f.hdr f.msgs).2 = true := by
      cases hx : (encodeEarly F o e f.hdr f.msgs).2 with
      | true => rfl
      | false => simp [hx] at hok
    have hdry : dryPass o e.es e.dataSize f.msgs = ((encodeMsgs o (freshEnc o) f.msgs).length % 4294967296, f.msgs) := by
      rw [hf.es, hf.ds, dryPass_eq o _ _ _ (by decide)]; simp
    unfold encodeEarly at hokE
    rw [hdry] at hokE
    unfold encodeEarlyWB
    rw [hdry]
    exact encodeBodyWB_spec F o (e.reset o) f.hdr _ f.msgs crcIn hg (reset_fresh o e) hokE

/-- the header and the stored file CRC the independent framing reader finds for one FIT value `f` of a chain, written
with the values `Wire.writeBack` says the encoder stores back -/
def onWire (o : Opts) (f : Hdr × List WMsg) : FitFormat.Header × Nat :=
  let wb := writeBack o f.1 f.2
  (⟨wb.size, wb.protoVer, wb.profileVer, wb.dataSize, if wb.size = 14 then some wb.hcrc else none⟩, wb.crc)

/-- ONE SEQUENCE of a chain: its view carries the written-back values -/
theorem parseSeq_onWire (o : Opts) (ho : OptsOK o) (f : Hdr × List WMsg) (hf : FitOK o f.1 f.2) (off : Nat) (tail : Bytes) :
    ∃ v, FitFormat.parseSeq off (encodeFit o f.1 f.2 ++ tail) = some (v, tail) ∧
      v.len = (encodeFit o f.1 f.2).length ∧ (v.header, v.crc) = onWire o f := by
  obtain ⟨v, hv, hlen, _, hsize, hds⟩ := Bridge.parseSeq_encodeFit o ho f.1 f.2 hf off tail
  obtain ⟨hhdr, _, c0, c1, hdrop, hcrc⟩ := parseSeq_inv hv
  refine ⟨v, hv, hlen, ?_⟩
  have hsmall := hf.small
  have hmod : (encodeMsgs o (freshEnc o) f.2).length % 4294967296 = (encodeMsgs o (freshEnc o) f.2).length := Nat.mod_eq_of_lt hsmall
  unfold onWire writeBack
  simp only [hmod]
  generalize hR : encodeMsgs o (freshEnc o) f.2 = R at *
  have hE : encodeFit o f.1 f.2 ++ tail = hdrBytes f.1 R.length ++ (R ++ (Wire.le16 (write 0 R) ++ tail)) := by
    simp only [encodeFit, hR, hmod, List.append_assoc]
  have hlenH := hdrBytes_len f.1 R.length hf.size
  have hph := Bridge.parseHeader_hdrBytes f.1 R.length (R ++ (Wire.le16 (write 0 R) ++ tail)) hf.size hf.profile hsmall
  rw [hE, hph] at hhdr
  have hheader : v.header = ⟨f.1.size, f.1.protoVer, f.1.profileVer, R.length,
      if f.1.size = 14 then some (write 0 (b12 f.1 R.length)) else none⟩ := (Option.some.inj hhdr).symm
  have hc : v.crc = write 0 R := by
    rw [hE, hsize, hds] at hdrop
    have h1 : (hdrBytes f.1 R.length ++ (R ++ (Wire.le16 (write 0 R) ++ tail))).drop f.1.size =
        R ++ (Wire.le16 (write 0 R) ++ tail) := by
      rw [← hlenH]; exact List.drop_left
    rw [h1, List.drop_left] at hdrop
    simp only [Wire.le16, List.cons_append, List.nil_append, List.cons.injEq] at hdrop
    obtain ⟨rfl, rfl, _⟩ := hdrop
    have hlt : write 0 R < 2 ^ 16 := Fit.Crc.write_lt 0 (by decide) R
    rw [hcrc]; simp only [FitFormat.le16]; omega
  rw [hheader, hc]
  by_cases h14 : f.1.size = 14
  · simp [h14, hdrCrcBack, b12]
  · simp [h14]

theorem parseSeqs_onWire (o : Opts) (ho : OptsOK o) : ∀ (fits : List (Hdr × List WMsg)), (∀ f ∈ fits, FitOK o f.1 f.2) →
    ∀ (off fuel : Nat), fits.length ≤ fuel →
    ∃ seqs, FitFormat.parseSeqs fuel off (encodeChain o fits) = some seqs ∧
      seqs.map (fun s => (s.header, s.crc)) = fits.map (onWire o)
  | [], _, off, fuel, _ => ⟨[], by cases fuel <;> simp [encodeChain, FitFormat.parseSeqs], rfl⟩
  | f :: fits, hall, off, fuel, hfuel => by
    obtain ⟨f2, rfl⟩ : ∃ f2, fuel = f2 + 1 := ⟨fuel - 1, by simp at hfuel; omega⟩
    obtain ⟨v, hv, hvl, hvw⟩ := parseSeq_onWire o ho f (hall f (by simp)) off (encodeChain o fits)
    obtain ⟨seqs, hs, hm⟩ := parseSeqs_onWire o ho fits (fun x hx => hall x (by simp [hx])) (off + v.len) f2
      (by simp at hfuel; omega)
    have e := encodeChain_cons' o f fits
    obtain ⟨a, t, hat⟩ : ∃ a t, encodeFit o f.1 f.2 ++ encodeChain o fits = a :: t := by
      have := Bridge.encodeFit_length_pos o f.1 f.2
      cases hE : encodeFit o f.1 f.2 with
      | nil => simp [hE] at this
      | cons a t => exact ⟨a, t ++ encodeChain o fits, by simp⟩
    refine ⟨v :: seqs, ?_, by simp [hm, hvw]⟩
    rw [e, hat, FitFormat.parseSeqs, ← hat, hv]
    simp only [hs]

/-- WRITE-BACK = WIRE: for every successful encode of a chain (12- and 14-byte headers mixed, every option
combination), the independent framing reader finds in the stream, sequence by sequence and in order, exactly the values
the encoder stores back into the caller's FIT values (`Wire.writeBack`, which `C02_writeback_steps` ties to the code's
assignments): header size, protocol version, profile version, data size, header CRC field (absent for a 12-byte header,
for which 0 is stored back), and the file CRC. -/
theorem C02_writeback (o : Opts) (ho : OptsOK o) (fits : List (Hdr × List WMsg)) (hall : ∀ f ∈ fits, FitOK o f.1 f.2) :
    ∃ seqs, FitFormat.parseStream (encodeChain o fits) = some seqs ∧
      seqs.map (fun s => (s.header, s.crc)) = fits.map (onWire o) := by
  have hlen : fits.length ≤ (encodeChain o fits).length := by
    clear hall
    induction fits with
    | nil => simp
    | cons f fs ih =>
      have := Bridge.encodeFit_length_pos o f.1 f.2
      simp [encodeChain, List.length_append] at ih ⊢; omega
  exact parseSeqs_onWire o ho fits hall 0 _ hlen

/-- by evaluation, on a chain mixing a 14- and a 12-byte header, through a direct-update destination whose caller passed a
stale data size: the step model, the closed form and the parsed stream agree -/
example :
    let o : Opts := ⟨0, false, 1⟩
    let f1 : FitIn := ⟨⟨14, 32, 2158⟩, 77, [⟨0, [⟨0, 0, 3, [4]⟩], []⟩]⟩
    let e : Enc := Enc.new o .seek 0 ⟨[], 0, []⟩
    (encode noFault o e f1).2 = true ∧ encodeWB noFault o e f1 999 = writeBack o f1.hdr f1.msgs ∧
    (FitFormat.parseStream (encodeFit o f1.hdr f1.msgs)).map (fun ss => ss.map fun s => (s.header, s.crc)) =
      some [onWire o (f1.hdr, f1.msgs)] := by
  decide +kernel

end Fit.C02
