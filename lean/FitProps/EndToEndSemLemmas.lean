import FitProps.EndToEndLoopLemmas
import FitProps.C10
/-!
What the items of an encoder-written record stream interpret to (C01 end to end): for validated messages, the items the
framing decoder returns for their wire form (`RecMatches`, from `C01_wire_records`) satisfy `GoodItems`, and the messages
they interpret to are the validated messages in one of their allowed forms (`seqMatches reread`).
-/
set_option linter.unusedSimpArgs false
namespace Fit.E2E
open Fit.Gen Fit.Gen.DecApi Fit.Value Fit.DecApi Fit.Crc Fit.Msg

/-! ### timestamps: the two decoders track the same ones on encoder output -/

theorem asmLE_eq_ofLE (bs : List Nat) : Wire.asmLE bs = ofLE bs := by
  induction bs with
  | nil => rfl
  | cons b bs ih => simp [Wire.asmLE, ofLE, ih]

/-- the uint32 both decoders assemble from the first four bytes of a marshalled uint32 -/
theorem asm_enc4 (arch x : Nat) (rest : List Nat) (hx : x < 2 ^ 32) :
    (if arch = 0 then Wire.asmLE ((enc 4 arch x ++ rest).take 4) else Wire.asmBE ((enc 4 arch x ++ rest).take 4)) = x := by
  have ht : (enc 4 arch x ++ rest).take 4 = enc 4 arch x := by
    rw [List.take_append_of_le_length (by simp), List.take_of_length_le (by simp)]
  rw [ht]
  by_cases ha : arch = 0
  · simp only [ha, ↓reduceIte, enc, littleEndian, leBytes, Wire.asmLE]
    omega
  · simp only [ha, ↓reduceIte, enc, littleEndian, leBytes, List.reverse_cons, List.reverse_nil, List.nil_append,
      List.cons_append, Wire.asmBE, List.foldl_cons, List.foldl_nil]
    omega

/-- the timestamp a decoded field carries, on the projection the property compares -/
def tsOfN : Option NField → Option Nat
  | some f => (match f.value with | .uint32 t => some t | _ => none)
  | none => none

theorem tsOfRes_proj (r : Option DField) : tsOfRes r = tsOfN (r.map projF) := by
  cases r with
  | none => rfl
  | some f => rfl

theorem scalarOf_not_u32 (bt : Nat) (ib : Bool) (x t : Nat) (h1 : bt ≠ btUint32) (h2 : bt ≠ btUint32z) :
    scalarOf bt ib x ≠ .uint32 t := by
  unfold scalarOf mkBool
  repeat' split
  all_goals (first | (intro h; cases h; done) | (intro h; rename_i hh; rcases hh with hh | hh <;> contradiction) | omega | simp_all)

theorem sliceOf_not_u32 (bt : Nat) (ib : Bool) (xs : List Nat) (t : Nat) : sliceOf bt ib xs ≠ .uint32 t := by
  unfold sliceOf
  repeat' split
  all_goals (intro h; cases h)

theorem create_mem (fac : Factory) (m n : Nat) (h : (fac.create m n).known = true) :
    ∃ e ∈ fac, e.mesgNum = m ∧ e.num = n ∧ e.info = fac.create m n := by
  unfold Factory.create at h ⊢
  cases hf : fac.find? (fun e => e.mesgNum == m && e.num == n) with
  | none => rw [hf] at h; simp [FieldInfo.unknown] at h
  | some e =>
    have hm := List.mem_of_find?_eq_some hf
    have hp := List.find?_some hf
    simp only [Bool.and_eq_true, beq_iff_eq] at hp
    exact ⟨e, hm, hp.1, hp.2, rfl⟩

theorem facOK_ts (fac : Factory) (hfac : facOKB fac = true) (m : Nat) (h : (fac.create m fieldNumTimestamp).known = true) :
    (fac.create m fieldNumTimestamp).bt = btUint32 ∧ (fac.create m fieldNumTimestamp).array = false ∧
      (fac.create m fieldNumTimestamp).isBool = false := by
  obtain ⟨e, he, _, hn, hi⟩ := create_mem fac m _ h
  have := (List.all_eq_true.mp hfac) e he
  simp only [Bool.and_eq_true, Bool.or_eq_true, bne_iff_ne, ne_eq, Bool.not_eq_true', beq_iff_eq] at this
  rw [← hi] at h ⊢
  rcases this.1 with (h1 | h1) | h1
  · exact absurd hn h1
  · rw [h1] at h; cases h
  · exact ⟨h1.1.1, h1.1.2, h1.2⟩

theorem reread_u32_scalar (bt : Nat) (ib : Bool) (v : Value) (h : bt = btUint32 ∨ bt = btUint32z) :
    reread bt ib false v = .uint32 ((elems v).headD 0) := by
  rcases h with h | h <;> subst h <;> rfl

theorem reread_not_u32 (bt : Nat) (ib arr : Bool) (v : Value) (t : Nat)
    (h : arr = true ∨ (bt ≠ btUint32 ∧ bt ≠ btUint32z)) : reread bt ib arr v ≠ .uint32 t := by
  unfold reread
  split
  · split <;> (intro hc; cases hc)
  · split
    · exact sliceOf_not_u32 _ _ _ _
    · rename_i harr
      rcases h with h | h
      · exact absurd h harr
      · exact scalarOf_not_u32 _ _ _ _ h.1 h.2

/-- the bytes of a value aligned with a uint32 base type start with its first element -/
theorem u32_bytes (v : Value) (bt arch : Nat) (bs : List Nat) (h : bt = btUint32 ∨ bt = btUint32z)
    (hwf : wf v = true) (hal : align v bt = true) (hz : size v ≠ 0) (hm : marshal v arch = some bs) :
    (if arch = 0 then Wire.asmLE (bs.take 4) else Wire.asmBE (bs.take 4)) = (elems v).headD 0 ∧
    size v = (elems v).length * 4 ∧ elems v ≠ [] := by
  have hp : protoSize typeUint32 = 4 := protoSize_table.2.2.2.2.2.2.2.1
  cases v <;> simp only [align, beq_iff_eq, Bool.or_eq_true] at hal <;>
    (try (exfalso; rcases h with h | h <;> subst h <;> revert hal <;> decide))
  case uint32 x =>
    have hx : x < 2 ^ 32 := by simpa [wf] using hwf
    simp only [marshal, Option.some.injEq] at hm
    subst hm
    have := asm_enc4 arch x [] hx
    simp only [List.append_nil] at this
    exact ⟨by simpa [elems] using this, by simp [size, typeOf, hp, elems], by simp [elems]⟩
  case sliceUint32 xs =>
    simp only [marshal, Option.some.injEq] at hm
    subst hm
    cases xs with
    | nil => simp [size, hp] at hz
    | cons x xs' =>
      have hx : x < 2 ^ 32 := (allLt_cons (by simpa [wf] using hwf)).1
      have := asm_enc4 arch x (xs'.flatMap (enc 4 arch)) hx
      exact ⟨by simpa [elems] using this, by simp [size, hp, elems], by simp [elems]⟩

/-- **timestamps on encoder output.** For a validated field numbered 253 — built from the decoder's factory, value
aligned with its base type — the timestamp the decoder-API model takes from the decoded value is the one the framing
decoder reads from the bytes. -/
theorem ts_marshal (fac : Factory) (hfac : facOKB fac = true) (m arch : Nat) (f : Field) (b : FieldBase) (bs : List Nat)
    (hb : f.base = some b) (hn : b.num = 253) (hwf : wf f.value = true) (hal : align f.value b.baseType = true)
    (hsz : size f.value ≤ 255) (hag : agreeField fac m f = true) (hm : marshal f.value arch = some bs) :
    tsOfN (fieldBack reread true fac m f) =
      Wire.tsFromField (fac.create m fieldNumTimestamp).known arch ⟨253, size f.value % 256, b.baseType⟩ bs := by
  have hsize : size f.value % 256 = size f.value := Nat.mod_eq_of_lt (by omega)
  have h253 : fieldNumTimestamp = 253 := rfl
  simp only [agreeField, hb] at hag
  rw [hn, ← h253] at hag
  by_cases hz : size f.value = 0
  · simp [fieldBack, hb, hz, tsOfN, Wire.tsFromField, hsize]
  · have hfb : fieldBack reread true fac m f = some ⟨b.num, (readAs fac m b f.value).1,
        reread (readAs fac m b f.value).1 (readAs fac m b f.value).2.1 (readAs fac m b f.value).2.2 f.value⟩ := by
      simp [fieldBack, hb, hz]
    rw [hfb]
    simp only [tsOfN, Wire.tsFromField, hsize, hz, ↓reduceIte]
    by_cases h32 : b.baseType = btUint32 ∨ b.baseType = btUint32z
    · obtain ⟨hasm, hsz4, hne⟩ := u32_bytes f.value b.baseType arch bs h32 hwf hal hz hm
      have hbs : btSize b.baseType = 4 := by rcases h32 with h | h <;> rw [h] <;> decide
      have hns : b.baseType ≠ btString := by rcases h32 with h | h <;> rw [h] <;> decide
      have hbt : (b.baseType == 0x86 || b.baseType == 0x8C) = true := by
        rcases h32 with h | h <;> rw [h] <;> decide
      have hlen1 : 1 ≤ (elems f.value).length := by
        cases he : elems f.value with
        | nil => exact absurd he hne
        | cons _ _ => simp
      have hs4 : ¬ size f.value < 4 := by rw [hsz4]; omega
      cases hk : (fac.create m fieldNumTimestamp).known
      · simp only [Bool.false_eq_true, ↓reduceIte, hbt, hs4, readAs, hn, ← h253, hk, hasm]
        by_cases harr : size f.value > 4 ∧ size f.value % 4 = 0
        · have ha : inferArray b.baseType f.value = true := by simp [inferArray, hns, hbs, harr]
          have hw : (decide (size f.value > 4) && size f.value % 4 == 0) = true := by simp [harr]
          rw [ha, hw]
          simp only [↓reduceIte]
          split
          · rename_i t ht; exact absurd ht (reread_not_u32 _ _ _ _ _ (Or.inl rfl))
          · rfl
        · have ha : inferArray b.baseType f.value = false := by simp [inferArray, hns, hbs, harr]
          have hw : (decide (size f.value > 4) && size f.value % 4 == 0) = false := by
            simp only [not_and] at harr
            by_cases h1 : size f.value > 4
            · simp [h1, harr h1]
            · simp [h1]
          rw [ha, hw, reread_u32_scalar _ _ _ h32]
          simp
      · obtain ⟨kbt, karr, kbool⟩ := facOK_ts fac hfac m hk
        simp only [hk, Bool.true_eq, Bool.not_true, Bool.false_or, Bool.and_eq_true, beq_iff_eq] at hag
        simp only [↓reduceIte, hs4, readAs, hn, ← h253, hk, kbt, karr, hasm]
        rw [reread_u32_scalar _ _ _ (Or.inl rfl)]
    · have hbt : (b.baseType == 0x86 || b.baseType == 0x8C) = false := by
        simp only [not_or] at h32
        have h1 : ¬ b.baseType = 0x86 := h32.1
        have h2 : ¬ b.baseType = 0x8C := h32.2
        simp [h1, h2]
      simp only [not_or] at h32
      cases hk : (fac.create m fieldNumTimestamp).known
      · simp only [Bool.false_eq_true, ↓reduceIte, hbt, readAs, hn, ← h253, hk]
        split
        · rename_i t ht; exact absurd ht (reread_not_u32 _ _ _ _ _ (Or.inr h32))
        · rfl
      · -- impossible: the factory knows field 253 as uint32, and so does the FieldBase
        obtain ⟨kbt, _, _⟩ := facOK_ts fac hfac m hk
        simp only [hk, Bool.true_eq, Bool.not_true, Bool.false_or, Bool.and_eq_true, beq_iff_eq] at hag
        exact absurd (by rw [← hag.2.1.1, kbt]) h32.1

end Fit.E2E
