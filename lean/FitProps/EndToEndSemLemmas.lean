import FitProps.EndToEndLoopLemmas
import FitProps.C10
/-!
What the items of an encoder-written record stream interpret to (C01 end to end): for validated messages, the items the
framing decoder returns for their wire form (`RecMatches`, from `C01_wire_records`) satisfy `GoodItems`, and the messages
they interpret to are the validated messages in one of their allowed forms (`seqMatches reread`).
-/
set_option linter.unusedSimpArgs false
namespace Fit.E2E
open Fit.Gen Fit.Gen.DecApi Fit.Value Fit.DecApi Fit.Crc Fit.Msg

/-! ### timestamps: the two decoders track the same ones on encoder output -/

theorem asmLE_eq_ofLE (bs : List Nat) : Wire.asmLE bs = ofLE bs := by
  induction bs with
  | nil => rfl
  | cons b bs ih => simp [Wire.asmLE, ofLE, ih]

/-- the uint32 both decoders assemble from the first four bytes of a marshalled uint32 -/
theorem asm_enc4 (arch x : Nat) (rest : List Nat) (hx : x < 2 ^ 32) :
    (if arch = 0 then Wire.asmLE ((enc 4 arch x ++ rest).take 4) else Wire.asmBE ((enc 4 arch x ++ rest).take 4)) = x := by
  have ht : (enc 4 arch x ++ rest).take 4 = enc 4 arch x := by
    rw [List.take_append_of_le_length (by simp), List.take_of_length_le (by simp)]
  rw [ht]
  by_cases ha : arch = 0
  · simp only [ha, ↓reduceIte, enc, littleEndian, leBytes, Wire.asmLE]
    omega
  · simp only [ha, ↓reduceIte, enc, littleEndian, leBytes, List.reverse_cons, List.reverse_nil, List.nil_append,
      List.cons_append, Wire.asmBE, List.foldl_cons, List.foldl_nil]
    omega

/-- the timestamp a decoded field carries, on the projection the property compares -/
def tsOfN : Option NField → Option Nat
  | some f => (match f.value with | .uint32 t => some t | _ => none)
  | none => none

theorem tsOfRes_proj (r : Option DField) : tsOfRes r = tsOfN (r.map projF) := by
  cases r with
  | none => rfl
  | some f => rfl

theorem scalarOf_not_u32 (bt : Nat) (ib : Bool) (x t : Nat) (h1 : bt ≠ btUint32) (h2 : bt ≠ btUint32z) :
    scalarOf bt ib x ≠ .uint32 t := by
  unfold scalarOf mkBool
  repeat' split
  all_goals (first | (intro h; cases h; done) | (intro h; rename_i hh; rcases hh with hh | hh <;> contradiction) | omega | simp_all)

theorem sliceOf_not_u32 (bt : Nat) (ib : Bool) (xs : List Nat) (t : Nat) : sliceOf bt ib xs ≠ .uint32 t := by
  unfold sliceOf
  repeat' split
  all_goals (intro h; cases h)

theorem create_mem (fac : Factory) (m n : Nat) (h : (fac.create m n).known = true) :
    ∃ e ∈ fac, e.mesgNum = m ∧ e.num = n ∧ e.info = fac.create m n := by
  unfold Factory.create at h ⊢
  cases hf : fac.find? (fun e => e.mesgNum == m && e.num == n) with
  | none => rw [hf] at h; simp [FieldInfo.unknown] at h
  | some e =>
    have hm := List.mem_of_find?_eq_some hf
    have hp := List.find?_some hf
    simp only [Bool.and_eq_true, beq_iff_eq] at hp
    exact ⟨e, hm, hp.1, hp.2, rfl⟩

theorem facOK_ts (fac : Factory) (hfac : facOKB fac = true) (m : Nat) (h : (fac.create m fieldNumTimestamp).known = true) :
    (fac.create m fieldNumTimestamp).bt = btUint32 ∧ (fac.create m fieldNumTimestamp).array = false ∧
      (fac.create m fieldNumTimestamp).isBool = false := by
  obtain ⟨e, he, _, hn, hi⟩ := create_mem fac m _ h
  have := (List.all_eq_true.mp hfac) e he
  simp only [Bool.and_eq_true, Bool.or_eq_true, bne_iff_ne, ne_eq, Bool.not_eq_true', beq_iff_eq] at this
  rw [← hi] at h ⊢
  rcases this.1 with (h1 | h1) | h1
  · exact absurd hn h1
  · rw [h1] at h; cases h
  · exact ⟨h1.1.1, h1.1.2, h1.2⟩

theorem reread_u32_scalar (bt : Nat) (ib : Bool) (v : Value) (h : bt = btUint32 ∨ bt = btUint32z) :
    reread bt ib false v = .uint32 ((elems v).headD 0) := by
  rcases h with h | h <;> subst h <;> rfl

theorem reread_not_u32 (bt : Nat) (ib arr : Bool) (v : Value) (t : Nat)
    (h : arr = true ∨ (bt ≠ btUint32 ∧ bt ≠ btUint32z)) : reread bt ib arr v ≠ .uint32 t := by
  unfold reread
  split
  · split <;> (intro hc; cases hc)
  · split
    · exact sliceOf_not_u32 _ _ _ _
    · rename_i harr
      rcases h with h | h
      · exact absurd h harr
      · exact scalarOf_not_u32 _ _ _ _ h.1 h.2

/-- the bytes of a value aligned with a uint32 base type start with its first element -/
theorem u32_bytes (v : Value) (bt arch : Nat) (bs : List Nat) (h : bt = btUint32 ∨ bt = btUint32z)
    (hwf : wf v = true) (hal : align v bt = true) (hz : size v ≠ 0) (hm : marshal v arch = some bs) :
    (if arch = 0 then Wire.asmLE (bs.take 4) else Wire.asmBE (bs.take 4)) = (elems v).headD 0 ∧
    size v = (elems v).length * 4 ∧ elems v ≠ [] := by
  have hp : protoSize typeUint32 = 4 := protoSize_table.2.2.2.2.2.2.2.1
  cases v <;> simp only [align, beq_iff_eq, Bool.or_eq_true] at hal <;>
    (try (exfalso; rcases h with h | h <;> subst h <;> revert hal <;> decide))
  case uint32 x =>
    have hx : x < 2 ^ 32 := by simpa [wf] using hwf
    simp only [marshal, Option.some.injEq] at hm
    subst hm
    have := asm_enc4 arch x [] hx
    simp only [List.append_nil] at this
    exact ⟨by simpa [elems] using this, by simp [size, typeOf, hp, elems], by simp [elems]⟩
  case sliceUint32 xs =>
    simp only [marshal, Option.some.injEq] at hm
    subst hm
    cases xs with
    | nil => simp [size, hp] at hz
    | cons x xs' =>
      have hx : x < 2 ^ 32 := (allLt_cons (by simpa [wf] using hwf)).1
      have := asm_enc4 arch x (xs'.flatMap (enc 4 arch)) hx
      exact ⟨by simpa [elems] using this, by simp [size, hp, elems], by simp [elems]⟩

/-- **timestamps on encoder output.** For a validated field numbered 253 — built from the decoder's factory, value
aligned with its base type — the timestamp the decoder-API model takes from the decoded value is the one the framing
decoder reads from the bytes. -/
theorem ts_marshal (fac : Factory) (hfac : facOKB fac = true) (m arch : Nat) (f : Field) (b : FieldBase) (bs : List Nat)
    (hb : f.base = some b) (hn : b.num = 253) (hwf : wf f.value = true) (hal : align f.value b.baseType = true)
    (hsz : size f.value ≤ 255) (hag : agreeField fac m f = true) (hm : marshal f.value arch = some bs) :
    tsOfN (fieldBack reread true fac m f) =
      Wire.tsFromField (fac.create m fieldNumTimestamp).known arch ⟨253, size f.value % 256, b.baseType⟩ bs := by
  have hsize : size f.value % 256 = size f.value := Nat.mod_eq_of_lt (by omega)
  have h253 : fieldNumTimestamp = 253 := rfl
  simp only [agreeField, hb] at hag
  rw [hn, ← h253] at hag
  by_cases hz : size f.value = 0
  · simp [fieldBack, hb, hz, tsOfN, Wire.tsFromField, hsize]
  · have hfb : fieldBack reread true fac m f = some ⟨b.num, (readAs fac m b f.value).1,
        reread (readAs fac m b f.value).1 (readAs fac m b f.value).2.1 (readAs fac m b f.value).2.2 f.value⟩ := by
      simp [fieldBack, hb, hz]
    rw [hfb]
    simp only [tsOfN, Wire.tsFromField, hsize, hz, ↓reduceIte]
    by_cases h32 : b.baseType = btUint32 ∨ b.baseType = btUint32z
    · obtain ⟨hasm, hsz4, hne⟩ := u32_bytes f.value b.baseType arch bs h32 hwf hal hz hm
      have hbs : btSize b.baseType = 4 := by rcases h32 with h | h <;> rw [h] <;> decide
      have hns : b.baseType ≠ btString := by rcases h32 with h | h <;> rw [h] <;> decide
      have hbt : (b.baseType == 0x86 || b.baseType == 0x8C) = true := by
        rcases h32 with h | h <;> rw [h] <;> decide
      have hlen1 : 1 ≤ (elems f.value).length := by
        cases he : elems f.value with
        | nil => exact absurd he hne
        | cons _ _ => simp
      have hs4 : ¬ size f.value < 4 := by rw [hsz4]; omega
      cases hk : (fac.create m fieldNumTimestamp).known
      · simp only [Bool.false_eq_true, ↓reduceIte, hbt, hs4, readAs, hn, ← h253, hk, hasm]
        by_cases harr : size f.value > 4 ∧ size f.value % 4 = 0
        · have ha : inferArray b.baseType f.value = true := by simp [inferArray, hns, hbs, harr]
          have hw : (decide (size f.value > 4) && size f.value % 4 == 0) = true := by simp [harr]
          rw [ha, hw]
          simp only [↓reduceIte]
          split
          · rename_i t ht; exact absurd ht (reread_not_u32 _ _ _ _ _ (Or.inl rfl))
          · rfl
        · have ha : inferArray b.baseType f.value = false := by simp [inferArray, hns, hbs, harr]
          have hw : (decide (size f.value > 4) && size f.value % 4 == 0) = false := by
            simp only [not_and] at harr
            by_cases h1 : size f.value > 4
            · simp [h1, harr h1]
            · simp [h1]
          rw [ha, hw, reread_u32_scalar _ _ _ h32]
          simp
      · obtain ⟨kbt, karr, kbool⟩ := facOK_ts fac hfac m hk
        simp only [hk, Bool.true_eq, Bool.not_true, Bool.false_or, Bool.and_eq_true, beq_iff_eq] at hag
        simp only [↓reduceIte, hs4, readAs, hn, ← h253, hk, kbt, karr, hasm]
        rw [reread_u32_scalar _ _ _ (Or.inl rfl)]
    · have hbt : (b.baseType == 0x86 || b.baseType == 0x8C) = false := by
        simp only [not_or] at h32
        have h1 : ¬ b.baseType = 0x86 := h32.1
        have h2 : ¬ b.baseType = 0x8C := h32.2
        simp [h1, h2]
      simp only [not_or] at h32
      cases hk : (fac.create m fieldNumTimestamp).known
      · simp only [Bool.false_eq_true, ↓reduceIte, hbt, readAs, hn, ← h253, hk]
        split
        · rename_i t ht; exact absurd ht (reread_not_u32 _ _ _ _ _ (Or.inr h32))
        · rfl
      · -- impossible: the factory knows field 253 as uint32, and so does the FieldBase
        obtain ⟨kbt, _, _⟩ := facOK_ts fac hfac m hk
        simp only [hk, Bool.true_eq, Bool.not_true, Bool.false_or, Bool.and_eq_true, beq_iff_eq] at hag
        exact absurd (by rw [← hag.2.1.1, kbt]) h32.1

/-! ### field descriptions: encoder and decoder read the same keys -/

open Fit.Validator in
/-- the validator's `vals[num]` loop, one field -/
def fdStep (k : Nat) (acc : Value) (f : Field) : Value :=
  match f.base with
  | some b => if b.num == k && b.nameKnown && b.num ≤ 15 then f.value else acc
  | none => acc

theorem fdVal_eq (fs : List Field) (k : Nat) : Fit.Validator.fdVal fs k = fs.foldl (fdStep k) .invalid := rfl

/-- the decoder's `vals[num]`: the last selected field's value, `acc` if there is none -/
def lastSel (k : Nat) (acc : Value) (ds : List DField) : Value :=
  match (ds.filter (fun f => decide (f.num ≤ fieldDescBound) && f.known && f.num == k)).getLast? with
  | some f => f.value
  | none => acc

theorem valsOf_eq (ds : List DField) (k : Nat) : valsOf fieldDescBound ds k = lastSel k .invalid ds := rfl

theorem lastSel_cons (k : Nat) (acc : Value) (d : DField) (ds : List DField) :
    lastSel k acc (d :: ds) =
      lastSel k (if (decide (d.num ≤ fieldDescBound) && d.known && d.num == k) = true then d.value else acc) ds := by
  unfold lastSel
  by_cases hs : (decide (d.num ≤ fieldDescBound) && d.known && d.num == k) = true
  · simp only [List.filter_cons, hs, ↓reduceIte]
    cases hf : ds.filter (fun f => decide (f.num ≤ fieldDescBound) && f.known && f.num == k) with
    | nil => simp
    | cons x xs =>
      cases hl : (x :: xs).getLast? with
      | none => simp at hl
      | some y => simp [List.getLast?_cons_cons, hl]
  · simp only [List.filter_cons, hs, Bool.false_eq_true, ↓reduceIte]

theorem scalarOf_u8 (bt x : Nat) (h1 : btSize bt = 1) (h2 : bt ≠ btSint8) (h3 : bt ≠ btString) :
    scalarOf bt false x = .uint8 x := by
  have hv : btValid bt = true := by simp [btValid, h1]
  have hm := (btValid_iff bt).mp hv
  simp only [baseTypeList, List.mem_cons, List.not_mem_nil, or_false] at hm
  rcases hm with h | h | h | h | h | h | h | h | h | h | h | h | h | h | h | h | h <;> subst h <;>
    first
    | rfl
    | (exfalso; revert h1; decide)
    | (exfalso; exact h2 (by decide))
    | (exfalso; exact h3 (by decide))

/-- the members of a field-description message both sides key developer fields by -/
def isKey (k : Nat) : Prop :=
  k = fnFieldDescriptionDeveloperDataIndex ∨ k = fnFieldDescriptionFieldDefinitionNumber ∨ k = fnFieldDescriptionFitBaseTypeId

theorem facOK_key (fac : Factory) (hfac : facOKB fac = true) (k : Nat) (hk : isKey k)
    (h : (fac.create mesgNumFieldDescription k).known = true) :
    btSize (fac.create mesgNumFieldDescription k).bt = 1 ∧ (fac.create mesgNumFieldDescription k).array = false ∧
    (fac.create mesgNumFieldDescription k).isBool = false ∧ (fac.create mesgNumFieldDescription k).bt ≠ btSint8 ∧
    (fac.create mesgNumFieldDescription k).bt ≠ btString := by
  obtain ⟨e, he, hm, hn, hi⟩ := create_mem fac _ _ h
  have := (List.all_eq_true.mp hfac) e he
  simp only [Bool.and_eq_true, Bool.or_eq_true, bne_iff_ne, ne_eq, Bool.not_eq_true', beq_iff_eq, Bool.not_eq_false'] at this
  rw [← hi] at h ⊢
  rcases this.2 with ((h1 | h1) | h1) | h1
  · exact absurd hm h1
  · rw [h1] at h; cases h
  · exfalso
    rw [hn] at h1
    rcases hk with hk | hk | hk <;> simp [hk] at h1
  · exact ⟨h1.1.1.1.1, h1.1.1.1.2, h1.1.1.2, h1.1.2, h1.2⟩

/-- one validated field of a field-description message against its decoded form -/
theorem key_step (fac : Factory) (hfac : facOKB fac = true) (k : Nat) (hk : isKey k) (f : Field)
    (hbase : f.base.isSome = true) (hag : agreeField fac mesgNumFieldDescription f = true)
    (hplain : ∀ b, f.base = some b → b.num = k → ∃ x, f.value = .uint8 x)
    (acc accD : Value) (hacc : uint8Of accD = uint8Of acc) :
    uint8Of (match dfieldBack fac mesgNumFieldDescription f with
      | some d => if (decide (d.num ≤ fieldDescBound) && d.known && d.num == k) = true then d.value else accD
      | none => accD) = uint8Of (fdStep k acc f) := by
  have hk15 : k ≤ 15 := by rcases hk with h | h | h <;> rw [h] <;> decide
  cases hb : f.base with
  | none => rw [hb] at hbase; cases hbase
  | some b =>
    simp only [agreeField, hb, Bool.and_eq_true, beq_iff_eq] at hag
    simp only [fdStep, hb]
    by_cases hsel : b.num = k ∧ b.nameKnown = true
    · obtain ⟨hnum, hnk⟩ := hsel
      obtain ⟨x, hx⟩ := hplain b hb hnum
      have hkn : (fac.create mesgNumFieldDescription b.num).known = true := by rw [hag.1, hnk]
      have hkey := facOK_key fac hfac k hk (by rw [← hnum]; exact hkn)
      rw [← hnum] at hkey
      have hsz : size f.value ≠ 0 := by rw [hx]; show protoSize typeUint8 ≠ 0; decide
      have hd : dfieldBack fac mesgNumFieldDescription f = some ⟨b.num, (fac.create mesgNumFieldDescription b.num).bt, true,
          (fac.create mesgNumFieldDescription b.num).isBool, (fac.create mesgNumFieldDescription b.num).array,
          reread (fac.create mesgNumFieldDescription b.num).bt (fac.create mesgNumFieldDescription b.num).isBool
            (fac.create mesgNumFieldDescription b.num).array f.value, false⟩ := by
        simp [dfieldBack, hb, hsz, readAs, hkn]
      rw [hd]
      have hb15 : b.num ≤ 15 := by rw [hnum]; exact hk15
      have hsel1 : (decide (b.num ≤ fieldDescBound) && true && b.num == k) = true := by
        simp [fieldDescBound, hb15, hnum, hk15]
      have hsel2 : (b.num == k && b.nameKnown && decide (b.num ≤ 15)) = true := by simp [hnum, hnk, hk15]
      simp only [hsel1, hsel2, ↓reduceIte]
      rw [hx, hkey.2.1, hkey.2.2.1]
      have : reread (fac.create mesgNumFieldDescription b.num).bt false false (.uint8 x) = .uint8 x := by
        unfold reread
        rw [if_neg hkey.2.2.2.2]
        simp only [Bool.false_eq_true, ↓reduceIte, elems, List.headD_cons]
        exact scalarOf_u8 _ _ hkey.1 hkey.2.2.2.1 hkey.2.2.2.2
      rw [this]
    · have hsel2 : (b.num == k && b.nameKnown && decide (b.num ≤ 15)) = false := by
        simp only [not_and, Bool.not_eq_true] at hsel
        by_cases h1 : b.num = k
        · simp [h1, hsel h1]
        · simp [h1]
      simp only [hsel2, Bool.false_eq_true, ↓reduceIte]
      cases hd : dfieldBack fac mesgNumFieldDescription f with
      | none => exact hacc
      | some d =>
        have hdn : d.num = b.num ∧ d.known = (fac.create mesgNumFieldDescription b.num).known := by
          simp only [dfieldBack, hb] at hd
          split at hd
          · cases hd
          · simp only [Option.some.injEq] at hd
            rw [← hd]; exact ⟨rfl, rfl⟩
        have : (decide (d.num ≤ fieldDescBound) && d.known && d.num == k) = false := by
          rw [hdn.1, hdn.2, hag.1]
          simp only [not_and, Bool.not_eq_true] at hsel
          by_cases h1 : b.num = k
          · simp [h1, hsel h1]
          · simp [h1]
        simp only [this, Bool.false_eq_true, ↓reduceIte]
        exact hacc

theorem key_fold (fac : Factory) (hfac : facOKB fac = true) (k : Nat) (hk : isKey k) : ∀ (fs : List Field),
    (∀ f ∈ fs, f.base.isSome = true ∧ agreeField fac mesgNumFieldDescription f = true ∧
      ∀ b, f.base = some b → b.num = k → ∃ x, f.value = .uint8 x) →
    ∀ (acc accD : Value), uint8Of accD = uint8Of acc →
    uint8Of (lastSel k accD (fs.filterMap (dfieldBack fac mesgNumFieldDescription))) = uint8Of (fs.foldl (fdStep k) acc) := by
  intro fs
  induction fs with
  | nil => intro _ acc accD h; simpa [lastSel] using h
  | cons f fs ih =>
    intro hall acc accD hacc
    obtain ⟨h1, h2, h3⟩ := hall f (by simp)
    have hstep := key_step fac hfac k hk f h1 h2 h3 acc accD hacc
    simp only [List.foldl_cons, List.filterMap_cons]
    cases hd : dfieldBack fac mesgNumFieldDescription f with
    | none =>
      rw [hd] at hstep
      exact ih (fun g hg => hall g (List.mem_cons_of_mem _ hg)) _ _ hstep
    | some d =>
      rw [hd] at hstep
      simp only
      rw [lastSel_cons]
      exact ih (fun g hg => hall g (List.mem_cons_of_mem _ hg)) _ _ hstep

theorem fold_removeTs (k : Nat) (hk : k ≠ 253) : ∀ (fs : List Field) (acc : Value),
    (removeTs fs).foldl (fdStep k) acc = fs.foldl (fdStep k) acc := by
  intro fs
  induction fs with
  | nil => intro _; rfl
  | cons f fs ih =>
    intro acc
    simp only [removeTs]
    cases hb : f.base with
    | none => simp only [List.foldl_cons]; rw [ih]
    | some b =>
      simp only
      by_cases h : (b.num == Wire.tsFieldNum) = true
      · simp only [h, ↓reduceIte, List.foldl_cons]
        have : fdStep k acc f = acc := by
          simp only [fdStep, hb]
          have hb' : b.num = 253 := by simpa [Wire.tsFieldNum] using h
          have : (b.num == k) = false := by simp [hb']; omega
          simp [this]
        rw [this]
      · simp only [h, Bool.false_eq_true, ↓reduceIte, List.foldl_cons]; rw [ih]

theorem lastSel_pre (k : Nat) (acc : Value) : ∀ (pre ds : List DField), (∀ d ∈ pre, d.num = 253) →
    lastSel k acc (pre ++ ds) = lastSel k acc ds := by
  intro pre
  induction pre with
  | nil => intro ds _; rfl
  | cons d pre ih =>
    intro ds h
    rw [List.cons_append, lastSel_cons]
    have hd : d.num = 253 := h d (by simp)
    have : (decide (d.num ≤ fieldDescBound) && d.known && d.num == k) = false := by
      simp [hd, fieldDescBound]
    simp only [this, Bool.false_eq_true, ↓reduceIte]
    exact ih ds (fun x hx => h x (List.mem_cons_of_mem _ hx))

/-- what both sides remember of a field description -/
def cvDesc (fd : Fit.Validator.FieldDesc) : Desc := ⟨fd.ddi, fd.fdn, fd.btId⟩

theorem mem_removeTs (fs : List Field) : ∀ f ∈ removeTs fs, f ∈ fs := by
  induction fs with
  | nil => intro f h; cases h
  | cons g gs ih =>
    intro f h
    simp only [removeTs] at h
    cases hb : g.base with
    | none =>
      rw [hb] at h
      rcases List.mem_cons.mp h with rfl | h
      · simp
      · exact List.mem_cons_of_mem _ (ih f h)
    | some b =>
      rw [hb] at h
      simp only at h
      split at h
      · exact List.mem_cons_of_mem _ h
      · rcases List.mem_cons.mp h with rfl | h
        · simp
        · exact List.mem_cons_of_mem _ (ih f h)

/-- **encoder and decoder remember the same field descriptions.** After a validated message — built from the decoder's
factory, its description keys plain `uint8` scalars — the decoder's list of field descriptions (fed from the DECODED
fields, with or without the timestamp moved into the header) is the image of the validator's (fed from the validated
fields). -/
theorem desc_sync (fac : Factory) (hfac : facOKB fac = true) (m : Message) (used : List Field) (pre : List DField)
    (hpre : ∀ d ∈ pre, d.num = 253) (hused : used = m.fields ∨ used = removeTs m.fields)
    (hdom : ∀ f ∈ m.fields, f.base.isSome = true ∧ agreeField fac m.num f = true) (hplain : plainKeys m = true)
    (vst : Fit.Validator.State) :
    descsAfter (vst.fds.map cvDesc) m.num (pre ++ used.filterMap (dfieldBack fac m.num)) =
      (Fit.Validator.remember vst m.num m.fields).fds.map cvDesc := by
  by_cases h206 : m.num = mesgNumFieldDescription
  · have h207 : ¬ m.num = mesgNumDeveloperDataId := by rw [h206]; decide
    have hrem : (Fit.Validator.remember vst m.num m.fields).fds = vst.fds ++ [Fit.Validator.newFieldDesc m.fields] := by
      have hne : ¬ mesgNumFieldDescription = mesgNumDeveloperDataId := by decide
      simp only [Fit.Validator.remember, h206, hne, ↓reduceIte]
    rw [hrem, List.map_append, List.map_cons, List.map_nil]
    simp only [descsAfter, h206, ↓reduceIte]
    congr 2
    -- the three keys
    have hsub : ∀ f ∈ used, f ∈ m.fields := by
      rcases hused with h | h
      · rw [h]; exact fun f hf => hf
      · rw [h]; exact mem_removeTs m.fields
    have hkey : ∀ k, isKey k → uint8Of (valsOf fieldDescBound (pre ++ used.filterMap (dfieldBack fac mesgNumFieldDescription)) k) =
        uint8Of (Fit.Validator.fdVal m.fields k) := by
      intro k hk
      have hk253 : k ≠ 253 := by rcases hk with h | h | h <;> rw [h] <;> decide
      rw [valsOf_eq, lastSel_pre k _ pre _ hpre, fdVal_eq]
      have hfold : used.foldl (fdStep k) .invalid = m.fields.foldl (fdStep k) .invalid := by
        rcases hused with h | h
        · rw [h]
        · rw [h]; exact fold_removeTs k hk253 _ _
      rw [← hfold]
      refine key_fold fac hfac k hk used ?_ .invalid .invalid rfl
      intro f hf
      have hfm := hsub f hf
      obtain ⟨h1, h2⟩ := hdom f hfm
      refine ⟨h1, by rw [← h206]; exact h2, ?_⟩
      intro b hb hbn
      simp only [plainKeys, h206, ↓reduceIte, List.all_eq_true] at hplain
      have := hplain f hfm
      simp only [hb, Bool.or_eq_true, Bool.not_eq_true', Bool.or_eq_false_iff, beq_eq_false_iff_ne, ne_eq] at this
      rcases this with h | h
      · exfalso
        rcases hk with hk | hk | hk
        · exact h.1.1 (by rw [hbn, hk])
        · exact h.1.2 (by rw [hbn, hk])
        · exact h.2 (by rw [hbn, hk])
      · cases hv : f.value <;> rw [hv] at h <;> simp at h
        exact ⟨_, rfl⟩
    simp only [mkDesc, cvDesc, Fit.Validator.newFieldDesc]
    rw [hkey _ (Or.inl rfl), hkey _ (Or.inr (Or.inl rfl)), hkey _ (Or.inr (Or.inr rfl))]
  · have hrem : (Fit.Validator.remember vst m.num m.fields).fds = vst.fds := by
      simp only [Fit.Validator.remember, h206, ↓reduceIte]
      split <;> rfl
    rw [hrem]
    simp only [descsAfter, h206, ↓reduceIte]

end Fit.E2E
