import FitModel.Wire
import FitModel.Generated.Go_encoderlru
import FitProps.Go2LeanLemmas
/-!
Agreement of the LRU of local message definitions GENERATED from encoder/lru.go (`Put`, `bucketIndex`, `store`,
`markAsRecentlyUsed`, `replaceLeastRecentlyUsed`, `Reset`, `ResetWithNewSize`: a down-counting search loop with an early
return, `append` splices, `copy` into a sub-slice, `make`, and the capacity test / re-slice of the stored item, whose hidden
state — what lies between length and capacity — is a universally quantified parameter) with the model `Fit.Wire.Lru` that
the round-trip theorems of C01 are about: a SIMULATION, for every item, every state the relation `LruRep` admits and every
hidden tail: the Go `Put` does not panic, returns the model's (index, isNew), and leaves a state related to the model's.
-/
set_option linter.unusedSimpArgs false
set_option linter.unnecessarySimpa false
namespace Fit.Go2Lean
open Fit.Wire

theorem downI_neg : Go.downI (-1) 0 = [] := by simp [Go.downI]
theorem downI_succ (n : Nat) : Go.downI (n : Int) 0 = (n : Int) :: Go.downI ((n : Int) - 1) 0 := by
  cases n with
  | zero => simp [Go.downI]
  | succ m =>
    unfold Go.downI
    have h1 : (((m + 1 : Nat) : Int) + 1 - 0).toNat = (m + 1) + 1 := by omega
    have h2 : (((m + 1 : Nat) : Int) - 1 + 1 - 0).toNat = m + 1 := by omega
    rw [h1, h2, List.range_succ_eq_map, List.map_cons, List.map_map]
    congr 1
    simp
    intro a _; omega


theorem forIn_downI_miss {β : Type} (F : Int → β → Option (ForInStep β)) (s : β) (n : Nat)
    (hskip : ∀ j : Nat, j < n → F j s = some (.yield s)) : forIn (Go.downI ((n : Int) - 1) 0) s F = some s := by
  induction n with
  | zero => simp [downI_neg]
  | succ m ih =>
    have : ((m + 1 : Nat) : Int) - 1 = (m : Int) := by omega
    rw [this, downI_succ, List.forIn_cons, hskip m (by omega)]
    simpa using ih (fun j hj => hskip j (by omega))

theorem forIn_downI_hit {β : Type} (F : Int → β → Option (ForInStep β)) (s r : β) (k d : Nat)
    (hskip : ∀ j : Nat, k < j → j ≤ k + d → F j s = some (.yield s)) (hhit : F k s = some (.done r)) :
    forIn (Go.downI ((k + d : Nat) : Int) 0) s F = some r := by
  induction d with
  | zero => rw [Nat.add_zero, downI_succ, List.forIn_cons, hhit]; rfl
  | succ e ih =>
    rw [downI_succ, List.forIn_cons, hskip (k + (e + 1)) (by omega) (by omega)]
    have : ((k + (e + 1) : Nat) : Int) - 1 = ((k + e : Nat) : Int) := by omega
    rw [this]
    simpa using ih (fun j h1 h2 => hskip j h1 (by omega))

theorem idxI_nat {α} (l : List α) (j : Nat) : Go.idxI l (j : Int) = l[j]? := by
  unfold Go.idxI
  have : ¬ ((j : Int) < 0) := by omega
  simp [this]

theorem wrapI64_small (x : Int) (h1 : -1 ≤ x) (h2 : x < 1000) : Go.wrapI 64 x = x := by
  unfold Go.wrapI; omega

/-- `bucketIndex` when no stored item equals `item`: -1 -/
theorem lru_bucketIndex_miss (g : Go.encoderlru.lru) (item : List Nat) (hs : g.bucket.length < 256)
    (hlt : ∀ c ∈ g.bucket, c < g.items.length) (hno : ∀ c ∈ g.bucket, g.items[c]? ≠ some item) :
    Go.encoderlru.lru.bucketIndex g item = some (-1) := by
  unfold Go.encoderlru.lru.bucketIndex
  rw [wrapI64_small _ (by omega) (by omega), forIn_downI_miss]
  · rfl
  · intro j hj
    have hc : g.bucket[j] ∈ g.bucket := List.getElem_mem hj
    have h1 := hlt _ hc
    have h2 := hno _ hc
    simp only [idxI_nat, idx_eq, List.getElem?_eq_getElem hj, List.getElem?_eq_getElem h1, Option.bind_eq_bind, Option.bind_some] at h2 ⊢
    have : (g.items[g.bucket[j]] == item) = false := by
      simp only [beq_eq_false_iff_ne]; intro h; exact h2 (by rw [h])
    simp [this]

/-- `bucketIndex` when position `k` holds the item and no later position does: `k` -/
theorem lru_bucketIndex_hit (g : Go.encoderlru.lru) (item : List Nat) (hs : g.bucket.length < 256)
    (hlt : ∀ c ∈ g.bucket, c < g.items.length) (pre suf : List Nat) (c : Nat) (hb : g.bucket = pre ++ c :: suf)
    (hc : g.items[c]? = some item) (hno : ∀ c' ∈ suf, g.items[c']? ≠ some item) :
    Go.encoderlru.lru.bucketIndex g item = some (pre.length : Int) := by
  unfold Go.encoderlru.lru.bucketIndex
  have hlen : g.bucket.length = pre.length + suf.length + 1 := by simp [hb]; omega
  have e : Go.wrapI 64 ((g.bucket.length : Int) - 1) = ((pre.length + suf.length : Nat) : Int) := by
    rw [wrapI64_small _ (by omega) (by omega)]; omega
  rw [e, forIn_downI_hit (r := (some (pre.length : Int), ())) (k := pre.length) (d := suf.length)]
  · rfl
  · intro j h1 h2
    have hj : j < g.bucket.length := by omega
    have hmem : g.bucket[j] ∈ suf := by
      obtain ⟨t, ht⟩ : ∃ t, j - pre.length = t + 1 := ⟨j - pre.length - 1, by omega⟩
      have : g.bucket[j]? = suf[t]? := by
        rw [hb, List.getElem?_append_right (by omega), ht, List.getElem?_cons_succ]
      rw [List.getElem?_eq_getElem hj] at this
      exact List.mem_of_getElem? this.symm
    have hc' : g.bucket[j] ∈ g.bucket := List.getElem_mem hj
    have h3 := hlt _ hc'
    have h4 := hno _ hmem
    simp only [idxI_nat, idx_eq, List.getElem?_eq_getElem hj, List.getElem?_eq_getElem h3, Option.bind_eq_bind, Option.bind_some] at h4 ⊢
    have : (g.items[g.bucket[j]] == item) = false := by
      simp only [beq_eq_false_iff_ne]; intro h; exact h4 (by rw [h])
    simp [this]
  · have h1 : g.bucket[pre.length]? = some c := by rw [hb]; simp
    simp [idxI_nat, h1, hc]

theorem natOfInt_nat (n : Nat) : Go.natOfInt (n : Int) = some n := by
  unfold Go.natOfInt
  have : ¬ ((n : Int) < 0) := by omega
  simp [this]

/-- `markAsRecentlyUsed(k)`: the index at position `k` moves to the most recently used end -/
theorem lru_mark (g : Go.encoderlru.lru) (pre suf : List Nat) (c : Nat) (hb : g.bucket = pre ++ c :: suf)
    (hs : g.bucket.length < 256) :
    Go.encoderlru.lru.markAsRecentlyUsed g (pre.length : Int) = some ({ g with bucket := pre ++ suf ++ [c] }, c) := by
  unfold Go.encoderlru.lru.markAsRecentlyUsed
  have hlen : g.bucket.length = pre.length + suf.length + 1 := by simp [hb]; omega
  have e : Go.wrapI 64 ((pre.length : Int) + 1) = ((pre.length + 1 : Nat) : Int) := by
    rw [wrapI64_small _ (by omega) (by omega)]; omega
  have h1 : g.bucket[pre.length]? = some c := by rw [hb]; simp
  simp only [e, idxI_nat, natOfInt_nat, h1, Go.slice, Option.bind_eq_bind, Option.bind_some, Option.pure_def]
  have t1 : List.take (pre.length + (suf.length + 1)) (pre ++ c :: suf) = pre ++ c :: suf :=
    List.take_of_length_le (by simp)
  have t2 : List.drop (pre.length + 1) (pre ++ c :: suf) = suf := by
    have : pre ++ c :: suf = (pre ++ [c]) ++ suf := by simp
    rw [this]; exact List.drop_left' (by simp)
  simp [hb, t1, t2]

/-- `store`: the item goes to the first free index -/
theorem lru_store (g : Go.encoderlru.lru) (item : List Nat) (h1 : g.bucket.length < g.items.length)
    (hs : g.items.length < 256) :
    Go.encoderlru.lru.store g item =
      some ({ items := g.items.set g.bucket.length item, bucket := g.bucket ++ [g.bucket.length] }, g.bucket.length) := by
  unfold Go.encoderlru.lru.store
  have e : Int.toNat ((g.bucket.length : Int) % 2 ^ 8) = g.bucket.length := by omega
  simp only [e, natOfInt_nat, Go.setIdx, h1, if_true, idx_eq, Option.bind_eq_bind, Option.bind_some, Option.pure_def,
    List.length_set, List.getElem?_set_self h1, Go.copyInto, List.length_replicate, List.set_set]
  simp

/-- `replaceLeastRecentlyUsed`: the least recently used index gets the item and becomes the most recently used — whatever
the capacity of the slice stored there and the stale bytes behind it are -/
theorem lru_replace (g : Go.encoderlru.lru) (item tail : List Nat) (c0 : Nat) (rest : List Nat)
    (hb : g.bucket = c0 :: rest) (hc : c0 < g.items.length) (hs : g.bucket.length < 256) :
    Go.encoderlru.lru.replaceLeastRecentlyUsed g item tail =
      some ({ items := g.items.set c0 item, bucket := rest ++ [c0] }, c0) := by
  unfold Go.encoderlru.lru.replaceLeastRecentlyUsed
  have hlen : g.bucket.length = rest.length + 1 := by simp [hb]
  have e : Go.wrapI 64 ((g.bucket.length : Int) - 1) = (rest.length : Int) := by
    rw [wrapI64_small _ (by omega) (by omega)]; omega
  have h0 : Go.idxI g.bucket (0 : Int) = some c0 := by simp [Go.idxI, hb]
  simp only [e, h0, natOfInt_nat, Go.slice, Option.bind_eq_bind, Option.bind_some, Option.pure_def]
  have hsl : List.drop 1 (List.take g.bucket.length g.bucket) = rest := by simp [hb]
  have hle : 1 ≤ g.bucket.length ∧ g.bucket.length ≤ g.bucket.length := by omega
  obtain ⟨x, hx⟩ : ∃ x, g.bucket.drop rest.length = [x] := by
    have : (g.bucket.drop rest.length).length = 1 := by simp [hlen]
    match h : g.bucket.drop rest.length, this with
    | [x], _ => exact ⟨x, rfl⟩
  have hcp : Go.copySlice g.bucket 0 rest.length rest = some (rest ++ [x]) := by
    have : 0 ≤ rest.length ∧ rest.length ≤ g.bucket.length := by omega
    simp only [Go.copySlice, this, and_self, if_true, Go.copyInto, List.take_zero, List.drop_zero, List.nil_append, hx,
      List.length_take, hlen]
    have h3 : List.drop rest.length (List.take rest.length g.bucket) = [] := by simp
    simp [h3]
  have hset : Go.setIdxI (rest ++ [x]) (Go.wrapI 64 (((rest ++ [x]).length : Int) - 1)) c0 = some (rest ++ [c0]) := by
    have : Go.wrapI 64 (((rest ++ [x]).length : Int) - 1) = (rest.length : Int) := by
      rw [wrapI64_small _ (by simp) (by simp; omega)]; simp
    rw [this]
    have h2 : ¬ ((rest.length : Int) < 0) := by omega
    simp [Go.setIdxI, Go.setIdx, h2]
  have hold : g.items[c0]? = some g.items[c0] := List.getElem?_eq_getElem hc
  simp only [hsl, hle, and_self, if_true, Option.bind_some, hcp, hset, idx_eq, hold]
  have hfin : ∀ (y : List Nat), y.length = item.length →
      ((Go.setIdx g.items c0 y).bind fun a => (a[c0]?).bind fun b => (Go.setIdx a c0 (Go.copyInto b item)).bind fun d =>
        some (({ items := d, bucket := rest ++ [c0] } : Go.encoderlru.lru), c0)) =
      some ({ items := g.items.set c0 item, bucket := rest ++ [c0] }, c0) := by
    intro y hy
    have : List.drop item.length y = [] := List.drop_eq_nil_of_le (by omega)
    simp [Go.setIdx, hc, Go.copyInto, hy, this]
  split
  · exact hfin _ (by simp)
  · rename_i hcap
    have hn : item.length ≤ g.items[c0].length + tail.length := by
      have h' := hcap   -- `<` in the source; `<=` would do as well (then the spare element is simply not used)
      simp only [decide_eq_true_eq] at h'
      unfold Go.capOf at h'
      omega
    simp only [Go.reslice, hn, if_true, Option.bind_some]
    exact hfin _ (by simp; omega)

/-! ### the representation relation and the simulation -/

theorem lru_get_set_same (l : Lru) (i : Nat) (b : Bytes) : (l.set i b).get i = some b := by
  simp [Lru.get, Lru.set]

theorem lru_get_set_other (l : Lru) (i j : Nat) (b : Bytes) (h : j ≠ i) : (l.set i b).get j = l.get j := by
  simp only [Lru.get, Lru.set]
  have hji : ((i, b).1 == j) = false := by simp; omega
  rw [List.find?_cons_of_neg (by simpa using hji)]
  congr 1
  induction l.items with
  | nil => rfl
  | cons x xs ih =>
    by_cases hx : x.1 = i
    · have : (x.1 != i) = false := by simp [hx]
      have hxj : (x.1 == j) = false := by simp [hx]; omega
      simp [List.filter_cons, this, List.find?_cons, hxj, ih]
    · have : (x.1 != i) = true := by simp [hx]
      simp only [List.filter_cons, this, if_true, List.find?_cons]
      split <;> simp_all

/-- `LruRep g m`: the Go value `g` of `encoder.lru` (cell-exact: the slice of stored items and the bucket of indexes) is a
state the model's `m : Fit.Wire.Lru` stands for. Besides "same bucket, same capacity, same item under every live index" it
carries the invariant of encoder/lru.go that the model relies on when it searches from the other end: the bucket is a
duplicate-free list of the indexes below its own length, the items under live indexes are pairwise different. -/
structure LruRep (g : Go.encoderlru.lru) (m : Lru) : Prop where
  pos : 0 < g.items.length
  small : g.items.length < 256
  cap : m.cap = g.items.length
  bucket : m.bucket = g.bucket
  len : g.bucket.length ≤ g.items.length
  lt : ∀ c ∈ g.bucket, c < g.bucket.length
  get : ∀ c ∈ g.bucket, m.get c = g.items[c]?
  nodup : g.bucket.Nodup
  distinct : ∀ c ∈ g.bucket, ∀ c' ∈ g.bucket, g.items[c]? = g.items[c']? → c = c'

theorem find_mid (p : Nat → Bool) (pre suf : List Nat) (c : Nat) (hpre : ∀ x ∈ pre, p x = false) (hc : p c = true) :
    (pre ++ c :: suf).find? p = some c := by
  induction pre with
  | nil => simp [hc]
  | cons a pre ih =>
    have := hpre a (by simp)
    simp only [List.cons_append, List.find?_cons, this]
    exact ih (fun x hx => hpre x (by simp [hx]))

theorem filter_mid (pre suf : List Nat) (c : Nat) (h : (pre ++ c :: suf).Nodup) :
    (pre ++ c :: suf).filter (· != c) = pre ++ suf := by
  have h1 : ∀ x ∈ pre, x ≠ c := by
    intro x hx e; subst e
    have := List.nodup_append.mp h
    exact this.2.2 x hx x (by simp) rfl
  have h2 : ∀ x ∈ suf, x ≠ c := by
    intro x hx e; subst e
    have := (List.nodup_append.mp h).2.1
    simp at this; exact this.1 hx
  rw [List.filter_append, List.filter_cons]
  simp only [bne_self_eq_false, Bool.false_eq_true, if_false]
  rw [List.filter_eq_self.mpr (fun x hx => by simpa using h1 x hx), List.filter_eq_self.mpr (fun x hx => by simpa using h2 x hx)]

/-- the relation survives writing `item` under index `i` and re-ordering the bucket, as `store` and
`replaceLeastRecentlyUsed` do, when no other live index holds `item` -/
theorem LruRep.update {g : Go.encoderlru.lru} {m : Lru} (h : LruRep g m) (i : Nat) (hi : i < g.items.length)
    (b' : List Nat) (item : List Nat) (hlen : b'.length ≤ g.items.length) (hlt : ∀ c ∈ b', c < b'.length)
    (hnd : b'.Nodup) (hold : ∀ c ∈ b', c ≠ i → c ∈ g.bucket)
    (hno : ∀ c ∈ g.bucket, c ≠ i → g.items[c]? ≠ some item) :
    LruRep { items := g.items.set i item, bucket := b' } { (m.set i item) with bucket := b' } where
  pos := by simpa using h.pos
  small := by simpa using h.small
  cap := by simpa [Lru.set] using h.cap
  bucket := rfl
  len := by simpa using hlen
  lt := hlt
  nodup := hnd
  get := by
    intro c hc
    by_cases e : c = i
    · subst e
      have := lru_get_set_same m c item
      simp only [Lru.get] at this ⊢
      rw [this, List.getElem?_set_self hi]
    · have := lru_get_set_other m i c item e
      simp only [Lru.get] at this ⊢
      rw [this, List.getElem?_set_ne (Ne.symm e)]
      exact h.get c (hold c hc e)
  distinct := by
    intro c hc c' hc' e
    simp only [] at e
    by_cases e1 : c = i <;> by_cases e2 : c' = i
    · rw [e1, e2]
    · subst e1
      rw [List.getElem?_set_self hi, List.getElem?_set_ne (Ne.symm e2)] at e
      exact absurd e.symm (hno c' (hold c' hc' e2) e2)
    · subst e2
      rw [List.getElem?_set_self hi, List.getElem?_set_ne (Ne.symm e1)] at e
      exact absurd e (hno c (hold c hc e1) e1)
    · rw [List.getElem?_set_ne (Ne.symm e1), List.getElem?_set_ne (Ne.symm e2)] at e
      exact h.distinct c (hold c hc e1) c' (hold c' hc' e2) e

theorem lru_put (g : Go.encoderlru.lru) (m : Lru) (h : LruRep g m) (item tail : List Nat) :
    ∃ g', Go.encoderlru.lru.Put g item tail = some (g', (m.put item).2.1, (m.put item).2.2) ∧
      LruRep g' (m.put item).1 := by
  have hsb : g.bucket.length < 256 := Nat.lt_of_le_of_lt h.len h.small
  have hlt : ∀ c ∈ g.bucket, c < g.items.length := fun c hc => Nat.lt_of_lt_of_le (h.lt c hc) h.len
  by_cases hex : ∃ c ∈ g.bucket, g.items[c]? = some item
  · obtain ⟨c, hc, hci⟩ := hex
    obtain ⟨pre, suf, hb⟩ := List.append_of_mem hc
    have hnd : (pre ++ c :: suf).Nodup := hb ▸ h.nodup
    have hother : ∀ c' ∈ g.bucket, g.items[c']? = some item → c' = c := fun c' hc' e => h.distinct c' hc' c hc (e.trans hci.symm)
    have hsuf : ∀ c' ∈ suf, g.items[c']? ≠ some item := by
      intro c' hc' e
      have := hother c' (by rw [hb]; simp [hc']) e
      subst this
      have := (List.nodup_append.mp hnd).2.1
      simp at this; exact this.1 hc'
    have hpre : ∀ c' ∈ pre, g.items[c']? ≠ some item := by
      intro c' hc' e
      have := hother c' (by rw [hb]; simp [hc']) e
      subst this
      exact (List.nodup_append.mp hnd).2.2 c' hc' c' (by simp) rfl
    have hfind : m.bucket.find? (fun i => m.get i == some item) = some c := by
      rw [h.bucket, hb]
      apply find_mid
      · intro x hx
        have := h.get x (by rw [hb]; simp [hx])
        rw [this]; simpa using hpre x hx
      · rw [h.get c hc, hci]; simp
    have hput : m.put item = ({ m with bucket := pre ++ suf ++ [c] }, c, false) := by
      simp only [Lru.put, hfind]
      rw [h.bucket, hb, filter_mid pre suf c hnd]
    refine ⟨{ g with bucket := pre ++ suf ++ [c] }, ?_, ?_⟩
    · rw [hput]
      unfold Go.encoderlru.lru.Put
      simp only []
      rw [lru_bucketIndex_hit g item hsb hlt pre suf c hb hci hsuf]
      have hne : ((pre.length : Int) != -1) = true := by
        have : (pre.length : Int) ≠ -1 := by omega
        simpa using this
      simp [hne, lru_mark g pre suf c hb hsb]
    · rw [hput]
      have hmem : ∀ x, x ∈ pre ++ suf ++ [c] ↔ x ∈ g.bucket := by
        intro x; rw [hb]; simp only [List.mem_append, List.mem_cons, List.mem_singleton, List.not_mem_nil, or_false]
        grind
      have hl : (pre ++ suf ++ [c]).length = g.bucket.length := by rw [hb]; simp <;> omega
      exact {
        pos := h.pos, small := h.small, cap := h.cap, bucket := rfl
        len := by simpa only [hl] using h.len
        lt := fun x hx => by simpa only [hl] using h.lt x ((hmem x).mp hx)
        get := fun x hx => h.get x ((hmem x).mp hx)
        nodup := by
          have := hnd
          rw [List.nodup_append] at this ⊢
          simp only [List.nodup_cons, List.mem_cons, List.mem_append, List.mem_singleton, List.nodup_append,
            List.nodup_nil, List.not_mem_nil, and_true, true_and] at this ⊢
          grind
        distinct := fun x hx y hy => h.distinct x ((hmem x).mp hx) y ((hmem y).mp hy) }
  · have hno : ∀ c ∈ g.bucket, g.items[c]? ≠ some item := fun c hc e => hex ⟨c, hc, e⟩
    have hfind : m.bucket.find? (fun i => m.get i == some item) = none := by
      rw [List.find?_eq_none]
      intro x hx
      rw [h.bucket] at hx
      rw [h.get x hx]; simpa using hno x hx
    have hbi := lru_bucketIndex_miss g item hsb hlt hno
    by_cases hfull : g.bucket.length < g.items.length
    · have hput : m.put item = ({ (m.set g.bucket.length item) with bucket := g.bucket ++ [g.bucket.length] }, g.bucket.length, true) := by
        simp only [Lru.put]; rw [hfind]; simp only [h.cap, h.bucket, hfull, if_true]
      refine ⟨{ items := g.items.set g.bucket.length item, bucket := g.bucket ++ [g.bucket.length] }, ?_, ?_⟩
      · rw [hput]
        unfold Go.encoderlru.lru.Put
        simp only []
        rw [hbi]
        have hne : ((g.bucket.length : Int) != (g.items.length : Int)) = true := by
          have : (g.bucket.length : Int) ≠ (g.items.length : Int) := by omega
          simpa using this
        have hne' : ((g.bucket.length : Int) == (g.items.length : Int)) = false := by   -- the test written with `==`
          have : (g.bucket.length : Int) ≠ (g.items.length : Int) := by omega
          simpa using this
        simp [hne, hne', lru_store g item hfull h.small]
      · rw [hput]
        apply h.update _ hfull _ item
        · simp; omega
        · intro c hc
          simp only [List.mem_append, List.mem_singleton, List.length_append, List.length_cons, List.length_nil] at hc ⊢
          rcases hc with hc | hc
          · have := h.lt c hc; omega
          · omega
        · rw [List.nodup_append]
          refine ⟨h.nodup, by simp, ?_⟩
          intro a ha b hb e
          simp only [List.mem_singleton] at hb
          have := h.lt a ha; omega
        · intro c hc e
          simp only [List.mem_append, List.mem_singleton] at hc
          rcases hc with hc | hc
          · exact hc
          · exact absurd hc e
        · intro c hc _; exact hno c hc
    · have heq : g.bucket.length = g.items.length := Nat.le_antisymm h.len (Nat.le_of_not_lt hfull)
      obtain ⟨c0, rest, hb⟩ : ∃ c0 rest, g.bucket = c0 :: rest := by
        cases hbb : g.bucket with
        | nil => rw [hbb] at heq; have := h.pos; simp at heq; omega
        | cons a l => exact ⟨a, l, rfl⟩
      have hc0 : c0 ∈ g.bucket := by rw [hb]; simp
      have hput : m.put item = ({ (m.set c0 item) with bucket := rest ++ [c0] }, c0, true) := by
        simp only [Lru.put]; rw [hfind]
        have : ¬ ((c0 :: rest).length < m.cap) := by rw [h.cap, ← hb]; exact hfull
        simp only [h.bucket, hb, this, if_false]
      refine ⟨{ items := g.items.set c0 item, bucket := rest ++ [c0] }, ?_, ?_⟩
      · rw [hput]
        unfold Go.encoderlru.lru.Put
        simp only []
        rw [hbi]
        have hne : ((g.bucket.length : Int) != (g.items.length : Int)) = false := by
          rw [heq]; simp
        have hne' : ((g.bucket.length : Int) == (g.items.length : Int)) = true := by rw [heq]; simp
        simp [hne, hne', lru_replace g item tail c0 rest hb (hlt c0 hc0) hsb]
      · rw [hput]
        have hl : (rest ++ [c0]).length = g.bucket.length := by rw [hb]; simp
        have hmem : ∀ x, x ∈ rest ++ [c0] ↔ x ∈ g.bucket := by
          intro x; rw [hb]; simp only [List.mem_append, List.mem_cons, List.mem_singleton, List.not_mem_nil, or_false]
          grind
        apply h.update _ (hlt c0 hc0) _ item
        · rw [hl]; exact h.len
        · intro c hc; rw [hl]; exact h.lt c ((hmem c).mp hc)
        · have := h.nodup
          rw [hb] at this
          rw [List.nodup_append]
          simp only [List.nodup_cons, List.mem_singleton, List.nodup_nil, List.not_mem_nil, and_true, not_false_eq_true, true_and] at this ⊢
          refine ⟨this.2, ?_⟩
          intro a ha b hb' e
          subst hb' ; subst e; exact this.1 ha
        · intro c hc _; exact (hmem c).mp hc
        · intro c hc _; exact hno c hc

/-! ### every sequence of `Put`s -/

/-- the translated `Put` along a sequence of (item, hidden tail): the (index, isNew) it returns each time -/
def goLruRun : Go.encoderlru.lru → List (List Nat × List Nat) → Option (List (Nat × Bool))
  | _, [] => some []
  | g, (item, tail) :: ops => do
    let r ← Go.encoderlru.lru.Put g item tail
    let rest ← goLruRun r.1 ops
    pure ((r.2.1, r.2.2) :: rest)

/-- the model's `put` along a sequence of items -/
def modelLruRun : Lru → List (List Nat) → List (Nat × Bool)
  | _, [] => []
  | m, item :: items => ((m.put item).2.1, (m.put item).2.2) :: modelLruRun (m.put item).1 items

/-- along EVERY sequence of items, with whatever capacities and stale bytes behind the stored items, the translated `Put`
never panics and returns the local message numbers and the "new definition" flags of the model -/
theorem lru_run (g : Go.encoderlru.lru) (m : Lru) (h : LruRep g m) (ops : List (List Nat × List Nat)) :
    goLruRun g ops = some (modelLruRun m (ops.map (·.1))) := by
  induction ops generalizing g m with
  | nil => rfl
  | cons op ops ih =>
    obtain ⟨item, tail⟩ := op
    obtain ⟨g', e, h'⟩ := lru_put g m h item tail
    simp only [goLruRun, e, List.map_cons, modelLruRun, Option.bind_eq_bind, Option.bind_some, ih g' _ h']
    rfl

/-! ### the initial state -/

/-- `newLRU(size)` is `ResetWithNewSize(size)` on the zero value: no panic, and the state is the model's `Lru.empty size` -/
theorem lru_new (size : Nat) (h0 : 0 < size) (h1 : size < 256) (tail1 : List (List Nat)) :
    ∃ g', Go.encoderlru.lru.ResetWithNewSize ⟨[], []⟩ size [] tail1 = some g' ∧ LruRep g' (Lru.empty size) := by
  refine ⟨⟨List.replicate size [], []⟩, ?_, ?_⟩
  · unfold Go.encoderlru.lru.ResetWithNewSize
    have hz : Int.toNat (Go.capOf ([] : List (List Nat)) [] % 2 ^ 8) = 0 := by simp [Go.capOf]
    simp only [hz]
    simp [h0, Go.make]
  · exact { pos := by simpa using h0, small := by simpa using h1, cap := by simp [Lru.empty], bucket := rfl,
            len := by simp, lt := by simp, get := by simp, nodup := by simp, distinct := by simp }

theorem lru_reset_loop (n : Nat) (idxs : List Int) (hi : ∀ i ∈ idxs, 0 ≤ i ∧ i < n) (l : Go.encoderlru.lru)
    (hl : l.items.length = n) :
    ∃ l', forIn idxs l (fun i (r : Go.encoderlru.lru) =>
        (Go.setIdxI r.items i ([] : List Nat)).bind fun x => some (ForInStep.yield { r with items := x })) = some l' ∧
      l'.items.length = n ∧ l'.bucket = l.bucket := by
  induction idxs generalizing l with
  | nil => exact ⟨l, rfl, hl, rfl⟩
  | cons i idxs ih =>
    have hi0 := hi i (by simp)
    have h1 : ¬ (i < 0) := by omega
    have h2 : i.toNat < l.items.length := by omega
    obtain ⟨l', e, e1, e2⟩ := ih (fun j hj => hi j (by simp [hj])) { l with items := l.items.set i.toNat [] } (by simpa using hl)
    refine ⟨l', ?_, e1, e2⟩
    simp only [List.forIn_cons, Go.setIdxI, h1, if_false, Go.setIdx, h2, if_true, Option.bind_eq_bind, Option.bind_some]
    exact e

/-- `Reset`: no panic, the bucket is empty, the item slice keeps its length -/
theorem lru_reset (g : Go.encoderlru.lru) :
    ∃ g', Go.encoderlru.lru.Reset g = some g' ∧ g'.items.length = g.items.length ∧ g'.bucket = [] := by
  unfold Go.encoderlru.lru.Reset
  obtain ⟨l', e, e1, _⟩ := lru_reset_loop g.items.length (Go.rangeI g.items.length)
    (by intro i hi; simp only [Go.rangeI, List.mem_map, List.mem_range] at hi; obtain ⟨k, hk, rfl⟩ := hi; simp only [Int.ofNat_eq_natCast]; omega) g rfl
  refine ⟨{ l' with bucket := [] }, ?_, e1, rfl⟩
  simp only [Option.pure_def, Option.bind_eq_bind] at e ⊢
  rw [e]
  simp [Go.slice]

/-- `ResetWithNewSize(size)` on ANY state, whatever the capacity of `l.items` (a byte, as `make([][]byte, size)` with a
`byte` size gives) and whatever lies behind its length: no panic, and the state is the model's `Lru.empty size`. The two
hidden tails are the same backing array seen before and after `l.Reset()`, which writes elements only: same length. -/
theorem lru_resize (g : Go.encoderlru.lru) (size : Nat) (h0 : 0 < size) (h1 : size < 256) (tail tail1 : List (List Nat))
    (hcap : g.items.length + tail.length < 256) (hsame : tail1.length = tail.length) :
    ∃ g', Go.encoderlru.lru.ResetWithNewSize g size tail tail1 = some g' ∧ LruRep g' (Lru.empty size) := by
  have hrep : ∀ (its : List (List Nat)), its.length = size → LruRep ⟨its, []⟩ (Lru.empty size) := fun its hl =>
    { pos := by simpa [hl] using h0, small := by simpa [hl] using h1, cap := by simp [Lru.empty, hl], bucket := rfl,
      len := by simp, lt := by simp, get := by simp, nodup := by simp, distinct := by simp }
  have hc : Int.toNat (Go.capOf g.items tail % 2 ^ 8) = g.items.length + tail.length := by
    unfold Go.capOf; omega
  unfold Go.encoderlru.lru.ResetWithNewSize
  simp only [hc]
  by_cases hgt : size > g.items.length + tail.length
  · exact ⟨⟨List.replicate size [], []⟩, by simp [hgt, Go.make], hrep _ (by simp)⟩
  · obtain ⟨g1, e, e1, e2⟩ := lru_reset g
    have hn : size ≤ g1.items.length + tail1.length := by omega
    refine ⟨⟨(g1.items ++ tail1).take size, []⟩, ?_, hrep _ (by simp; omega)⟩
    simp [hgt, e, Go.reslice, hn, e2]

end Fit.Go2Lean
