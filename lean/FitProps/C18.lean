import FitProps.CrcLemmas
/-!
# C18 — The checksum is the FIT CRC-16 of the bytes, however they are written

PROPERTY THEOREMS (audited by ./check): C18_crc_eq_spec, C18_split_indep, C18_split_many,
C18_reset, C18_state_is_value, C18_sum_layout
-/
namespace Fit.C18
open Fit.Crc

/-- byte strings: every element is a byte -/
def Bytes (p : List Nat) : Prop := ∀ b ∈ p, b < 256

/-- From any 16-bit state, writing `p` to the hash gives the bit-serial CRC-16 continuation. -/
theorem C18_write_eq_spec (p : List Nat) (hp : Bytes p) (c : Nat) (hc : c < 2 ^ 16) :
    write c p = crcSpec c p := by
  induction p generalizing c with
  | nil => rfl
  | cons b p ih =>
    simp only [write, crcSpec, List.foldl_cons]
    rw [compute_eq_spec c b hc (hp b (by simp))]
    have := ih (fun x hx => hp x (by simp [hx])) (byteSpec c b)
      (by rw [← compute_eq_spec c b hc (hp b (by simp))]; exact compute_lt _ _)
    simpa [write, crcSpec] using this

/-- A fresh hash fed any byte string, of any length, holds the CRC-16 of that string. -/
theorem C18_crc_eq_spec (p : List Nat) (hp : Bytes p) : sum16 (write reset p) = crcSpec 0 p :=
  C18_write_eq_spec p hp 0 (by decide)

/-- Two successive writes equal one write of the concatenation. -/
theorem C18_split_indep (c : Nat) (xs ys : List Nat) : write (write c xs) ys = write c (xs ++ ys) := by
  simp [write, List.foldl_append]

/-- Any partition of the bytes into successive writes gives the same value. -/
theorem C18_split_many (c : Nat) (parts : List (List Nat)) :
    parts.foldl write c = write c parts.flatten := by
  induction parts generalizing c with
  | nil => rfl
  | cons p ps ih => simp only [List.foldl_cons, List.flatten_cons]; rw [ih, C18_split_indep]

/-- every written chunk of a history is a byte string -/
def OpsBytes (ops : List Op) : Prop := ∀ op ∈ ops, ∀ p, op = .write p → Bytes p

/-- Whatever history of writes and resets: the state is the CRC-16 of exactly the bytes written since
the last `Reset` — nothing written before a `Reset` influences it. -/
theorem C18_reset (ops : List Op) (h : OpsBytes ops) : sum16 (run ops) = crcSpec 0 (sinceReset ops) := by
  suffices H : ∀ (ops : List Op) (c : Nat) (acc : List Nat), OpsBytes ops → Bytes acc → c = crcSpec 0 acc →
      ops.foldl step c = crcSpec 0
        (ops.foldl (fun acc op => match op with | .write p => acc ++ p | .reset => []) acc) from
    H ops 0 [] h (by intro b hb; cases hb) rfl
  intro ops
  induction ops with
  | nil => intro c acc _ _ hc; simpa using hc
  | cons op ops ih =>
    intro c acc hops hacc hc
    simp only [List.foldl_cons]
    have hops' : OpsBytes ops := fun o ho p hp => hops o (by simp [ho]) p hp
    cases op with
    | reset => exact ih _ _ hops' (by intro b hb; cases hb) rfl
    | write p =>
      have hp : Bytes p := hops (.write p) (by simp) p rfl
      have hacc' : Bytes (acc ++ p) := by
        intro b hb; rcases List.mem_append.mp hb with h | h
        · exact hacc b h
        · exact hp b h
      apply ih _ _ hops' hacc'
      have hlt : c < 2 ^ 16 := by
        rw [hc, ← C18_write_eq_spec acc hacc 0 (by decide)]; exact write_lt 0 (by decide) acc
      simp only [step]
      rw [C18_write_eq_spec p hp c hlt, hc]
      simp [crcSpec, List.foldl_append]

/-- `Sum16` returns the state unchanged and does not alter it (it is a pure read). -/
theorem C18_state_is_value (c : Nat) : sum16 c = c := rfl

/-- `Sum(b)` appends the 16-bit state big-endian: high byte then low byte, both bytes. -/
theorem C18_sum_layout (c : Nat) (hc : c < 2 ^ 16) (b : List Nat) :
    ∃ hi lo, sum c b = b ++ [hi, lo] ∧ hi < 256 ∧ lo < 256 ∧ hi * 256 + lo = c := by
  refine ⟨(c >>> 8) % 256, c % 256, rfl, Nat.mod_lt _ (by decide), Nat.mod_lt _ (by decide), ?_⟩
  rw [Nat.shiftRight_eq_div_pow]; omega

/-- Non-vacuity: the standard check value of CRC-16/ARC, "123456789" ↦ 0xBB3D, on model and spec. -/
example : run [.write [1, 2], .reset, .write [0x31, 0x32], .write [0x33]] = crcSpec 0 [0x31, 0x32, 0x33] ∧
    sinceReset [.write [1, 2], .reset, .write [0x31, 0x32], .write [0x33]] = [0x31, 0x32, 0x33] := by decide +kernel
example : write reset [0x31,0x32,0x33,0x34,0x35,0x36,0x37,0x38,0x39] = 0xBB3D ∧
    crcSpec 0 [0x31,0x32,0x33,0x34,0x35,0x36,0x37,0x38,0x39] = 0xBB3D := by decide +kernel

end Fit.C18
