import FitProps.CrcLemmas
/-!
CRC algebra on the bit-serial form (`Fit.Crc.crcSpec`, which C18 proves equal to the table form of crc16.go).

Main facts (all structural, for byte strings of ANY length):

* `crcSpec_eq_fpow`   : `crcSpec c e = f^[8·|e|] (c ^^^ leVal e)` — the CRC is "shift the little-endian bit string
                         through the register": the polynomial-remainder view of the checksum.
* `crcSpec_linear`    : linearity over xor of equal-length strings.
* `step_zero_inj`, `step_inj`: the zero-byte step is injective on 16-bit states.
* `crc_append_self`, `crc_eq_iff_residue_zero`: a message followed by its little-endian CRC has residue 0, and only then.
* `burst_nonzero`     : a non-zero error pattern confined to 16 consecutive bits (checksum bit order: LSB first
                         within bytes) has a non-zero CRC, however many bytes precede or follow it.
-/
namespace Fit.Crc

/-- byte strings: every element is a byte -/
def Bytes (p : List Nat) : Prop := ∀ b ∈ p, b < 256

instance (p : List Nat) : Decidable (Bytes p) := by unfold Bytes; infer_instance

theorem Bytes.nil : Bytes [] := by intro b hb; cases hb
theorem Bytes.cons {b : Nat} {p : List Nat} (hb : b < 256) (hp : Bytes p) : Bytes (b :: p) := by
  intro x hx; rcases List.mem_cons.mp hx with h | h
  · exact h ▸ hb
  · exact hp x h
theorem Bytes.head {b : Nat} {p : List Nat} (h : Bytes (b :: p)) : b < 256 := h b (by simp)
theorem Bytes.tail {b : Nat} {p : List Nat} (h : Bytes (b :: p)) : Bytes p := fun x hx => h x (by simp [hx])
theorem Bytes.append {p q : List Nat} (hp : Bytes p) (hq : Bytes q) : Bytes (p ++ q) := by
  intro x hx; rcases List.mem_append.mp hx with h | h
  · exact hp x h
  · exact hq x h
theorem Bytes.left {p q : List Nat} (h : Bytes (p ++ q)) : Bytes p := fun x hx => h x (by simp [hx])
theorem Bytes.right {p q : List Nat} (h : Bytes (p ++ q)) : Bytes q := fun x hx => h x (by simp [hx])
theorem Bytes.take {p : List Nat} (h : Bytes p) (n : Nat) : Bytes (p.take n) :=
  fun x hx => h x (List.mem_of_mem_take hx)
theorem Bytes.drop {p : List Nat} (h : Bytes p) (n : Nat) : Bytes (p.drop n) :=
  fun x hx => h x (List.mem_of_mem_drop hx)
theorem Bytes.replicate_zero (n : Nat) : Bytes (List.replicate n 0) := by
  intro x hx; rw [List.mem_replicate] at hx; omega

theorem xor_eq_zero_imp {a b : Nat} (h : a ^^^ b = 0) : a = b := by
  have h2 : a ^^^ (a ^^^ b) = a ^^^ 0 := by rw [h]
  rw [← Nat.xor_assoc, Nat.xor_self, Nat.zero_xor, Nat.xor_zero] at h2
  exact h2.symm

/-- `n` applications of the bit-shift step `f` -/
def fpow : Nat → Nat → Nat
  | 0, x => x
  | n + 1, x => fpow n (f x)

theorem fpow_add (m n x : Nat) : fpow (m + n) x = fpow n (fpow m x) := by
  induction m generalizing x with
  | zero => simp [fpow]
  | succ m ih => rw [Nat.add_right_comm]; simp only [fpow]; exact ih _

theorem fpow_linear (n a b : Nat) : fpow n (a ^^^ b) = fpow n a ^^^ fpow n b := by
  induction n generalizing a b with
  | zero => rfl
  | succ n ih => simp only [fpow]; rw [f_linear, ih]

theorem fpow_zero (n : Nat) : fpow n 0 = 0 := by
  induction n with
  | zero => rfl
  | succ n ih => simp only [fpow, f_zero]; exact ih

theorem fpow_lt (n x : Nat) (h : x < 2 ^ 16) : fpow n x < 2 ^ 16 := by
  induction n generalizing x with
  | zero => exact h
  | succ n ih => exact ih _ (f_lt x h)

/-- shifting out `k` zero bits: `k` even steps -/
theorem fpow_shift (k x : Nat) : fpow k (x * 2 ^ k) = x := by
  induction k generalizing x with
  | zero => simp [fpow]
  | succ k ih =>
    simp only [fpow]
    have he : (x * 2 ^ (k + 1)) % 2 = 0 := by rw [Nat.pow_succ, ← Nat.mul_assoc]; omega
    rw [f_even _ he]
    have : x * 2 ^ (k + 1) / 2 = x * 2 ^ k := by rw [Nat.pow_succ, ← Nat.mul_assoc]; omega
    rw [this]; exact ih x

/-- the shift step is injective at 0 on 16-bit states: an even state just shifts, an odd one
gets bit 15 set by the polynomial -/
theorem f_eq_zero (x : Nat) (h : x < 2 ^ 16) (h0 : f x = 0) : x = 0 := by
  unfold f at h0
  rcases Nat.mod_two_eq_zero_or_one x with he | ho
  · simp [he, Nat.shiftRight_eq_div_pow] at h0; omega
  · simp only [ho, if_true] at h0
    have h1 : x >>> 1 = 0xA001 := xor_eq_zero_imp h0
    rw [Nat.shiftRight_eq_div_pow] at h1; omega

theorem fpow_eq_zero (n x : Nat) (h : x < 2 ^ 16) (h0 : fpow n x = 0) : x = 0 := by
  induction n generalizing x with
  | zero => exact h0
  | succ n ih => exact f_eq_zero x h (ih (f x) (f_lt x h) h0)

/-- eight bit steps on a zero byte are eight shift steps -/
theorem byteSpec_zero (c : Nat) : byteSpec c 0 = fpow 8 c := by
  simp [byteSpec, bit4, bitStep, fpow]

/-- finite table (256 kernel-evaluated rows): feeding byte `b` to the zero state = shifting `b` out -/
theorem byteSpec_of_zero : ∀ b, b < 256 → byteSpec 0 b = fpow 8 b := by decide +kernel

/-- one byte step = xor the byte into the low bits of the register, then eight shift steps -/
theorem byteSpec_eq_fpow (c b : Nat) (hb : b < 256) : byteSpec c b = fpow 8 (c ^^^ b) := by
  have h := byteSpec_linear c 0 0 b
  simp only [Nat.xor_zero, Nat.zero_xor] at h
  rw [h, byteSpec_zero, byteSpec_of_zero b hb, fpow_linear]

/-- STEP INJECTIVITY: a non-zero 16-bit state stays non-zero after a zero byte -/
theorem step_zero_inj (d : Nat) (hd : d < 2 ^ 16) (h : byteSpec d 0 = 0) : d = 0 := by
  rw [byteSpec_zero] at h; exact fpow_eq_zero 8 d hd h

/-- the zero-byte step is injective on 16-bit states -/
theorem step_inj (c d : Nat) (hc : c < 2 ^ 16) (hd : d < 2 ^ 16) (h : byteSpec c 0 = byteSpec d 0) : c = d := by
  have hl := byteSpec_linear c d 0 0
  simp only [Nat.xor_zero] at hl
  have : byteSpec (c ^^^ d) 0 = 0 := by rw [hl, h, Nat.xor_self]
  exact xor_eq_zero_imp (step_zero_inj _ (Nat.xor_lt_two_pow hc hd) this)

/-- the byte string read as one little-endian number = its bits in checksum order -/
def leVal : List Nat → Nat
  | [] => 0
  | b :: p => b + 256 * leVal p

theorem leVal_lt (p : List Nat) (hp : Bytes p) : leVal p < 2 ^ (8 * p.length) := by
  induction p with
  | nil => simp [leVal]
  | cons b p ih =>
    have := ih hp.tail
    have hb := hp.head
    simp only [leVal, List.length_cons]
    have e : 2 ^ (8 * (p.length + 1)) = 256 * 2 ^ (8 * p.length) := by
      rw [Nat.mul_add, Nat.pow_add]; simp [Nat.mul_comm]
    rw [e]; omega

theorem leVal_append (p q : List Nat) : leVal (p ++ q) = leVal p + 2 ^ (8 * p.length) * leVal q := by
  induction p with
  | nil => simp [leVal]
  | cons b p ih =>
    simp only [List.cons_append, leVal, ih, List.length_cons]
    have e : 2 ^ (8 * (p.length + 1)) = 256 * 2 ^ (8 * p.length) := by
      rw [Nat.mul_add, Nat.pow_add]; simp [Nat.mul_comm]
    rw [e, Nat.mul_add, Nat.mul_assoc, Nat.add_assoc]

theorem leVal_replicate_zero (n : Nat) : leVal (List.replicate n 0) = 0 := by
  induction n with
  | zero => rfl
  | succ n ih => simp [List.replicate_succ, leVal, ih]

/-- `b + 256·x` has `b` in its low byte: addition is xor -/
theorem add_mul256_eq_xor (b x : Nat) (hb : b < 256) : b + 256 * x = b ^^^ (x * 2 ^ 8) := by
  have h := Nat.two_pow_add_eq_or_of_lt (i := 8) (by simpa using hb) x
  have hx : 2 ^ 8 * x + b = b + 256 * x := by omega
  rw [← hx, h]
  -- or = xor when the operands share no bit
  apply Nat.eq_of_testBit_eq; intro i
  rw [Nat.testBit_or, Nat.testBit_xor, Nat.mul_comm x, Nat.testBit_two_pow_mul]
  by_cases hi : 8 ≤ i
  · have : b.testBit i = false := Nat.testBit_lt_two_pow (Nat.lt_of_lt_of_le (by simpa using hb) (Nat.pow_le_pow_right (by decide) hi))
    simp [this, hi]
  · simp [hi]

/-- THE REMAINDER VIEW: the CRC of a byte string from state `c` is `8·|e|` shift steps applied to
`c` xor the string's bits. -/
theorem crcSpec_eq_fpow (e : List Nat) (he : Bytes e) (c : Nat) :
    crcSpec c e = fpow (8 * e.length) (c ^^^ leVal e) := by
  induction e generalizing c with
  | nil => simp [crcSpec, leVal, fpow]
  | cons b e ih =>
    have hb := he.head
    simp only [crcSpec, List.foldl_cons, List.length_cons, leVal]
    have := ih he.tail (byteSpec c b)
    simp only [crcSpec] at this
    rw [this, byteSpec_eq_fpow c b hb]
    have e8 : 8 * (e.length + 1) = 8 + 8 * e.length := by omega
    rw [e8, fpow_add, add_mul256_eq_xor b _ hb, ← Nat.xor_assoc, fpow_linear 8 (c ^^^ b), fpow_shift]

/-- xor of two byte strings, position by position -/
def xorL (xs ys : List Nat) : List Nat := List.zipWith (· ^^^ ·) xs ys

theorem xorL_length (xs ys : List Nat) (h : xs.length = ys.length) : (xorL xs ys).length = xs.length := by
  simp [xorL, h]

theorem xorL_bytes (xs ys : List Nat) (hx : Bytes xs) (hy : Bytes ys) : Bytes (xorL xs ys) := by
  induction xs generalizing ys with
  | nil => simp [xorL]; exact Bytes.nil
  | cons a xs ih =>
    cases ys with
    | nil => simp [xorL]; exact Bytes.nil
    | cons b ys =>
      simp only [xorL, List.zipWith_cons_cons]
      exact Bytes.cons (Nat.xor_lt_two_pow (n := 8) hx.head hy.head) (ih ys hx.tail hy.tail)

/-- LINEARITY of the CRC over xor of equal-length strings (no byte-range hypothesis needed) -/
theorem crcSpec_linear (xs ys : List Nat) (h : xs.length = ys.length) (a b : Nat) :
    crcSpec (a ^^^ b) (xorL xs ys) = crcSpec a xs ^^^ crcSpec b ys := by
  induction xs generalizing ys a b with
  | nil => cases ys with
    | nil => rfl
    | cons _ _ => simp at h
  | cons x xs ih =>
    cases ys with
    | nil => simp at h
    | cons y ys =>
      simp only [xorL, List.zipWith_cons_cons, crcSpec, List.foldl_cons]
      rw [byteSpec_linear]
      have := ih ys (by simpa using h) (byteSpec a x) (byteSpec b y)
      simpa [crcSpec, xorL] using this

theorem crcSpec_append (c : Nat) (p q : List Nat) : crcSpec c (p ++ q) = crcSpec (crcSpec c p) q := by
  simp [crcSpec, List.foldl_append]

theorem byteSpec_lt (c b : Nat) (hc : c < 2 ^ 16) (hb : b < 256) : byteSpec c b < 2 ^ 16 := by
  rw [byteSpec_eq_fpow c b hb]
  exact fpow_lt 8 _ (Nat.xor_lt_two_pow hc (by omega))

theorem crcSpec_lt (p : List Nat) (hp : Bytes p) (c : Nat) (hc : c < 2 ^ 16) : crcSpec c p < 2 ^ 16 := by
  induction p generalizing c with
  | nil => simpa [crcSpec]
  | cons b p ih =>
    simp only [crcSpec, List.foldl_cons]
    exact ih hp.tail _ (byteSpec_lt c b hc hp.head)

theorem crcSpec_zeros (n : Nat) : crcSpec 0 (List.replicate n 0) = 0 := by
  rw [crcSpec_eq_fpow _ (Bytes.replicate_zero n), leVal_replicate_zero]
  simp [fpow_zero]

/-- low and high byte of a 16-bit value, as FIT stores its CRCs (little-endian) -/
def le16 (c : Nat) : List Nat := [c % 256, c / 256 % 256]

theorem le16_bytes (c : Nat) : Bytes (le16 c) := by
  intro x hx; simp [le16] at hx; omega

theorem leVal_le16 (c : Nat) (hc : c < 2 ^ 16) : leVal (le16 c) = c := by
  simp [le16, leVal]; omega

/-- two bytes after state `c` give residue 0 exactly when they are `c` little-endian -/
theorem crc_two_bytes (c lo hi : Nat) (hc : c < 2 ^ 16) (hlo : lo < 256) (hhi : hi < 256) :
    crcSpec c [lo, hi] = 0 ↔ lo + 256 * hi = c := by
  have hb : Bytes [lo, hi] := Bytes.cons hlo (Bytes.cons hhi Bytes.nil)
  rw [crcSpec_eq_fpow _ hb]
  have hv : leVal [lo, hi] = lo + 256 * hi := by simp [leVal]
  rw [hv]
  constructor
  · intro h
    have hlt : c ^^^ (lo + 256 * hi) < 2 ^ 16 := Nat.xor_lt_two_pow hc (by omega)
    have := fpow_eq_zero _ _ hlt h
    exact (xor_eq_zero_imp this).symm
  · intro h; rw [h, Nat.xor_self, fpow_zero]

/-- APPEND-SELF: a message followed by its own CRC, little-endian, has CRC 0 (from any 16-bit start state) -/
theorem crc_append_self' (c0 : Nat) (hc0 : c0 < 2 ^ 16) (m : List Nat) (hm : Bytes m) :
    crcSpec c0 (m ++ le16 (crcSpec c0 m)) = 0 := by
  have hc := crcSpec_lt m hm c0 hc0
  rw [crcSpec_append]
  have : (crcSpec c0 m) / 256 % 256 = crcSpec c0 m / 256 := Nat.mod_eq_of_lt (by omega)
  simp only [le16]
  rw [crc_two_bytes _ _ _ hc (Nat.mod_lt _ (by decide)) (Nat.mod_lt _ (by decide))]
  omega

theorem crc_append_self (m : List Nat) (hm : Bytes m) : crcSpec 0 (m ++ le16 (crcSpec 0 m)) = 0 :=
  crc_append_self' 0 (by decide) m hm

/-- RESIDUE: `m ++ [lo, hi]` has CRC 0 iff `[lo, hi]` is the CRC of `m`, little-endian -/
theorem crc_eq_iff_residue_zero (m : List Nat) (hm : Bytes m) (lo hi : Nat) (hlo : lo < 256) (hhi : hi < 256) :
    crcSpec 0 (m ++ [lo, hi]) = 0 ↔ lo + 256 * hi = crcSpec 0 m := by
  rw [crcSpec_append]
  exact crc_two_bytes _ lo hi (crcSpec_lt m hm 0 (by decide)) hlo hhi

/-- a non-zero error pattern confined to 16 consecutive bits of the string, in the checksum's bit order
(bit `i` of byte `j` is bit `8j+i` of the string): its bit string is a 16-bit window `w` placed at bit `p` -/
def BurstWithin16 (e : List Nat) : Prop := ∃ p w, leVal e = w * 2 ^ p ∧ 0 < w ∧ w < 2 ^ 16

/-- BURST DETECTION: a non-zero error pattern confined to 16 consecutive bits has a non-zero CRC,
wherever it lies in a string of any length (whatever number of zero bytes precede and follow it). -/
theorem burst_nonzero (e : List Nat) (he : Bytes e) (hb : BurstWithin16 e) : crcSpec 0 e ≠ 0 := by
  obtain ⟨p, w, hv, hw0, hw⟩ := hb
  rw [crcSpec_eq_fpow e he, Nat.zero_xor, hv]
  have hlt := leVal_lt e he
  rw [hv] at hlt
  have hp : p < 8 * e.length := by
    apply Nat.lt_of_not_le; intro hle
    have : 2 ^ (8 * e.length) ≤ 2 ^ p := Nat.pow_le_pow_right (by decide) hle
    have : 2 ^ p ≤ w * 2 ^ p := Nat.le_mul_of_pos_left _ hw0
    omega
  have e1 : 8 * e.length = p + (8 * e.length - p) := by omega
  rw [e1, fpow_add, fpow_shift]
  intro h0
  have := fpow_eq_zero _ w hw h0
  omega

/-- the same, for the difference of two equal-length strings: if they differ by a burst their CRCs differ -/
theorem burst_detected (xs e : List Nat) (he : Bytes e) (hl : xs.length = e.length)
    (hb : BurstWithin16 e) (c : Nat) : crcSpec c (xorL xs e) ≠ crcSpec c xs := by
  have := crcSpec_linear xs e hl c 0
  rw [Nat.xor_zero] at this
  rw [this]
  intro h
  have h0 : crcSpec 0 e = 0 := by
    have := congrArg (crcSpec c xs ^^^ ·) h
    simpa [← Nat.xor_assoc] using this
  exact burst_nonzero e he hb h0

end Fit.Crc
