import FitProps.DecoderApiHistLemmas
import FitProps.LinkLemmasDefs
import FitProps.LinkLemmasInteg
/-!
LINK (C) ↔ (B)/(D), part 1: normal forms of the record-level functions of the API model (`FitModel/DecoderApi.lean`) —
the file header against (B)'s `decodeFileHeader`, `discardMessages` against (B)'s `discard`, `decodeCRC`; and the
`CheckIntegrity` loop of (C) against (B)'s.
-/
set_option linter.unusedSimpArgs false
set_option linter.unusedVariables false

namespace Fit.Link
open Fit.DecApi Fit.Gen.DecApi Fit.Crc

/-- error classes of (B) as (C) names them -/
def errBC : Integrity.Err → Err
  | .eof => .eof
  | .notFit => .notFit
  | .crc => .crc
  | .defMissing => .defMissing
  | .invalidBaseType => .baseType

theorem errC_eq (e : DecProg.Err) : errC e = errBC (errB e) := by cases e <;> rfl

theorem len11 {l : List Nat} (h : l.length = 11) : ∃ a0 a1 a2 a3 a4 a5 a6 a7 a8 a9 a10, l = [a0, a1, a2, a3, a4, a5, a6, a7, a8, a9, a10] := by
  match l, h with
  | [a0, a1, a2, a3, a4, a5, a6, a7, a8, a9, a10], _ => exact ⟨a0, a1, a2, a3, a4, a5, a6, a7, a8, a9, a10, rfl⟩

theorem len13 {l : List Nat} (h : l.length = 13) : ∃ a0 a1 a2 a3 a4 a5 a6 a7 a8 a9 a10 a11 a12, l = [a0, a1, a2, a3, a4, a5, a6, a7, a8, a9, a10, a11, a12] := by
  match l, h with
  | [a0, a1, a2, a3, a4, a5, a6, a7, a8, a9, a10, a11, a12], _ => exact ⟨a0, a1, a2, a3, a4, a5, a6, a7, a8, a9, a10, a11, a12, rfl⟩

theorem rawRead_eq (k : Nat) (s : St) (hk : k ≤ reservedbuf) :
    rawRead k s = if k ≤ s.rest.length then .ok (s.rest.take k, { s with rest := s.rest.drop k }) else .err .eof := by
  unfold rawRead
  have : ¬ k > reservedbuf := by omega
  simp only [this, if_false]
  by_cases h : k ≤ s.rest.length
  · simp only [hasN_true h, h, if_true]
  · simp only [hasN_false' (Nat.lt_of_not_le h), h, if_false, Bool.false_eq_true]

/-- the header data (C) keeps, from (B)'s header and the header bytes -/
def hdrC (h : Integrity.Hdr) (bs : List Nat) : Hdr :=
  ⟨h.size, ((bs.drop 1).take (h.size - 1)).headD 0, DecProg.le16 (((bs.drop 1).take (h.size - 1)).drop 1), h.dataSize, h.crc⟩

theorem slice_eq (b : List Nat) (lo hi : Nat) (h : lo ≤ hi ∧ hi ≤ b.length) :
    slice b lo hi = .ok ((b.drop lo).take (hi - lo)) := by
  unfold slice; rw [if_pos h]

theorem idx0_eq (b : List Nat) (h : 0 < b.length) : idx b 0 = .ok (b.headD 0) := by
  cases b with
  | nil => simp at h
  | cons a t => rfl

theorem le32_take (l : List Nat) (h : 4 ≤ l.length) : DecApi.le32 (l.take 4) = Integrity.le32 l := by
  match l, h with
  | a :: b :: c :: d :: t, _ => rfl

theorem le16_take (l : List Nat) (h : 2 ≤ l.length) : DecApi.le16 (l.take 2) = Integrity.le16 l := by
  match l, h with
  | a :: b :: t, _ => rfl

theorem le16_takeD (l : List Nat) (h : 2 ≤ l.length) : DecApi.le16 (l.take 2) = DecProg.le16 l := by
  match l, h with
  | a :: b :: t, _ => rfl

/-- **`decodeFileHeader` of (C) is (B)'s** (running checksum 0 before, as at every sequence start) -/
theorem decodeFileHeader_eq (s : St) (hc : s.q.crc16 = 0) :
    decodeFileHeader s = match Integrity.decodeFileHeader s.o.chk s.rest with
      | .ok (h, rest') => .ok { s with rest := rest', q := { s.q with hdr := hdrC h s.rest, crc16 := 0 } }
      | .error e => .err (errBC e) := by
  unfold decodeFileHeader
  rw [rawRead_eq 1 s (by decide)]
  cases hr : s.rest with
  | nil => simp [Integrity.decodeFileHeader, Bind.bind, Res.bind, errBC]
  | cons size rest =>
    have e0 : idx [size] 0 = Res.ok size := rfl
    simp only [List.length_cons, Nat.le_add_left, if_true, Bind.bind, Res.bind, List.take_succ_cons, List.take_zero,
      List.drop_succ_cons, List.drop_zero, e0]
    by_cases hsz : size ≠ 12 ∧ size ≠ 14
    · simp [hsz, Integrity.decodeFileHeader, errBC]
    simp only [hsz, if_false]
    have hsz' : size = 12 ∨ size = 14 := by omega
    rw [rawRead_eq _ _ (by rcases hsz' with h | h <;> subst h <;> decide)]
    simp only
    by_cases hl : size - 1 ≤ rest.length
    · simp only [hl, if_true]
      have hblen : (List.take (size - 1) rest).length = size - 1 := by simp; omega
      have hB := hdrB_cons s.o.chk size rest hsz hl
      generalize hb : List.take (size - 1) rest = b at hblen hB ⊢
      have e1 := slice_eq b 7 11 (by omega)
      have e2 := idx0_eq b (by omega)
      have e3 := slice_eq b 1 3 (by omega)
      have e4 := slice_eq b 3 7 (by omega)
      have e6 := slice_eq b 0 (b.length - 2) (by omega)
      simp only [e1, e2, e3, e4, e6, List.drop_zero, (by omega : 11 - 7 = 4), (by omega : 3 - 1 = 2), (by omega : 7 - 3 = 4)]
      have hFIT : dataTypeFIT = Fit.Gen.Integ.dataTypeFIT := by decide
      rw [hFIT]
      by_cases htag : List.take 4 (List.drop 7 b) ≠ Fit.Gen.Integ.dataTypeFIT
      · rw [if_pos htag]
        simp [Integrity.decodeFileHeader, hsz, hasN_true hl, hb, htag, errBC]
      rw [if_neg htag]
      rw [le32_take _ (by simp; omega)]
      by_cases hds : Integrity.le32 (List.drop 3 b) = 0
      · rw [if_pos hds]
        simp [Integrity.decodeFileHeader, hsz, hasN_true hl, hb, htag, hds, errBC]
      rw [if_neg hds, hB htag hds]
      have hprof : DecApi.le16 (List.take 2 (List.drop 1 b)) = DecProg.le16 (List.drop 1 b) := le16_takeD _ (by simp; omega)
      have hhdr : ∀ c, hdrC ⟨size, Integrity.le32 (List.drop 3 b), c⟩ (size :: rest) =
          ⟨size, b.headD 0, DecApi.le16 (List.take 2 (List.drop 1 b)), Integrity.le32 (List.drop 3 b), c⟩ := by
        intro c; simp only [hdrC, List.drop_succ_cons, List.drop_zero, hb, hprof]
      rcases hsz' with h12 | h14
      · subst h12
        simp only [(by decide : ¬ (12 = 14)), if_false, Pure.pure, DecApi.le16, List.getD_cons_zero, List.getD_cons_succ,
          Nat.mul_zero, Nat.add_zero, true_or, if_true, hhdr]
      · subst h14
        have e5 := slice_eq b 11 13 (by omega)
        have hcrc : DecApi.le16 (List.take (13 - 11) (List.drop 11 b)) = Integrity.le16 (List.drop 11 b) :=
          le16_take _ (by simp; omega)
        simp only [if_true, e5, hcrc, hblen, hc]
        by_cases hz : Integrity.le16 (List.drop 11 b) = 0
        · simp only [hz, true_or, if_true, Pure.pure, hhdr]
        · have hor : (Integrity.le16 (List.drop 11 b) = 0 ∨ (!s.o.chk) = true) ↔ (Integrity.le16 (List.drop 11 b) = 0 ∨ s.o.chk = false) := by
            simp
          by_cases hchk : Integrity.le16 (List.drop 11 b) = 0 ∨ s.o.chk = false
          · rw [if_pos (hor.mpr hchk), if_pos hchk]; simp only [Pure.pure, hhdr]
          · rw [if_neg (fun h => hchk (hor.mp h)), if_neg hchk]
            by_cases hw : write (write 0 [14]) (List.take (14 - 1 - 2) b) ≠ Integrity.le16 (List.drop 11 b)
            · rw [if_pos hw, if_pos hw]; rfl
            · rw [if_neg hw, if_neg hw]; simp only [Pure.pure, hhdr]
    · simp [hl, Integrity.decodeFileHeader, hsz, hasN_false' (Nat.lt_of_not_le hl), errBC]

/-- `decodeCRC` of (C) in closed form -/
theorem decodeCRC_eq (s : St) :
    decodeCRC s = match s.rest with
      | lo :: hi :: r =>
        if s.o.chk = true ∧ s.q.crc16 ≠ lo + 256 * hi then .err .crc
        else .ok { s with rest := r, q := { s.q with crc := lo + 256 * hi, crc16 := 0 } }
      | _ => .err .eof := by
  unfold decodeCRC
  rw [rawRead_eq 2 s (by decide)]
  match hr : s.rest with
  | [] => simp [Bind.bind, Res.bind]
  | [_] => simp [Bind.bind, Res.bind]
  | lo :: hi :: r =>
    simp only [List.length_cons, (by omega : 2 ≤ r.length + 1 + 1), if_true, Bind.bind, Res.bind, List.take_succ_cons,
      List.take_zero, List.drop_succ_cons, List.drop_zero, (rfl : idx [lo, hi] 0 = Res.ok lo), (rfl : idx [lo, hi] 1 = Res.ok hi)]
    have e0 : idx [lo, hi] 0 = Res.ok lo := rfl
    have e1 : idx [lo, hi] 1 = Res.ok hi := rfl
    simp only [e0, e1]
    by_cases h : s.o.chk = true ∧ s.q.crc16 ≠ lo + 256 * hi
    · simp [h]
    · simp only [h, if_false]; simp [Pure.pure] at h ⊢

theorem ilt_le32 (b : List Nat) (h : IsBytes b) : Integrity.le32 b < 4294967296 := by
  unfold Integrity.le32
  split
  · rename_i a b c d _
    have := h a (by simp); have := h b (by simp); have := h c (by simp); have := h d (by simp)
    omega
  · decide

/-- `discardMessages` of (C) with the checksum on is (B)'s `discard`: the remaining `dataSize - cur` bytes in chunks of at
most `reservedbuf`, folded into the running checksum -/
theorem discardMessages_eq : ∀ (f f' : Nat) (s : St), s.rest.length < f → s.q.cur ≤ s.q.hdr.dataSize →
    s.q.hdr.dataSize < 4294967296 → s.q.hdr.dataSize - s.q.cur ≤ f' → s.o.chk = true →
    discardMessages f s = match Integrity.discard f' (s.q.hdr.dataSize - s.q.cur) s.q.crc16 s.rest with
      | .ok (crc', rest') => .ok { s with rest := rest', q := { s.q with cur := s.q.hdr.dataSize, crc16 := crc' } }
      | .error _ => .err .eof
  | 0, _, s, hf, _, _, _, _ => by omega
  | f + 1, f', s, hf, hc, hd, hf', hchk => by
    unfold discardMessages
    by_cases hlt : s.q.cur < s.q.hdr.dataSize
    · obtain ⟨f'', rfl⟩ : ∃ k, f' = k + 1 := ⟨f' - 1, by omega⟩
      simp only [hlt, if_true]
      unfold Integrity.discard
      have hne : ¬ (s.q.hdr.dataSize - s.q.cur = 0) := by omega
      simp only [hne, if_false]
      have hsz : min (s.q.hdr.dataSize - s.q.cur) reservedbuf ≤ reservedbuf := Nat.min_le_right _ _
      have hpos : 0 < min (s.q.hdr.dataSize - s.q.cur) reservedbuf := by simp only [reservedbuf]; omega
      have hrb : Fit.Gen.Integ.reservedbuf = reservedbuf := rfl
      rw [readN_eq _ s hsz, hrb]
      generalize hk : min (s.q.hdr.dataSize - s.q.cur) reservedbuf = k at *
      have hkle : k ≤ s.q.hdr.dataSize - s.q.cur := hk ▸ Nat.min_le_left _ _
      by_cases hen : k ≤ s.rest.length
      · simp only [hen, if_true, hasN_true hen, Bool.not_true, Bool.false_eq_true, if_false, Bind.bind, Res.bind]
        have hmod : (s.q.cur + k) % 4294967296 = s.q.cur + k := Nat.mod_eq_of_lt (by omega)
        have ih := discardMessages_eq f f''
          { s with rest := s.rest.drop k, q := { s.q with cur := (s.q.cur + k) % 4294967296, crc16 := (if s.o.chk then write s.q.crc16 (s.rest.take k) else s.q.crc16) } }
          (by simp only [List.length_drop]; omega) (by simp only [hmod]; omega) hd (by simp only [hmod]; omega) hchk
        rw [ih]
        simp only [hmod, hchk, if_true]
        have e : s.q.hdr.dataSize - (s.q.cur + k) = s.q.hdr.dataSize - s.q.cur - k := by omega
        rw [e]
      · simp only [hen, if_false, hasN_false' (Nat.lt_of_not_le hen), Bool.not_false, if_true]
        rfl
    · simp only [hlt, if_false]
      have he : s.q.hdr.dataSize - s.q.cur = 0 := by omega
      have hcur : s.q.cur = s.q.hdr.dataSize := by omega
      rw [he]
      cases f' with
      | zero => simp [Integrity.discard, ← hcur]
      | succ f' => simp [Integrity.discard, ← hcur]

theorem IsBytes.drop' {l : List Nat} (h : IsBytes l) (n : Nat) : IsBytes (l.drop n) := fun x hx => h x (List.mem_of_mem_drop hx)
theorem IsBytes.take' {l : List Nat} (h : IsBytes l) (n : Nat) : IsBytes (l.take n) := fun x hx => h x (List.mem_of_mem_take hx)

/-- a header (B) accepts from a byte string declares a data size below 2^32 -/
theorem hdr_dataSize_lt {chk : Bool} {bs : List Nat} {h : Integrity.Hdr} {rest : List Nat}
    (H : Integrity.decodeFileHeader chk bs = .ok (h, rest)) (hb : IsBytes bs) : h.dataSize < 4294967296 := by
  unfold Integrity.decodeFileHeader at H
  cases bs with
  | nil => simp at H
  | cons size t =>
    simp only at H
    have hlt := ilt_le32 (List.drop 3 (List.take (size - 1) t)) (IsBytes.drop' (IsBytes.take' (IsBytes.drop' hb 1) _) _)
    repeat' split at H
    all_goals first
      | (cases H; done)
      | (cases H; exact hlt)

theorem discard_bytes (fuel rem crc : Nat) (bs bs' : List Nat) (crc' : Nat)
    (h : Integrity.discard fuel rem crc bs = .ok (crc', bs')) (hb : IsBytes bs) : IsBytes bs' := by
  induction fuel generalizing rem crc bs with
  | zero => simp [Integrity.discard] at h; rw [← h.2]; exact hb
  | succ fuel ih =>
    unfold Integrity.discard at h
    by_cases h0 : rem = 0
    · simp [h0] at h; rw [← h.2]; exact hb
    · simp only [h0, if_false] at h
      by_cases hn : (!Integrity.hasN bs (min rem Fit.Gen.Integ.reservedbuf)) = true
      · simp only [hn, if_true] at h; cases h
      · simp only [hn, if_false] at h
        exact ih _ _ _ h (IsBytes.drop' hb _)

def ciPair : Integrity.Result → Nat × Res Unit
  | .ok n => (n, .ok ())
  | .err e n => (n, .err (errBC e))

/-- **the `CheckIntegrity` loop of (C) is (B)'s**, from every state at a sequence boundary -/
theorem ciLoop_eq : ∀ (fuel : Nat) (posZero : Bool) (seq : Nat) (s : St), s.rest.length < fuel → IsBytes s.rest →
    s.q.crc16 = 0 → s.q.cur = 0 → s.q.hdrDone = false → s.q.err = none → s.o.chk = true → (posZero = true ↔ seq = 0) →
    ciLoop fuel posZero seq s = ciPair (Integrity.checkLoop fuel seq s.rest)
  | 0, _, _, _, hf, _, _, _, _, _, _, _ => by omega
  | fuel + 1, posZero, seq, s, hf, hb, hcrc, hcur, hdone, herr, hchk, hpos => by
    unfold ciLoop headerOnce Integrity.checkLoop
    simp only [hdone, Bool.false_eq_true, if_false]
    rw [decodeFileHeader_eq s hcrc, hchk]
    cases hh : Integrity.decodeFileHeader true s.rest with
    | error e =>
      simp only
      cases hr : s.rest with
      | nil =>
        rw [hr] at hh
        simp only [Integrity.decodeFileHeader] at hh
        cases hh
        cases posZero with
        | true => have := hpos.mp rfl; subst this; simp [ciPair, errBC, hdone]
        | false =>
          have : seq ≠ 0 := fun h => by have := hpos.mpr h; cases this
          simp [ciPair, errBC, hdone, this]
      | cons a t => simp [ciPair]
    | ok p =>
      obtain ⟨h, rest'⟩ := p
      simp only
      have hok := Integrity.decodeFileHeader_ok hh
      have hds := hdr_dataSize_lt hh hb
      have hrl : rest'.length < s.rest.length := by
        rw [hok.2.2.2.1, List.length_drop]; rcases hok.1 with h | h <;> omega
      have hb' : IsBytes rest' := by rw [hok.2.2.2.1]; exact IsBytes.drop' hb _
      have hdsC : (hdrC h s.rest).dataSize = h.dataSize := rfl
      rw [discardMessages_eq _ h.dataSize _ (by simp [fuelOf]) (by simp [hcur]) (by simpa [hdsC] using hds)
        (by simp [hcur, hdsC]) (by simpa using hchk)]
      simp only [hcur, Nat.sub_zero, hdsC]
      cases hd : Integrity.discard h.dataSize h.dataSize 0 rest' with
      | error e => have := discard_err hd; subst this; simp [ciPair, errBC]
      | ok q =>
        obtain ⟨crc', r2⟩ := q
        simp only
        have hr2 := discard_len _ _ _ _ _ _ hd
        rw [decodeCRC_eq]
        match r2, hr2 with
        | [], _ => simp [ciPair, errBC]
        | [_], _ => simp [ciPair, errBC]
        | lo :: hi :: r3, hr2 =>
          have hb3 : IsBytes r3 := by
            have := discard_bytes _ _ _ _ _ _ hd hb'
            exact fun x hx => this x (by simp [hx])
          simp only [hchk, true_and]
          by_cases hc : crc' ≠ Integrity.le16 [lo, hi]
          · have hc' : crc' ≠ lo + 256 * hi := hc
            simp [hc, hc', ciPair, errBC]
          · have hc' : ¬ crc' ≠ lo + 256 * hi := hc
            simp only [hc, hc', if_false]
            rw [ciLoop_eq fuel false (seq + 1) _ (by simp only [List.length_cons] at hr2 ⊢; omega)
              (by simp only; exact hb3)
              rfl rfl rfl (by simpa using herr) (by simpa using hchk) (by simp)]

end Fit.Link
