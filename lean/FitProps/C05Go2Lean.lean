import FitProps.Go2LeanBits
import FitProps.Go2LeanAccum
/-!
# C05 — tie of the bit store to the source by translation

`(*bits).Pull` of decoder/bits.go is translated to Lean from the CURRENT source on every run
(`FitModel/Generated/Go_decoderbits.lean`): the in-place loop over the 32 words, with its index arithmetic, its `continue` on a
zero word and an explicit panic outcome for every index expression. The theorem states that on every 32-word store and for
every bit size it does not panic and returns exactly the value and the store of the model's `Fit.Bits.pull`, the function
the component-expansion theorems of C05 are about.

`(*Accumulator).Collect / Accumulate / Reset` of decoder/accumulator.go are translated likewise (index loop with the alias
`av := &a.values[i]`, writes through it, early return, append) and equal `Fit.Accum.collect / accumulate / reset` on every
table (`toGo` renders a model entry as the Go struct).

PROPERTY THEOREMS (audited by ./check): C05_go2lean_pull, C05_go2lean_pull_twice, C05_go2lean_collect,
C05_go2lean_accumulate, C05_go2lean_accum_reset
-/
namespace Fit.C05
open Fit.Bits Fit.Go2Lean

theorem C05_go2lean_pull (ws : List Nat) (hl : ws.length = 32) (n : Nat) (hn : n < 256) :
    Go.decoderbits.bits.Pull ⟨ws⟩ n = some (⟨(pull ws n).2⟩, (pull ws n).1) := bits_pull ws hl n hn

/-- successive pulls (how components are expanded one after the other) compose as in the model -/
theorem C05_go2lean_pull_twice (ws : List Nat) (hl : ws.length = 32) (n1 n2 : Nat) (h1 : n1 < 256) (h2 : n2 < 256)
    (hl' : (pull ws n1).2.length = 32) :
    (Go.decoderbits.bits.Pull ⟨ws⟩ n1).bind (fun r => (Go.decoderbits.bits.Pull r.1 n2).map (fun r' => (r.2, r'.2, r'.1.store)))
      = some ((pull ws n1).1, (pull (pull ws n1).2 n2).1, (pull (pull ws n1).2 n2).2) := by
  rw [bits_pull ws hl n1 h1]
  simp [bits_pull _ hl' n2 h2]

open Fit.Accum in
theorem C05_go2lean_collect (a : Acc) (m f v : Nat) :
    Go.decoderbits.Accumulator.Collect ⟨a.map toGo⟩ m f v = some ⟨(collect a m f v).map toGo⟩ := accum_collect a m f v

open Fit.Accum in
theorem C05_go2lean_accumulate (a : Acc) (m f v bits : Nat) :
    Go.decoderbits.Accumulator.Accumulate ⟨a.map toGo⟩ m f v bits
      = some (⟨(accumulate a m f v bits).2.map toGo⟩, (accumulate a m f v bits).1) := accum_accumulate a m f v bits

open Fit.Accum in
theorem C05_go2lean_accum_reset (a : Acc) :
    Go.decoderbits.Accumulator.Reset ⟨a.map toGo⟩ = some ⟨(reset : Acc).map toGo⟩ := accum_reset a

/-- Non-vacuity: a concrete store (the example of the source comment: 0x…FFFF_0000_0000_2701_0E08, pull 8 bits) -/
example : Go.decoderbits.bits.Pull ⟨[0x27010E08, 0xFFFF] ++ List.replicate 30 0⟩ 8
    = some (⟨[0xFF0000000027010E, 0xFF] ++ List.replicate 30 0⟩, 0x08) := by decide +kernel

end Fit.C05
