import FitProps.EndToEndLemmas
import FitProps.EndToEndDescLemmas
import FitProps.EndToEndBackLemmas
import FitProps.EndToEndStrictLemmas
import FitProps.EndToEndExpandLemmas
import FitModel.ValidatorArith
/-!
# C01 — Encode then decode returns the messages that were written (END TO END: protocol values, the real validator)

The theorems are about `Fit.E2E` (FitModel/EndToEnd.lean): typed messages → `Fit.Validator.gateBatch` (the encoder's
`validateMessages`: protocol validator, then the message validator with its state threaded, model of C10) → every kept
field / developer field marshalled (`Fit.Value.marshal`, model of C06) → `Fit.Wire.encodeFit` (definitions under the LRU,
compressed timestamps, header, CRC: model of `FitProps/C01.lean`) → bytes → `Fit.DecApi` `Next`/`Decode` (the
decoder-API model of C03/C07 with its field decoding: factory look-ups, array inference, the `strcount` override, developer
fields through field descriptions, timestamp reconstruction) → decoded messages, projected to number / fields (number,
base type, value) / developer fields (number, developer data index, value).

They are proved by COMPOSING the layers: `C10_post` / `C10_validate_filter` (what reaches the writer: `keptOK_of_validateAll`),
the wire-level round trip behind `C01_wire_records` (`encodeMsgs_roundtrip`: items matching the messages, LRU / timestamp
invariants), a bridge between the two decoder models (`bridge_records`: wherever the framing decoder parses, the decoder-API
model returns the interpretation of the same items), the C06 lemmas at the value layer (`unmarshal_reread`,
`reread_eq_normal`), and the agreement of encoder and decoder on timestamps (`ts_marshal`) and field descriptions
(`desc_sync`). Lemmas: FitProps/EndToEnd*Lemmas.lean.

PROPERTY THEOREMS: C01_e2e_actual, C01_e2e_roundtrip_partial, C01_e2e_reencode_partial, C01_e2e_retained,
C01_e2e_dec_output_normal, C01_e2e_reencode, C01_e2e_reencode_normal, C01_e2e_full_fails_arr, C01_e2e_full_fails_zero,
C01_e2e_full_fails_fffd, C01_e2e_known_array_is_array, C01_e2e_reencode_undersized_roundtrip, C01_e2e_reencode_fails_pieces, C01_e2e_reencode_fails_f64dev,
C01_e2e_reencode_boolarr_roundtrip, C01_e2e_value_independent_of_byte_order, C01_e2e_roundtrip_strict_partial,
C01_e2e_full_fails_emptystr, C01_e2e_norm_bool_witness, C01_e2e_actual_exact, C01_e2e_roundtrip_exact_partial,
C01_e2e_expansion_on

Findings of the pinned tree (open, see known_findings.jsonl): KF-C01-arr (F03), KF-C01-zero (F04), KF-C01-fffd (F02): the
full statement `C01_e2e_roundtrip_full` is false on them (`C01_e2e_full_fails_*`); `C01_e2e_roundtrip_partial` excludes
exactly these three classes, `C01_e2e_actual` says what the code returns on ALL accepted inputs, the classes included.
The last sentence of the property (re-encoding what a decoder returned) is `C01_e2e_reencode`, a theorem about the output of
`decodeChain` on ARBITRARY bytes (lemmas: FitProps/EndToEndBack*Lemmas.lean: the shape of `UnmarshalValue`'s answers, an
invariant of the decoder-API model over all byte streams, `C10_validate_filter` on decoded messages); it excludes two
classes of decoder output — KF-C01-strpieces, KF-C01-f64dev — on which `C01_e2e_reencode_full` is false
(`C01_e2e_reencode_fails_*`); in the first only the scalar/array shape of a value differs (`C01_e2e_reencode_normal`).
A third class, KF-C01-undersized (an array field defined with fewer bytes than one element came back as a scalar), was
repaired in /repo (`decodeFields` returns the one-element array): its hypothesis is gone from `C01_e2e_reencode` /
`C01_e2e_dec_output_normal`, and the former witness round-trips (`C01_e2e_reencode_undersized_roundtrip`).
-/
namespace Fit.C01
open Fit.E2E Fit.Wire Fit.Msg Fit.Value

theorem allMatch_map {α β γ δ : Type} (R : α → β → Prop) (S : γ → δ → Prop) (f : α → γ) (g : β → δ)
    (h : ∀ a b, R a b → S (f a) (g b)) : ∀ (as : List α) (bs : List β), AllMatch R as bs → AllMatch S (as.map f) (bs.map g) := by
  intro as bs hm
  induction hm with
  | nil => exact AllMatch.nil
  | cons hab _ ih => exact AllMatch.cons (h _ _ hab) ih

theorem filesOf_snd (c : Cfg) : ∀ (files : List FileIn) (kepts : List (List Message)), kepts.length = files.length →
    (filesOf c files kepts).map (·.2) = kepts := by
  intro files
  induction files with
  | nil => intro kepts h; cases kepts <;> simp_all [filesOf]
  | cons f fs ih =>
    intro kepts h
    cases kepts with
    | nil => simp at h
    | cons k ks =>
      have := ih ks (by simpa using h)
      simp only [filesOf, List.zip_cons_cons, List.map_cons, List.map_map] at this ⊢
      rw [this]

/-- **END TO END, AS THE CODE BEHAVES.** For every chain of files the encoder accepts (`encodeChain … = (kepts, bytes, none)`:
every `Encode` passed the protocol validator and the real message validator; `kepts` = what validation retained), every
option combination of the wire model (both byte orders, header option, 1..16 local message types, 12/14-byte headers,
protocol version, validator options — `CfgOK`), for the decoder with or without checksum, expansion off: decoding the
bytes returns exactly one sequence per file, without error, whose messages are the retained messages in order — message
numbers; every field with the base type and value `fieldBack reread` gives; every developer field under the base type of
the FIRST field description of (developer data index, number), which is the one the validator resolved — each message
either as it is or with its first timestamp in front (compressed-timestamp header, the original full timestamp
reconstructed). Hypotheses: typing only (`inDomain`: messages are built from the decoder's factory, values are
well-formed `proto.Value`s, numbers are bytes; the stream is below 4 GiB). -/
theorem C01_e2e_actual (c : Cfg) (o : Fit.DecApi.Opts) (files : List FileIn) (kepts : List (List Message)) (bytes : List Nat)
    (henc : encodeChain c files 0 = (kepts, bytes, none)) (hne : files ≠ [])
    (hc : CfgOK c files) (ho : PlainOpts o) (hdom : ∀ kept ∈ kepts, inDomain o.fac kept = true)
    (hsmall : bytes.length < 4294967296) :
    ∃ seqs, decodeValues o bytes = (seqs, none) ∧
      AllMatch (fun kept ns => seqMatches reread true o.fac c.w.arch {} kept ns = true) kepts seqs := by
  obtain ⟨fits, h1, h2, _⟩ := e2e_chain c o files kepts bytes henc hne hc ho hdom hsmall
  obtain ⟨hlen, _, _⟩ := encodeChain_ok c files 0 kepts bytes henc
  refine ⟨fits.map (fun f => f.msgs.map proj), by simp only [decodeValues, h1], ?_⟩
  have := allMatch_map (FitMatch o c.w) (fun kept ns => seqMatches reread true o.fac c.w.arch {} kept ns = true)
    (·.2) (fun f => f.msgs.map proj) (fun a b hab => hab.1) _ _ h2
  rw [filesOf_snd c files kepts hlen] at this
  exact this

/-- **END TO END, DETERMINISTIC (audit C01-5: the theorem pins the order).** Under the hypotheses of `C01_e2e_actual`:
decoding the bytes returns EXACTLY `actualSeq` of what validation retained, file by file — `seqBack reread`, which threads
the encoder's two timestamps (`Wire.compressTs`: reference and last timestamp, fresh per file) and puts the timestamp of a
message in front if and only if the encoder moved it into a compressed-timestamp header; never when the header option is
normal. `C01_e2e_actual` ("as it is or with its first timestamp in front") is the weaker form. Proved by carrying the
encoder's decision through the wire-level round trip (`encodeMsgs_roundtripF_exact`, `good_items_exact`). -/
theorem C01_e2e_actual_exact (c : Cfg) (o : Fit.DecApi.Opts) (files : List FileIn) (kepts : List (List Message)) (bytes : List Nat)
    (henc : encodeChain c files 0 = (kepts, bytes, none)) (hne : files ≠ [])
    (hc : CfgOK c files) (ho : PlainOpts o) (hdom : ∀ kept ∈ kepts, inDomain o.fac kept = true)
    (hsmall : bytes.length < 4294967296) :
    decodeValues o bytes = (kepts.map (actualSeq o.fac c.w), none) := by
  obtain ⟨fits, h1, h2, _⟩ := e2e_chain c o files kepts bytes henc hne hc ho hdom hsmall
  obtain ⟨hlen, _, _⟩ := encodeChain_ok c files 0 kepts bytes henc
  simp only [decodeValues, h1, Prod.mk.injEq, and_true]
  have : ∀ (fl : List (Wire.Hdr × List Message)) (ft : List Fit.DecApi.Fit), AllMatch (FitMatch o c.w) fl ft →
      ft.map (fun f => f.msgs.map proj) = (fl.map (·.2)).map (actualSeq o.fac c.w) := by
    intro fl ft hm
    induction hm with
    | nil => rfl
    | cons hab _ ih => simp only [List.map_cons, ih, hab.2.2.2.2]
  rw [this _ _ h2, filesOf_snd c files kepts hlen]

/-- no field / developer field of the retained messages is in one of the three finding classes -/
def noKF (fac : Fit.DecApi.Factory) (kept : List Message) : Bool :=
  !kfZero fac kept && !kfArr fac kept && !kfFFFD fac kept

/-- **END TO END ROUND TRIP (partial: excludes exactly the classes of KF-C01-zero, KF-C01-arr, KF-C01-fffd).**
Under the hypotheses of `C01_e2e_actual`, when no retained field / developer field holds a value of size zero, an array
read in scalar mode, or a string with a well-formed U+FFFD: every decoded sequence is the NORMAL FORM of what validation
retained (`seqMatches normalValue false`): same message numbers in the same order; per field number, base type
(the definition's — the factory's for a known field, they agree), value in normal form (`normalValue`: rules (a)–(d)),
order; per developer field number, developer data index, value; the timestamp of a compressed-timestamp record
reconstructed in full (rule (e)). -/
theorem C01_e2e_roundtrip_partial (c : Cfg) (o : Fit.DecApi.Opts) (files : List FileIn) (kepts : List (List Message))
    (bytes : List Nat) (henc : encodeChain c files 0 = (kepts, bytes, none)) (hne : files ≠ [])
    (hc : CfgOK c files) (ho : PlainOpts o) (hdom : ∀ kept ∈ kepts, inDomain o.fac kept = true)
    (hsmall : bytes.length < 4294967296) (hkf : ∀ kept ∈ kepts, noKF o.fac kept = true) :
    ∃ seqs, decodeValues o bytes = (seqs, none) ∧
      AllMatch (fun kept ns => seqMatches normalValue false o.fac c.w.arch {} kept ns = true) kepts seqs := by
  obtain ⟨fits, h1, h2, h3⟩ := e2e_chain c o files kepts bytes henc hne hc ho hdom hsmall
  obtain ⟨hlen, _, _⟩ := encodeChain_ok c files 0 kepts bytes henc
  refine ⟨fits.map (fun f => f.msgs.map proj), by simp only [decodeValues, h1], ?_⟩
  -- per file: the code's answer is the normal form outside the classes
  have hstep : ∀ (fl : List (Wire.Hdr × List Message)) (ft : List Fit.DecApi.Fit), AllMatch (FitMatch o c.w) fl ft →
      (∀ file ∈ fl, FileOK o c.w file.1 file.2 ∧ noKF o.fac file.2 = true) →
      AllMatch (fun kept ns => seqMatches normalValue false o.fac c.w.arch {} kept ns = true) (fl.map (·.2))
        (ft.map (fun f => f.msgs.map proj)) := by
    intro fl ft hm
    induction hm with
    | nil => intro _; exact AllMatch.nil
    | @cons a b as bs hab _ ih =>
      intro hall
      obtain ⟨hf, hk⟩ := hall a (by simp)
      simp only [noKF, Bool.and_eq_true, Bool.not_eq_true'] at hk
      refine AllMatch.cons ?_ (ih (fun x hx => hall x (List.mem_cons_of_mem _ hx)))
      exact seqMatches_normal o.fac c.w.arch a.2 {} _ hf.keptOK hf.dom hk.1.1 hk.1.2 hk.2 hab.1
  have := hstep _ _ h2 (fun file hfile => ⟨h3 file hfile, by
    have hk : file.2 ∈ kepts := by
      have : file.2 ∈ (filesOf c files kepts).map (·.2) := List.mem_map.mpr ⟨file, hfile, rfl⟩
      rw [filesOf_snd c files kepts hlen] at this; exact this
    exact hkf _ hk⟩)
  rw [filesOf_snd c files kepts hlen] at this
  exact this

/-- **… and outside the three finding classes it is exactly the normal form**: `normalSeq` (deterministic), not merely one of
the allowed forms. This is the equation the driver evaluates on the implementation's answer of every `rte2e` line
(`fail:timestamp-placement`). -/
theorem C01_e2e_roundtrip_exact_partial (c : Cfg) (o : Fit.DecApi.Opts) (files : List FileIn) (kepts : List (List Message))
    (bytes : List Nat) (henc : encodeChain c files 0 = (kepts, bytes, none)) (hne : files ≠ [])
    (hc : CfgOK c files) (ho : PlainOpts o) (hdom : ∀ kept ∈ kepts, inDomain o.fac kept = true)
    (hsmall : bytes.length < 4294967296) (hkf : ∀ kept ∈ kepts, noKF o.fac kept = true) :
    decodeValues o bytes = (kepts.map (normalSeq o.fac c.w), none) := by
  rw [C01_e2e_actual_exact c o files kepts bytes henc hne hc ho hdom hsmall]
  obtain ⟨_, _, _, h3⟩ := e2e_chain c o files kepts bytes henc hne hc ho hdom hsmall
  obtain ⟨hlen, _, _⟩ := encodeChain_ok c files 0 kepts bytes henc
  congr 1
  apply List.map_congr_left
  intro kept hk
  have hk' : kept ∈ (filesOf c files kepts).map (·.2) := by rw [filesOf_snd c files kepts hlen]; exact hk
  obtain ⟨file, hfile, rfl⟩ := List.mem_map.mp hk'
  have hf := h3 file hfile
  have hcl := hkf _ hk
  simp only [noKF, Bool.and_eq_true, Bool.not_eq_true'] at hcl
  exact seqBack_normal o.fac c.w file.2 {} hf.keptOK hf.dom hcl.1.1 hcl.1.2 hcl.2

theorem seqMatches_literal (fac : Fit.DecApi.Factory) (arch : Nat) : ∀ (kept : List Message) (vst : Fit.Validator.State)
    (ns : List NMsg), seqNormal fac arch vst kept = true → seqMatches normalValue false fac arch vst kept ns = true →
    seqMatches idValue false fac arch vst kept ns = true := by
  intro kept
  induction kept with
  | nil => intro vst ns _ h; cases ns <;> simp_all [seqMatches]
  | cons m ms ih =>
    intro vst ns hn h
    cases ns with
    | nil => simp [seqMatches] at h
    | cons n ns =>
      simp only [seqNormal, Bool.and_eq_true, beq_iff_eq] at hn
      simp only [seqMatches, Bool.and_eq_true] at h ⊢
      rw [← hn.1]
      exact ⟨h.1, ih _ ns hn.2 h.2⟩

/-- **RE-ENCODING (partial: for messages whose values are in wire-normal form, outside the three finding classes).**
The last sentence of the property. Messages a decoder returned carry values in wire-normal form for its factory
(`seqNormal`) and validation only filters them (`C10_validate_filter`). Whenever the encoder accepts such messages,
encoding what it retained and decoding again returns those very messages — numbers, base types, values AS THEY ARE
(`idValue`: not merely equivalent ones), order, developer fields — each with its timestamp where it was or (rule (e),
when the encoder compresses it into the record header) in front. -/
theorem C01_e2e_reencode_partial (c : Cfg) (o : Fit.DecApi.Opts) (files : List FileIn) (kepts : List (List Message))
    (bytes : List Nat) (henc : encodeChain c files 0 = (kepts, bytes, none)) (hne : files ≠ [])
    (hc : CfgOK c files) (ho : PlainOpts o) (hdom : ∀ kept ∈ kepts, inDomain o.fac kept = true)
    (hsmall : bytes.length < 4294967296) (hkf : ∀ kept ∈ kepts, noKF o.fac kept = true)
    (hnorm : ∀ kept ∈ kepts, seqNormal o.fac c.w.arch {} kept = true) :
    ∃ seqs, decodeValues o bytes = (seqs, none) ∧
      AllMatch (fun kept ns => seqMatches idValue false o.fac c.w.arch {} kept ns = true) kepts seqs := by
  obtain ⟨seqs, h1, h2⟩ := C01_e2e_roundtrip_partial c o files kepts bytes henc hne hc ho hdom hsmall hkf
  refine ⟨seqs, h1, ?_⟩
  clear h1 henc hdom hkf
  induction h2 with
  | nil => exact AllMatch.nil
  | @cons a b as bs hab _ ih =>
    exact AllMatch.cons (seqMatches_literal o.fac c.w.arch a {} b (hnorm a (by simp)) hab)
      (ih (fun k hk => hnorm k (List.mem_cons_of_mem _ hk)))

/-! ### the last sentence of the property, about DECODER OUTPUT: "whenever the encoder accepts the messages the decoder
returned for some input, encoding them and decoding again gives those same messages" -/

/-- what the validator guarantees of each file of an accepted chain, and that it ran on the file's messages -/
theorem gate_validateAll (c : Cfg) (f : FileIn) (kept : List Message) (h : gate c f = .ok kept) :
    Fit.Validator.validateAll c.D c.vo {} f.msgs = .ok kept := by
  simp only [gate] at h
  split at h
  · cases h
  · simp only [Fit.Validator.gateBatch] at h
    cases hpa : Fit.Validator.protoAll (fileVersion c f) f.msgs with
    | panic => rw [hpa] at h; cases h
    | err e => rw [hpa] at h; cases h
    | ok u =>
      rw [hpa] at h
      simp only at h
      cases hva : Fit.Validator.validateAll c.D c.vo {} f.msgs with
      | error e => rw [hva] at h; cases h
      | ok k =>
        rw [hva] at h
        simp only [Except.ok.injEq] at h
        subst h; rfl

/-- **WHAT VALIDATION RETAINS OF DECODER OUTPUT (the reading of "those same messages").** When the encoder accepts the
sequences a decoder returned (`backFiles`: header members and messages as they are), what its message validator retained of
each sequence is `Fit.E2E.retained`: every message, every field and developer field AS IT IS and in order, minus exactly the
invalid-valued ones when invalid values are omitted (a field whose value is invalid for its base type; a developer field
whose value is invalid for the base type of the first field description of its (index, number)) — nothing restored or
converted — provided no float64-typed developer value meets a field description with scale / offset (class `kfF64Dev`,
finding KF-C01-f64dev: there the validator rewrites the value). Holds for ANY list of decoded sequences (no hypothesis on
where they come from). -/
theorem C01_e2e_retained (c : Cfg) (fits : List Fit.DecApi.Fit) (kepts : List (List Message)) (bytes : List Nat)
    (henc : encodeChain c (backFiles fits) 0 = (kepts, bytes, none))
    (hR : ∀ f ∈ fits, kfF64Dev c.vo {} f.msgs = false) :
    kepts = fits.map (fun f => retained c.vo.omitInvalid {} f.msgs) := by
  obtain ⟨hlen, _, hgates⟩ := encodeChain_ok c (backFiles fits) 0 kepts bytes henc
  have hlen' : kepts.length = fits.length := by simpa [backFiles] using hlen
  apply List.ext_getElem (by simp [hlen'])
  intro i h1 h2
  simp only [List.getElem_map]
  have hi : i < fits.length := by simpa using h2
  have hmem : ((backFiles fits)[i]'(by simp [backFiles, hi]), kepts[i]) ∈ (backFiles fits).zip kepts := by
    rw [List.mem_iff_getElem]
    exact ⟨i, by simp [backFiles]; omega, by simp⟩
  have hg := hgates _ hmem
  have hva := gate_validateAll c _ _ hg
  have hmsgs : ((backFiles fits)[i]'(by simp [backFiles, hi])).msgs = (fits[i]).msgs.map ofDecoded := by simp [backFiles]
  rw [hmsgs] at hva
  exact validateAll_retained c.D c.vo _ {} _ hva (hR _ (List.getElem_mem hi))

/-- **DECODER OUTPUT IS IN WIRE-NORMAL FORM** (formerly the unproved `def C01_e2e_dec_output_normal`). For ARBITRARY input
bytes (any stream; `e` = how the `Next` / `Decode` loop ended: the sequences returned before a later one failed are
included), decoder with component expansion off and no listeners, a factory that reads field 253 as a plain uint32 where it
knows it and knows the three key members of `field_description` (the standard factory): when the encoder accepts the returned
sequences, what its validator retained of each (`C01_e2e_retained`) (i) meets the typing assumptions of the end-to-end
theorems (`inDomain`: nothing is assumed about decoder output any more), (ii) lies outside the three finding classes of the
forward direction (`noKF`), (iii) is in wire-normal form for the decoder's factory (`seqNormal`: every value is its own normal
form under the flags it will be read with) — (iii) outside one explicit class of decoder output: `kfPieces` (a string
field without profile entry / a developer string field whose bytes hold ≥ 2 non-empty segments of which < 2 survive the
UTF-8 cleaning: returned as an array of < 2 strings). (Until the repair of KF-C01-undersized a second class was excluded:
a field the factory knows as an array, written with fewer bytes than one element, was returned as a scalar; it is returned
as the array of that one element now, which is its own normal form.) -/
theorem C01_e2e_dec_output_normal (c : Cfg) (o : Fit.DecApi.Opts) (input : List Nat) (fits : List Fit.DecApi.Fit)
    (e : Option Fit.DecApi.Out) (kepts : List (List Message)) (bytes : List Nat)
    (hdec : decodeChain o input = (fits, e)) (henc : encodeChain c (backFiles fits) 0 = (kepts, bytes, none))
    (hb : ∀ b ∈ input, b < 256) (ho : PlainOpts o) (hfac : facOKB o.fac = true) (hkeys : keysKnown o.fac = true)
    (hR : ∀ f ∈ fits, kfF64Dev c.vo {} f.msgs = false) :
    kepts = fits.map (fun f => retained c.vo.omitInvalid {} f.msgs) ∧
    ∀ f ∈ fits, inDomain o.fac (retained c.vo.omitInvalid {} f.msgs) = true ∧
      noKF o.fac (retained c.vo.omitInvalid {} f.msgs) = true ∧
      (kfPieces f.msgs = false →
        seqNormal o.fac c.w.arch {} (retained c.vo.omitInvalid {} f.msgs) = true) := by
  have hret := C01_e2e_retained c fits kepts bytes henc hR
  refine ⟨hret, ?_⟩
  intro f hf
  have hgood : ∀ m ∈ f.msgs, MsgGood o.fac m := by
    have := decodeChain_good o input hb ho hfac f (by rw [hdec]; exact hf)
    exact this
  -- what acceptance guarantees of the retained messages
  obtain ⟨hlen, _, hgates⟩ := encodeChain_ok c (backFiles fits) 0 kepts bytes henc
  obtain ⟨i, hi, rfl⟩ := List.mem_iff_getElem.mp hf
  have hk : KeptOK {} (retained c.vo.omitInvalid {} (fits[i]).msgs) := by
    have h1 : i < kepts.length := by rw [hlen]; simp [backFiles, hi]
    have hmem : ((backFiles fits)[i]'(by simp [backFiles, hi]), kepts[i]) ∈ (backFiles fits).zip kepts := by
      rw [List.mem_iff_getElem]
      exact ⟨i, by simp [backFiles]; omega, by simp⟩
    have hva := gate_validateAll c _ _ (hgates _ hmem)
    have hko := (keptOK_of_validateAll c.D c.vo _ {} _ hva).1
    have : kepts[i] = retained c.vo.omitInvalid {} (fits[i]).msgs := by
      have := congrArg (fun l => l[i]?) hret
      simp only [List.getElem?_map, List.getElem?_eq_getElem h1, List.getElem?_eq_getElem hi, Option.map_some,
        Option.some.injEq] at this
      exact this
    rw [← this]; exact hko
  obtain ⟨d1, d2, d3, d4, d5⟩ := retained_good o.fac hfac hkeys c.w.arch c.vo.omitInvalid _ {} hgood hk
  refine ⟨by rw [inDomain_eq, hfac, d1]; rfl, ?_, d5⟩
  simp only [noKF, kfZero, kfArr, kfFFFD, d2, d3, d4, Bool.not_false, Bool.and_self]

/-- **THE DECODER RETURNS THE ARRAY SHAPE ITS FACTORY PROMISES** (what the repair of KF-C01-undersized established). For
ARBITRARY input bytes (component expansion off, no listeners, a factory that reads field 253 as a plain uint32 where it knows
it): in every message of every sequence the `Next` / `Decode` loop returns, a field the factory knows as an ARRAY field holds
an array value — also when its definition gave it fewer bytes than one element of its base type (before the repair:
the scalar `convertBytesToValue` assembled). The former class `kfUndersized` (`known && array && !isSlice value`) is empty. -/
theorem C01_e2e_known_array_is_array (o : Fit.DecApi.Opts) (input : List Nat) (hb : ∀ b ∈ input, b < 256) (ho : PlainOpts o)
    (hfac : facOKB o.fac = true) :
    ∀ f ∈ (decodeChain o input).1, ∀ m ∈ f.msgs, ∀ d ∈ m.fields, d.known = true → d.array = true → isSlice d.value = true :=
  fun f hf m hm d hd => ((decodeChain_good o input hb ho hfac f hf m hm).2.1 d hd).shape

/-- **RE-ENCODING DECODER OUTPUT: THE LAST SENTENCE OF THE PROPERTY.** For ARBITRARY input bytes: whenever the encoder
(any option combination, real validator model) accepts the sequences the decoder returned for them (`hdec`, `henc`), then —
outside the two classes of decoder output named in the hypotheses `hR` (`kfF64Dev`), `hN` (`kfPieces`),
each an open finding with a kernel-evaluated witness below — (1) what validation retained is the decoded messages as they
are minus their invalid-valued fields (`retained`), and (2) decoding the written bytes again returns, without error, one
sequence per sequence whose messages are THOSE retained messages: same numbers and order, every field and developer field
with the same number, base type and value AS IT IS (`idValue`: identical, not merely equivalent), each message with its
first timestamp where it was or — when the encoder moved it into a compressed-timestamp header — in front.
"Those same messages" is therefore read as: the messages the decoder returned, as far as message validation retained them;
an invalid-valued field of a decoded message (e.g. the invalid sentinel, which decoders return like any other value) is not
written by the default validator and is absent after the second decoding. Typing hypotheses only: `CfgOK`, `PlainOpts`
(expansion off, no listeners), `facOKB` / `keysKnown` (the factory reads field 253 and the key members of field_description
as the standard factory does), input bytes are bytes, the written stream is below 4 GiB. -/
theorem C01_e2e_reencode (c : Cfg) (o : Fit.DecApi.Opts) (input : List Nat) (fits : List Fit.DecApi.Fit)
    (e : Option Fit.DecApi.Out) (kepts : List (List Message)) (bytes : List Nat)
    (hdec : decodeChain o input = (fits, e)) (hne : fits ≠ [])
    (henc : encodeChain c (backFiles fits) 0 = (kepts, bytes, none))
    (hc : CfgOK c (backFiles fits)) (hb : ∀ b ∈ input, b < 256) (ho : PlainOpts o) (hfac : facOKB o.fac = true)
    (hkeys : keysKnown o.fac = true) (hsmall : bytes.length < 4294967296)
    (hR : ∀ f ∈ fits, kfF64Dev c.vo {} f.msgs = false)
    (hN : ∀ f ∈ fits, kfPieces f.msgs = false) :
    kepts = fits.map (fun f => retained c.vo.omitInvalid {} f.msgs) ∧
    ∃ seqs, decodeValues o bytes = (seqs, none) ∧
      AllMatch (fun kept ns => seqMatches idValue false o.fac c.w.arch {} kept ns = true) kepts seqs := by
  obtain ⟨hret, hall⟩ := C01_e2e_dec_output_normal c o input fits e kepts bytes hdec henc hb ho hfac hkeys hR
  refine ⟨hret, ?_⟩
  have hk : ∀ kept ∈ kepts, ∃ f ∈ fits, kept = retained c.vo.omitInvalid {} f.msgs := by
    intro kept hkm
    rw [hret] at hkm
    obtain ⟨f, hf, rfl⟩ := List.mem_map.mp hkm
    exact ⟨f, hf, rfl⟩
  have hne' : backFiles fits ≠ [] := by
    intro h
    have : (backFiles fits).length = 0 := by rw [h]; rfl
    simp only [backFiles, List.length_map] at this
    exact hne (List.eq_nil_of_length_eq_zero this)
  exact C01_e2e_reencode_partial c o (backFiles fits) kepts bytes henc hne' hc ho
    (fun kept hkm => by obtain ⟨f, hf, rfl⟩ := hk kept hkm; exact (hall f hf).1) hsmall
    (fun kept hkm => by obtain ⟨f, hf, rfl⟩ := hk kept hkm; exact (hall f hf).2.1)
    (fun kept hkm => by obtain ⟨f, hf, rfl⟩ := hk kept hkm; exact (hall f hf).2.2 (hN f hf))

/-- **… and in the shape class nothing is lost.** Without the hypothesis `hN`: also when a decoded field lies in
`kfPieces`, decoding the written bytes again returns the NORMAL FORM of the retained messages
(`normalValue`): the same numbers / strings in the same order, the scalar string where it first returned a one-element
string array. What differs from the first decoding in that class is the shape of the value (scalar / array), never its
content. -/
theorem C01_e2e_reencode_normal (c : Cfg) (o : Fit.DecApi.Opts) (input : List Nat) (fits : List Fit.DecApi.Fit)
    (e : Option Fit.DecApi.Out) (kepts : List (List Message)) (bytes : List Nat)
    (hdec : decodeChain o input = (fits, e)) (hne : fits ≠ [])
    (henc : encodeChain c (backFiles fits) 0 = (kepts, bytes, none))
    (hc : CfgOK c (backFiles fits)) (hb : ∀ b ∈ input, b < 256) (ho : PlainOpts o) (hfac : facOKB o.fac = true)
    (hkeys : keysKnown o.fac = true) (hsmall : bytes.length < 4294967296)
    (hR : ∀ f ∈ fits, kfF64Dev c.vo {} f.msgs = false) :
    kepts = fits.map (fun f => retained c.vo.omitInvalid {} f.msgs) ∧
    ∃ seqs, decodeValues o bytes = (seqs, none) ∧
      AllMatch (fun kept ns => seqMatches normalValue false o.fac c.w.arch {} kept ns = true) kepts seqs := by
  obtain ⟨hret, hall⟩ := C01_e2e_dec_output_normal c o input fits e kepts bytes hdec henc hb ho hfac hkeys hR
  refine ⟨hret, ?_⟩
  have hk : ∀ kept ∈ kepts, ∃ f ∈ fits, kept = retained c.vo.omitInvalid {} f.msgs := by
    intro kept hkm
    rw [hret] at hkm
    obtain ⟨f, hf, rfl⟩ := List.mem_map.mp hkm
    exact ⟨f, hf, rfl⟩
  have hne' : backFiles fits ≠ [] := by
    intro h
    have : (backFiles fits).length = 0 := by rw [h]; rfl
    simp only [backFiles, List.length_map] at this
    exact hne (List.eq_nil_of_length_eq_zero this)
  exact C01_e2e_roundtrip_partial c o (backFiles fits) kepts bytes henc hne' hc ho
    (fun kept hkm => by obtain ⟨f, hf, rfl⟩ := hk kept hkm; exact (hall f hf).1) hsmall
    (fun kept hkm => by obtain ⟨f, hf, rfl⟩ := hk kept hkm; exact (hall f hf).2.1)

/-- the last sentence at full strength: `C01_e2e_reencode` without the class hypotheses `hR`, `hN` -/
def C01_e2e_reencode_full : Prop :=
  ∀ (c : Cfg) (o : Fit.DecApi.Opts) (input : List Nat) (fits : List Fit.DecApi.Fit) (e : Option Fit.DecApi.Out)
    (kepts : List (List Message)) (bytes : List Nat),
    decodeChain o input = (fits, e) → fits ≠ [] → encodeChain c (backFiles fits) 0 = (kepts, bytes, none) →
    CfgOK c (backFiles fits) → (∀ b ∈ input, b < 256) → PlainOpts o → facOKB o.fac = true → keysKnown o.fac = true →
    bytes.length < 4294967296 →
    kepts = fits.map (fun f => retained c.vo.omitInvalid {} f.msgs) ∧
    ∃ seqs, decodeValues o bytes = (seqs, none) ∧
      AllMatch (fun kept ns => seqMatches idValue false o.fac c.w.arch {} kept ns = true) kepts seqs

/-- the full-strength statement: the round trip to the normal form for EVERY accepted input of the domain -/
def C01_e2e_roundtrip_full : Prop :=
  ∀ (c : Cfg) (o : Fit.DecApi.Opts) (files : List FileIn) (kepts : List (List Message)) (bytes : List Nat),
    encodeChain c files 0 = (kepts, bytes, none) → files ≠ [] → CfgOK c files → PlainOpts o →
    (∀ kept ∈ kepts, inDomain o.fac kept = true) → bytes.length < 4294967296 →
    ∃ seqs, decodeValues o bytes = (seqs, none) ∧
      AllMatch (fun kept ns => seqMatches normalValue false o.fac c.w.arch {} kept ns = true) kepts seqs

/-! ### the three open findings: witnesses on which the full statement fails (evaluated by the kernel) -/

def kfFac : Fit.DecApi.Factory :=
  [⟨20, 3, ⟨true, 0x02, false, false, false, []⟩⟩, ⟨20, 253, ⟨true, 0x86, false, false, false, []⟩⟩,
   ⟨0, 8, ⟨true, 0x07, false, false, false, []⟩⟩]
def kfCfg (preserve : Bool) : Cfg :=
  { w := ⟨0, false, 4⟩, pvOpt := 32, vo := { omitInvalid := !preserve }, profileVersion := 21158 }
def kfOpts : Fit.DecApi.Opts := { chk := true, exp := false, fac := kfFac }
def hrField (v : Value) : Field := ⟨some { num := 3, baseType := 0x02, nameKnown := true }, v, false⟩
def nameField (v : Value) : Field := ⟨some { num := 8, baseType := 0x07, nameKnown := true }, v, false⟩

/-- F03: `[]uint8{70, 71}` in record.heart_rate -/
def arrFiles : List FileIn := [{ msgs := [⟨20, [hrField (.sliceUint8 [70, 71])], []⟩] }]
/-- F04: a zero-length array kept under "preserve invalid values" -/
def zeroFiles : List FileIn := [{ msgs := [⟨20, [hrField (.uint8 70)], []⟩, ⟨20, [hrField (.sliceUint8 [])], []⟩] }]
/-- F02: "a\ufffdb" in file_id.product_name -/
def fffdFiles : List FileIn := [{ msgs := [⟨0, [nameField (.string [0x61, 0xEF, 0xBF, 0xBD, 0x62])], []⟩] }]

theorem kfCfg_ok (p : Bool) (files : List FileIn) (h : ∀ f ∈ files, f.hprofile < 65536 ∧ fileVersion (kfCfg p) f < 256) :
    CfgOK (kfCfg p) files :=
  ⟨⟨Or.inl rfl, by show 0 < 4; decide, by show 4 ≤ 16; decide, fun h => by cases h⟩, by show 21158 < 65536; decide, h⟩

theorem kfOpts_plain : PlainOpts kfOpts := ⟨rfl, rfl, rfl, rfl⟩

/-- what the full statement would demand of a one-file input whose decoding the kernel has evaluated -/
theorem full_fails_of (p : Bool) (files : List FileIn) (kept : List Message) (bytes : List Nat) (seq : List NMsg)
    (henc : encodeChain (kfCfg p) files 0 = ([kept], bytes, none)) (hne : files ≠ [])
    (hf : ∀ f ∈ files, f.hprofile < 65536 ∧ fileVersion (kfCfg p) f < 256)
    (hdom : inDomain kfFac kept = true) (hsmall : bytes.length < 4294967296)
    (hdec : decodeValues kfOpts bytes = ([seq], none))
    (hbad : seqMatches normalValue false kfFac 0 {} kept seq = false) : ¬ C01_e2e_roundtrip_full := by
  intro h
  obtain ⟨seqs, h1, h2⟩ := h (kfCfg p) kfOpts files [kept] bytes henc hne (kfCfg_ok p files hf) kfOpts_plain
    (by intro k hk; simp only [List.mem_cons, List.not_mem_nil, or_false] at hk; subst hk; exact hdom) hsmall
  rw [hdec] at h1
  simp only [Prod.mk.injEq, and_true] at h1
  subst h1
  cases h2 with
  | cons hab _ =>
    have : seqMatches normalValue false kfFac (kfCfg p).w.arch {} kept seq = true := hab
    rw [show (kfCfg p).w.arch = 0 from rfl, hbad] at this
    cases this

/-- **KF-C01-arr (F03).** `[]uint8{70,71}` in record.heart_rate passes validation, is written in full and decodes as
`uint8 70`: the full statement is false. -/
theorem C01_e2e_full_fails_arr : ¬ C01_e2e_roundtrip_full :=
  full_fails_of false arrFiles [⟨20, [hrField (.sliceUint8 [70, 71])], []⟩] (encodeChain (kfCfg false) arrFiles 0).2.1
    [⟨20, [⟨3, 2, .uint8 70⟩], []⟩] (by decide +kernel) (by decide) (by decide) (by decide +kernel) (by decide +kernel)
    (by decide +kernel) (by decide +kernel)

/-- **KF-C01-zero (F04).** With "preserve invalid values" the empty array is retained, written with size 0 and the decoder
skips it: the second message comes back without its field. -/
theorem C01_e2e_full_fails_zero : ¬ C01_e2e_roundtrip_full :=
  full_fails_of true zeroFiles [⟨20, [hrField (.uint8 70)], []⟩, ⟨20, [hrField (.sliceUint8 [])], []⟩]
    (encodeChain (kfCfg true) zeroFiles 0).2.1 [⟨20, [⟨3, 2, .uint8 70⟩], []⟩, ⟨20, [], []⟩]
    (by decide +kernel) (by decide) (by decide) (by decide +kernel) (by decide +kernel)
    (by decide +kernel) (by decide +kernel)

/-- **KF-C01-fffd (F02).** The valid UTF-8 string "a\ufffdb" passes validation and comes back as "ab". -/
theorem C01_e2e_full_fails_fffd : ¬ C01_e2e_roundtrip_full :=
  full_fails_of false fffdFiles [⟨0, [nameField (.string [0x61, 0xEF, 0xBF, 0xBD, 0x62])], []⟩]
    (encodeChain (kfCfg false) fffdFiles 0).2.1 [⟨0, [⟨8, 7, .string [0x61, 0x62]⟩], []⟩]
    (by decide +kernel) (by decide) (by decide) (by decide +kernel) (by decide +kernel)
    (by decide +kernel) (by decide +kernel)

/-! ### the classes of decoder output: witnesses on which the full statement fails (evaluated by the kernel), and the
former witness of the repaired class -/

/-- hrv.time as a uint16 array, record.heart_rate, developer_data_id.developer_data_index, and the members of
field_description the decoder and the validator read (as plain one-byte fields, like the standard factory) -/
def wFac : Fit.DecApi.Factory :=
  [⟨78, 0, ⟨true, 0x84, false, true, false, []⟩⟩, ⟨20, 3, ⟨true, 0x02, false, false, false, []⟩⟩,
   ⟨207, 3, ⟨true, 0x02, false, false, false, []⟩⟩,
   ⟨206, 0, ⟨true, 0x02, false, false, false, []⟩⟩, ⟨206, 1, ⟨true, 0x02, false, false, false, []⟩⟩,
   ⟨206, 2, ⟨true, 0x02, false, false, false, []⟩⟩, ⟨206, 6, ⟨true, 0x02, false, false, false, []⟩⟩,
   ⟨206, 7, ⟨true, 0x01, false, false, false, []⟩⟩]
def wOpts : Fit.DecApi.Opts := { chk := true, exp := false, fac := wFac }

/-- 12-byte header, definition of message 78 (hrv) with field 0 (time: a uint16 ARRAY) of size ONE byte, one record -/
def inUndersized : List Nat :=
  [0x0c, 0x20, 0x9a, 0x52, 0x0b, 0, 0, 0, 0x2e, 0x46, 0x49, 0x54, 0x40, 0, 0, 0x4e, 0, 1, 0, 1, 0x84, 0, 7, 0xd1, 0xbb]
/-- message 65280 (no profile entry) with a string field of 4 bytes "a\0\xff\0" (two terminated segments, the second one
not UTF-8) and a uint8 -/
def inPieces : List Nat :=
  [0x0c, 0x20, 0x9a, 0x52, 0x12, 0, 0, 0, 0x2e, 0x46, 0x49, 0x54, 0x40, 0, 0, 0, 0xff, 0x02, 0x01, 0x04, 0x07, 0x02, 0x01, 0x02,
   0x00, 0x61, 0x00, 0xff, 0x00, 0x01, 0x03, 0x14]
/-- developer_data_id 0; field_description (index 0, number 1, base type float64, scale 2, offset 0); a record with
heart_rate 70 and that developer field = 1.5 -/
def inF64 : List Nat :=
  [0x0e, 0x20, 0x9a, 0x52, 0x3d, 0, 0, 0, 0x2e, 0x46, 0x49, 0x54, 0x9d, 0x36, 0x40, 0, 0, 0xcf, 0, 1, 3, 1, 2, 0, 0,
   0x41, 0, 0, 0xce, 0, 5, 0, 1, 2, 1, 1, 2, 2, 1, 2, 6, 1, 2, 7, 1, 1, 1, 0, 1, 0x89, 2, 0,
   0x62, 0, 0, 0x14, 0, 1, 3, 1, 2, 1, 1, 8, 0, 2, 0x46, 0, 0, 0, 0, 0, 0, 0xf8, 0x3f, 0xe8, 0x1b]
/-- the validator with the real arithmetic of `scaleoffset.DiscardValue` (the binary64 model of C12) -/
def cfgArith : Cfg := { kfCfg false with D := Fit.ValidatorA.D }

theorem wOpts_plain : PlainOpts wOpts := ⟨rfl, rfl, rfl, rfl⟩

/-- hrv.time as the decoder hands it back to the encoder (`ofDecoded`): field 0 of message 78, uint16, array -/
def kf78 (v : Value) : Field := ⟨some { num := 0, baseType := 0x84, nameKnown := true, array := true }, v, false⟩

/-- what the full statement would demand of an input whose decoding, re-encoding and second decoding the kernel evaluated -/
theorem reencode_fails_of (c : Cfg) (input : List Nat) (fits : List Fit.DecApi.Fit) (kept : List Message) (bytes : List Nat)
    (seq : List NMsg) (hdec : decodeChain wOpts input = (fits, none)) (hne : fits ≠ [])
    (henc : encodeChain c (backFiles fits) 0 = ([kept], bytes, none)) (hc : CfgOK c (backFiles fits))
    (hb : ∀ b ∈ input, b < 256) (hsmall : bytes.length < 4294967296)
    (hdec2 : decodeValues wOpts bytes = ([seq], none))
    (hbad : ([kept] == fits.map (fun f => retained c.vo.omitInvalid {} f.msgs) && seqMatches idValue false wFac c.w.arch {} kept seq) = false) :
    ¬ C01_e2e_reencode_full := by
  intro h
  obtain ⟨h0, seqs, h1, h2⟩ := h c wOpts input fits none [kept] bytes hdec hne henc hc hb wOpts_plain (by decide +kernel)
    (by decide +kernel) hsmall
  rw [hdec2] at h1
  simp only [Prod.mk.injEq, and_true] at h1
  subst h1
  cases h2 with
  | cons hab _ =>
    have h3 : seqMatches idValue false wFac c.w.arch {} kept seq = true := hab
    rw [← h0, h3] at hbad
    simp at hbad

/-- **KF-C01-undersized, repaired.** On the pinned tree the byte 07 under a definition that gives hrv.time (a uint16 array)
one byte decoded as the SCALAR `uint16 7` in an array field; the encoder accepted the decoded message and wrote two bytes;
decoding again returned `[]uint16{7}`: not the same message (this theorem was
`C01_e2e_reencode_fails_undersized : ¬ C01_e2e_reencode_full`). With `decodeFields` returning the one-element array for an
array field (`Fit.DecApi.undersizedValue`) the same bytes decode as `[]uint16{7}`; the encoder accepts the decoded message as
it is; the input meets every hypothesis of `C01_e2e_reencode` (which no longer names the class), and therefore (by that
theorem, not by evaluation) encoding and decoding the decoded message again returns that very message. -/
theorem C01_e2e_reencode_undersized_roundtrip :
    decodeValues wOpts inUndersized = ([[⟨78, [⟨0, 0x84, .sliceUint16 [7]⟩], []⟩]], none) ∧
    ∃ bytes, encodeChain (kfCfg false) (backFiles (decodeChain wOpts inUndersized).1) 0 =
        ([[⟨78, [kf78 (.sliceUint16 [7])], []⟩]], bytes, none) ∧
      decodeValues wOpts bytes = ([[⟨78, [⟨0, 0x84, .sliceUint16 [7]⟩], []⟩]], none) := by
  refine ⟨by decide +kernel, (encodeChain (kfCfg false) (backFiles (decodeChain wOpts inUndersized).1) 0).2.1, by decide +kernel, ?_⟩
  have henc : encodeChain (kfCfg false) (backFiles (decodeChain wOpts inUndersized).1) 0 =
      ([[⟨78, [kf78 (.sliceUint16 [7])], []⟩]],
        (encodeChain (kfCfg false) (backFiles (decodeChain wOpts inUndersized).1) 0).2.1, none) := by decide +kernel
  obtain ⟨_, seqs, h1, h2⟩ := C01_e2e_reencode (kfCfg false) wOpts inUndersized (decodeChain wOpts inUndersized).1
    (decodeChain wOpts inUndersized).2 _ _ rfl (by decide +kernel) henc (kfCfg_ok false _ (by decide +kernel)) (by decide +kernel)
    wOpts_plain (by decide +kernel) (by decide +kernel) (by decide +kernel) (by decide +kernel) (by decide +kernel)
  rw [h1]
  cases h2 with
  | cons hab htl =>
    cases htl
    rename_i ns
    -- the only sequence matching the message literally (it has no timestamp: one allowed form) is the message itself
    have : ns = [⟨78, [⟨0, 0x84, .sliceUint16 [7]⟩], []⟩] := by
      cases ns with
      | nil => revert hab; decide +kernel
      | cons n rest =>
        cases rest with
        | nil =>
          have hn : n = ⟨78, [⟨0, 0x84, .sliceUint16 [7]⟩], []⟩ := by
            have : (msgVariants idValue false wFac 0 [] ⟨78, [kf78 (.sliceUint16 [7])], []⟩).contains n = true := by
              simp only [seqMatches, Bool.and_eq_true] at hab
              exact hab.1
            have hv : msgVariants idValue false wFac 0 [] ⟨78, [kf78 (.sliceUint16 [7])], []⟩ =
                [⟨78, [⟨0, 0x84, .sliceUint16 [7]⟩], []⟩] := by decide +kernel
            rw [hv] at this
            simpa using this
          rw [hn]
        | cons _ _ => simp [seqMatches] at hab
    rw [this]

/-- **KF-C01-strpieces.** The bytes "a\0\xff\0" in a string field without profile entry decode as `[]string{"a"}` (two
terminated segments counted, one survives the UTF-8 cleaning); written again they are "a\0" and decode as the scalar
`"a"`. -/
theorem C01_e2e_reencode_fails_pieces : ¬ C01_e2e_reencode_full :=
  reencode_fails_of (kfCfg false) inPieces (decodeChain wOpts inPieces).1
    (encodeChain (kfCfg false) (backFiles (decodeChain wOpts inPieces).1) 0).1.head!
    (encodeChain (kfCfg false) (backFiles (decodeChain wOpts inPieces).1) 0).2.1
    [⟨65280, [⟨1, 0x07, .string [0x61]⟩, ⟨2, 0x02, .uint8 1⟩], []⟩]
    (by decide +kernel) (by decide +kernel) (by decide +kernel) (kfCfg_ok false _ (by decide +kernel)) (by decide +kernel)
    (by decide +kernel) (by decide +kernel) (by decide +kernel)

example : decodeValues wOpts inPieces = ([[⟨65280, [⟨1, 0x07, .sliceString [[0x61]]⟩, ⟨2, 0x02, .uint8 1⟩], []⟩]], none) ∧
    kfPieces ((decodeChain wOpts inPieces).1.head!).msgs = true := by decide +kernel

/-- **KF-C01-f64dev** (root: KF-C10-2). A developer field described as float64 with scale 2, offset 0 holds 1.5; the decoder
returns the raw 1.5; the validator (real arithmetic: `Fit.ValidatorA.D`) takes the float64 for a scaled value and "restores"
it to (1.5 + 0) · 2 = 3.0, which is what is written and comes back: validation did not retain the decoded value. -/
theorem C01_e2e_reencode_fails_f64dev : ¬ C01_e2e_reencode_full :=
  reencode_fails_of cfgArith inF64 (decodeChain wOpts inF64).1
    (encodeChain cfgArith (backFiles (decodeChain wOpts inF64).1) 0).1.head!
    (encodeChain cfgArith (backFiles (decodeChain wOpts inF64).1) 0).2.1
    (decodeValues wOpts (encodeChain cfgArith (backFiles (decodeChain wOpts inF64).1) 0).2.1).1.head!
    (by decide +kernel) (by decide +kernel) (by decide +kernel)
    ⟨⟨Or.inl rfl, by show 0 < 4; decide, by show 4 ≤ 16; decide, fun h => by cases h⟩, by show 21158 < 65536; decide, by decide +kernel⟩
    (by decide +kernel) (by decide +kernel) (by decide +kernel) (by decide +kernel)

example : ((decodeChain wOpts inF64).1.head!).msgs.map proj ==
      [⟨207, [⟨3, 2, .uint8 0⟩], []⟩,
       ⟨206, [⟨0, 2, .uint8 0⟩, ⟨1, 2, .uint8 1⟩, ⟨2, 2, .uint8 0x89⟩, ⟨6, 2, .uint8 2⟩, ⟨7, 1, .int8 0⟩], []⟩,
       ⟨20, [⟨3, 2, .uint8 70⟩], [⟨1, 0, .float64 0x3FF8000000000000⟩]⟩] ∧
    kfF64Dev cfgArith.vo {} ((decodeChain wOpts inF64).1.head!).msgs = true ∧
    ((encodeChain cfgArith (backFiles (decodeChain wOpts inF64).1) 0).1.head!.map literal).getLast? ==
      some ⟨20, [⟨3, 2, .uint8 70⟩], [⟨1, 0, .float64 0x4008000000000000⟩]⟩ := by decide +kernel

/-- non-vacuity of `C01_e2e_known_array_is_array`: the former witness — hrv.time, a known array field, one byte — -/
example : (∀ b ∈ inUndersized, b < 256) ∧ facOKB wOpts.fac = true ∧
    ((decodeChain wOpts inUndersized).1.map fun f => f.msgs.map fun m => m.fields.map fun d => (d.known, d.array, d.value)) =
      [[[(true, true, .sliceUint16 [7])]]] := by decide +kernel

/-- the witnesses lie in the classes `C01_e2e_reencode` excludes, one each, and in no other; the former witness of
KF-C01-undersized lies in none -/
example :
    (kfPieces ((decodeChain wOpts inUndersized).1.head!).msgs,
      kfF64Dev (kfCfg false).vo {} ((decodeChain wOpts inUndersized).1.head!).msgs) = (false, false) ∧
    (kfPieces ((decodeChain wOpts inPieces).1.head!).msgs,
      kfF64Dev (kfCfg false).vo {} ((decodeChain wOpts inPieces).1.head!).msgs) = (true, false) ∧
    (kfPieces ((decodeChain wOpts inF64).1.head!).msgs,
      kfF64Dev cfgArith.vo {} ((decodeChain wOpts inF64).1.head!).msgs) = (false, true) := by decide +kernel

/-- non-vacuity of `C01_e2e_reencode`: the stream of `inPieces` with both segments valid ("a\0b\0"; checksum ignored) meets
every hypothesis — it decodes, the encoder accepts what was decoded, no class — and indeed comes back as it was decoded:
`[]string{"a","b"}` in the field without profile entry -/
def inGood : List Nat := inPieces.set 27 0x62
def wOptsNoChk : Fit.DecApi.Opts := { wOpts with chk := false }
example : (decodeChain wOptsNoChk inGood).2 = none ∧ (decodeChain wOptsNoChk inGood).1 ≠ [] ∧
    (encodeChain (kfCfg false) (backFiles (decodeChain wOptsNoChk inGood).1) 0).2.2 = none ∧
    (∀ f ∈ (decodeChain wOptsNoChk inGood).1, kfF64Dev (kfCfg false).vo {} f.msgs = false ∧ kfPieces f.msgs = false) ∧
    decodeValues wOptsNoChk inGood = ([[⟨65280, [⟨1, 0x07, .sliceString [[0x61], [0x62]]⟩, ⟨2, 0x02, .uint8 1⟩], []⟩]], none) ∧
    decodeValues wOptsNoChk (encodeChain (kfCfg false) (backFiles (decodeChain wOptsNoChk inGood).1) 0).2.1 =
      decodeValues wOptsNoChk inGood := by decide +kernel

/-! ### KF-C01-boolarr (repaired in /repo 5da5106): the former witness -/

def boolArrFac : Fit.DecApi.Factory := [⟨20, 12, ⟨true, 0x00, true, true, false, []⟩⟩]
def boolArrOpts : Fit.DecApi.Opts := { chk := true, exp := false, fac := boolArrFac }
def boolArrField (v : Value) : Field :=
  ⟨some { num := 12, baseType := 0x00, nameKnown := true, profileBool := true, array := true }, v, false⟩
/-- the bytes 1C 01 in a profile-bool ARRAY field (a factory that has one: the standard profile has none) -/
def boolArrInput : List Nat := (encodeChain (kfCfg false) [{ msgs := [⟨20, [boolArrField (.sliceUint8 [0x1C, 1])], []⟩] }] 0).2.1
/-- what the decoder returns for them, handed back to the encoder -/
def boolArrBack : List FileIn := backFiles (decodeChain boolArrOpts boolArrInput).1

/-- **KF-C01-boolarr, repaired.** On the pinned tree the bytes 1C 01 decoded as `[]typedef.Bool{0x1C, 1}` (array elements
as they were, a single `Bool` above 1 clamped to invalid), `MarshalAppend` wrote 255 for the 0x1C, and encoding / decoding
the decoded message again returned `{255, 1}`: the last sentence of the property failed (this theorem was
`C01_e2e_reencode_full_fails_boolarr : ¬ C01_e2e_reencode_full`). With `UnmarshalValue` clamping array elements too
(`C06_unmarshal_bool_array`) the same bytes decode as `{255, 1}`; the encoder accepts the decoded message as it is; it meets
every hypothesis of `C01_e2e_reencode_partial` (in wire-normal form — it was not before —, outside the three finding
classes), and therefore (by that theorem, not by evaluation) encoding and decoding it again returns that very message. -/
theorem C01_e2e_reencode_boolarr_roundtrip :
    decodeValues boolArrOpts boolArrInput = ([[⟨20, [⟨12, 0, .sliceBool [255, 1]⟩], []⟩]], none) ∧
    ∃ bytes, encodeChain (kfCfg false) boolArrBack 0 = ([[⟨20, [boolArrField (.sliceBool [255, 1])], []⟩]], bytes, none) ∧
      decodeValues boolArrOpts bytes = ([[⟨20, [⟨12, 0, .sliceBool [255, 1]⟩], []⟩]], none) := by
  refine ⟨by decide +kernel, (encodeChain (kfCfg false) boolArrBack 0).2.1, by decide +kernel, ?_⟩
  have henc : encodeChain (kfCfg false) boolArrBack 0 =
      ([[⟨20, [boolArrField (.sliceBool [255, 1])], []⟩]], (encodeChain (kfCfg false) boolArrBack 0).2.1, none) := by decide +kernel
  obtain ⟨seqs, h1, h2⟩ := C01_e2e_reencode_partial (kfCfg false) boolArrOpts boolArrBack _ _ henc (by decide +kernel)
    (kfCfg_ok false _ (by decide +kernel)) ⟨rfl, rfl, rfl, rfl⟩ (by decide +kernel) (by decide +kernel) (by decide +kernel)
    (by decide +kernel)
  rw [h1]
  cases h2 with
  | cons hab htl =>
    cases htl
    rename_i ns
    -- the only sequence matching the message literally (it has no timestamp: one allowed form) is the message itself
    have : ns = [⟨20, [⟨12, 0, .sliceBool [255, 1]⟩], []⟩] := by
      cases ns with
      | nil => revert hab; decide +kernel
      | cons n rest =>
        cases rest with
        | nil =>
          have hn : n = ⟨20, [⟨12, 0, .sliceBool [255, 1]⟩], []⟩ := by
            have : (msgVariants idValue false boolArrFac 0 [] ⟨20, [boolArrField (.sliceBool [255, 1])], []⟩).contains n = true := by
              simp only [seqMatches, Bool.and_eq_true] at hab
              exact hab.1
            have hv : msgVariants idValue false boolArrFac 0 [] ⟨20, [boolArrField (.sliceBool [255, 1])], []⟩ =
                [⟨20, [⟨12, 0, .sliceBool [255, 1]⟩], []⟩] := by decide +kernel
            rw [hv] at this
            simpa using this
          rw [hn]
        | cons _ _ => simp [seqMatches] at hab
    rw [this]

/-- the witnesses lie in the classes the partial theorem excludes, one each -/
example : kfArr kfFac [⟨20, [hrField (.sliceUint8 [70, 71])], []⟩] = true ∧
    kfZero kfFac [⟨20, [hrField (.uint8 70)], []⟩, ⟨20, [hrField (.sliceUint8 [])], []⟩] = true ∧
    kfFFFD kfFac [⟨0, [nameField (.string [0x61, 0xEF, 0xBF, 0xBD, 0x62])], []⟩] = true := by decide +kernel

/-! ### non-vacuity: a chain with developer fields described twice, compressed timestamps, big-endian, strings -/

def exFac : Fit.DecApi.Factory :=
  [⟨20, 3, ⟨true, 0x02, false, false, false, []⟩⟩, ⟨20, 253, ⟨true, 0x86, false, false, false, []⟩⟩,
   ⟨0, 8, ⟨true, 0x07, false, false, false, []⟩⟩, ⟨207, 3, ⟨true, 0x02, false, false, false, []⟩⟩,
   ⟨206, 0, ⟨true, 0x02, false, false, false, []⟩⟩, ⟨206, 1, ⟨true, 0x02, false, false, false, []⟩⟩,
   ⟨206, 2, ⟨true, 0x02, false, false, false, []⟩⟩, ⟨206, 3, ⟨true, 0x07, false, true, false, []⟩⟩]
def exCfg : Cfg := { w := ⟨1, true, 2⟩, pvOpt := 32, profileVersion := 21158 }
def exO : Fit.DecApi.Opts := { chk := true, exp := false, fac := exFac }
def kf (n bt : Nat) (v : Value) (arr : Bool := false) : Field := ⟨some { num := n, baseType := bt, nameKnown := true, array := arr }, v, false⟩
def uf (n bt : Nat) (v : Value) : Field := ⟨some { num := n, baseType := bt }, v, false⟩
def exFiles : List FileIn :=
  [{ hsize := 12, msgs :=
      [⟨0, [kf 8 0x07 (.string [0x66, 0x69, 0x74, 0, 0x78])], []⟩,
       ⟨207, [kf 3 0x02 (.uint8 0)], []⟩,
       ⟨206, [kf 0 0x02 (.uint8 0), kf 1 0x02 (.uint8 1), kf 2 0x02 (.uint8 0x84), kf 3 0x07 (.sliceString [[0x64]]) true], []⟩,
       ⟨206, [kf 0 0x02 (.uint8 0), kf 1 0x02 (.uint8 1), kf 2 0x02 (.uint8 0x02), kf 3 0x07 (.string [0x65]) true], []⟩,
       ⟨20, [kf 253 0x86 (.uint32 1000000000), kf 3 0x02 (.uint8 70)], [⟨0, 1, .uint16 500⟩]⟩,
       ⟨20, [kf 3 0x02 (.uint8 255), kf 253 0x86 (.uint32 1000000005), uf 200 0x84 (.sliceUint16 [1, 2])], [⟨0, 1, .sliceUint16 [7]⟩]⟩] },
   { msgs := [⟨65280, [uf 1 0x07 (.sliceString [[0x61], [], [0x62]]), uf 2 0x89 (.float64 0x3FF8000000000000)], []⟩] }]

/-- the example meets every hypothesis of `C01_e2e_roundtrip_partial` (two files are accepted; the invalid heart rate 255
is dropped by validation; typing, domain, no finding class) … -/
example : (encodeChain exCfg exFiles 0).2.2 = none ∧ ((encodeChain exCfg exFiles 0).1.map List.length) = [6, 1] ∧
    (∀ kept ∈ (encodeChain exCfg exFiles 0).1, inDomain exFac kept = true ∧ noKF exFac kept = true) ∧
    (encodeChain exCfg exFiles 0).2.1.length < 4294967296 := by decide +kernel

/-- … and what comes back, evaluated by the kernel: the string cut at its NUL, the second timestamp reconstructed from
the record header and put in front, the developer field read under the FIRST description (uint16), a one-element
developer array as a scalar, the unknown string array without its empty string, the float64 bit pattern. -/
example : (decodeValues exO (encodeChain exCfg exFiles 0).2.1) =
    ([[⟨0, [⟨8, 7, .string [0x66, 0x69, 0x74]⟩], []⟩,
       ⟨207, [⟨3, 2, .uint8 0⟩], []⟩,
       ⟨206, [⟨0, 2, .uint8 0⟩, ⟨1, 2, .uint8 1⟩, ⟨2, 2, .uint8 0x84⟩, ⟨3, 7, .sliceString [[0x64]]⟩], []⟩,
       ⟨206, [⟨0, 2, .uint8 0⟩, ⟨1, 2, .uint8 1⟩, ⟨2, 2, .uint8 2⟩, ⟨3, 7, .sliceString [[0x65]]⟩], []⟩,
       ⟨20, [⟨253, 0x86, .uint32 1000000000⟩, ⟨3, 2, .uint8 70⟩], [⟨1, 0, .uint16 500⟩]⟩,
       ⟨20, [⟨253, 0x86, .uint32 1000000005⟩, ⟨200, 0x84, .sliceUint16 [1, 2]⟩], [⟨1, 0, .uint16 7⟩]⟩],
      [⟨65280, [⟨1, 7, .sliceString [[0x61], [0x62]]⟩, ⟨2, 0x89, .float64 0x3FF8000000000000⟩], []⟩]], none) := by
  decide +kernel

/-- … and it is exactly `normalSeq` (the deterministic form of `C01_e2e_roundtrip_exact_partial`): with header option
"compressed timestamp" the second record's timestamp is in front, the first one's (written in full) where it was -/
example : decodeValues exO (encodeChain exCfg exFiles 0).2.1 = ((encodeChain exCfg exFiles 0).1.map (normalSeq exFac exCfg.w), none) := by
  decide +kernel

/-- re-encoding, evaluated: the messages the example decodes to (turned back into encoder input: same numbers, base types,
flags, values) are accepted unchanged, are in wire-normal form, and encode / decode to themselves -/
def exBack : List FileIn :=
  [{ hsize := 12, msgs :=
      [⟨0, [kf 8 0x07 (.string [0x66, 0x69, 0x74])], []⟩,
       ⟨207, [kf 3 0x02 (.uint8 0)], []⟩,
       ⟨206, [kf 0 0x02 (.uint8 0), kf 1 0x02 (.uint8 1), kf 2 0x02 (.uint8 0x84), kf 3 0x07 (.sliceString [[0x64]]) true], []⟩,
       ⟨206, [kf 0 0x02 (.uint8 0), kf 1 0x02 (.uint8 1), kf 2 0x02 (.uint8 0x02), kf 3 0x07 (.sliceString [[0x65]]) true], []⟩,
       ⟨20, [kf 253 0x86 (.uint32 1000000000), kf 3 0x02 (.uint8 70)], [⟨0, 1, .uint16 500⟩]⟩,
       ⟨20, [kf 253 0x86 (.uint32 1000000005), uf 200 0x84 (.sliceUint16 [1, 2])], [⟨0, 1, .uint16 7⟩]⟩] },
   { msgs := [⟨65280, [uf 1 0x07 (.sliceString [[0x61], [0x62]]), uf 2 0x89 (.float64 0x3FF8000000000000)], []⟩] }]

example : (encodeChain exCfg exBack 0).1 = exBack.map (·.msgs) ∧ (encodeChain exCfg exBack 0).2.2 = none ∧
    (∀ kept ∈ (encodeChain exCfg exBack 0).1, seqNormal exFac 1 {} kept = true ∧ inDomain exFac kept = true ∧ noKF exFac kept = true) ∧
    decodeValues exO (encodeChain exCfg exBack 0).2.1 = ((exBack.map (·.msgs)).map (·.map literal), none) ∧
    decodeValues exO (encodeChain exCfg exBack 0).2.1 = decodeValues exO (encodeChain exCfg exFiles 0).2.1 := by
  decide +kernel

/-! ### the wire model's decoder on what the real validator lets through (field descriptions) -/

/-- **THE VALIDATOR GUARANTEES THE HYPOTHESIS OF THE WIRE THEOREMS.** `C01_wire_records` / `_sequence` / `_chain`
(FitProps/C01.lean) need `Wire.msgsDescOK`: no developer field is written under a field description — the first one of the
sequence for its developer data index and number, read as the DECODER reads it — whose base type is invalid (the decoder
answers `errInvalidBaseType`). For every chain of files the encoder accepts through the real message validator (any
validator option), built from a factory that knows the three key members of `field_description` (the standard factory:
`keysKnown`), what validation retained satisfies it, file by file: the decoder reads from the written `field_description`
messages exactly the descriptions the validator registered (`noteDesc_toWire`), and the validator lets a developer field
through only when its value aligns with the described base type, which is then a valid one (`C10_post`). -/
theorem C01_e2e_validator_descs (c : Cfg) (o : Fit.DecApi.Opts) (files : List FileIn) (kepts : List (List Message))
    (bytes : List Nat) (henc : encodeChain c files 0 = (kepts, bytes, none)) (hne : files ≠ [])
    (hc : CfgOK c files) (ho : PlainOpts o) (hdom : ∀ kept ∈ kepts, inDomain o.fac kept = true)
    (hsmall : bytes.length < 4294967296) (hkeys : keysKnown o.fac = true) :
    ∀ kept ∈ kepts, Wire.msgsDescOK [] (kept.map (toWire c.w.arch)) = true := by
  obtain ⟨_, _, _, h3⟩ := e2e_chain c o files kepts bytes henc hne hc ho hdom hsmall
  obtain ⟨hlen, _, _⟩ := encodeChain_ok c files 0 kepts bytes henc
  intro kept hk
  have : kept ∈ (filesOf c files kepts).map (·.2) := by rw [filesOf_snd c files kepts hlen]; exact hk
  obtain ⟨file, hfile, rfl⟩ := List.mem_map.mp this
  have hf := h3 file hfile
  exact msgsDescOK_of_kept o.fac hkeys c.w.arch file.2 {} hf.keptOK hf.dom

theorem chainBytes_eq (w : Wire.Opts) (fl : List (Wire.Hdr × List Message)) :
    chainBytes w fl = Wire.encodeChain w (fl.map fun f => (f.1, f.2.map (toWire w.arch))) := by
  simp [chainBytes, Wire.encodeChain, List.flatMap_map]

/-- **THE WIRE DECODER ACCEPTS EVERY ACCEPTED CHAIN — no hypothesis on field descriptions left.** Under the hypotheses of
`C01_e2e_actual` and `keysKnown`: the wire model's `Next`/`Decode` loop (`Wire.decodeStream`, the object of `C01_wire_chain`,
with its field-description table and base-type check) runs over the bytes of the chain without error and returns one
sequence per file whose records match the wire form of what validation retained (`FitMatches`): the explicit hypothesis
`msgsDescOK` of the wire theorems is discharged by the real validator. -/
theorem C01_e2e_wire_chain (tsKnown : Nat → Bool) (chk : Bool) (c : Cfg) (o : Fit.DecApi.Opts) (files : List FileIn)
    (kepts : List (List Message)) (bytes : List Nat) (henc : encodeChain c files 0 = (kepts, bytes, none)) (hne : files ≠ [])
    (hc : CfgOK c files) (ho : PlainOpts o) (hdom : ∀ kept ∈ kepts, inDomain o.fac kept = true)
    (hsmall : bytes.length < 4294967296) (hkeys : keysKnown o.fac = true) :
    ∃ evs, Wire.decodeStream tsKnown chk (files.length + 1) true bytes = (evs, none) ∧
      AllMatch (FitMatches c.w) ((filesOf c files kepts).map fun f => (f.1, f.2.map (toWire c.w.arch))) (seqsOf evs) := by
  obtain ⟨_, _, _, h3⟩ := e2e_chain c o files kepts bytes henc hne hc ho hdom hsmall
  obtain ⟨hlen, hbytes, _⟩ := encodeChain_ok c files 0 kepts bytes henc
  have hd := C01_e2e_validator_descs c o files kepts bytes henc hne hc ho hdom hsmall hkeys
  have hfl : (filesOf c files kepts).length = files.length := by
    simp [filesOf, List.length_zip, hlen]
  have hne' : ((filesOf c files kepts).map fun f => (f.1, f.2.map (toWire c.w.arch))) ≠ [] := by
    intro h
    have : (filesOf c files kepts).length = 0 := by simpa using congrArg List.length h
    rw [hfl] at this
    exact hne (List.eq_nil_of_length_eq_zero this)
  have := decodeStream_encodeChain tsKnown chk c.w hc.w ((filesOf c files kepts).map fun f => (f.1, f.2.map (toWire c.w.arch)))
    (by
      intro f hf
      obtain ⟨file, hfile, rfl⟩ := List.mem_map.mp hf
      exact (h3 file hfile).fit)
    (by
      intro f hf
      obtain ⟨file, hfile, rfl⟩ := List.mem_map.mp hf
      have hk : file.2 ∈ kepts := by
        have : file.2 ∈ (filesOf c files kepts).map (·.2) := List.mem_map.mpr ⟨file, hfile, rfl⟩
        rw [filesOf_snd c files kepts hlen] at this; exact this
      exact hd _ hk) true (fun _ => hne') (files.length + 1) (by simp [hfl])
  rw [hbytes, chainBytes_eq]
  exact this

/-- non-vacuity: the example factory knows the keys, and the example chain (developer fields described twice) meets every
hypothesis; what the validator retained satisfies `msgsDescOK` (evaluated) -/
example : keysKnown exFac = true ∧
    ((encodeChain exCfg exFiles 0).1.all fun kept => Wire.msgsDescOK [] (kept.map (toWire exCfg.w.arch))) = true := by
  decide +kernel

/-! ### the normal form, rule by rule: what is a limit of the wire and what is decoder behaviour (audit C01-3) -/

/-- **ROUND TRIP WITHOUT RULE (c)'s DROPPING OF EMPTY STRINGS (partial: a fourth class, KF-C01-emptystr).** Under the
hypotheses of `C01_e2e_roundtrip_partial`, when moreover no retained string value read in array mode holds an EMPTY
NUL-terminated segment (`kfEmpty`): every decoded sequence is the STRICT normal form of what validation retained
(`strictValue`): string arrays come back with every one of their strings in place. The normal form of
`C01_e2e_roundtrip_partial` (`normalValue`) identifies a string array with the array of its NON-EMPTY strings; that
identification is the decoder's doing (the encoder writes the lone NUL of an empty string; `UnmarshalValue` skips it: "only
if not an invalid string"), not something the wire forces — here it is an explicit class with a refuting witness
(`C01_e2e_full_fails_emptystr`) instead of a rule of the normal form. -/
theorem C01_e2e_roundtrip_strict_partial (c : Cfg) (o : Fit.DecApi.Opts) (files : List FileIn) (kepts : List (List Message))
    (bytes : List Nat) (henc : encodeChain c files 0 = (kepts, bytes, none)) (hne : files ≠ [])
    (hc : CfgOK c files) (ho : PlainOpts o) (hdom : ∀ kept ∈ kepts, inDomain o.fac kept = true)
    (hsmall : bytes.length < 4294967296) (hkf : ∀ kept ∈ kepts, noKF o.fac kept = true)
    (hem : ∀ kept ∈ kepts, kfEmpty o.fac kept = false) :
    ∃ seqs, decodeValues o bytes = (seqs, none) ∧
      AllMatch (fun kept ns => seqMatches strictValue false o.fac c.w.arch {} kept ns = true) kepts seqs := by
  obtain ⟨seqs, h1, h2⟩ := C01_e2e_roundtrip_partial c o files kepts bytes henc hne hc ho hdom hsmall hkf
  refine ⟨seqs, h1, ?_⟩
  clear h1 henc hdom hkf
  induction h2 with
  | nil => exact AllMatch.nil
  | @cons a b as bs hab _ ih =>
    exact AllMatch.cons (seqMatches_strict o.fac c.w.arch a {} b (hem a (by simp)) hab)
      (ih (fun k hk => hem k (List.mem_cons_of_mem _ hk)))

/-- the strict round trip at full strength -/
def C01_e2e_roundtrip_strict_full : Prop :=
  ∀ (c : Cfg) (o : Fit.DecApi.Opts) (files : List FileIn) (kepts : List (List Message)) (bytes : List Nat),
    encodeChain c files 0 = (kepts, bytes, none) → files ≠ [] → CfgOK c files → PlainOpts o →
    (∀ kept ∈ kepts, inDomain o.fac kept = true) → bytes.length < 4294967296 →
    ∃ seqs, decodeValues o bytes = (seqs, none) ∧
      AllMatch (fun kept ns => seqMatches strictValue false o.fac c.w.arch {} kept ns = true) kepts seqs

/-- `["a", "", "b"]` in field_description.field_name (a string ARRAY of the profile) -/
def emptyStrFiles : List FileIn :=
  [{ msgs := [⟨206, [kf 0 0x02 (.uint8 0), kf 1 0x02 (.uint8 1), kf 2 0x02 (.uint8 2),
                     kf 3 0x07 (.sliceString [[0x61], [], [0x62]]) true], []⟩] }]

/-- **KF-C01-emptystr.** The valid string array `["a", "", "b"]` passes validation (one valid string suffices), is written
as 61 00 00 62 00 — the lone NUL of the empty string IS on the wire — and decodes as `["a", "b"]`: "b" has moved from place 2
to place 1. The message lies in none of the other three classes; `C01_e2e_roundtrip_partial` holds for it only because its
normal form drops empty strings. -/
theorem C01_e2e_full_fails_emptystr : ¬ C01_e2e_roundtrip_strict_full := by
  intro h
  have henc : encodeChain (kfCfg false) emptyStrFiles 0 =
      ((encodeChain (kfCfg false) emptyStrFiles 0).1, (encodeChain (kfCfg false) emptyStrFiles 0).2.1, none) := by decide +kernel
  obtain ⟨seqs, h1, h2⟩ := h (kfCfg false) exO emptyStrFiles _ _ henc (by decide) (kfCfg_ok false _ (by decide +kernel))
    ⟨rfl, rfl, rfl, rfl⟩ (by decide +kernel) (by decide +kernel)
  have hd : decodeValues exO (encodeChain (kfCfg false) emptyStrFiles 0).2.1 =
      ([[⟨206, [⟨0, 2, .uint8 0⟩, ⟨1, 2, .uint8 1⟩, ⟨2, 2, .uint8 2⟩, ⟨3, 7, .sliceString [[0x61], [0x62]]⟩], []⟩]], none) := by
    decide +kernel
  rw [hd] at h1
  simp only [Prod.mk.injEq, and_true] at h1
  subst h1
  have hk : (encodeChain (kfCfg false) emptyStrFiles 0).1 = [emptyStrFiles.head!.msgs] := by decide +kernel
  rw [hk] at h2
  cases h2 with
  | cons hab _ => revert hab; decide +kernel

/-- the witness: the bytes written hold the lone NUL; the message is in the class `kfEmpty` and in no other -/
example : (encodeChain (kfCfg false) emptyStrFiles 0).2.1.drop 36 = [0x61, 0, 0, 0x62, 0, 163, 222] ∧
    (∀ kept ∈ (encodeChain (kfCfg false) emptyStrFiles 0).1, kfEmpty exFac kept = true ∧ noKF exFac kept = true) := by decide +kernel

def boolFac : Fit.DecApi.Factory := [⟨20, 4, ⟨true, 0x00, true, false, false, []⟩⟩]
def boolO : Fit.DecApi.Opts := { chk := true, exp := false, fac := boolFac }
def boolFiles : List FileIn :=
  [{ msgs := [⟨20, [⟨some { num := 4, baseType := 0x00, nameKnown := true, profileBool := true }, .uint8 7, false⟩], []⟩] }]

/-- **Rule (d) of the normal form, shown on the model (kept in the normal form: the documented meaning of `typedef.Bool`).** A
field whose profile type is bool, handed to the encoder with the `uint8` 7 — valid for the validator, which judges by the base
type enum — is written as the byte 07 and decodes as `typedef.Bool` 255 (`proto.Bool`: "If v > 1, it will be treated as
typedef.BoolInvalid"): as a BOOL every byte above 1 is the invalid value, and the wire carries no type tag that could say
"this byte is a uint8, not a bool". The normal form (`normalValue` = `scalarOf … isBool`) says exactly this; nothing a bool
can express is lost. The message meets every hypothesis of `C01_e2e_roundtrip_partial`. -/
theorem C01_e2e_norm_bool_witness :
    (encodeChain (kfCfg false) boolFiles 0).1 = [boolFiles.head!.msgs] ∧
    decodeValues boolO (encodeChain (kfCfg false) boolFiles 0).2.1 = ([[⟨20, [⟨4, 0, .bool 255⟩], []⟩]], none) ∧
    normalValue 0x00 true false (.uint8 7) = .bool 255 ∧ normalValue 0x00 true false (.uint8 1) = .bool 1 ∧
    (∀ kept ∈ (encodeChain (kfCfg false) boolFiles 0).1, inDomain boolFac kept = true ∧ noKF boolFac kept = true) := by
  decide +kernel

/-! ### component expansion ON (reading (ii) of the property; audit X3) -/

/-- the field numbers of message `m` that are destinations of a component of some field of that message -/
def compDestsOf (fac : Fit.DecApi.Factory) (m : Nat) : List Nat :=
  (fac.filter (·.mesgNum == m)).flatMap fun e => e.info.comps.map (·.fieldNum)

/-- a message decoded with expansion ON against the same record decoded with expansion off: after deleting the fields marked
expanded, the same fields in the same order with the same attributes, and the same values except in fields that are
destinations of a component of the message -/
def OnMinusExpanded (fac : Fit.DecApi.Factory) (on off : Fit.DecApi.Msg) : Prop :=
  on.header = off.header ∧ on.num = off.num ∧ on.devs = off.devs ∧
  AllMatch (fun (f g : Fit.DecApi.DField) => f.num = g.num ∧ f.bt = g.bt ∧ f.known = g.known ∧ f.isBool = g.isBool ∧
      f.array = g.array ∧ ((compDestsOf fac off.num).contains g.num = false → f.value = g.value))
    (on.fields.filter (!·.expanded)) off.fields

/-- **THE EXPANSION-ON COROLLARY (DESIGN §3 C01 reading (ii)), a theorem about the decoder-API model.** For every byte stream
and every factory with an acyclic component graph (`FacOK`: the contract of `decoder.Factory`) that puts no components on
file_id / field_description / developer_data_id (the messages the decoder itself reads back): the `Next` / `Decode` loop with
component expansion ON ends as the loop with expansion OFF does — same error or none — and returns the same sequences:
same headers and CRCs, and message by message the same header byte, message number and developer fields, and — after
deleting the fields marked expanded — the same fields in the same order with the same number, base type and attributes and
the same VALUE, except the values of fields whose number is the destination of a component of that message
(`OnMinusExpanded`; such a wire field is overwritten / extended by the expansion of a component present in the message). So every
`C01_e2e_*` theorem, stated for the decoder with expansion off (`PlainOpts`), holds for the decoder with expansion ON modulo
this masking: compose with `C01_e2e_actual_exact` (`decodeValues` = `proj` of `decodeChain`, and `proj` deletes the expanded
fields). The hypotheses on listeners / broadcast-only are not used by the proof (events are not compared).
Proof (FitProps/EndToEndExpand*Lemmas.lean): `expandAll` only appends fields marked expanded or changes the value of a field
whose number is a component destination (`expandAll_sim`), and is the identity on a message without components
(`expandAll_nocomps`: the look-ups built from file_id / field_description / developer_data_id agree); everything else of the
record loop reads neither the option, nor the accumulator, nor the messages decoded so far (`…_ov`), the timestamp state is
computed from the wire fields before expansion; induction over the record loop and over the `Next` / `Decode` loop
(`decodeMessages_sim`, `decodeLoop_sim`). On the REAL code the reading is tied for the standard factory by the `px=1` lines of
family `rte2e`. -/
theorem C01_e2e_expansion_on :
  ∀ (o : Fit.DecApi.Opts) (bytes : List Nat), o.bo = false → o.ml = false → o.dl = false → Fit.DecApi.FacOK o.fac →
    (∀ e ∈ o.fac, e.mesgNum = 0 ∨ e.mesgNum = 206 ∨ e.mesgNum = 207 → e.info.comps = []) → (∀ b ∈ bytes, b < 256) →
    (decodeChain { o with exp := true } bytes).2 = (decodeChain { o with exp := false } bytes).2 ∧
    AllMatch (fun (f g : Fit.DecApi.Fit) => f.hdr = g.hdr ∧ f.crc = g.crc ∧ AllMatch (OnMinusExpanded o.fac) f.msgs g.msgs)
      (decodeChain { o with exp := true } bytes).1 (decodeChain { o with exp := false } bytes).1 := by
  intro o bytes _ _ _ hf hkey hb
  exact Fit.DecApi.expansion_on_main o bytes hf hkey hb

/-- a factory with the nested components of the profile's record message: compressed_speed_distance (8) → speed (6, 12 bits),
distance (5, 12 bits, accumulated); speed (6) → enhanced_speed (73) -/
def expFac : Fit.DecApi.Factory :=
  [⟨20, 8, ⟨true, 13, false, true, false, [⟨6, false, 12⟩, ⟨5, true, 12⟩]⟩⟩, ⟨20, 6, ⟨true, 132, false, false, false, [⟨73, false, 16⟩]⟩⟩,
   ⟨20, 73, ⟨true, 134, false, false, false, []⟩⟩, ⟨20, 5, ⟨true, 134, false, false, true, []⟩⟩]
def expO : Fit.DecApi.Opts := { chk := false, fac := expFac }
/-- one sequence: a definition of record (compressed_speed_distance: 3 bytes, speed: uint16) and two records -/
def expBytes : List Nat := [14, 32, 0, 0, 24, 0, 0, 0, 46, 70, 73, 84, 0, 0,
  0x40, 0, 0, 20, 0, 2, 8, 3, 13, 6, 2, 132,
  0x00, 0x34, 0x12, 0x56, 0x10, 0x00,
  0x00, 0x00, 0x20, 0x57, 0xFF, 0xFF,
  0, 0]

/-- Non-vacuity: the factory and the stream meet the hypotheses, and the first record ACTUALLY EXPANDS: with expansion on it
comes back with the wire field speed (a component destination) overwritten by the speed taken out of
compressed_speed_distance (0x234 instead of the 0x0010 on the wire) and with enhanced_speed and distance added, marked
expanded; with expansion off it comes back as written. -/
example : Fit.DecApi.FacOK expFac ∧ (∀ e ∈ expFac, e.mesgNum = 0 ∨ e.mesgNum = 206 ∨ e.mesgNum = 207 → e.info.comps = []) ∧
    (∀ b ∈ expBytes, b < 256) ∧
    (decodeChain { expO with exp := true } expBytes).2 = none ∧
    (decodeChain { expO with exp := true } expBytes).1.map (fun f => f.msgs.map fun m => m.fields.map fun f => (f.num, f.value, f.expanded)) =
      [[[(8, .sliceUint8 [52, 18, 86], false), (6, .uint16 564, false), (73, .uint32 564, true), (5, .uint32 1377, true)],
        [(8, .sliceUint8 [0, 32, 87], false), (6, .uint16 65535, false)]]] ∧
    (decodeChain { expO with exp := false } expBytes).1.map (fun f => f.msgs.map fun m => m.fields.map fun f => (f.num, f.value, f.expanded)) =
      [[[(8, .sliceUint8 [52, 18, 86], false), (6, .uint16 16, false)],
        [(8, .sliceUint8 [0, 32, 87], false), (6, .uint16 65535, false)]]] := by
  refine ⟨⟨fun _ n => if n = 8 then 2 else if n = 6 then 1 else 0, ?_, ?_⟩, by decide, by decide, by decide +kernel, by decide +kernel, by decide +kernel⟩
  · intro m n; simp only; split <;> (try split) <;> decide
  · intro e he c hc
    simp only [expFac, List.mem_cons, List.mem_nil_iff, or_false] at he
    rcases he with rfl | rfl | rfl | rfl
    · simp only [List.mem_cons, List.mem_nil_iff, or_false] at hc
      rcases hc with rfl | rfl <;> decide
    · simp only [List.mem_cons, List.mem_nil_iff, or_false] at hc
      subst hc; decide
    · cases hc
    · cases hc

/-! ### the value layer, stated on its own -/

/-- **What comes back does not depend on the byte order.** For every well-formed value aligned with a base type, both
byte orders and whatever profile-bool / array flags the decoder reads the field with: `UnmarshalValue` of the marshalled
bytes is `reread` of the value — a function in which the byte order does not occur. -/
theorem C01_e2e_value_independent_of_byte_order (v : Value) (a bt : Nat) (bs : List Nat) (isBool isArray : Bool)
    (hwf : wf v = true) (hal : align v bt = true) (hm : marshal v a = some bs) (hne : isArray = true ∨ bs ≠ []) :
    unmarshal bs a bt isBool isArray = .ok (reread bt isBool isArray v) :=
  unmarshal_reread v a bt bs isBool isArray hwf hal hm hne

end Fit.C01
