import FitProps.F64Lemmas
import FitModel.ScaleOffset
import FitModel.TimeAngle
/-!
Lemmas for C12: the float64 round trip `math.Round(((r/s − o) + o)·s)` on the model, the decidable side
condition on a (scale, offset) pair, patterns of the Go integer types.
-/
namespace Fit.C12L
open Fit.F64 Fit.ScaleOffset Fit.TimeAngle Fit.Gen

theorem lt_big (x : ℚ) (h : x ≤ 2 ^ 80) : x < (2 : ℚ) ^ (1023 : Int) := by
  have : (2 : ℚ) ^ 80 < (2 : ℚ) ^ (1023 : Int) := by
    rw [← zpow_natCast]; exact zpow_lt_zpow_right₀ (by norm_num) (by norm_num)
  exact lt_of_le_of_lt h this

theorem ofRat_lt64 (neg : Bool) (a b : Nat) (e0 : Int) (hb : 0 < b)
    (hv : (a : ℚ) / b * (2 : ℚ) ^ e0 < (2 : ℚ) ^ (1023 : Int)) : b64.ofRat neg a b e0 < 2 ^ 64 := by
  unfold Fmt.ofRat
  have hs : b64.signBit neg ≤ 2 ^ 63 := by cases neg <;> simp [Fmt.signBit, b64]
  by_cases ha : a = 0
  · simp only [ha, true_or, if_true]; omega
  · have hb' : b ≠ 0 := hb.ne'
    simp only [ha, hb', or_self, if_false]
    obtain ⟨hlt, _⟩ := roundPos_spec a b e0 (Nat.pos_of_ne_zero ha) hb hv
    omega

theorem ofInt_lt64 (i : Int) (hi : i.natAbs < 2 ^ 53) : ofInt i < 2 ^ 64 := by
  unfold ofInt
  apply ofRat_lt64 _ _ 1 0 (by norm_num)
  have : ((i.natAbs : Nat) : ℚ) < 2 ^ 53 := by exact_mod_cast hi
  have h : (2 : ℚ) ^ 53 < (2 : ℚ) ^ (1023 : Int) := by
    rw [← zpow_natCast]; exact zpow_lt_zpow_right₀ (by norm_num) (by norm_num)
  have e : ((i.natAbs : Nat) : ℚ) / ((1 : Nat) : ℚ) * (2 : ℚ) ^ (0 : Int) = (i.natAbs : ℚ) := by simp
  rw [e]; exact lt_trans this h

theorem mul_lt64 (x y : Nat) (qx qy : ℚ) (hx : IsFin x qx) (hy : IsFin y qy)
    (hz : |qx * qy| < (2 : ℚ) ^ (1023 : Int)) : mul x y < 2 ^ 64 := by
  obtain ⟨s, m, e, hdx, rfl⟩ := hx
  obtain ⟨s', m', e', hdy, rfl⟩ := hy
  have h2 : (2 : ℚ) ≠ 0 := by norm_num
  simp only [mul, hdx, hdy]
  apply ofRat_lt64 _ _ 1 _ (by norm_num)
  rw [abs_mul, abs_toQ, abs_toQ] at hz
  rw [zpow_add₀ h2]; push_cast
  calc ((m : ℚ) * m') / 1 * ((2 : ℚ) ^ e * (2 : ℚ) ^ e') = (m : ℚ) * (2 : ℚ) ^ e * ((m' : ℚ) * (2 : ℚ) ^ e') := by ring
    _ < _ := hz

/-- the float64 part of the round trip: `math.Round(((r/s − o) + o)·s)` is the float64 of `r` -/
theorem chain_val (r : Int) (hr : r.natAbs ≤ 2 ^ 49) (s o : Nat) (S O : ℚ) (hs : IsFin s S) (ho : IsFin o O)
    (ho64 : o < 2 ^ 64) (hS : 1 / 2 ≤ S) (hS' : S ≤ 2 ^ 17) (hO : |O| ≤ 2 ^ 10) :
    ∃ q4 : ℚ, IsFin (mul (add (sub (div (ofInt r) s) o) o) s) q4 ∧ |q4 - r| < 1 / 2 ∧
      mul (add (sub (div (ofInt r) s) o) o) s < 2 ^ 64 := by
  have hSpos : 0 < S := by linarith
  have hrq : |(r : ℚ)| ≤ 2 ^ 49 := by
    rw [← Int.cast_abs, ← Nat.cast_natAbs]; exact_mod_cast hr
  have hR := ofInt_fin r (by omega)
  -- r / S
  have b0 : |(r : ℚ) / S| ≤ 2 ^ 50 := by
    rw [abs_div, abs_of_pos hSpos, div_le_iff₀ hSpos]
    calc |(r : ℚ)| ≤ 2 ^ 49 := hrq
      _ = 2 ^ 50 * (1 / 2) := by norm_num
      _ ≤ 2 ^ 50 * S := by gcongr
  obtain ⟨q1, f1, n1⟩ := div_fin _ s _ S hR hs hSpos.ne' (lt_big _ (by linarith [b0]))
  have b1 : |q1| ≤ 2 ^ 51 := by
    have := near_bound q1 _ _ n1 b0
    have : (2 : ℚ) ^ 50 + 2 ^ 50 / 2 ^ 53 + 1 / 2 ^ 80 ≤ 2 ^ 51 := by norm_num
    linarith
  -- − O
  have b1' : |q1 - O| ≤ 2 ^ 52 := by
    have := abs_sub q1 O
    have : (2 : ℚ) ^ 51 + 2 ^ 10 ≤ 2 ^ 52 := by norm_num
    linarith
  obtain ⟨q2, f2, n2⟩ := sub_fin _ o ho64 q1 O f1 ho (lt_big _ (by linarith [b1']))
  have b2 : |q2| ≤ 2 ^ 53 := by
    have := near_bound q2 _ _ n2 b1'
    have : (2 : ℚ) ^ 52 + 2 ^ 52 / 2 ^ 53 + 1 / 2 ^ 80 ≤ 2 ^ 53 := by norm_num
    linarith
  -- + O
  have b2' : |q2 + O| ≤ 2 ^ 54 := by
    have := abs_add_le q2 O
    have : (2 : ℚ) ^ 53 + 2 ^ 10 ≤ 2 ^ 54 := by norm_num
    linarith
  obtain ⟨q3, f3, n3⟩ := add_fin _ o q2 O f2 ho (lt_big _ (by linarith [b2']))
  have b3 : |q3| ≤ 2 ^ 55 := by
    have := near_bound q3 _ _ n3 b2'
    have : (2 : ℚ) ^ 54 + 2 ^ 54 / 2 ^ 53 + 1 / 2 ^ 80 ≤ 2 ^ 55 := by norm_num
    linarith
  -- × S
  have b3' : |q3 * S| ≤ 2 ^ 72 := by
    rw [abs_mul, abs_of_pos hSpos]
    calc |q3| * S ≤ 2 ^ 55 * 2 ^ 17 := mul_le_mul b3 hS' (by linarith) (by norm_num)
      _ = 2 ^ 72 := by norm_num
  obtain ⟨q4, f4, n4⟩ := mul_fin _ s q3 S f3 hs (lt_big _ (by linarith [b3']))
  exact ⟨q4, f4, chain_bound r S O q1 q2 q3 q4 hrq hS hS' hO n1 n2 n3 n4,
    mul_lt64 _ s q3 S f3 hs (lt_big _ (by linarith [b3']))⟩

theorem chain_fin (r : Int) (hr : r.natAbs ≤ 2 ^ 49) (s o : Nat) (S O : ℚ) (hs : IsFin s S) (ho : IsFin o O)
    (ho64 : o < 2 ^ 64) (hS : 1 / 2 ≤ S) (hS' : S ≤ 2 ^ 17) (hO : |O| ≤ 2 ^ 10) :
    IsFin (round (mul (add (sub (div (ofInt r) s) o) o) s)) (r : ℚ) := by
  obtain ⟨q4, f4, h, _⟩ := chain_val r hr s o S O hs ho ho64 hS hS' hO
  exact round_fin _ q4 r f4 h (by omega)

/-- decidable range condition on a (scale, offset) pair (bit patterns): a positive normal scale in [1/2, 2^17),
an offset of magnitude below 2^10 -/
def rangeOK (s o : Nat) : Bool :=
  decide (s < 2 ^ 64) && decide (o < 2 ^ 64) &&
  match decode s, decode o with
  | .fin false m e, .fin _ mo eo =>
    decide (2 ^ 52 ≤ m) && decide (m < 2 ^ 53) && decide (-53 ≤ e) && decide (e ≤ -36) &&
      (mo == 0 || (decide (mo < 2 ^ 53) && decide (eo ≤ -43)))
  | _, _ => false

theorem rangeOK_spec (s o : Nat) (h : rangeOK s o = true) :
    ∃ S O : ℚ, IsFin s S ∧ IsFin o O ∧ o < 2 ^ 64 ∧ 1 / 2 ≤ S ∧ S ≤ 2 ^ 17 ∧ |O| ≤ 2 ^ 10 := by
  have h2 : (2 : ℚ) ≠ 0 := by norm_num
  unfold rangeOK at h
  simp only [Bool.and_eq_true, decide_eq_true_eq] at h
  obtain ⟨⟨_, ho64⟩, hm⟩ := h
  cases hds : decode s with
  | nan => simp [hds] at hm
  | inf _ => simp [hds] at hm
  | fin ss m e =>
    cases hdo : decode o with
    | nan => cases ss <;> simp [hds, hdo] at hm
    | inf _ => cases ss <;> simp [hds, hdo] at hm
    | fin so mo eo =>
      cases ss with
      | true => simp [hds, hdo] at hm
      | false =>
        simp only [hds, hdo, Bool.and_eq_true, decide_eq_true_eq, Bool.or_eq_true, beq_iff_eq] at hm
        obtain ⟨⟨⟨⟨hm1, hm2⟩, he1⟩, he2⟩, hoff⟩ := hm
        refine ⟨Fl.toQ (.fin false m e), Fl.toQ (.fin so mo eo), ⟨false, m, e, hds, rfl⟩, ⟨so, mo, eo, hdo, rfl⟩,
          ho64, ?_, ?_, ?_⟩
        · rw [toQ_fin]; simp only [sgn, Bool.false_eq_true, if_false, one_mul]
          have hmq : (2 : ℚ) ^ 52 ≤ (m : ℚ) := by exact_mod_cast hm1
          have hp : (2 : ℚ) ^ (-53 : Int) ≤ (2 : ℚ) ^ e := zpow_le_zpow_right₀ (by norm_num) he1
          have e53 : (2 : ℚ) ^ 52 * (2 : ℚ) ^ (-53 : Int) = 1 / 2 := by
            rw [← zpow_natCast, ← zpow_add₀ h2]; norm_num
          calc (1 : ℚ) / 2 = (2 : ℚ) ^ 52 * (2 : ℚ) ^ (-53 : Int) := e53.symm
            _ ≤ (m : ℚ) * (2 : ℚ) ^ e := mul_le_mul hmq hp (by positivity) (by positivity)
        · rw [toQ_fin]; simp only [sgn, Bool.false_eq_true, if_false, one_mul]
          have hmq : (m : ℚ) ≤ (2 : ℚ) ^ 53 := by exact_mod_cast hm2.le
          have hp : (2 : ℚ) ^ e ≤ (2 : ℚ) ^ (-36 : Int) := zpow_le_zpow_right₀ (by norm_num) he2
          have e17 : (2 : ℚ) ^ 53 * (2 : ℚ) ^ (-36 : Int) = 2 ^ 17 := by
            rw [← zpow_natCast, ← zpow_add₀ h2]; norm_num
          calc (m : ℚ) * (2 : ℚ) ^ e ≤ (2 : ℚ) ^ 53 * (2 : ℚ) ^ (-36 : Int) :=
                mul_le_mul hmq hp (by positivity) (by positivity)
            _ = 2 ^ 17 := e17
        · rw [abs_toQ]
          rcases hoff with h0 | ⟨hmo, heo⟩
          · rw [h0]; simp
          · have hmq : (mo : ℚ) ≤ (2 : ℚ) ^ 53 := by exact_mod_cast hmo.le
            have hp : (2 : ℚ) ^ eo ≤ (2 : ℚ) ^ (-43 : Int) := zpow_le_zpow_right₀ (by norm_num) heo
            have e10 : (2 : ℚ) ^ 53 * (2 : ℚ) ^ (-43 : Int) = 2 ^ 10 := by
              rw [← zpow_natCast, ← zpow_add₀ h2]; norm_num
            calc (mo : ℚ) * (2 : ℚ) ^ eo ≤ (2 : ℚ) ^ 53 * (2 : ℚ) ^ (-43 : Int) :=
                  mul_le_mul hmq hp (by positivity) (by positivity)
              _ = 2 ^ 10 := e10

/-- the side condition of the round trip: in range and not the unit pair -/
def pairOK (s o : Nat) : Bool := rangeOK s o && !(isUnit s o)

theorem pairOK_spec (s o : Nat) (h : pairOK s o = true) :
    ∃ S O : ℚ, IsFin s S ∧ IsFin o O ∧ o < 2 ^ 64 ∧ isUnit s o = false ∧ 1 / 2 ≤ S ∧ S ≤ 2 ^ 17 ∧ |O| ≤ 2 ^ 10 := by
  unfold pairOK at h
  simp only [Bool.and_eq_true, Bool.not_eq_true'] at h
  obtain ⟨S, O, a, b, c, d, e, f⟩ := rangeOK_spec s o h.1
  exact ⟨S, O, a, b, c, h.2, d, e, f⟩

/-! ### patterns of the integer types -/

theorem toInt_natAbs_le (ty : IntTy) (p : Nat) : (ty.toInt p).natAbs ≤ 2 ^ ty.bits := by
  cases ty <;> simp only [IntTy.toInt, IntTy.signed, IntTy.bits, true_and, Bool.false_eq_true, false_and, if_false] <;>
    (try split_ifs) <;> omega

theorem toInt_inRange (ty : IntTy) (p : Nat) : InRange ty (ty.toInt p) := by
  have hlt : p % 2 ^ ty.bits < 2 ^ ty.bits := Nat.mod_lt _ (by positivity)
  cases ty <;> simp only [InRange, IntTy.toInt, IntTy.signed, IntTy.bits, if_true, Bool.false_eq_true, if_false,
    true_and, false_and] at hlt ⊢ <;> (try split_ifs) <;> omega

theorem wrap_toInt (ty : IntTy) (p : Nat) (hp : p < 2 ^ ty.bits) : wrap ty.bits (ty.toInt p) = p := by
  cases ty <;> simp only [wrap, IntTy.toInt, IntTy.signed, IntTy.bits, true_and, Bool.false_eq_true, false_and, if_false] at hp ⊢ <;>
    (try split_ifs) <;> omega


/-- the unit pair: `Apply` alone is already exact (`r/1 − 0`) -/
theorem unit_fin (r : Int) (hr : r.natAbs < 2 ^ 53) :
    IsFin (round (sub (div (ofInt r) oneBits) 0)) (r : ℚ) := by
  have hR := ofInt_fin r hr
  have h1 : IsFin oneBits 1 := by
    refine ⟨false, 2 ^ 52, -52, by decide +kernel, ?_⟩
    rw [toQ_fin]; simp only [sgn, Bool.false_eq_true, if_false, one_mul]
    rw [show (-52 : Int) = -((52 : Nat) : Int) by norm_num, zpow_neg, zpow_natCast]; norm_num
  have h0 : IsFin 0 0 := ⟨false, 0, -1074, by decide +kernel, by rw [toQ_fin]; simp⟩
  have hrq : |(r : ℚ)| < 2 ^ 53 := by
    rw [← Int.cast_abs, ← Nat.cast_natAbs]; exact_mod_cast hr
  have habs : |(r : ℚ)| = ((r.natAbs : Nat) : ℚ) * (2 : ℚ) ^ (0 : Int) := by
    rw [Nat.cast_natAbs, Int.cast_abs]; simp
  obtain ⟨q1, f1, n1⟩ := div_fin _ oneBits _ 1 hR h1 one_ne_zero (lt_big _ (by rw [div_one]; linarith))
  have e1 : q1 = r := by
    have := n1.2 r.natAbs 0 hr (by norm_num) (by rw [div_one]; exact habs)
    rw [this, div_one]
  subst e1
  obtain ⟨q2, f2, n2⟩ := sub_fin _ 0 (by norm_num) _ 0 f1 h0 (lt_big _ (by rw [sub_zero]; linarith))
  have e2 : q2 = r := by
    have := n2.2 r.natAbs 0 hr (by norm_num) (by rw [sub_zero]; exact habs)
    rw [this, sub_zero]
  subst e2
  exact round_fin _ _ r f2 (by simp) hr

/-! ### datetime, semicircles -/

theorem exact_of_int (q : ℚ) (r : Int) (hr : r.natAbs < 2 ^ 53) (h : Near q (r : ℚ)) : q = r := by
  apply h.2 r.natAbs 0 hr (by norm_num)
  rw [Nat.cast_natAbs, Int.cast_abs]; simp

theorem isFin_e9 : IsFin e9Bits 1000000000 := by
  refine ⟨false, 1000000000 * 2 ^ 23, -23, by decide +kernel, ?_⟩
  rw [toQ_fin]; simp only [sgn, Bool.false_eq_true, if_false, one_mul]
  rw [show (-23 : Int) = -((23 : Nat) : Int) by norm_num, zpow_neg, zpow_natCast]; norm_num

/-- `Duration.Seconds()` of a whole number of seconds below 2^32 is that number, exactly -/
theorem seconds_whole (v : Nat) (hv : v < 2 ^ 32) : IsFin (seconds ((v : Int) * nsPerSec)) (v : ℚ) := by
  have hd : Int.tdiv ((v : Int) * nsPerSec) nsPerSec = v := by
    simp [nsPerSec, Int.mul_tdiv_cancel]
  have hm : Int.tmod ((v : Int) * nsPerSec) nsPerSec = 0 := by
    simp [nsPerSec, Int.mul_tmod_left]
  simp only [seconds, hd, hm]
  have hV := ofInt_fin (v : Int) (by simp; omega)
  have h0 := ofInt_fin 0 (by norm_num)
  obtain ⟨q1, f1, n1⟩ := div_fin _ e9Bits _ _ h0 isFin_e9 (by norm_num) (lt_big _ (by simp))
  have e1 : q1 = 0 := by
    have := exact_of_int q1 0 (by norm_num) (by simpa using n1)
    simpa using this
  subst e1
  have hvq : |((v : Int) : ℚ) + 0| ≤ 2 ^ 80 := by
    simp only [add_zero, Int.cast_natCast]
    rw [abs_of_nonneg (by positivity)]
    have : (v : ℚ) < 2 ^ 32 := by exact_mod_cast hv
    have : (2 : ℚ) ^ 32 ≤ 2 ^ 80 := by norm_num
    linarith
  obtain ⟨q2, f2, n2⟩ := add_fin _ _ _ _ hV f1 (lt_big _ hvq)
  have e2 : q2 = ((v : Int) : ℚ) := exact_of_int q2 v (by simp; omega) (by simpa using n2)
  rw [e2] at f2
  simpa using f2

theorem datetime_roundtrip (v : Nat) (hv : v < 2 ^ 32) : toUint32 (toTime v) = v := by
  unfold toTime
  by_cases hinv : v = uint32Invalid
  · simp only [hinv, if_true]; decide +kernel
  · simp only [hinv, if_false, toUint32]
    have hs : ¬ ((v : Int) < 0) := by omega
    simp only [hs, if_false]
    have hsub : subEpoch ⟨(v : Int), 0⟩ = (v : Int) * nsPerSec := by
      simp only [subEpoch, nsPerSec, maxDuration]
      have : ¬ ((v : Int) * (1000000000 : Nat) + (0 : Nat) > 2 ^ 63 - 1) := by push_cast; omega
      simp only [this, if_false]; simp
    rw [hsub]
    have hf := seconds_whole v hv
    have hr : InRange .u32 (v : Int) := by
      simp only [InRange, IntTy.signed, IntTy.bits, Bool.false_eq_true, if_false]; omega
    have := cvt_int .u32 (by decide) _ (v : Int) (by simpa using hf) hr
    rw [this]
    simp only [wrap, IntTy.bits]; omega

/-- `conversionFactor` is exactly 180/2^31 = 45·2^-29 -/
theorem isFin_cf : IsFin conversionFactor (180 / 2 ^ 31) := by
  have h180 := ofInt_fin 180 (by norm_num)
  have h231 := ofInt_fin 2147483648 (by norm_num)
  obtain ⟨q, f, n⟩ := div_fin _ _ _ _ h180 h231 (by norm_num) (lt_big _ (by norm_num))
  have e : q = 180 / 2 ^ 31 := by
    have := n.2 45 (-29) (by norm_num) (by norm_num) (by
      rw [show (-29 : Int) = -((29 : Nat) : Int) by norm_num, zpow_neg, zpow_natCast]; norm_num)
    rw [this]; norm_num
  rw [e] at f
  exact f

theorem not_special_of_fin (d : Nat) (q : ℚ) (h : IsFin d q) :
    d ≠ float64Invalid ∧ isNaN d = false ∧ isInf d = false := by
  obtain ⟨s, m, e, hd, _⟩ := h
  refine ⟨?_, ?_, ?_⟩
  · intro hc; rw [hc] at hd
    have : decode float64Invalid = .nan := by decide +kernel
    rw [this] at hd; cases hd
  · simp [isNaN, hd]
  · simp [isInf, hd]

theorem semicircles_roundtrip (s : Nat) (hs : s < 2 ^ 32) : toSemicircles (toDegrees s) = s := by
  have h2 : (2 : ℚ) ≠ 0 := by norm_num
  unfold toDegrees
  by_cases hinv : s = sint32Invalid
  · simp only [hinv, if_true]; decide +kernel
  · simp only [hinv, if_false]
    set r := IntTy.i32.toInt s with hr
    have hrb : r.natAbs ≤ 2 ^ 32 := toInt_natAbs_le .i32 s
    have hR := ofInt_fin r (by omega)
    have hrq : |(r : ℚ)| ≤ 2 ^ 32 := by
      rw [← Int.cast_abs, ← Nat.cast_natAbs]; exact_mod_cast hrb
    -- degrees = r·180/2^31, exactly (|r|·45 < 2^53)
    have hz : |(r : ℚ) * (180 / 2 ^ 31)| ≤ 2 ^ 80 := by
      rw [abs_mul, abs_of_pos (by norm_num : (0 : ℚ) < 180 / 2 ^ 31)]
      have : |(r : ℚ)| * (180 / 2 ^ 31) ≤ 2 ^ 32 * (180 / 2 ^ 31) := by gcongr
      have : (2 : ℚ) ^ 32 * (180 / 2 ^ 31) ≤ 2 ^ 80 := by norm_num
      linarith
    obtain ⟨d, fd, nd⟩ := mul_fin _ _ _ _ hR isFin_cf (lt_big _ hz)
    have ed : d = (r : ℚ) * (180 / 2 ^ 31) := by
      apply nd.2 (r.natAbs * 45) (-29) (by omega) (by norm_num)
      rw [abs_mul, abs_of_pos (by norm_num : (0 : ℚ) < 180 / 2 ^ 31), ← Int.cast_abs, ← Nat.cast_natAbs]
      rw [show (-29 : Int) = -((29 : Nat) : Int) by norm_num, zpow_neg, zpow_natCast]
      push_cast; norm_num; ring
    subst ed
    obtain ⟨hne, hnan, hinf⟩ := not_special_of_fin _ _ fd
    unfold toSemicircles
    rw [if_neg (by
      intro hc
      simp only [Bool.or_eq_true, decide_eq_true_eq] at hc
      rcases hc with (h | h) | h
      · exact hne h
      · rw [hnan] at h; cases h
      · rw [hinf] at h; cases h)]
    -- back: (r·180/2^31) / (180/2^31) = r, exactly
    have hquot : (r : ℚ) * (180 / 2 ^ 31) / (180 / 2 ^ 31) = r := by field_simp
    obtain ⟨q, fq, nq⟩ := div_fin _ _ _ _ fd isFin_cf (by norm_num) (lt_big _ (by
      rw [hquot]; have : (2 : ℚ) ^ 32 ≤ 2 ^ 80 := by norm_num
      linarith))
    rw [hquot] at nq
    have eq : q = r := exact_of_int q r (by omega) nq
    subst eq
    rw [cvt_int .i32 (by decide) _ r fq (toInt_inRange .i32 s)]
    exact wrap_toInt .i32 s hs

theorem rangeOK_lt (s o : Nat) (h : rangeOK s o = true) : s < 2 ^ 64 ∧ o < 2 ^ 64 := by
  unfold rangeOK at h
  simp only [Bool.and_eq_true, decide_eq_true_eq] at h
  exact h.1

theorem isFin_unique (x : Nat) (q q' : ℚ) (h : IsFin x q) (h' : IsFin x q') : q = q' := by
  obtain ⟨s, m, e, hd, hv⟩ := h
  obtain ⟨s', m', e', hd', hv'⟩ := h'
  rw [hd] at hd'; cases hd'; rw [← hv, ← hv']

/-! ### comparisons; the generated typed accessors -/

/-- bits of a non-negative finite datum from its decoded form -/
theorem bits_of_decode (x m : Nat) (e : Int) (hx : x < 2 ^ 63) (h : decode x = .fin false m e) :
    (m < 2 ^ 52 ∧ e = -1074 ∧ x = m) ∨
    (2 ^ 52 ≤ m ∧ m < 2 ^ 53 ∧ -1074 ≤ e ∧ e ≤ 971 ∧ x = (e + 1074).toNat * 2 ^ 52 + m) := by
  simp only [decode, Fmt.decode, b64] at h
  have hdm := Nat.div_add_mod x (2 ^ 52)
  have hbe : x / 2 ^ 52 < 2 ^ 11 := by omega
  have hbe' : x / 2 ^ 52 % 2 ^ 11 = x / 2 ^ 52 := Nat.mod_eq_of_lt hbe
  have hfr : x % 2 ^ 52 < 2 ^ 52 := Nat.mod_lt _ (by norm_num)
  simp only [hbe'] at h
  by_cases h1 : x / 2 ^ 52 = 2 ^ 11 - 1
  · simp only [h1, if_true] at h
    by_cases h0 : x % 2 ^ 52 = 0
    · simp only [h0, if_true] at h; cases h
    · simp only [h0, if_false] at h; cases h
  · simp only [h1, if_false] at h
    by_cases h3 : x / 2 ^ 52 = 0
    · simp only [h3, if_true] at h
      injection h with hs hm he
      left
      refine ⟨by omega, by omega, by omega⟩
    · simp only [h3, if_false] at h
      injection h with hs hm he
      right
      have : x / 2 ^ 52 ≤ 2046 := by omega
      refine ⟨by omega, by omega, by omega, by omega, ?_⟩
      have : (e + 1074).toNat = x / 2 ^ 52 - 1 := by omega
      rw [this]
      have : (x / 2 ^ 52 - 1) * 2 ^ 52 = 2 ^ 52 * (x / 2 ^ 52) - 2 ^ 52 := by
        rw [Nat.sub_mul, Nat.mul_comm]; simp
      omega

/-- the order of non-negative finite bit patterns is the order of their values -/
theorem bits_le_of_val_le (x y mx my : Nat) (ex ey : Int) (hx : x < 2 ^ 63) (hy : y < 2 ^ 63)
    (dx : decode x = .fin false mx ex) (dy : decode y = .fin false my ey)
    (h : (mx : ℚ) * (2 : ℚ) ^ ex ≤ (my : ℚ) * (2 : ℚ) ^ ey) : x ≤ y := by
  have h2 : (2 : ℚ) ≠ 0 := by norm_num
  rcases bits_of_decode x mx ex hx dx with ⟨hm, he, hxe⟩ | ⟨hm1, hm2, he1, he2, hxe⟩
  · rcases bits_of_decode y my ey hy dy with ⟨hm', he', hye⟩ | ⟨hm1', hm2', he1', he2', hye⟩
    · skip
      rw [he, he'] at h
      have hp : (0 : ℚ) < (2 : ℚ) ^ (-1074 : Int) := by positivity
      have := le_of_mul_le_mul_right h hp
      have : mx ≤ my := by exact_mod_cast this
      omega
    · skip
      have : mx < 2 ^ 52 := hm
      have : 0 ≤ (ey + 1074).toNat * 2 ^ 52 := Nat.zero_le _
      omega
  · rcases bits_of_decode y my ey hy dy with ⟨hm', he', hye⟩ | ⟨hm1', hm2', he1', he2', hye⟩
    · -- x normal, y subnormal: value x ≥ 2^52·2^ex ≥ 2^52·2^-1074 > y
      exfalso
      rw [he'] at h
      have hp : (2 : ℚ) ^ (-1074 : Int) ≤ (2 : ℚ) ^ ex := zpow_le_zpow_right₀ (by norm_num) he1
      have hmq : (2 : ℚ) ^ 52 ≤ (mx : ℚ) := by exact_mod_cast hm1
      have hmy : (my : ℚ) < 2 ^ 52 := by exact_mod_cast hm'
      have hpos : (0 : ℚ) < (2 : ℚ) ^ (-1074 : Int) := by positivity
      have : (2 : ℚ) ^ 52 * (2 : ℚ) ^ (-1074 : Int) ≤ (mx : ℚ) * (2 : ℚ) ^ ex :=
        mul_le_mul hmq hp hpos.le (by positivity)
      have : (my : ℚ) * (2 : ℚ) ^ (-1074 : Int) < (2 : ℚ) ^ 52 * (2 : ℚ) ^ (-1074 : Int) :=
        mul_lt_mul_of_pos_right hmy hpos
      linarith
    · -- both normal: compare exponents
      by_cases hee : ex ≤ ey
      · rcases lt_or_eq_of_le hee with hlt | heq
        · skip
          have : (ex + 1074).toNat + 1 ≤ (ey + 1074).toNat := by omega
          have : ((ex + 1074).toNat + 1) * 2 ^ 52 ≤ (ey + 1074).toNat * 2 ^ 52 := Nat.mul_le_mul_right _ this
          rw [Nat.add_mul] at this
          omega
        · skip
          subst heq
          have hp : (0 : ℚ) < (2 : ℚ) ^ ex := by positivity
          have := le_of_mul_le_mul_right h hp
          have : mx ≤ my := by exact_mod_cast this
          omega
      · exfalso
        have hgt : ey + 1 ≤ ex := by omega
        have hp : (2 : ℚ) ^ (ey + 1) ≤ (2 : ℚ) ^ ex := zpow_le_zpow_right₀ (by norm_num) hgt
        have hmq : (2 : ℚ) ^ 52 ≤ (mx : ℚ) := by exact_mod_cast hm1
        have hmy : (my : ℚ) < 2 ^ 53 := by exact_mod_cast hm2'
        have hpos : (0 : ℚ) < (2 : ℚ) ^ ey := by positivity
        have e1 : (2 : ℚ) ^ (ey + 1) = (2 : ℚ) ^ ey * 2 := by rw [zpow_add₀ h2]; simp
        have : (2 : ℚ) ^ 52 * ((2 : ℚ) ^ ey * 2) ≤ (mx : ℚ) * (2 : ℚ) ^ ex := by
          rw [← e1]; exact mul_le_mul hmq hp (by positivity) (by positivity)
        have : (my : ℚ) * (2 : ℚ) ^ ey < 2 ^ 53 * (2 : ℚ) ^ ey := mul_lt_mul_of_pos_right hmy hpos
        have e53 : (2 : ℚ) ^ 53 = 2 ^ 52 * 2 := by norm_num
        rw [e53] at this
        nlinarith

theorem decode_sign (x : Nat) (s : Bool) (m : Nat) (e : Int) (h : decode x = .fin s m e) :
    s = (x / 2 ^ 63 % 2 == 1) := by
  simp only [decode, Fmt.decode, b64] at h
  by_cases h1 : x / 2 ^ 52 % 2 ^ 11 = 2 ^ 11 - 1
  · simp only [h1, if_true] at h
    by_cases h0 : x % 2 ^ 52 = 0
    · simp only [h0, if_true] at h; cases h
    · simp only [h0, if_false] at h; cases h
  · simp only [h1, if_false] at h
    by_cases h3 : x / 2 ^ 52 % 2 ^ 11 = 0
    · simp only [h3, if_true] at h; injection h with hs _ _; exact hs.symm
    · simp only [h3, if_false] at h; injection h with hs _ _; exact hs.symm

/-- `u > y` is false when the value of `u` does not exceed that of the positive datum `y` -/
theorem fgt_false (u y : Nat) (hu64 : u < 2 ^ 64) (hy64 : y < 2 ^ 64) (qu qy : ℚ) (hu : IsFin u qu) (hy : IsFin y qy)
    (hpos : 0 < qy) (hle : qu ≤ qy) : fgt u y = false := by
  obtain ⟨su, mu, eu, du, rfl⟩ := hu
  obtain ⟨sy, my, ey, dy, rfl⟩ := hy
  have hsy : sy = false := by
    cases sy with
    | false => rfl
    | true =>
      exfalso
      rw [toQ_fin] at hpos
      simp only [sgn, if_true] at hpos
      have : (0 : ℚ) ≤ (my : ℚ) * (2 : ℚ) ^ ey := by positivity
      linarith
  subst hsy
  have hy63 : y < 2 ^ 63 := by
    have := decode_sign y false my ey dy
    have : ¬ (y / 2 ^ 63 % 2 = 1) := by simpa using this.symm
    omega
  have hmy : 0 < my := by
    rcases Nat.eq_zero_or_pos my with h | h
    · rw [toQ_fin, h] at hpos; simp at hpos
    · exact h
  unfold fgt flt
  have hkey : ¬ (key y < key u) := by
    have hky : key y = (y : Int) := by
      unfold key
      have : ¬ (y / 2 ^ 63 % 2 = 1) := by omega
      simp only [this, if_false]
      have : y % 2 ^ 63 = y := Nat.mod_eq_of_lt hy63
      rw [this]
    cases su with
    | true =>
      have := decode_sign u true mu eu du
      have h1 : u / 2 ^ 63 % 2 = 1 := by simpa using this.symm
      unfold key at *
      simp only [h1, if_true]
      omega
    | false =>
      have := decode_sign u false mu eu du
      have h1 : ¬ (u / 2 ^ 63 % 2 = 1) := by simpa using this.symm
      have hu63 : u < 2 ^ 63 := by omega
      have hku : key u = (u : Int) := by
        unfold key
        simp only [h1, if_false]
        have : u % 2 ^ 63 = u := Nat.mod_eq_of_lt hu63
        rw [this]
      rw [hky, hku]
      rw [toQ_fin, toQ_fin] at hle
      simp only [sgn, Bool.false_eq_true, if_false, one_mul] at hle
      have := bits_le_of_val_le u y mu my eu ey hu63 hy63 du dy hle
      omega
  simp [hkey]

theorem toInt_inj (ty : IntTy) (a b : Nat) (ha : a < 2 ^ ty.bits) (hb : b < 2 ^ ty.bits)
    (h : ty.toInt a = ty.toInt b) : a = b := by
  rw [← wrap_toInt ty a ha, ← wrap_toInt ty b hb, h]

/-- **the generated accessors** (`XxxScaled` then `SetXxxScaled`, after the repair of the template): every raw value
other than the invalid sentinel `inv` (the largest value of the type) comes back, for every pair in range. -/
theorem typed_roundtrip (ty : IntTy) (hty : ty.bits ≤ 32) (r inv s o : Nat) (hr : r < 2 ^ ty.bits)
    (hinv : inv < 2 ^ ty.bits) (hrinv : r ≠ inv) (hle : ty.toInt r ≤ ty.toInt inv) (hinvpos : 0 < ty.toInt inv)
    (hok : pairOK s o = true) :
    setScaled ty inv (getScaled ty inv r s o) s o = r := by
  obtain ⟨S, O, hs, ho, ho64, _, hS, hS', hO⟩ := pairOK_spec s o hok
  have hrb : (ty.toInt r).natAbs ≤ 2 ^ 32 :=
    le_trans (toInt_natAbs_le ty r) (Nat.pow_le_pow_right (by norm_num) hty)
  have hinvb : (ty.toInt inv).natAbs < 2 ^ 53 := by
    have := toInt_natAbs_le ty inv
    have : 2 ^ ty.bits ≤ 2 ^ 32 := Nat.pow_le_pow_right (by norm_num) hty
    omega
  obtain ⟨q4, f4, hq, hu64⟩ := chain_val (ty.toInt r) (by omega) s o S O hs ho ho64 hS hS' hO
  -- the product is finite, below 2^64 as a bit pattern, and not above the sentinel
  have hlt : ty.toInt r ≤ ty.toInt inv - 1 := by
    have : ty.toInt r ≠ ty.toInt inv := fun h => hrinv (toInt_inj ty r inv hr hinv h)
    omega
  have hltq : ((ty.toInt r : Int) : ℚ) ≤ ((ty.toInt inv : Int) : ℚ) - 1 := by
    have : ((ty.toInt r : Int) : ℚ) ≤ ((ty.toInt inv - 1 : Int) : ℚ) := by exact_mod_cast hlt
    push_cast at this; exact this
  have hI := ofInt_fin (ty.toInt inv) hinvb
  obtain ⟨_, hnan, hinf⟩ := not_special_of_fin _ _ f4
  have hql := abs_lt.mp hq
  have hgt := fgt_false _ _ hu64 (ofInt_lt64 _ hinvb) _ _ f4 hI (by exact_mod_cast hinvpos) (by linarith)
  simp only [getScaled, hrinv, if_false, setScaled, hnan, hinf, hgt, Bool.or_self, Bool.false_eq_true, if_false]
  have hfin := round_fin _ q4 (ty.toInt r) f4 hq (by omega)
  rw [cvt_int ty hty _ _ hfin (toInt_inRange ty r), wrap_toInt ty r hr]

end Fit.C12L
