import FitProps.C17DefsTypes
/-! Kernel evaluations for `FitProps/C17.lean` (the statements and what they mean are documented there). -/
namespace Fit.C17.Lemmas
open Fit.ProfileSpec Fit.Gen Fit.C17

theorem types_eq_xlsx_partial : Prof.types = Xlsx.types.map (fun t => (t.dedupe).fix f14) := by
  decide +kernel

theorem KF1_witness_types : ¬ C17_types_eq_xlsx_full := by
  unfold C17_types_eq_xlsx_full
  decide +kernel

theorem dedupe_exact : Xlsx.types.flatMap TypeRow.droppedRows = r7Dropped := by
  decide +kernel

theorem dedupe_eq_listed : Xlsx.types.map TypeRow.dedupe = Xlsx.types.map (TypeRow.dropListed r7Dropped) := by
  decide +kernel

theorem dedupe_aliases_survive : ∀ t ∈ Xlsx.types, t.aliasesSurvive = true := by
  decide +kernel

theorem types_row_count :
    (Xlsx.types.map (·.consts.length)).sum = (Prof.types.map (·.consts.length)).sum + r7Dropped.length := by
  decide +kernel

theorem profile_types :
    Prof.profileTypeStrs.ok = true ∧
    Prof.profileTypeStrs.rows.map (·.value) = List.range Prof.profileTypeStrs.rows.length ∧
    Prof.profileTypeStrs.rows.map (·.str) =
      (expectedBaseNames Xlsx.types).map (·.1) ++ [0x1626f6f6c /- "bool" -/] ++ (Xlsx.types.map fun t => (t.fix f14).name) ∧
    Prof.profileTypeBases =
      (expectedBaseNames Xlsx.types).map (·.2) ++ [0 /- enum -/] ++ Xlsx.types.map (·.baseType) := by
  decide +kernel

end Fit.C17.Lemmas
