import FitProps.ValueUnmarshalLemmas
/-! Helper lemmas (C06): what `UnmarshalValue` returned re-marshals and reads back as itself (numeric base types). -/
namespace Fit.Value
open Fit.Gen Fit.Utf8

theorem ofLE_lt (bs : List Nat) (hb : ∀ b ∈ bs, b < 256) : ofLE bs < 256 ^ bs.length := by
  induction bs with
  | nil => simp [ofLE]
  | cons b bs ih =>
    have h1 := hb b (by simp)
    have h2 := ih (fun x hx => hb x (List.mem_cons_of_mem _ hx))
    simp only [ofLE, List.length_cons, Nat.pow_succ]
    omega

theorem dec_lt (a : Nat) (bs : List Nat) (hb : ∀ b ∈ bs, b < 256) : dec a bs < 256 ^ bs.length := by
  unfold dec
  split
  · exact ofLE_lt bs hb
  · have := ofLE_lt bs.reverse (fun b h => hb b (List.mem_reverse.mp h))
    simpa using this

theorem chunks_spec (w : Nat) : ∀ (fuel : Nat) (bs : List Nat), (∀ b ∈ bs, b < 256) →
    ∀ c ∈ chunks w fuel bs, c.length = w ∧ ∀ b ∈ c, b < 256 := by
  intro fuel
  induction fuel with
  | zero => intro bs _ c hc; simp [chunks] at hc
  | succ f ih =>
    intro bs hb c hc
    simp only [chunks] at hc
    split at hc
    · rename_i hw
      rcases List.mem_cons.mp hc with h | h
      · subst h
        exact ⟨by simp; omega, fun b hbm => hb b (List.mem_of_mem_take hbm)⟩
      · exact ih (bs.drop w) (fun b hbm => hb b (List.mem_of_mem_drop hbm)) c h
    · cases hc

theorem decSlice_lt (w a : Nat) (bs : List Nat) (hb : ∀ b ∈ bs, b < 256) : allLt (256 ^ w) (decSlice w a bs) = true := by
  simp only [allLt, List.all_eq_true, decide_eq_true_eq, decSlice]
  intro x hx
  obtain ⟨c, hc, rfl⟩ := List.mem_map.mp hx
  obtain ⟨hl, hcb⟩ := chunks_spec w _ bs hb c hc
  have := dec_lt a c hcb
  rwa [hl] at this

/-- re-marshalling (any byte order) and re-reading a decoded array gives the array back -/
theorem decSlice_reencode (w a a' : Nat) (hw : 0 < w) (bs : List Nat) (hb : ∀ b ∈ bs, b < 256) :
    decSlice w a' ((decSlice w a bs).flatMap (enc w a')) = decSlice w a bs := by
  rw [decSlice_enc w a' hw, map_mod_of_allLt _ _ (decSlice_lt w a bs hb)]

theorem decScalar_reencode (w a a' : Nat) (bs : List Nat) (mk : Nat → Value) (hb : ∀ b ∈ bs, b < 256) (v : Value)
    (h : decScalar w a bs mk = .ok v) :
    ∃ x, v = mk x ∧ x < 256 ^ w ∧ decScalar w a' (enc w a' x) mk = .ok v := by
  unfold decScalar at h
  split at h
  · cases h
  · rename_i hl
    simp only [Outcome.ok.injEq] at h
    have hx := dec_lt a (bs.take w) (fun b hbm => hb b (List.mem_of_mem_take hbm))
    rw [List.length_take, Nat.min_eq_left (by omega)] at hx
    refine ⟨_, h.symm, hx, ?_⟩
    rw [decScalar_enc, Nat.mod_eq_of_lt hx, h]


theorem enc_one (a x : Nat) : enc 1 a x = [x % 256] := by
  unfold enc; split <;> simp [leBytes]

theorem map_mod256_bytes (bs : List Nat) (hb : ∀ b ∈ bs, b < 256) : bs.map (· % 256) = bs := by
  induction bs with
  | nil => rfl
  | cons b bs ih =>
    simp only [List.map_cons, Nat.mod_eq_of_lt (hb b (by simp))]
    rw [ih (fun x hx => hb x (List.mem_cons_of_mem _ hx))]

theorem mkBool_eq (x : Nat) : mkBool x = .bool (clampBool x) := rfl

theorem decScalar_bool_reencode (a a' : Nat) (bs : List Nat) (hb : ∀ b ∈ bs, b < 256) (v : Value)
    (h : decScalar 1 a bs mkBool = .ok v) :
    ∃ bs', marshal v a' = some bs' ∧ decScalar 1 a' bs' mkBool = .ok v := by
  obtain ⟨x, rfl, _, _⟩ := decScalar_reencode 1 a a' bs mkBool hb v h
  refine ⟨[boolByte (clampBool x)], rfl, ?_⟩
  rw [decScalar_single, mkBool_eq, mkBool_eq, boolByte_clampBool, clampBool_clampBool]

attribute [local simp] btEnum btSint8 btByte btUint8 btUint8z btSint16 btUint16 btUint16z btSint32 btUint32 btUint32z
  btSint64 btUint64 btUint64z btFloat32 btFloat64 btString in
/-- what `UnmarshalValue` returned for a numeric base type re-marshals (any byte order) and reads back as itself -/
theorem unmarshal_reencode (bs : List Nat) (a a' bt : Nat) (isBool isArray : Bool) (v : Value)
    (hb : ∀ b ∈ bs, b < 256) (hs : bt ≠ btString) (h : unmarshal bs a bt isBool isArray = .ok v) :
    ∃ bs', marshal v a' = some bs' ∧ unmarshal bs' a' bt isBool isArray = .ok v := by
  by_cases hv : btValid bt = true
  · have hm := (btValid_iff bt).mp hv
    simp only [baseTypeList, List.mem_cons, List.not_mem_nil, or_false] at hm
    have sc : ∀ (w : Nat) (mk : Nat → Value), decScalar w a bs mk = .ok v →
        (∀ x, marshal (mk x) a' = some (enc w a' x)) →
        ∃ bs', marshal v a' = some bs' ∧ decScalar w a' bs' mk = .ok v := by
      intro w mk h hmk
      obtain ⟨x, rfl, _, hre⟩ := decScalar_reencode w a a' bs mk hb v h
      exact ⟨_, hmk x, hre⟩
    rcases hm with h' | h' | h' | h' | h' | h' | h' | h' | h' | h' | h' | h' | h' | h' | h' | h' | h' <;> subst h' <;>
      cases isArray <;> cases isBool <;> simp [unmarshal] at h ⊢ <;>
      first
        | exact absurd rfl hs
        | (subst h; simp [marshal, decSlice_reencode _ _ _ _ _ hb, map_mod256_bytes _ hb, List.map_map, Function.comp_def]; done)
        | exact decScalar_bool_reencode a a' bs hb v h
        | exact sc _ _ h (fun x => by simp [marshal, enc_one])
  · have hv' : btValid bt = false := by simpa using hv
    rcases unmarshal_cases bs a bt isBool isArray with ⟨_, h'⟩ | ⟨h', _⟩ | ⟨h', _⟩
    · rw [h'] at h; cases h
    · rw [hv'] at h'; cases h'
    · rw [hv'] at h'; cases h'

end Fit.Value
