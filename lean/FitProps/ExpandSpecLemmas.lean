import FitModel.ExpandSpec
import FitProps.BitsLemmas
import FitProps.AccumLemmas
import FitProps.ExpandLemmas
import FitProps.C05Lemmas
import Mathlib.Tactic.Ring
import Mathlib.Tactic.Linarith
import Mathlib.Tactic.SplitIfs
/-!
Refinement of the specification `FitModel/ExpandSpec.lean` by the model of the code `FitModel/Expand.lean`:
the bit store against slices of one natural number, the accumulator table against the running totals, the index loops
against the list recursion.
-/
namespace Fit.ExpandSpec
open Fit.Value Fit.Msg Fit.PA Fit.Physical Fit.Expand

/-! ### look-ups -/

theorem fieldOf_eq (t : Table) (m n : Nat) : fieldOf t m n = lookup t m n := by
  unfold fieldOf lookup
  rw [List.head?_filter]
  cases t.find? (·.1 == m) with
  | none => rfl
  | some e => obtain ⟨a, fs⟩ := e; simp [List.head?_filter]

theorem destOf_eq (t : Table) (m n : Nat) :
    (destOf t m n).base = (createField t m n).1 ∧ (destOf t m n).comps = (createField t m n).2.1 ∧
      (destOf t m n).subs = (createField t m n).2.2 := by
  unfold destOf createField
  rw [fieldOf_eq]
  cases lookup t m n with
  | none => exact ⟨rfl, rfl, rfl⟩
  | some f => exact ⟨rfl, rfl, rfl⟩

theorem subFieldOf_eq (fields : List Field) (subs : List SubF) : subFieldOf fields subs = subFieldSubst fields subs := by
  unfold subFieldOf subFieldSubst
  rw [List.head?_filter]
  congr 1
  funext sf
  congr 1
  funext mp
  rw [List.head?_filter]
  rfl

theorem compsOf_eq (t : Table) (m : Nat) (fields : List Field) (f : Field) :
    compsOf t m fields f = fieldComps t m fields f := by
  unfold compsOf fieldComps
  cases f.base with
  | none => rfl
  | some b =>
    simp only [fieldOf_eq]
    cases lookup t m b.num with
    | none => rfl
    | some fl => simp only [subFieldOf_eq]; rfl

/-! ### writing a destination -/

/-- position of the last field numbered `num` -/
def lastPos (fs : List Field) (num : Nat) : Option Nat :=
  match fs with
  | [] => none
  | f :: rest =>
    match lastPos rest num with
    | some j => some (j + 1)
    | none => if fieldNum f == some num then some 0 else none

theorem lastIdx_go_eq (num : Nat) (fs : List Field) (i : Nat) (acc : Option Nat) :
    lastIdx.go num fs i acc = match lastPos fs num with | some j => some (i + j) | none => acc := by
  induction fs generalizing i acc with
  | nil => simp [lastIdx.go, lastPos]
  | cons f rest ih =>
    simp only [lastIdx.go, lastPos]
    rw [ih]
    cases h : lastPos rest num with
    | some j => simp only; congr 1; omega
    | none =>
      simp only
      split_ifs <;> simp

theorem lastIdx_eq (fs : List Field) (num : Nat) : lastIdx fs num = lastPos fs num := by
  unfold lastIdx
  rw [lastIdx_go_eq]
  cases lastPos fs num <;> simp

theorem updLast_eq (fs : List Field) (num : Nat) (g : Field → Field) :
    updLast fs num g = (lastPos fs num).map fun j => fs.modify j g := by
  induction fs with
  | nil => simp [updLast, lastPos]
  | cons f rest ih =>
    simp only [updLast, lastPos]
    rw [ih]
    cases h : lastPos rest num with
    | some j => simp
    | none =>
      simp only [Option.map_none]
      split_ifs <;> simp

theorem put_eq (fields : List Field) (num : Nat) (d : Dest) (value : Value) :
    put fields num d value =
      match lastIdx fields num with
      | some j => fields.modify j fun f =>
          { f with value := if (f.base.map (·.array)).getD false then valueAppend f.value value else value }
      | none => fields ++ [{ base := some d.base, value := if d.base.array then valueAppend .invalid value else value,
                             isExpanded := true }] := by
  unfold put
  rw [updLast_eq, lastIdx_eq]
  cases lastPos fields num <;> rfl

/-! ### the bit store against slices of one natural number -/

theorem pullLoop_wf (n : Nat) (hn : n ≤ 64) (ws : List Nat) (hws : Fit.Bits.WF ws) (prev : Nat)
    (hprev : prev < 2 ^ (64 - n)) : Fit.Bits.WF (Fit.Bits.pullLoop n prev ws) := by
  induction ws generalizing prev with
  | nil =>
    intro w hw
    simp only [Fit.Bits.pullLoop, List.mem_singleton] at hw
    subst hw
    exact lt_of_lt_of_le hprev (by unfold Fit.Bits.W; exact Nat.pow_le_pow_right (by norm_num) (by omega))
  | cons w rest ih =>
    have hw : w < Fit.Bits.W := hws w (by simp)
    have hrest : Fit.Bits.WF rest := fun x hx => hws x (by simp [hx])
    rw [Fit.Bits.pullLoop_cons n prev w rest hn]
    have hshift : w >>> n < 2 ^ (64 - n) := by
      rw [Nat.shiftRight_eq_div_pow]
      apply Nat.div_lt_of_lt_mul
      rw [Nat.mul_comm, ← Fit.Bits.W_eq n hn]; exact hw
    intro x hx
    rcases List.mem_cons.mp hx with h1 | h1
    · subst h1
      rw [Fit.Bits.and_mask w n hw hn, Fit.Bits.shlTop_eq _ n hn (Nat.mod_lt _ (by positivity))]
      have hor : prev ||| w % 2 ^ n * 2 ^ (64 - n) = w % 2 ^ n * 2 ^ (64 - n) + prev := by
        rw [← Nat.shiftLeft_eq, Nat.or_comm]
        exact (Nat.shiftLeft_add_eq_or_of_lt hprev _).symm
      rw [hor, Fit.Bits.W_eq n hn]
      have hm : w % 2 ^ n < 2 ^ n := Nat.mod_lt _ (by positivity)
      have : w % 2 ^ n + 1 ≤ 2 ^ n := hm
      calc w % 2 ^ n * 2 ^ (64 - n) + prev < w % 2 ^ n * 2 ^ (64 - n) + 2 ^ (64 - n) := by omega
        _ = (w % 2 ^ n + 1) * 2 ^ (64 - n) := by ring
        _ ≤ 2 ^ n * 2 ^ (64 - n) := Nat.mul_le_mul_right _ this
        _ = 2 ^ (64 - n) * 2 ^ n := by ring
    · exact ih hrest _ hshift x h1

theorem pull_wf (ws : List Nat) (hws : Fit.Bits.WF ws) (n : Nat) (hn : n ≤ 64) : Fit.Bits.WF (Fit.Bits.pull ws n).2 := by
  cases ws with
  | nil => intro w hw; simp [Fit.Bits.pull] at hw
  | cons w rest =>
    have hw : w < Fit.Bits.W := hws w (by simp)
    have hrest : Fit.Bits.WF rest := fun x hx => hws x (by simp [hx])
    have hshift : w >>> n < 2 ^ (64 - n) := by
      rw [Nat.shiftRight_eq_div_pow]
      apply Nat.div_lt_of_lt_mul
      rw [Nat.mul_comm, ← Fit.Bits.W_eq n hn]; exact hw
    simp only [Fit.Bits.pull]
    exact pullLoop_wf n hn rest hrest _ hshift

/-- the store holds what is left of the containing number `n` after `off` bits were taken -/
def BitsRel (ws : List Nat) (n off : Nat) : Prop := Fit.Bits.WF ws ∧ Fit.Bits.toNat ws = n / 2 ^ off

theorem bitsRel_pull (ws : List Nat) (n off w : Nat) (h : BitsRel ws n off) (hw : w ≤ 32) :
    (Fit.Bits.pull ws w).1 = sliceAt n off w ∧ BitsRel (Fit.Bits.pull ws w).2 n (off + w) := by
  obtain ⟨hwf, hn⟩ := h
  obtain ⟨a, b⟩ := Fit.Bits.pull_refines ws hwf w (by omega)
  refine ⟨?_, pull_wf ws hwf w (by omega), ?_⟩
  · rw [b hw, hn]; rfl
  · rw [a, hn, Nat.div_div_eq_div_mul, ← Nat.pow_add]

theorem bitsRel_of_makeBits (v : Value) (ws : List Nat) (n : Nat) (hm : Fit.Bits.makeBits v = some ws)
    (hv : match v with
      | .uint8 _ | .uint16 _ | .uint32 _ | .uint64 _ => True
      | .sliceUint8 xs => xs.length ≤ 256 | .sliceUint16 xs => 2 * xs.length ≤ 256
      | .sliceUint32 xs => 4 * xs.length ≤ 256 | .sliceUint64 xs => 8 * xs.length ≤ 256
      | _ => False) (hc : containerNat v = some n) : BitsRel ws n 0 := by
  obtain ⟨a, b⟩ := Fit.Bits.makeBits_container v ws hm hv
  rw [hc] at a
  exact ⟨b, by simpa using (Option.some.inj a)⟩

theorem container_bits (v : Value) (n : Nat) (h : container v = .bits n) :
    ∃ ws, Fit.Bits.makeBits v = some ws ∧ BitsRel ws n 0 := by
  cases v with
  | uint8 x => simp only [container, Cont.bits.injEq] at h; subst h; exact ⟨_, rfl, bitsRel_of_makeBits (.uint8 x) _ _ rfl trivial rfl⟩
  | uint16 x => simp only [container, Cont.bits.injEq] at h; subst h; exact ⟨_, rfl, bitsRel_of_makeBits (.uint16 x) _ _ rfl trivial rfl⟩
  | uint32 x => simp only [container, Cont.bits.injEq] at h; subst h; exact ⟨_, rfl, bitsRel_of_makeBits (.uint32 x) _ _ rfl trivial rfl⟩
  | uint64 x => simp only [container, Cont.bits.injEq] at h; subst h; exact ⟨_, rfl, bitsRel_of_makeBits (.uint64 x) _ _ rfl trivial rfl⟩
  | sliceUint8 xs =>
    simp only [container] at h
    split_ifs at h with hl
    simp only [Cont.bits.injEq] at h; subst h
    exact ⟨_, rfl, bitsRel_of_makeBits (.sliceUint8 xs) _ _ rfl hl rfl⟩
  | sliceUint16 xs =>
    simp only [container] at h
    split_ifs at h with hl
    simp only [Cont.bits.injEq] at h; subst h
    exact ⟨_, rfl, bitsRel_of_makeBits (.sliceUint16 xs) _ _ rfl hl rfl⟩
  | sliceUint32 xs =>
    simp only [container] at h
    split_ifs at h with hl
    simp only [Cont.bits.injEq] at h; subst h
    exact ⟨_, rfl, bitsRel_of_makeBits (.sliceUint32 xs) _ _ rfl hl rfl⟩
  | sliceUint64 xs =>
    simp only [container] at h
    split_ifs at h with hl
    simp only [Cont.bits.injEq] at h; subst h
    exact ⟨_, rfl, bitsRel_of_makeBits (.sliceUint64 xs) _ _ rfl hl rfl⟩
  | _ => simp [container] at h

theorem container_noBits (v : Value) (h : container v = .noBits) : Fit.Bits.makeBits v = none := by
  cases v with
  | invalid | bool _ | string _ | sliceBool _ | sliceString _ => rfl
  | sliceUint8 xs | sliceUint16 xs | sliceUint32 xs | sliceUint64 xs =>
    simp only [container] at h; split_ifs at h
  | _ => simp [container] at h

/-! ### the accumulator table against the running totals -/

theorem getRun_setRun_same (rs : Runs) (m d T : Nat) : getRun (setRun rs m d T) m d = some T := by
  simp [getRun, setRun]

theorem getRun_setRun_ne (rs : Runs) (m d T m' d' : Nat) (h : ¬ (m' = m ∧ d' = d)) :
    getRun (setRun rs m d T) m' d' = getRun rs m' d' := by
  have hne : (m == m' && d == d') = false := by
    rw [Bool.and_eq_false_iff]
    by_cases h1 : m = m'
    · right; simp only [beq_eq_false_iff_ne]; intro h2; exact h ⟨h1.symm, h2.symm⟩
    · left; simpa using h1
  simp only [getRun, setRun, List.find?_cons, hne]
  congr 1
  induction rs with
  | nil => rfl
  | cons r rest ih =>
    simp only [List.filter_cons]
    by_cases hr : (r.mesg == m && r.dest == d) = true
    · simp only [hr, Bool.not_true, Bool.false_eq_true, if_false]
      have : (r.mesg == m' && r.dest == d') = false := by
        simp only [Bool.and_eq_true, beq_iff_eq] at hr
        rw [Bool.and_eq_false_iff]
        by_cases h1 : r.mesg = m'
        · right; simp only [beq_eq_false_iff_ne]; intro h2; exact h ⟨by rw [← h1, hr.1], by rw [← h2, hr.2]⟩
        · left; simpa using h1
      simp only [List.find?_cons, this]
      exact ih
    · simp only [hr, Bool.not_false, if_true, List.find?_cons]
      cases (r.mesg == m' && r.dest == d') with
      | true => rfl
      | false => exact ih

/-- the masked difference `(s − last) & (1<<w − 1)` of accumulator.go is the distance a `w`-bit counter travelled -/
theorem masked_delta (w s last T : Nat) (hw : w ≤ 32) (hs : s < 2 ^ w) (hlast : last < 2 ^ 32)
    (hcong : last % 2 ^ w = T % 2 ^ w) :
    T + ((s + Fit.Accum.U32 - last) % Fit.Accum.U32 &&& Fit.Accum.mask w) = advance T w s := by
  have hmask : ∀ x, x < Fit.Accum.U32 → x &&& Fit.Accum.mask w = x % 2 ^ w := by
    intro x hx
    unfold Fit.Accum.mask
    split_ifs with h
    · have : w = 32 := by omega
      subst this
      have : Fit.Accum.U32 - 1 = 2 ^ 32 - 1 := rfl
      rw [this, Nat.and_two_pow_sub_one_eq_mod]
    · exact Nat.and_two_pow_sub_one_eq_mod x w
  have hU : (0 : Nat) < Fit.Accum.U32 := by unfold Fit.Accum.U32; positivity
  rw [hmask _ (Nat.mod_lt _ hU)]
  have hdvd : 2 ^ w ∣ Fit.Accum.U32 := by unfold Fit.Accum.U32; exact Nat.pow_dvd_pow 2 hw
  rw [Nat.mod_mod_of_dvd _ hdvd]
  unfold advance
  congr 1
  rw [← hcong]
  obtain ⟨k, hk⟩ := hdvd
  have hpos : 0 < 2 ^ w := by positivity
  have h1 := Nat.div_add_mod last (2 ^ w)
  have hr := Nat.mod_lt last hpos
  have hU32 : Fit.Accum.U32 = 2 ^ 32 := rfl
  generalize 2 ^ w = P at *
  generalize last / P = q at *
  generalize last % P = r at *
  have hqk : q + 1 ≤ k := by
    by_contra hc
    have : k ≤ q := by omega
    have : P * k ≤ P * q := Nat.mul_le_mul_left _ this
    omega
  have e : s + Fit.Accum.U32 - last = (s + P - r) + P * (k - q - 1) := by
    rw [hk, ← h1]
    have e1 : P * (k - q - 1) = P * k - P * q - P := by
      rw [Nat.mul_sub, Nat.mul_sub, Nat.mul_one]
    have e2 : P * q + P ≤ P * k := by
      have := Nat.mul_le_mul_left P hqk
      rw [Nat.mul_add, Nat.mul_one] at this; exact this
    rw [e1]
    omega
  rw [e, Nat.add_mul_mod_self_left]

/-- `advance` is the least total not below `T` that a `w`-bit counter showing `s` can stand for -/
theorem advance_spec (T w s : Nat) (hs : s < 2 ^ w) :
    T ≤ advance T w s ∧ advance T w s % 2 ^ w = s ∧ advance T w s < T + 2 ^ w := by
  unfold advance
  have hpos : 0 < 2 ^ w := by positivity
  have hm := Nat.mod_lt (s + 2 ^ w - T % 2 ^ w) hpos
  have hr := Nat.mod_lt T hpos
  refine ⟨Nat.le_add_right _ _, ?_, by omega⟩
  have h1 := Nat.div_add_mod T (2 ^ w)
  generalize 2 ^ w = P at *
  generalize hq : T / P = q at *
  generalize hrr : T % P = r at *
  -- (P*q + r + (s + P - r) % P) % P = s
  rw [← h1]
  by_cases hle : r ≤ s
  · have : (s + P - r) % P = s - r := by
      have : s + P - r = (s - r) + P * 1 := by omega
      rw [this, Nat.add_mul_mod_self_left, Nat.mod_eq_of_lt (by omega)]
    rw [this]
    have : P * q + r + (s - r) = s + P * q := by omega
    rw [this, Nat.add_mul_mod_self_left, Nat.mod_eq_of_lt hs]
  · have : (s + P - r) % P = s + P - r := Nat.mod_eq_of_lt (by omega)
    rw [this]
    have : P * q + r + (s + P - r) = s + P * (q + 1) := by
      rw [Nat.mul_add, Nat.mul_one]; omega
    rw [this, Nat.add_mul_mod_self_left, Nat.mod_eq_of_lt hs]

/-- a counter whose true total went from `t` to `t' ≥ t` in less than one period, seen only modulo 2^w: `advance`
recovers `t'` -/
theorem advance_true (w t t' : Nat) (hle : t ≤ t') (hstep : t' - t < 2 ^ w) : advance t w (t' % 2 ^ w) = t' := by
  have hpos : 0 < 2 ^ w := by positivity
  obtain ⟨h1, h2, h3⟩ := advance_spec t w (t' % 2 ^ w) (Nat.mod_lt _ hpos)
  generalize advance t w (t' % 2 ^ w) = a at *
  have da := Nat.div_add_mod a (2 ^ w)
  have db := Nat.div_add_mod t' (2 ^ w)
  rw [h2] at da
  generalize 2 ^ w = P at *
  generalize a / P = qa at *
  generalize t' / P = qb at *
  generalize t' % P = r at *
  have hq : qa = qb := by
    by_contra hne
    rcases Nat.lt_or_gt_of_ne hne with hlt | hgt
    · have := Nat.mul_le_mul_left P (show qa + 1 ≤ qb from hlt)
      rw [Nat.mul_add, Nat.mul_one] at this
      generalize P * qa = x at *
      generalize P * qb = y at *
      omega
    · have := Nat.mul_le_mul_left P (show qb + 1 ≤ qa from hgt)
      rw [Nat.mul_add, Nat.mul_one] at this
      generalize P * qa = x at *
      generalize P * qb = y at *
      omega
  subst hq
  omega

/-- the totals the specification keeps over a list of samples, from total `T` -/
def runTotals (T w : Nat) : List Nat → List Nat
  | [] => []
  | s :: ss => advance T w s :: runTotals (advance T w s) w ss

/-- **running total of a wrapping counter**: true totals `t ≤ t₁ ≤ t₂ ≤ …`, each step shorter than the period 2^w,
observed modulo 2^w, are recovered exactly -/
theorem runTotals_true (w : Nat) : ∀ (ts : List Nat) (t : Nat), Fit.Accum.Steps w t ts →
    runTotals t w (ts.map (· % 2 ^ w)) = ts := by
  intro ts
  induction ts with
  | nil => intro t _; rfl
  | cons t' rest ih =>
    intro t hs
    obtain ⟨hle, hstep, hrest⟩ := hs
    simp only [List.map_cons, runTotals]
    rw [advance_true w t t' hle hstep, ih t' hrest]

/-- the accumulator table and the running totals agree on every key that accumulating components feed -/
def AccRel (t : Table) (a : Fit.Accum.Acc) (rs : Runs) : Prop :=
  ∀ m f, accInto t m f ≠ [] →
    (Fit.Accum.lookup a m f = none ∧ getRun rs m f = none) ∨
    (∃ e T, Fit.Accum.lookup a m f = some e ∧ getRun rs m f = some T ∧ e.value = T ∧ e.last < 2 ^ 32 ∧ T < 2 ^ 32 ∧
      ∀ c ∈ accInto t m f, e.last % 2 ^ c.bits = T % 2 ^ c.bits)

theorem accRel_nil (t : Table) : AccRel t [] [] := by
  intro m f _
  left; exact ⟨rfl, rfl⟩

/-- a sample of an accumulating component: `Accumulate` returns the specification's new total -/
theorem accRel_sample (t : Table) (a : Fit.Accum.Acc) (rs : Runs) (h : AccRel t a rs) (m : Nat) (c : Comp)
    (hc : c ∈ accInto t m c.fieldNum) (hrow : ∀ c' ∈ accInto t m c.fieldNum, c'.bits = c.bits) (hw : c.bits ≤ 32)
    (s : Nat) (hs : s < 2 ^ c.bits) (T : Nat) (rs' : Runs) (hsp : sample rs m c s = some (T, rs')) :
    (Fit.Accum.accumulate a m c.fieldNum s c.bits).1 = T ∧
      AccRel t (Fit.Accum.accumulate a m c.fieldNum s c.bits).2 rs' := by
  have hne : accInto t m c.fieldNum ≠ [] := List.ne_nil_of_mem hc
  have hs32 : s < 2 ^ 32 := lt_of_lt_of_le hs (Nat.pow_le_pow_right (by norm_num) hw)
  unfold sample at hsp
  have others : ∀ T', rs' = setRun rs m c.fieldNum T' → ∀ m' f', ¬ (m' = m ∧ f' = c.fieldNum) → accInto t m' f' ≠ [] →
      (Fit.Accum.lookup (Fit.Accum.accumulate a m c.fieldNum s c.bits).2 m' f' = none ∧ getRun rs' m' f' = none) ∨
      (∃ e T, Fit.Accum.lookup (Fit.Accum.accumulate a m c.fieldNum s c.bits).2 m' f' = some e ∧ getRun rs' m' f' = some T ∧
        e.value = T ∧ e.last < 2 ^ 32 ∧ T < 2 ^ 32 ∧ ∀ c ∈ accInto t m' f', e.last % 2 ^ c.bits = T % 2 ^ c.bits) := by
    intro T' hrs m' f' hk hacc
    rw [Fit.Accum.lookup_accumulate_ne a m c.fieldNum s c.bits m' f' hk, hrs, getRun_setRun_ne rs m c.fieldNum T' m' f' hk]
    exact h m' f' hacc
  rcases h m c.fieldNum hne with ⟨hl, hg⟩ | ⟨e, T0, hl, hg, hv, hl32, hT32, hcong⟩
  · -- first reading
    simp only [hg] at hsp
    rw [if_pos hs32] at hsp
    simp only [Option.some.injEq, Prod.mk.injEq] at hsp
    obtain ⟨rfl, hrs⟩ := hsp
    obtain ⟨h1, h2⟩ := Fit.Accum.accumulate_absent a m c.fieldNum s c.bits hl
    refine ⟨h1, ?_⟩
    intro m' f' hacc
    by_cases hk : m' = m ∧ f' = c.fieldNum
    · obtain ⟨rfl, rfl⟩ := hk
      right
      refine ⟨_, s, h2, by rw [← hrs]; exact getRun_setRun_same _ _ _ _, rfl, hs32, hs32, fun _ _ => rfl⟩
    · exact others s hrs.symm m' f' hk hacc
  · simp only [hg] at hsp
    by_cases hlt : advance T0 c.bits s < 2 ^ 32
    swap
    · rw [if_neg hlt] at hsp; cases hsp
    rw [if_pos hlt] at hsp
    simp only [Option.some.injEq, Prod.mk.injEq] at hsp
    obtain ⟨hT, hrs⟩ := hsp
    rw [hT] at hrs
    obtain ⟨h1, h2⟩ := Fit.Accum.accumulate_present a m c.fieldNum s c.bits e hl
    have hd := masked_delta c.bits s e.last T0 hw hs hl32 (hcong c hc)
    have hval : (e.value + ((s + Fit.Accum.U32 - e.last) % Fit.Accum.U32 &&& Fit.Accum.mask c.bits)) % Fit.Accum.U32 = T := by
      rw [hv, hd, hT]
      exact Nat.mod_eq_of_lt (by rw [← hT]; exact hlt)
    refine ⟨by rw [h1, hval], ?_⟩
    intro m' f' hacc
    by_cases hk : m' = m ∧ f' = c.fieldNum
    · obtain ⟨rfl, rfl⟩ := hk
      right
      refine ⟨_, T, h2, by rw [← hrs]; exact getRun_setRun_same _ _ _ _, hval, hs32, by rw [← hT]; exact hlt, ?_⟩
      intro c' hc'
      simp only
      rw [hrow c' hc', ← hT, (advance_spec T0 c.bits s hs).2.1, Nat.mod_eq_of_lt hs]
    · exact others T hrs.symm m' f' hk hacc

/-! ### seeding -/

theorem foldCollect_ne (m n : Nat) (xs : List Nat) (a : Fit.Accum.Acc) (m' f' : Nat) (h : ¬ (m' = m ∧ f' = n)) :
    Fit.Accum.lookup (xs.foldl (fun a x => Fit.Accum.collect a m n x) a) m' f' = Fit.Accum.lookup a m' f' := by
  induction xs generalizing a with
  | nil => rfl
  | cons x rest ih => simp only [List.foldl_cons]; rw [ih, Fit.Accum.lookup_collect_ne a m n x m' f' h]

theorem foldCollect_last (m n : Nat) (init : List Nat) (x : Nat) (a : Fit.Accum.Acc) :
    ∃ e, Fit.Accum.lookup ((init ++ [x]).foldl (fun a x => Fit.Accum.collect a m n x) a) m n = some e ∧
      e.last = x ∧ e.value = x := by
  rw [List.foldl_append]
  simp only [List.foldl_cons, List.foldl_nil]
  exact Fit.Accum.collect_lookup _ m n x

theorem reading_toU32 (v : Value) :
    match reading v with
    | none => toU32 v = []
    | some (some x) => x < 2 ^ 32 ∧ ∃ init, toU32 v = init ++ [x]
    | some none => True := by
  have lt8 : ∀ x : Nat, x % 2 ^ 8 < 2 ^ 32 := fun x => lt_of_lt_of_le (Nat.mod_lt _ (by positivity)) (by norm_num)
  have lt16 : ∀ x : Nat, x % 2 ^ 16 < 2 ^ 32 := fun x => lt_of_lt_of_le (Nat.mod_lt _ (by positivity)) (by norm_num)
  have lt32 : ∀ x : Nat, x % 2 ^ 32 < 2 ^ 32 := fun x => Nat.mod_lt _ (by positivity)
  have sl : ∀ (xs : List Nat) (g : Nat → Nat), (∀ x, g x < 2 ^ 32) →
      match xs.getLast?.map (fun x => some (g x)) with
      | none => xs.map g = []
      | some (some x) => x < 2 ^ 32 ∧ ∃ init, xs.map g = init ++ [x]
      | some none => True := by
    intro xs g hg
    rcases List.eq_nil_or_concat xs with rfl | ⟨init, y, rfl⟩
    · simp
    · rw [List.concat_eq_append]
      have hl : (init ++ [y]).getLast? = some y := by simp
      rw [hl]
      exact ⟨hg y, init.map g, by simp⟩
  cases v with
  | uint8 x => exact ⟨lt8 x, [], rfl⟩
  | uint16 x => exact ⟨lt16 x, [], rfl⟩
  | uint32 x => exact ⟨lt32 x, [], rfl⟩
  | sliceUint8 xs => exact sl xs (· % 2 ^ 8) lt8
  | sliceUint16 xs => exact sl xs (· % 2 ^ 16) lt16
  | sliceUint32 xs => exact sl xs (· % 2 ^ 32) lt32
  | _ => trivial

/-- a wire field seeds the totals: `Collect` of its (last) value is the specification's seed, as long as the
accumulating components into it count in the destination's own unit (outside the class of KF-C05-2) -/
theorem accRel_seed (t : Table) (a : Fit.Accum.Acc) (rs : Runs) (h : AccRel t a rs) (m : Nat) (f : Field) (rs' : Runs)
    (hsp : seedField t m rs f = some rs')
    (hunit : ∀ b, f.base = some b → ∀ c ∈ accInto t m b.num,
      c.scale = (destOf t m b.num).base.scale ∧ c.offset = (destOf t m b.num).base.offset) :
    AccRel t (match f.base with
      | some b => if b.accumulate then collectValues a m b.num f.value else a
      | none => a) rs' := by
  unfold seedField at hsp
  cases hb : f.base with
  | none => simp only [hb, Option.some.injEq] at hsp; subst hsp; exact h
  | some b =>
    simp only [hb] at hsp ⊢
    cases hacc : accInto t m b.num with
    | nil =>
      simp only [hacc, Option.some.injEq] at hsp
      subst hsp
      split_ifs
      · intro m' f' hne
        have hk : ¬ (m' = m ∧ f' = b.num) := by
          rintro ⟨rfl, rfl⟩; exact hne hacc
        unfold collectValues
        rw [foldCollect_ne m b.num _ a m' f' hk]
        exact h m' f' hne
      · exact h
    | cons c cs =>
      simp only [hacc] at hsp
      by_cases hrow : (!sameRow c cs || !b.accumulate) = true
      · rw [if_pos hrow] at hsp; cases hsp
      rw [if_neg hrow] at hsp
      have hflag : b.accumulate = true := by
        simp only [Bool.or_eq_true, Bool.not_eq_true', not_or, Bool.not_eq_false] at hrow
        exact hrow.2
      simp only [hflag, if_true]
      have hrd := reading_toU32 f.value
      have others : ∀ T', rs' = setRun rs m b.num T' → ∀ m' f', ¬ (m' = m ∧ f' = b.num) → accInto t m' f' ≠ [] →
          (Fit.Accum.lookup (collectValues a m b.num f.value) m' f' = none ∧ getRun rs' m' f' = none) ∨
          (∃ e T, Fit.Accum.lookup (collectValues a m b.num f.value) m' f' = some e ∧ getRun rs' m' f' = some T ∧
            e.value = T ∧ e.last < 2 ^ 32 ∧ T < 2 ^ 32 ∧ ∀ c ∈ accInto t m' f', e.last % 2 ^ c.bits = T % 2 ^ c.bits) := by
        intro T' hrs m' f' hk hne
        unfold collectValues
        rw [foldCollect_ne m b.num _ a m' f' hk, hrs, getRun_setRun_ne rs m b.num T' m' f' hk]
        exact h m' f' hne
      cases hr : reading f.value with
      | none =>
        simp only [hr, Option.some.injEq] at hsp hrd
        subst hsp
        unfold collectValues; rw [hrd]; exact h
      | some o =>
        cases o with
        | none => simp only [hr] at hsp; cases hsp
        | some v =>
          simp only [hr] at hsp hrd
          obtain ⟨hv32, init, hinit⟩ := hrd
          cases hseed : seed v c.scale c.offset (destOf t m b.num).base.scale (destOf t m b.num).base.offset with
          | none => simp only [hseed] at hsp; cases hsp
          | some T =>
            simp only [hseed, Option.some.injEq] at hsp
            obtain ⟨hs1, hs2⟩ := hunit b hb c (by rw [hacc]; simp)
            have hT : T = v := by
              unfold seed at hseed
              rw [← hs1, ← hs2] at hseed
              exact Fit.C05L.exactValue_same v c.scale c.offset T hseed
            subst hT
            intro m' f' hne
            by_cases hk : m' = m ∧ f' = b.num
            · obtain ⟨rfl, rfl⟩ := hk
              right
              obtain ⟨e, he, h1, h2⟩ := foldCollect_last m' b.num init T a
              refine ⟨e, T, by unfold collectValues; rw [hinit]; exact he, by rw [← hsp]; exact getRun_setRun_same _ _ _ _,
                h2, by rw [h1]; exact hv32, hv32, fun _ _ => by rw [h1]⟩
            · exact others T hsp.symm m' f' hk hne

/-! ### the component loop -/

/-- `c` is a component of a field or sub-field of message `mesg` in the table -/
def Reach (t : Table) (mesg : Nat) (c : Comp) : Prop :=
  ∃ e, (t.filter (·.1 == mesg)).head? = some e ∧ c ∈ e.2.flatMap allComps

/-- what the refinement needs of the profile: widths of at most 32 bits (a uint32 is pulled), and one width per
accumulated destination -/
def CompOK (t : Table) (mesg : Nat) (c : Comp) : Prop :=
  c.bits ≤ 32 ∧ (c.accumulate = true → ∀ c' ∈ accInto t mesg c.fieldNum, c'.bits = c.bits)

theorem reach_acc (t : Table) (mesg : Nat) (c : Comp) (h : Reach t mesg c) (ha : c.accumulate = true) :
    c ∈ accInto t mesg c.fieldNum := by
  obtain ⟨e, he, hc⟩ := h
  unfold accInto
  rw [he]
  exact List.mem_filter.mpr ⟨hc, by simp [ha]⟩

theorem reach_of_fieldOf (t : Table) (mesg n : Nat) (fl : Fld) (h : fieldOf t mesg n = some fl) :
    ∀ c ∈ allComps fl, Reach t mesg c := by
  intro c hc
  unfold fieldOf at h
  cases he : (t.filter (·.1 == mesg)).head? with
  | none => simp [he] at h
  | some e =>
    simp only [he, Option.bind_some] at h
    have hmem : fl ∈ e.2 := by
      have := List.mem_of_mem_head? h
      exact (List.mem_filter.mp this).1
    exact ⟨e, he, List.mem_flatMap.mpr ⟨fl, hmem, hc⟩⟩

theorem reach_dest (t : Table) (mesg n : Nat) :
    (∀ c ∈ (destOf t mesg n).comps, Reach t mesg c) ∧
      (∀ sf ∈ (destOf t mesg n).subs, ∀ c ∈ sf.comps, Reach t mesg c) := by
  unfold destOf
  cases h : fieldOf t mesg n with
  | none => simp
  | some fl =>
    simp only
    constructor
    · intro c hc; exact reach_of_fieldOf t mesg n fl h c (List.mem_append_left _ hc)
    · intro sf hsf c hc
      exact reach_of_fieldOf t mesg n fl h c (List.mem_append_right _ (List.mem_flatMap.mpr ⟨sf, hsf, hc⟩))

theorem subFieldOf_mem (fields : List Field) (subs : List SubF) (sf : SubF) (h : subFieldOf fields subs = some sf) :
    sf ∈ subs := by
  unfold subFieldOf at h
  exact (List.mem_filter.mp (List.mem_of_mem_head? h)).1

theorem reach_compsOf (t : Table) (mesg : Nat) (fields : List Field) (f : Field) :
    ∀ c ∈ compsOf t mesg fields f, Reach t mesg c := by
  intro c hc
  unfold compsOf at hc
  cases hb : f.base with
  | none => simp [hb] at hc
  | some b =>
    simp only [hb] at hc
    cases hl : fieldOf t mesg b.num with
    | none => simp [hl] at hc
    | some fl =>
      simp only [hl] at hc
      split at hc
      · rename_i sf hsf
        exact reach_of_fieldOf t mesg b.num fl hl c
          (List.mem_append_right _ (List.mem_flatMap.mpr ⟨sf, subFieldOf_mem _ _ _ hsf, hc⟩))
      · exact reach_of_fieldOf t mesg b.num fl hl c (List.mem_append_left _ hc)

/-- the model state and the specification state carry the same fields and related tables -/
def Rel (t : Table) (st : St) (s : S) : Prop := st.fields = s.fields ∧ AccRel t st.acc s.runs

/-- the components the destination just written expands with -/
def nextComps (fields : List Field) (d : Dest) : List Comp :=
  match subFieldOf fields d.subs with
  | some sf => sf.comps
  | none => d.comps

/-- the value written for a slice or total `T` -/
def valueOf (cv : CV) (c : Comp) (d : Dest) (T : Nat) : Value :=
  convertU32 (cv T c.scale c.offset d.base.scale d.base.offset) d.base.baseType

/-- one iteration of the component loop of the code, written with the specification's look-ups -/
theorem compLoop_cons_spec (cv : CV) (t : Table) (mesg fuel : Nat) (multi : Bool) (st : St) (ws : List Nat) (c : Comp)
    (rest : List Comp) :
    compLoop cv t mesg fuel multi st ws (c :: rest) =
      if (Fit.Bits.pull ws c.bits).1 = 0 ∧ multi = true then st
      else
        compLoop cv t mesg fuel multi
          (expandComponents cv t mesg fuel
            ⟨(if c.accumulate then Fit.Accum.accumulate st.acc mesg c.fieldNum (Fit.Bits.pull ws c.bits).1 c.bits
                else ((Fit.Bits.pull ws c.bits).1, st.acc)).2,
              put st.fields c.fieldNum (destOf t mesg c.fieldNum) (valueOf cv c (destOf t mesg c.fieldNum)
                (if c.accumulate then Fit.Accum.accumulate st.acc mesg c.fieldNum (Fit.Bits.pull ws c.bits).1 c.bits
                  else ((Fit.Bits.pull ws c.bits).1, st.acc)).1)⟩
            (valueOf cv c (destOf t mesg c.fieldNum)
              (if c.accumulate then Fit.Accum.accumulate st.acc mesg c.fieldNum (Fit.Bits.pull ws c.bits).1 c.bits
                else ((Fit.Bits.pull ws c.bits).1, st.acc)).1)
            (destOf t mesg c.fieldNum).base.baseType
            (nextComps (put st.fields c.fieldNum (destOf t mesg c.fieldNum) (valueOf cv c (destOf t mesg c.fieldNum)
                (if c.accumulate then Fit.Accum.accumulate st.acc mesg c.fieldNum (Fit.Bits.pull ws c.bits).1 c.bits
                  else ((Fit.Bits.pull ws c.bits).1, st.acc)).1)) (destOf t mesg c.fieldNum)))
          (Fit.Bits.pull ws c.bits).2 rest := by
  rw [compLoop_cons_eq]
  obtain ⟨d1, d2, d3⟩ := destOf_eq t mesg c.fieldNum
  simp only [nextComps, valueOf, put_eq, subFieldOf_eq, d1, d2, d3]
  rfl

/-- one step of the specification's slices -/
theorem slices_cons (cv : CV) (t : Table) (mesg fuel : Nat) (multi : Bool) (s : S) (n off : Nat) (c : Comp)
    (rest : List Comp) :
    slices cv t mesg fuel multi s n off (c :: rest) =
      if sliceAt n off c.bits = 0 ∧ multi = true then some s
      else
        (if c.accumulate then sample s.runs mesg c (sliceAt n off c.bits) else some (sliceAt n off c.bits, s.runs)).bind
          fun p =>
            (expandValue cv t mesg fuel
              ⟨p.2, put s.fields c.fieldNum (destOf t mesg c.fieldNum) (valueOf cv c (destOf t mesg c.fieldNum) p.1)⟩
              (valueOf cv c (destOf t mesg c.fieldNum) p.1) (destOf t mesg c.fieldNum).base.baseType
              (nextComps (put s.fields c.fieldNum (destOf t mesg c.fieldNum) (valueOf cv c (destOf t mesg c.fieldNum) p.1))
                (destOf t mesg c.fieldNum))).bind
              fun s1 => slices cv t mesg fuel multi s1 n (off + c.bits) rest := by
  rw [slices_cons_eq]
  simp only
  by_cases h1 : sliceAt n off c.bits = 0 ∧ multi = true
  · rw [if_pos h1, if_pos h1]
  · rw [if_neg h1, if_neg h1]
    generalize (if c.accumulate then sample s.runs mesg c (sliceAt n off c.bits) else some (sliceAt n off c.bits, s.runs)) = o
    cases o with
    | none => rfl
    | some p =>
      obtain ⟨T, runs⟩ := p
      simp only [Option.bind_some]
      unfold nextComps valueOf
      cases expandValue cv t mesg fuel _ _ _ _ <;> rfl

section sim
variable (cv : CV) (t : Table) (mesg : Nat) (hP : ∀ c, Reach t mesg c → CompOK t mesg c)
include hP

theorem loop_of_expand (fuel : Nat)
    (hE : ∀ (st : St) (s : S) (v : Value) (bt : Nat) (comps : List Comp) (s' : S), Rel t st s →
      (∀ c ∈ comps, Reach t mesg c) → expandValue cv t mesg fuel s v bt comps = some s' →
      Rel t (expandComponents cv t mesg fuel st v bt comps) s') :
    ∀ (comps : List Comp) (multi : Bool) (st : St) (s : S) (ws : List Nat) (n off : Nat) (s' : S), Rel t st s →
      (∀ c ∈ comps, Reach t mesg c) → BitsRel ws n off → slices cv t mesg fuel multi s n off comps = some s' →
      Rel t (compLoop cv t mesg fuel multi st ws comps) s' := by
  intro comps
  induction comps with
  | nil =>
    intro multi st s ws n off s' hrel _ _ hs
    rw [slices_nil_eq] at hs
    rw [compLoop_nil_eq]
    cases hs; exact hrel
  | cons c rest ih =>
    intro multi st s ws n off s' hrel hreach hbits hs
    have hc : Reach t mesg c := hreach c (by simp)
    have hrest : ∀ c' ∈ rest, Reach t mesg c' := fun c' hc' => hreach c' (by simp [hc'])
    obtain ⟨hw, hrow⟩ := hP c hc
    obtain ⟨hpull, hbits'⟩ := bitsRel_pull ws n off c.bits hbits hw
    obtain ⟨hf, hacc⟩ := hrel
    rw [slices_cons] at hs
    rw [compLoop_cons_spec]
    simp only [hpull]
    by_cases hbrk : sliceAt n off c.bits = 0 ∧ multi = true
    · rw [if_pos hbrk] at hs ⊢
      cases hs; exact ⟨hf, hacc⟩
    · rw [if_neg hbrk] at hs ⊢
      have hlt : sliceAt n off c.bits < 2 ^ c.bits := Nat.mod_lt _ (by positivity)
      obtain ⟨⟨T, runs⟩, hsm, hs2⟩ := Option.bind_eq_some_iff.mp hs
      obtain ⟨s1, hex, hs3⟩ := Option.bind_eq_some_iff.mp hs2
      -- the value handed to the arithmetic and the tables after it
      have hav : (if c.accumulate then Fit.Accum.accumulate st.acc mesg c.fieldNum (sliceAt n off c.bits) c.bits
            else (sliceAt n off c.bits, st.acc)).1 = T ∧
          AccRel t (if c.accumulate then Fit.Accum.accumulate st.acc mesg c.fieldNum (sliceAt n off c.bits) c.bits
            else (sliceAt n off c.bits, st.acc)).2 runs := by
        by_cases ha : c.accumulate = true
        · simp only [ha, if_true] at hsm ⊢
          exact accRel_sample t st.acc s.runs hacc mesg c (reach_acc t mesg c hc ha) (hrow ha) hw _ hlt T runs hsm
        · simp only [ha, Bool.false_eq_true, if_false, Option.some.injEq, Prod.mk.injEq] at hsm ⊢
          obtain ⟨rfl, rfl⟩ := hsm
          exact ⟨rfl, hacc⟩
      obtain ⟨e2, e3⟩ := hav
      rw [e2, hf]
      simp only at hex
      have hreach' : ∀ c' ∈ nextComps (put s.fields c.fieldNum (destOf t mesg c.fieldNum) (valueOf cv c (destOf t mesg c.fieldNum) T))
          (destOf t mesg c.fieldNum), Reach t mesg c' := by
        intro c' hc'
        unfold nextComps at hc'
        obtain ⟨g1, g2⟩ := reach_dest t mesg c.fieldNum
        split at hc'
        · rename_i sf hsf; exact g2 sf (subFieldOf_mem _ _ _ hsf) c' hc'
        · exact g1 c' hc'
      have hrel1 := hE ⟨_, _⟩ ⟨runs, _⟩ _ _ _ s1 ⟨rfl, e3⟩ hreach' hex
      exact ih multi _ s1 _ n (off + c.bits) s' hrel1 hrest hbits' hs3

omit hP in
theorem expand_of_loop (fuel : Nat)
    (hL : ∀ (comps : List Comp) (multi : Bool) (st : St) (s : S) (ws : List Nat) (n off : Nat) (s' : S), Rel t st s →
      (∀ c ∈ comps, Reach t mesg c) → BitsRel ws n off → slices cv t mesg fuel multi s n off comps = some s' →
      Rel t (compLoop cv t mesg fuel multi st ws comps) s') :
    ∀ (st : St) (s : S) (v : Value) (bt : Nat) (comps : List Comp) (s' : S), Rel t st s →
      (∀ c ∈ comps, Reach t mesg c) → expandValue cv t mesg (fuel + 1) s v bt comps = some s' →
      Rel t (expandComponents cv t mesg (fuel + 1) st v bt comps) s' := by
  intro st s v bt comps s' hrel hreach hs
  rw [expandValue_succ_eq] at hs
  rw [expandComponents_succ_eq]
  by_cases h1 : comps.isEmpty = true
  · rw [if_pos h1] at hs ⊢; cases hs; exact hrel
  rw [if_neg h1] at hs ⊢
  by_cases h2 : (!valid v bt) = true
  · rw [if_pos h2] at hs ⊢; cases hs; exact hrel
  rw [if_neg h2] at hs ⊢
  cases hc : container v with
  | noBits =>
    rw [hc] at hs
    rw [container_noBits v hc]
    cases hs; exact hrel
  | unknown => rw [hc] at hs; cases hs
  | bits n =>
    rw [hc] at hs
    obtain ⟨ws, hm, hb⟩ := container_bits v n hc
    rw [hm]
    exact hL comps _ st s ws n 0 s' hrel hreach hb hs

/-- **the code's expansion of one containing value refines the specification's** -/
theorem expand_refines (fuel : Nat) :
    ∀ (st : St) (s : S) (v : Value) (bt : Nat) (comps : List Comp) (s' : S), Rel t st s →
      (∀ c ∈ comps, Reach t mesg c) → expandValue cv t mesg fuel s v bt comps = some s' →
      Rel t (expandComponents cv t mesg fuel st v bt comps) s' := by
  induction fuel with
  | zero =>
    intro st s v bt comps s' hrel _ hs
    rw [expandValue_zero_eq] at hs
    rw [expandComponents_zero_eq]
    cases hs; exact hrel
  | succ f ih => exact expand_of_loop cv t mesg f (loop_of_expand cv t mesg hP f ih)

/-- the loop over the wire positions -/
theorem expandAll_refines :
    ∀ (k i : Nat) (st : St) (s s' : S), Rel t st s → expandFields cv t mesg s k i = some s' →
      Rel t (expandAll cv t mesg st k i) s' := by
  intro k
  induction k with
  | zero =>
    intro i st s s' hrel hs
    rw [expandFields] at hs
    rw [expandAll]
    cases hs; exact hrel
  | succ k ih =>
    intro i st s s' hrel hs
    rw [expandFields] at hs
    rw [expandAll]
    obtain ⟨hf, hacc⟩ := hrel
    rw [hf]
    cases hfi : s.fields[i]? with
    | none => rw [hfi] at hs; cases hs; exact ⟨hf, hacc⟩
    | some f =>
      rw [hfi] at hs
      simp only at hs ⊢
      cases hex : expandValue cv t mesg depth s f.value ((f.base.map (·.baseType)).getD 0) (compsOf t mesg s.fields f) with
      | none => rw [hex] at hs; cases hs
      | some s1 =>
        rw [hex] at hs
        simp only at hs
        have h1 := expand_refines cv t mesg hP depth st s f.value _ _ s1 ⟨hf, hacc⟩ (reach_compsOf t mesg s.fields f) hex
        rw [compsOf_eq] at h1
        exact ih (i + 1) _ s1 s' h1 hs

end sim

/-! ### messages and sequences -/

/-- every component of the table is at most 32 bits wide and every accumulated destination has one width -/
def TableOK (t : Table) : Prop := ∀ mesg c, Reach t mesg c → CompOK t mesg c

/-- no accumulating component into a wire field of the message counts in another unit than the field -/
def SameUnit (t : Table) (m : Message) : Prop :=
  ∀ f ∈ m.fields, ∀ b, f.base = some b → ∀ c ∈ accInto t m.num b.num,
    c.scale = (destOf t m.num b.num).base.scale ∧ c.offset = (destOf t m.num b.num).base.offset

/-- the decidable form of `TableOK` (evaluated on the regenerated profile) -/
def tableOK (t : Table) : Bool :=
  t.all fun e => (e.2.flatMap allComps).all fun c =>
    decide (c.bits ≤ 32) && (!c.accumulate || (accInto t e.1 c.fieldNum).all fun c' => c'.bits == c.bits)

theorem tableOK_spec (t : Table) (h : tableOK t = true) : TableOK t := by
  intro mesg c ⟨e, he, hc⟩
  have hmem := List.mem_of_mem_head? he
  obtain ⟨het, hnum⟩ := List.mem_filter.mp hmem
  have hnum : e.1 = mesg := by simpa using hnum
  unfold tableOK at h
  have h1 := (List.all_eq_true.mp h) e het
  have h2 := (List.all_eq_true.mp h1) c hc
  simp only [Bool.and_eq_true, decide_eq_true_eq, Bool.or_eq_true, Bool.not_eq_true'] at h2
  refine ⟨h2.1, fun ha c' hc' => ?_⟩
  rcases h2.2 with h3 | h3
  · rw [ha] at h3; cases h3
  · rw [hnum] at h3
    have := (List.all_eq_true.mp h3) c' hc'
    simpa using this

theorem sameUnit_of (t : Table) (ms : List Message) (h : seedsOtherUnit t ms = false) : ∀ m ∈ ms, SameUnit t m := by
  intro m hm f hf b hb c hc
  unfold seedsOtherUnit at h
  rw [List.any_eq_false] at h
  have h1 := h m hm
  rw [Bool.not_eq_true, List.any_eq_false] at h1
  have h2 := h1 f hf
  simp only [hb] at h2
  rw [Bool.not_eq_true, List.any_eq_false] at h2
  have h3 := h2 c hc
  simpa using h3

theorem seedAll_refines (t : Table) (mesg : Nat) :
    ∀ (fs : List Field) (a : Fit.Accum.Acc) (rs rs' : Runs), AccRel t a rs → seedAll t mesg rs fs = some rs' →
      (∀ f ∈ fs, ∀ b, f.base = some b → ∀ c ∈ accInto t mesg b.num,
        c.scale = (destOf t mesg b.num).base.scale ∧ c.offset = (destOf t mesg b.num).base.offset) →
      AccRel t (fs.foldl (fun a f =>
        match f.base with
        | some b => if b.accumulate then collectValues a mesg b.num f.value else a
        | none => a) a) rs' := by
  intro fs
  induction fs with
  | nil => intro a rs rs' h hs _; rw [seedAll] at hs; cases hs; exact h
  | cons f rest ih =>
    intro a rs rs' h hs hu
    rw [seedAll] at hs
    cases h1 : seedField t mesg rs f with
    | none => rw [h1] at hs; cases hs
    | some rs1 =>
      rw [h1] at hs
      simp only at hs
      simp only [List.foldl_cons]
      exact ih _ rs1 rs' (accRel_seed t a rs h mesg f rs1 h1 (hu f (by simp))) hs
        (fun f' hf' => hu f' (by simp [hf']))

/-- **one message**: the tail of `decodeFields` computes what the specification demands -/
theorem tail_refines (cv : CV) (t : Table) (hT : TableOK t) (acc : Fit.Accum.Acc) (rs rs' : Runs) (m m' : Message)
    (h : AccRel t acc rs) (hu : SameUnit t m) (hs : specTail cv t rs m = some (rs', m')) :
    (decodeTail cv t true acc m).2 = m' ∧ AccRel t (decodeTail cv t true acc m).1 rs' := by
  unfold specTail at hs
  cases h1 : seedAll t m.num rs m.fields with
  | none => rw [h1] at hs; cases hs
  | some rs1 =>
    rw [h1] at hs
    simp only at hs
    cases h2 : expandFields cv t m.num ⟨rs1, m.fields⟩ m.fields.length 0 with
    | none => rw [h2] at hs; cases hs
    | some s =>
      rw [h2] at hs
      simp only [Option.some.injEq, Prod.mk.injEq] at hs
      obtain ⟨hr, hm⟩ := hs
      have hseed := seedAll_refines t m.num m.fields acc rs rs1 h h1 hu
      have hrel := expandAll_refines cv t m.num (hT m.num) m.fields.length 0
        ⟨_, m.fields⟩ ⟨rs1, m.fields⟩ s ⟨rfl, hseed⟩ h2
      unfold decodeTail
      simp only [Bool.not_true, Bool.false_eq_true, if_false]
      obtain ⟨g1, g2⟩ := hrel
      refine ⟨?_, by rw [← hr]; exact g2⟩
      rw [← hm]
      exact congrArg (fun fs => ({ m with fields := fs } : Message)) g1

/-- **one sequence** -/
theorem seq_refines (cv : CV) (t : Table) (hT : TableOK t) :
    ∀ (ms : List Message) (acc : Fit.Accum.Acc) (rs : Runs) (done out : List Message), AccRel t acc rs →
      (∀ m ∈ ms, SameUnit t m) → specSeqFrom cv t rs ms = some out →
      (ms.foldl (fun (s : Fit.Accum.Acc × List Message) m =>
        let r := decodeTail cv t true s.1 m
        (r.1, s.2 ++ [r.2])) (acc, done)).2 = done ++ out := by
  intro ms
  induction ms with
  | nil => intro acc rs done out _ _ hs; rw [specSeqFrom] at hs; cases hs; simp
  | cons m rest ih =>
    intro acc rs done out h hu hs
    rw [specSeqFrom] at hs
    cases h1 : specTail cv t rs m with
    | none => rw [h1] at hs; cases hs
    | some p =>
      obtain ⟨rs1, m1⟩ := p
      rw [h1] at hs
      simp only at hs
      cases h2 : specSeqFrom cv t rs1 rest with
      | none => rw [h2] at hs; cases hs
      | some out1 =>
        rw [h2] at hs
        simp only [Option.some.injEq] at hs
        obtain ⟨g1, g2⟩ := tail_refines cv t hT acc rs rs1 m m1 h (hu m (by simp)) h1
        simp only [List.foldl_cons]
        rw [ih _ rs1 _ out1 g2 (fun m' hm' => hu m' (by simp [hm'])) h2, g1, ← hs]
        simp

/-- **the refinement theorem**: outside the class of KF-C05-2, wherever the specification determines the expansion
of a sequence of messages, the model of the decoder computes exactly that — whatever the arithmetic `cv` -/
theorem decodeSeq_refines (cv : CV) (t : Table) (hT : TableOK t) (ms out : List Message)
    (hk : seedsOtherUnit t ms = false) (hs : specSeq cv t ms = some out) : decodeSeq cv t true ms = out := by
  unfold decodeSeq
  have := seq_refines cv t hT ms [] [] [] out (accRel_nil t) (sameUnit_of t ms hk) hs
  simpa using this

end Fit.ExpandSpec
