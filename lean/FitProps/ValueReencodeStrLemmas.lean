import FitProps.ValueReencodeLemmas
import FitProps.Utf8IdemLemmas
/-! Helper lemmas (C06): what `UnmarshalValue` returned for the STRING base type re-marshals and reads back as itself
(`utf8String` returns NUL-free clean UTF-8: `Fit.Utf8.Good`), completing `unmarshal_reencode` to every base type. -/
namespace Fit.Value
open Fit.Gen Fit.Utf8

theorem strBytes_nulFree (s : List Nat) (h : ∀ x ∈ s, x ≠ 0) : strBytes s = s ++ [0] := by
  unfold strBytes
  split
  · rfl
  · rename_i hc
    simp only [Bool.or_eq_true, List.isEmpty_iff, bne_iff_ne, ne_eq, not_or, Decidable.not_not] at hc
    obtain ⟨ys, hys⟩ := List.getLast?_eq_some_iff.mp hc.2
    exact absurd rfl (h 0 (by rw [hys]; simp))

theorem pieces_of_nulFree (vs : List (List Nat)) (h : ∀ s ∈ vs, ∀ b ∈ s, b ≠ 0) :
    pieces vs = vs.filter fun s => !s.isEmpty := by
  have hs : ∀ s : List Nat, (∀ b ∈ s, b ≠ 0) → ∀ cur, splitNul cur (s ++ [0]) = [cur ++ s] := by
    intro s
    induction s with
    | nil => intro _ cur; simp [splitNul]
    | cons x xs ih =>
      intro hx cur
      have hx0 : x ≠ 0 := hx x (by simp)
      simp only [List.cons_append, splitNul, hx0, ↓reduceIte]
      rw [ih (fun b hb => hx b (List.mem_cons_of_mem _ hb))]
      simp
  have hp : ∀ s ∈ vs, splitNul [] (strBytes s) = [s] := by
    intro s hsm
    rw [strBytes_nulFree s (h s hsm), hs s (h s hsm) []]; rfl
  have hflat : ∀ (l : List (List Nat)), (∀ s ∈ l, splitNul [] (strBytes s) = [s]) →
      l.flatMap (fun s => splitNul [] (strBytes s)) = l := by
    intro l
    induction l with
    | nil => intro _; rfl
    | cons x xs ih =>
      intro hl
      simp only [List.flatMap_cons]
      rw [hl x (by simp), ih (fun s hs => hl s (List.mem_cons_of_mem _ hs))]
      rfl
  simp only [pieces, hflat vs hp]

theorem good_cleanStr (c : List Nat) (h : Good c) : cleanStr c = true := by
  obtain ⟨_, _, gv, gf⟩ := h
  have h1 : Fit.Utf8.valid c = true := gv _ (Nat.le_refl _)
  have h2 : Fit.Utf8.hasFFFD c = false := gf _ (Nat.le_refl _)
  simp only [cleanStr, h1, h2, Bool.not_false, Bool.and_self]

/-- what the string-array read returns: non-empty, NUL-free, clean strings -/
theorem unmarshalStrings_good (bs : List Nat) (hb : Bytes bs) : ∀ o ∈ unmarshalStrings bs, Good o ∧ o ≠ [] := by
  intro o ho
  simp only [unmarshalStrings, List.mem_filter, List.mem_map, Bool.not_eq_true', List.isEmpty_eq_false_iff] at ho
  obtain ⟨⟨seg, ⟨hseg, _⟩, rfl⟩, hne⟩ := ho
  have := splitNul_pieces bs [] (by intro b hb; cases hb) (by intro b hb; cases hb) hb seg hseg
  exact ⟨utf8String_good seg this.2, hne⟩

theorem unmarshalStrings_idem (bs : List Nat) (hb : Bytes bs) :
    unmarshalStrings (if (unmarshalStrings bs).isEmpty then [0] else (unmarshalStrings bs).flatMap strBytes) = unmarshalStrings bs := by
  have hg := unmarshalStrings_good bs hb
  have hnz : ∀ s ∈ unmarshalStrings bs, ∀ b ∈ s, b ≠ 0 := fun s hs => (hg s hs).1.2.1
  have hp : pieces (unmarshalStrings bs) = unmarshalStrings bs := by
    rw [pieces_of_nulFree _ hnz]
    apply List.filter_eq_self.mpr
    intro s hs
    simpa [List.isEmpty_iff] using (hg s hs).2
  have := unmarshalStrings_marshal (unmarshalStrings bs) (fun s hs => (hg s hs).1.1)
    (by rw [hp]; exact List.all_eq_true.mpr (fun s hs => good_cleanStr s (hg s hs).1))
  rw [this, hp]

theorem utf8String_reread (bs : List Nat) (hb : Bytes bs) : utf8String (strBytes (utf8String bs)) = utf8String bs := by
  rw [strBytes_nulFree _ (utf8String_good bs hb).2.1]
  exact utf8String_idem bs hb []

attribute [local simp] btEnum btSint8 btByte btUint8 btUint8z btSint16 btUint16 btUint16z btSint32 btUint32 btUint32z
  btSint64 btUint64 btUint64z btFloat32 btFloat64 btString in
/-- `unmarshal_reencode` for EVERY base type, strings included -/
theorem unmarshal_reencode_all (bs : List Nat) (a a' bt : Nat) (isBool isArray : Bool) (v : Value)
    (hb : ∀ b ∈ bs, b < 256) (h : unmarshal bs a bt isBool isArray = .ok v) :
    ∃ bs', marshal v a' = some bs' ∧ unmarshal bs' a' bt isBool isArray = .ok v := by
  by_cases hs : bt = btString
  · subst hs
    cases isArray
    · simp [unmarshal] at h
      subst h
      exact ⟨_, rfl, by simp [unmarshal, utf8String_reread bs hb]⟩
    · simp [unmarshal] at h
      subst h
      refine ⟨_, rfl, ?_⟩
      have := unmarshalStrings_idem bs hb
      simp only [List.isEmpty_iff] at this
      simp [unmarshal, this]
  · exact unmarshal_reencode bs a a' bt isBool isArray v hb hs h

end Fit.Value
