import FitModel.FileDefContent
import FitProps.FileDefLemmas
import FitProps.TypedLemmas
/-! The file types on real protocol messages (`FitModel/FileDefContent.lean`) are the generic file-type layer at the
carrier `msgC`, whose `norm` is C13's `typedNormal`: storing `ofMesg T m` and emitting `toMesg T fac o st` is the same
as normalising the message when it is added (`toMesg_ofMesg`, the C13 theorem). Core Lean only. -/
namespace Fit.FileDef.Content
open Fit.Msg Fit.Typed Fit.Value Fit.Gen Fit.FileDef.Generated

/-- every regenerated `mesgdef` table is well formed (`C13_tables_wf`, taken as a hypothesis here and discharged in
`FitProps/C14.lean`) -/
def TablesWF : Prop := ∀ T ∈ Mesgdef.tables, T.wf = true

theorem tableOf_mem {n : Nat} {T : MesgTable} (h : tableOf n = some T) : T ∈ Mesgdef.tables ∧ T.num = n := by
  unfold tableOf at h
  exact ⟨List.mem_of_find?_eq_some h, by simpa using List.find?_some h⟩

theorem typedTable_mem {FT : FileType} {n : Nat} {T : MesgTable} (h : typedTable FT n = some T) :
    T ∈ Mesgdef.tables ∧ T.num = n ∧ (slotOf FT n).isSome = true := by
  unfold typedTable at h
  split at h
  · rename_i s hs
    exact ⟨(tableOf_mem h).1, (tableOf_mem h).2, by rw [hs]; rfl⟩
  · cases h

theorem typedTable_none_of_no_slot {FT : FileType} {n : Nat} (h : slotOf FT n = none) : typedTable FT n = none := by
  unfold typedTable; rw [h]

theorem emitS_num (fac : Nat → Nat → Field) (o : Options) (x : Stored) : (emitS fac o x).num = x.num := by
  cases x <;> rfl

theorem typedNormal_num (T : MesgTable) (fac : Nat → Field) (o : Options) (m : Message) :
    (typedNormal T fac o m).num = T.num := rfl

theorem normC_num (fac : Nat → Nat → Field) (o : Options) (FT : FileType) (m : Message) :
    (normC fac o FT m).num = m.num := by
  unfold normC
  split
  · rename_i T hT
    rw [typedNormal_num]; exact (typedTable_mem hT).2.1
  · rfl

theorem defaultC_num (fac : Nat → Nat → Field) (o : Options) (n : Nat) : (defaultC fac o n).num = n := by
  unfold defaultC
  split
  · rename_i T hT
    exact (tableOf_mem hT).2
  · rfl

theorem msgC_lawful (fac : Nat → Nat → Field) (o : Options) : (msgC fac o).Lawful :=
  ⟨fun FT m => normC_num fac o FT m, fun _ n => defaultC_num fac o n⟩

/-! ### `ToFIT` of the code-shaped model = `toFIT` of the generic layer on the converted messages -/

theorem map_filter_num (fac : Nat → Nat → Field) (o : Options) (p : Nat → Bool) (f : List Stored) :
    (f.filter (fun x => p x.num)).map (emitS fac o) = (f.map (emitS fac o)).filter (fun m => p m.num) := by
  induction f with
  | nil => rfl
  | cons x xs ih =>
    simp only [List.filter_cons, List.map_cons, emitS_num]
    split <;> simp [ih]

theorem slotMsgsC_eq (fac : Nat → Nat → Field) (o : Options) (FT : FileType) (f : List Stored) (s : FileDef.Slot) :
    slotMsgsC fac o f s = G.slotMsgs (msgC fac o) FT (f.map (emitS fac o)) s := by
  unfold slotMsgsC G.slotMsgs
  have := map_filter_num fac o (fun n => n == s.num) f
  simp only [this]
  rfl

theorem toFITC_eq (fac : Nat → Nat → Field) (o : Options) (FT : FileType) (f : List Stored) :
    toFITC fac o FT f = G.toFIT (msgC fac o) FT (f.map (emitS fac o)) := by
  unfold toFITC G.toFIT G.groups G.unrelated
  have h1 : FT.slots.map (slotMsgsC fac o f) = FT.slots.map (G.slotMsgs (msgC fac o) FT (f.map (emitS fac o))) :=
    List.map_congr_left (fun s _ => slotMsgsC_eq fac o FT f s)
  have h2 := map_filter_num fac o (fun n => (slotOf FT n).isNone) f
  simp only [h1, h2]
  rfl

/-! ### `Add` -/

theorem addS_map (fac : Nat → Nat → Field) (o : Options) (FT : FileType) (f : List Stored) (x : Stored) :
    (addS FT f x).map (emitS fac o) = G.addN (msgC fac o) FT (f.map (emitS fac o)) (emitS fac o x) := by
  unfold addS G.addN
  have hn : (msgC fac o).num (emitS fac o x) = x.num := emitS_num fac o x
  simp only [hn]
  split
  · rfl
  · split
    · have := map_filter_num fac o (fun n => n != x.num) f
      simp only [List.map_append, this, List.map_cons, List.map_nil]
      rfl
    · simp

/-- one `Add`: if it does not panic, the converted content of the new state is the generic `add` (which normalises the
message with `typedNormal`) on the converted content of the old state — this is where C13's theorem is used -/
theorem addC_map (hw : TablesWF) (fac : Nat → Nat → Field) (o : Options) (FT : FileType) (f f' : List Stored)
    (m : Message) (h : addC FT f m = .ok f') :
    f'.map (emitS fac o) = G.add (msgC fac o) FT (f.map (emitS fac o)) m := by
  unfold addC at h
  unfold G.add
  split at h
  · rename_i T hT
    split at h
    · cases h
    · rename_i st hst
      injection h with h
      rw [← h, addS_map]
      congr 1
      show toMesg T (fac T.num) o st = normC fac o FT m
      unfold normC
      rw [hT]
      exact toMesg_ofMesg T (hw T (typedTable_mem hT).1) (fac T.num) o m st hst
  · rename_i hT
    injection h with h
    rw [← h, addS_map]
    congr 1
    show m = normC fac o FT m
    unfold normC
    rw [hT]

theorem buildFrom_map (hw : TablesWF) (fac : Nat → Nat → Field) (o : Options) (FT : FileType) (ms : List Message) :
    ∀ (f f' : List Stored), buildFrom FT f ms = .ok f' →
      f'.map (emitS fac o) = ms.foldl (G.add (msgC fac o) FT) (f.map (emitS fac o)) := by
  induction ms with
  | nil =>
    intro f f' h
    simp only [buildFrom] at h
    injection h with h
    rw [h]; rfl
  | cons m rest ih =>
    intro f f' h
    simp only [buildFrom] at h
    split at h
    · cases h
    · rename_i f1 h1
      rw [List.foldl_cons, ← addC_map hw fac o FT f f1 m h1]
      exact ih f1 f' h

/-- **the code-shaped model is the generic layer on normal forms**: if building does not panic, `ToFIT` of the built
file is `toFIT (build …)` of the generic layer at the carrier `msgC` (`norm` = `typedNormal` for typed kinds) -/
theorem toFITC_buildC (hw : TablesWF) (fac : Nat → Nat → Field) (o : Options) (FT : FileType) (ms : List Message)
    (f : List Stored) (h : buildC FT ms = .ok f) :
    toFITC fac o FT f = G.toFIT (msgC fac o) FT (G.build (msgC fac o) FT ms) := by
  rw [toFITC_eq, buildFrom_map hw fac o FT ms [] f h]
  rfl

/-! ### no panic on messages whose fields have a `FieldBase` -/

theorem addC_ok (hw : TablesWF) (FT : FileType) (f : List Stored) (m : Message) (hb : ∀ fl ∈ m.fields, fl.base ≠ none) :
    ∃ f', addC FT f m = .ok f' := by
  unfold addC
  split
  · rename_i T hT
    have := ofMesg_no_panic T (hw T (typedTable_mem hT).1) m hb
    split
    · rename_i hp; exact absurd hp this
    · exact ⟨_, rfl⟩
  · exact ⟨_, rfl⟩

theorem buildFrom_ok (hw : TablesWF) (FT : FileType) (ms : List Message) (hb : allBased ms = true) :
    ∀ f, ∃ f', buildFrom FT f ms = .ok f' := by
  induction ms with
  | nil => intro f; exact ⟨f, rfl⟩
  | cons m rest ih =>
    intro f
    simp only [allBased, List.all_cons, Bool.and_eq_true] at hb
    have hm : ∀ fl ∈ m.fields, fl.base ≠ none := by
      intro fl hfl hn
      have := List.all_eq_true.mp hb.1 fl hfl
      rw [hn] at this; cases this
    obtain ⟨f1, h1⟩ := addC_ok hw FT f m hm
    obtain ⟨f', h'⟩ := ih (by simpa [allBased] using hb.2) f1
    exact ⟨f', by simp only [buildFrom, h1, h']⟩

/-- a typed message with a nil `FieldBase` makes `Add` panic (what the code does: `NewXxx` dereferences it) -/
theorem addC_panics (FT : FileType) (f : List Stored) (m : Message) (T : MesgTable) (hT : typedTable FT m.num = some T)
    (hn : ∃ fl ∈ m.fields, fl.base = none) : addC FT f m = .panic := by
  have : ofMesg T m = .panic := by
    unfold ofMesg
    rw [run_panic_of_nil T m.fields Acc.init hn]
  simp only [addC, hT, this]

/-! ### where the members of the output come from -/

theorem mem_keepLastDecl {μ : Type} (C : Carrier μ) (T : FileType) (l : List μ) (x : μ)
    (h : x ∈ G.keepLastDecl C T l) : x ∈ l := by
  induction l with
  | nil => cases h
  | cons m rest ih =>
    simp only [G.keepLastDecl] at h
    split at h
    · exact List.mem_cons_of_mem _ (ih h)
    · rcases List.mem_cons.mp h with rfl | h
      · exact List.mem_cons_self
      · exact List.mem_cons_of_mem _ (ih h)

end Fit.FileDef.Content
