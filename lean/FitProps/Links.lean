import FitProps.LinkLemmasInteg
import FitProps.LinkLemmasLoop
import FitProps.LinkLemmasAcct
import FitProps.LinkLemmasRaw
import FitProps.LinkLemmasWire
import FitProps.C01
import FitProps.C16
import FitProps.C04
import FitProps.C08
import FitModel.Generated.DecApiStdFactory
import FitProps.EndToEndDescLemmas
/-!
# Links between the models of the decoder

The tree holds several models of `/repo/decoder/decoder.go`, each written for its own properties and tied to the code
by its own differential family:

* (A) `FitModel/Wire.lean` — wire-level framing decoder (C01, C02);
* (B) `FitModel/Integrity.lean` — `CheckIntegrity` and the framing/CRC accounting of `Decode` (C04);
* (C) `FitModel/DecoderApi.lean` — the API state machine with field values (C03, C07);
* (D) `FitModel/DecProg.lean` over `ReadBuffer.lean` — the decoder as a client of `ReadN` (C08), `Raw.lean` (C16).

A theorem about one says nothing about another. The theorems of this file (`Link_…`, audited by the checks of the
properties that use them: `checklib/props/_links.py`) relate the models by machine-checked refinement, with the
projection between the two observables made explicit as a function, so that the property theorems compose.
-/
namespace Fit.Links
open Fit.ReadBuffer Fit.Link

/-! ## (B) ↔ (D): `Integrity` is `DecProg` over the exact-n reader -/

/-- **(D) = (B), CheckIntegrity.** For EVERY byte list: `CheckIntegrity` of the reader-client model (D), run on the
exact-n reader over the bytes, gives — projected by `ciResult` (sequence count; error class, every error of the reading
layer being (B)'s `eof`) — exactly `Integrity.checkIntegrity`, the model C04's theorems are about. `fuel` (bound on
the number of sequences) only has to exceed the stream length. -/
theorem Link_integrity_eq_decprog_check (bs : Bytes) (fuel : Nat) (hf : bs.length < fuel) :
    ciResult (runExact (DecProg.checkIntegrity fuel 0) bs) = Integrity.checkIntegrity bs := by
  rw [checkIntegrity_sim fuel 0 bs hf]
  exact Integrity.checkLoop_fuel _ _ _ _ hf (by omega)

/-- **(D) = (B), the `Next`/`Decode` loop.** For EVERY byte list, both checksum settings and every fuel: the loop of (D)
on the exact-n reader, reduced by `summary` to (completed sequences, messages in them, error class), is the decode
loop of (B) in lock-step. -/
theorem Link_integrity_eq_decprog_decode (chk : Bool) (bs : Bytes) (fuel : Nat) :
    summary (runExact (DecProg.decodeLoop chk fuel true []) bs) = Integrity.decodeLoop chk fuel 0 0 bs :=
  decodeLoop_sim chk fuel true [] bs (by simp [seqCount])

/-- … in particular with the fuel (B) uses: `Integrity.decodeAll` -/
theorem Link_integrity_eq_decprog_decodeAll (chk : Bool) (bs : Bytes) :
    summary (runExact (DecProg.decodeLoop chk (bs.length + 1) true []) bs) = Integrity.decodeAll chk bs :=
  Link_integrity_eq_decprog_decode chk bs _

theorem ciResult_merge (o : DecProg.CiOut) : ciResult o.merge = ciResult o := by
  unfold ciResult DecProg.CiOut.merge
  cases h : o.status with
  | none => simp
  | some e => cases e <;> simp [DecProg.Err.merge, errB]

theorem summary_merge (o : DecProg.Out) : summary o.merge = summary o := by
  unfold summary DecProg.Out.merge
  cases h : o.status with
  | none => simp
  | some e => cases e <;> simp [DecProg.Err.merge, errB]

/-- **C04's verdict under every fragmentation (C08 ∘ link).** Whatever clean schedule delivers the stream and whatever
the read-buffer size: `CheckIntegrity` over the read buffer does not panic and its verdict and count are those of
`Integrity.checkIntegrity` on the bytes — the object of C04_burst, C04_truncation, C04_append, C04_reference_partial … -/
theorem Link_chunk_indep_integrity (s : Sched) (size : Int) (fuel : Nat) (hs : Clean s) (hb : IsBytes (bytesOf s))
    (hf : (bytesOf s).length < fuel) :
    ∃ o, C08.checkOver fuel s size = .done o ∧ ciResult o = Integrity.checkIntegrity (bytesOf s) := by
  obtain ⟨o, e, m, _⟩ := runRB_refines DecProg.CiOut.merge _ (DecProg.good_checkIntegrity fuel 0) _ _
    (reset_inv RB.zero s size) hs hb
  refine ⟨o, e, ?_⟩
  rw [← ciResult_merge, m, ciResult_merge]
  exact Link_integrity_eq_decprog_check _ fuel hf

/-- … and the accounting of the decode loop (sequences, messages, error class) under every fragmentation is (B)'s -/
theorem Link_chunk_indep_decodeAll (chk : Bool) (s : Sched) (size : Int) (fuel : Nat) (hs : Clean s) (hb : IsBytes (bytesOf s)) :
    ∃ o, C08.decodeOver chk fuel s size = .done o ∧ summary o = Integrity.decodeLoop chk fuel 0 0 (bytesOf s) := by
  obtain ⟨o, e, m, _⟩ := C08.decodeOver_exact chk fuel s size hs hb
  refine ⟨o, e, ?_⟩
  rw [← summary_merge, m, summary_merge]
  exact Link_integrity_eq_decprog_decode chk _ fuel

/-- rejection as the reader-client model (D) sees it, over the real read buffer: for every clean fragmentation of the
stream and every buffer size neither `CheckIntegrity` nor the `Next`/`Decode` loop (checksum on) ends without error -/
def RejectedByEveryReader (bs : Bytes) : Prop :=
  ∀ (s : Sched) (size : Int), Clean s → bytesOf s = bs →
    (∃ o, C08.checkOver (bs.length + 1) s size = .done o ∧ o.status ≠ none) ∧
    (∃ o, C08.decodeOver true (bs.length + 1) s size = .done o ∧ o.status ≠ none)

/-- **C04 transfers to (D).** What (B) rejects (C04's `Rejected`: integrity check, first `Decode`, decode loop) is
rejected by the decoder over the read buffer under every clean fragmentation and buffer size. -/
theorem Link_rejected_any_reader (bs : Bytes) (hb : IsBytes bs) (h : C04.Rejected bs) : RejectedByEveryReader bs := by
  intro s size hs hbs
  subst hbs
  obtain ⟨o, ho, hr⟩ := Link_chunk_indep_integrity s size _ hs hb (Nat.lt_succ_self _)
  obtain ⟨o', ho', hr'⟩ := Link_chunk_indep_decodeAll true s size ((bytesOf s).length + 1) hs hb
  refine ⟨⟨o, ho, fun hn => ?_⟩, ⟨o', ho', fun hn => ?_⟩⟩
  · apply h.1 o.seq
    rw [← hr]; simp [ciResult, hn]
  · apply h.2.2 (seqCount o'.evs) (msgSum o'.evs)
    unfold Integrity.decodeAll
    rw [← hr']; simp [summary, hn]

/-- **C04_burst under every fragmentation:** a burst of ≤ 16 bits anywhere in the records or the CRC of an encoder
output is rejected whatever the reader's chunking and the buffer size -/
theorem Link_C04_burst_any_reader (f e : List Nat) (hf : Integrity.IsEncoderOutput14 f) (he : Fit.Crc.Bytes e)
    (hl : e.length = f.length - 14) (hb : Fit.Crc.BurstWithin16 e) : RejectedByEveryReader (C04.corrupt f e) := by
  refine Link_rejected_any_reader _ ?_ (C04.C04_burst f e hf he hl hb)
  intro x hx
  unfold C04.corrupt at hx
  rcases List.mem_append.mp hx with h | h
  · exact hf.1 x (List.mem_of_mem_take h)
  · exact Fit.Crc.xorL_bytes _ _ (fun y hy => hf.1 y (List.mem_of_mem_drop hy)) he x h

/-- **C04_truncation under every fragmentation** -/
theorem Link_C04_truncation_any_reader (f : List Nat) (hf : Integrity.IsEncoderOutput14 f) (k : Nat) (hk : k < f.length) :
    RejectedByEveryReader (f.take k) :=
  Link_rejected_any_reader _ (fun x hx => hf.1 x (List.mem_of_mem_take hx)) (C04.C04_truncation f hf k hk)

/-- non-vacuity: the sample file of C04 cut to 20 bytes, delivered one byte at a time -/
example : Integrity.IsEncoderOutput14 C04.sampleFit ∧ Clean ((C04.sampleFit.take 20).map fun b => ⟨[b], none⟩) := by
  decide +kernel

/-! ## (D) → (C): the API-level results are a function of what the reader-client model observes -/

open Fit.DecApi in
/-- **(C) = apiOf ∘ (D).** For EVERY byte stream (bytes < 256, below 4 GiB), every option combination (checksum, component
expansion, listeners, broadcast-only), every fuel and every factory in the common domain — acyclic components (`FacOK`, the
contract of `decoder.Factory`), valid base types (`facBtOK`), the three fields of `field_description` as in the profile
(`facFdOK`: (D) hard-codes them, its tie runs the standard factory) — the results of the `Decode()` calls of
`for dec.Next() { fit, err := dec.Decode(); if err != nil { break } }` on the API model (C) — returned FIT (header, messages with
decoded VALUES, developer fields, expanded components, CRC) or error class, and the listener calls during each (the reserved
byte of definitions zeroed: (D) does not observe it) — are exactly what `apiOf` rebuilds from the outcome of the
reader-client model (D) on the exact-n reader: nothing of the byte stream enters but through (D)'s events (headers, per
message header byte / definition / bytes of each field and developer field, CRCs, error class). -/
theorem Link_decprog_eq_api (o : Opts) (bs : List Nat) (fuel : Nat) (hb : DecApi.IsBytes bs) (hlen : bs.length < 4294967296)
    (hfac : FacOK o.fac) (hbt : facBtOK o.fac = true) (hfd : facFdOK o.fac = true) :
    normCalls (apiLoop fuel (Api.fresh o bs)) = apiOf o (runExact (DecProg.decodeLoop o.chk fuel true []) bs) := by
  have := loop_link o hfac hbt hfd fuel (Api.fresh o bs) bs true [] [] (St.fresh o []) rfl rfl hb hlen rfl rfl rfl rfl
  simpa using this.symm

theorem apiOf_merge (o : DecApi.Opts) (out : DecProg.Out) : apiOf o out.merge = apiOf o out := by
  unfold apiOf DecProg.Out.merge
  cases h : out.status with
  | none => simp
  | some e => cases e <;> simp [DecProg.Err.merge, errC]

open Fit.DecApi in
/-- **CHUNK INDEPENDENCE AT API LEVEL (C08 ∘ link).** Whatever clean schedule delivers the stream (any partition into short
reads, down to one byte at a time, EOF with or after the last bytes) and whatever the read-buffer size, the decoder over
the read buffer does not panic and what its `Decode()` calls return — messages WITH VALUES, errors, listener calls — as
rebuilt from its run is what the API model (C) returns on the bytes: C03 / C07's object under every fragmentation. -/
theorem Link_chunk_indep_api (o : Opts) (s : Sched) (size : Int) (fuel : Nat) (hs : Clean s) (hb : ReadBuffer.IsBytes (bytesOf s))
    (hlen : (bytesOf s).length < 4294967296) (hfac : FacOK o.fac) (hbt : facBtOK o.fac = true) (hfd : facFdOK o.fac = true) :
    ∃ out, C08.decodeOver o.chk fuel s size = .done out ∧
      apiOf o out = normCalls (apiLoop fuel (Api.fresh o (bytesOf s))) := by
  obtain ⟨out, e, m, _⟩ := C08.decodeOver_exact o.chk fuel s size hs hb
  refine ⟨out, e, ?_⟩
  rw [← apiOf_merge, m, apiOf_merge]
  exact (Link_decprog_eq_api o _ fuel hb hlen hfac hbt hfd).symm

open Fit.DecApi in
/-- … hence any two clean fragmentations and buffer sizes give the same API-level results -/
theorem Link_chunk_indep_api_two (o : Opts) (s₁ s₂ : Sched) (size₁ size₂ : Int) (fuel : Nat) (h₁ : Clean s₁) (h₂ : Clean s₂)
    (hb : ReadBuffer.IsBytes (bytesOf s₁)) (heq : bytesOf s₁ = bytesOf s₂) (hlen : (bytesOf s₁).length < 4294967296)
    (hfac : FacOK o.fac) (hbt : facBtOK o.fac = true) (hfd : facFdOK o.fac = true) :
    ∃ o₁ o₂, C08.decodeOver o.chk fuel s₁ size₁ = .done o₁ ∧ C08.decodeOver o.chk fuel s₂ size₂ = .done o₂ ∧
      apiOf o o₁ = apiOf o o₂ := by
  obtain ⟨o₁, e₁, m₁⟩ := Link_chunk_indep_api o s₁ size₁ fuel h₁ hb hlen hfac hbt hfd
  obtain ⟨o₂, e₂, m₂⟩ := Link_chunk_indep_api o s₂ size₂ fuel h₂ (heq ▸ hb) (heq ▸ hlen) hfac hbt hfd
  exact ⟨o₁, o₂, e₁, e₂, by rw [m₁, m₂, heq]⟩

/-- `factory.StandardFactory()` as the decoder reads it with component expansion off (the regenerated table the family
`decapi` runs with `f:std`) -/
def stdFactory : DecApi.Factory :=
  Fit.Gen.DecApi.stdFactoryRaw.map fun (m, n, bt, fl) =>
    ⟨m, n, ⟨true, bt, fl / 2 % 2 == 1, fl % 2 == 1, fl / 4 % 2 == 1, []⟩⟩

/-- **the standard factory is in the common domain** (re-checked against the regenerated table on every run) -/
theorem Link_stdFactory_ok : facFdOK stdFactory = true ∧ facBtOK stdFactory = true ∧ DecApi.FacOK stdFactory := by
  refine ⟨by decide +kernel, by decide +kernel, ⟨fun _ _ => 0, fun _ _ => (by decide : (0 : Nat) < 256), ?_⟩⟩
  intro e he c hc
  simp only [stdFactory, List.mem_map] at he
  obtain ⟨x, _, rfl⟩ := he
  simp at hc

/-- the standard factory knows the three key members of `field_description` — the hypothesis `keysKnown` under which the
message validator guarantees `Wire.msgsDescOK` (`C01_e2e_validator_descs`), and what `Fit.Wire` / `Fit.DecProg` hard-code -/
theorem Link_stdFactory_keys : E2E.keysKnown stdFactory = true := by decide +kernel

/-- non-vacuity: the hypotheses of `Link_decprog_eq_api` are met by the standard factory, every option and the sample file of
C04 (file_id and a record); there the loop returns one FIT with two messages -/
example : (∀ b ∈ C04.sampleFit, b < 256) ∧ C04.sampleFit.length < 4294967296 ∧
    (apiLoop 46 (DecApi.Api.fresh { fac := stdFactory } C04.sampleFit)).map (fun p => match p.1 with
      | .fit f => some f.msgs.length | _ => none) = [some 2] := by decide +kernel

/-! ## (B) ↔ (C): `Integrity` against the API model -/

open Fit.DecApi in
/-- **(C) = (B), CheckIntegrity.** For every byte string and every option combination, `CheckIntegrity()` on a new decoder of
the API model (C) returns the verdict and the count of valid leading sequences of `Integrity.checkIntegrity` — the
object of C04's theorems. -/
theorem Link_integrity_eq_api_check (o : Opts) (bs : List Nat) (hb : DecApi.IsBytes bs) :
    (DecApi.step (Api.fresh o bs) .checkIntegrity).2.1 = ciOut (Integrity.checkIntegrity bs) := by
  have h := ciLoop_eq (fuelOf (St.fresh o bs)) true 0 { (St.fresh o bs) with o := { o with chk := true } }
    (by simp [fuelOf, St.fresh]) hb rfl rfl rfl rfl rfl (by simp)
  show (stepCheckIntegrity (Api.fresh o bs)).2.1 = _
  unfold stepCheckIntegrity
  simp only [Api.fresh, St.fresh] at h ⊢
  have hn : ((0 : Nat) == 0) = true := rfl
  simp only [hn, h]
  unfold Integrity.checkIntegrity
  simp only [fuelOf]
  cases Integrity.checkLoop (bs.length + 1) 0 bs with
  | ok n => rfl
  | err e n => rfl

open Fit.DecApi in
/-- **(C) = (B), the decode loop** (by composition of (B) = (D) and (C) = apiOf ∘ (D)): how many `Decode()` calls of the loop
return a FIT and the error class of the one that fails are the sequence count and error class of `Integrity.decodeAll`. -/
theorem Link_integrity_eq_api_decode (o : Opts) (bs : List Nat) (hb : DecApi.IsBytes bs) (hlen : bs.length < 4294967296)
    (hfac : FacOK o.fac) (hbt : facBtOK o.fac = true) (hfd : facFdOK o.fac = true) :
    apiSummary (apiLoop (bs.length + 1) (Api.fresh o bs)) = dres (Integrity.decodeAll o.chk bs) := by
  rw [← apiSummary_norm, Link_decprog_eq_api o bs _ hb hlen hfac hbt hfd, apiSummary_apiOf,
    ← Link_integrity_eq_decprog_decodeAll]
  unfold summary
  cases h : (runExact (DecProg.decodeLoop o.chk (bs.length + 1) true []) bs).status with
  | none => rfl
  | some e => simp only [Option.map_some, dres, errC_eq]

/-- rejection as the API model (C) sees it: `CheckIntegrity` reports an error, and the `Next`/`Decode` loop with checksums on
ends with a `Decode()` that returns an error -/
def RejectedByApi (o : DecApi.Opts) (bs : List Nat) : Prop :=
  (∃ n e, (DecApi.step (DecApi.Api.fresh o bs) .checkIntegrity).2.1 = .integrity n (some e)) ∧
  (∃ e, (apiSummary (apiLoop (bs.length + 1) (DecApi.Api.fresh o bs))).2 = some e)

open Fit.DecApi in
/-- **C04 transfers to (C).** What (B) rejects is rejected by the API: C04's conclusions are statements about (C)'s
`CheckIntegrity` and `Decode`. -/
theorem Link_rejected_api (o : Opts) (bs : List Nat) (hchk : o.chk = true) (hb : DecApi.IsBytes bs) (hlen : bs.length < 4294967296)
    (hfac : FacOK o.fac) (hbt : facBtOK o.fac = true) (hfd : facFdOK o.fac = true) (h : C04.Rejected bs) : RejectedByApi o bs := by
  constructor
  · rw [Link_integrity_eq_api_check o bs hb]
    cases hc : Integrity.checkIntegrity bs with
    | ok n => exact absurd hc (h.1 n)
    | err e n => exact ⟨n, errBC e, rfl⟩
  · rw [Link_integrity_eq_api_decode o bs hb hlen hfac hbt hfd, hchk]
    cases hd : Integrity.decodeAll true bs with
    | ok n m => exact absurd hd (h.2.2 n m)
    | err e n => exact ⟨errBC e, rfl⟩

open Fit.DecApi in
/-- **C04_burst for the API model:** a burst of ≤ 16 bits in the records or the CRC of an encoder output makes (C)'s
`CheckIntegrity` report an error and its checksummed decode loop fail — for every factory of the common domain and every
other option -/
theorem Link_C04_burst_api (o : Opts) (hchk : o.chk = true) (hfac : FacOK o.fac) (hbt : facBtOK o.fac = true)
    (hfd : facFdOK o.fac = true) (f e : List Nat) (hf : Integrity.IsEncoderOutput14 f) (he : Fit.Crc.Bytes e)
    (hl : e.length = f.length - 14) (hb : Fit.Crc.BurstWithin16 e) (hlen : f.length < 4294967296) :
    RejectedByApi o (C04.corrupt f e) := by
  have hbytes : DecApi.IsBytes (C04.corrupt f e) := by
    intro x hx
    unfold C04.corrupt at hx
    rcases List.mem_append.mp hx with h | h
    · exact hf.1 x (List.mem_of_mem_take h)
    · exact Fit.Crc.xorL_bytes _ _ (fun y hy => hf.1 y (List.mem_of_mem_drop hy)) he x h
  have hlen' : (C04.corrupt f e).length < 4294967296 := by
    unfold C04.corrupt
    simp only [List.length_append, List.length_take]
    have := Fit.Crc.xorL_length (f.drop 14) e (by simp [hl])
    rw [this, List.length_drop]; omega
  exact Link_rejected_api o _ hchk hbytes hlen' hfac hbt hfd (C04.C04_burst f e hf he hl hb)

open Fit.DecApi in
/-- **C04_truncation for the API model** -/
theorem Link_C04_truncation_api (o : Opts) (hchk : o.chk = true) (hfac : FacOK o.fac) (hbt : facBtOK o.fac = true)
    (hfd : facFdOK o.fac = true) (f : List Nat) (hf : Integrity.IsEncoderOutput14 f) (k : Nat) (hk : k < f.length)
    (hlen : f.length < 4294967296) : RejectedByApi o (f.take k) :=
  Link_rejected_api o _ hchk (fun x hx => hf.1 x (List.mem_of_mem_take hx)) (by simp; omega) hfac hbt hfd
    (C04.C04_truncation f hf k hk)

/-! ## the independent framing spec → the raw decoder -/

/-- **FitFormat ⇒ Raw (the global form of C16_lengths).** Whenever the independent reading of the protocol (`FitFormat`)
segments a non-empty stream into file headers, records and CRCs, the raw decoder model accepts the stream (no error),
and the segments it hands to its callback are EXACTLY those — same kinds, offsets and lengths, in order — covering the
whole stream; the number of sequences it reports is the spec's. (The empty stream is the one exception: the spec calls
it a stream of zero sequences, `RawDecoder.Decode` returns `io.EOF`.) -/
theorem Link_fitformat_raw (bs : Bytes) (hb : IsBytes bs) (hne : bs ≠ []) (segs : List (FitFormat.Kind × Nat × Nat))
    (h : FitFormat.segments bs = some segs) (fuel : Nat) (hf : bs.length < fuel) :
    (C16.rawOut none fuel bs).status = none ∧ layout 0 (C16.rawOut none fuel bs).segs = segs ∧
      Raw.flat (C16.rawOut none fuel bs).segs = bs ∧
      ∃ seqs, FitFormat.parseStream bs = some seqs ∧ (C16.rawOut none fuel bs).seqs = seqs.length := by
  unfold FitFormat.segments at h
  cases hp : FitFormat.parseStream bs with
  | none => simp [hp] at h
  | some seqs =>
    simp only [hp, Option.map_some] at h
    injection h with h
    have hlen := parseSeqs_len _ _ _ _ hp
    obtain ⟨ns, hrun, hlay, hflat⟩ := seqs_raw bs.length 0 bs seqs hp hb fuel {} (by omega) (Or.inl hne)
    unfold C16.rawOut
    rw [hrun]
    simp only [List.append_nil, List.reverse_reverse]
    refine ⟨trivial, by rw [hlay, h], hflat, seqs, rfl, ?_⟩
    show (0 : Nat) + seqs.length = seqs.length
    omega

/-- non-vacuity: the two-sequence stream of C16's example is segmented by the spec (8 segments) -/
example : (FitFormat.segments [14, 32, 0, 0, 16, 0, 0, 0, 46, 70, 73, 84, 0, 0,  0x42, 0, 0, 20, 0, 2, 3, 1, 2, 4, 0, 2,  0xC5, 9,  2, 7,  0, 0,
    12, 32, 0, 0, 9, 0, 0, 0, 46, 70, 73, 84,  0x40, 0, 1, 0, 0, 1, 0, 1, 2,  0, 0]).map List.length = some 8 := by decide +kernel

/-! ## (A) the wire model against (D) -/

/-- **(A) = (D), for every byte list.** No hypothesis on the bytes; both checksum settings, every fuel, whatever the factory tells
(A) about timestamps: the wire model (A) of C01 (`FitModel/Wire.lean`) and the reader-client model (D) (`FitModel/DecProg.lean`,
on the exact-n reader) report the same definitions, the same messages (header byte, global number, bytes of every field of
non-zero size), the same sequence headers and CRCs and the same error class — the invalid base type of a definition and the
invalid base type of a field description a developer field refers to included: both keep the field descriptions of the sequence
(first match wins, dropped at the end of the sequence) as `decodeMessageData` / `decodeDeveloperFields` do.
(Until (A) was repaired — notes/links.md D1 — this held only where (D) did not end with `invalidBaseType`.) -/
theorem Link_wire_eq_decprog (tsKnown : Nat → Bool) (chk : Bool) (bs : List Nat) (fuel : Nat) :
    wireObsA (Wire.decodeStream tsKnown chk fuel true bs) = wireObsD (runExact (DecProg.decodeLoop chk fuel true []) bs) := by
  have := streamW tsKnown chk fuel true [] bs
  simpa [wireObsA, QW] using this.symm

/-- the stream of the former disagreement D1 (notes/links.md): a `field_description` with fit_base_type_id 0x55, then a
developer field that refers to it -/
def d1Stream : List Nat :=
  [0x0e, 0x20, 0, 0, 0x23, 0, 0, 0, 0x2e, 0x46, 0x49, 0x54, 0, 0,
   0x40, 0, 0, 0xce, 0, 3, 0, 1, 2, 1, 1, 2, 2, 1, 2,   0, 0, 0, 0x55,
   0x61, 0, 0, 0x14, 0, 1, 3, 1, 2, 1, 0, 1, 0,   1, 0x50, 7,   0, 0]

/-- **the former disagreement D1, decided by the kernel:** on `d1Stream` both models end with `invalidBaseType` after the same
events (as the real decoder does: `decodeDeveloperFields` rejects a field description whose base type is not valid); the
same stream with the description's base type 0x02 is accepted by both. -/
theorem Link_wire_d1_agree :
    (runExact (DecProg.decodeLoop false (d1Stream.length + 1) true []) d1Stream).status = some .invalidBaseType ∧
    (Wire.decodeStream (fun _ => true) false (d1Stream.length + 1) true d1Stream).2 = some .invalidBaseType ∧
    (Wire.decodeStream (fun _ => true) false (d1Stream.length + 1) true (d1Stream.set 32 2)).2 = none := by
  refine ⟨by decide +kernel, by decide +kernel, by decide +kernel⟩

/-- **C01's round trip seen by (D).** For every chain of encoder outputs (any options, any message lists that pass C01's
hypotheses — typing, and no developer field written under a field description with an invalid base type, `msgsDescOK`, which
the encoder's message validator guarantees): what the reader-client model (D) observes is the run C01 describes — no error,
one sequence per encoded sequence, and messages whose header, number and FIELD BYTES are those written (`FitMatches`); in
particular every `msg` event of (D) carries the bytes the encoder marshalled. No hypothesis on (D)'s outcome is left. -/
theorem Link_C01_chain_decprog (tsKnown : Nat → Bool) (chk : Bool) (o : Wire.Opts) (ho : Wire.OptsOK o)
    (fits : List (Wire.Hdr × List Wire.WMsg)) (hne : fits ≠ []) (hall : ∀ f ∈ fits, Wire.FitOK o f.1 f.2)
    (hdesc : ∀ f ∈ fits, Wire.msgsDescOK [] f.2 = true) :
    ∃ evs, wireObsD (runExact (DecProg.decodeLoop chk (fits.length + 1) true []) (Wire.encodeChain o fits)) = (evs.map wevOfA, none) ∧
      Wire.AllMatch (Wire.FitMatches o) fits (Wire.seqsOf evs) := by
  obtain ⟨evs, hd, hm⟩ := C01.C01_wire_chain tsKnown chk o ho fits hne hall hdesc
  refine ⟨evs, ?_, hm⟩
  rw [← Link_wire_eq_decprog tsKnown chk _ _, hd]
  rfl

/-- non-vacuity: on C01's example chain (compressed timestamps, developer fields, big-endian, LRU of 2) the decoder reports no
error at all -/
example : (runExact (DecProg.decodeLoop true 2 true []) (Wire.encodeChain C01.exOpts [(⟨14, 32, 2158⟩, C01.exMsgs)])).status = none := by
  decide +kernel

open Fit.DecApi in
/-- … and by the API model (C): its `Decode()` calls return `apiOf` of that observation — the values of the decoded messages are
those the decoder's value functions give on exactly the written field bytes. -/
theorem Link_C01_chain_api (tsKnown : Nat → Bool) (oa : Opts) (o : Wire.Opts) (ho : Wire.OptsOK o)
    (fits : List (Wire.Hdr × List Wire.WMsg)) (hne : fits ≠ []) (hall : ∀ f ∈ fits, Wire.FitOK o f.1 f.2)
    (hb : DecApi.IsBytes (Wire.encodeChain o fits)) (hlen : (Wire.encodeChain o fits).length < 4294967296)
    (hfac : FacOK oa.fac) (hbt : facBtOK oa.fac = true) (hfd : facFdOK oa.fac = true)
    (hdesc : ∀ f ∈ fits, Wire.msgsDescOK [] f.2 = true) :
    ∃ out evs, normCalls (apiLoop (fits.length + 1) (Api.fresh oa (Wire.encodeChain o fits))) = apiOf oa out ∧
      wireObsD out = (evs.map wevOfA, none) ∧ Wire.AllMatch (Wire.FitMatches o) fits (Wire.seqsOf evs) := by
  obtain ⟨evs, h1, h2⟩ := Link_C01_chain_decprog tsKnown oa.chk o ho fits hne hall hdesc
  exact ⟨_, evs, Link_decprog_eq_api oa _ _ hb hlen hfac hbt hfd, h1, h2⟩

end Fit.Links
