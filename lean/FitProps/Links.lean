import FitProps.LinkLemmasInteg
import FitProps.C04
import FitProps.C08
/-!
# Links between the models of the decoder

The tree holds several models of `/repo/decoder/decoder.go`, each written for its own properties and tied to the code
by its own differential family:

* (A) `FitModel/Wire.lean` — wire-level framing decoder (C01, C02);
* (B) `FitModel/Integrity.lean` — `CheckIntegrity` and the framing/CRC accounting of `Decode` (C04);
* (C) `FitModel/DecoderApi.lean` — the API state machine with field values (C03, C07);
* (D) `FitModel/DecProg.lean` over `ReadBuffer.lean` — the decoder as a client of `ReadN` (C08), `Raw.lean` (C16).

A theorem about one says nothing about another. The theorems of this file (`Link_…`, audited by the checks of the
properties that use them: `checklib/props/_links.py`) relate the models by machine-checked refinement, with the
projection between the two observables made explicit as a function, so that the property theorems compose.
-/
namespace Fit.Links
open Fit.ReadBuffer Fit.Link

/-! ## (B) ↔ (D): `Integrity` is `DecProg` over the exact-n reader -/

/-- **(D) = (B), CheckIntegrity.** For EVERY byte list: `CheckIntegrity` of the reader-client model (D), run on the
exact-n reader over the bytes, gives — projected by `ciResult` (sequence count; error class, every error of the reading
layer being (B)'s `eof`) — exactly `Integrity.checkIntegrity`, the model C04's theorems are about. `fuel` (bound on
the number of sequences) only has to exceed the stream length. -/
theorem Link_integrity_eq_decprog_check (bs : Bytes) (fuel : Nat) (hf : bs.length < fuel) :
    ciResult (runExact (DecProg.checkIntegrity fuel 0) bs) = Integrity.checkIntegrity bs := by
  rw [checkIntegrity_sim fuel 0 bs hf]
  exact Integrity.checkLoop_fuel _ _ _ _ hf (by omega)

/-- **(D) = (B), the `Next`/`Decode` loop.** For EVERY byte list, both checksum settings and every fuel: the loop of (D)
on the exact-n reader, reduced by `summary` to (completed sequences, messages in them, error class), is the decode
loop of (B) in lock-step. -/
theorem Link_integrity_eq_decprog_decode (chk : Bool) (bs : Bytes) (fuel : Nat) :
    summary (runExact (DecProg.decodeLoop chk fuel true []) bs) = Integrity.decodeLoop chk fuel 0 0 bs :=
  decodeLoop_sim chk fuel true [] bs (by simp [seqCount])

/-- … in particular with the fuel (B) uses: `Integrity.decodeAll` -/
theorem Link_integrity_eq_decprog_decodeAll (chk : Bool) (bs : Bytes) :
    summary (runExact (DecProg.decodeLoop chk (bs.length + 1) true []) bs) = Integrity.decodeAll chk bs :=
  Link_integrity_eq_decprog_decode chk bs _

theorem ciResult_merge (o : DecProg.CiOut) : ciResult o.merge = ciResult o := by
  unfold ciResult DecProg.CiOut.merge
  cases h : o.status with
  | none => simp
  | some e => cases e <;> simp [DecProg.Err.merge, errB]

theorem summary_merge (o : DecProg.Out) : summary o.merge = summary o := by
  unfold summary DecProg.Out.merge
  cases h : o.status with
  | none => simp
  | some e => cases e <;> simp [DecProg.Err.merge, errB]

/-- **C04's verdict under every fragmentation (C08 ∘ link).** Whatever clean schedule delivers the stream and whatever
the read-buffer size: `CheckIntegrity` over the read buffer does not panic and its verdict and count are those of
`Integrity.checkIntegrity` on the bytes — the object of C04_burst, C04_truncation, C04_append, C04_reference_partial … -/
theorem Link_chunk_indep_integrity (s : Sched) (size : Int) (fuel : Nat) (hs : Clean s) (hb : IsBytes (bytesOf s))
    (hf : (bytesOf s).length < fuel) :
    ∃ o, C08.checkOver fuel s size = .done o ∧ ciResult o = Integrity.checkIntegrity (bytesOf s) := by
  obtain ⟨o, e, m, _⟩ := runRB_refines DecProg.CiOut.merge _ (DecProg.good_checkIntegrity fuel 0) _ _
    (reset_inv RB.zero s size) hs hb
  refine ⟨o, e, ?_⟩
  rw [← ciResult_merge, m, ciResult_merge]
  exact Link_integrity_eq_decprog_check _ fuel hf

/-- … and the accounting of the decode loop (sequences, messages, error class) under every fragmentation is (B)'s -/
theorem Link_chunk_indep_decodeAll (chk : Bool) (s : Sched) (size : Int) (fuel : Nat) (hs : Clean s) (hb : IsBytes (bytesOf s)) :
    ∃ o, C08.decodeOver chk fuel s size = .done o ∧ summary o = Integrity.decodeLoop chk fuel 0 0 (bytesOf s) := by
  obtain ⟨o, e, m, _⟩ := C08.decodeOver_exact chk fuel s size hs hb
  refine ⟨o, e, ?_⟩
  rw [← summary_merge, m, summary_merge]
  exact Link_integrity_eq_decprog_decode chk _ fuel

/-- rejection as the reader-client model (D) sees it, over the real read buffer: for every clean fragmentation of the
stream and every buffer size neither `CheckIntegrity` nor the `Next`/`Decode` loop (checksum on) ends without error -/
def RejectedByEveryReader (bs : Bytes) : Prop :=
  ∀ (s : Sched) (size : Int), Clean s → bytesOf s = bs →
    (∃ o, C08.checkOver (bs.length + 1) s size = .done o ∧ o.status ≠ none) ∧
    (∃ o, C08.decodeOver true (bs.length + 1) s size = .done o ∧ o.status ≠ none)

/-- **C04 transfers to (D).** What (B) rejects (C04's `Rejected`: integrity check, first `Decode`, decode loop) is
rejected by the decoder over the read buffer under every clean fragmentation and buffer size. -/
theorem Link_rejected_any_reader (bs : Bytes) (hb : IsBytes bs) (h : C04.Rejected bs) : RejectedByEveryReader bs := by
  intro s size hs hbs
  subst hbs
  obtain ⟨o, ho, hr⟩ := Link_chunk_indep_integrity s size _ hs hb (Nat.lt_succ_self _)
  obtain ⟨o', ho', hr'⟩ := Link_chunk_indep_decodeAll true s size ((bytesOf s).length + 1) hs hb
  refine ⟨⟨o, ho, fun hn => ?_⟩, ⟨o', ho', fun hn => ?_⟩⟩
  · apply h.1 o.seq
    rw [← hr]; simp [ciResult, hn]
  · apply h.2.2 (seqCount o'.evs) (msgSum o'.evs)
    unfold Integrity.decodeAll
    rw [← hr']; simp [summary, hn]

/-- **C04_burst under every fragmentation:** a burst of ≤ 16 bits anywhere in the records or the CRC of an encoder
output is rejected whatever the reader's chunking and the buffer size -/
theorem Link_C04_burst_any_reader (f e : List Nat) (hf : Integrity.IsEncoderOutput14 f) (he : Fit.Crc.Bytes e)
    (hl : e.length = f.length - 14) (hb : Fit.Crc.BurstWithin16 e) : RejectedByEveryReader (C04.corrupt f e) := by
  refine Link_rejected_any_reader _ ?_ (C04.C04_burst f e hf he hl hb)
  intro x hx
  unfold C04.corrupt at hx
  rcases List.mem_append.mp hx with h | h
  · exact hf.1 x (List.mem_of_mem_take h)
  · exact Fit.Crc.xorL_bytes _ _ (fun y hy => hf.1 y (List.mem_of_mem_drop hy)) he x h

/-- **C04_truncation under every fragmentation** -/
theorem Link_C04_truncation_any_reader (f : List Nat) (hf : Integrity.IsEncoderOutput14 f) (k : Nat) (hk : k < f.length) :
    RejectedByEveryReader (f.take k) :=
  Link_rejected_any_reader _ (fun x hx => hf.1 x (List.mem_of_mem_take hx)) (C04.C04_truncation f hf k hk)

/-- non-vacuity: the sample file of C04 cut to 20 bytes, delivered one byte at a time -/
example : Integrity.IsEncoderOutput14 C04.sampleFit ∧ Clean ((C04.sampleFit.take 20).map fun b => ⟨[b], none⟩) := by
  decide +kernel

end Fit.Links
