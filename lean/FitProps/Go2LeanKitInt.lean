import FitModel.TimeAngle
import FitModel.Generated.Go_kitint
import FitModel.Generated.Go_kitangle
/-!
Agreement of the definitions GENERATED from kit/datetime/datetime.go (`Go.kitint.*`) and kit/semicircles/semicircles.go
(`Go.kitangle.*`) — their integer parts; `time.Time`, `Duration.Seconds()` and every float operation are outside the
translator's subset and stay tied by the correspondence families of C12 — with the model `Fit.TimeAngle` the theorems
`C12_datetime` / `C12_semicircles` are about.
-/
namespace Fit.Go2Lean
open Fit.TimeAngle Fit.F64 Fit.Gen

/-- `ToTime(value)`: the guard `value == basetype.Uint32Invalid` of the source is the guard of the model, for every value -/
theorem kit_toTime (v : Nat) :
    toTime v = (if Go.kitint.ToTime_isInvalid v then zeroTime else ⟨v, 0⟩) ∧
    Go.kitint.ToTime_isInvalid v = decide (v = uint32Invalid) := by
  unfold toTime Go.kitint.ToTime_isInvalid uint32Invalid
  by_cases h : v = 4294967295 <;> simp [h]

/-- `ToDegrees(semicircles)`: the guard `semicircles == basetype.Sint32Invalid` on the int32 a pattern denotes is the guard of
the model on the pattern, for every 32-bit pattern -/
theorem kit_toDegrees (s : Nat) (hs : s < 2 ^ 32) :
    Go.kitangle.ToDegrees_isInvalid (IntTy.i32.toInt s) = decide (s = sint32Invalid) ∧
    toDegrees s = (if Go.kitangle.ToDegrees_isInvalid (IntTy.i32.toInt s) then float64Invalid
                   else mul (ofInt (IntTy.i32.toInt s)) conversionFactor) := by
  have e : Go.kitangle.ToDegrees_isInvalid (IntTy.i32.toInt s) = decide (s = sint32Invalid) := by
    unfold Go.kitangle.ToDegrees_isInvalid IntTy.toInt IntTy.bits IntTy.signed sint32Invalid
    have h1 : s % 2 ^ 32 = s := Nat.mod_eq_of_lt hs
    simp only [h1]
    by_cases h : s = 2147483647
    · subst h; decide
    · by_cases h2 : s ≥ 2 ^ (32 - 1) <;> simp [h, h2] <;> omega
  refine ⟨e, ?_⟩
  rw [e]
  unfold toDegrees
  by_cases h : s = sint32Invalid <;> simp [h]

/-- the integer constant of kit/semicircles: `piRadians = 1 << 31`, the divisor of the model's conversion factor -/
theorem kit_piRadians : Go.kitangle.piRadians = 2 ^ 31 ∧
    conversionFactor = div (ofInt 180) (ofInt (Go.kitangle.piRadians : Int)) := ⟨rfl, rfl⟩

theorem wrapI64_id_u32 (y : Int) (h0 : 0 ≤ y) (h1 : y < 2 ^ 32) : Go.wrapI 64 y = y := by
  unfold Go.wrapI; omega

/-- `TzOffsetHoursFromUint32(local, utc)`: the uint32 difference (wrapping), as an int, divided by 3600 toward zero — never
negative, below 2^32/3600 -/
theorem kit_tzOffset (l d : Nat) (hl : l < 2 ^ 32) (hd : d < 2 ^ 32) :
    Go.kitint.TzOffsetHoursFromUint32 l d = (((l + 2 ^ 32 - d) % 2 ^ 32 / 3600 : Nat) : Int) ∧
    (d ≤ l → Go.kitint.TzOffsetHoursFromUint32 l d = (((l - d) / 3600 : Nat) : Int)) := by
  have key : Go.kitint.TzOffsetHoursFromUint32 l d = (((l + 2 ^ 32 - d) % 2 ^ 32 / 3600 : Nat) : Int) := by
    unfold Go.kitint.TzOffsetHoursFromUint32
    have hx : (((l : Int) + 2 ^ 32 - (d : Int)) % 2 ^ 32) = (((l + 2 ^ 32 - d) % 2 ^ 32 : Nat) : Int) := by omega
    rw [hx, Int.tdiv_eq_ediv_of_nonneg (by omega), wrapI64_id_u32 _ (by omega) (by omega)]
    omega
  refine ⟨key, fun hle => ?_⟩
  rw [key]
  have : (l + 2 ^ 32 - d) % 2 ^ 32 = l - d := by omega
  rw [this]

end Fit.Go2Lean
