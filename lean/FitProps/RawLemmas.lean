import FitProps.ReadBufferLemmas
import FitModel.Raw
import FitModel.FitFormat
/-!
Lemmas about the raw decoder model (`FitModel/Raw.lean`).
-/
namespace Fit.Raw
open Fit.ReadBuffer Fit.Gen.Reader

/-- the record length computed from definitions never exceeds what 255 + 255 sizes of at most 255 add up to -/
theorem sizeSum_le (b : Bytes) (hb : IsBytes b) : sizeSum b ≤ 255 * (b.length / 3) := by
  induction b using sizeSum.induct with
  | case1 a s c rest ih =>
    have hs : s < 256 := hb s (by simp)
    have := ih (fun x hx => hb x (by simp [hx]))
    simp only [sizeSum, List.length_cons]
    omega
  | case2 b hne =>
    rw [sizeSum]
    · omega
    · exact hne

/-- the `BytesArray` bound: a data record as long as the protocol allows (header byte + 255 fields and 255 developer
fields of 255 bytes) fits exactly -/
theorem lenMesg_fits (fb db : Bytes) (hf : IsBytes fb) (hd : IsBytes db) (hfl : fb.length ≤ 255 * 3) (hdl : db.length ≤ 255 * 3) :
    1 + sizeSum fb + sizeSum db ≤ rawBytesArrayLen := by
  have h1 := sizeSum_le fb hf
  have h2 := sizeSum_le db hd
  have : rawBytesArrayLen = 130051 := by decide
  omega

/-! ### runs over the exact reader -/

theorem runExactR_fst {α : Type} (p : Prog α) : ∀ rest, (runExactR p rest).1 = runExact p rest := by
  induction p with
  | ret a => intro rest; rfl
  | read n k ih => intro rest; simp only [runExactR, runExact]; exact ih _ _

theorem exactRead_len (rest : Bytes) (n : Nat) : (exactRead rest n).2.length ≤ rest.length := by
  unfold exactRead; split
  · simp
  · split <;> simp

theorem runExactR_len {α : Type} (p : Prog α) : ∀ rest, (runExactR p rest).2.length ≤ rest.length := by
  induction p with
  | ret a => intro rest; exact Nat.le_refl _
  | read n k ih => intro rest; simp only [runExactR]; exact Nat.le_trans (ih _ _) (exactRead_len rest n)

theorem consumed_eq {α : Type} (p : Prog α) : ∀ rest, consumedExact p rest + (runExactR p rest).2.length = rest.length := by
  induction p with
  | ret a => intro rest; simp [consumedExact, runExactR]
  | read n k ih =>
    intro rest
    simp only [consumedExact, runExactR]
    have h1 := ih (exactRead rest n).1 (exactRead rest n).2
    have h2 := exactRead_len rest n
    omega

/-- one request whose failure ends the run: the two cases -/
theorem run_read {α : Type} (n : Nat) (k : Except RErr Bytes → Prog α) (rest : Bytes) :
    runExactR (.read n k) rest =
      if n ≤ rest.length then runExactR (k (.ok (rest.take n))) (rest.drop n)
      else runExactR (k (.error (if rest.isEmpty then .eof else .unexpectedEof))) [] := by
  simp only [runExactR, exactRead]
  split
  · rfl
  · split <;> rfl

theorem flat_append (a b : List Seg) : flat (a ++ b) = flat a ++ flat b := by simp [flat]

/-- raw's table against the spec's table -/
def RelLens (lens : Lens) (defs : FitFormat.Defs) : Prop :=
  ∀ i, lens.get i = match defs i with | some n => n + 1 | none => 0

theorem relLens_empty : RelLens [] FitFormat.Defs.empty := by intro i; rfl

theorem relLens_set {lens : Lens} {defs : FitFormat.Defs} (h : RelLens lens defs) (k v : Nat) :
    RelLens ((k, v + 1) :: lens) (defs.set k v) := by
  intro i
  by_cases hi : i = k
  · subst hi; simp [Lens.get, FitFormat.Defs.set]
  · have : (k == i) = false := by simpa using fun h => hi h.symm
    have h' := h i
    simp only [Lens.get] at h' ⊢
    simp [List.find?, this, FitFormat.Defs.set, hi, h']

/-! header byte arithmetic, on bytes -/
theorem hdr_bits : ∀ h, h < 256 →
    ((h &&& (mesgCompressedHeaderMask ||| mesgDefinitionMask) = mesgDefinitionMask) ↔ FitFormat.isDefinition h = true) ∧
    localMesgNum h = FitFormat.localNum h ∧
    ((h &&& devDataMask = devDataMask) ↔ FitFormat.hasDevData h = true) ∧
    (FitFormat.isDefinition h = true → h &&& localMesgNumMask = h &&& 0xF) := by decide +kernel

theorem sizeSum_triplets (b : Bytes) : FitFormat.sizeSum (FitFormat.triplets b) = sizeSum b := by
  have hfold : ∀ (l : List Nat) (a : Nat), l.foldl (· + ·) a = a + l.foldl (· + ·) 0 := by
    intro l; induction l with
    | nil => intro a; simp
    | cons x xs ih => intro a; simp only [List.foldl_cons]; rw [ih (a + x), ih (0 + x)]; omega
  induction b using sizeSum.induct with
  | case1 a s c rest ih =>
    simp only [FitFormat.sizeSum, FitFormat.triplets, sizeSum, List.map_cons, List.foldl_cons] at ih ⊢
    rw [hfold, ih]; omega
  | case2 b hne =>
    rw [sizeSum, FitFormat.triplets]
    · rfl
    · exact hne
    · exact hne

theorem len5 {l : Bytes} (h : l.length = 5) : ∃ a b c d e, l = [a, b, c, d, e] := by
  match l, h with
  | [a, b, c, d, e], _ => exact ⟨a, b, c, d, e, rfl⟩

theorem len1 {l : Bytes} (h : l.length = 1) : ∃ a, l = [a] := by
  match l, h with
  | [a], _ => exact ⟨a, rfl⟩

theorem parseDefinition_plain (h r a g0 g1 nf : Nat) (fb : Bytes) (hfl : fb.length = nf * 3)
    (hd : FitFormat.hasDevData h = false) :
    ∃ rec, FitFormat.parseDefinition h 0 ([r, a, g0, g1, nf] ++ fb) = some (rec, []) ∧ rec.len = 6 + nf * 3 ∧
      rec.localNum = h &&& 0xF ∧ FitFormat.sizeSum rec.fields = sizeSum fb ∧ FitFormat.sizeSum rec.devFields = 0 := by
  have h1 : FitFormat.hasN fb (3 * nf) = true := by rw [FitFormat.hasN_iff]; omega
  have hdrop : fb.drop (3 * nf) = [] := List.drop_of_length_le (by omega)
  have htake : fb.take (3 * nf) = fb := List.take_of_length_le (by omega)
  simp only [List.cons_append, List.nil_append, FitFormat.parseDefinition, h1, hd, hdrop, htake,
    Bool.not_true, Bool.false_eq_true, if_false]
  exact ⟨_, rfl, by simp; omega, rfl, by simp [sizeSum_triplets], rfl⟩

theorem parseDefinition_dev (h r a g0 g1 nf nd : Nat) (fb db : Bytes) (hfl : fb.length = nf * 3) (hdl : db.length = nd * 3)
    (hd : FitFormat.hasDevData h = true) :
    ∃ rec, FitFormat.parseDefinition h 0 ([r, a, g0, g1, nf] ++ fb ++ [nd] ++ db) = some (rec, []) ∧
      rec.len = 6 + nf * 3 + 1 + nd * 3 ∧
      rec.localNum = h &&& 0xF ∧ FitFormat.sizeSum rec.fields = sizeSum fb ∧ FitFormat.sizeSum rec.devFields = sizeSum db := by
  have h1 : FitFormat.hasN (fb ++ nd :: db) (3 * nf) = true := by rw [FitFormat.hasN_iff]; simp; omega
  have h2 : FitFormat.hasN db (3 * nd) = true := by rw [FitFormat.hasN_iff]; omega
  have hdrop : (fb ++ nd :: db).drop (3 * nf) = nd :: db := by
    rw [List.drop_append_of_le_length (by omega), List.drop_of_length_le (by omega)]; rfl
  have htake : (fb ++ nd :: db).take (3 * nf) = fb := by
    rw [List.take_append_of_le_length (by omega), List.take_of_length_le (by omega)]
  have hdrop2 : db.drop (3 * nd) = [] := List.drop_of_length_le (by omega)
  have htake2 : db.take (3 * nd) = db := List.take_of_length_le (by omega)
  simp only [List.cons_append, List.nil_append, List.append_assoc, FitFormat.parseDefinition, h1, hd, hdrop, h2, htake,
    hdrop2, htake2, Bool.not_true, Bool.false_eq_true, if_false, if_true]
  exact ⟨_, rfl, by simp; omega, rfl, by simp [sizeSum_triplets], by simp [sizeSum_triplets]⟩

/-! ### one pass over the raw decoder: what it reports continues the stream and has the prescribed lengths -/

set_option linter.unusedSimpArgs false
set_option linter.unusedVariables false

def walk (st : St) : Option FitFormat.Defs := st.segs.reverse.foldl lenStep (some FitFormat.Defs.empty)

/-- the position walk (`posStep`) over what has been reported so far -/
def pwalk (st : St) : Option Pos := st.segs.reverse.foldl posStep (some .outside)

/-- both walks are alive -/
def Alive (st : St) : Prop := (walk st).isSome ∧ (pwalk st).isSome

/-- what a finished run (outcome, unread rest) must satisfy with respect to the stream `bs` -/
def Post (bs : Bytes) (r : Out × Bytes) : Prop :=
  (∃ mid, flat r.1.segs ++ mid ++ r.2 = bs ∧ (r.1.status = none → mid = [])) ∧ lengthsOK r.1.segs = true ∧
  layoutOK r.1.segs = true ∧ (r.1.status = none → layoutClosed r.1.segs = true)

theorem post_fail {bs : Bytes} (st : St) (e : Err) (mid fin : Bytes)
    (h1 : flat st.segs.reverse ++ mid ++ fin = bs) (h2 : Alive st) : Post bs (fail st e, fin) :=
  ⟨⟨mid, h1, fun h => by simp [fail] at h⟩, h2.1, h2.2, fun h => by simp [fail] at h⟩

theorem post_done {bs : Bytes} (st : St) (fin : Bytes)
    (h1 : flat st.segs.reverse ++ fin = bs) (h2 : (walk st).isSome) (h3 : pwalk st = some .outside) : Post bs (done st, fin) :=
  ⟨⟨[], by simpa [done] using h1, fun _ => rfl⟩, h2, by show (pwalk st).isSome = true; rw [h3]; rfl,
    fun _ => by show (pwalk st == some .outside) = true; rw [h3]; decide⟩

theorem walk_push (st : St) (s : Seg) : walk { st with segs := s :: st.segs } = lenStep (walk st) s := by
  simp [walk, List.foldl_append]

theorem walk_of_segs (st' st : St) (s : Seg) (h : st'.segs = s :: st.segs) : walk st' = lenStep (walk st) s := by
  simp [walk, h, List.foldl_append]

theorem pwalk_push (st : St) (s : Seg) : pwalk { st with segs := s :: st.segs } = posStep (pwalk st) s := by
  simp [pwalk, List.foldl_append]

theorem pwalk_of_segs (st' st : St) (s : Seg) (h : st'.segs = s :: st.segs) : pwalk st' = posStep (pwalk st) s := by
  simp [pwalk, h, List.foldl_append]

/-- a record segment while the data size is not reached -/
theorem posStep_rec (ds used flag : Nat) (bytes : Bytes) (hf : flag = rawFlagMesgDef ∨ flag = rawFlagMesgData)
    (hu : used < ds) : posStep (some (.inside ds used)) ⟨flag, bytes⟩ = some (.inside ds (used + bytes.length)) := by
  simp only [posStep, hf, if_true, hu]

theorem posStep_crc (ds used : Nat) (bytes : Bytes) (hu : ds ≤ used) :
    posStep (some (.inside ds used)) ⟨rawFlagCRC, bytes⟩ = some .outside := by
  have h1 : ¬ (rawFlagCRC = rawFlagMesgDef ∨ rawFlagCRC = rawFlagMesgData) := by decide
  simp only [posStep, h1, if_false, if_true, hu]

/-- the header the raw decoder accepts is a header for the independent reading, with the same data size -/
theorem parseHeader_of_raw (b0 : Nat) (B : Bytes) (hb0 : b0 = 12 ∨ b0 = 14) (hl : B.length = b0 - 1)
    (htag : (B.drop 7).take 4 = dataTypeFIT) :
    ∃ h, FitFormat.parseHeader (b0 :: B) = some h ∧ h.dataSize = le32 (B.drop 3) := by
  have ht : dataTypeFIT = FitFormat.tag := by decide
  rcases hb0 with rfl | rfl
  · match B, hl with
    | [pv, p0, p1, d0, d1, d2, d3, t0, t1, t2, t3], _ =>
      simp only [List.drop_succ_cons, List.drop_zero, List.take_succ_cons, List.take_zero, ht] at htag
      exact ⟨_, by simp only [FitFormat.parseHeader, htag, ne_eq, not_true_eq_false, if_false, if_true]; rfl, rfl⟩
  · match B, hl with
    | [pv, p0, p1, d0, d1, d2, d3, t0, t1, t2, t3, c0, c1], _ =>
      simp only [List.drop_succ_cons, List.drop_zero, List.take_succ_cons, List.take_zero, ht] at htag
      refine ⟨_, by simp only [FitFormat.parseHeader, htag, ne_eq, not_true_eq_false, if_false, if_true]; rfl, rfl⟩

theorem flat_push (st : St) (s : Seg) : flat (s :: st.segs).reverse = flat st.segs.reverse ++ s.bytes := by
  simp [flat]

/-- `emit`: the callback sees a segment that continues the stream and has the prescribed length -/
theorem emit_post {bs : Bytes} (failAt : Option Nat) (st : St) (flag : Nat) (bytes rest : Bytes) (k : St → P)
    (h1 : flat st.segs.reverse ++ bytes ++ rest = bs) (h2 : (lenStep (walk st) ⟨flag, bytes⟩).isSome)
    (h3 : (posStep (pwalk st) ⟨flag, bytes⟩).isSome)
    (hk : ∀ st', st'.segs = ⟨flag, bytes⟩ :: st.segs → st'.seqs = st.seqs → Post bs (runExactR (k st') rest)) :
    Post bs (runExactR (emit failAt st flag bytes k) rest) := by
  unfold emit
  simp only
  split
  · exact hk _ rfl rfl
  · split
    · refine post_fail _ _ [] rest ?_ ⟨?_, ?_⟩
      · rw [← h1]; simp [fail, flat, List.append_assoc]
      · rw [walk_push]; exact h2
      · rw [pwalk_push]; exact h3
    · exact hk _ rfl rfl

theorem split_at {rest : Bytes} {n : Nat} (h : n ≤ rest.length) : rest = rest.take n ++ rest.drop n :=
  (List.take_append_drop n rest).symm

theorem msgs_post {bs : Bytes} (failAt : Option Nat) (ds : Nat) (fuel : Nat) :
    ∀ (used : Nat) (lens : Lens) (st : St) (rest : Bytes) (k : St → P) (defs : FitFormat.Defs),
      flat st.segs.reverse ++ rest = bs → walk st = some defs → RelLens lens defs → IsBytes rest →
      pwalk st = some (.inside ds used) → ds ≤ used + fuel →
      (∀ st' rest', flat st'.segs.reverse ++ rest' = bs → (walk st').isSome → IsBytes rest' →
          (∃ u, pwalk st' = some (.inside ds u) ∧ ds ≤ u) →
          Post bs (runExactR (k st') rest')) →
      Post bs (runExactR (msgs failAt ds fuel used lens st k) rest) := by
  induction fuel with
  | zero => intro used lens st rest k defs h1 h2 _ hb hpw hfu hk; exact hk st rest h1 (by rw [h2]; rfl) hb ⟨used, hpw, by omega⟩
  | succ fuel ih =>
    intro used lens st rest k defs h1 h2 hrel hb hpw hfu hk
    have hw0 : (walk st).isSome := by rw [h2]; rfl
    have hw : Alive st := ⟨hw0, by rw [hpw]; rfl⟩
    have hnotHdr : ¬ (rawFlagMesgDef = rawFlagFileHeader) := by decide
    simp only [msgs]
    split
    case isFalse hnu => exact hk st rest h1 hw0 hb ⟨used, hpw, by omega⟩
    case isTrue hu =>
      rw [run_read]
      split
      case isFalse => exact post_fail st _ rest [] (by simpa using h1) hw
      case isTrue hl1 =>
        obtain ⟨h, rest1, rfl⟩ : ∃ h rest1, rest = h :: rest1 := by
          cases rest with
          | nil => simp at hl1
          | cons h t => exact ⟨h, t, rfl⟩
        have hh : h < 256 := hb h (by simp)
        have hb1 : IsBytes rest1 := fun x hx => hb x (by simp [hx])
        obtain ⟨hbit1, hbit2, hbit3, hbit4⟩ := hdr_bits h hh
        simp only [List.take_succ_cons, List.take_zero, List.drop_succ_cons, List.drop_zero, List.headD_cons]
        by_cases hdef : h &&& (mesgCompressedHeaderMask ||| mesgDefinitionMask) = mesgDefinitionMask
        · simp only [hdef, if_true]
          -- definition
          have hisdef : FitFormat.isDefinition h = true := hbit1.mp hdef
          rw [run_read]
          split
          case isFalse => exact post_fail st _ (h :: rest1) [] (by simpa using h1) hw
          case isTrue hl5 =>
            obtain ⟨r, a, g0, g1, nf, hb5⟩ := len5 (l := rest1.take 5) (by
              rw [List.length_take]; exact Nat.min_eq_left hl5)
            have hs5 := split_at hl5
            rw [hb5] at hs5
            simp only [hb5, List.drop_succ_cons, List.drop_zero, List.headD_cons]
            generalize rest1.drop 5 = R2 at *
            subst hs5
            rw [run_read]
            split
            case isFalse => exact post_fail st _ _ [] (by simpa using h1) hw
            case isTrue hlf =>
              have hsf := split_at hlf
              have hfl : (R2.take (nf * 3)).length = nf * 3 := by
                rw [List.length_take]; exact Nat.min_eq_left hlf
              have hb2 : IsBytes R2 := fun x hx => hb1 x (by simp [hx])
              have hb3 : IsBytes (R2.drop (nf * 3)) := isBytes_drop hb2 _
              generalize R2.take (nf * 3) = F at *
              generalize R2.drop (nf * 3) = R3 at *
              subst hsf
              by_cases hdev : h &&& devDataMask = devDataMask
              · simp only [hdev, if_true]
                have hdd : FitFormat.hasDevData h = true := hbit3.mp hdev
                rw [run_read]
                split
                case isFalse => exact post_fail st _ _ [] (by simpa using h1) hw
                case isTrue hl1' =>
                  obtain ⟨nd, hnb⟩ := len1 (l := R3.take 1) (by
                    rw [List.length_take]; exact Nat.min_eq_left hl1')
                  have hsn := split_at hl1'
                  rw [hnb] at hsn
                  simp only [hnb, List.headD_cons]
                  have hb4 : IsBytes (R3.drop 1) := isBytes_drop hb3 _
                  generalize R3.drop 1 = R4 at *
                  subst hsn
                  rw [run_read]
                  split
                  case isFalse => exact post_fail st _ _ [] (by simpa using h1) hw
                  case isTrue hld =>
                    have hsd := split_at hld
                    have hdl : (R4.take (nd * 3)).length = nd * 3 := by
                      rw [List.length_take]; exact Nat.min_eq_left hld
                    have hb5' : IsBytes (R4.drop (nd * 3)) := isBytes_drop hb4 _
                    generalize R4.take (nd * 3) = D at *
                    generalize R4.drop (nd * 3) = R5 at *
                    subst hsd
                    obtain ⟨rec, hp, hlen, hloc, hsf', hsd'⟩ := parseDefinition_dev h r a g0 g1 nf nd F D hfl hdl hdd
                    simp only [List.cons_append, List.nil_append, List.append_assoc] at hp
                    have hlenEq : rec.len = (h :: r :: a :: g0 :: g1 :: nf :: (F ++ nd :: D)).length := by
                      simp only [List.length_cons, List.length_append, hfl, hdl, hlen]; omega
                    have hstep : lenStep (some defs) ⟨rawFlagMesgDef, [h] ++ [r, a, g0, g1, nf] ++ F ++ [nd] ++ D⟩ =
                        some (defs.set (h &&& 0xF) (sizeSum F + sizeSum D)) := by
                      simp only [lenStep, hnotHdr, if_false, if_true, List.cons_append, List.nil_append, List.append_assoc, hp,
                        hisdef, hlenEq, true_and, hloc, hsf', hsd']
                    have hsl : ([h] ++ [r, a, g0, g1, nf] ++ F ++ [nd] ++ D).length = 6 + nf * 3 + 1 + nd * 3 := by
                      simp only [List.length_append, List.length_cons, List.length_nil, hfl, hdl]; try omega
                    have pstep := posStep_rec ds used rawFlagMesgDef ([h] ++ [r, a, g0, g1, nf] ++ F ++ [nd] ++ D) (Or.inl rfl) hu
                    refine emit_post failAt st _ _ R5 _ ?_ ?_ ?_ (fun st' hsegs hseqs => ?_)
                    · rw [← h1]; simp [List.append_assoc]
                    · rw [h2, hstep]; rfl
                    · rw [hpw, pstep]; rfl
                    · refine ih _ _ st' R5 k (defs.set (h &&& 0xF) (sizeSum F + sizeSum D)) ?_ ?_ ?_ hb5' ?_ ?_ hk
                      · rw [hsegs, flat_push, ← h1]; simp [List.append_assoc]
                      · rw [walk_of_segs st' st _ hsegs, h2, hstep]
                      · rw [hbit4 hisdef, show 1 + sizeSum F + sizeSum D = sizeSum F + sizeSum D + 1 by omega]
                        exact relLens_set hrel _ _
                      · rw [pwalk_of_segs st' st _ hsegs, hpw, pstep, hsl]
                      · omega
              · simp only [hdev, if_false]
                have hdd : FitFormat.hasDevData h = false := by
                  cases hx : FitFormat.hasDevData h with
                  | false => rfl
                  | true => exact absurd (hbit3.mpr hx) hdev
                obtain ⟨rec, hp, hlen, hloc, hsf', hsd'⟩ := parseDefinition_plain h r a g0 g1 nf F hfl hdd
                simp only [List.cons_append, List.nil_append, List.append_assoc] at hp
                have hlenEq : rec.len = (h :: r :: a :: g0 :: g1 :: nf :: F).length := by
                  simp only [List.length_cons, hfl, hlen]; omega
                have hstep : lenStep (some defs) ⟨rawFlagMesgDef, [h] ++ [r, a, g0, g1, nf] ++ F⟩ =
                    some (defs.set (h &&& 0xF) (sizeSum F)) := by
                  simp only [lenStep, hnotHdr, if_false, if_true, List.cons_append, List.nil_append, List.append_assoc, hp,
                    hisdef, hlenEq, true_and, hloc, hsf', hsd', Nat.add_zero]
                have hsl : ([h] ++ [r, a, g0, g1, nf] ++ F).length = 6 + nf * 3 := by
                  simp only [List.length_append, List.length_cons, List.length_nil, hfl]; try omega
                have pstep := posStep_rec ds used rawFlagMesgDef ([h] ++ [r, a, g0, g1, nf] ++ F) (Or.inl rfl) hu
                refine emit_post failAt st _ _ R3 _ ?_ ?_ ?_ (fun st' hsegs hseqs => ?_)
                · rw [← h1]; simp [List.append_assoc]
                · rw [h2, hstep]; rfl
                · rw [hpw, pstep]; rfl
                · refine ih _ _ st' R3 k (defs.set (h &&& 0xF) (sizeSum F)) ?_ ?_ ?_ hb3 ?_ ?_ hk
                  · rw [hsegs, flat_push, ← h1]; simp [List.append_assoc]
                  · rw [walk_of_segs st' st _ hsegs, h2, hstep]
                  · rw [hbit4 hisdef, show 1 + sizeSum F = sizeSum F + 1 by omega]
                    exact relLens_set hrel _ _
                  · rw [pwalk_of_segs st' st _ hsegs, hpw, pstep, hsl]
                  · omega
        · simp only [hdef, if_false]
          -- data
          have hnd : FitFormat.isDefinition h = false := by
            cases hx : FitFormat.isDefinition h with
            | false => rfl
            | true => exact absurd (hbit1.mpr hx) hdef
          have hnd1 : ¬ (rawFlagMesgData = rawFlagFileHeader) := by decide
          have hnd2 : ¬ (rawFlagMesgData = rawFlagMesgDef) := by decide
          by_cases hz : lens.get (localMesgNum h) = 0
          · simp only [hz, if_true, runExactR]
            exact post_fail st _ [h] rest1 (by simpa using h1) hw
          · simp only [hz, if_false]
            by_cases hbig : rawBytesArrayLen < lens.get (localMesgNum h)
            · simp only [hbig, if_true, runExactR]
              exact post_fail st _ [h] rest1 (by simpa using h1) hw
            · simp only [hbig, if_false]
              rw [run_read]
              split
              case isFalse => exact post_fail st _ _ [] (by simpa using h1) hw
              case isTrue hlp =>
                have hsp := split_at hlp
                have hpl : (rest1.take (lens.get (localMesgNum h) - 1)).length = lens.get (localMesgNum h) - 1 := by
                  rw [List.length_take]; exact Nat.min_eq_left hlp
                have hbp : IsBytes (rest1.drop (lens.get (localMesgNum h) - 1)) := isBytes_drop hb1 _
                have hr := hrel (localMesgNum h)
                generalize rest1.take (lens.get (localMesgNum h) - 1) = Pl at *
                generalize rest1.drop (lens.get (localMesgNum h) - 1) = R2 at *
                subst hsp
                have hdefs : defs (FitFormat.localNum h) = some Pl.length := by
                  rw [hbit2] at hr hz hpl
                  cases hd : defs (FitFormat.localNum h) with
                  | none => rw [hd] at hr; exact absurd hr hz
                  | some n => rw [hd] at hr; simp only at hr; rw [hpl, hr]; simp
                have hstep : lenStep (some defs) ⟨rawFlagMesgData, [h] ++ Pl⟩ = some defs := by
                  simp only [lenStep, hnd1, hnd2, if_false, if_true, List.cons_append, List.nil_append, hnd, hdefs,
                    Bool.not_false, and_self]
                have hsl : ([h] ++ Pl).length = lens.get (localMesgNum h) := by
                  simp only [List.length_append, List.length_cons, List.length_nil, hpl]; try omega
                have pstep := posStep_rec ds used rawFlagMesgData ([h] ++ Pl) (Or.inr rfl) hu
                refine emit_post failAt st _ _ R2 _ ?_ ?_ ?_ (fun st' hsegs hseqs => ?_)
                · rw [← h1]; simp [List.append_assoc]
                · rw [h2, hstep]; rfl
                · rw [hpw, pstep]; rfl
                · refine ih _ _ st' R2 k defs ?_ ?_ hrel hbp ?_ ?_ hk
                  · rw [hsegs, flat_push, ← h1]; simp [List.append_assoc]
                  · rw [walk_of_segs st' st _ hsegs, h2, hstep]
                  · rw [pwalk_of_segs st' st _ hsegs, hpw, pstep, hsl]
                  · omega

theorem lenStep_crc (d : FitFormat.Defs) (c : Bytes) (hc : c.length = 2) : lenStep (some d) ⟨rawFlagCRC, c⟩ = some d := by
  have h1 : ¬ (rawFlagCRC = rawFlagFileHeader) := by decide
  have h2 : ¬ (rawFlagCRC = rawFlagMesgDef) := by decide
  have h3 : ¬ (rawFlagCRC = rawFlagMesgData) := by decide
  simp only [lenStep, h1, h2, h3, if_false, if_true, hc]

theorem decode_post {bs : Bytes} (failAt : Option Nat) (fuel : Nat) :
    ∀ (st : St) (rest : Bytes), flat st.segs.reverse ++ rest = bs → (walk st).isSome → pwalk st = some .outside →
      IsBytes rest → Post bs (runExactR (decode failAt fuel st) rest) := by
  induction fuel with
  | zero => intro st rest h1 hw hp _; exact post_done st rest h1 hw hp
  | succ fuel ih =>
    intro st rest h1 hw0 hp hb
    have hw : Alive st := ⟨hw0, by rw [hp]; rfl⟩
    simp only [decode]
    rw [run_read]
    split
    case isFalse hl =>
      have hr : rest = [] := by cases rest with | nil => rfl | cons _ _ => simp at hl
      subst hr
      simp only [List.isEmpty_nil, if_true]
      split
      · exact post_done st [] h1 hw0 hp
      · exact post_fail st _ [] [] (by simpa using h1) hw
    case isTrue hl1 =>
      obtain ⟨b0, rest1, rfl⟩ : ∃ h rest1, rest = h :: rest1 := by
        cases rest with
        | nil => simp at hl1
        | cons h t => exact ⟨h, t, rfl⟩
      have hb1 : IsBytes rest1 := fun x hx => hb x (by simp [hx])
      simp only [List.take_succ_cons, List.take_zero, List.drop_succ_cons, List.drop_zero, List.headD_cons]
      by_cases hsz : b0 ≠ 12 ∧ b0 ≠ 14
      · simp only [eq_true hsz, if_true, runExactR]
        exact post_fail st _ [b0] rest1 (by simpa using h1) hw
      · simp only [eq_false hsz, if_false]
        rw [run_read]
        split
        case isFalse => exact post_fail st _ _ [] (by simpa using h1) hw
        case isTrue hlh =>
          have hsh := split_at hlh
          have hhl : (rest1.take (b0 - 1)).length = b0 - 1 := by rw [List.length_take]; exact Nat.min_eq_left hlh
          have hb2 : IsBytes (rest1.drop (b0 - 1)) := isBytes_drop hb1 _
          generalize rest1.take (b0 - 1) = B at *
          generalize rest1.drop (b0 - 1) = R2 at *
          subst hsh
          by_cases htag : (B.drop 7).take 4 ≠ dataTypeFIT
          · simp only [eq_true htag, if_true, runExactR]
            exact post_fail st _ (b0 :: B) R2 (by rw [← h1]; simp) hw
          · simp only [eq_false htag, if_false]
            obtain ⟨d0, hd0⟩ := Option.isSome_iff_exists.mp hw0
            have hstep : lenStep (some d0) ⟨rawFlagFileHeader, [b0] ++ B⟩ = some FitFormat.Defs.empty := by
              have : (b0 = 12 ∨ b0 = 14) ∧ (b0 :: B).length = b0 := by
                simp only [List.length_cons, hhl]; omega
              simp only [lenStep, if_true, List.cons_append, List.nil_append, List.headD_cons, this, and_self]
            obtain ⟨hh, hph, hds⟩ := parseHeader_of_raw b0 B (by omega) hhl (by simpa using htag)
            have pstep : posStep (some .outside) ⟨rawFlagFileHeader, [b0] ++ B⟩ = some (.inside (le32 (B.drop 3)) 0) := by
              simp only [posStep, if_true, List.cons_append, List.nil_append, hph, Option.map_some, hds]
            refine emit_post failAt st _ _ R2 _ (by rw [← h1]; simp) (by rw [hd0, hstep]; rfl) (by rw [hp, pstep]; rfl)
              (fun st' hsegs hseqs => ?_)
            refine msgs_post failAt _ _ 0 [] st' R2 _ FitFormat.Defs.empty ?_ ?_ relLens_empty hb2 ?_ (by omega) ?_
            · rw [hsegs, flat_push, ← h1]; simp
            · rw [walk_of_segs st' st _ hsegs, hd0, hstep]
            · rw [pwalk_of_segs st' st _ hsegs, hp, pstep]
            · intro st2 rest2 h12 hw2 hbb ⟨u2, hp2, hu2⟩
              have hal2 : Alive st2 := ⟨hw2, by rw [hp2]; rfl⟩
              rw [run_read]
              split
              case isFalse => exact post_fail st2 _ rest2 [] (by simpa using h12) hal2
              case isTrue hlc =>
                have hsc := split_at hlc
                have hcl : (rest2.take 2).length = 2 := by rw [List.length_take]; exact Nat.min_eq_left hlc
                have hb3 : IsBytes (rest2.drop 2) := isBytes_drop hbb _
                generalize rest2.take 2 = C at *
                generalize rest2.drop 2 = R3 at *
                subst hsc
                obtain ⟨d2, hd2⟩ := Option.isSome_iff_exists.mp hw2
                refine emit_post failAt st2 _ _ R3 _ (by rw [← h12]; simp) (by rw [hd2, lenStep_crc d2 C hcl]; rfl)
                  (by rw [hp2, posStep_crc _ _ C hu2]; rfl) (fun st3 hsegs3 _ => ?_)
                refine ih _ R3 ?_ ?_ ?_ hb3
                · simp only; rw [hsegs3, flat_push, ← h12]; simp
                · have : walk { st3 with seqs := st3.seqs + 1 } = walk st3 := rfl
                  rw [this, walk_of_segs st3 st2 _ hsegs3, hd2, lenStep_crc d2 C hcl]; rfl
                · have : pwalk { st3 with seqs := st3.seqs + 1 } = pwalk st3 := rfl
                  rw [this, pwalk_of_segs st3 st2 _ hsegs3, hp2, posStep_crc _ _ C hu2]

/-! ### the byte count `n` that `Decode` returns, over a reader without failures -/

/-- every client of `io.ReadFull`, over ANY schedule without failures (in particular `bytes.NewReader`): the run that
also counts the bytes pulled from the reader (`runFullN`, what the driver executes for the `raw` operation) gives the
outcome of the exact-n reader on the same bytes and counts exactly `consumedExact` -/
theorem runFullN_eq_exact {α : Type} (p : Prog α) : ∀ (s : Sched) (n0 : Nat), Clean s →
    runFullN p s n0 = (runExact p (bytesOf s), n0 + consumedExact p (bytesOf s)) := by
  induction p with
  | ret a => intro s n0 _; simp [runFullN, runExact, consumedExact]
  | read n k ih =>
    intro s n0 hs
    obtain ⟨d, e, s', hr, hcat, hcl, hdl, hok, hshort⟩ := readAtLeast_clean n n (Nat.le_refl n) s hs
    have hrf : readFull n s = (d, e, s') := hr
    by_cases hlen : n ≤ (bytesOf s).length
    · obtain ⟨he, hmin⟩ := hok hlen
      subst he
      have hdn : d.length = n := by omega
      have hd : d = (bytesOf s).take n := by
        rw [← hcat, List.take_append_of_le_length (by omega), ← hdn, List.take_length]
      have hs' : bytesOf s' = (bytesOf s).drop n := by
        rw [← hcat, List.drop_append_of_le_length (by omega), ← hdn, List.drop_length, List.nil_append]
      simp only [runFullN, hrf, runExact, consumedExact, exactRead, hlen, if_true]
      rw [ih _ s' _ hcl, hs', ← hd, hdn]
      simp only [List.length_drop, Prod.mk.injEq, true_and]
      omega
    · obtain ⟨hs', he⟩ := hshort (by omega)
      subst hs' he
      have hd : d = bytesOf s := by simpa [bytesOf_nil] using hcat
      have hee : (if d = [] then RErr.eof else RErr.unexpectedEof) =
          (if (bytesOf s).isEmpty then RErr.eof else RErr.unexpectedEof) := by
        rw [hd]; cases bytesOf s <;> simp
      simp only [runFullN, hrf, runExact, consumedExact, exactRead, hlen, if_false]
      have hdl' : d.length = (bytesOf s).length := by rw [hd]
      rw [ih _ [] _ clean_nil, hee]
      simp only [bytesOf_nil, List.length_nil, Nat.sub_zero, Prod.mk.injEq]
      cases hie : (bytesOf s).isEmpty <;> simp only [Bool.false_eq_true, if_false, if_true, true_and, List.length_nil, Nat.sub_zero] <;> omega

/-! ### failures of the reader are handed back -/

/-- every request of the raw decoder, when it fails with a failure of the reader, ends the run with that error -/
inductive RKeeps : P → Prop
  | ret (a : Out) : RKeeps (.ret a)
  | read (n : Nat) (k : Except RErr Bytes → P) :
      (∀ bs, RKeeps (k (.ok bs))) → (∀ e, RKeeps (k (.error e))) →
      (∀ e, e.isReaderFailure = true → ∃ a, k (.error e) = .ret a ∧ a.status = some (.io e)) → RKeeps (.read n k)

theorem rkeeps_run (p : P) (hp : RKeeps p) :
    ∀ (s : Sched) (e : RErr), firstFullErr p s = some e → (runFull p s).status = some (.io e) := by
  induction hp with
  | ret a => intro s e h; simp [firstFullErr] at h
  | read n k _ _ herr ihok iherr =>
    intro s e h
    simp only [firstFullErr] at h
    simp only [runFull]
    cases hr : readFull n s with
    | mk d r =>
      cases r with
      | mk eo s' =>
        rw [hr] at h
        cases eo with
        | none => exact ihok d s' e h
        | some e' =>
          simp only at h ⊢
          by_cases hf : e'.isReaderFailure = true
          · simp only [hf, if_true, Option.some.injEq] at h
            subst h
            obtain ⟨a, hk, hs⟩ := herr e' hf
            rw [hk]; exact hs
          · simp only [hf, if_false] at h
            exact iherr e' s' e h

theorem rkeeps_fail_read (n : Nat) (st : St) (k : Bytes → P) (hk : ∀ b, RKeeps (k b)) :
    RKeeps (.read n fun | .error e => .ret (fail st (.io e)) | .ok b => k b) :=
  RKeeps.read n _ (fun bs => hk bs) (fun e => RKeeps.ret _) (fun e _ => ⟨_, rfl, rfl⟩)

theorem rkeeps_emit (failAt : Option Nat) (st : St) (flag : Nat) (bytes : Bytes) (k : St → P) (hk : ∀ st', RKeeps (k st')) :
    RKeeps (emit failAt st flag bytes k) := by
  unfold emit
  simp only
  split
  · exact hk _
  · split
    · exact RKeeps.ret _
    · exact hk _

theorem rkeeps_msgs (failAt : Option Nat) (ds : Nat) (fuel : Nat) : ∀ (used : Nat) (lens : Lens) (st : St) (k : St → P),
    (∀ st', RKeeps (k st')) → RKeeps (msgs failAt ds fuel used lens st k) := by
  induction fuel with
  | zero => intro used lens st k hk; exact hk st
  | succ fuel ih =>
    intro used lens st k hk
    simp only [msgs]
    split
    · refine rkeeps_fail_read 1 st _ (fun hb => ?_)
      split
      · refine rkeeps_fail_read 5 st _ (fun b5 => ?_)
        refine rkeeps_fail_read _ st _ (fun fb => ?_)
        split
        · refine rkeeps_fail_read 1 st _ (fun nb => ?_)
          refine rkeeps_fail_read _ st _ (fun db => ?_)
          exact rkeeps_emit _ _ _ _ _ (fun st' => ih _ _ _ _ hk)
        · exact rkeeps_emit _ _ _ _ _ (fun st' => ih _ _ _ _ hk)
      · split
        · exact RKeeps.ret _
        · split
          · exact RKeeps.ret _
          · refine rkeeps_fail_read _ st _ (fun pb => ?_)
            exact rkeeps_emit _ _ _ _ _ (fun st' => ih _ _ _ _ hk)
    · exact hk st

/-- the raw decoder hands every failure of the reader back as the error of `Decode` -/
theorem rkeeps_decode (failAt : Option Nat) (fuel : Nat) : ∀ (st : St), RKeeps (decode failAt fuel st) := by
  induction fuel with
  | zero => intro st; exact RKeeps.ret _
  | succ fuel ih =>
    intro st
    simp only [decode]
    refine RKeeps.read 1 _ (fun b0 => ?_) (fun e => by simp only; split <;> exact RKeeps.ret _) (fun e he => ?_)
    · simp only
      split
      · exact RKeeps.ret _
      · refine rkeeps_fail_read _ st _ (fun b => ?_)
        split
        · exact RKeeps.ret _
        · refine rkeeps_emit _ _ _ _ _ (fun st' => ?_)
          refine rkeeps_msgs _ _ _ _ _ _ _ (fun st2 => ?_)
          refine rkeeps_fail_read 2 st2 _ (fun c => ?_)
          exact rkeeps_emit _ _ _ _ _ (fun st3 => ih _)
    · have hne : e ≠ .eof := by intro h; subst h; simp [RErr.isReaderFailure] at he
      exact ⟨fail st (.io e), by simp only [hne, and_false, if_false], rfl⟩

end Fit.Raw
