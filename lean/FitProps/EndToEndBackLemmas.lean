import FitProps.EndToEndLemmas
import FitProps.EndToEndDescLemmas
import FitProps.EndToEndBackLoopLemmas
/-!
The RE-ENCODING direction of C01, composed: decoder output handed back to the encoder.

* `validateAll_retained`: outside the class `kfF64Dev`, what `Validate` returns for decoded messages is
  `Fit.E2E.retained` — the messages as they are minus the invalid-valued fields (from `C10_validate_filter`).
* `retained_good`: what is retained of GOOD decoded messages (`decodeChain_good`) meets the typing assumptions of the
  end-to-end theorems (`inDomain`), lies outside the three finding classes of the forward direction (`noKF`) and — outside
  the class `kfPieces` — is in wire-normal form (`seqNormal`), given what acceptance by the validator
  guarantees (`KeptOK`: alignment).
-/
set_option linter.unusedSimpArgs false
set_option linter.unusedVariables false
namespace Fit.E2E
open Fit.Gen Fit.Gen.DecApi Fit.Value Fit.Utf8 Fit.DecApi Fit.Msg Fit.Validator

/-! ### the validator on decoded messages -/

/-- the field a decoded field is handed back as -/
def backF (d : DField) : Field := ⟨some (baseOf d), d.value, d.expanded⟩
/-- the developer field a decoded developer field is handed back as -/
def backD (d : DDev) : DevField := ⟨d.idx, d.num, d.value⟩

theorem ofDecoded_fields (m : DecApi.Msg) : (ofDecoded m).fields = m.fields.map backF := rfl
theorem ofDecoded_devs (m : DecApi.Msg) : (ofDecoded m).devFields = m.devs.map backD := rfl
theorem ofDecoded_num (m : DecApi.Msg) : (ofDecoded m).num = m.num := rfl

theorem restoredField_backF (D : Discard) (d : DField) : restoredField D (backF d) = backF d := by
  simp [restoredField, backF, restoreField, baseOf, scaleNotOne, offsetNotZero, f64One]

theorem keepField_backF (D : Discard) (o : Options) (d : DField) :
    keepField D o (backF d) = (!d.expanded && (!o.omitInvalid || valid d.value d.bt)) := by
  simp [keepField, backF, restoreField, baseOf, scaleNotOne, offsetNotZero, f64One]

theorem specFields_ofDecoded (D : Discard) (o : Options) (m : DecApi.Msg) :
    specFields D o (ofDecoded m).fields = keptFields o.omitInvalid m := by
  unfold specFields keptFields
  rw [ofDecoded_fields]
  have h1 : ∀ f ∈ (m.fields.map backF).filter (keepField D o), restoredField D f = f := by
    intro f hf
    obtain ⟨d, _, rfl⟩ := List.mem_map.mp (List.mem_filter.mp hf).1
    exact restoredField_backF D d
  rw [List.map_congr_left h1, List.map_id']
  apply List.filter_congr
  intro f hf
  obtain ⟨d, _, rfl⟩ := List.mem_map.mp hf
  rw [keepField_backF]
  rfl

theorem discardValue_id (D : Discard) (v : Value) (bt sc off : Nat) (h : f64Typed v = false) : discardValue D v bt sc off = v := by
  cases v <;> simp [f64Typed] at h <;> rfl

theorem restoreDev_id (D : Discard) (o : Options) (fd : FieldDesc) (d : DevField)
    (h : (f64Typed d.value && restoreApplies o fd) = false) : restoreDev D o fd d = d := by
  unfold restoreDev
  cases hf : f64Typed d.value with
  | false =>
    split
    · simp only
      split
      · simp [discardValue_id D _ _ _ _ hf]
      · rfl
    · split
      · simp [discardValue_id D _ _ _ _ hf]
      · rfl
  | true =>
    rw [hf, Bool.true_and] at h
    unfold restoreApplies at h
    split
    · rename_i hn
      rw [if_pos hn] at h
      simp only at h
      rw [if_neg (by simpa using h)]
    · rename_i hn
      rw [if_neg hn] at h
      rw [if_neg (by simpa using h)]

/-- **`Validate` on a decoded message, outside the class `kfF64Dev`**: the accepted message is the decoded message minus
the invalid-valued fields and developer fields, nothing restored or converted -/
theorem validate_retained (D : Discard) (o : Options) (st : State) (m : DecApi.Msg) (km : Message)
    (h : (validate D o st (ofDecoded m)).1 = .ok km)
    (hcl : ((ofDecoded m).devFields.any fun d => f64Typed d.value &&
      (match lookupFd (remember st m.num (keptFields o.omitInvalid m)).fds d with
       | some fd => restoreApplies o fd
       | none => false)) = false) :
    [km] = retained o.omitInvalid st [m] ∧ (validate D o st (ofDecoded m)).2 = remember st m.num (keptFields o.omitInvalid m) := by
  obtain ⟨hnum, hf, hd⟩ := Fit.C10.C10_validate_filter D o st (ofDecoded m) km h
  have hst := validate_state D o st (ofDecoded m) km h
  have hf' : km.fields = keptFields o.omitInvalid m := by
    rw [hf]; exact specFields_ofDecoded D o m
  have hst' : (validate D o st (ofDecoded m)).2 = remember st m.num (keptFields o.omitInvalid m) := by
    rw [hst, hf', ofDecoded_num]
  refine ⟨?_, hst'⟩
  simp only [retained, List.cons.injEq, and_true]
  rw [hst'] at hd
  have hnone : ∀ d ∈ (ofDecoded m).devFields, ∀ fd,
      lookupFd (remember st m.num (keptFields o.omitInvalid m)).fds d = some fd → restoreDev D o fd d = d := by
    intro d hdm fd hl
    apply restoreDev_id
    have := List.any_eq_false.mp hcl d hdm
    simp only [hl] at this
    simpa using this
  have hd' : km.devFields = (ofDecoded m).devFields.filter fun d =>
      match lookupFd (remember st m.num (keptFields o.omitInvalid m)).fds d with
      | some fd => !o.omitInvalid || valid d.value fd.btId
      | none => true := by
    rw [hd]
    have h1 : ∀ d ∈ (ofDecoded m).devFields.filter (keepDev D o (remember st m.num (keptFields o.omitInvalid m))),
        restoredDev D o (remember st m.num (keptFields o.omitInvalid m)) d = d := by
      intro d hdm
      have hdm' := (List.mem_filter.mp hdm).1
      unfold restoredDev
      cases hl : lookupFd (remember st m.num (keptFields o.omitInvalid m)).fds d with
      | none => rfl
      | some fd => exact hnone d hdm' fd hl
    rw [List.map_congr_left h1, List.map_id']
    apply List.filter_congr
    intro d hdm
    unfold keepDev
    cases hl : lookupFd (remember st m.num (keptFields o.omitInvalid m)).fds d with
    | none => rfl
    | some fd => simp only [hnone d hdm fd hl]
  cases km with
  | mk n fs ds =>
    simp only at hnum hf' hd'
    rw [hnum, hf', hd']
    rfl

theorem validateAll_retained (D : Discard) (o : Options) : ∀ (ms : List DecApi.Msg) (st : State) (kept : List Message),
    validateAll D o st (ms.map ofDecoded) = .ok kept → kfF64Dev o st ms = false → kept = retained o.omitInvalid st ms := by
  intro ms
  induction ms with
  | nil =>
    intro st kept h _
    simp only [List.map_nil, validateAll, Except.ok.injEq] at h
    subst h; rfl
  | cons m ms ih =>
    intro st kept h hcl
    simp only [List.map_cons, validateAll] at h
    simp only [kfF64Dev, Bool.or_eq_false_iff] at hcl
    cases hv : validate D o st (ofDecoded m) with
    | mk r st' =>
      rw [hv] at h
      cases r with
      | error e => simp at h
      | ok km =>
        simp only at h
        have hok : (validate D o st (ofDecoded m)).1 = .ok km := by rw [hv]
        obtain ⟨hkm, hst⟩ := validate_retained D o st m km hok hcl.1
        have hst'' : st' = remember st m.num (keptFields o.omitInvalid m) := by
          rw [← hst, hv]
        cases hr : validateAll D o st' (ms.map ofDecoded) with
        | error e => rw [hr] at h; simp [Except.map] at h
        | ok kept' =>
          rw [hr] at h
          simp only [Except.map, Except.ok.injEq] at h
          subst h
          have := ih st' kept' hr (by rw [hst'']; exact hcl.2)
          rw [this, hst'']
          simp only [retained, List.cons.injEq] at hkm ⊢
          exact ⟨hkm.1, trivial⟩

/-! ### good decoded fields, seen from the encoder's side -/

theorem fieldClass_backF (p : Nat → Bool → Bool → Value → Bool) (fac : Factory) (n : Nat) (d : DField) :
    fieldClass p fac n (backF d) = p (rd fac n d).1 (rd fac n d).2.1 (rd fac n d).2.2 d.value := rfl

theorem fieldBack_backF (g : ValueFn) (fac : Factory) (n : Nat) (d : DField) :
    fieldBack g false fac n (backF d) = some ⟨d.num, (rd fac n d).1, g (rd fac n d).1 (rd fac n d).2.1 (rd fac n d).2.2 d.value⟩ := by
  simp [fieldBack, backF, rd, baseOf]

theorem agreeField_backF (fac : Factory) (n : Nat) (d : DField) (hg : FieldGood fac n d) : agreeField fac n (backF d) = true := by
  simp only [agreeField, backF, baseOf]
  cases hk : (fac.create n d.num).known with
  | false => simp [hg.known, hk]
  | true =>
    obtain ⟨h1, h2, h3⟩ := hg.flags hk
    simp [hg.known, hk, h1, h2, h3]

theorem devClass_backD (p : Nat → Bool → Bool → Value → Bool) (fds : List FieldDesc) (d : DDev) (fd : FieldDesc)
    (hl : lookupFd fds (backD d) = some fd) :
    devClass p fds (backD d) = p (devReadAs fd.btId d.value).1 (devReadAs fd.btId d.value).2.1 (devReadAs fd.btId d.value).2.2 d.value := by
  simp only [devClass, hl]; rfl

theorem devBack_backD (g : ValueFn) (fds : List FieldDesc) (d : DDev) (fd : FieldDesc) (hl : lookupFd fds (backD d) = some fd) :
    devBack g false fds (backD d) = some ⟨d.num, d.idx,
      g (devReadAs fd.btId d.value).1 (devReadAs fd.btId d.value).2.1 (devReadAs fd.btId d.value).2.2 d.value⟩ := by
  simp only [devBack, hl]; simp [backD]

/-- one retained message against the good decoded message it comes from -/
structure FromGood (fac : Factory) (m : DecApi.Msg) (km : Message) : Prop where
  num : km.num = m.num
  fields : ∀ f ∈ km.fields, ∃ d ∈ m.fields, f = backF d
  devs : ∀ x ∈ km.devFields, ∃ d ∈ m.devs, x = backD d

theorem fromGood_classes (fac : Factory) (m : DecApi.Msg) (km : Message) (hg : MsgGood fac m) (hfg : FromGood fac m km)
    (fds : List FieldDesc)
    (hdv : ∀ d ∈ km.devFields, ∃ fd, lookupFd fds d = some fd ∧ align d.value fd.btId = true ∧ size d.value ≤ 255) :
    (km.fields.any (fieldClass (fun _ _ _ v => kfZeroV v) fac km.num) || km.devFields.any (devClass (fun _ _ _ v => kfZeroV v) fds)) = false ∧
    (km.fields.any (fieldClass kfArrV fac km.num) || km.devFields.any (devClass kfArrV fds)) = false ∧
    (km.fields.any (fieldClass (fun _ _ _ v => kfFFFDV v) fac km.num) || km.devFields.any (devClass (fun _ _ _ v => kfFFFDV v) fds)) = false := by
  have hf : ∀ f ∈ km.fields, ∃ d, FieldGood fac km.num d ∧ f = backF d := by
    intro f hf
    obtain ⟨d, hd, rfl⟩ := hfg.fields f hf
    exact ⟨d, by rw [hfg.num]; exact hg.2.1 d hd, rfl⟩
  have hd : ∀ x ∈ km.devFields, ∃ d fd, DevGood d ∧ x = backD d ∧ lookupFd fds (backD d) = some fd ∧ align d.value fd.btId = true := by
    intro x hx
    obtain ⟨d, hdm, rfl⟩ := hfg.devs x hx
    obtain ⟨fd, hl, hal, _⟩ := hdv _ hx
    exact ⟨d, fd, hg.2.2 d hdm, rfl, hl, hal⟩
  refine ⟨?_, ?_, ?_⟩ <;> simp only [Bool.or_eq_false_iff, List.any_eq_false] <;> refine ⟨?_, ?_⟩
  · intro f hfm
    obtain ⟨d, hgd, rfl⟩ := hf f hfm
    rw [fieldClass_backF]; simp [hgd.nz]
  · intro x hx
    obtain ⟨d, fd, hgd, rfl, hl, _⟩ := hd x hx
    rw [devClass_backD _ _ _ _ hl]; simp [hgd.nz]
  · intro f hfm
    obtain ⟨d, hgd, rfl⟩ := hf f hfm
    rw [fieldClass_backF]; simp [hgd.na]
  · intro x hx
    obtain ⟨d, fd, hgd, rfl, hl, hal⟩ := hd x hx
    rw [devClass_backD _ _ _ _ hl]; simp [hgd.na fd.btId hal]
  · intro f hfm
    obtain ⟨d, hgd, rfl⟩ := hf f hfm
    rw [fieldClass_backF]; simp [hgd.nf]
  · intro x hx
    obtain ⟨d, fd, hgd, rfl, hl, _⟩ := hd x hx
    rw [devClass_backD _ _ _ _ hl]; simp [hgd.nf]

theorem fromGood_normal (fac : Factory) (arch : Nat) (m : DecApi.Msg) (km : Message) (hg : MsgGood fac m) (hfg : FromGood fac m km)
    (fds : List FieldDesc)
    (hdv : ∀ d ∈ km.devFields, ∃ fd, lookupFd fds d = some fd ∧ align d.value fd.btId = true ∧ size d.value ≤ 255)
    (hp : (m.fields.any kfPiecesF || m.devs.any kfPiecesD) = false) :
    msgVariants normalValue false fac arch fds km = msgVariants idValue false fac arch fds km := by
  simp only [Bool.or_eq_false_iff, List.any_eq_false] at hp
  have hf : ∀ f ∈ km.fields, fieldBack normalValue false fac km.num f = fieldBack idValue false fac km.num f := by
    intro f hfm
    obtain ⟨d, hd, rfl⟩ := hfg.fields f hfm
    have hgd : FieldGood fac km.num d := by rw [hfg.num]; exact hg.2.1 d hd
    rw [fieldBack_backF, fieldBack_backF]
    simp only [idValue]
    rw [hgd.nv (by simpa using hp.1 d hd)]
  have hd : ∀ x ∈ km.devFields, devBack normalValue false fds x = devBack idValue false fds x := by
    intro x hx
    obtain ⟨d, hdm, rfl⟩ := hfg.devs x hx
    obtain ⟨fd, hl, hal, _⟩ := hdv _ hx
    rw [devBack_backD _ _ _ _ hl, devBack_backD _ _ _ _ hl]
    simp only [idValue]
    rw [(hg.2.2 d hdm).nv fd.btId hal (by simpa using hp.2 d hdm)]
  have hf' : ∀ f ∈ removeTs km.fields, fieldBack normalValue false fac km.num f = fieldBack idValue false fac km.num f :=
    fun f hfm => hf f (mem_removeTs km.fields f hfm)
  simp only [msgVariants]
  rw [filterMap_congr' _ _ km.fields hf, filterMap_congr' _ _ km.devFields hd, filterMap_congr' _ _ (removeTs km.fields) hf']

theorem fromGood_dom (fac : Factory) (hfac : facOKB fac = true) (hkeys : keysKnown fac = true) (m : DecApi.Msg) (km : Message)
    (hg : MsgGood fac m) (hfg : FromGood fac m km) :
    (decide (km.num < 65536) && wfMsg km && plainKeys km && km.fields.all (fun f => f.base.isSome && agreeField fac km.num f) &&
      byteNums km) = true := by
  have hf : ∀ f ∈ km.fields, ∃ d, FieldGood fac km.num d ∧ f = backF d := by
    intro f hf
    obtain ⟨d, hd, rfl⟩ := hfg.fields f hf
    exact ⟨d, by rw [hfg.num]; exact hg.2.1 d hd, rfl⟩
  have hd : ∀ x ∈ km.devFields, ∃ d, DevGood d ∧ x = backD d := by
    intro x hx
    obtain ⟨d, hdm, rfl⟩ := hfg.devs x hx
    exact ⟨d, hg.2.2 d hdm, rfl⟩
  simp only [Bool.and_eq_true, decide_eq_true_eq, wfMsg, byteNums, List.all_eq_true]
  refine ⟨⟨⟨⟨by rw [hfg.num]; exact hg.1, ?_, ?_⟩, ?_⟩, ?_⟩, ?_, ?_⟩
  · intro f hfm
    obtain ⟨d, hgd, rfl⟩ := hf f hfm
    exact hgd.wf
  · intro x hx
    obtain ⟨d, hgd, rfl⟩ := hd x hx
    exact hgd.wf
  · -- the key members of a field_description message hold plain uint8 values
    unfold plainKeys
    split
    · rename_i h206
      simp only [List.all_eq_true]
      intro f hfm
      obtain ⟨d, hgd, rfl⟩ := hf f hfm
      simp only [backF, baseOf]
      by_cases hk : d.num = fnFieldDescriptionDeveloperDataIndex ∨ d.num = fnFieldDescriptionFieldDefinitionNumber ∨
          d.num = fnFieldDescriptionFitBaseTypeId
      · have hkn : (fac.create mesgNumFieldDescription d.num).known = true := by
          simp only [keysKnown, Bool.and_eq_true] at hkeys
          rcases hk with h | h | h <;> rw [h]
          · exact hkeys.1.1
          · exact hkeys.1.2
          · exact hkeys.2
        obtain ⟨k1, k2, k3, k4, k5⟩ := facOK_key fac hfac d.num hk hkn
        rw [← h206] at hkn k1 k2 k3 k4 k5
        obtain ⟨x, hx⟩ := hgd.key hkn k1 k2 k3 k4 k5
        simp [hx]
      · simp only [not_or] at hk
        simp [hk.1, hk.2.1, hk.2.2]
    · rfl
  · intro f hfm
    obtain ⟨d, hgd, rfl⟩ := hf f hfm
    exact ⟨rfl, agreeField_backF fac km.num d hgd⟩
  · intro f hfm
    obtain ⟨d, hgd, rfl⟩ := hf f hfm
    simpa [backF, baseOf] using hgd.num
  · intro x hx
    obtain ⟨d, hgd, rfl⟩ := hd x hx
    simp only [backD, Bool.and_eq_true, decide_eq_true_eq]
    exact ⟨hgd.num, hgd.idx⟩

/-! ### a retained sequence -/

/-- the typing assumptions of `inDomain`, per message -/
def domMsg (fac : Factory) (m : Message) : Bool :=
  decide (m.num < 65536) && wfMsg m && plainKeys m && m.fields.all (fun f => f.base.isSome && agreeField fac m.num f) && byteNums m

theorem inDomain_eq (fac : Factory) (kept : List Message) : inDomain fac kept = (facOKB fac && kept.all (domMsg fac)) := rfl

theorem retained_head_fromGood (fac : Factory) (omitInv : Bool) (m : DecApi.Msg) (q : DevField → Bool) :
    FromGood fac m { num := m.num, fields := keptFields omitInv m, devFields := (ofDecoded m).devFields.filter q } := by
  have hds : ∀ x ∈ (ofDecoded m).devFields.filter q, x ∈ (ofDecoded m).devFields := fun x hx => (List.mem_filter.mp hx).1
  refine ⟨rfl, ?_, ?_⟩
  · intro f hf
    have := (List.mem_filter.mp hf).1
    rw [ofDecoded_fields] at this
    obtain ⟨d, hd, rfl⟩ := List.mem_map.mp this
    exact ⟨d, hd, rfl⟩
  · intro x hx
    have := hds x hx
    rw [ofDecoded_devs] at this
    obtain ⟨d, hd, rfl⟩ := List.mem_map.mp this
    exact ⟨d, hd, rfl⟩

/-- **what validation retains of good decoded messages**: typed as the end-to-end theorems assume, outside the three finding
classes of the forward direction, and — when no decoded field is in the class `kfPieces` — in
wire-normal form; `KeptOK` is what acceptance by the validator guarantees (alignment of every value with the base type it is
written under) -/
theorem retained_good (fac : Factory) (hfac : facOKB fac = true) (hkeys : keysKnown fac = true) (arch : Nat) (omitInv : Bool) :
    ∀ (ms : List DecApi.Msg) (vst : State), (∀ m ∈ ms, MsgGood fac m) → KeptOK vst (retained omitInv vst ms) →
    (retained omitInv vst ms).all (domMsg fac) = true ∧
    seqClass (fun _ _ _ v => kfZeroV v) fac vst (retained omitInv vst ms) = false ∧
    seqClass kfArrV fac vst (retained omitInv vst ms) = false ∧
    seqClass (fun _ _ _ v => kfFFFDV v) fac vst (retained omitInv vst ms) = false ∧
    (kfPieces ms = false → seqNormal fac arch vst (retained omitInv vst ms) = true) := by
  intro ms
  induction ms with
  | nil => intro vst _ _; simp [retained, seqClass, seqNormal]
  | cons m ms ih =>
    intro vst hg hk
    simp only [retained] at hk ⊢
    simp only [KeptOK] at hk
    obtain ⟨_, _, _, hdv, hk'⟩ := hk
    have hfg := retained_head_fromGood fac omitInv m (fun d =>
      match lookupFd (remember vst m.num (keptFields omitInv m)).fds d with
      | some fd => !omitInv || valid d.value fd.btId
      | none => true)
    have hgm := hg m (by simp)
    obtain ⟨i1, i2, i3, i4, i5⟩ := ih _ (fun x hx => hg x (List.mem_cons_of_mem _ hx)) hk'
    obtain ⟨c1, c2, c3⟩ := fromGood_classes fac m _ hgm hfg _ hdv
    refine ⟨?_, ?_, ?_, ?_, ?_⟩
    · simp only [List.all_cons, Bool.and_eq_true]
      exact ⟨fromGood_dom fac hfac hkeys m _ hgm hfg, i1⟩
    · simp only [seqClass]
      simp only [Bool.or_eq_false_iff] at c1 ⊢
      exact ⟨⟨c1.1, c1.2⟩, i2⟩
    · simp only [seqClass]
      simp only [Bool.or_eq_false_iff] at c2 ⊢
      exact ⟨⟨c2.1, c2.2⟩, i3⟩
    · simp only [seqClass]
      simp only [Bool.or_eq_false_iff] at c3 ⊢
      exact ⟨⟨c3.1, c3.2⟩, i4⟩
    · intro hp
      simp only [kfPieces, List.any_cons, Bool.or_eq_false_iff] at hp
      simp only [seqNormal, Bool.and_eq_true, beq_iff_eq]
      refine ⟨fromGood_normal fac arch m _ hgm hfg _ hdv (by simp only [Bool.or_eq_false_iff]; exact hp.1), ?_⟩
      exact i5 (by simpa [kfPieces] using hp.2)

end Fit.E2E
