import FitModel.ReadBuffer
import FitModel.Generated.Go_readbuffer
import FitProps.Go2LeanLemmas
import FitProps.ReadBufferLemmas
/-!
Agreement of the index arithmetic of `readBuffer.ReadN` / `readBuffer.Reset` GENERATED from the current source of
decoder/readbuffer.go (`FitModel/Generated/Go_readbuffer.lean`: the statement runs around the `io.ReadAtLeast` call, the
conditions, the bounds of every slice expression of `b.buf`, the arguments handed to `io.ReadAtLeast` and `make`) with the
cell-exact model `Fit.ReadBuffer.RB` (FitModel/ReadBuffer.lean) the theorems of C08 are about.

Go `int` is 64 bits; cursors, lengths and requests below 2^62 (every slice of a Go program is) never wrap.
-/
set_option linter.unusedSimpArgs false
namespace Fit.Go2Lean
open Fit.ReadBuffer Fit.Gen.Reader Go.readbuffer

theorem wrapI64_id (x : Int) (h1 : -(2:Int)^63 ≤ x) (h2 : x < (2:Int)^63) : Go.wrapI 64 x = x := by
  unfold Go.wrapI; omega

/-- the constants of decoder/readbuffer.go are the ones of the model -/
theorem rb_consts : Go.readbuffer.reservedbuf = Fit.Gen.Reader.reservedbuf ∧
    Go.readbuffer.minReadBufferSize = Fit.Gen.Reader.minReadBufferSize ∧
    Go.readbuffer.maxReadBufferSize = Fit.ReadBuffer.maxReadBufferSize ∧
    Go.readbuffer.defaultReadBufferSize = Fit.Gen.Reader.defaultReadBufferSize := by decide

/-- `remaining := b.last - b.cur` is the model's natural subtraction under the invariant `cur ≤ last`, and the fill
decision `n > remaining` is the model's `remaining < n` -/
theorem rb_remaining (cur last n : Nat) (h : cur ≤ last) (hl : last < 2^62) :
    (ReadN_remaining cur last).remaining = ((last - cur : Nat) : Int) ∧
    ReadN_needFill n (ReadN_remaining cur last).remaining = decide (last - cur < n) := by
  have : (ReadN_remaining cur last).remaining = ((last - cur : Nat) : Int) := by
    simp only [ReadN_remaining, id_run, id_pure, id_bind]
    (try simp only [Go.wrapI]); omega
  refine ⟨this, ?_⟩
  rw [this]; simp only [ReadN_needFill]
  by_cases h2 : last - cur < n <;> simp [h2] <;> omega

/-- the cursor of the refill: `cur := reservedbuf; if remaining != 0 { cur = reservedbuf - remaining }` is the model's
`if remaining ≠ 0 then reservedbuf - remaining else reservedbuf` when the unread tail fits into the reserved section, and
negative (the slice expression `b.buf[cur:]` panics) exactly when the model panics: `remaining ≠ 0 ∧ reservedbuf < remaining` -/
theorem rb_cur (rem : Nat) (hr : rem < 2^62) :
    let cur := if ReadN_hasTail rem then (ReadN_curTail ReadN_curInit.cur rem).cur else ReadN_curInit.cur
    (ReadN_hasTail rem = decide (rem ≠ 0)) ∧
    (rem ≤ Fit.Gen.Reader.reservedbuf → cur = ((if rem ≠ 0 then Fit.Gen.Reader.reservedbuf - rem else Fit.Gen.Reader.reservedbuf : Nat) : Int)) ∧
    ((ReadN_hasTail rem = true ∧ ReadN_copyDst cur < 0) ↔ (rem ≠ 0 ∧ Fit.Gen.Reader.reservedbuf < rem)) := by
  simp only [ReadN_hasTail, ReadN_curTail, ReadN_curInit, ReadN_copyDst, id_run, id_pure, id_bind, Fit.Gen.Reader.reservedbuf]
  (try simp only [Go.wrapI])
  by_cases h0 : rem = 0
  · subst h0; simp
  · have : ((rem : Int) != 0) = true := by simp; omega
    simp only [this, if_true, h0, ne_eq, not_false_eq_true, decide_true, true_and]
    refine ⟨?_, ?_⟩
    · intro h; omega
    · omega

/-- the move of the unread tail: `copy(b.buf[cur:], b.buf[b.last-remaining:])` copies to `cur` from `b.cur` (the model's
`copyWithin b.arr b.len cur b.cur`) -/
theorem rb_copy (cur last : Nat) (c : Int) (h : cur ≤ last) (hl : last < 2^62) :
    ReadN_copyDst c = c ∧ ReadN_copySrc last (ReadN_remaining cur last).remaining = (cur : Int) := by
  rw [(rb_remaining cur last 0 h hl).1]
  simp only [ReadN_copyDst, ReadN_copySrc, true_and]
  (try simp only [Go.wrapI]); omega

/-- the refill: `io.ReadAtLeast(b.r, b.buf[reservedbuf:], n-remaining)` reads into the cells from `reservedbuf` on and asks
for at least `n - remaining` bytes (the model's `readAtLeast (b.len - reservedbuf) (n - remaining)`) -/
theorem rb_fill (n rem : Nat) (h : rem < n) (hn : n < 2^62) :
    ReadN_fillLo = (Fit.Gen.Reader.reservedbuf : Int) ∧ ReadN_fillMin n rem = ((n - rem : Nat) : Int) := by
  simp only [ReadN_fillLo, ReadN_fillMin, Fit.Gen.Reader.reservedbuf]
  (try simp only [Go.wrapI]); omega

/-- after the refill: `b.cur = cur; b.last = reservedbuf + nr` (the model's `cur := cur, last := reservedbuf + d.length`) -/
theorem rb_refill (c0 l0 cur : Int) (nr : Nat) (h : nr < 2^62) :
    ReadN_refill c0 l0 cur nr = ⟨cur, ((Fit.Gen.Reader.reservedbuf + nr : Nat) : Int)⟩ := by
  simp only [ReadN_refill, id_run, id_pure, id_bind, Fit.Gen.Reader.reservedbuf, ReadN_refill.Out.mk.injEq, true_and]
  (try simp only [Go.wrapI]); omega

/-- the returned window `b.buf[b.cur : b.cur+n]` and `b.cur += n` (the model's `RB.slice`: cells `cur … cur+n`, then `cur + n`) -/
theorem rb_window (cur n : Nat) (hc : cur < 2^62) (hn : n < 2^62) :
    ReadN_winLo cur = (cur : Int) ∧ ReadN_winHi cur n = ((cur + n : Nat) : Int) ∧
    (ReadN_window cur n).b_cur = ((cur + n : Nat) : Int) := by
  simp only [ReadN_winLo, ReadN_winHi, ReadN_window, id_run, id_pure, id_bind]
  (try simp only [Go.wrapI])
  refine ⟨?_, ?_, ?_⟩ <;> first | exact True.intro | omega

/-- `Reset`: the clamp of the requested size is the model's `clampSize`, for every Go `int` -/
theorem rb_clamp (size : Int) : (Reset_clamp size).size = (clampSize size : Int) := by
  simp only [Reset_clamp, id_run, id_pure, id_bind, clampSize, Fit.Gen.Reader.minReadBufferSize, Fit.ReadBuffer.maxReadBufferSize]
  by_cases h1 : size < 765
  · simp [h1]
  · by_cases h2 : size > 4294967295
    · simp [h1, h2]
    · simp [h1, h2]; omega

/-- `Reset`: a new array is allocated exactly when the model allocates one (`oldsize` is `cap(b.buf) - reservedbuf`:
`b.arr.length < reservedbuf + size`), it has `reservedbuf + size` cells, and `len(b.buf)` becomes `reservedbuf + size` -/
theorem rb_reset (cap size : Nat) (hs : size < 2^62) :
    Reset_grow ((cap : Int) - (Go.readbuffer.reservedbuf : Int)) size = decide (cap < Fit.Gen.Reader.reservedbuf + size) ∧
    Reset_allocLen size = ((Fit.Gen.Reader.reservedbuf + size : Nat) : Int) ∧
    Reset_len size = ((Fit.Gen.Reader.reservedbuf + size : Nat) : Int) := by
  simp only [Reset_grow, Reset_allocLen, Reset_len, Fit.Gen.Reader.reservedbuf, Go.readbuffer.reservedbuf]
  (try simp only [Go.wrapI])
  refine ⟨?_, by omega, by omega⟩
  by_cases h : cap < 765 + size <;> simp [h] <;> omega

/-! ### the step function re-assembled from the translated pieces -/

theorem readAtLeast_none_len (cap min : Nat) (s s' : Sched) (d : Bytes) (h : readAtLeast cap min s = (d, none, s')) :
    d.length ≤ cap := by
  by_cases hm : min ≤ cap
  · obtain ⟨d', e', s'', h1, _, h3, _⟩ := readAtLeast_gen cap min hm s
    rw [h1] at h; cases h; exact h3
  · simp [readAtLeast, Nat.lt_of_not_le hm] at h

/-- the final `buf := b.buf[b.cur : b.cur+n]; b.cur += n; return buf, nil` from the translated bounds and cursor update; Go checks
`0 ≤ lo ≤ hi ≤ cap(b.buf)` -/
def windowGo (b : RB) (n : Int) : Res × RB :=
  let lo := ReadN_winLo b.cur
  let hi := ReadN_winHi b.cur n
  if 0 ≤ lo ∧ lo ≤ hi ∧ hi ≤ (b.arr.length : Int) then
    (.ok ((b.arr.drop lo.toNat).take (hi - lo).toNat), { b with cur := (ReadN_window b.cur n).b_cur.toNat })
  else (.panic, b)

/-- `ReadN` RE-ASSEMBLED FROM THE TRANSLATED PIECES in the order of the Go text. Taken from the model: the three calls outside
the subset (`copy` = `copyWithin`, `io.ReadAtLeast` = `readAtLeast`, storing its bytes = `writeAt`) and Go's rule for slice
bounds (`0 ≤ lo ≤ len` for `b.buf[lo:]`, `0 ≤ lo ≤ hi ≤ cap` for `b.buf[lo:hi]`). -/
def readNGo (b : RB) (n : Int) : Res × RB :=
  let remaining := (ReadN_remaining b.cur b.last).remaining
  if ReadN_needFill n remaining then
    let cur := if ReadN_hasTail remaining then (ReadN_curTail ReadN_curInit.cur remaining).cur else ReadN_curInit.cur
    let dst := ReadN_copyDst cur
    let src := ReadN_copySrc b.last remaining
    if ReadN_hasTail remaining = true ∧ ¬ (0 ≤ dst ∧ dst ≤ (b.len : Int) ∧ 0 ≤ src ∧ src ≤ (b.len : Int)) then (.panic, b)
    else if ¬ (0 ≤ ReadN_fillLo ∧ ReadN_fillLo ≤ (b.len : Int)) then (.panic, b)
    else
      let arr1 := if ReadN_hasTail remaining then copyWithin b.arr b.len dst.toNat src.toNat else b.arr
      match readAtLeast (b.len - ReadN_fillLo.toNat) (ReadN_fillMin n remaining).toNat b.src with
      | (d, some e, src') => (.err e, { b with arr := writeAt arr1 ReadN_fillLo.toNat d, src := src' })
      | (d, none, src') =>
        let o := ReadN_refill b.cur b.last cur d.length
        windowGo { arr := writeAt arr1 ReadN_fillLo.toNat d, len := b.len, cur := o.b_cur.toNat, last := o.b_last.toNat, src := src' } n
  else windowGo b n

theorem windowGo_eq (b : RB) (n : Nat) (hc : b.cur < 2^62) (hn : n < 2^62) : windowGo b n = b.slice n := by
  obtain ⟨w1, w2, w3⟩ := rb_window b.cur n hc hn
  simp only [windowGo, RB.slice, w1, w2, w3]
  by_cases h : b.arr.length < b.cur + n
  · have : ¬ ((0:Int) ≤ (b.cur : Int) ∧ (b.cur : Int) ≤ ((b.cur + n : Nat) : Int) ∧ ((b.cur + n : Nat) : Int) ≤ (b.arr.length : Int)) := by omega
    rw [if_neg this, if_pos h]
  · have : ((0:Int) ≤ (b.cur : Int) ∧ (b.cur : Int) ≤ ((b.cur + n : Nat) : Int) ∧ ((b.cur + n : Nat) : Int) ≤ (b.arr.length : Int)) := by omega
    have e1 : (((b.cur + n : Nat) : Int) - (b.cur : Int)).toNat = n := by omega
    rw [if_pos this, if_neg h]
    simp only [e1, Int.toNat_natCast]

/-- THE RECOMPOSITION: for every buffer state with cursors in order inside the slice and the slice inside its array (the first
three clauses of the model's invariant `Inv`), every reader schedule and every request, `ReadN` re-assembled from the
translated pieces IS the model's step function — result, bytes, cells, cursors, rest of the schedule -/
theorem rb_readN_recomposed (b : RB) (n : Nat) (h1 : b.cur ≤ b.last) (h2 : b.last ≤ b.len) (h3 : b.len ≤ b.arr.length)
    (h4 : b.arr.length < 2^62) (hn : n < 2^62) : readNGo b n = b.readN n := by
  have hr := rb_remaining b.cur b.last n h1 (by omega)
  have hsrc : ReadN_copySrc b.last ((b.last - b.cur : Nat) : Int) = (b.cur : Int) := by
    have := (rb_copy b.cur b.last 0 h1 (by omega)).2
    rwa [hr.1] at this
  have hrem : b.last - b.cur < 2^62 := by omega
  have hle : b.cur ≤ b.len := by omega
  simp only [readNGo, RB.readN, hr.1, hsrc]
  generalize b.last - b.cur = rem at hrem ⊢
  have EN : ReadN_needFill (n : Int) (rem : Int) = decide (rem < n) := by
    simp only [ReadN_needFill]; by_cases h : rem < n <;> simp [h] <;> omega
  simp only [EN, decide_eq_true_eq]
  by_cases hfill : rem < n
  · have hf := rb_fill n rem hfill hn
    have E3 : ReadN_hasTail (rem : Int) = decide (rem ≠ 0) := by
      simp only [ReadN_hasTail]; by_cases h : rem = 0 <;> simp [h]
    have E4 : (if ReadN_hasTail (rem : Int) = true then (ReadN_curTail ReadN_curInit.cur rem).cur else ReadN_curInit.cur)
        = if rem ≠ 0 then (765 : Int) - rem else 765 := by
      simp only [E3, decide_eq_true_eq, ReadN_curTail, ReadN_curInit, id_run, id_pure, id_bind]
      by_cases h : rem = 0
      · simp [h]
      · simp only [h, ne_eq, not_false_eq_true, if_true]; unfold Go.wrapI; omega
    have E8 : ∀ (a c x : Int) (k : Nat), k < 2^62 → ReadN_refill a c x k = ⟨x, ((765 + k : Nat) : Int)⟩ := by
      intro a c x k hk; have := rb_refill a c x k hk; simpa [Fit.Gen.Reader.reservedbuf] using this
    simp only [hfill, if_true, hf.1, hf.2, Int.toNat_natCast, E4, ReadN_copyDst, Fit.Gen.Reader.reservedbuf]
    simp only [E3, decide_eq_true_eq]
    rcases hra : readAtLeast (b.len - 765) (n - rem) b.src with ⟨d, e, s'⟩
    have hd : e = none → d.length < 2^62 := by
      intro he; subst he; have := readAtLeast_none_len _ _ _ _ _ hra; omega
    by_cases h0 : rem = 0
    · subst h0
      simp only [ne_eq, not_true_eq_false, false_and, if_false, Nat.sub_zero]
      by_cases hl : b.len < 765
      · have : ¬ ((0 : Int) ≤ ((765 : Nat) : Int) ∧ ((765 : Nat) : Int) ≤ (b.len : Int)) := by omega
        rw [if_pos this, if_pos hl]
      · have : ¬ ¬ ((0 : Int) ≤ ((765 : Nat) : Int) ∧ ((765 : Nat) : Int) ≤ (b.len : Int)) := by omega
        rw [if_neg this, if_neg hl]
        cases e with
        | some e => rfl
        | none =>
          simp only [E8 _ _ _ _ (hd rfl)]
          exact windowGo_eq _ n (by simp) hn
    · simp only [h0, ne_eq, not_false_eq_true, if_true, true_and]
      by_cases hbig : 765 < rem
      · have : ¬ ((0 : Int) ≤ 765 - (rem : Int) ∧ 765 - (rem : Int) ≤ (b.len : Int) ∧ (0 : Int) ≤ (b.cur : Int) ∧ (b.cur : Int) ≤ (b.len : Int)) := by omega
        rw [if_pos this, if_pos hbig]
      · rw [if_neg hbig]
        by_cases hl : b.len < 765
        · rw [if_pos hl]
          by_cases hx : ¬ ((0 : Int) ≤ 765 - (rem : Int) ∧ 765 - (rem : Int) ≤ (b.len : Int) ∧ (0 : Int) ≤ (b.cur : Int) ∧ (b.cur : Int) ≤ (b.len : Int))
          · rw [if_pos hx]
          · have : ¬ ((0 : Int) ≤ ((765 : Nat) : Int) ∧ ((765 : Nat) : Int) ≤ (b.len : Int)) := by omega
            rw [if_neg hx, if_pos this]
        · have hx : ¬ ¬ ((0 : Int) ≤ 765 - (rem : Int) ∧ 765 - (rem : Int) ≤ (b.len : Int) ∧ (0 : Int) ≤ (b.cur : Int) ∧ (b.cur : Int) ≤ (b.len : Int)) := by omega
          have hy : ¬ ¬ ((0 : Int) ≤ ((765 : Nat) : Int) ∧ ((765 : Nat) : Int) ≤ (b.len : Int)) := by omega
          have ht : ((765 : Int) - (rem : Int)).toNat = 765 - rem := by omega
          rw [if_neg hx, if_neg hy, if_neg hl, ht]
          cases e with
          | some e => rfl
          | none =>
            simp only [E8 _ _ _ _ (hd rfl), ht, Int.toNat_natCast]
            exact windowGo_eq _ n (by simp; omega) hn
  · simp only [hfill, if_false]
    exact windowGo_eq b n (by omega) hn

end Fit.Go2Lean
