import FitModel.ReadBuffer
import FitModel.Generated.Go_readbuffer
import FitProps.Go2LeanLemmas
/-!
Agreement of the index arithmetic of `readBuffer.ReadN` / `readBuffer.Reset` GENERATED from the current source of
decoder/readbuffer.go (`FitModel/Generated/Go_readbuffer.lean`: the statement runs around the `io.ReadAtLeast` call, the
conditions, the bounds of every slice expression of `b.buf`, the arguments handed to `io.ReadAtLeast` and `make`) with the
cell-exact model `Fit.ReadBuffer.RB` (FitModel/ReadBuffer.lean) the theorems of C08 are about.

Go `int` is 64 bits; cursors, lengths and requests below 2^62 (every slice of a Go program is) never wrap.
-/
set_option linter.unusedSimpArgs false
namespace Fit.Go2Lean
open Fit.ReadBuffer Fit.Gen.Reader Go.readbuffer

theorem wrapI64_id (x : Int) (h1 : -(2:Int)^63 ≤ x) (h2 : x < (2:Int)^63) : Go.wrapI 64 x = x := by
  unfold Go.wrapI; omega

/-- the constants of decoder/readbuffer.go are the ones of the model -/
theorem rb_consts : Go.readbuffer.reservedbuf = Fit.Gen.Reader.reservedbuf ∧
    Go.readbuffer.minReadBufferSize = Fit.Gen.Reader.minReadBufferSize ∧
    Go.readbuffer.maxReadBufferSize = Fit.ReadBuffer.maxReadBufferSize ∧
    Go.readbuffer.defaultReadBufferSize = Fit.Gen.Reader.defaultReadBufferSize := by decide

/-- `remaining := b.last - b.cur` is the model's natural subtraction under the invariant `cur ≤ last`, and the fill
decision `n > remaining` is the model's `remaining < n` -/
theorem rb_remaining (cur last n : Nat) (h : cur ≤ last) (hl : last < 2^62) :
    (ReadN_remaining cur last).remaining = ((last - cur : Nat) : Int) ∧
    ReadN_needFill n (ReadN_remaining cur last).remaining = decide (last - cur < n) := by
  have : (ReadN_remaining cur last).remaining = ((last - cur : Nat) : Int) := by
    simp only [ReadN_remaining, id_run, id_pure, id_bind]
    (try simp only [Go.wrapI]); omega
  refine ⟨this, ?_⟩
  rw [this]; simp only [ReadN_needFill]
  by_cases h2 : last - cur < n <;> simp [h2] <;> omega

/-- the cursor of the refill: `cur := reservedbuf; if remaining != 0 { cur = reservedbuf - remaining }` is the model's
`if remaining ≠ 0 then reservedbuf - remaining else reservedbuf` when the unread tail fits into the reserved section, and
negative (the slice expression `b.buf[cur:]` panics) exactly when the model panics: `remaining ≠ 0 ∧ reservedbuf < remaining` -/
theorem rb_cur (rem : Nat) (hr : rem < 2^62) :
    let cur := if ReadN_hasTail rem then (ReadN_curTail ReadN_curInit.cur rem).cur else ReadN_curInit.cur
    (ReadN_hasTail rem = decide (rem ≠ 0)) ∧
    (rem ≤ Fit.Gen.Reader.reservedbuf → cur = ((if rem ≠ 0 then Fit.Gen.Reader.reservedbuf - rem else Fit.Gen.Reader.reservedbuf : Nat) : Int)) ∧
    ((ReadN_hasTail rem = true ∧ ReadN_copyDst cur < 0) ↔ (rem ≠ 0 ∧ Fit.Gen.Reader.reservedbuf < rem)) := by
  simp only [ReadN_hasTail, ReadN_curTail, ReadN_curInit, ReadN_copyDst, id_run, id_pure, id_bind, Fit.Gen.Reader.reservedbuf]
  (try simp only [Go.wrapI])
  by_cases h0 : rem = 0
  · subst h0; simp
  · have : ((rem : Int) != 0) = true := by simp; omega
    simp only [this, if_true, h0, ne_eq, not_false_eq_true, decide_true, true_and]
    refine ⟨?_, ?_⟩
    · intro h; omega
    · omega

/-- the move of the unread tail: `copy(b.buf[cur:], b.buf[b.last-remaining:])` copies to `cur` from `b.cur` (the model's
`copyWithin b.arr b.len cur b.cur`) -/
theorem rb_copy (cur last : Nat) (c : Int) (h : cur ≤ last) (hl : last < 2^62) :
    ReadN_copyDst c = c ∧ ReadN_copySrc last (ReadN_remaining cur last).remaining = (cur : Int) := by
  rw [(rb_remaining cur last 0 h hl).1]
  simp only [ReadN_copyDst, ReadN_copySrc, true_and]
  (try simp only [Go.wrapI]); omega

/-- the refill: `io.ReadAtLeast(b.r, b.buf[reservedbuf:], n-remaining)` reads into the cells from `reservedbuf` on and asks
for at least `n - remaining` bytes (the model's `readAtLeast (b.len - reservedbuf) (n - remaining)`) -/
theorem rb_fill (n rem : Nat) (h : rem < n) (hn : n < 2^62) :
    ReadN_fillLo = (Fit.Gen.Reader.reservedbuf : Int) ∧ ReadN_fillMin n rem = ((n - rem : Nat) : Int) := by
  simp only [ReadN_fillLo, ReadN_fillMin, Fit.Gen.Reader.reservedbuf]
  (try simp only [Go.wrapI]); omega

/-- after the refill: `b.cur = cur; b.last = reservedbuf + nr` (the model's `cur := cur, last := reservedbuf + d.length`) -/
theorem rb_refill (c0 l0 cur : Int) (nr : Nat) (h : nr < 2^62) :
    ReadN_refill c0 l0 cur nr = ⟨cur, ((Fit.Gen.Reader.reservedbuf + nr : Nat) : Int)⟩ := by
  simp only [ReadN_refill, id_run, id_pure, id_bind, Fit.Gen.Reader.reservedbuf, ReadN_refill.Out.mk.injEq, true_and]
  (try simp only [Go.wrapI]); omega

/-- the returned window `b.buf[b.cur : b.cur+n]` and `b.cur += n` (the model's `RB.slice`: cells `cur … cur+n`, then `cur + n`) -/
theorem rb_window (cur n : Nat) (hc : cur < 2^62) (hn : n < 2^62) :
    ReadN_winLo cur = (cur : Int) ∧ ReadN_winHi cur n = ((cur + n : Nat) : Int) ∧
    (ReadN_window cur n).b_cur = ((cur + n : Nat) : Int) := by
  simp only [ReadN_winLo, ReadN_winHi, ReadN_window, id_run, id_pure, id_bind]
  (try simp only [Go.wrapI])
  refine ⟨?_, ?_, ?_⟩ <;> first | exact True.intro | omega

/-- `Reset`: the clamp of the requested size is the model's `clampSize`, for every Go `int` -/
theorem rb_clamp (size : Int) : (Reset_clamp size).size = (clampSize size : Int) := by
  simp only [Reset_clamp, id_run, id_pure, id_bind, clampSize, Fit.Gen.Reader.minReadBufferSize, Fit.ReadBuffer.maxReadBufferSize]
  by_cases h1 : size < 765
  · simp [h1]
  · by_cases h2 : size > 4294967295
    · simp [h1, h2]
    · simp [h1, h2]; omega

/-- `Reset`: a new array is allocated exactly when the model allocates one (`oldsize` is `cap(b.buf) - reservedbuf`:
`b.arr.length < reservedbuf + size`), it has `reservedbuf + size` cells, and `len(b.buf)` becomes `reservedbuf + size` -/
theorem rb_reset (cap size : Nat) (hs : size < 2^62) :
    Reset_grow ((cap : Int) - (Go.readbuffer.reservedbuf : Int)) size = decide (cap < Fit.Gen.Reader.reservedbuf + size) ∧
    Reset_allocLen size = ((Fit.Gen.Reader.reservedbuf + size : Nat) : Int) ∧
    Reset_len size = ((Fit.Gen.Reader.reservedbuf + size : Nat) : Int) := by
  simp only [Reset_grow, Reset_allocLen, Reset_len, Fit.Gen.Reader.reservedbuf, Go.readbuffer.reservedbuf]
  (try simp only [Go.wrapI])
  refine ⟨?_, by omega, by omega⟩
  by_cases h : cap < 765 + size <;> simp [h] <;> omega

end Fit.Go2Lean
