import FitProps.Go2LeanProtoHeader
/-!
# C16 — tie of the record-header helpers to the source by translation

`proto.LocalMesgNum` and the header masks are translated from the CURRENT source of proto/proto.go on every run
(`FitModel/Generated/Go_proto.lean`); they are the raw decoder model's `localMesgNum`, the format specification's
`localNum` / `isCompressed` / `isDefinition` / `hasDevData`, and the masks of the reader model — for every header byte.

PROPERTY THEOREMS (audited by ./check): C16_go2lean_localMesgNum, C16_go2lean_localMesgNum_lt, C16_go2lean_masks_reader,
C16_go2lean_masks_format
-/
namespace Fit.C16
open Fit.Go2Lean

theorem C16_go2lean_localMesgNum : ∀ h < 256, Go.proto.LocalMesgNum h = Fit.Raw.localMesgNum h ∧
    Go.proto.LocalMesgNum h = Fit.FitFormat.localNum h := proto_localMesgNum

theorem C16_go2lean_localMesgNum_lt : ∀ h < 256,
    Go.proto.LocalMesgNum h < 16 ∧ (h ≥ 128 → Go.proto.LocalMesgNum h < 4) := proto_localMesgNum_lt

theorem C16_go2lean_masks_reader :
    Go.proto.MesgDefinitionMask = Fit.Gen.Reader.mesgDefinitionMask ∧
    Go.proto.MesgCompressedHeaderMask = Fit.Gen.Reader.mesgCompressedHeaderMask ∧
    Go.proto.LocalMesgNumMask = Fit.Gen.Reader.localMesgNumMask ∧
    Go.proto.CompressedLocalMesgNumMask = Fit.Gen.Reader.compressedLocalMesgNumMask ∧
    Go.proto.CompressedBitShift = Fit.Gen.Reader.compressedBitShift ∧
    Go.proto.DevDataMask = Fit.Gen.Reader.devDataMask := proto_masks_reader

theorem C16_go2lean_masks_format : ∀ h < 256,
    Fit.FitFormat.isCompressed h = ((h &&& Go.proto.MesgCompressedHeaderMask) == Go.proto.MesgCompressedHeaderMask) ∧
    Fit.FitFormat.isDefinition h = (!Fit.FitFormat.isCompressed h && (h &&& Go.proto.MesgDefinitionMask) == Go.proto.MesgDefinitionMask) ∧
    Fit.FitFormat.hasDevData h = ((h &&& Go.proto.DevDataMask) == Go.proto.DevDataMask) ∧
    h &&& Go.proto.CompressedTimeMask = h % 32 ∧ Go.proto.MesgNormalHeaderMask = 0 := proto_masks_format

end Fit.C16
