import FitProps.Go2LeanProtoHeader
import FitProps.Go2LeanRawSize
/-!
# C16 — tie of the record-header helpers to the source by translation

`proto.LocalMesgNum` and the header masks are translated from the CURRENT source of proto/proto.go on every run
(`FitModel/Generated/Go_proto.lean`); they are the raw decoder model's `localMesgNum`, the format specification's
`localNum` / `isCompressed` / `isDefinition` / `hasDevData`, and the masks of the reader model — for every header byte.

PROPERTY THEOREMS (audited by ./check): C16_go2lean_localMesgNum, C16_go2lean_localMesgNum_lt, C16_go2lean_masks_reader,
C16_go2lean_masks_format, and — the length bookkeeping of `(*RawDecoder).Decode`, translated from decoder/raw.go
(`FitModel/Generated/Go_rawsize.lean`; statements with comments: FitProps/Go2LeanRawSize.lean) — C16_go2lean_raw_fieldSizes,
C16_go2lean_raw_devCount, C16_go2lean_raw_devFieldSizes, C16_go2lean_raw_conds, C16_go2lean_raw_nFields, C16_go2lean_raw_moreData,
C16_go2lean_raw_lensInit, C16_go2lean_raw_store, C16_go2lean_raw_lookup, C16_go2lean_raw_reads, C16_go2lean_raw_count
-/
namespace Fit.C16
open Fit.Go2Lean

theorem C16_go2lean_localMesgNum : ∀ h < 256, Go.proto.LocalMesgNum h = Fit.Raw.localMesgNum h ∧
    Go.proto.LocalMesgNum h = Fit.FitFormat.localNum h := proto_localMesgNum

theorem C16_go2lean_localMesgNum_lt : ∀ h < 256,
    Go.proto.LocalMesgNum h < 16 ∧ (h ≥ 128 → Go.proto.LocalMesgNum h < 4) := proto_localMesgNum_lt

theorem C16_go2lean_masks_reader :
    Go.proto.MesgDefinitionMask = Fit.Gen.Reader.mesgDefinitionMask ∧
    Go.proto.MesgCompressedHeaderMask = Fit.Gen.Reader.mesgCompressedHeaderMask ∧
    Go.proto.LocalMesgNumMask = Fit.Gen.Reader.localMesgNumMask ∧
    Go.proto.CompressedLocalMesgNumMask = Fit.Gen.Reader.compressedLocalMesgNumMask ∧
    Go.proto.CompressedBitShift = Fit.Gen.Reader.compressedBitShift ∧
    Go.proto.DevDataMask = Fit.Gen.Reader.devDataMask := proto_masks_reader

theorem C16_go2lean_masks_format : ∀ h < 256,
    Fit.FitFormat.isCompressed h = ((h &&& Go.proto.MesgCompressedHeaderMask) == Go.proto.MesgCompressedHeaderMask) ∧
    Fit.FitFormat.isDefinition h = (!Fit.FitFormat.isCompressed h && (h &&& Go.proto.MesgDefinitionMask) == Go.proto.MesgDefinitionMask) ∧
    Fit.FitFormat.hasDevData h = ((h &&& Go.proto.DevDataMask) == Go.proto.DevDataMask) ∧
    h &&& Go.proto.CompressedTimeMask = h % 32 ∧ Go.proto.MesgNormalHeaderMask = 0 := proto_masks_format

/-! ### decoder/raw.go: message lengths, the data-size loop, request sizes -/
section raw
open Fit.Raw Fit.Gen.Reader Go.rawsize

theorem C16_go2lean_raw_fieldSizes (pre fb rest : List Nat) (nFields : Nat) (hpre : pre.length = 6) (hfb : fb.length = nFields * 3)
    (hn : nFields < 256) (hb : ∀ x ∈ fb, x < 256) :
    Decode_fieldSizes (pre ++ fb ++ rest) 6 nFields = some ⟨6 + nFields * 3, 1 + sizeSum fb⟩ :=
  raw_fieldSizes pre fb rest nFields hpre hfb hn hb

theorem C16_go2lean_raw_devCount (pre rest : List Nat) (nb : Nat) (hpre : pre.length < 65535) :
    Decode_devCount (pre ++ nb :: rest) pre.length = some ⟨pre.length + 1, nb, pre.length + 1⟩ := raw_devCount pre rest nb hpre

theorem C16_go2lean_raw_devFieldSizes (pre db rest : List Nat) (nDev lenMesg : Nat) (hpre : pre.length ≤ 6 + 255 * 3 + 1)
    (hdb : db.length = nDev * 3) (hn : nDev < 256) (hb : ∀ x ∈ db, x < 256) (hl : lenMesg ≤ 1 + 255 * 255) :
    Decode_devFieldSizes (pre ++ db ++ rest) pre.length lenMesg pre.length nDev = some ⟨lenMesg + sizeSum db, pre.length + nDev * 3⟩ :=
  raw_devFieldSizes pre db rest nDev lenMesg hpre hdb hn hb hl

theorem C16_go2lean_raw_conds :
    (∀ size : Nat, Decode_badHeaderSize size = decide (size ≠ 12 ∧ size ≠ 14)) ∧
    (∀ h < 256, ∀ rest : List Nat,
      Decode_headerSize (h :: rest) = some ⟨h⟩ ∧
      Decode_isDefinition (h :: rest) = some (decide (h &&& (mesgCompressedHeaderMask ||| mesgDefinitionMask) = mesgDefinitionMask)) ∧
      Decode_hasDevData (h :: rest) = some (decide (h &&& devDataMask = devDataMask)) ∧
      Decode_lookupHeader (h :: rest) = some h) ∧
    (∀ l : Nat, Decode_defMissing l = decide (l = 0)) := raw_conds

theorem C16_go2lean_raw_nFields (h : Nat) (b5 rest : List Nat) (hb : b5.length = 5) :
    Decode_nFields (h :: (b5 ++ rest)) = some ⟨(b5.drop 4).headD 0⟩ := raw_nFields h b5 rest hb

theorem C16_go2lean_raw_moreData (pos used dataSize : Nat) (h : pos + used < 2^62) :
    Decode_moreData dataSize ((pos + used : Nat) : Int) (pos : Int) = decide (used % 2^32 < dataSize) ∧
    (used < 2^32 → Decode_moreData dataSize ((pos + used : Nat) : Int) (pos : Int) = decide (used < dataSize)) :=
  raw_moreData pos used dataSize h

theorem C16_go2lean_raw_lensInit : RawLensRep Decode_lensInit.lenMesgs [] := raw_lensInit

theorem C16_go2lean_raw_store (arr : List Nat) (lens : Lens) (h v : Nat) (rest : List Nat) (hr : RawLensRep arr lens) :
    ∃ out, Decode_store (h :: rest) v arr = some out ∧ out.localMesgNum = h &&& localMesgNumMask ∧
      RawLensRep out.lenMesgs ((h &&& localMesgNumMask, v) :: lens) := raw_store arr lens h v rest hr

theorem C16_go2lean_raw_lookup (arr : List Nat) (lens : Lens) (i : Nat) (hi : i < 16) (hr : RawLensRep arr lens) :
    Decode_lookup arr i = some ⟨lens.get i⟩ := raw_lookup arr lens i hi hr

theorem C16_go2lean_raw_reads (size lenMesgDef nFields first nDev lenMesg : Nat) (hd : lenMesgDef ≤ 6 + 255 * 3 + 1)
    (hf : first ≤ 6 + 255 * 3 + 1) (hn : nFields < 256) (hv : nDev < 256) :
    Decode_s1_hi = 1 ∧ Decode_s2_lo = 1 ∧ Decode_s2_hi size = size ∧
    Decode_s3_lo = 7 + 1 ∧ Decode_s3_hi = 7 + 1 + 4 ∧ Decode_s4_lo = 3 + 1 ∧ Decode_s4_hi = 3 + 1 + 4 ∧
    Decode_s5_hi size = size ∧ Decode_s6_hi = 1 ∧ Decode_s7_lo = 1 ∧ Decode_s7_hi = 1 + 5 ∧
    Decode_s8_lo lenMesgDef = lenMesgDef ∧ Decode_s8_hi lenMesgDef nFields = lenMesgDef + nFields * 3 ∧
    Decode_s9_lo lenMesgDef = lenMesgDef ∧ Decode_s9_hi lenMesgDef = lenMesgDef + 1 ∧
    Decode_s10_lo first = first ∧ Decode_s10_hi first nDev = first + nDev * 3 ∧
    Decode_s11_hi lenMesgDef = lenMesgDef ∧
    Decode_s12_lo = 1 ∧ Decode_s12_hi lenMesg = lenMesg ∧
    Decode_s13_hi lenMesg = lenMesg ∧
    Decode_s14_hi = 2 ∧ Decode_s15_hi = 2 := raw_reads size lenMesgDef nFields first nDev lenMesg hd hf hn hv

theorem C16_go2lean_raw_count (n nr : Nat) (h : n + nr < 2^62) :
    (Decode_count1 n nr).n = ((n + nr : Nat) : Int) ∧ (Decode_count2 n nr).n = ((n + nr : Nat) : Int) ∧
    (Decode_count3 n nr).n = ((n + nr : Nat) : Int) ∧ (Decode_count4 n nr).n = ((n + nr : Nat) : Int) ∧
    (Decode_count5 n nr).n = ((n + nr : Nat) : Int) ∧ (Decode_count6 n nr).n = ((n + nr : Nat) : Int) ∧
    (Decode_count7 n nr).n = ((n + nr : Nat) : Int) ∧ (Decode_count8 n nr).n = ((n + nr : Nat) : Int) ∧
    (Decode_count9 n nr).n = ((n + nr : Nat) : Int) ∧ (Decode_nextSeq n).seq = ((n + 1 : Nat) : Int) := raw_count n nr h

/-- non-vacuity: a definition with two fields (sizes 4 and 2) and one developer field (size 3) gives the length 1 + 6 + 3 -/
example : Decode_fieldSizes ([0x60, 0, 0, 20, 0, 2] ++ [253, 4, 134, 0, 2, 132] ++ [1, 9, 3, 0]) 6 2 = some ⟨12, 7⟩ ∧
    Decode_devCount ([0x60, 0, 0, 20, 0, 2, 253, 4, 134, 0, 2, 132] ++ 1 :: [9, 3, 0]) 12 = some ⟨13, 1, 13⟩ ∧
    Decode_devFieldSizes ([0x60, 0, 0, 20, 0, 2, 253, 4, 134, 0, 2, 132, 1] ++ [9, 3, 0] ++ []) 13 7 13 1 = some ⟨10, 16⟩ := by decide

end raw

end Fit.C16
