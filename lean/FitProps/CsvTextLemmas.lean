import FitModel.CsvText
/-! The text layer of fitconv (FitModel/CsvText.lean): the `copy` pass. Core Lean only. -/
set_option linter.unusedSimpArgs false
set_option linter.unusedVariables false
namespace Fit.Csv
open Fit.Value Fit.Gen

/-! ### the `copy` pass -/

/-- a line padded with the missing commas -/
def padLine (k : Nat) (l : Txt) : Txt := l ++ List.replicate (k - commasOutside false l) 44

theorem copyLines_trim (o : Opts) (k : Nat) (ht : o.trim = true) : ∀ ls : List Txt, copyLines o k ls = some ls
  | [] => rfl
  | l :: ls => by simp [copyLines, ht, copyLines_trim o k ht ls]

/-- lines shorter than the scanner's limit, none with more commas than the header: every line is copied, padded -/
theorem copyLines_short (o : Opts) (k : Nat) (ht : o.trim = false) : ∀ ls : List Txt,
    (∀ x ∈ ls, x.length < scanLimit ∧ commasOutside false x ≤ k) → copyLines o k ls = some (ls.map (padLine k))
  | [], _ => rfl
  | l :: ls, h => by
    obtain ⟨h1, h2⟩ := h l (List.mem_cons_self ..)
    have ih := copyLines_short o k ht ls (fun x hx => h x (List.mem_cons_of_mem _ hx))
    have n1 : ¬ (l.length ≥ scanLimit) := by omega
    have n2 : ¬ (commasOutside false l > k) := by omega
    simp [copyLines, ht, n1, n2, ih, padLine]

/-- **the defect (KF-C19-7)**: at the first line of `scanLimit` bytes or more the copy stops — that line and every
line after it are missing, and nothing is reported -/
theorem copyLines_long (o : Opts) (k : Nat) (ht : o.trim = false) (l : Txt) (post : List Txt) (hl : l.length ≥ scanLimit) :
    ∀ pre : List Txt, (∀ x ∈ pre, x.length < scanLimit ∧ commasOutside false x ≤ k) →
      copyLines o k (pre ++ l :: post) = some (pre.map (padLine k))
  | [], _ => by simp [copyLines, ht, hl]
  | p :: pre, h => by
    obtain ⟨h1, h2⟩ := h p (List.mem_cons_self ..)
    have ih := copyLines_long o k ht l post hl pre (fun x hx => h x (List.mem_cons_of_mem _ hx))
    have n1 : ¬ (p.length ≥ scanLimit) := by omega
    have n2 : ¬ (commasOutside false p > k) := by omega
    simp [copyLines, ht, n1, n2, ih, padLine]

end Fit.Csv
