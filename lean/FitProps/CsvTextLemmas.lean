import FitModel.CsvText
import FitProps.CsvMoreLemmas
/-! The text layer of fitconv (FitModel/CsvText.lean): the `copy` pass. Core Lean only. -/
set_option linter.unusedSimpArgs false
set_option linter.unusedVariables false
namespace Fit.Csv
open Fit.Value Fit.Gen

/-! ### the `copy` pass -/

/-- a line padded with the missing commas -/
def padLine (k : Nat) (l : Txt) : Txt := l ++ List.replicate (k - commasOutside false l) 44

theorem copyLines_trim (o : Opts) (k : Nat) (ht : o.trim = true) : ∀ ls : List Txt, copyLines o k ls = some ls
  | [] => rfl
  | l :: ls => by simp [copyLines, ht, copyLines_trim o k ht ls]

/-- no line with more commas than the header: every line is copied, padded — whatever its length -/
theorem copyLines_pad (o : Opts) (k : Nat) (ht : o.trim = false) : ∀ ls : List Txt,
    (∀ x ∈ ls, commasOutside false x ≤ k) → copyLines o k ls = some (ls.map (padLine k))
  | [], _ => rfl
  | l :: ls, h => by
    have h2 := h l (List.mem_cons_self ..)
    have ih := copyLines_pad o k ht ls (fun x hx => h x (List.mem_cons_of_mem _ hx))
    have n2 : ¬ (commasOutside false l > k) := by omega
    simp [copyLines, ht, n2, ih, padLine]

/-! ### decimal text of integers: `parse (format n) = n` -/

theorem natDigits_head (n : Nat) : ∃ c rest, natDigits n = c :: rest ∧ isDigit c = true ∧ (0 < n → c ≠ 48) := by
  rw [natDigits]
  split
  · rename_i h
    exact ⟨48 + n, [], rfl, by simp [isDigit]; omega, fun hn => by omega⟩
  · rename_i h
    obtain ⟨c, rest, hc, hd, h0⟩ := natDigits_head (n / 10)
    refine ⟨c, rest ++ [48 + n % 10], by rw [hc]; rfl, hd, fun _ => h0 (by omega)⟩
termination_by n
decreasing_by omega

theorem isDigit_alnum {b : Nat} (h : isDigit b = true) : isAlnumU b = true := by simp [isAlnumU, h]

theorem digits_props (n : Nat) : (natDigits n).all isAlnumU = true ∧ (natDigits n).contains 95 = false := by
  have h := (natDigits_spec n).2.1
  refine ⟨?_, ?_⟩
  · simp only [List.all_eq_true] at h ⊢
    exact fun x hx => isDigit_alnum (h x hx)
  · simp only [List.contains_eq_mem, decide_eq_false_iff_not]
    intro hm
    have := List.all_eq_true.mp h 95 hm
    simp [isDigit] at this

/-- **`strconv.ParseUint(strconv.FormatUint(n, 10), 0, w)`**: the number itself when it fits in `w` bits, a range error
otherwise — for every `n` and every bit size -/
theorem parseUintT_natDigits (w n : Nat) : parseUintT w (natDigits n) = if n < 2 ^ w then .ok n else .err := by
  obtain ⟨c, rest, hc, hd, h0⟩ := natDigits_head n
  obtain ⟨ha, hu⟩ := digits_props n
  obtain ⟨hv, hall, _⟩ := natDigits_spec n
  rw [hc] at ha hu hv hall ⊢
  unfold parseUintT
  simp only [ha, Bool.not_true, Bool.false_eq_true, ↓reduceIte, hu, hall, hv]
  by_cases hz : n = 0
  · subst hz
    have : natDigits 0 = [48] := by rw [natDigits]; simp
    rw [this] at hc
    simp only [List.cons.injEq] at hc
    obtain ⟨rfl, rfl⟩ := hc
    simp
  · have hc48 : (c == 48) = false := by simpa using h0 (by omega)
    simp only [hc48, Bool.false_eq_true, ↓reduceIte]

theorem intText_neg {i : Int} (h : i < 0) : intText i = 45 :: natDigits i.natAbs := by simp [intText, h]
theorem intText_nonneg {i : Int} (h : 0 ≤ i) : intText i = natDigits i.natAbs := by
  have : ¬ i < 0 := by omega
  simp [intText, this]

/-- **`strconv.ParseUint(strconv.FormatInt(i, 10), 0, w)`**: a negative number is a syntax error (a sign is not
permitted), a non-negative one comes back when it fits -/
theorem parseUintT_intText (w : Nat) (i : Int) : parseUintT w (intText i) = if inRangeU w i then .ok i.toNat else .err := by
  by_cases hneg : i < 0
  · rw [intText_neg hneg]
    have : inRangeU w i = false := by simp [inRangeU]; omega
    simp [parseUintT, isAlnumU, isDigit, this]
  · have h0 : 0 ≤ i := by omega
    rw [intText_nonneg h0, parseUintT_natDigits]
    have e : i.toNat = i.natAbs := by omega
    by_cases hr : i.natAbs < 2 ^ w
    · have : inRangeU w i = true := by
        simp only [inRangeU, Bool.and_eq_true, decide_eq_true_eq]
        refine ⟨h0, ?_⟩
        have : (i.natAbs : Int) < (2 ^ w : Nat) := by exact_mod_cast hr
        have e2 : (i.natAbs : Int) = i := by omega
        rw [e2] at this
        exact_mod_cast this
      simp [hr, this, e]
    · have : inRangeU w i = false := by
        simp only [inRangeU, Bool.and_eq_false_iff, decide_eq_false_iff_not]
        right
        intro hlt
        apply hr
        have e2 : (i.natAbs : Int) = i := by omega
        have : (i.natAbs : Int) < (2 ^ w : Nat) := by rw [e2]; exact_mod_cast hlt
        exact_mod_cast this
      simp [hr, this]

/-- **`strconv.ParseInt(strconv.FormatInt(i, 10), 0, w)`**: the number itself when it fits in `w` bits (two's
complement), a range error otherwise — for every `i`, the minimum `-2^(w-1)` included, and every bit size -/
theorem parseIntT_intText (w : Nat) (hw : 0 < w) (i : Int) : parseIntT w (intText i) = if inRangeS w i then .ok i else .err := by
  have hp : (2 : Int) ^ (w - 1) = ((2 ^ (w - 1) : Nat) : Int) := by norm_cast
  have hlt : 2 ^ (w - 1) < 2 ^ w := Nat.pow_lt_pow_right (by omega) (by omega)
  by_cases hneg : i < 0
  · rw [intText_neg hneg]
    unfold parseIntT
    simp only [beq_self_eq_true, show ((45 : Nat) == 43) = false from rfl, Bool.false_or, ↓reduceIte, parseUintT_natDigits]
    by_cases hr : i.natAbs ≤ 2 ^ (w - 1)
    · have h1 : i.natAbs < 2 ^ w := by omega
      have hin : inRangeS w i = true := by
        simp only [inRangeS, Bool.and_eq_true, decide_eq_true_eq, hp]
        omega
      have e : -((i.natAbs : Nat) : Int) = i := by omega
      simp [h1, hr, hin, e]
    · have hin : inRangeS w i = false := by
        simp only [inRangeS, Bool.and_eq_false_iff, decide_eq_false_iff_not, hp]
        left; omega
      by_cases h1 : i.natAbs < 2 ^ w
      · simp [h1, hr, hin]
      · simp [h1, hin]
  · have h0 : 0 ≤ i := by omega
    rw [intText_nonneg h0]
    obtain ⟨c, rest, hc, hd, _⟩ := natDigits_head i.natAbs
    have hc43 : (c == 43) = false := by
      simp only [isDigit, Bool.and_eq_true, decide_eq_true_eq] at hd
      simp only [beq_eq_false_iff_ne, ne_eq]; omega
    have hc45 : (c == 45) = false := by
      simp only [isDigit, Bool.and_eq_true, decide_eq_true_eq] at hd
      simp only [beq_eq_false_iff_ne, ne_eq]; omega
    have hu := parseUintT_natDigits w i.natAbs
    rw [hc] at hu ⊢
    unfold parseIntT
    simp only [hc43, hc45, Bool.or_self, Bool.false_eq_true, ↓reduceIte, hu]
    by_cases hr : i.natAbs < 2 ^ (w - 1)
    · have h1 : i.natAbs < 2 ^ w := by omega
      have hin : inRangeS w i = true := by
        simp only [inRangeS, Bool.and_eq_true, decide_eq_true_eq, hp]
        omega
      have e : ((i.natAbs : Nat) : Int) = i := by omega
      simp [h1, hr, hin, e]
    · have hin : inRangeS w i = false := by
        simp only [inRangeS, Bool.and_eq_false_iff, decide_eq_false_iff_not, hp]
        right; omega
      by_cases h1 : i.natAbs < 2 ^ w
      · simp [h1, hr, hin]
      · simp [h1, hin]

/-- a leading `+` is accepted by `ParseInt` (and is a syntax error for `ParseUint`) -/
theorem parseIntT_plus (w n : Nat) (h : n < 2 ^ (w - 1)) (hw : 0 < w) : parseIntT w (43 :: natDigits n) = .ok (n : Int) := by
  have hlt : 2 ^ (w - 1) < 2 ^ w := Nat.pow_lt_pow_right (by omega) (by omega)
  have h1 : n < 2 ^ w := by omega
  simp [parseIntT, parseUintT_natDigits, h1, h]

theorem parseUintT_plus (w n : Nat) : parseUintT w (43 :: natDigits n) = .err := by
  simp [parseUintT, isAlnumU, isDigit]

/-- the text of an integer has no '.', no quote, no separator and no `|` -/
theorem intText_chars (i : Int) : ∀ b ∈ intText i, b = 45 ∨ isDigit b = true := by
  intro b hb
  unfold intText at hb
  have hd := fun n => List.all_eq_true.mp (natDigits_spec n).2.1
  split at hb
  · rcases List.mem_cons.mp hb with h | h
    · exact Or.inl h
    · exact Or.inr (hd _ b h)
  · exact Or.inr (hd _ b hb)

theorem intText_noDot (i : Int) : hasDot (intText i) = false := by
  simp only [hasDot, List.contains_eq_mem, decide_eq_false_iff_not]
  intro h
  rcases intText_chars i 46 h with h | h
  · cases h
  · simp [isDigit] at h

/-! ### quoting and `encoding/csv`: `unquote ∘ split ∘ join ∘ quote = id` -/

/-- a cell that can stand unquoted: no separator, no quote -/
def plainCell (s : Txt) : Prop := ∀ b ∈ s, b ≠ 44 ∧ b ≠ 34

/-- `e` is a way of writing the cell `s`: as it is when it holds neither separator nor quote, or between quotes with
its quotes doubled -/
def Enc (s e : Txt) : Prop := (e = s ∧ plainCell s) ∨ e = [34] ++ escQuotes s ++ [34]

theorem needsQuote_false {s : Txt} (h : needsQuote s = false) : plainCell s := by
  intro b hb
  simp only [needsQuote, List.any_eq_false, Bool.or_eq_true, beq_iff_eq, not_or] at h
  exact h b hb

/-- `writeCell` writes the cell in one of the two ways -/
theorem enc_writeCellT (s : Txt) : Enc s (writeCellT s) := by
  unfold writeCellT
  cases h : needsQuote s
  · exact Or.inl ⟨by simp, needsQuote_false h⟩
  · exact Or.inr (by simp)

theorem escQuotes_noQuote : ∀ s : Txt, (∀ b ∈ s, b ≠ 34) → escQuotes s = s
  | [], _ => rfl
  | c :: s, h => by
    have hc : (c == 34) = false := by simpa using h c (List.mem_cons_self ..)
    have ih := escQuotes_noQuote s (fun b hb => h b (List.mem_cons_of_mem _ hb))
    unfold escQuotes at ih ⊢
    simp only [List.flatMap_cons, hc, Bool.false_eq_true, ↓reduceIte, List.cons_append, List.nil_append, ih]

/-- the value cell — between quotes, nothing escaped — is well written as long as the text holds no quote -/
theorem enc_valueCellT (s : Txt) (h : ∀ b ∈ s, b ≠ 34) : Enc s (valueCellT s) := by
  right
  simp [valueCellT, escQuotes_noQuote s h]

theorem scan_bare : ∀ (s cur : Txt) (done : List Txt) (tail : Txt), plainCell s →
    scanRec .bare cur done (s ++ tail) = scanRec .bare (s.reverse ++ cur) done tail
  | [], _, _, _, _ => rfl
  | c :: s, cur, done, tail, h => by
    obtain ⟨h1, h2⟩ := h c (List.mem_cons_self ..)
    have e1 : (c == 44) = false := by simpa using h1
    have e2 : (c == 34) = false := by simpa using h2
    have ih := scan_bare s (c :: cur) done tail (fun b hb => h b (List.mem_cons_of_mem _ hb))
    simp only [List.cons_append, scanRec, e1, e2, Bool.false_eq_true, ↓reduceIte, ih]
    simp

theorem scan_quoted : ∀ (s cur : Txt) (done : List Txt) (tail : Txt),
    scanRec .quoted cur done (escQuotes s ++ 34 :: tail) = scanRec .quote (s.reverse ++ cur) done tail
  | [], _, _, _ => by simp [escQuotes, scanRec]
  | c :: s, cur, done, tail => by
    have ih := scan_quoted s (c :: cur) done tail
    by_cases hc : c = 34
    · subst hc
      have e : escQuotes (34 :: s) = 34 :: 34 :: escQuotes s := by simp [escQuotes]
      simp only [e, List.cons_append, scanRec, beq_self_eq_true, ↓reduceIte, ih]
      simp
    · have e0 : (c == 34) = false := by simpa using hc
      have e : escQuotes (c :: s) = c :: escQuotes s := by simp [escQuotes, hc]
      simp only [e, List.cons_append, scanRec, e0, Bool.false_eq_true, ↓reduceIte, ih]
      simp

theorem joinComma_cons2 (e q : Txt) (rest : List Txt) : joinComma (e :: q :: rest) = e ++ 44 :: joinComma (q :: rest) := by
  simp [joinComma]

/-- **`encoding/csv` reads back the cells the writer wrote**: for any non-empty list of cells, each written as it is
(no separator, no quote in it) or between quotes with its quotes doubled, joined with commas — whatever other bytes the
cells hold (the line break is the business of the line layer) -/
theorem scan_cells : ∀ (ps : List (Txt × Txt)), ps ≠ [] → (∀ p ∈ ps, Enc p.1 p.2) → ∀ (cur : Txt) (done : List Txt),
    scanRec .start cur done (joinComma (ps.map (·.2))) = .record (done.reverse ++ ps.map (·.1))
  | [], h, _, _, _ => absurd rfl h
  | [(s, e)], _, h, cur, done => by
    have hE : Enc s e := h (s, e) (List.mem_cons_self ..)
    rcases hE with ⟨rfl, hp⟩ | rfl
    · cases e with
      | nil => simp [joinComma, scanRec]
      | cons c s' =>
        obtain ⟨h1, h2⟩ := hp c (List.mem_cons_self ..)
        have e1 : (c == 44) = false := by simpa using h1
        have e2 : (c == 34) = false := by simpa using h2
        have hb := scan_bare s' [c] done [] (fun b hb => hp b (List.mem_cons_of_mem _ hb))
        simp only [List.append_nil] at hb
        simp only [List.map_cons, List.map_nil, joinComma, scanRec, e1, e2, Bool.false_eq_true, ↓reduceIte, hb]
        simp
    · have hq := scan_quoted s [] done []
      simp only [List.map_cons, List.map_nil, joinComma, List.cons_append, List.nil_append, List.append_assoc, scanRec, beq_self_eq_true,
        ↓reduceIte]
      simp only [List.append_nil] at hq
      rw [hq]
      simp [scanRec]
  | (s, e) :: q :: rest, _, h, cur, done => by
    have ih := scan_cells (q :: rest) (by simp) (fun p hp => h p (List.mem_cons_of_mem _ hp))
    simp only [List.map_cons] at ih ⊢
    rw [joinComma_cons2]
    have hE : Enc s e := h (s, e) (List.mem_cons_self ..)
    rcases hE with ⟨rfl, hp⟩ | rfl
    · cases e with
      | nil =>
        simp only [List.nil_append, scanRec, beq_self_eq_true, ↓reduceIte, show ((44 : Nat) == 34) = false from rfl, Bool.false_eq_true, ih]
        simp
      | cons c s' =>
        obtain ⟨h1, h2⟩ := hp c (List.mem_cons_self ..)
        have e1 : (c == 44) = false := by simpa using h1
        have e2 : (c == 34) = false := by simpa using h2
        have hb := scan_bare s' [c] done (44 :: joinComma (q.2 :: rest.map (·.2))) (fun b hb => hp b (List.mem_cons_of_mem _ hb))
        simp only [List.cons_append, scanRec, e1, e2, Bool.false_eq_true, ↓reduceIte, hb, beq_self_eq_true, ih]
        simp
    · have hq := scan_quoted s [] done (44 :: joinComma (q.2 :: rest.map (·.2)))
      simp only [List.cons_append, List.nil_append, List.append_assoc, scanRec, beq_self_eq_true, ↓reduceIte]
      rw [hq]
      simp only [scanRec, show ((44 : Nat) == 34) = false from rfl, Bool.false_eq_true, ↓reduceIte, beq_self_eq_true, ih]
      simp

/-- `csv.Reader.Read` on the line of cells `cells` written as `es` -/
theorem csvRecord_join (ps : List (Txt × Txt)) (hne : ps ≠ []) (h : ∀ p ∈ ps, Enc p.1 p.2) :
    csvRecord (joinComma (ps.map (·.2))) = .record (ps.map (·.1)) := by
  have := scan_cells ps hne h [] []
  simpa [csvRecord] using this

/-! ### the commas `copy` counts -/

theorem commas_quoted : ∀ (s tail : Txt), commasOutside true (escQuotes s ++ 34 :: tail) = commasOutside false tail
  | [], _ => by simp [escQuotes, commasOutside]
  | c :: s, tail => by
    have ih := commas_quoted s tail
    by_cases hc : c = 34
    · subst hc
      have e : escQuotes (34 :: s) = 34 :: 34 :: escQuotes s := by simp [escQuotes]
      simp only [e, List.cons_append, commasOutside, beq_self_eq_true, ↓reduceIte, Bool.not_true, Bool.not_false, ih]
    · have e0 : (c == 34) = false := by simpa using hc
      have e : escQuotes (c :: s) = c :: escQuotes s := by simp [escQuotes, hc]
      simp only [e, List.cons_append, commasOutside, e0, Bool.false_eq_true, ↓reduceIte, Bool.not_true, Bool.and_false, ih]

theorem commas_plain : ∀ (s tail : Txt), plainCell s → commasOutside false (s ++ tail) = commasOutside false tail
  | [], _, _ => rfl
  | c :: s, tail, h => by
    obtain ⟨h1, h2⟩ := h c (List.mem_cons_self ..)
    have e1 : (c == 44) = false := by simpa using h1
    have e2 : (c == 34) = false := by simpa using h2
    simp only [List.cons_append, commasOutside, e1, e2, Bool.false_eq_true, ↓reduceIte, Bool.false_and,
      commas_plain s tail (fun b hb => h b (List.mem_cons_of_mem _ hb))]

/-- a written cell holds no comma `copy` counts, and leaves it outside quotes -/
theorem commas_enc {s e : Txt} (h : Enc s e) (tail : Txt) : commasOutside false (e ++ tail) = commasOutside false tail := by
  rcases h with ⟨rfl, hp⟩ | rfl
  · exact commas_plain _ tail hp
  · simp only [List.cons_append, List.nil_append, List.append_assoc, commasOutside, beq_self_eq_true, ↓reduceIte, Bool.not_false]
    exact commas_quoted s tail

/-- **the commas `copy` counts in a line are the separators between its cells** — one fewer than cells -/
theorem commas_join : ∀ (ps : List (Txt × Txt)), ps ≠ [] → (∀ p ∈ ps, Enc p.1 p.2) →
    commasOutside false (joinComma (ps.map (·.2))) = ps.length - 1
  | [], h, _ => absurd rfl h
  | [(s, e)], _, h => by
    have := commas_enc (h (s, e) (List.mem_cons_self ..)) []
    simpa [joinComma, commasOutside] using this
  | (s, e) :: q :: rest, _, h => by
    have ih := commas_join (q :: rest) (by simp) (fun p hp => h p (List.mem_cons_of_mem _ hp))
    simp only [List.map_cons] at ih ⊢
    rw [joinComma_cons2, commas_enc (h (s, e) (List.mem_cons_self ..))]
    simp only [commasOutside, show ((44 : Nat) == 34) = false from rfl, Bool.false_eq_true, ↓reduceIte, beq_self_eq_true, Bool.not_false,
      Bool.and_self, ih, List.length_cons]
    omega

theorem joinComma_snoc : ∀ (L : List Txt) (x : Txt), L ≠ [] → joinComma (L ++ [x]) = joinComma L ++ 44 :: x
  | [], _, h => absurd rfl h
  | [a], x, _ => by simp [joinComma]
  | a :: b :: L, x, _ => by
    have ih := joinComma_snoc (b :: L) x (by simp)
    simp only [List.cons_append] at ih ⊢
    rw [joinComma_cons2, ih, joinComma_cons2]
    simp

/-- padding commas are empty cells -/
theorem joinComma_pad (L : List Txt) (hne : L ≠ []) : ∀ m : Nat,
    joinComma (L ++ List.replicate m []) = joinComma L ++ List.replicate m 44
  | 0 => by simp
  | m + 1 => by
    have ih := joinComma_pad L hne m
    rw [List.replicate_succ', ← List.append_assoc, joinComma_snoc _ _ (by simp [hne]), ih]
    simp [List.replicate_succ']

/-! ### lines -/

theorem splitLines_joinLines : ∀ ls : List Txt, (∀ l ∈ ls, ∀ b ∈ l, b ≠ 10) → splitLines (joinLines ls) = ls
  | [], _ => rfl
  | l :: ls, h => by
    have ih := splitLines_joinLines ls (fun x hx => h x (List.mem_cons_of_mem _ hx))
    have key : ∀ (l : Txt), (∀ b ∈ l, b ≠ 10) → splitLines (l ++ 10 :: joinLines ls) = l :: ls := by
      intro l
      induction l with
      | nil =>
        intro _
        simp only [List.nil_append, splitLines, ih]
        cases ls <;> simp
      | cons c l ihl =>
        intro hl
        have hc : (c == 10) = false := by simpa using hl c (List.mem_cons_self ..)
        have := ihl (fun b hb => hl b (List.mem_cons_of_mem _ hb))
        simp only [List.cons_append, splitLines, this, hc, Bool.false_eq_true, ↓reduceIte]
    simpa [joinLines] using key l (h l (List.mem_cons_self ..))

end Fit.Csv
