import FitModel.CsvText
/-! The text layer of fitconv (FitModel/CsvText.lean): the `copy` pass. Core Lean only. -/
set_option linter.unusedSimpArgs false
set_option linter.unusedVariables false
namespace Fit.Csv
open Fit.Value Fit.Gen

/-! ### the `copy` pass -/

/-- a line padded with the missing commas -/
def padLine (k : Nat) (l : Txt) : Txt := l ++ List.replicate (k - commasOutside false l) 44

theorem copyLines_trim (o : Opts) (k : Nat) (ht : o.trim = true) : ∀ ls : List Txt, copyLines o k ls = some ls
  | [] => rfl
  | l :: ls => by simp [copyLines, ht, copyLines_trim o k ht ls]

/-- no line with more commas than the header: every line is copied, padded — whatever its length -/
theorem copyLines_pad (o : Opts) (k : Nat) (ht : o.trim = false) : ∀ ls : List Txt,
    (∀ x ∈ ls, commasOutside false x ≤ k) → copyLines o k ls = some (ls.map (padLine k))
  | [], _ => rfl
  | l :: ls, h => by
    have h2 := h l (List.mem_cons_self ..)
    have ih := copyLines_pad o k ht ls (fun x hx => h x (List.mem_cons_of_mem _ hx))
    have n2 : ¬ (commasOutside false l > k) := by omega
    simp [copyLines, ht, n2, ih, padLine]

end Fit.Csv
