import FitProps.Go2LeanBasetype
/-!
# C06 — tie of the base-type facts to the source by translation

`profile/basetype/basetype.go` is translated to Lean from the CURRENT source on every run
(`FitModel/Generated/Go_basetype.lean`); these theorems state that the translated `sizes` table, `Size()`, `Valid()` and
`List()` are what `Fit.Value.btSize` / `btValid` / `Fit.Gen.baseTypeList` — used by the marshalling model and by every
theorem of C06 that mentions a declared size — assume, for every byte.

They are also what the FIT protocol's own table of base types says (`Fit.BaseTypeSpec.fitBaseTypes`, a fixed reference).

PROPERTY THEOREMS (audited by ./check): C06_go2lean_sizes, C06_go2lean_size, C06_go2lean_valid, C06_go2lean_list,
C06_go2lean_spec_size, C06_go2lean_spec_valid, C06_go2lean_spec_list, C06_go2lean_spec_names
-/
namespace Fit.C06
open Fit.Value Fit.Gen Fit.Go2Lean Fit.BaseTypeSpec

theorem C06_go2lean_sizes : Go.basetype.sizes = baseTypeSizes := bt_sizes
theorem C06_go2lean_size : ∀ t < 256, Go.basetype.BaseType.Size t = some (btSize t) := bt_size
theorem C06_go2lean_valid : ∀ t < 256, Go.basetype.BaseType.Valid t = some (btValid t) := bt_valid
theorem C06_go2lean_list : Go.basetype.List_ = baseTypeList := bt_list

theorem C06_go2lean_spec_size : ∀ t < 256,
    Go.basetype.BaseType.Size t = some (((fitBaseTypes.lookup t).map (·.1)).getD 0) := bt_spec_size
theorem C06_go2lean_spec_valid : ∀ t < 256, Go.basetype.BaseType.Valid t = some ((fitBaseTypes.lookup t).isSome) := bt_spec_valid
theorem C06_go2lean_spec_list : Go.basetype.List_ = fitBaseTypes.map (·.1) := bt_spec_list
theorem C06_go2lean_spec_names : ∀ p ∈ fitBaseTypes,
    Go.basetype.BaseType.String_ p.1 = p.2.2 ∧ Go.basetype.FromString p.2.2 = p.1 := bt_spec_names

end Fit.C06
