import FitProps.Go2LeanBasetype
import FitProps.Go2LeanProtoMarshal
/-!
# C06 — tie of the base-type facts to the source by translation

`profile/basetype/basetype.go` is translated to Lean from the CURRENT source on every run
(`FitModel/Generated/Go_basetype.lean`); these theorems state that the translated `sizes` table, `Size()`, `Valid()` and
`List()` are what `Fit.Value.btSize` / `btValid` / `Fit.Gen.baseTypeList` — used by the marshalling model and by every
theorem of C06 that mentions a declared size — assume, for every byte.

They are also what the FIT protocol's own table of base types says (`Fit.BaseTypeSpec.fitBaseTypes`, a fixed reference).

PROPERTY THEOREMS (audited by ./check): C06_go2lean_sizes, C06_go2lean_size, C06_go2lean_valid, C06_go2lean_list,
C06_go2lean_spec_size, C06_go2lean_spec_valid, C06_go2lean_spec_list, C06_go2lean_spec_names, C06_go2lean_consts,
C06_go2lean_spec_field
-/
namespace Fit.C06
open Fit.Value Fit.Gen Fit.Go2Lean Fit.BaseTypeSpec

theorem C06_go2lean_sizes : Go.basetype.sizes = baseTypeSizes := bt_sizes
theorem C06_go2lean_size : ∀ t < 256, Go.basetype.BaseType.Size t = some (btSize t) := bt_size
theorem C06_go2lean_valid : ∀ t < 256, Go.basetype.BaseType.Valid t = some (btValid t) := bt_valid
theorem C06_go2lean_list : Go.basetype.List_ = baseTypeList := bt_list

theorem C06_go2lean_spec_size : ∀ t < 256,
    Go.basetype.BaseType.Size t = some (((fitBaseTypes.lookup t).map (·.1)).getD 0) := bt_spec_size
theorem C06_go2lean_spec_valid : ∀ t < 256, Go.basetype.BaseType.Valid t = some ((fitBaseTypes.lookup t).isSome) := bt_spec_valid
theorem C06_go2lean_spec_list : Go.basetype.List_ = fitBaseTypes.map (·.1) := bt_spec_list
theorem C06_go2lean_spec_names : ∀ p ∈ fitBaseTypes,
    Go.basetype.BaseType.String_ p.1 = p.2.2 ∧ Go.basetype.FromString p.2.2 = p.1 := bt_spec_names

theorem C06_go2lean_consts :
    Go.basetype.BaseTypeNumMask = baseTypeNumMask ∧ Go.basetype.EndianAbilityMask = endianAbilityMask ∧
    Go.basetype.EnumInvalid = enumInvalid ∧ Go.basetype.Sint8Invalid = (sint8Invalid : Int) ∧ Go.basetype.Uint8Invalid = uint8Invalid ∧
    Go.basetype.Sint16Invalid = (sint16Invalid : Int) ∧ Go.basetype.Uint16Invalid = uint16Invalid ∧
    Go.basetype.Sint32Invalid = (sint32Invalid : Int) ∧ Go.basetype.Uint32Invalid = uint32Invalid ∧
    Go.basetype.Float32Invalid = float32Invalid ∧ Go.basetype.Float64Invalid = float64Invalid ∧
    Go.basetype.Uint8zInvalid = uint8zInvalid ∧ Go.basetype.Uint16zInvalid = uint16zInvalid ∧ Go.basetype.Uint32zInvalid = uint32zInvalid ∧
    Go.basetype.ByteInvalid = byteInvalid ∧ Go.basetype.Sint64Invalid = (sint64Invalid : Int) ∧
    Go.basetype.Uint64Invalid = uint64Invalid ∧ Go.basetype.Uint64zInvalid = uint64zInvalid := bt_consts

theorem C06_go2lean_spec_field : (fitBaseTypes.map (fun p => p.1 &&& Go.basetype.BaseTypeNumMask)) = List.range 17 ∧
    ∀ p ∈ fitBaseTypes, ((p.1 &&& Go.basetype.EndianAbilityMask) == Go.basetype.EndianAbilityMask) = decide (p.2.1 > 1) :=
  bt_spec_field

/-! the clamping of `typedef.Bool` (anything above 1 is the invalid value 255): proto/value.go `Bool`, proto/value_marshal.go
case `TypeBool`, proto/value_unmarshal.go on a bool array (since /repo 5da5106), translated as blocks of unit `protomarshal`.
PROPERTY THEOREMS (audited by ./check): C06_go2lean_bool_clamp, C06_go2lean_bool_marshal, C06_go2lean_bool_unmarshal -/

theorem C06_go2lean_bool_clamp (v : Nat) :
    mkBool v = .bool (Go.protomarshal.Bool_clamp v).num ∧ (Go.protomarshal.Bool_clamp v).num = clampBool v := pm_bool_clamp v

theorem C06_go2lean_bool_marshal (b : List Nat) (val : Nat) (hv : val < 256) :
    (Go.protomarshal.Value_MarshalAppend_bool b val).ret = some (b ++ [boolByte val]) := pm_bool_marshal b val hv

theorem C06_go2lean_bool_unmarshal (bs vals : List Nat) (i : Nat) (hi : i < bs.length) :
    Go.protomarshal.UnmarshalValue_boolElem bs (i : Int) vals =
      some { vals := vals ++ [clampBool bs[i]], v := clampBool bs[i] } := pm_bool_unmarshal bs vals i hi

/-! `Value.MarshalAppend`: the eight fixed-width scalar cases and the bool array (blocks of unit `protomarshal`).
PROPERTY THEOREMS (audited by ./check): C06_go2lean_scalar_marshal, C06_go2lean_sliceBool_marshal -/

theorem C06_go2lean_scalar_marshal (arch n : Nat) (b : List Nat) :
    (Go.protomarshal.Value_MarshalAppend_int16 arch b n).ret = some (b ++ enc 2 arch n) ∧
    (Go.protomarshal.Value_MarshalAppend_uint16 arch b n).ret = some (b ++ enc 2 arch n) ∧
    (Go.protomarshal.Value_MarshalAppend_int32 arch b n).ret = some (b ++ enc 4 arch n) ∧
    (Go.protomarshal.Value_MarshalAppend_uint32 arch b n).ret = some (b ++ enc 4 arch n) ∧
    (Go.protomarshal.Value_MarshalAppend_float32 arch b n).ret = some (b ++ enc 4 arch n) ∧
    (Go.protomarshal.Value_MarshalAppend_int64 arch b n).ret = some (b ++ enc 8 arch n) ∧
    (Go.protomarshal.Value_MarshalAppend_uint64 arch b n).ret = some (b ++ enc 8 arch n) ∧
    (Go.protomarshal.Value_MarshalAppend_float64 arch b n).ret = some (b ++ enc 8 arch n) := pm_scalar_marshal arch n b

theorem C06_go2lean_sliceBool_marshal (b vals : List Nat) (hv : ∀ x ∈ vals, x < 256) :
    Go.protomarshal.Value_MarshalAppend_sliceBool b vals =
      some { b := b ++ vals.map boolByte, ret := some (b ++ vals.map boolByte) } := pm_sliceBool_marshal b vals hv

/-! `Value.MarshalAppend`: the unsigned fixed-width array cases. PROPERTY THEOREMS (audited by ./check): C06_go2lean_sliceUint_marshal -/

theorem C06_go2lean_sliceUint_marshal (arch : Nat) (b vals : List Nat) :
    Go.protomarshal.Value_MarshalAppend_sliceUint16 arch b vals =
      some { b := b ++ vals.flatMap (enc 2 arch), ret := some (b ++ vals.flatMap (enc 2 arch)) } ∧
    Go.protomarshal.Value_MarshalAppend_sliceUint32 arch b vals =
      some { b := b ++ vals.flatMap (enc 4 arch), ret := some (b ++ vals.flatMap (enc 4 arch)) } ∧
    Go.protomarshal.Value_MarshalAppend_sliceUint64 arch b vals =
      some { b := b ++ vals.flatMap (enc 8 arch), ret := some (b ++ vals.flatMap (enc 8 arch)) } := pm_sliceUint_marshal arch b vals

end Fit.C06
