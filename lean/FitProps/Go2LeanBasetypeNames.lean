import FitModel.Generated.Go_basetype
import FitModel.Generated.CsvProfile
import FitProps.Go2LeanLemmas
/-!
Agreement of `BaseType.String()` / `FromString` GENERATED from profile/basetype/basetype.go with the name table of the CSV
model (`Fit.Gen.Csv.baseTypeNames`, which the harness regenerates by CALLING `String()` on the compiled package).
-/
set_option linter.unusedSimpArgs false  -- spare lemmas keep the proofs stable under harmless rewrites of the source
namespace Fit.Go2Lean

/-- `String()` and `FromString` are inverse on the 17 names, and these are the names the CSV model uses -/
theorem bt_names : ∀ p ∈ Fit.Gen.Csv.baseTypeNames,
    Go.basetype.BaseType.String_ p.1 = p.2 ∧ Go.basetype.FromString p.2 = p.1 := by decide +kernel

/-- `FromString` of anything that is not one of the 17 names is 255 -/
theorem bt_fromString_other (s : String) (h : ∀ p ∈ Fit.Gen.Csv.baseTypeNames, p.2 ≠ s) :
    Go.basetype.FromString s = 255 := by
  simp only [Fit.Gen.Csv.baseTypeNames, List.forall_mem_cons, List.not_mem_nil, false_imp_iff, implies_true, and_true, ne_eq] at h
  simp [Go.basetype.FromString, Id.run, h, eq_comm (a := s)]
  rfl

/-- `String()` of a byte that is no base type is `invalid(N)` -/
theorem bt_string_other : ∀ t < 256, (Fit.Gen.Csv.baseTypeNames.lookup t).isNone →
    Go.basetype.BaseType.String_ t = "invalid(" ++ toString t ++ ")" := by decide +kernel

end Fit.Go2Lean
