import FitProps.C12Lemmas
import FitModel.Expand
import FitModel.Physical
/-!
Lemmas for C05: `math.Round` in general, the error analysis of the component arithmetic
`((val/CS − CO) + DO)·DS` on the binary64 model, and the link between the executable specification
`Fit.Physical` (exact rationals as numerator/denominator) and Mathlib's ℚ.
-/
namespace Fit.C05L
open Fit.F64 Fit.ScaleOffset Fit.C12L

/-- `math.Round` of any finite value of magnitude below 2^52 is an integer within 1/2 of it -/
theorem round_fin_le (x : Nat) (q : ℚ) (hx : IsFin x q) (hq : |q| < 2 ^ 52) :
    ∃ i : Int, IsFin (round x) (i : ℚ) ∧ |q - i| ≤ 1 / 2 := by
  have h2 : (2 : ℚ) ≠ 0 := by norm_num
  obtain ⟨s, m, e, hd, hv⟩ := hx
  rw [toQ_fin] at hv
  by_cases he : e ≥ 0
  · obtain ⟨k, hk⟩ : ∃ k : Nat, (k : Int) = e := ⟨e.toNat, by omega⟩
    refine ⟨(if s then -1 else 1) * (m : Int) * 2 ^ k, ?_, ?_⟩
    · simp only [round, hd, he, if_true]
      refine ⟨s, m, e, hd, ?_⟩
      rw [toQ_fin, ← hk, zpow_natCast]; cases s <;> simp [sgn]
    · rw [← hv, ← hk, zpow_natCast]
      have : sgn s * (m : ℚ) * 2 ^ k - (((if s then -1 else 1) * (m : Int) * 2 ^ k : Int) : ℚ) = 0 := by
        cases s <;> simp [sgn]
      rw [this]; norm_num
  · obtain ⟨k, hk⟩ : ∃ k : Nat, (k : Int) = -e := ⟨(-e).toNat, by omega⟩
    have hkn : (-e).toNat = k := by omega
    have hk1 : 1 ≤ k := by omega
    have he' : e = -(k : Int) := by omega
    rw [he', zpow_neg, zpow_natCast] at hv
    have hp : (0 : ℚ) < (2 : ℚ) ^ k := by positivity
    set n := (m + 2 ^ (k - 1)) / 2 ^ k with hn
    have hpk' : 2 ^ k = 2 * 2 ^ (k - 1) := by rw [← pow_succ']; congr 1; omega
    have hpkq : (2 : ℚ) ^ k = 2 * 2 ^ (k - 1) := by rw [← pow_succ']; congr 1; omega
    -- n·2^k ≤ m + 2^(k-1) < (n+1)·2^k
    have hlo : n * 2 ^ k ≤ m + 2 ^ (k - 1) := Nat.div_mul_le_self _ _
    have hhi : m + 2 ^ (k - 1) < (n + 1) * 2 ^ k := by
      have := Nat.lt_mul_div_succ (m + 2 ^ (k - 1)) (by positivity : 0 < 2 ^ k)
      rw [Nat.mul_comm] at this; exact this
    have hloq : (n : ℚ) * 2 ^ k ≤ (m : ℚ) + 2 ^ (k - 1) := by exact_mod_cast hlo
    have hhiq : (m : ℚ) + 2 ^ (k - 1) < ((n : ℚ) + 1) * 2 ^ k := by exact_mod_cast hhi
    -- |m/2^k − n| ≤ 1/2
    have habs : |(m : ℚ) * ((2 : ℚ) ^ k)⁻¹ - n| ≤ 1 / 2 := by
      rw [← div_eq_mul_inv, abs_le]
      constructor
      · rw [le_sub_iff_add_le, le_div_iff₀ hp]; rw [hpkq] at hhiq ⊢; nlinarith
      · rw [sub_le_iff_le_add, div_le_iff₀ hp]; rw [hpkq] at hloq ⊢; nlinarith
    -- n < 2^53
    have hn53 : n < 2 ^ 53 := by
      have hq' : (m : ℚ) * ((2 : ℚ) ^ k)⁻¹ < 2 ^ 52 := by
        have : |q| = (m : ℚ) * ((2 : ℚ) ^ k)⁻¹ := by
          rw [← hv, abs_mul, abs_mul, abs_sgn, one_mul, abs_of_nonneg (by positivity), abs_of_pos (by positivity)]
        rw [← this]; exact hq
      have := abs_le.mp habs
      have : (n : ℚ) < 2 ^ 53 := by
        have : (2 : ℚ) ^ 52 + 1 / 2 < 2 ^ 53 := by norm_num
        linarith
      exact_mod_cast this
    refine ⟨(if s then -1 else 1) * (n : Int), ?_, ?_⟩
    · simp only [round, hd, he, if_false, hkn]
      rw [← hn]
      have key := ofRat_spec s n 1 0 (by norm_num) (by
        have : ((n : Nat) : ℚ) < 2 ^ 53 := by exact_mod_cast hn53
        have h : (2 : ℚ) ^ 53 < (2 : ℚ) ^ (1023 : Int) := by
          rw [← zpow_natCast]; exact zpow_lt_zpow_right₀ (by norm_num) (by norm_num)
        have e : ((n : Nat) : ℚ) / ((1 : Nat) : ℚ) * (2 : ℚ) ^ (0 : Int) = (n : ℚ) := by simp
        rw [e]; exact lt_trans this h)
      have e1 : (if s = true then (-1 : ℚ) else 1) * ((n : ℚ) / (1 : Nat) * (2 : ℚ) ^ (0 : Int))
          = (((if s then -1 else 1) * (n : Int) : Int) : ℚ) := by
        cases s <;> simp
      rw [e1] at key
      obtain ⟨s', m', q', hdec, _, hex⟩ := key
      refine ⟨s', m', q', hdec, ?_⟩
      apply hex n 0 hn53 (by norm_num)
      cases s <;> simp
    · rw [← hv]
      cases s with
      | false =>
        simp only [sgn, Bool.false_eq_true, if_false, one_mul]
        push_cast; simpa using habs
      | true =>
        simp only [sgn, if_true]
        have e : -1 * (m : ℚ) * ((2 : ℚ) ^ k)⁻¹ - ((-1 * (n : Int) : Int) : ℚ) = -((m : ℚ) * ((2 : ℚ) ^ k)⁻¹ - n) := by
          push_cast; ring
        rw [e, abs_neg]; exact habs

/-- error analysis of the component arithmetic `((v/CS − CO) + DO)·DS` (decoder.go:881-883) for `|v| ≤ 2^16` -/
theorem comp_bound (v CS CO DS DO q1 q2 q3 q4 : ℚ) (hv : |v| ≤ 2 ^ 16) (hCS : 1 / 2 ≤ CS)
    (hCO : |CO| ≤ 2 ^ 10) (hDS0 : 0 < DS) (hDS : DS ≤ 2 ^ 17) (hDO : |DO| ≤ 2 ^ 10)
    (h1 : Near q1 (v / CS)) (h2 : Near q2 (q1 - CO)) (h3 : Near q3 (q2 + DO)) (h4 : Near q4 (q3 * DS)) :
    |q2 - (v / CS - CO)| ≤ 1 / 2 ^ 30 ∧ |q4 - (v / CS - CO + DO) * DS| ≤ 1 / 2 ^ 10 := by
  have hCSpos : 0 < CS := by linarith
  have he := eta_le
  have b0 : |v / CS| ≤ 2 ^ 17 := by
    rw [abs_div, abs_of_pos hCSpos, div_le_iff₀ hCSpos]
    calc |v| ≤ 2 ^ 16 := hv
      _ = 2 ^ 17 * (1 / 2) := by norm_num
      _ ≤ 2 ^ 17 * CS := by gcongr
  have e1 : |q1 - v / CS| ≤ 2 ^ 17 / 2 ^ 53 + 1 / 2 ^ 80 := by
    have := h1.1
    have : |v / CS| / 2 ^ 53 ≤ 2 ^ 17 / 2 ^ 53 := by gcongr
    linarith
  have a1 : |q1| ≤ 2 ^ 17 + 1 := by
    have := abs_sub_abs_le_abs_sub q1 (v / CS)
    have : (2 : ℚ) ^ 17 / 2 ^ 53 + 1 / 2 ^ 80 ≤ 1 := by norm_num
    linarith
  have a1' : |q1 - CO| ≤ 2 ^ 18 := by
    have := abs_sub q1 CO
    have : (2 : ℚ) ^ 17 + 1 + 2 ^ 10 ≤ 2 ^ 18 := by norm_num
    linarith
  have e2 : |q2 - (q1 - CO)| ≤ 2 ^ 18 / 2 ^ 53 + 1 / 2 ^ 80 := by
    have := h2.1
    have : |q1 - CO| / 2 ^ 53 ≤ 2 ^ 18 / 2 ^ 53 := by gcongr
    linarith
  have t2 : |q2 - (v / CS - CO)| ≤ |q2 - (q1 - CO)| + |q1 - v / CS| := by
    have := abs_add_le (q2 - (q1 - CO)) (q1 - v / CS)
    calc |q2 - (v / CS - CO)| = |q2 - (q1 - CO) + (q1 - v / CS)| := by congr 1; ring
      _ ≤ _ := this
  have r2 : |q2 - (v / CS - CO)| ≤ 1 / 2 ^ 30 := by
    have : (2 : ℚ) ^ 18 / 2 ^ 53 + 1 / 2 ^ 80 + (2 ^ 17 / 2 ^ 53 + 1 / 2 ^ 80) ≤ 1 / 2 ^ 30 := by norm_num
    linarith
  have a2 : |q2| ≤ 2 ^ 18 + 1 := by
    have := abs_sub_abs_le_abs_sub q2 (q1 - CO)
    have : (2 : ℚ) ^ 18 / 2 ^ 53 + 1 / 2 ^ 80 ≤ 1 := by norm_num
    linarith
  have a2' : |q2 + DO| ≤ 2 ^ 19 := by
    have := abs_add_le q2 DO
    have : (2 : ℚ) ^ 18 + 1 + 2 ^ 10 ≤ 2 ^ 19 := by norm_num
    linarith
  have e3 : |q3 - (q2 + DO)| ≤ 2 ^ 19 / 2 ^ 53 + 1 / 2 ^ 80 := by
    have := h3.1
    have : |q2 + DO| / 2 ^ 53 ≤ 2 ^ 19 / 2 ^ 53 := by gcongr
    linarith
  have a3 : |q3| ≤ 2 ^ 19 + 1 := by
    have := abs_sub_abs_le_abs_sub q3 (q2 + DO)
    have : (2 : ℚ) ^ 19 / 2 ^ 53 + 1 / 2 ^ 80 ≤ 1 := by norm_num
    linarith
  have t3 : |q3 - (v / CS - CO + DO)| ≤ |q3 - (q2 + DO)| + |q2 - (v / CS - CO)| := by
    have := abs_add_le (q3 - (q2 + DO)) (q2 - (v / CS - CO))
    calc |q3 - (v / CS - CO + DO)| = |q3 - (q2 + DO) + (q2 - (v / CS - CO))| := by congr 1; ring
      _ ≤ _ := this
  have r3 : |q3 - (v / CS - CO + DO)| ≤ 1 / 2 ^ 29 := by
    have : (2 : ℚ) ^ 19 / 2 ^ 53 + 1 / 2 ^ 80 + 1 / 2 ^ 30 ≤ 1 / 2 ^ 29 := by norm_num
    linarith
  have a3' : |q3 * DS| ≤ 2 ^ 37 := by
    rw [abs_mul, abs_of_pos hDS0]
    calc |q3| * DS ≤ (2 ^ 19 + 1) * 2 ^ 17 := mul_le_mul a3 hDS (by linarith) (by norm_num)
      _ ≤ 2 ^ 37 := by norm_num
  have e4 : |q4 - q3 * DS| ≤ 2 ^ 37 / 2 ^ 53 + 1 / 2 ^ 80 := by
    have := h4.1
    have : |q3 * DS| / 2 ^ 53 ≤ 2 ^ 37 / 2 ^ 53 := by gcongr
    linarith
  have m3 : |q3 * DS - (v / CS - CO + DO) * DS| ≤ 1 / 2 ^ 29 * 2 ^ 17 := by
    have e : q3 * DS - (v / CS - CO + DO) * DS = (q3 - (v / CS - CO + DO)) * DS := by ring
    rw [e, abs_mul, abs_of_pos hDS0]
    exact mul_le_mul r3 hDS (by linarith) (by norm_num)
  have t4 : |q4 - (v / CS - CO + DO) * DS| ≤ |q4 - q3 * DS| + |q3 * DS - (v / CS - CO + DO) * DS| := by
    have := abs_add_le (q4 - q3 * DS) (q3 * DS - (v / CS - CO + DO) * DS)
    calc |q4 - (v / CS - CO + DO) * DS| = |q4 - q3 * DS + (q3 * DS - (v / CS - CO + DO) * DS)| := by congr 1; ring
      _ ≤ _ := this
  refine ⟨r2, ?_⟩
  have : (2 : ℚ) ^ 37 / 2 ^ 53 + 1 / 2 ^ 80 + 1 / 2 ^ 29 * 2 ^ 17 ≤ 1 / 2 ^ 10 := by norm_num
  linarith

/-- the unit test `scale == 1 && offset == 0` pins the values -/
theorem unit_vals (s o : Nat) (S O : ℚ) (hs64 : s < 2 ^ 64) (ho64 : o < 2 ^ 64) (hS : IsFin s S) (hO : IsFin o O)
    (hu : isUnit s o = true) : S = 1 ∧ O = 0 := by
  unfold isUnit feq at hu
  simp only [Bool.and_eq_true, Bool.not_eq_true', beq_iff_eq] at hu
  obtain ⟨⟨⟨_, _⟩, hk1⟩, ⟨⟨_, _⟩, hk0⟩⟩ := hu
  have h1 : IsFin oneBits 1 := by
    refine ⟨false, 2 ^ 52, -52, by decide +kernel, ?_⟩
    rw [toQ_fin]; simp only [sgn, Bool.false_eq_true, if_false, one_mul]
    rw [show (-52 : Int) = -((52 : Nat) : Int) by norm_num, zpow_neg, zpow_natCast]; norm_num
  constructor
  · have : s = oneBits := by
      have hko : key oneBits = 0x3FF0000000000000 := by decide +kernel
      rw [hko] at hk1
      unfold key at hk1
      simp only at hk1
      split_ifs at hk1 with hneg <;> (unfold oneBits; omega)
    rw [this] at hS
    exact isFin_unique _ _ _ hS h1
  · have hz : o = 0 ∨ o = 2 ^ 63 := by
      have hko : key 0 = 0 := by decide +kernel
      rw [hko] at hk0
      unfold key at hk0
      simp only at hk0
      split_ifs at hk0 with hneg <;> omega
    rcases hz with rfl | rfl
    · exact isFin_unique _ _ _ hO ⟨false, 0, -1074, by decide +kernel, by rw [toQ_fin]; simp⟩
    · exact isFin_unique _ _ _ hO ⟨true, 0, -1074, by decide +kernel, by rw [toQ_fin]; simp⟩

/-- **the component arithmetic on the model** (decoder.go:881-883 before the conversion): for a component value
`val ≤ 2^16` and scale/offset pairs in range, `Discard(Apply(val, cScale, cOffset), dScale, dOffset)` is a finite datum
within 2^-10 of the exact physical value `((val/CS − CO) + DO)·DS`. -/
theorem comp_fin (val : Nat) (hval : val ≤ 2 ^ 16) (cs co ds d0 : Nat) (hc : rangeOK cs co = true)
    (hd : rangeOK ds d0 = true) :
    ∃ CS CO DS DO q : ℚ, IsFin cs CS ∧ IsFin co CO ∧ IsFin ds DS ∧ IsFin d0 DO ∧
      IsFin (ScaleOffset.discard (ScaleOffset.apply (ofInt (val : Nat)) cs co) ds d0) q ∧
      |q - ((val : ℚ) / CS - CO + DO) * DS| ≤ 1 / 2 ^ 10 := by
  obtain ⟨CS, CO, fcs, fco, hco64, hCS, hCS', hCO⟩ := rangeOK_spec cs co hc
  obtain ⟨DS, DO, fds, fdo, hdo64, hDS, hDS', hDO⟩ := rangeOK_spec ds d0 hd
  refine ⟨CS, CO, DS, DO, ?_⟩
  have hCSpos : 0 < CS := by linarith
  have hDSpos : 0 < DS := by linarith
  have hvq : |((val : Int) : ℚ)| ≤ 2 ^ 16 := by
    simp only [Int.cast_natCast]; rw [abs_of_nonneg (by positivity)]; exact_mod_cast hval
  have hV := ofInt_fin (val : Int) (by simp; omega)
  have b0 : |((val : Int) : ℚ) / CS| ≤ 2 ^ 17 := by
    rw [abs_div, abs_of_pos hCSpos, div_le_iff₀ hCSpos]
    calc |((val : Int) : ℚ)| ≤ 2 ^ 16 := hvq
      _ = 2 ^ 17 * (1 / 2) := by norm_num
      _ ≤ 2 ^ 17 * CS := by gcongr
  obtain ⟨q1, f1, n1⟩ := div_fin _ cs _ CS hV fcs hCSpos.ne' (lt_big _ (by linarith [b0]))
  have b1 : |q1| ≤ 2 ^ 18 := by
    have := near_bound q1 _ _ n1 b0
    have : (2 : ℚ) ^ 17 + 2 ^ 17 / 2 ^ 53 + 1 / 2 ^ 80 ≤ 2 ^ 18 := by norm_num
    linarith
  have b1' : |q1 - CO| ≤ 2 ^ 19 := by
    have := abs_sub q1 CO
    have : (2 : ℚ) ^ 18 + 2 ^ 10 ≤ 2 ^ 19 := by norm_num
    linarith
  obtain ⟨q2, f2, n2⟩ := sub_fin _ co hco64 q1 CO f1 fco (lt_big _ (by linarith [b1']))
  by_cases hu : isUnit ds d0 = true
  · -- destination is the unit pair: Discard returns its argument
    obtain ⟨hs64, _⟩ := rangeOK_lt ds d0 hd
    obtain ⟨e1, e0⟩ := unit_vals ds d0 DS DO hs64 hdo64 fds fdo hu
    subst e1 e0
    refine ⟨q2, fcs, fco, fds, fdo, ?_, ?_⟩
    · simp only [ScaleOffset.discard, hu, if_true, ScaleOffset.apply]; exact f2
    · -- two roundings only
      have h3 : Near q2 (q2 + 0) := by
        refine ⟨by simp; unfold eta; positivity, fun _ _ _ _ _ => by simp⟩
      have h4 : Near q2 (q2 * 1) := by
        refine ⟨by simp; unfold eta; positivity, fun _ _ _ _ _ => by simp⟩
      have := (comp_bound _ CS CO 1 0 q1 q2 q2 q2 hvq hCS hCO (by norm_num) (by norm_num) (by norm_num) n1 n2 h3 h4).2
      simpa using this
  · have hu' : isUnit ds d0 = false := by simpa using hu
    have b2 : |q2| ≤ 2 ^ 20 := by
      have := near_bound q2 _ _ n2 b1'
      have : (2 : ℚ) ^ 19 + 2 ^ 19 / 2 ^ 53 + 1 / 2 ^ 80 ≤ 2 ^ 20 := by norm_num
      linarith
    have b2' : |q2 + DO| ≤ 2 ^ 21 := by
      have := abs_add_le q2 DO
      have : (2 : ℚ) ^ 20 + 2 ^ 10 ≤ 2 ^ 21 := by norm_num
      linarith
    obtain ⟨q3, f3, n3⟩ := add_fin _ d0 q2 DO f2 fdo (lt_big _ (by linarith [b2']))
    have b3 : |q3| ≤ 2 ^ 22 := by
      have := near_bound q3 _ _ n3 b2'
      have : (2 : ℚ) ^ 21 + 2 ^ 21 / 2 ^ 53 + 1 / 2 ^ 80 ≤ 2 ^ 22 := by norm_num
      linarith
    have b3' : |q3 * DS| ≤ 2 ^ 39 := by
      rw [abs_mul, abs_of_pos hDSpos]
      calc |q3| * DS ≤ 2 ^ 22 * 2 ^ 17 := mul_le_mul b3 hDS' (by linarith) (by norm_num)
        _ = 2 ^ 39 := by norm_num
    obtain ⟨q4, f4, n4⟩ := mul_fin _ ds q3 DS f3 fds (lt_big _ (by linarith [b3']))
    refine ⟨q4, fcs, fco, fds, fdo, ?_, ?_⟩
    · simp only [ScaleOffset.discard, hu', Bool.false_eq_true, if_false, ScaleOffset.apply]; exact f4
    · have := (comp_bound _ CS CO DS DO q1 q2 q3 q4 hvq hCS hCO hDSpos hDS' hDO n1 n2 n3 n4).2
      simpa using this

/-- **value of an expanded component on the model.** With both pairs in range, `val ≤ 2^16` and a physical value in
`[0, 2^32 − 1]`: the decoder's `uint32(math.Round(Discard(Apply(val …))))` is an integer within one unit of the physical
value, and is the physical value itself whenever that is an integer. -/
theorem comp_value (val : Nat) (hval : val ≤ 2 ^ 16) (cs co ds d0 : Nat) (hc : rangeOK cs co = true)
    (hd : rangeOK ds d0 = true) :
    ∃ CS CO DS DO : ℚ, IsFin cs CS ∧ IsFin co CO ∧ IsFin ds DS ∧ IsFin d0 DO ∧
      (0 ≤ ((val : ℚ) / CS - CO + DO) * DS → ((val : ℚ) / CS - CO + DO) * DS ≤ 2 ^ 32 - 1 →
        |((Fit.Expand.componentValue val cs co ds d0 : Nat) : ℚ) - ((val : ℚ) / CS - CO + DO) * DS| ≤ 1 ∧
        ∀ e : Int, ((val : ℚ) / CS - CO + DO) * DS = e → (Fit.Expand.componentValue val cs co ds d0 : Int) = e) := by
  obtain ⟨CS, CO, DS, DO, q, f1, f2, f3, f4, fq, hq⟩ := comp_fin val hval cs co ds d0 hc hd
  refine ⟨CS, CO, DS, DO, f1, f2, f3, f4, ?_⟩
  intro h0 h32
  set phys := ((val : ℚ) / CS - CO + DO) * DS with hphys
  have hql := abs_le.mp hq
  have hqabs : |q| < 2 ^ 52 := by
    rw [abs_lt]; constructor <;> norm_num at * <;> linarith
  obtain ⟨i, fi, hi⟩ := round_fin_le _ q fq hqabs
  have hil := abs_le.mp hi
  have hi0 : 0 ≤ i := by
    have : (-1 : ℚ) < (i : ℚ) := by norm_num at *; linarith
    have : (-1 : Int) < i := by exact_mod_cast this
    omega
  have hi32 : i < 2 ^ 32 := by
    have : (i : ℚ) < 2 ^ 32 := by norm_num at *; linarith
    have : (i : ℚ) < ((2 ^ 32 : Int) : ℚ) := by push_cast; linarith
    exact_mod_cast this
  have hcv : Fit.Expand.componentValue val cs co ds d0 = i.toNat := by
    unfold Fit.Expand.componentValue
    rw [cvt_int .u32 (by decide) _ i fi (by
      simp only [InRange, IntTy.signed, IntTy.bits, Bool.false_eq_true, if_false]; exact ⟨hi0, hi32⟩)]
    simp only [wrap, IntTy.bits]
    congr 1
    exact Int.emod_eq_of_lt hi0 (by simpa using hi32)
  have hcast : ((i.toNat : Nat) : Int) = i := Int.toNat_of_nonneg hi0
  have hcastq : ((i.toNat : Nat) : ℚ) = (i : ℚ) := by
    have : (((i.toNat : Nat) : Int) : ℚ) = (i : ℚ) := by rw [hcast]
    rw [← this]; norm_cast
  rw [hcv, hcastq]
  constructor
  · rw [abs_le]; constructor <;> norm_num at * <;> linarith
  · intro e he
    rw [hcast]
    have : |((i - e : Int) : ℚ)| < 1 := by
      push_cast; rw [← he, abs_lt]; constructor <;> norm_num at * <;> linarith
    rw [← Int.cast_abs] at this
    have : |i - e| < 1 := by exact_mod_cast this
    have := abs_lt.mp this
    omega

/-! ### the executable specification `Fit.Physical` computes that physical value -/
open Fit.Physical

def toRat (q : Q) : ℚ := (q.num : ℚ) / (q.den : ℚ)

theorem ofF64_spec (x : Nat) (q : Q) (h : Q.ofF64 x = some q) : q.den ≠ 0 ∧ IsFin x (toRat q) := by
  unfold Q.ofF64 at h
  cases hd : decode x with
  | nan => simp [hd] at h
  | inf _ => simp [hd] at h
  | fin s m e =>
    simp only [hd] at h
    have h2 : (2 : ℚ) ≠ 0 := by norm_num
    by_cases he : e ≥ 0
    · simp only [he, if_true, Option.some.injEq] at h
      subst h
      refine ⟨by norm_num, s, m, e, hd, ?_⟩
      obtain ⟨k, hk⟩ : ∃ k : Nat, (k : Int) = e := ⟨e.toNat, by omega⟩
      have hkn : e.toNat = k := by omega
      rw [toQ_fin, toRat, hkn, ← hk, zpow_natCast]
      cases s <;> simp [sgn]
    · simp only [he, if_false, Option.some.injEq] at h
      subst h
      obtain ⟨k, hk⟩ : ∃ k : Nat, (k : Int) = -e := ⟨(-e).toNat, by omega⟩
      have hkn : (-e).toNat = k := by omega
      refine ⟨by simp, s, m, e, hd, ?_⟩
      have he' : e = -(k : Int) := by omega
      rw [toQ_fin, toRat, hkn, he', zpow_neg, zpow_natCast]
      cases s <;> simp [sgn] <;> field_simp

theorem toRat_ofInt (i : Int) : (Q.ofInt i).den ≠ 0 ∧ toRat (Q.ofInt i) = i := by
  simp [Q.ofInt, toRat]

theorem toRat_add (a b : Q) (ha : a.den ≠ 0) (hb : b.den ≠ 0) :
    (Q.add a b).den ≠ 0 ∧ toRat (Q.add a b) = toRat a + toRat b := by
  have ha' : (a.den : ℚ) ≠ 0 := by exact_mod_cast ha
  have hb' : (b.den : ℚ) ≠ 0 := by exact_mod_cast hb
  refine ⟨Nat.mul_ne_zero ha hb, ?_⟩
  simp only [toRat, Q.add]; push_cast; field_simp

theorem toRat_neg (a : Q) (ha : a.den ≠ 0) : (Q.neg a).den ≠ 0 ∧ toRat (Q.neg a) = -toRat a := by
  refine ⟨ha, ?_⟩
  simp only [toRat, Q.neg]; push_cast; ring

theorem toRat_sub (a b : Q) (ha : a.den ≠ 0) (hb : b.den ≠ 0) :
    (Q.sub a b).den ≠ 0 ∧ toRat (Q.sub a b) = toRat a - toRat b := by
  obtain ⟨h1, h2⟩ := toRat_neg b hb
  obtain ⟨h3, h4⟩ := toRat_add a (Q.neg b) ha h1
  exact ⟨h3, by rw [Q.sub, h4, h2]; ring⟩

theorem toRat_mul (a b : Q) (ha : a.den ≠ 0) (hb : b.den ≠ 0) :
    (Q.mul a b).den ≠ 0 ∧ toRat (Q.mul a b) = toRat a * toRat b := by
  have ha' : (a.den : ℚ) ≠ 0 := by exact_mod_cast ha
  have hb' : (b.den : ℚ) ≠ 0 := by exact_mod_cast hb
  refine ⟨Nat.mul_ne_zero ha hb, ?_⟩
  simp only [toRat, Q.mul]; push_cast; field_simp

theorem toRat_div (a b : Q) (ha : a.den ≠ 0) (hb : b.den ≠ 0) (hbn : b.num ≠ 0) :
    (Q.div a b).den ≠ 0 ∧ toRat (Q.div a b) = toRat a / toRat b := by
  have ha' : (a.den : ℚ) ≠ 0 := by exact_mod_cast ha
  have hb' : (b.den : ℚ) ≠ 0 := by exact_mod_cast hb
  have hbn' : (b.num : ℚ) ≠ 0 := by exact_mod_cast hbn
  have hnat : b.num.natAbs ≠ 0 := Int.natAbs_ne_zero.mpr hbn
  have habs : ((b.num.natAbs : Nat) : ℚ) = |(b.num : ℚ)| := by rw [Nat.cast_natAbs, Int.cast_abs]
  unfold Q.div
  split_ifs with hneg
  · refine ⟨Nat.mul_ne_zero ha hnat, ?_⟩
    have : (b.num : ℚ) < 0 := by exact_mod_cast hneg
    simp only [toRat]; push_cast; rw [habs, abs_of_neg this]; field_simp
  · refine ⟨Nat.mul_ne_zero ha hnat, ?_⟩
    have : (0 : ℚ) < (b.num : ℚ) := by
      have : (0 : ℚ) ≤ (b.num : ℚ) := by exact_mod_cast (not_lt.mp hneg)
      exact lt_of_le_of_ne this (Ne.symm hbn')
    simp only [toRat]; push_cast; rw [habs, abs_of_pos this]; field_simp

/-- `Fit.Physical.phys` is the exact rational `((bits/CS − CO) + DO)·DS` of the four float64 data -/
theorem phys_spec (bits cs co ds d0 : Nat) (q : Q) (h : phys bits cs co ds d0 = some q) :
    q.den ≠ 0 ∧ ∃ CS CO DS DO : ℚ, IsFin cs CS ∧ IsFin co CO ∧ IsFin ds DS ∧ IsFin d0 DO ∧
      toRat q = ((bits : ℚ) / CS - CO + DO) * DS := by
  unfold phys at h
  cases h1 : Q.ofF64 cs with
  | none => simp [h1] at h
  | some qcs =>
    cases h2 : Q.ofF64 co with
    | none => simp [h1, h2] at h
    | some qco =>
      cases h3 : Q.ofF64 ds with
      | none => simp [h1, h2, h3] at h
      | some qds =>
        cases h4 : Q.ofF64 d0 with
        | none => simp [h1, h2, h3, h4] at h
        | some qdo =>
          simp only [h1, h2, h3, h4] at h
          by_cases hz : qcs.num = 0
          · simp [hz] at h
          · simp only [hz, if_false, Option.some.injEq] at h
            subst h
            obtain ⟨d1, f1⟩ := ofF64_spec cs qcs h1
            obtain ⟨d2, f2⟩ := ofF64_spec co qco h2
            obtain ⟨d3, f3⟩ := ofF64_spec ds qds h3
            obtain ⟨d4, f4⟩ := ofF64_spec d0 qdo h4
            obtain ⟨di, ei⟩ := toRat_ofInt (bits : Int)
            obtain ⟨da, ea⟩ := toRat_div _ qcs di d1 hz
            obtain ⟨db, eb⟩ := toRat_sub _ qco da d2
            obtain ⟨dc, ec⟩ := toRat_add _ qdo db d4
            obtain ⟨dd, ed⟩ := toRat_mul _ qds dc d3
            refine ⟨dd, toRat qcs, toRat qco, toRat qds, toRat qdo, f1, f2, f3, f4, ?_⟩
            rw [ed, ec, eb, ea, ei]; simp

theorem exactValue_spec (bits cs co ds d0 e : Nat) (h : exactValue bits cs co ds d0 = some e) :
    e < 2 ^ 32 ∧ ∃ CS CO DS DO : ℚ, IsFin cs CS ∧ IsFin co CO ∧ IsFin ds DS ∧ IsFin d0 DO ∧
      ((bits : ℚ) / CS - CO + DO) * DS = e := by
  unfold exactValue at h
  cases hp : phys bits cs co ds d0 with
  | none => simp [hp] at h
  | some q =>
    simp only [hp] at h
    obtain ⟨hden, CS, CO, DS, DO, f1, f2, f3, f4, hq⟩ := phys_spec bits cs co ds d0 q hp
    by_cases hc : q.isInt = true ∧ 0 ≤ q.floor ∧ q.floor < 2 ^ 32
    · simp only [hc, and_self, if_true, Option.some.injEq] at h
      obtain ⟨hint, h0, h32⟩ := hc
      refine ⟨by omega, CS, CO, DS, DO, f1, f2, f3, f4, ?_⟩
      rw [← hq, ← h]
      unfold Q.isInt at hint
      simp only [Bool.and_eq_true, bne_iff_ne, ne_eq, beq_iff_eq] at hint
      have hdq : (q.den : ℚ) ≠ 0 := by exact_mod_cast hden
      have hdiv : q.num = (q.den : Int) * q.floor := by
        unfold Q.floor
        have := Int.emod_add_mul_ediv q.num (q.den : Int)
        rw [hint.2] at this; omega
      have : ((q.floor.toNat : Nat) : ℚ) = (q.floor : ℚ) := by
        have : ((q.floor.toNat : Nat) : Int) = q.floor := Int.toNat_of_nonneg h0
        have h' : (((q.floor.toNat : Nat) : Int) : ℚ) = (q.floor : ℚ) := by rw [this]
        rw [← h']; norm_cast
      rw [this, toRat, hdiv]; push_cast; field_simp
    · exfalso
      apply hc
      by_contra hcon
      simp only [hcon, if_false] at h
      cases h


theorem withinOne_of (v bits cs co ds d0 : Nat) (q : Q) (hp : phys bits cs co ds d0 = some q) (hden : q.den ≠ 0)
    (h : |(v : ℚ) - toRat q| ≤ 1) : withinOne v bits cs co ds d0 = true := by
  unfold withinOne
  simp only [hp]
  obtain ⟨di, ei⟩ := toRat_ofInt (v : Int)
  obtain ⟨dd, ed⟩ := toRat_sub (Q.ofInt v) q di hden
  have hpos : (0 : ℚ) < ((Q.sub (Q.ofInt v) q).den : ℚ) := by
    exact_mod_cast Nat.pos_of_ne_zero dd
  have hval : toRat (Q.sub (Q.ofInt v) q) = (v : ℚ) - toRat q := by rw [ed, ei]; simp
  rw [← hval, toRat, abs_le, le_div_iff₀ hpos, div_le_iff₀ hpos] at h
  simp only [decide_eq_true_eq]
  constructor
  · have : (-((Q.sub (Q.ofInt v) q).den : Int) : ℚ) ≤ ((Q.sub (Q.ofInt v) q).num : ℚ) := by
      push_cast; linarith [h.1]
    exact_mod_cast this
  · have : ((Q.sub (Q.ofInt v) q).num : ℚ) ≤ (((Q.sub (Q.ofInt v) q).den : Int) : ℚ) := by
      push_cast; linarith [h.2]
    exact_mod_cast this

/-- converting a value into the unit it already has is the identity: `((v/S − O) + O)·S = v` -/
theorem exactValue_same (v s o T : Nat) (h : exactValue v s o s o = some T) : T = v := by
  unfold exactValue at h
  cases hp : phys v s o s o with
  | none => simp [hp] at h
  | some q =>
    simp only [hp] at h
    -- the scale is not zero
    have hS : ∃ qs, Q.ofF64 s = some qs ∧ qs.num ≠ 0 := by
      unfold phys at hp
      cases h1 : Q.ofF64 s with
      | none => simp [h1] at hp
      | some qs =>
        refine ⟨qs, rfl, ?_⟩
        intro hz
        cases h2 : Q.ofF64 o with
        | none => simp [h1, h2] at hp
        | some qo => simp [h1, h2, hz] at hp
    obtain ⟨qs, hqs, hnum⟩ := hS
    obtain ⟨hdqs, fqs⟩ := ofF64_spec s qs hqs
    obtain ⟨hden, CS, CO, DS, DO, f1, f2, f3, f4, hq⟩ := phys_spec v s o s o q hp
    have e1 := isFin_unique _ _ _ f1 f3
    have e2 := isFin_unique _ _ _ f2 f4
    have e3 := isFin_unique _ _ _ f1 fqs
    subst e1 e2
    have hCS : CS ≠ 0 := by
      rw [e3, toRat]
      have : (qs.num : ℚ) ≠ 0 := by exact_mod_cast hnum
      have : (qs.den : ℚ) ≠ 0 := by exact_mod_cast hdqs
      positivity
    have hval : toRat q = v := by rw [hq]; field_simp; ring
    by_cases hc : q.isInt = true ∧ 0 ≤ q.floor ∧ q.floor < 2 ^ 32
    · simp only [hc, and_self, if_true, Option.some.injEq] at h
      obtain ⟨hint, h0, _⟩ := hc
      unfold Q.isInt at hint
      simp only [Bool.and_eq_true, bne_iff_ne, ne_eq, beq_iff_eq] at hint
      have hdq : (q.den : ℚ) ≠ 0 := by exact_mod_cast hden
      have hdiv : q.num = (q.den : Int) * q.floor := by
        unfold Q.floor
        have := Int.emod_add_mul_ediv q.num (q.den : Int)
        rw [hint.2] at this; omega
      have hfl : (q.floor : ℚ) = v := by
        rw [← hval, toRat, hdiv]; push_cast; field_simp
      have : q.floor = (v : Int) := by exact_mod_cast hfl
      rw [← h, this]; simp
    · exfalso
      by_cases hcc : q.isInt = true ∧ 0 ≤ q.floor ∧ q.floor < 2 ^ 32
      · exact hc hcc
      · simp only [hcc, if_false] at h; cases h

/-- error analysis of the component arithmetic for values up to 2^32 (accumulated totals), given that the physical
value itself lies in [0, 2^32] -/
theorem comp_bound32 (v CS CO DS DO q1 q2 q3 q4 : ℚ) (hv0 : 0 ≤ v) (hv : v ≤ 2 ^ 32) (hCS : 1 / 2 ≤ CS)
    (hCO : |CO| ≤ 2 ^ 10) (hDS0 : 0 < DS) (hDS : DS ≤ 2 ^ 17) (hDO : |DO| ≤ 2 ^ 10)
    (hp0 : 0 ≤ (v / CS - CO + DO) * DS) (hp : (v / CS - CO + DO) * DS ≤ 2 ^ 32)
    (h1 : Near q1 (v / CS)) (h2 : Near q2 (q1 - CO)) (h3 : Near q3 (q2 + DO)) (h4 : Near q4 (q3 * DS)) :
    |q4 - (v / CS - CO + DO) * DS| ≤ 1 / 2 ^ 10 := by
  have hCSpos : 0 < CS := by linarith
  have he := eta_le
  set A := v / CS with hAdef
  have hA0 : 0 ≤ A := div_nonneg hv0 hCSpos.le
  have hA : A ≤ 2 ^ 33 := by
    rw [hAdef, div_le_iff₀ hCSpos]
    calc v ≤ 2 ^ 32 := hv
      _ = 2 ^ 33 * (1 / 2) := by norm_num
      _ ≤ 2 ^ 33 * CS := by gcongr
  have hcd : |CO - DO| ≤ 2 ^ 11 := by
    have := abs_sub CO DO
    linarith
  have hAD : A * DS ≤ 2 ^ 33 := by
    have e : A * DS = (A - CO + DO) * DS + (CO - DO) * DS := by ring
    have : (CO - DO) * DS ≤ 2 ^ 11 * 2 ^ 17 := by
      calc (CO - DO) * DS ≤ |CO - DO| * DS := by gcongr; exact le_abs_self _
        _ ≤ 2 ^ 11 * 2 ^ 17 := by gcongr
    rw [e]; norm_num at this ⊢; linarith
  have absA : |A| = A := abs_of_nonneg hA0
  have e1 : |q1 - A| ≤ A / 2 ^ 53 + 1 / 2 ^ 80 := by
    have := h1.1; rw [absA] at this; linarith
  have hA53 : A / 2 ^ 53 ≤ 1 / 2 ^ 20 := by
    rw [div_le_iff₀ (by positivity)]; norm_num at hA ⊢; linarith
  have a1 : |q1| ≤ A + 1 := by
    have := abs_sub_abs_le_abs_sub q1 A
    rw [absA] at this
    have : (1 : ℚ) / 2 ^ 20 + 1 / 2 ^ 80 ≤ 1 := by norm_num
    linarith
  have a1' : |q1 - CO| ≤ A + 1 + 2 ^ 10 := by
    have := abs_sub q1 CO; linarith
  have e2 : |q2 - (q1 - CO)| ≤ (A + 1 + 2 ^ 10) / 2 ^ 53 + 1 / 2 ^ 80 := by
    have := h2.1
    have : |q1 - CO| / 2 ^ 53 ≤ (A + 1 + 2 ^ 10) / 2 ^ 53 := by gcongr
    linarith
  have hsmall : (A + 2 ^ 12) / 2 ^ 53 ≤ 1 / 2 ^ 19 := by
    rw [div_le_iff₀ (by positivity)]; norm_num at hA ⊢; linarith
  have a2 : |q2| ≤ A + 2 + 2 ^ 10 := by
    have := abs_sub_abs_le_abs_sub q2 (q1 - CO)
    have : (A + 1 + 2 ^ 10) / 2 ^ 53 ≤ (A + 2 ^ 12) / 2 ^ 53 := by
      apply div_le_div_of_nonneg_right _ (by positivity)
      have : (1 : ℚ) + 2 ^ 10 ≤ 2 ^ 12 := by norm_num
      linarith
    have : (1 : ℚ) / 2 ^ 19 + 1 / 2 ^ 80 ≤ 1 := by norm_num
    linarith
  have a2' : |q2 + DO| ≤ A + 2 + 2 ^ 11 := by
    have := abs_add_le q2 DO
    have : (2 : ℚ) ^ 10 + 2 ^ 10 = 2 ^ 11 := by norm_num
    linarith
  have e3 : |q3 - (q2 + DO)| ≤ (A + 2 + 2 ^ 11) / 2 ^ 53 + 1 / 2 ^ 80 := by
    have := h3.1
    have : |q2 + DO| / 2 ^ 53 ≤ (A + 2 + 2 ^ 11) / 2 ^ 53 := by gcongr
    linarith
  -- error before the multiplication
  have r3 : |q3 - (A - CO + DO)| ≤ (3 * A + 2 ^ 13) / 2 ^ 53 + 3 / 2 ^ 80 := by
    have t : |q3 - (A - CO + DO)| ≤ |q3 - (q2 + DO)| + |q2 - (q1 - CO)| + |q1 - A| := by
      have := abs_add_three (q3 - (q2 + DO)) (q2 - (q1 - CO)) (q1 - A)
      calc |q3 - (A - CO + DO)| = |q3 - (q2 + DO) + (q2 - (q1 - CO)) + (q1 - A)| := by congr 1; ring
        _ ≤ _ := this
    have : A / 2 ^ 53 + (A + 1 + 2 ^ 10) / 2 ^ 53 + (A + 2 + 2 ^ 11) / 2 ^ 53 ≤ (3 * A + 2 ^ 13) / 2 ^ 53 := by
      rw [← add_div, ← add_div]
      apply div_le_div_of_nonneg_right _ (by positivity)
      have : (1 : ℚ) + 2 ^ 10 + (2 + 2 ^ 11) ≤ 2 ^ 13 := by norm_num
      linarith
    linarith
  have m3 : |q3 * DS - (A - CO + DO) * DS| ≤ 1 / 2 ^ 17 := by
    have e : q3 * DS - (A - CO + DO) * DS = (q3 - (A - CO + DO)) * DS := by ring
    rw [e, abs_mul, abs_of_pos hDS0]
    calc |q3 - (A - CO + DO)| * DS ≤ ((3 * A + 2 ^ 13) / 2 ^ 53 + 3 / 2 ^ 80) * DS := by gcongr
      _ = (3 * (A * DS) + 2 ^ 13 * DS) / 2 ^ 53 + 3 / 2 ^ 80 * DS := by ring
      _ ≤ (3 * 2 ^ 33 + 2 ^ 13 * 2 ^ 17) / 2 ^ 53 + 3 / 2 ^ 80 * 2 ^ 17 := by gcongr
      _ ≤ 1 / 2 ^ 17 := by norm_num
  have a3 : |q3 * DS| ≤ 2 ^ 32 + 1 := by
    have := abs_sub_abs_le_abs_sub (q3 * DS) ((A - CO + DO) * DS)
    have hp' : |(A - CO + DO) * DS| ≤ 2 ^ 32 := by rw [abs_of_nonneg hp0]; exact hp
    have : (1 : ℚ) / 2 ^ 17 ≤ 1 := by norm_num
    linarith
  have e4 : |q4 - q3 * DS| ≤ (2 ^ 32 + 1) / 2 ^ 53 + 1 / 2 ^ 80 := by
    have := h4.1
    have : |q3 * DS| / 2 ^ 53 ≤ (2 ^ 32 + 1) / 2 ^ 53 := by gcongr
    linarith
  have t4 : |q4 - (A - CO + DO) * DS| ≤ |q4 - q3 * DS| + |q3 * DS - (A - CO + DO) * DS| := by
    have := abs_add_le (q4 - q3 * DS) (q3 * DS - (A - CO + DO) * DS)
    calc |q4 - (A - CO + DO) * DS| = |q4 - q3 * DS + (q3 * DS - (A - CO + DO) * DS)| := by congr 1; ring
      _ ≤ _ := this
  have : ((2 : ℚ) ^ 32 + 1) / 2 ^ 53 + 1 / 2 ^ 80 + 1 / 2 ^ 17 ≤ 1 / 2 ^ 10 := by norm_num
  linarith

/-- the component arithmetic on the model for values up to 2^32 (accumulated totals) whose physical value lies in
`[0, 2^32]`: a finite datum within 2^-10 of `((val/CS − CO) + DO)·DS`. -/
theorem comp_fin32 (val : Nat) (hval : val ≤ 2 ^ 32) (cs co ds d0 : Nat) (hc : rangeOK cs co = true)
    (hd : rangeOK ds d0 = true) :
    ∃ CS CO DS DO : ℚ, IsFin cs CS ∧ IsFin co CO ∧ IsFin ds DS ∧ IsFin d0 DO ∧
      (0 ≤ ((val : ℚ) / CS - CO + DO) * DS → ((val : ℚ) / CS - CO + DO) * DS ≤ 2 ^ 32 →
        ∃ q : ℚ, IsFin (ScaleOffset.discard (ScaleOffset.apply (ofInt (val : Nat)) cs co) ds d0) q ∧
          |q - ((val : ℚ) / CS - CO + DO) * DS| ≤ 1 / 2 ^ 10) := by
  obtain ⟨CS, CO, fcs, fco, hco64, hCS, hCS', hCO⟩ := rangeOK_spec cs co hc
  obtain ⟨DS, DO, fds, fdo, hdo64, hDS, hDS', hDO⟩ := rangeOK_spec ds d0 hd
  refine ⟨CS, CO, DS, DO, fcs, fco, fds, fdo, ?_⟩
  intro hp0 hp
  have hCSpos : 0 < CS := by linarith
  have hDSpos : 0 < DS := by linarith
  have hv0 : (0 : ℚ) ≤ ((val : Int) : ℚ) := by simp
  have hvq : ((val : Int) : ℚ) ≤ 2 ^ 32 := by
    simp only [Int.cast_natCast]; exact_mod_cast hval
  have hV := ofInt_fin (val : Int) (by simp; omega)
  have b0 : |((val : Int) : ℚ) / CS| ≤ 2 ^ 33 := by
    rw [abs_div, abs_of_pos hCSpos, abs_of_nonneg hv0, div_le_iff₀ hCSpos]
    calc ((val : Int) : ℚ) ≤ 2 ^ 32 := hvq
      _ = 2 ^ 33 * (1 / 2) := by norm_num
      _ ≤ 2 ^ 33 * CS := by gcongr
  obtain ⟨q1, f1, n1⟩ := div_fin _ cs _ CS hV fcs hCSpos.ne' (lt_big _ (by linarith [b0]))
  have b1 : |q1| ≤ 2 ^ 34 := by
    have := near_bound q1 _ _ n1 b0
    have : (2 : ℚ) ^ 33 + 2 ^ 33 / 2 ^ 53 + 1 / 2 ^ 80 ≤ 2 ^ 34 := by norm_num
    linarith
  have b1' : |q1 - CO| ≤ 2 ^ 35 := by
    have := abs_sub q1 CO
    have : (2 : ℚ) ^ 34 + 2 ^ 10 ≤ 2 ^ 35 := by norm_num
    linarith
  obtain ⟨q2, f2, n2⟩ := sub_fin _ co hco64 q1 CO f1 fco (lt_big _ (by linarith [b1']))
  have hp0' : 0 ≤ (((val : Int) : ℚ) / CS - CO + DO) * DS := by simpa using hp0
  have hp' : (((val : Int) : ℚ) / CS - CO + DO) * DS ≤ 2 ^ 32 := by simpa using hp
  by_cases hu : isUnit ds d0 = true
  · obtain ⟨hs64, _⟩ := rangeOK_lt ds d0 hd
    obtain ⟨e1, e0⟩ := unit_vals ds d0 DS DO hs64 hdo64 fds fdo hu
    subst e1 e0
    refine ⟨q2, ?_, ?_⟩
    · simp only [ScaleOffset.discard, hu, if_true, ScaleOffset.apply]; exact f2
    · have h3 : Near q2 (q2 + 0) := by
        refine ⟨by simp; unfold eta; positivity, fun _ _ _ _ _ => by simp⟩
      have h4 : Near q2 (q2 * 1) := by
        refine ⟨by simp; unfold eta; positivity, fun _ _ _ _ _ => by simp⟩
      have := comp_bound32 _ CS CO 1 0 q1 q2 q2 q2 hv0 hvq hCS hCO (by norm_num) (by norm_num) (by norm_num)
        hp0' hp' n1 n2 h3 h4
      simpa using this
  · have hu' : isUnit ds d0 = false := by simpa using hu
    have b2 : |q2| ≤ 2 ^ 36 := by
      have := near_bound q2 _ _ n2 b1'
      have : (2 : ℚ) ^ 35 + 2 ^ 35 / 2 ^ 53 + 1 / 2 ^ 80 ≤ 2 ^ 36 := by norm_num
      linarith
    have b2' : |q2 + DO| ≤ 2 ^ 37 := by
      have := abs_add_le q2 DO
      have : (2 : ℚ) ^ 36 + 2 ^ 10 ≤ 2 ^ 37 := by norm_num
      linarith
    obtain ⟨q3, f3, n3⟩ := add_fin _ d0 q2 DO f2 fdo (lt_big _ (by linarith [b2']))
    have b3 : |q3| ≤ 2 ^ 38 := by
      have := near_bound q3 _ _ n3 b2'
      have : (2 : ℚ) ^ 37 + 2 ^ 37 / 2 ^ 53 + 1 / 2 ^ 80 ≤ 2 ^ 38 := by norm_num
      linarith
    have b3' : |q3 * DS| ≤ 2 ^ 55 := by
      rw [abs_mul, abs_of_pos hDSpos]
      calc |q3| * DS ≤ 2 ^ 38 * 2 ^ 17 := mul_le_mul b3 hDS' (by linarith) (by norm_num)
        _ = 2 ^ 55 := by norm_num
    obtain ⟨q4, f4, n4⟩ := mul_fin _ ds q3 DS f3 fds (lt_big _ (by linarith [b3']))
    refine ⟨q4, ?_, ?_⟩
    · simp only [ScaleOffset.discard, hu', Bool.false_eq_true, if_false, ScaleOffset.apply]; exact f4
    · have := comp_bound32 _ CS CO DS DO q1 q2 q3 q4 hv0 hvq hCS hCO hDSpos hDS' hDO hp0' hp' n1 n2 n3 n4
      simpa using this

/-- **value of an expanded component on the model, for slices and accumulated totals up to 2^32.** With both pairs in
range and a physical value in `[0, 2^32 − 1]`: the decoder's `uint32(math.Round(Discard(Apply(val …))))` is an integer
within one unit of the physical value, and is the physical value itself whenever that is an integer. -/
theorem comp_value32 (val : Nat) (hval : val ≤ 2 ^ 32) (cs co ds d0 : Nat) (hc : rangeOK cs co = true)
    (hd : rangeOK ds d0 = true) :
    ∃ CS CO DS DO : ℚ, IsFin cs CS ∧ IsFin co CO ∧ IsFin ds DS ∧ IsFin d0 DO ∧
      (0 ≤ ((val : ℚ) / CS - CO + DO) * DS → ((val : ℚ) / CS - CO + DO) * DS ≤ 2 ^ 32 - 1 →
        |((Fit.Expand.componentValue val cs co ds d0 : Nat) : ℚ) - ((val : ℚ) / CS - CO + DO) * DS| ≤ 1 ∧
        ∀ e : Int, ((val : ℚ) / CS - CO + DO) * DS = e → (Fit.Expand.componentValue val cs co ds d0 : Int) = e) := by
  obtain ⟨CS, CO, DS, DO, f1, f2, f3, f4, hfin⟩ := comp_fin32 val hval cs co ds d0 hc hd
  refine ⟨CS, CO, DS, DO, f1, f2, f3, f4, ?_⟩
  intro h0 h32
  obtain ⟨q, fq, hq⟩ := hfin h0 (by linarith)
  set phys := ((val : ℚ) / CS - CO + DO) * DS with hphys
  have hql := abs_le.mp hq
  have hqabs : |q| < 2 ^ 52 := by
    rw [abs_lt]; constructor <;> norm_num at * <;> linarith
  obtain ⟨i, fi, hi⟩ := round_fin_le _ q fq hqabs
  have hil := abs_le.mp hi
  have hi0 : 0 ≤ i := by
    have : (-1 : ℚ) < (i : ℚ) := by norm_num at *; linarith
    have : (-1 : Int) < i := by exact_mod_cast this
    omega
  have hi32 : i < 2 ^ 32 := by
    have : (i : ℚ) < 2 ^ 32 := by norm_num at *; linarith
    have : (i : ℚ) < ((2 ^ 32 : Int) : ℚ) := by push_cast; linarith
    exact_mod_cast this
  have hcv : Fit.Expand.componentValue val cs co ds d0 = i.toNat := by
    unfold Fit.Expand.componentValue
    rw [cvt_int .u32 (by decide) _ i fi (by
      simp only [InRange, IntTy.signed, IntTy.bits, Bool.false_eq_true, if_false]; exact ⟨hi0, hi32⟩)]
    simp only [wrap, IntTy.bits]
    congr 1
    exact Int.emod_eq_of_lt hi0 (by simpa using hi32)
  have hcast : ((i.toNat : Nat) : Int) = i := Int.toNat_of_nonneg hi0
  have hcastq : ((i.toNat : Nat) : ℚ) = (i : ℚ) := by
    have : (((i.toNat : Nat) : Int) : ℚ) = (i : ℚ) := by rw [hcast]
    rw [← this]; norm_cast
  rw [hcv, hcastq]
  constructor
  · rw [abs_le]; constructor <;> norm_num at * <;> linarith
  · intro e he
    rw [hcast]
    have : |((i - e : Int) : ℚ)| < 1 := by
      push_cast; rw [← he, abs_lt]; constructor <;> norm_num at * <;> linarith
    rw [← Int.cast_abs] at this
    have : |i - e| < 1 := by exact_mod_cast this
    have := abs_lt.mp this
    omega

theorem exactValue_intro (bits cs co ds d0 n : Nat) (q : Q) (hp : phys bits cs co ds d0 = some q) (hden : q.den ≠ 0)
    (hq : toRat q = (n : ℚ)) (hn : n < 2 ^ 32) : exactValue bits cs co ds d0 = some n := by
  unfold exactValue
  rw [hp]
  have hdq : (q.den : ℚ) ≠ 0 := by exact_mod_cast hden
  have hnum : q.num = (n : Int) * (q.den : Int) := by
    have : (q.num : ℚ) = (n : ℚ) * (q.den : ℚ) := by
      rw [← hq, toRat]; field_simp
    exact_mod_cast this
  have hdi : (q.den : Int) ≠ 0 := by exact_mod_cast hden
  have hfloor : q.floor = (n : Int) := by
    unfold Q.floor; rw [hnum]; exact Int.mul_ediv_cancel _ hdi
  have hint : q.isInt = true := by
    unfold Q.isInt
    simp only [Bool.and_eq_true, bne_iff_ne, ne_eq, beq_iff_eq]
    exact ⟨hden, by rw [hnum]; exact Int.mul_emod_left _ _⟩
  have hcond : q.isInt = true ∧ 0 ≤ q.floor ∧ q.floor < 2 ^ 32 := by
    refine ⟨hint, by rw [hfloor]; exact Int.natCast_nonneg _, ?_⟩
    rw [hfloor]; exact_mod_cast hn
  simp only
  rw [if_pos hcond, hfloor, Int.toNat_natCast]

/-- all four scale/offset data of a determined physical value are finite and the first scale is not zero -/
theorem phys_some (bits cs co ds d0 : Nat) (q : Q) (hp : phys bits cs co ds d0 = some q) :
    ∃ qcs qco qds qdo, Q.ofF64 cs = some qcs ∧ Q.ofF64 co = some qco ∧ Q.ofF64 ds = some qds ∧ Q.ofF64 d0 = some qdo ∧
      qcs.num ≠ 0 := by
  unfold phys at hp
  cases h1 : Q.ofF64 cs with
  | none => simp [h1] at hp
  | some qcs =>
    cases h2 : Q.ofF64 co with
    | none => simp [h1, h2] at hp
    | some qco =>
      cases h3 : Q.ofF64 ds with
      | none => simp [h1, h2, h3] at hp
      | some qds =>
        cases h4 : Q.ofF64 d0 with
        | none => simp [h1, h2, h3, h4] at hp
        | some qdo =>
          refine ⟨qcs, qco, qds, qdo, rfl, rfl, rfl, rfl, ?_⟩
          intro hz
          simp [h1, h2, h3, h4, hz] at hp

/-- **a seed is the total whose physical value is exactly the wire value**: if `((v/DS − DO) + CO)·CS` is the whole
number `T` (of component units), then the physical value of `T`, `((T/CS − CO) + DO)·DS`, is exactly `v` -/
theorem seed_inverse (v cs co ds d0 T : Nat) (hv : v < 2 ^ 32) (hseed : exactValue v ds d0 cs co = some T)
    (hcs : ∃ q, Q.ofF64 cs = some q ∧ q.num ≠ 0) : exactValue T cs co ds d0 = some v := by
  have hseed' := hseed
  unfold exactValue at hseed'
  cases hp : phys v ds d0 cs co with
  | none => simp [hp] at hseed'
  | some q0 =>
    obtain ⟨qds, qdo, qcs, qco, e1, e2, e3, e4, hdsnum⟩ := phys_some v ds d0 cs co q0 hp
    obtain ⟨qcs', e3', hcsnum⟩ := hcs
    rw [e3] at e3'; cases e3'
    -- the forward physical value exists
    have hp2 : ∃ q, phys T cs co ds d0 = some q := by
      unfold phys; simp [e1, e2, e3, e4, hcsnum]
    obtain ⟨q, hq⟩ := hp2
    obtain ⟨hden, CS, CO, DS, DO, f1, f2, f3, f4, hval⟩ := phys_spec T cs co ds d0 q hq
    obtain ⟨_, DS', DO', CS', CO', g1, g2, g3, g4, hT⟩ := exactValue_spec v ds d0 cs co T hseed
    have u1 := isFin_unique _ _ _ f1 g3
    have u2 := isFin_unique _ _ _ f2 g4
    have u3 := isFin_unique _ _ _ f3 g1
    have u4 := isFin_unique _ _ _ f4 g2
    subst u1 u2 u3 u4
    obtain ⟨dcs, fcs⟩ := ofF64_spec cs qcs e3
    obtain ⟨dds, fds⟩ := ofF64_spec ds qds e1
    have hCS : CS ≠ 0 := by
      rw [isFin_unique _ _ _ f1 fcs, toRat]
      have : (qcs.num : ℚ) ≠ 0 := by exact_mod_cast hcsnum
      have : (qcs.den : ℚ) ≠ 0 := by exact_mod_cast dcs
      positivity
    have hDS : DS ≠ 0 := by
      rw [isFin_unique _ _ _ f3 fds, toRat]
      have : (qds.num : ℚ) ≠ 0 := by exact_mod_cast hdsnum
      have : (qds.den : ℚ) ≠ 0 := by exact_mod_cast dds
      positivity
    refine exactValue_intro T cs co ds d0 v q hq hden ?_ hv
    rw [hval, ← hT]
    field_simp
    ring

end Fit.C05L
