import FitProps.TypedLemmas
/-!
C13, struct → message → struct: what comes back for EVERY Go-typed struct (`normStruct`), the documented normalisation
(`normDoc`), and the identity on `inRange`. Core Lean only.
-/
namespace Fit.Typed
open Fit.Value Fit.Msg Fit.Gen

/-! ### one slot: reading back what ToMesg emits for it -/

theorem back_bool (s : Slot) (hk : s.kind = .bool) (hw : s.wf = true) (x : SlotVal) (hr : shapeOk s x = true) :
    read s ((emit s x).getD .invalid) = normSlot s x := by
  simp only [Slot.wf, hk, Bool.and_eq_true, beq_iff_eq] at hw
  obtain ⟨⟨hpt, hd⟩, _⟩ := hw
  cases x with
  | time t => simp [shapeOk, hk] at hr
  | val v =>
    simp only [shapeOk, hk, beq_iff_eq] at hr
    have h1 : 1 ≤ s.ptype := by rw [hpt]; simp [typeBool]
    by_cases hv : boolValid v = true
    · simp only [emit, hk, hv, ↓reduceIte, Option.getD_some, read, hr, normSlot]
    · simp only [emit, hk, hv, Bool.false_eq_true, ↓reduceIte, Option.getD_none, read, typeOf_invalid_ne _ h1, normSlot]

theorem back_time (s : Slot) (hk : s.kind = .time) (x : SlotVal) (hr : shapeOk s x = true) :
    read s ((emit s x).getD .invalid) = wrapSlot s (normSlot s x) := by
  cases x with
  | val v => simp [shapeOk, hk] at hr
  | time t =>
    by_cases hneg : t < 0
    · have hz : ¬ ((2 : Int) ^ 32 - 1 ≤ zeroTime) := by simp [zeroTime]
      simp only [emit, hk, hneg, ↓reduceIte, Option.getD_none, read, normSlot, wrapSlot, hz]
    · simp only [emit, hk, hneg, ↓reduceIte, Option.getD_some, read, normSlot, wrapSlot]
      by_cases hb : (2 : Int) ^ 32 - 1 ≤ t
      · simp only [hb, ↓reduceIte, Nat.mod_mod]
        split <;> rfl
      · have hmin : min t durSatSec = t := by simp only [durSatSec]; omega
        have hn : t.toNat % 2 ^ 32 = t.toNat := Nat.mod_eq_of_lt (by omega)
        have hne : ¬ t.toNat = uint32Invalid := by simp [uint32Invalid]; omega
        simp only [hb, ↓reduceIte, hmin, hn, hne]
        congr 1
        omega

theorem normSlot_other (s : Slot) (x : SlotVal) (h1 : s.kind ≠ .bool) (h2 : s.kind ≠ .time) : normSlot s x = x := by
  unfold normSlot
  cases hk : s.kind <;> cases x <;> simp_all

theorem wrapSlot_other (s : Slot) (x : SlotVal) (h2 : s.kind ≠ .time) : wrapSlot s x = x := by
  unfold wrapSlot
  cases hk : s.kind <;> cases x <;> simp_all

/-- **The slot lemma, other direction, for every content of the slot's Go type**: what `NewXxx` reads back from what
`ToMesg` emits for the slot (from the invalid value when nothing is emitted) is the normalised content -/
theorem back_slot (s : Slot) (hw : s.wf = true) (x : SlotVal) (hr : shapeOk s x = true) :
    read s ((emit s x).getD .invalid) = wrapSlot s (normSlot s x) := by
  cases hk : s.kind with
  | scalar =>
    rw [normSlot_other s x (by simp [hk]) (by simp [hk]), wrapSlot_other s x (by simp [hk])]
    exact read_emit_scalar s hk hw x hr
  | bool =>
    rw [wrapSlot_other s _ (by simp [hk])]
    exact back_bool s hk hw x hr
  | str =>
    rw [normSlot_other s x (by simp [hk]) (by simp [hk]), wrapSlot_other s x (by simp [hk])]
    exact read_emit_str s hk hw x hr
  | time => exact back_time s hk x hr
  | slice =>
    rw [normSlot_other s x (by simp [hk]) (by simp [hk]), wrapSlot_other s x (by simp [hk])]
    exact read_emit_slice s hk hw x hr
  | fixed n =>
    rw [normSlot_other s x (by simp [hk]) (by simp [hk]), wrapSlot_other s x (by simp [hk])]
    exact read_emit_fixed s n hk hw x hr

/-- outside the two value classes the documented normalisation of a slot changes nothing -/
theorem normSlot_id (s : Slot) (x : SlotVal) (hs : shapeOk s x = true) (hb : slotBoolOther s x = false)
    (hp : slotPreEpoch s x = false) (hw : s.wf = true) : normSlot s x = x := by
  cases hk : s.kind with
  | bool =>
    cases x with
    | time t => simp [shapeOk, hk] at hs
    | val v =>
      simp only [slotBoolOther, hk, Bool.and_eq_false_iff, Bool.not_eq_false', bne_eq_false_iff_eq] at hb
      simp only [normSlot, hk]
      rcases hb with h | h
      · simp [h]
      · split
        · rfl
        · rw [h]
  | time =>
    cases x with
    | val v => simp [shapeOk, hk] at hs
    | time t =>
      simp only [slotPreEpoch, hk, Bool.and_eq_false_iff, decide_eq_false_iff_not, bne_eq_false_iff_eq] at hp
      simp only [normSlot, hk]
      rcases hp with h | h
      · simp [h]
      · split
        · rw [h]
        · rfl
  | scalar => exact normSlot_other s x (by simp [hk]) (by simp [hk])
  | str => exact normSlot_other s x (by simp [hk]) (by simp [hk])
  | slice => exact normSlot_other s x (by simp [hk]) (by simp [hk])
  | fixed n => exact normSlot_other s x (by simp [hk]) (by simp [hk])

theorem wrapSlot_id (s : Slot) (x : SlotVal) (hb : slotTimeBeyond s x = false) : wrapSlot s x = x := by
  cases hk : s.kind with
  | time =>
    cases x with
    | val v => simp [wrapSlot, hk]
    | time t =>
      simp only [slotTimeBeyond, hk, decide_eq_false_iff_not] at hb
      simp only [wrapSlot, hk, hb, ↓reduceIte]
  | scalar => exact wrapSlot_other s x (by simp [hk])
  | bool => exact wrapSlot_other s x (by simp [hk])
  | str => exact wrapSlot_other s x (by simp [hk])
  | slice => exact wrapSlot_other s x (by simp [hk])
  | fixed n => exact wrapSlot_other s x (by simp [hk])

/-- the documented normalisation does not move a time into or out of the class `slotTimeBeyond` -/
theorem slotTimeBeyond_normSlot (s : Slot) (x : SlotVal) : slotTimeBeyond s (normSlot s x) = slotTimeBeyond s x := by
  cases hk : s.kind with
  | time =>
    cases x with
    | val v => simp [normSlot, hk]
    | time t =>
      by_cases hneg : t < 0
      · have h1 : ¬ ((2 : Int) ^ 32 - 1 ≤ zeroTime) := by simp [zeroTime]
        have h2 : ¬ ((2 : Int) ^ 32 - 1 ≤ t) := by omega
        simp only [normSlot, slotTimeBeyond, hk, hneg, ↓reduceIte]
        have e1 : decide ((2 : Int) ^ 32 - 1 ≤ zeroTime) = false := by simpa using h1
        have e2 : decide ((2 : Int) ^ 32 - 1 ≤ t) = false := by simpa using h2
        rw [e1, e2]
      · simp [normSlot, hk, hneg]
  | bool =>
    cases x with
    | time t => simp [normSlot, hk]
    | val v => simp only [normSlot, hk]; split <;> simp [slotTimeBeyond, hk]
  | scalar => rw [normSlot_other s x (by simp [hk]) (by simp [hk])]
  | str => rw [normSlot_other s x (by simp [hk]) (by simp [hk])]
  | slice => rw [normSlot_other s x (by simp [hk]) (by simp [hk])]
  | fixed n => rw [normSlot_other s x (by simp [hk]) (by simp [hk])]

/-! ### the bitmap -/

theorem mem_bitsOf (n k : Nat) : k ∈ bitsOf n ↔ n.testBit k = true := by
  simp only [bitsOf, List.mem_filter, List.mem_range]
  exact ⟨fun h => h.2, fun h => ⟨testBit_le_log2 n k h, h⟩⟩

theorem testBit_foldl_or (l : List Nat) (acc j : Nat) :
    (l.foldl (fun acc k => acc ||| (1 <<< k)) acc).testBit j = (acc.testBit j || l.contains j) := by
  induction l generalizing acc with
  | nil => simp
  | cons a l ih =>
    rw [List.foldl_cons, ih, Nat.testBit_or, testBit_one_shiftLeft, List.contains_cons]
    by_cases h : a = j
    · subst h; simp
    · have h' : (j == a) = false := by simpa using fun e => h e.symm
      simp [h, h']

theorem testBit_keepBits (n : Nat) (p : Nat → Bool) (j : Nat) : (keepBits n p).testBit j = (n.testBit j && p j) := by
  unfold keepBits
  rw [testBit_foldl_or]
  simp only [Nat.zero_testBit, Bool.false_or, List.contains_eq_mem, List.mem_filter, mem_bitsOf]
  cases h1 : n.testBit j <;> cases h2 : p j <;> simp

theorem keepBits_congr (n : Nat) (p q : Nat → Bool) (h : ∀ k, n.testBit k = true → p k = q k) : keepBits n p = keepBits n q := by
  apply Nat.eq_of_testBit_eq
  intro j
  rw [testBit_keepBits, testBit_keepBits]
  cases hb : n.testBit j with
  | false => rfl
  | true => rw [h j hb]

theorem keepBits_all (n : Nat) (p : Nat → Bool) (h : ∀ k, n.testBit k = true → p k = true) : keepBits n p = n := by
  apply Nat.eq_of_testBit_eq
  intro j
  rw [testBit_keepBits]
  cases hb : n.testBit j with
  | false => rfl
  | true => rw [h j hb]; rfl

/-! ### the whole struct -/

theorem map_zip_snd {α β : Type} (a : List α) (b : List β) (h : b.length = a.length) (g : α × β → β)
    (hg : ∀ p ∈ a.zip b, g p = p.2) : (a.zip b).map g = b := by
  have : (a.zip b).map g = (a.zip b).map Prod.snd := List.map_congr_left hg
  rw [this]
  exact (zip_fst_snd a b h).2

/-- **struct → message → struct, for every Go-typed struct whose UnknownFields are unknown to the message type**:
`NewXxx(&s.ToMesg({Factory, IncludeExpandedFields: true}))` is `normStruct s` -/
theorem ofMesg_toMesg_norm (T : MesgTable) (hw : T.wf = true) (fac : Nat → Field) (hf : facOk T fac = true) (st : Struct)
    (hty : wellTyped T st = true) (hun : unknownsOk T st = true) :
    ofMesg T (toMesg T fac { includeExpanded := true } st) = .ok (normStruct T st) := by
  simp only [wellTyped, slotPairs, Bool.and_eq_true, beq_iff_eq, List.all_eq_true, Bool.or_eq_true, List.isEmpty_iff] at hty
  obtain ⟨⟨⟨hlen, hslots⟩, hdev⟩, _⟩ := hty
  simp only [unknownsOk, List.all_eq_true, Bool.and_eq_true, Bool.not_eq_true'] at hun
  have hp := wf_panics T hw
  let Z := T.slots.zip st.vals
  obtain ⟨hzf, hzs⟩ := zip_fst_snd T.slots st.vals hlen
  have hZmem : ∀ p ∈ Z, p.1 ∈ T.slots := fun p hp => (List.of_mem_zip hp).1
  have hok : ∀ p ∈ Z, FacOkS fac p.1 ∧ p.1.num < T.guard := fun p hp =>
    ⟨facOk_slot T fac hf p.1 (hZmem p hp), (wf_slot T hw p.1 (hZmem p hp)).2.2.1⟩
  have hnd : nodup (Z.map (·.1.num)) = true := by
    have : Z.map (·.1.num) = T.slots.map (·.num) := by
      rw [← hzf, List.map_map]; rfl
    rw [this]
    exact wf_nodup T hw
  have hU : ∀ f ∈ st.unknown, stored T f = false := fun f hf => (hun f hf).2
  have hfields : (toMesg T fac { includeExpanded := true } st).fields = knownOf T fac st Z ++ st.unknown := by
    simp only [toMesg, knownOf]
    congr 1
    apply filterMap_congr'
    intro p _
    exact emitField_incl T fac st p.1 p.2
  have hbase : ∀ f ∈ (toMesg T fac { includeExpanded := true } st).fields, f.base ≠ none := by
    intro f hfm
    rw [hfields, List.mem_append] at hfm
    rcases hfm with h | h
    · obtain ⟨p, hp', v, _, rfl⟩ := mem_knownOf T fac st Z f h
      obtain ⟨b, hb, _⟩ := (hok p hp').1
      rw [mkF_base, hb]; simp
    · have := (hun f h).1
      intro e; rw [e] at this; cases this
  unfold ofMesg
  rw [run_ok T hp _ Acc.init hbase, hfields]
  simp only [Acc.init, List.nil_append]
  congr 1
  have hvals : (T.slots.map fun s => read s (lastFrom T s.readNum Value.invalid (knownOf T fac st Z ++ st.unknown))) =
      Z.map fun p => wrapSlot p.1 (normSlot p.1 p.2) := by
    conv => lhs; rw [← hzf]
    rw [List.map_map]
    apply List.map_congr_left
    intro p hp'
    have hs := wf_slot T hw p.1 (hZmem p hp')
    show read p.1 (lastFrom T p.1.readNum Value.invalid (knownOf T fac st Z ++ st.unknown)) = _
    rw [hs.2.1]
    rw [lastFrom_knownOf T fac st Z st.unknown hnd hok hU p hp']
    exact back_slot p.1 hs.1 p.2 (hslots p hp')
  have hst : stateFrom T 0 (knownOf T fac st Z ++ st.unknown) = keepBits st.state fun k => emitted T st k := by
    apply Nat.eq_of_testBit_eq
    intro j
    rw [testBit_stateFrom, anyMarked_append, anyMarked_not_stored T _ j hU, anyMarked_knownOf T fac st Z j hok, testBit_keepBits]
    simp only [Nat.zero_testBit, Bool.false_or, Bool.or_false]
    -- an emitted eligible slot of number j: its mark is bit j (j lies below the bitmap bound)
    have hany : ∀ Z' : List (Slot × SlotVal), (∀ p ∈ Z', p.1 ∈ T.slots) →
        (Z'.any fun p => (emit p.1 p.2).isSome && (p.1.num == j) && (p.1.canExpand && isExpanded T st p.1.num)) =
        ((Z'.any fun p => p.1.num == j && p.1.canExpand && (emit p.1 p.2).isSome) && (decide (j < T.markBound) && st.state.testBit j)) := by
      intro Z' hZ'
      induction Z' with
      | nil => rfl
      | cons p Z' ih =>
        rw [List.any_cons, List.any_cons, ih (fun q hq => hZ' q (List.mem_cons_of_mem _ hq))]
        by_cases hn : p.1.num = j
        · have hex : isExpanded T st p.1.num = (decide (j < T.markBound) && st.state.testBit j) := by
            rw [hn]; unfold isExpanded
            by_cases hlt : j < T.markBound
            · have : ¬ j ≥ T.markBound := by omega
              simp [this, hlt]
            · have : j ≥ T.markBound := by omega
              simp [this, hlt]
          rw [hex]
          have : (p.1.num == j) = true := by simpa using hn
          rw [this]
          cases (emit p.1 p.2).isSome <;> cases p.1.canExpand <;> cases decide (j < T.markBound) <;>
            cases st.state.testBit j <;> simp
        · have : (p.1.num == j) = false := by simpa using hn
          simp [this]
    have hany' := hany Z hZmem
    change _ = (emitted T st j && _) at hany'
    rw [hany']
    cases he : emitted T st j with
    | false => simp
    | true =>
      -- emitted ⇒ eligible ⇒ below the bound
      have hlt : j < T.markBound := by
        simp only [emitted, slotPairs, List.any_eq_true, Bool.and_eq_true, beq_iff_eq] at he
        obtain ⟨p, hp', ⟨hnum, hce⟩, _⟩ := he
        have := (wf_slot T hw p.1 (hZmem p hp')).2.2.2 hce
        omega
      simp [hlt, Bool.and_comm]
  have hunk' : st.unknown = List.filter (fun f => !stored T f) (knownOf T fac st Z ++ st.unknown) := by
    rw [List.filter_append]
    have h1 : List.filter (fun f => !stored T f) (knownOf T fac st Z) = [] := by
      rw [List.filter_eq_nil_iff]
      intro f hfm
      obtain ⟨p, hp', v, _, rfl⟩ := mem_knownOf T fac st Z f hfm
      simp [mkF_stored T fac st p.1 v (hok p hp').1 (hok p hp').2]
    have h2 : List.filter (fun f => !stored T f) st.unknown = st.unknown := by
      rw [List.filter_eq_self]
      intro f hfm; simp [hU f hfm]
    rw [h1, h2]; rfl
  have hdev' : (if T.hasDev = true then (toMesg T fac { includeExpanded := true } st).devFields else []) = st.dev := by
    simp only [toMesg]
    cases hd : T.hasDev with
    | true => simp
    | false =>
      rcases hdev with h | h
      · rw [hd] at h; cases h
      · simp [h]
  simp only [normStruct, slotPairs]
  rw [hvals, hst, ← hunk', hdev']

/-- outside the two classes that are not normalisations, what comes back is the documented normal form -/
theorem normStruct_eq_normDoc (T : MesgTable) (st : Struct) (hb : hasTimeBeyond T st = false) (hs : hasStrayBit T st = false) :
    normStruct T st = normDoc T st := by
  simp only [hasTimeBeyond, List.any_eq_false] at hb
  simp only [hasStrayBit, List.any_eq_false, mem_bitsOf, Bool.not_eq_true, Bool.not_eq_false'] at hs
  unfold normStruct normDoc
  congr 1
  · apply List.map_congr_left
    intro p hp
    apply wrapSlot_id
    rw [slotTimeBeyond_normSlot]
    simpa using hb p hp
  · apply keepBits_congr
    intro k hk
    have := hs k hk
    simp [this]

/-- outside the three normalising classes the documented normal form of a Go-typed struct is the struct itself -/
theorem normDoc_eq_self (T : MesgTable) (hw : T.wf = true) (st : Struct) (hty : wellTyped T st = true)
    (h1 : hasBoolOther T st = false) (h2 : hasPreEpoch T st = false) (h3 : hasMarkOnInvalid T st = false) :
    normDoc T st = st := by
  simp only [wellTyped, slotPairs, Bool.and_eq_true, beq_iff_eq, List.all_eq_true] at hty
  obtain ⟨⟨⟨hlen, hslots⟩, _⟩, _⟩ := hty
  simp only [hasBoolOther, hasPreEpoch, slotPairs, List.any_eq_false] at h1 h2
  simp only [hasMarkOnInvalid, List.any_eq_false, mem_bitsOf] at h3
  have hv : (slotPairs T st).map (fun p => normSlot p.1 p.2) = st.vals := by
    apply map_zip_snd _ _ hlen
    intro p hp
    exact normSlot_id p.1 p.2 (hslots p hp) (by simpa using h1 p hp) (by simpa using h2 p hp)
      (wf_slot T hw p.1 (List.of_mem_zip hp).1).1
  have hs : keepBits st.state (fun k => !eligible T k || emitted T st k) = st.state := by
    apply keepBits_all
    intro k hk
    have := h3 k hk
    cases he : eligible T k <;> cases hm : emitted T st k <;> simp_all
  unfold normDoc
  rw [hv, hs]

/-- **struct → message → struct is the identity on `inRange`** -/
theorem ofMesg_toMesg (T : MesgTable) (hw : T.wf = true) (fac : Nat → Field) (hf : facOk T fac = true) (st : Struct)
    (hr : inRange T st = true) : ofMesg T (toMesg T fac { includeExpanded := true } st) = .ok st := by
  simp only [inRange, Bool.and_eq_true, Bool.not_eq_true'] at hr
  obtain ⟨⟨⟨⟨⟨⟨hty, hun⟩, h1⟩, h2⟩, h3⟩, h4⟩, h5⟩ := hr
  rw [ofMesg_toMesg_norm T hw fac hf st hty hun, normStruct_eq_normDoc T st h3 h5, normDoc_eq_self T hw st hty h1 h2 h4]

end Fit.Typed
