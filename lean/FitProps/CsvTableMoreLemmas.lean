import FitModel.Csv
/-!
More facts about the REGENERATED tables (`Generated/CsvProfile.lean`), decided by kernel evaluation: names that look like
"unknown…", base type names, sub-field names and their reference fields, scaled fields' types, field_description.
Depends on the model only (not on the specification vocabulary), so that it is rebuilt only when the model or the
profile changes.
-/
namespace Fit.Csv
open Fit.Value Fit.Gen Fit.Gen.Csv

/-- no name of the reader's two tables starts with "unknown" (regenerated tables, kernel evaluation) -/
def lookupNamesOK : Bool :=
  fieldNumLookup.all (fun row => row.2.all fun p => !isPrefixOf' unknownTxt (txt p.1)) &&
  mesgNumLookup.all (fun p => !isPrefixOf' unknownTxt (txt p.1))

set_option maxRecDepth 100000 in
theorem lookupNamesOK_true : lookupNamesOK = true := by decide +kernel

/-- the units cell of an unknown field names its base type, and the name maps back; none reads "degrees" -/
def baseTypeNamesOK : Bool :=
  baseTypeNames.all fun p => baseTypeFromName (baseTypeName p.1) == p.1 && baseTypeName p.1 != degreesTxt

theorem baseTypeNamesOK_true : baseTypeNamesOK = true := by decide +kernel

/-- regenerated tables: a sub-field name is never a name of the reader's field table for the message (so the cell becomes
a placeholder), is non-empty and not "unknown…", and within a message a sub-field name belongs to one main field only -/
def subNamesOK : Bool :=
  profile.all fun m => m.num ≥ mfgRangeMin || m.fields.all fun p => p.subs.all fun s =>
    (lookupFieldNum m.num (txt s.name)).isNone && !(txt s.name).isEmpty && !isPrefixOf' unknownTxt (txt s.name) &&
    m.fields.all fun p' => p'.subs.all fun s' => !(txt s'.name == txt s.name) || decide (p' = p)

set_option maxRecDepth 100000 in
theorem subNamesOK_true : subNamesOK = true := by decide +kernel

/-- no message of the manufacturer range has fields in the factory (a known field lives in a message the reader knows) -/
def mfgNoFieldsOK : Bool := profile.all fun pm => decide (pm.num < mfgRangeMin) || pm.fields.isEmpty

set_option maxRecDepth 100000 in
theorem mfgNoFieldsOK_true : mfgNoFieldsOK = true := by decide +kernel

/-- sub-fields: a field with sub-fields is no array field; the reference field of every map is a field of the message
that has no sub-fields itself (it is never a placeholder while the reader reverts) and is not numbered 255 (the
placeholder's number) -/
def subRefsOK : Bool :=
  profile.all fun pm => pm.fields.all fun p => (p.subs.isEmpty || !p.array) &&
    p.subs.all fun s => s.maps.all fun mp => mp.1 != 255 && (pm.fields.any fun q => q.num == mp.1 && q.subs.isEmpty)

set_option maxRecDepth 100000 in
theorem subRefsOK_true : subRefsOK = true := by decide +kernel

/-- a field with a scale or an offset is an integer field of at most 32 bits and no `typedef.Bool` -/
def scaledTypesOK : Bool :=
  profile.all fun pm => pm.fields.all fun p => !isScaledField p.scale p.offset ||
    (!p.isBool && [btEnum, btByte, btUint8, btUint8z, btSint8, btSint16, btUint16, btUint16z, btSint32, btUint32, btUint32z].contains p.bt)

set_option maxRecDepth 100000 in
theorem scaledTypesOK_true : scaledTypesOK = true := by decide +kernel

/-- field_description is a listed message below the manufacturer range none of whose fields has components -/
def descMesgOK : Bool :=
  (mesgNames.lookup mnFieldDescription).isSome && decide (mnFieldDescription < mfgRangeMin) &&
  match pmesg mnFieldDescription with
  | some pm => pm.fields.all fun p => p.comps.isEmpty && p.subs.all (·.comps.isEmpty)
  | none => false

theorem descMesgOK_true : descMesgOK = true := by decide +kernel

/-- a field in semicircles (what the degrees option converts) is a plain sint32 scalar: no scale, no sub-fields, no
components, no `typedef.Bool`; and no sub-field is in semicircles -/
def semicirclesOK : Bool :=
  profile.all fun pm => pm.fields.all fun p =>
    (!(txt p.units == semicirclesTxt) ||
      (p.bt == btSint32 && !p.array && !isScaledField p.scale p.offset && p.subs.isEmpty && !p.isBool)) &&
    p.subs.all fun s => !(txt s.units == semicirclesTxt)

set_option maxRecDepth 100000 in
theorem semicirclesOK_true : semicirclesOK = true := by decide +kernel

/-- no message name `MesgNum.String()` gives, and not "unknown", holds a separator or a quote: the message cell of a
line is written as it is -/
def mesgNamesPlainOK : Bool :=
  mesgNames.all (fun p => (txt p.2).all fun b => b != 44 && b != 34) && unknownTxt.all (fun b => b != 44 && b != 34)

theorem mesgNamesPlainOK_true : mesgNamesPlainOK = true := by decide +kernel

end Fit.Csv
