import FitModel.Utf8
/-! Helper lemmas about the model of `unicode/utf8` and `proto.utf8String` (FitModel/Utf8.lean):
a valid first encoding is reproduced by `appendRune`, depends only on its own bytes, contains no NUL
unless it is the NUL rune; `utf8String` is the identity (up to the first NUL) on valid UTF-8 without U+FFFD. -/
namespace Fit.Utf8

def Bytes (p : List Nat) : Prop := ∀ b ∈ p, b < 256

theorem runeError_val : runeError = 0xFFFD := rfl

/-- what a *valid* first encoding (anything but `(RuneError, 1)`) satisfies: width within the input,
`AppendRune` of the rune gives the bytes back, the rune is 0 only for the NUL byte, no byte of a non-NUL
rune is 0, the decoding depends on the bytes of the encoding only, U+FFFD has width 3 -/
def Spec (p : List Nat) (d : Nat × Nat) : Prop :=
  ¬(d.1 = 0xFFFD ∧ d.2 = 1) →
    1 ≤ d.2 ∧ d.2 ≤ p.length ∧ appendRune d.1 = p.take d.2 ∧ (d.1 = 0xFFFD → d.2 = 3) ∧
    (p.head? ≠ some 0 → d.1 ≠ 0 ∧ ∀ b ∈ p.take d.2, b ≠ 0) ∧
    ∀ t, decodeRune (p.take d.2 ++ t) = d

syntax "utf8_cases" : tactic
macro_rules
  | `(tactic| utf8_cases) => `(tactic|
    (simp only [decodeRune, runeError_val]
     unfold Spec
     repeat' split
     all_goals
       simp only [appendRune, Fit.Gen.maxRune, List.take, List.length_cons, List.length_nil, List.head?_cons]
       intro hv
       first
         | (exfalso; simp at hv; done)
         | (exfalso; omega)
         | (refine ⟨by omega, by omega, ?_, by (intros; first | trivial | omega), ?_, ?_⟩
            · repeat' split
              all_goals first
                | (exfalso; omega)
                | rfl
                | (simp only [List.cons.injEq, and_true] <;> omega)
            · intro hz
              simp only [ne_eq, Option.some.injEq] at hz
              refine ⟨by omega, ?_⟩
              intro b hb
              simp only [List.mem_cons, List.not_mem_nil, or_false] at hb
              omega
            · intro t
              simp [decodeRune, runeError_val, *])))

set_option maxHeartbeats 2000000 in
theorem spec1 (b0 : Nat) (h0 : b0 < 256) : Spec [b0] (decodeRune [b0]) := by
  utf8_cases

set_option maxHeartbeats 2000000 in
theorem spec2 (b0 b1 : Nat) (h0 : b0 < 256) (h1 : b1 < 256) : Spec [b0, b1] (decodeRune [b0, b1]) := by
  utf8_cases

set_option maxHeartbeats 2000000 in
theorem spec3 (b0 b1 b2 : Nat) (h0 : b0 < 256) (h1 : b1 < 256) (h2 : b2 < 256) :
    Spec [b0, b1, b2] (decodeRune [b0, b1, b2]) := by
  utf8_cases

set_option maxHeartbeats 4000000 in
theorem spec4 (b0 b1 b2 b3 : Nat) (rest : List Nat) (h0 : b0 < 256) (h1 : b1 < 256) (h2 : b2 < 256) (h3 : b3 < 256) :
    Spec (b0 :: b1 :: b2 :: b3 :: rest) (decodeRune (b0 :: b1 :: b2 :: b3 :: rest)) := by
  utf8_cases

end Fit.Utf8

