import FitProps.CsvTextLineLemmas
import FitProps.CsvFullLemmas
/-! The text-level round trip: the CSV text the writer produces for a chain of files within `CsvUnambiguous`, read back
line by line (`encoding/csv`, `ParseInt`/`ParseUint`), gives the expected messages. Float text is the hypothesis `FloatOK`. -/
set_option linter.unusedSimpArgs false
set_option linter.unusedVariables false
namespace Fit.Csv
open Fit.Value Fit.Msg Fit.Gen Fit.Gen.Csv

/-! ### what the writer writes is well formed -/

/-- a piece as the formatter produces it, before the split at `|`: a string holds no quote -/
def PreAtom : Atom → Prop
  | .str s => ∀ b ∈ s, b ≠ 34
  | .raw _ => False
  | _ => True

theorem splitBar_pieces : ∀ (s : Txt), ∀ p ∈ splitBar s, (∀ b ∈ p, b ≠ 124) ∧ (∀ b ∈ p, b ∈ s)
  | [], p, hp => by
    simp only [splitBar, List.mem_cons, List.not_mem_nil, or_false] at hp
    subst hp
    exact ⟨by simp, by simp⟩
  | c :: s, p, hp => by
    have ih := splitBar_pieces s
    unfold splitBar at hp
    cases hs : splitBar s with
    | nil => exact absurd hs (splitBar_ne_nil s)
    | cons q qs =>
      rw [hs] at hp ih
      simp only at hp
      by_cases hc : (c == 124) = true
      · simp only [hc, ↓reduceIte, List.mem_cons] at hp
        rcases hp with rfl | hp
        · exact ⟨by simp, by simp⟩
        · obtain ⟨i1, i2⟩ := ih p (by simpa using hp)
          exact ⟨i1, fun b hb => List.mem_cons_of_mem _ (i2 b hb)⟩
      · simp only [hc, Bool.false_eq_true, ↓reduceIte, List.mem_cons] at hp
        have hc' : c ≠ 124 := by simpa using hc
        rcases hp with rfl | hp
        · obtain ⟨i1, i2⟩ := ih q (List.mem_cons_self ..)
          refine ⟨fun b hb => ?_, fun b hb => ?_⟩
          · rcases List.mem_cons.mp hb with rfl | h
            · exact hc'
            · exact i1 b h
          · rcases List.mem_cons.mp hb with rfl | h
            · exact List.mem_cons_self ..
            · exact List.mem_cons_of_mem _ (i2 b h)
        · obtain ⟨i1, i2⟩ := ih p (List.mem_cons_of_mem _ hp)
          exact ⟨i1, fun b hb => List.mem_cons_of_mem _ (i2 b hb)⟩

/-- the text of a float piece holds neither quote nor `|` (from `FloatOK.chars`) -/
def FloatChars (tp : TextParam) (a : Atom) : Prop := isFloatAtom a = true → ∀ b ∈ tp.floatText a, b ≠ 34 ∧ b ≠ 124

def lineAtoms : Line → List Atom
  | .data _ cells => cells.flatMap (·.val)
  | .definition _ => []

/-- the pieces that occur in the lines -/
def linesAtoms (ls : List Line) : List Atom := ls.flatMap lineAtoms

theorem atomText_ok (tp : TextParam) (a : Atom) (hc : FloatChars tp a) (h : PreAtom a) (hb124 : ∀ s, a = .str s → ∀ b ∈ s, b ≠ 124) :
    ∀ b ∈ atomText tp a, b ≠ 34 ∧ b ≠ 124 := by
  intro b hb
  cases a with
  | int i =>
    rcases intText_chars i b hb with h1 | h1
    · omega
    · simp only [isDigit, Bool.and_eq_true, decide_eq_true_eq] at h1; omega
  | str s => exact ⟨h b hb, hb124 s rfl b hb⟩
  | raw t => cases h
  | flt x => exact hc rfl b hb
  | scaled x s o => exact hc rfl b hb
  | degrees x => exact hc rfl b hb

/-- the pieces of a value cell are well formed -/
theorem cellPieces_wf (tp : TextParam) (as : List Atom) (h : ∀ a ∈ as, PreAtom a) (hc : ∀ a ∈ cellPieces as, FloatChars tp a) :
    cellPieces as ≠ [] ∧ ∀ a ∈ cellPieces as, ∀ b ∈ atomText tp a, b ≠ 34 ∧ b ≠ 124 := by
  rw [cellPieces_eq] at hc ⊢
  cases hemp : as.isEmpty
  · simp only [hemp, Bool.false_eq_true, ↓reduceIte] at hc ⊢
    refine ⟨?_, ?_⟩
    · cases as with
      | nil => cases hemp
      | cons a rest =>
        simp only [List.flatMap_cons, ne_eq, List.append_eq_nil_iff, not_and]
        intro h0
        exfalso
        cases a <;> simp [pieceOf, splitBar_ne_nil] at h0
    · intro a ha
      have hca := hc a ha
      obtain ⟨a0, ha0, hp⟩ := List.mem_flatMap.mp ha
      have hpre := h a0 ha0
      cases a0 with
      | str s =>
        simp only [pieceOf, List.mem_map] at hp
        obtain ⟨p, hp1, rfl⟩ := hp
        obtain ⟨i1, i2⟩ := splitBar_pieces s p hp1
        exact atomText_ok tp (.str p) hca (fun b hb => hpre b (i2 b hb)) (fun s' hs' => by cases hs'; exact i1)
      | int i =>
        simp only [pieceOf, List.mem_cons, List.not_mem_nil, or_false] at hp
        subst hp
        exact atomText_ok tp _ hca trivial (fun s' hs' => by cases hs')
      | flt x =>
        simp only [pieceOf, List.mem_cons, List.not_mem_nil, or_false] at hp
        subst hp
        exact atomText_ok tp _ hca trivial (fun s' hs' => by cases hs')
      | scaled x s o =>
        simp only [pieceOf, List.mem_cons, List.not_mem_nil, or_false] at hp
        subst hp
        exact atomText_ok tp _ hca trivial (fun s' hs' => by cases hs')
      | degrees x =>
        simp only [pieceOf, List.mem_cons, List.not_mem_nil, or_false] at hp
        subst hp
        exact atomText_ok tp _ hca trivial (fun s' hs' => by cases hs')
      | raw t => cases hpre
  · simp only [hemp, ↓reduceIte]
    refine ⟨by simp, ?_⟩
    intro a ha
    simp only [List.mem_cons, List.not_mem_nil, or_false] at ha
    subst ha
    intro b hb
    cases hb

theorem fmtStr_noQuote (s : Txt) : ∀ b ∈ fmtStr s, b ≠ 34 := by
  intro b hb
  have := (List.mem_filter.mp hb).2
  intro h
  subst h
  simp [keepByte] at this

theorem formatAtoms_pre (v : Value) : ∀ a ∈ formatAtoms v, PreAtom a := by
  intro a ha
  cases v <;> simp only [formatAtoms, List.mem_cons, List.mem_map, List.not_mem_nil, or_false, natAtom] at ha
  all_goals first
    | (subst ha; exact trivial)
    | (obtain ⟨x, _, rfl⟩ := ha; exact trivial)
    | (subst ha; exact fmtStr_noQuote _)
    | (obtain ⟨x, _, rfl⟩ := ha; exact fmtStr_noQuote _)
    | (subst ha; intro b hb; revert b; decide +kernel)

/-- the value cell of a native field is `cellPieces` of pieces without quotes -/
theorem fieldAtoms_shape (o : Opts) (units : Txt) (sc off : Nat) (v : Value) :
    ∃ as, (∀ a ∈ as, PreAtom a) ∧ fieldAtoms o units sc off v = cellPieces as := by
  have hdeg : ∀ x, ∃ as, (∀ a ∈ as, PreAtom a) ∧ [Atom.degrees x] = cellPieces as := by
    intro x
    refine ⟨[.degrees x], ?_, by simp [cellPieces]⟩
    intro a ha
    simp only [List.mem_cons, List.not_mem_nil, or_false] at ha
    subst ha; exact trivial
  unfold fieldAtoms
  simp only
  split
  · split
    · exact hdeg _
    · exact hdeg _
  · split
    · split
      · rename_i ss _
        refine ⟨_, ?_, rfl⟩
        intro a ha
        obtain ⟨x, _, rfl⟩ := List.mem_map.mp ha
        exact trivial
      · exact ⟨_, formatAtoms_pre v, rfl⟩
    · exact ⟨_, formatAtoms_pre v, rfl⟩

theorem writeField_shape (o : Opts) (m : Message) (f : Field) :
    ∃ as, (∀ a ∈ as, PreAtom a) ∧ (writeField o m f).val = cellPieces as := by
  unfold writeField
  split
  · exact fieldAtoms_shape o _ _ _ _
  · split
    · exact ⟨_, formatAtoms_pre _, rfl⟩
    · exact ⟨_, formatAtoms_pre _, rfl⟩

theorem writeDev_shape (o : Opts) (ds : List Desc) (d : DevField) :
    ∃ as, (∀ a ∈ as, PreAtom a) ∧ (writeDev o ds d).val = cellPieces as := by
  unfold writeDev
  split
  · exact ⟨_, formatAtoms_pre _, rfl⟩
  · exact ⟨_, formatAtoms_pre _, rfl⟩

theorem cellWF_of_shape (tp : TextParam) (c : Cell) (hsh : ∃ as, (∀ a ∈ as, PreAtom a) ∧ c.val = cellPieces as)
    (hc : ∀ a ∈ c.val, FloatChars tp a) : CellWF tp c := by
  obtain ⟨as, hpre, e⟩ := hsh
  unfold CellWF
  rw [e] at hc ⊢
  exact cellPieces_wf tp as hpre hc

theorem plain_append {a b : Txt} (ha : plainCell a) (hb : plainCell b) : plainCell (a ++ b) := by
  intro x hx
  rcases List.mem_append.mp hx with h | h
  · exact ha x h
  · exact hb x h

theorem unknownTxt_plain : plainCell unknownTxt := by
  have h := mesgNamesPlainOK_true
  simp only [mesgNamesPlainOK, Bool.and_eq_true] at h
  exact plain_of_all h.2

theorem formatUnknown_plain (n : Nat) : plainCell (formatUnknown n) := by
  unfold formatUnknown
  exact plain_append (plain_append (plain_append unknownTxt_plain (plain_of_all (by decide +kernel))) (natDigits_plain n))
    (plain_of_all (by decide +kernel))

theorem mesgNameOf_plain (o : Opts) (n : Nat) : plainCell (mesgNameOf o n) := by
  unfold mesgNameOf
  split
  · rename_i s hs
    have hl : mesgNames.lookup n = some s := by
      split at hs
      · cases hs
      · exact hs
    have hm := lookup_mem _ _ _ hl
    have h := mesgNamesPlainOK_true
    simp only [mesgNamesPlainOK, Bool.and_eq_true] at h
    exact plain_of_all (List.all_eq_true.mp h.1 (n, s) hm)
  · split
    · exact formatUnknown_plain n
    · exact unknownTxt_plain

theorem writeMesgs_wf (tp : TextParam) (o : Opts) : ∀ (ms : List Message) (ds : List Desc),
    (∀ l ∈ writeMesgs o ds ms, ∀ a ∈ lineAtoms l, FloatChars tp a) → ∀ l ∈ writeMesgs o ds ms, LineWF tp l
  | [], _, _, l, hl => by cases hl
  | m :: ms, ds, hc, l, hl => by
    simp only [writeMesgs, List.mem_cons] at hl hc
    rcases hl with rfl | hl
    · have hc0 := hc _ (Or.inl rfl)
      refine ⟨mesgNameOf_plain o m.num, ?_⟩
      intro c hcm
      have hcc : ∀ a ∈ c.val, FloatChars tp a := by
        intro a ha
        apply hc0
        simp only [writeMesg, lineAtoms, List.mem_flatMap]
        exact ⟨c, hcm, ha⟩
      rcases List.mem_append.mp hcm with h | h
      · obtain ⟨f, _, rfl⟩ := List.mem_map.mp h
        exact cellWF_of_shape tp _ (writeField_shape o m f) hcc
      · obtain ⟨d, _, rfl⟩ := List.mem_map.mp h
        exact cellWF_of_shape tp _ (writeDev_shape o _ d) hcc
    · exact writeMesgs_wf tp o ms _ (fun l' hl' => hc l' (Or.inr hl')) l hl

/-! ### reading the lines of the text -/

theorem lineText_nonempty (tp : TextParam) (ln : Nat) (name : Txt) (cells : List Cell) (m : Nat) :
    (lineText tp ln (.data name cells) ++ List.replicate m 44).isEmpty = false := by
  have : lineText tp ln (.data name cells) = dataTxt ++ 44 :: joinComma (natDigits ln :: name :: cells.flatMap (cellTexts tp)) := by
    simp only [lineText, List.cons_append, List.nil_append]
    rw [joinComma_cons2]
  rw [this]
  have hd : dataTxt = 68 :: [97, 116, 97] := by decide +kernel
  rw [hd]
  rfl

/-- the text of a line with `3·j` padding commas -/
def paddedText (tp : TextParam) (j : Line → Nat) (l : Line) : Txt := lineText tp 0 l ++ List.replicate (3 * j l) 44

/-- **the reader over the text follows the reader over the writer's lines** -/
theorem readTextLines_sim (tp : TextParam) (P : Atom → Prop) (hf : FloatOK tp P) (j : Line → Nat) : ∀ (ls : List Line) (s s' : RState),
    (∀ l ∈ ls, LineWF tp l) → (∀ l ∈ ls, ∀ a ∈ lineAtoms l, P a) → readLines Arith.so s ls = .ok s' →
    readTextLines (Arith.so.withText tp) s (ls.map (paddedText tp j)) = .ok s'
  | [], s, s', _, _, h => by simpa [readLines, readTextLines] using h
  | l :: ls, s, s', hwf, hP, h => by
    have hl := hwf l (List.mem_cons_self ..)
    cases l with
    | definition n => cases hl
    | data name cells =>
      simp only [readLines] at h
      cases h1 : readLine Arith.so s (.data name cells) with
      | err => rw [h1] at h; cases h
      | unmodelled => rw [h1] at h; cases h
      | ok s1 =>
        rw [h1] at h
        simp only at h
        have ih := readTextLines_sim tp P hf j ls s1 s' (fun x hx => hwf x (List.mem_cons_of_mem _ hx))
          (fun x hx => hP x (List.mem_cons_of_mem _ hx)) h
        obtain ⟨hrec, _⟩ := csvRecord_line tp 0 name cells hl (3 * j (.data name cells))
        have hpads : ∀ c ∈ List.replicate (j (.data name cells)) padCell, IsPad c := by
          intro c hc
          rw [List.eq_of_mem_replicate hc]; rfl
        have hcells : cells.map (rawCellOf tp) = cells.map (mapCell (rawOf tp)) :=
          List.map_congr_left (fun c hc => rawCellOf_eq tp c (hl.2 c hc))
        have hPl := hP _ (List.mem_cons_self ..)
        have hsim := readLine_sim Arith.so (Arith.so.withText tp) (rawOf tp) s s1 name cells _
          (fun c hc a ha => sim_raw tp P hf a (hPl a (by simp only [lineAtoms, List.mem_flatMap]; exact ⟨c, hc, ha⟩))) hpads h1
        simp only [List.map_cons, readTextLines, paddedText, lineText_nonempty, Bool.false_eq_true, ↓reduceIte, hrec]
        simp only [List.cons_append, List.nil_append, recordLine, beq_self_eq_true, ↓reduceIte, triples_cells, triples_pads, hcells, hsim]
        exact ih

end Fit.Csv
