import FitProps.CsvTextLineLemmas
import FitProps.CsvFullLemmas
/-! The text-level round trip: the CSV text the writer produces for a chain of files within `CsvUnambiguous`, read back
line by line (`encoding/csv`, `ParseInt`/`ParseUint`), gives the expected messages. Float text is the hypothesis `FloatOK`. -/
set_option linter.unusedSimpArgs false
set_option linter.unusedVariables false
namespace Fit.Csv
open Fit.Value Fit.Msg Fit.Gen Fit.Gen.Csv

/-! ### what the writer writes is well formed -/

/-- a piece as the formatter produces it, before the split at `|`: a string holds no quote -/
def PreAtom : Atom → Prop
  | .str s => ∀ b ∈ s, b ≠ 34
  | .raw _ => False
  | _ => True

theorem splitBar_pieces : ∀ (s : Txt), ∀ p ∈ splitBar s, (∀ b ∈ p, b ≠ 124) ∧ (∀ b ∈ p, b ∈ s)
  | [], p, hp => by
    simp only [splitBar, List.mem_cons, List.not_mem_nil, or_false] at hp
    subst hp
    exact ⟨by simp, by simp⟩
  | c :: s, p, hp => by
    have ih := splitBar_pieces s
    unfold splitBar at hp
    cases hs : splitBar s with
    | nil => exact absurd hs (splitBar_ne_nil s)
    | cons q qs =>
      rw [hs] at hp ih
      simp only at hp
      by_cases hc : (c == 124) = true
      · simp only [hc, ↓reduceIte, List.mem_cons] at hp
        rcases hp with rfl | hp
        · exact ⟨by simp, by simp⟩
        · obtain ⟨i1, i2⟩ := ih p (by simpa using hp)
          exact ⟨i1, fun b hb => List.mem_cons_of_mem _ (i2 b hb)⟩
      · simp only [hc, Bool.false_eq_true, ↓reduceIte, List.mem_cons] at hp
        have hc' : c ≠ 124 := by simpa using hc
        rcases hp with rfl | hp
        · obtain ⟨i1, i2⟩ := ih q (List.mem_cons_self ..)
          refine ⟨fun b hb => ?_, fun b hb => ?_⟩
          · rcases List.mem_cons.mp hb with rfl | h
            · exact hc'
            · exact i1 b h
          · rcases List.mem_cons.mp hb with rfl | h
            · exact List.mem_cons_self ..
            · exact List.mem_cons_of_mem _ (i2 b h)
        · obtain ⟨i1, i2⟩ := ih p (List.mem_cons_of_mem _ hp)
          exact ⟨i1, fun b hb => List.mem_cons_of_mem _ (i2 b hb)⟩

theorem atomText_ok (tp : TextParam) (hf : FloatOK tp) (a : Atom) (h : PreAtom a) (hb124 : ∀ s, a = .str s → ∀ b ∈ s, b ≠ 124) :
    ∀ b ∈ atomText tp a, b ≠ 34 ∧ b ≠ 124 := by
  intro b hb
  cases a with
  | int i =>
    rcases intText_chars i b hb with h1 | h1
    · omega
    · simp only [isDigit, Bool.and_eq_true, decide_eq_true_eq] at h1; omega
  | str s => exact ⟨h b hb, hb124 s rfl b hb⟩
  | raw t => cases h
  | flt x => exact hf.chars _ rfl b hb
  | scaled x s o => exact hf.chars _ rfl b hb
  | degrees x => exact hf.chars _ rfl b hb

/-- the pieces of a value cell are well formed -/
theorem cellPieces_wf (tp : TextParam) (hf : FloatOK tp) (as : List Atom) (h : ∀ a ∈ as, PreAtom a) :
    cellPieces as ≠ [] ∧ ∀ a ∈ cellPieces as, ∀ b ∈ atomText tp a, b ≠ 34 ∧ b ≠ 124 := by
  rw [cellPieces_eq]
  cases hemp : as.isEmpty
  · simp only [Bool.false_eq_true, ↓reduceIte]
    refine ⟨?_, ?_⟩
    · cases as with
      | nil => cases hemp
      | cons a rest =>
        simp only [List.flatMap_cons, ne_eq, List.append_eq_nil_iff, not_and]
        intro h0
        exfalso
        cases a <;> simp [pieceOf, splitBar_ne_nil] at h0
    · intro a ha
      obtain ⟨a0, ha0, hp⟩ := List.mem_flatMap.mp ha
      have hpre := h a0 ha0
      cases a0 with
      | str s =>
        simp only [pieceOf, List.mem_map] at hp
        obtain ⟨p, hp1, rfl⟩ := hp
        obtain ⟨i1, i2⟩ := splitBar_pieces s p hp1
        exact atomText_ok tp hf (.str p) (fun b hb => hpre b (i2 b hb)) (fun s' hs' => by cases hs'; exact i1)
      | int i =>
        simp only [pieceOf, List.mem_cons, List.not_mem_nil, or_false] at hp
        subst hp
        exact atomText_ok tp hf _ trivial (fun s' hs' => by cases hs')
      | flt x =>
        simp only [pieceOf, List.mem_cons, List.not_mem_nil, or_false] at hp
        subst hp
        exact atomText_ok tp hf _ trivial (fun s' hs' => by cases hs')
      | scaled x s o =>
        simp only [pieceOf, List.mem_cons, List.not_mem_nil, or_false] at hp
        subst hp
        exact atomText_ok tp hf _ trivial (fun s' hs' => by cases hs')
      | degrees x =>
        simp only [pieceOf, List.mem_cons, List.not_mem_nil, or_false] at hp
        subst hp
        exact atomText_ok tp hf _ trivial (fun s' hs' => by cases hs')
      | raw t => cases hpre
  · simp only [↓reduceIte]
    refine ⟨by simp, ?_⟩
    intro a ha
    simp only [List.mem_cons, List.not_mem_nil, or_false] at ha
    subst ha
    intro b hb
    cases hb

theorem fmtStr_noQuote (s : Txt) : ∀ b ∈ fmtStr s, b ≠ 34 := by
  intro b hb
  have := (List.mem_filter.mp hb).2
  intro h
  subst h
  simp [keepByte] at this

theorem formatAtoms_pre (v : Value) : ∀ a ∈ formatAtoms v, PreAtom a := by
  intro a ha
  cases v <;> simp only [formatAtoms, List.mem_cons, List.mem_map, List.not_mem_nil, or_false, natAtom] at ha
  all_goals first
    | (subst ha; exact trivial)
    | (obtain ⟨x, _, rfl⟩ := ha; exact trivial)
    | (subst ha; exact fmtStr_noQuote _)
    | (obtain ⟨x, _, rfl⟩ := ha; exact fmtStr_noQuote _)
    | (subst ha; intro b hb; revert b; decide +kernel)

theorem fieldAtoms_wf (tp : TextParam) (hf : FloatOK tp) (o : Opts) (units : Txt) (sc off : Nat) (v : Value) :
    fieldAtoms o units sc off v ≠ [] ∧ ∀ a ∈ fieldAtoms o units sc off v, ∀ b ∈ atomText tp a, b ≠ 34 ∧ b ≠ 124 := by
  have hdeg : ∀ x, ([Atom.degrees x] : List Atom) ≠ [] ∧ ∀ a ∈ [Atom.degrees x], ∀ b ∈ atomText tp a, b ≠ 34 ∧ b ≠ 124 := by
    intro x
    refine ⟨by simp, ?_⟩
    intro a ha
    simp only [List.mem_cons, List.not_mem_nil, or_false] at ha
    subst ha
    exact atomText_ok tp hf _ trivial (fun s' hs' => by cases hs')
  unfold fieldAtoms
  simp only
  split
  · split
    · exact hdeg _
    · exact hdeg _
  · split
    · split
      · rename_i ss _
        apply cellPieces_wf tp hf
        intro a ha
        obtain ⟨x, _, rfl⟩ := List.mem_map.mp ha
        exact trivial
      · exact cellPieces_wf tp hf _ (formatAtoms_pre v)
    · exact cellPieces_wf tp hf _ (formatAtoms_pre v)

theorem writeField_wf (tp : TextParam) (hf : FloatOK tp) (o : Opts) (m : Message) (f : Field) : CellWF tp (writeField o m f) := by
  unfold writeField CellWF
  split
  · exact fieldAtoms_wf tp hf o _ _ _ _
  · split
    · exact cellPieces_wf tp hf _ (formatAtoms_pre _)
    · exact cellPieces_wf tp hf _ (formatAtoms_pre _)

theorem writeDev_wf (tp : TextParam) (hf : FloatOK tp) (o : Opts) (ds : List Desc) (d : DevField) : CellWF tp (writeDev o ds d) := by
  unfold writeDev CellWF
  split
  · exact cellPieces_wf tp hf _ (formatAtoms_pre _)
  · exact cellPieces_wf tp hf _ (formatAtoms_pre _)

theorem plain_append {a b : Txt} (ha : plainCell a) (hb : plainCell b) : plainCell (a ++ b) := by
  intro x hx
  rcases List.mem_append.mp hx with h | h
  · exact ha x h
  · exact hb x h

theorem unknownTxt_plain : plainCell unknownTxt := by
  have h := mesgNamesPlainOK_true
  simp only [mesgNamesPlainOK, Bool.and_eq_true] at h
  exact plain_of_all h.2

theorem formatUnknown_plain (n : Nat) : plainCell (formatUnknown n) := by
  unfold formatUnknown
  exact plain_append (plain_append (plain_append unknownTxt_plain (plain_of_all (by decide +kernel))) (natDigits_plain n))
    (plain_of_all (by decide +kernel))

theorem mesgNameOf_plain (o : Opts) (n : Nat) : plainCell (mesgNameOf o n) := by
  unfold mesgNameOf
  split
  · rename_i s hs
    have hl : mesgNames.lookup n = some s := by
      split at hs
      · cases hs
      · exact hs
    have hm := lookup_mem _ _ _ hl
    have h := mesgNamesPlainOK_true
    simp only [mesgNamesPlainOK, Bool.and_eq_true] at h
    exact plain_of_all (List.all_eq_true.mp h.1 (n, s) hm)
  · split
    · exact formatUnknown_plain n
    · exact unknownTxt_plain

theorem writeMesgs_wf (tp : TextParam) (hf : FloatOK tp) (o : Opts) : ∀ (ms : List Message) (ds : List Desc),
    ∀ l ∈ writeMesgs o ds ms, LineWF tp l
  | [], _, l, hl => by cases hl
  | m :: ms, ds, l, hl => by
    simp only [writeMesgs, List.mem_cons] at hl
    rcases hl with rfl | hl
    · refine ⟨mesgNameOf_plain o m.num, ?_⟩
      intro c hc
      rcases List.mem_append.mp hc with h | h
      · obtain ⟨f, _, rfl⟩ := List.mem_map.mp h
        exact writeField_wf tp hf o m f
      · obtain ⟨d, _, rfl⟩ := List.mem_map.mp h
        exact writeDev_wf tp hf o _ d
    · exact writeMesgs_wf tp hf o ms _ l hl

/-! ### reading the lines of the text -/

theorem lineText_nonempty (tp : TextParam) (ln : Nat) (name : Txt) (cells : List Cell) (m : Nat) :
    (lineText tp ln (.data name cells) ++ List.replicate m 44).isEmpty = false := by
  have : lineText tp ln (.data name cells) = dataTxt ++ 44 :: joinComma (natDigits ln :: name :: cells.flatMap (cellTexts tp)) := by
    simp only [lineText, List.cons_append, List.nil_append]
    rw [joinComma_cons2]
  rw [this]
  have hd : dataTxt = 68 :: [97, 116, 97] := by decide +kernel
  rw [hd]
  rfl

/-- the text of a line with `3·j` padding commas -/
def paddedText (tp : TextParam) (j : Line → Nat) (l : Line) : Txt := lineText tp 0 l ++ List.replicate (3 * j l) 44

/-- **the reader over the text follows the reader over the writer's lines** -/
theorem readTextLines_sim (tp : TextParam) (hf : FloatOK tp) (j : Line → Nat) : ∀ (ls : List Line) (s s' : RState),
    (∀ l ∈ ls, LineWF tp l) → readLines Arith.so s ls = .ok s' →
    readTextLines (Arith.so.withText tp) s (ls.map (paddedText tp j)) = .ok s'
  | [], s, s', _, h => by simpa [readLines, readTextLines] using h
  | l :: ls, s, s', hwf, h => by
    have hl := hwf l (List.mem_cons_self ..)
    cases l with
    | definition n => cases hl
    | data name cells =>
      simp only [readLines] at h
      cases h1 : readLine Arith.so s (.data name cells) with
      | err => rw [h1] at h; cases h
      | unmodelled => rw [h1] at h; cases h
      | ok s1 =>
        rw [h1] at h
        simp only at h
        have ih := readTextLines_sim tp hf j ls s1 s' (fun x hx => hwf x (List.mem_cons_of_mem _ hx)) h
        obtain ⟨hrec, _⟩ := csvRecord_line tp 0 name cells hl (3 * j (.data name cells))
        have hpads : ∀ c ∈ List.replicate (j (.data name cells)) padCell, IsPad c := by
          intro c hc
          rw [List.eq_of_mem_replicate hc]; rfl
        have hcells : cells.map (rawCellOf tp) = cells.map (mapCell (rawOf tp)) :=
          List.map_congr_left (fun c hc => rawCellOf_eq tp c (hl.2 c hc))
        have hsim := readLine_sim Arith.so (Arith.so.withText tp) (rawOf tp) (sim_raw tp hf) s s1 name cells _ hpads h1
        simp only [List.map_cons, readTextLines, paddedText, lineText_nonempty, Bool.false_eq_true, ↓reduceIte, hrec]
        simp only [List.cons_append, List.nil_append, recordLine, beq_self_eq_true, ↓reduceIte, triples_cells, triples_pads, hcells, hsim]
        exact ih

end Fit.Csv
