import FitModel.DecProg
import FitModel.DecoderApi
import FitModel.Raw
import FitModel.Wire
/-!
Definitions of the links between the decoder models (core Lean only: this module is also linked into the model driver,
which cross-checks the links on generated streams — `Driver/Links.lean`).

## (D) → (C): the API-level result as a FUNCTION of what the reader-client model observes

`DecProg` (D) reports, for every message, the bytes of each field and developer field "as handed to the value decoder";
`DecoderApi` (C) reports messages with values. `apiOf` rebuilds (C)'s observable — per `Decode()` call of the
`for dec.Next() { dec.Decode() }` loop the returned FIT (header, messages with values, CRC) or error class and the listener
calls — from (D)'s outcome alone, by running (C)'s OWN value-level functions (`decodeField`, `decodeDevField`,
`compressedTs`, `expandAll`, `noteMesg`, `pushMsg`) on the bytes the events carry. Nothing of the byte stream itself enters.
-/
namespace Fit.Link
open Fit.DecApi Fit.Gen.DecApi

/-- error classes of (D) as (C) names them (every error of the reading layer is (C)'s `eof`) -/
def errC : DecProg.Err → Err
  | .io _ => .eof
  | .notFit => .notFit
  | .crc => .crc
  | .defMissing => .defMissing
  | .invalidBaseType => .baseType

def fieldDefOf (t : DecProg.Triplet) : FieldDef := ⟨t.1, t.2.1, t.2.2⟩
def devDefOf (t : DecProg.Triplet) : DevDef := ⟨t.1, t.2.1, t.2.2⟩

/-- the message definition a definition event of (D) describes (the reserved byte is not part of (D)'s observation) -/
def mesgDefOf (header arch mesgNum : Nat) (fields devs : List DecProg.Triplet) : MesgDef :=
  ⟨header, 0, arch, mesgNum, fields.map fieldDefOf, devs.map devDefOf⟩

/-- `decodeFields` with the reads replaced by the bytes the event carries (one entry per field of non-zero size, in
order): (C)'s `decodeField` on a stream that consists of exactly those bytes -/
def iFields (d : MesgDef) : List FieldDef → List (Nat × List Nat) → List DField → St → Res (List DField × St)
  | [], _, acc, t => .ok (acc, t)
  | fd :: fds, vals, acc, t =>
    let b := if fd.size = 0 then [] else (vals.head?.map (·.2)).getD []
    match decodeField d fd { t with rest := b } with
    | .ok (f, t) => iFields d fds (if fd.size = 0 then vals else vals.tail) (match f with | some f => acc ++ [f] | none => acc) t
    | .err e => .err e
    | .panic => .panic
    | .hang => .hang

/-- the developer fields of a message event: each entry (number, developer data index, bytes) through (C)'s
`decodeDevField` with the field description on record -/
def iDevs (d : MesgDef) : List (Nat × Nat × List Nat) → List DDev → St → Res (List DDev × St)
  | [], acc, t => .ok (acc, t)
  | (num, ddi, b) :: rest, acc, t =>
    match t.look.descs.find? (fun f => f.ddi == ddi && f.fdn == num) with
    | none => .panic
    | some fdsc =>
      match decodeDevField d ⟨num, b.length, ddi⟩ fdsc { t with rest := b } with
      | .ok (f, t) => iDevs d rest (match f with | some f => acc ++ [f] | none => acc) t
      | .err e => .err e
      | .panic => .panic
      | .hang => .hang

/-- `decodeMessageData` on a message event of (D): header byte, field bytes, developer field bytes -/
def iData (header : Nat) (vals : List (Nat × List Nat)) (devs : List (Nat × Nat × List Nat)) (t : St) : Res (St × Option Event) :=
  let compressed := decide (header &&& mesgCompressedHeaderMask = mesgCompressedHeaderMask)
  let localNum := if compressed then (header &&& compressedLocalMesgNumMask) >>> compressedBitShift else header
  match t.look.lookup (localNum &&& localMesgNumMask) with
  | none => .err .defMissing
  | some d =>
    let (t, pre) := if compressed then compressedTs header d t else (t, [])
    match iFields d d.fields vals pre t with
    | .ok (fields, t) =>
      match (if t.o.exp then
          match expandAll t.o.fac d.mesgNum fields.length 0 (fields, t.q.acc) with
          | some (fields, acc) => .ok (fields, { t with q := { t.q with acc := acc } })
          | none => .hang
        else .ok (fields, t) : Res (List DField × St)) with
      | .ok (fields, t) =>
        let t := noteMesg d.mesgNum fields t
        match iDevs d devs [] t with
        | .ok (dv, t) =>
          let m : Msg := ⟨header, d.mesgNum, fields, dv⟩
          let t := pushMsg m t
          .ok (t, if t.o.ml then some (.mesg m) else none)
        | .err e => .err e
        | .panic => .panic
        | .hang => .hang
      | .err e => .err e
      | .panic => .panic
      | .hang => .hang
    | .err e => .err e
    | .panic => .panic
    | .hang => .hang

/-- state of the reconstruction -/
structure IState where
  /-- (C)'s decoder state as far as values depend on it: options, look-ups, timestamp, accumulator, messages, file id
  (its stream, byte counter and running checksum are meaningless) -/
  t : St
  /-- the `Decode()` calls completed so far: what each returned and the listener calls during it -/
  done : List (Out × List Event) := []
  /-- listener calls of the `Decode()` in progress -/
  pend : List Event := []
  /-- an event no decoder run produces was met -/
  bad : Bool := false
  deriving Repr

def iStep (i : IState) : DecProg.Ev → IState
  | .def_ header arch mesgNum fields devs =>
    let d := mesgDefOf header arch mesgNum fields devs
    let t := { i.t with look := { i.t.look with defs := (header &&& localMesgNumMask, d) :: i.t.look.defs } }
    { i with t := t, pend := i.pend ++ (if t.o.dl then [.mesgDef d] else []) }
  | .msg header _ _ _ vals devs =>
    match iData header vals devs i.t with
    | .ok (t, ev) => { i with t := t, pend := i.pend ++ ev.toList }
    | _ => { i with bad := true }
  | .seq size pv prof ds hcrc fcrc _ =>
    let fit : Fit := ⟨⟨size, pv, prof, ds, hcrc⟩, i.t.q.msgs.reverse, fcrc⟩
    { i with t := { i.t with q := {}, look := {} }, done := i.done ++ [(.fit fit, i.pend)], pend := [] }

/-- **THE PROJECTION (D) → (C).** What the `Decode()` calls of `for dec.Next() { fit, err := dec.Decode(); if err != nil { break } }`
return and the listener calls made during each, rebuilt from the outcome of (D)'s run: one entry per completed sequence,
and a last entry with the error class when the run ended with an error. -/
def apiOf (o : Opts) (out : DecProg.Out) : List (Out × List Event) :=
  let i := out.evs.foldl iStep { t := St.fresh o [] }
  match out.status with
  | none => i.done
  | some e => i.done ++ [(.err (errC e), i.pend)]

/-- the same loop on the API model (C): `Next()`, then `Decode()` while it returns a FIT; the results of the `Decode()` calls -/
def apiLoop : Nat → Api → List (Out × List Event)
  | 0, _ => []
  | fuel + 1, a =>
    let r := step a .next
    match r.2.1 with
    | .bool true =>
      let r2 := step r.1 .decode
      match r2.2.1 with
      | .fit f => (.fit f, r2.2.2) :: apiLoop fuel r2.1
      | o => [(o, r2.2.2)]
    | _ => []

/-- (D) does not observe the reserved byte of a definition record: the listener calls of (C) with that byte zeroed -/
def normEvent : Event → Event
  | .mesgDef d => .mesgDef { d with reserved := 0 }
  | e => e

def normCalls (l : List (Out × List Event)) : List (Out × List Event) := l.map fun p => (p.1, p.2.map normEvent)

/-- the factory treats the three fields of `field_description` the decoder reads back as the profile does (plain one-byte
fields, nothing expanded into or out of that message) — (D) reads their first byte directly -/
def facFdOK (fac : Factory) : Bool :=
  [Fit.Gen.Integ.fdDeveloperDataIndex, Fit.Gen.Integ.fdFieldDefinitionNumber, Fit.Gen.Integ.fdFitBaseTypeId].all (fun n =>
    let i := fac.create Fit.Gen.Integ.mesgNumFieldDescription n
    i.known && i.bt == _root_.Fit.Gen.btUint8 && !i.isBool && !i.array) &&
  fac.all (fun e => e.mesgNum != Fit.Gen.Integ.mesgNumFieldDescription || e.info.comps.isEmpty)

/-- every base type the factory hands out is a valid one (otherwise `UnmarshalValue` fails with an error (D) has no
counterpart for: its tie runs the standard factory) -/
def facBtOK (fac : Factory) : Bool := fac.all fun e => _root_.Fit.Value.btValid e.info.bt

/-! ## (A) the wire-level decoder against (D): the common observable -/

/-- what the wire model (A) and the reader-client model (D) both report of a run: definitions with their contents; per
message the header byte, the global number and the bytes of every field of non-zero size under its number (developer
payloads are not part of it: (A) keeps the bytes of every developer field in the item, (D) lists those with a field
description; the timestamp (A) reconstructs is a value — see `apiOf`); per sequence header and CRCs -/
inductive WEv
  | def_ (header arch mesgNum : Nat) (fields devs : List (Nat × Nat × Nat))
  | msg (header mesgNum : Nat) (payload : List (Nat × List Nat))
  | seq (size pv prof ds hcrc fcrc : Nat)
  deriving DecidableEq, Repr

def wevOfA : Wire.Ev → WEv
  | .item (.def_ _ d) => .def_ d.header d.arch d.mesgNum (d.fields.map fun f => (f.num, f.size, f.bt)) (d.devs.map fun f => (f.num, f.size, f.idx))
  | .item (.data r) => .msg r.header r.num ((r.fields.filter fun p => p.1.size != 0).map fun p => (p.1.num, p.2))
  | .seq f => .seq f.hdr.size f.hdr.protoVer f.hdr.profileVer f.hdr.dataSize f.hdr.crc f.crc

def wevOfD : DecProg.Ev → WEv
  | .def_ h a m f d => .def_ h a m f d
  | .msg h m _ _ vals _ => .msg h m vals
  | .seq size pv prof ds hcrc fcrc _ => .seq size pv prof ds hcrc fcrc

def errAofD : DecProg.Err → Wire.Err
  | .io _ => .eof
  | .notFit => .notFit
  | .crc => .crcMismatch
  | .defMissing => .defMissing
  | .invalidBaseType => .invalidBaseType

/-- (A)'s run in the common form -/
def wireObsA (r : List Wire.Ev × Option Wire.Err) : List WEv × Option Wire.Err := (r.1.map wevOfA, r.2)
/-- (D)'s run in the common form -/
def wireObsD (o : DecProg.Out) : List WEv × Option Wire.Err := (o.evs.map wevOfD, o.status.map errAofD)

/-! ## the independent framing spec → the raw decoder -/

section RawLayout
open Fit.Raw Fit.Gen.Reader

def kindOfFlag (f : Nat) : FitFormat.Kind :=
  if f = rawFlagFileHeader then .header else if f = rawFlagMesgDef then .definition
  else if f = rawFlagMesgData then .data else .crc

/-- the callback invocations as (kind, offset in the stream, length), the first at offset `off` -/
def layout : Nat → List Seg → List (FitFormat.Kind × Nat × Nat)
  | _, [] => []
  | off, s :: ss => (kindOfFlag s.flag, off, s.bytes.length) :: layout (off + s.bytes.length) ss

end RawLayout

end Fit.Link
