import FitModel.Validator
import FitModel.Generated.Go_proto
import FitProps.Go2LeanLemmas
/-!
Agreement of the definitions GENERATED from proto/version.go and proto/validator.go (`Go.proto.*`) with the hand-written
model of the protocol validator (`Fit.Validator.afterV1`, `protoV1`), and the packing of `proto.Version`.
-/
namespace Fit.Go2Lean

/-- `Version`: major in the high nibble, minor in the low one; `V1` = 1.0, `V2` = 2.0; `Major`/`Minor` read back what
`CreateVersion` packed -/
theorem proto_version : (∀ v < 256, Go.proto.Version.Major v = v / 16 ∧ Go.proto.Version.Minor v = v % 16) ∧
    (∀ maj < 16, ∀ min < 16, Go.proto.Version.Major (Go.proto.CreateVersion maj min) = maj ∧
      Go.proto.Version.Minor (Go.proto.CreateVersion maj min) = min) ∧
    Go.proto.V1 = Go.proto.CreateVersion 1 0 ∧ Go.proto.V2 = Go.proto.CreateVersion 2 0 := by decide +kernel

open Fit.Validator Fit.Gen in
/-- the protocol validator's conditions, in both `ValidateMessageDefinition` and `ValidateMessage`: "protocol version is
1.0" and "the base type was added after 1.0" are the model's `ver = protoV1` and `afterV1` -/
theorem proto_validator : (∀ v < 256, Go.proto.ValidateMessageDefinition_isV1 v = decide (v = protoV1) ∧
      Go.proto.ValidateMessage_isV1 v = decide (v = protoV1)) ∧
    (∀ bt < 256, Go.proto.ValidateMessageDefinition_afterV1 bt = afterV1 bt ∧ Go.proto.ValidateMessage_afterV1 bt = afterV1 bt) := by
  decide +kernel

end Fit.Go2Lean
