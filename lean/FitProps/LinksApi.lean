import FitProps.Links
/-!
Link theorems for single API calls (additions to `FitProps/Links.lean`, which states them for the `Next`/`Decode` loop).
-/
namespace Fit.Links
open Fit.DecApi Fit.Link Fit.ReadBuffer

theorem apiLoop_one_fit (o : Opts) (bs : List Nat) (s' : St) (f : Fit) (evs : List Event)
    (h : stepDecode (St.fresh o bs) = (s', .fit f, evs)) : apiLoop 1 (Api.fresh o bs) = [(.fit f, evs)] := by
  have hn : step (Api.fresh o bs) .next = (Api.fresh o bs, .bool true, []) := by
    simp [step, stepNext, Api.fresh, St.fresh, Api.advance]
  have hd : step (Api.fresh o bs) .decode = ((Api.fresh o bs).advance s', .fit f, evs) := by
    show ((Api.fresh o bs).advance (stepDecode (Api.fresh o bs).d).1, (stepDecode (Api.fresh o bs).d).2.1, (stepDecode (Api.fresh o bs).d).2.2) = _
    have : (Api.fresh o bs).d = St.fresh o bs := rfl
    rw [this, h]
  simp only [apiLoop, hn, hd]

/-- **What a successful `Decode` returns IS the decoding of the records (D) read.** If `Decode` on a new decoder returns a
FIT, then the reader-client model (D) — whose message events carry, for every record, exactly the bytes `ReadN` delivered for
each field and developer field, and whose record loop runs while `d.cur <` the declared data size — ends its one-sequence run on
the same bytes without error, and the returned FIT (header, every message with every VALUE, developer fields, CRC) and the
listener calls (reserved byte of definitions zeroed) are `apiOf` of those events: (C)'s own value-level functions applied to
the bytes the events carry, nothing else of the stream. -/
theorem Link_decode_is_apiOf (o : Opts) (bs : List Nat) (hb : DecApi.IsBytes bs) (hlen : bs.length < 4294967296)
    (hfac : FacOK o.fac) (hbt : facBtOK o.fac = true) (hfd : facFdOK o.fac = true)
    (s' : St) (f : Fit) (evs : List Event) (h : stepDecode (St.fresh o bs) = (s', .fit f, evs)) :
    apiOf o (runExact (DecProg.decodeLoop o.chk 1 true []) bs) = [(.fit f, evs.map normEvent)] := by
  rw [← Link_decprog_eq_api o bs 1 hb hlen hfac hbt hfd, apiLoop_one_fit o bs s' f evs h]
  rfl

end Fit.Links
