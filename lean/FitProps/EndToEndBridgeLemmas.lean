import FitProps.EndToEndFieldLemmas
import FitProps.WireLemmas
/-!
Bridge between the two decoder models (C01 end to end): wherever the framing decoder of `FitModel/Wire.lean`
(`decodeRecordsF`, the object of `C01_wire_records`) parses a record stream into items, the decoder-API model
(`Fit.DecApi.decodeMessages`, the object of C03/C07) — run on the same bytes — returns the messages the pure
interpretation (`interpField` / `interpDev`) of those items gives, provided that interpretation succeeds and agrees
with the framing decoder on which timestamps it tracks (`GoodItems`; discharged for encoder output in
`EndToEndLemmas.lean`).
-/
set_option linter.unusedSimpArgs false
namespace Fit.E2E
open Fit.Gen Fit.Gen.DecApi Fit.Value Fit.DecApi Fit.Crc

/-! ### `decodeFields` / `decodeDevFields` on explicit byte strings -/

/-- `decodeFields` over field definitions paired with their bytes (the stream position still advances in `St`) -/
def fieldsPure (d : MesgDef) : List (FieldDef × List Nat) → List DField → St → Res (List DField × St)
  | [], acc, s => .ok (acc, s)
  | (fd, b) :: rest, acc, s =>
    (interpField s.o.fac d.mesgNum d.arch fd b).bind fun r =>
      fieldsPure d rest (match r with | some f => acc ++ [f] | none => acc) (afterField d fd s r)

theorem interpField_none (fac : Factory) (m a : Nat) (fd : FieldDef) (b : List Nat)
    (h : interpField fac m a fd b = .ok none) : fd.size = 0 := by
  simp only [interpField] at h
  cases hs : fieldShape (fac.create m fd.num) fd with
  | ok sh =>
    rw [hs] at h
    simp only [Res.bind] at h
    by_cases hz : fd.size = 0
    · exact hz
    · simp only [hz, if_false] at h
      cases hv : valueOfBytes b a (readShape fd.size sh.1 sh.2.1 sh.2.2.1).1 (readShape fd.size sh.1 sh.2.1 sh.2.2.1).2.1
          (readShape fd.size sh.1 sh.2.1 sh.2.2.1).2.2 sh.2.2.2 <;> rw [hv] at h <;> simp [Res.bind] at h
  | err e => rw [hs] at h; simp [Res.bind] at h
  | panic => rw [hs] at h; simp [Res.bind] at h
  | hang => rw [hs] at h; simp [Res.bind] at h

theorem afterField_rest (d : MesgDef) (fd : FieldDef) (s : St) (r : Option DField) :
    (afterField d fd s r).rest = (match r with | some _ => s.rest.drop fd.size | none => s.rest) ∧
    (afterField d fd s r).o = s.o ∧ (afterField d fd s r).look = s.look := by
  cases r with
  | none => exact ⟨rfl, rfl, rfl⟩
  | some f =>
    simp only [afterField]
    have h1 := noteAcc_quiet (s.o.fac.create d.mesgNum fd.num).accumulate d.mesgNum fd.num f.value (noteTs fd.num f.value (adv s fd.size))
    have h2 := noteTs_quiet fd.num f.value (adv s fd.size)
    have h3 := noteAcc_look (s.o.fac.create d.mesgNum fd.num).accumulate d.mesgNum fd.num f.value (noteTs fd.num f.value (adv s fd.size))
    have h4 := noteTs_look fd.num f.value (adv s fd.size)
    refine ⟨by rw [h1.2.1, h2.2.1]; rfl, by rw [h1.1, h2.1]; rfl, by rw [h3, h4]; rfl⟩

theorem decodeFields_eq (d : MesgDef) : ∀ (pairs : List (FieldDef × List Nat)) (acc : List DField) (s : St) (tail : List Nat),
    s.rest = pairs.flatMap (·.2) ++ tail → (∀ p ∈ pairs, p.2.length = p.1.size ∧ p.1.size < 256) →
    decodeFields d (pairs.map (·.1)) acc s = fieldsPure d pairs acc s := by
  intro pairs
  induction pairs with
  | nil => intro acc s tail _ _; rfl
  | cons p ps ih =>
    intro acc s tail hr hp
    obtain ⟨fd, b⟩ := p
    obtain ⟨hlen, hsz⟩ := hp (fd, b) (by simp)
    simp only at hlen hsz
    have hl : fd.size ≤ s.rest.length := by rw [hr]; simp [hlen.symm]
    have htake : s.rest.take fd.size = b := by
      rw [hr, List.flatMap_cons, List.append_assoc, ← hlen]; simp
    have hdrop : s.rest.drop fd.size = ps.flatMap (·.2) ++ tail := by
      rw [hr, List.flatMap_cons, List.append_assoc, ← hlen]; simp
    simp only [List.map_cons, decodeFields, fieldsPure, bind, Res.bind]
    rw [decodeField_eq d fd s hsz hl, htake]
    cases hi : interpField s.o.fac d.mesgNum d.arch fd b with
    | ok r =>
      simp only [Res.bind]
      refine ih _ _ tail ?_ (fun p hp' => hp p (List.mem_cons_of_mem _ hp'))
      rw [(afterField_rest d fd s r).1]
      cases r with
      | some f => exact hdrop
      | none =>
        have h0 := interpField_none _ _ _ _ _ hi
        have hb : b = [] := List.eq_nil_of_length_eq_zero (by omega)
        simp only [hr, hb, List.flatMap_cons, List.nil_append]
    | err e => rfl
    | panic => rfl
    | hang => rfl

/-- `decodeDevFields` over developer field definitions paired with their bytes -/
def devsPure (d : MesgDef) : List (DevDef × List Nat) → List DDev → St → Res (List DDev × St)
  | [], acc, s => .ok (acc, s)
  | (dd, b) :: rest, acc, s =>
    match s.look.descs.find? (fun f => f.ddi == dd.idx && f.fdn == dd.num) with
    | none => devsPure d rest acc (adv s dd.size)
    | some fdsc =>
      (interpDev d.arch dd fdsc b).bind fun r =>
        devsPure d rest (match r with | some f => acc ++ [f] | none => acc) (afterDev dd s r)

theorem interpDev_none (a : Nat) (dd : DevDef) (fdsc : Desc) (b : List Nat)
    (h : interpDev a dd fdsc b = .ok none) : dd.size = 0 := by
  simp only [interpDev] at h
  cases hv : validBaseType fdsc.bt
  · simp [hv] at h
  · simp only [hv, Bool.not_true, Bool.false_eq_true, ↓reduceIte] at h
    cases harr : (if dd.size > btSize fdsc.bt then (modP dd.size (btSize fdsc.bt)).bind (fun r => Res.ok (decide (r = 0))) else Res.ok false : Res Bool) with
    | ok arr =>
      rw [harr] at h
      simp only [Res.bind] at h
      by_cases hz : dd.size = 0
      · exact hz
      · simp only [hz, if_false] at h
        cases hvb : valueOfBytes b a (readShape dd.size fdsc.bt (decide (fdsc.bt &&& baseTypeNumMask = profileBool)) arr).1
            (readShape dd.size fdsc.bt (decide (fdsc.bt &&& baseTypeNumMask = profileBool)) arr).2.1
            (readShape dd.size fdsc.bt (decide (fdsc.bt &&& baseTypeNumMask = profileBool)) arr).2.2 (decide (fdsc.bt = btString)) <;>
          rw [hvb] at h <;> simp [Res.bind] at h
    | err e => rw [harr] at h; simp [Res.bind] at h
    | panic => rw [harr] at h; simp [Res.bind] at h
    | hang => rw [harr] at h; simp [Res.bind] at h

theorem decodeDevFields_eq (d : MesgDef) : ∀ (pairs : List (DevDef × List Nat)) (acc : List DDev) (s : St) (tail : List Nat),
    s.rest = pairs.flatMap (·.2) ++ tail → (∀ p ∈ pairs, p.2.length = p.1.size ∧ p.1.size < 256) →
    decodeDevFields d (pairs.map (·.1)) acc s = devsPure d pairs acc s := by
  intro pairs
  induction pairs with
  | nil => intro acc s tail _ _; rfl
  | cons p ps ih =>
    intro acc s tail hr hp
    obtain ⟨dd, b⟩ := p
    obtain ⟨hlen, hsz⟩ := hp (dd, b) (by simp)
    simp only at hlen hsz
    have hkb : dd.size ≤ reservedbuf := by have : reservedbuf = 765 := rfl; omega
    have hl : dd.size ≤ s.rest.length := by rw [hr]; simp [hlen.symm]
    have htake : s.rest.take dd.size = b := by
      rw [hr, List.flatMap_cons, List.append_assoc, ← hlen]; simp
    have hdrop : s.rest.drop dd.size = ps.flatMap (·.2) ++ tail := by
      rw [hr, List.flatMap_cons, List.append_assoc, ← hlen]; simp
    simp only [List.map_cons, decodeDevFields, devsPure]
    cases hf : s.look.descs.find? (fun f => f.ddi == dd.idx && f.fdn == dd.num) with
    | none =>
      simp only [bind, Res.bind]
      rw [readN_ok dd.size s hkb hl]
      exact ih _ _ tail hdrop (fun p hp' => hp p (List.mem_cons_of_mem _ hp'))
    | some fdsc =>
      simp only [bind, Res.bind]
      rw [decodeDevField_eq d dd fdsc s hsz hl, htake]
      cases hi : interpDev d.arch dd fdsc b with
      | ok r =>
        simp only [Res.bind]
        refine ih _ _ tail ?_ (fun p hp' => hp p (List.mem_cons_of_mem _ hp'))
        cases r with
        | some f => exact hdrop
        | none =>
          have h0 := interpDev_none _ _ _ _ hi
          have hb : b = [] := List.eq_nil_of_length_eq_zero (by omega)
          simp only [afterDev, hr, hb, List.flatMap_cons, List.nil_append]
      | err e => rfl
      | panic => rfl
      | hang => rfl

/-! ### the state after reading: position, checksum, timestamp -/

/-- `n` bytes consumed through `readN` (in any number of calls), the active timestamp now `tl` -/
def readSt (s : St) (n : Nat) (tl : Nat × Nat) : St :=
  { s with rest := s.rest.drop n,
           q := { s.q with cur := (s.q.cur + n) % 4294967296,
                           crc16 := if s.o.chk then write s.q.crc16 (s.rest.take n) else s.q.crc16,
                           ts := tl.1, lastOff := tl.2 } }

theorem write_append (c : Nat) (a b : List Nat) : write (write c a) b = write c (a ++ b) := by
  simp [write, List.foldl_append]

theorem take_add_drop (l : List Nat) (a b : Nat) : l.take a ++ (l.drop a).take b = l.take (a + b) := by
  rw [List.take_add]

theorem readSt_readSt (s : St) (n1 n2 : Nat) (t1 t2 : Nat × Nat) :
    readSt (readSt s n1 t1) n2 t2 = readSt s (n1 + n2) t2 := by
  simp only [readSt, List.drop_drop]
  congr 1
  · congr 1
    · omega
    · split
      · rw [write_append, take_add_drop]
      · rfl

theorem readSt_zero (s : St) (h : s.q.cur < 4294967296) : readSt s 0 (s.q.ts, s.q.lastOff) = s := by
  simp [readSt, write, Nat.mod_eq_of_lt h]

/-- what a decoded field does to the active timestamp -/
def tsStep (num : Nat) (r : Option DField) (tl : Nat × Nat) : Nat × Nat :=
  match r with
  | some f => (match f.value with
    | .uint32 t => if num = fieldNumTimestamp then (t, t &&& compressedTimeMask) else tl
    | _ => tl)
  | none => tl

theorem noteTs_eq (num : Nat) (v : Value) (s : St) :
    noteTs num v s = { s with q := { s.q with ts := (tsStep num (some ⟨0, 0, false, false, false, v, false⟩) (s.q.ts, s.q.lastOff)).1,
                                               lastOff := (tsStep num (some ⟨0, 0, false, false, false, v, false⟩) (s.q.ts, s.q.lastOff)).2 } } := by
  unfold noteTs tsStep
  cases v <;> simp only [setTs] <;> (try split) <;> rfl

theorem afterField_readSt (d : MesgDef) (fd : FieldDef) (s : St) (r : Option DField) (hexp : s.o.exp = false)
    (hc : s.q.cur < 4294967296) (hz : r = none → fd.size = 0) :
    afterField d fd s r = readSt s fd.size (tsStep fd.num r (s.q.ts, s.q.lastOff)) := by
  cases r with
  | none => rw [hz rfl]; exact (readSt_zero s hc).symm
  | some f =>
    have hexp' : (noteTs fd.num f.value (adv s fd.size)).o.exp = false := by
      rw [(noteTs_quiet fd.num f.value (adv s fd.size)).1]; exact hexp
    simp only [afterField, noteAcc, hexp', Bool.false_eq_true, and_false, ↓reduceIte]
    rw [noteTs_eq]
    simp only [tsStep, adv, readSt]

theorem snoc_filterMap {α : Type} (acc : List α) (r : Option α) (rs : List (Option α)) :
    (match r with | some f => acc ++ [f] | none => acc) ++ rs.filterMap id = acc ++ (r :: rs).filterMap id := by
  cases r <;> simp

def totalF (pairs : List (FieldDef × List Nat)) : Nat := (pairs.map (·.1.size)).sum

/-- the active timestamp after the fields of a record -/
def tsFold : List (FieldDef × List Nat) → List (Option DField) → Nat × Nat → Nat × Nat
  | p :: ps, r :: rs, tl => tsFold ps rs (tsStep p.1.num r tl)
  | _, _, tl => tl

/-- every field of the record is interpreted successfully, with the given results -/
def InterpAll (fac : Factory) (m a : Nat) : List (FieldDef × List Nat) → List (Option DField) → Prop
  | [], [] => True
  | p :: ps, r :: rs => interpField fac m a p.1 p.2 = .ok r ∧ InterpAll fac m a ps rs
  | _, _ => False

theorem readSt_ts (s : St) (n : Nat) (tl : Nat × Nat) : (readSt s n tl).q.ts = tl.1 := rfl
theorem readSt_lastOff (s : St) (n : Nat) (tl : Nat × Nat) : (readSt s n tl).q.lastOff = tl.2 := rfl
theorem readSt_o (s : St) (n : Nat) (tl : Nat × Nat) : (readSt s n tl).o = s.o := rfl
theorem readSt_cur_lt (s : St) (n : Nat) (tl : Nat × Nat) : (readSt s n tl).q.cur < 4294967296 := Nat.mod_lt _ (by decide)

theorem fieldsPure_ok (d : MesgDef) : ∀ (pairs : List (FieldDef × List Nat)) (rs : List (Option DField)) (acc : List DField) (s : St),
    InterpAll s.o.fac d.mesgNum d.arch pairs rs → s.o.exp = false → s.q.cur < 4294967296 →
    fieldsPure d pairs acc s = .ok (acc ++ rs.filterMap id, readSt s (totalF pairs) (tsFold pairs rs (s.q.ts, s.q.lastOff))) := by
  intro pairs
  induction pairs with
  | nil =>
    intro rs acc s h _ hc
    cases rs with
    | nil => simp [fieldsPure, totalF, tsFold, readSt_zero s hc]
    | cons _ _ => cases h
  | cons p ps ih =>
    intro rs acc s h hexp hc
    cases rs with
    | nil => cases h
    | cons r rs =>
      obtain ⟨fd, b⟩ := p
      obtain ⟨h1, h2⟩ := h
      simp only at h1
      simp only [fieldsPure, h1, Res.bind]
      have hz : r = none → fd.size = 0 := fun hr => interpField_none _ _ _ _ _ (hr ▸ h1)
      rw [afterField_readSt d fd s r hexp hc hz]
      rw [ih rs _ (readSt s fd.size _) (by rw [readSt_o]; exact h2) (by rw [readSt_o]; exact hexp) (readSt_cur_lt _ _ _)]
      rw [readSt_readSt]
      cases r <;> simp [totalF, tsFold, readSt_ts, readSt_lastOff]

/-- the developer fields of a record: skipped without description, else interpreted successfully with the given result -/
def InterpDevs (descs : List Desc) (a : Nat) : List (DevDef × List Nat) → List (Option DDev) → Prop
  | [], [] => True
  | p :: ps, r :: rs =>
    (match descs.find? (fun f => f.ddi == p.1.idx && f.fdn == p.1.num) with
      | none => r = none
      | some fdsc => interpDev a p.1 fdsc p.2 = .ok r) ∧ InterpDevs descs a ps rs
  | _, _ => False

def totalD (pairs : List (DevDef × List Nat)) : Nat := (pairs.map (·.1.size)).sum

theorem readSt_look (s : St) (n : Nat) (tl : Nat × Nat) : (readSt s n tl).look = s.look := rfl

theorem adv_eq_readSt (s : St) (n : Nat) : adv s n = readSt s n (s.q.ts, s.q.lastOff) := rfl

theorem devsPure_ok (d : MesgDef) : ∀ (pairs : List (DevDef × List Nat)) (rs : List (Option DDev)) (acc : List DDev) (s : St),
    InterpDevs s.look.descs d.arch pairs rs → s.q.cur < 4294967296 →
    devsPure d pairs acc s = .ok (acc ++ rs.filterMap id, readSt s (totalD pairs) (s.q.ts, s.q.lastOff)) := by
  intro pairs
  induction pairs with
  | nil =>
    intro rs acc s h hc
    cases rs with
    | nil => simp [devsPure, totalD, readSt_zero s hc]
    | cons _ _ => cases h
  | cons p ps ih =>
    intro rs acc s h hc
    cases rs with
    | nil => cases h
    | cons r rs =>
      obtain ⟨dd, b⟩ := p
      obtain ⟨h1, h2⟩ := h
      simp only at h1
      simp only [devsPure]
      cases hf : s.look.descs.find? (fun f => f.ddi == dd.idx && f.fdn == dd.num) with
      | none =>
        rw [hf] at h1
        subst h1
        simp only
        rw [adv_eq_readSt, ih rs acc _ (by rw [readSt_look]; exact h2) (readSt_cur_lt _ _ _), readSt_readSt]
        simp only [totalD, List.map_cons, List.sum_cons, readSt, List.filterMap_cons, id]
      | some fdsc =>
        rw [hf] at h1
        simp only [h1, Res.bind]
        have hz : r = none → dd.size = 0 := fun hr => interpDev_none _ _ _ _ (hr ▸ h1)
        have ha : afterDev dd s r = readSt s dd.size (s.q.ts, s.q.lastOff) := by
          cases r with
          | none => rw [hz rfl]; exact (readSt_zero s hc).symm
          | some f => rfl
        rw [ha, ih rs _ _ (by rw [readSt_look]; exact h2) (readSt_cur_lt _ _ _), readSt_readSt]
        cases r <;> simp [totalD, readSt]

/-! ### one data record -/

theorem totalF_eq (fs : List (FieldDef × List Nat)) (h : ∀ p ∈ fs, p.2.length = p.1.size) :
    totalF fs = (fs.flatMap (·.2)).length := by
  unfold totalF
  induction fs with
  | nil => rfl
  | cons p ps ih =>
    simp only [List.map_cons, List.sum_cons, List.flatMap_cons, List.length_append]
    rw [ih (fun q hq' => h q (List.mem_cons_of_mem _ hq')), h p (by simp)]

theorem totalD_eq (fs : List (DevDef × List Nat)) (h : ∀ p ∈ fs, p.2.length = p.1.size) :
    totalD fs = (fs.flatMap (·.2)).length := by
  unfold totalD
  induction fs with
  | nil => rfl
  | cons p ps ih =>
    simp only [List.map_cons, List.sum_cons, List.flatMap_cons, List.length_append]
    rw [ih (fun q hq' => h q (List.mem_cons_of_mem _ hq')), h p (by simp)]

/-- the state before the fields of a data record are read, and the timestamp field a compressed header yields -/
def preOf (header : Nat) (d : MesgDef) (s : St) : St × List DField :=
  if header &&& mesgCompressedHeaderMask = mesgCompressedHeaderMask then compressedTs header d s else (s, [])

/-- the message a data record decodes to, given the results of interpreting its fields and developer fields -/
def msgOf (header : Nat) (d : MesgDef) (s : St) (rs : List (Option DField)) (rds : List (Option DDev)) : Msg :=
  ⟨header, d.mesgNum, (preOf header d s).2 ++ rs.filterMap id, rds.filterMap id⟩

/-- the state after the fields of a data record (before its developer fields) -/
def midOf (header : Nat) (d : MesgDef) (s : St) (fs : List (FieldDef × List Nat)) (rs : List (Option DField)) : St :=
  noteMesg d.mesgNum ((preOf header d s).2 ++ rs.filterMap id)
    (readSt (preOf header d s).1 (totalF fs) (tsFold fs rs ((preOf header d s).1.q.ts, (preOf header d s).1.q.lastOff)))

/-- the state after a data record -/
def dataResult (header : Nat) (d : MesgDef) (s : St) (fs : List (FieldDef × List Nat)) (dvs : List (DevDef × List Nat))
    (rs : List (Option DField)) (rds : List (Option DDev)) : St :=
  let s2 := midOf header d s fs rs
  pushMsg (msgOf header d s rs rds) (readSt s2 (totalD dvs) (s2.q.ts, s2.q.lastOff))

theorem preOf_quiet (header : Nat) (d : MesgDef) (s : St) : Quiet s (preOf header d s).1 := by
  unfold preOf; split
  · exact compressedTs_quiet header d s
  · exact Quiet.refl s

theorem preOf_look (header : Nat) (d : MesgDef) (s : St) : (preOf header d s).1.look = s.look := by
  unfold preOf; split <;> rfl

theorem noteMesg_cur (m : Nat) (fields : List DField) (s : St) : (noteMesg m fields s).q.cur = s.q.cur :=
  (noteMesg_quiet m fields s).2.2.2.1

theorem decodeData_ok (header : Nat) (d : MesgDef) (s : St) (fs : List (FieldDef × List Nat)) (dvs : List (DevDef × List Nat))
    (tail : List Nat) (rs : List (Option DField)) (rds : List (Option DDev))
    (hlook : s.look.lookup ((if header &&& mesgCompressedHeaderMask = mesgCompressedHeaderMask
        then (header &&& compressedLocalMesgNumMask) >>> compressedBitShift else header) &&& localMesgNumMask) = some d)
    (hf : d.fields = fs.map (·.1)) (hd : d.devs = dvs.map (·.1))
    (hrest : s.rest = fs.flatMap (·.2) ++ (dvs.flatMap (·.2) ++ tail))
    (hfs : ∀ p ∈ fs, p.2.length = p.1.size ∧ p.1.size < 256) (hds : ∀ p ∈ dvs, p.2.length = p.1.size ∧ p.1.size < 256)
    (hexp : s.o.exp = false) (hbo : s.o.bo = false) (hml : s.o.ml = false) (hc : s.q.cur < 4294967296)
    (hI : InterpAll s.o.fac d.mesgNum d.arch fs rs)
    (hD : InterpDevs (midOf header d s fs rs).look.descs d.arch dvs rds) :
    decodeData header s = .ok (dataResult header d s fs dvs rs rds, none) := by
  have hq := preOf_quiet header d s
  have hpo : (preOf header d s).1.o = s.o := hq.1
  unfold decodeData
  simp only [bind, Res.bind, pure, decide_eq_true_eq]
  rw [hlook]
  simp only
  have hpre : (if header &&& mesgCompressedHeaderMask = mesgCompressedHeaderMask then compressedTs header d s else (s, [])) =
      ((preOf header d s).1, (preOf header d s).2) := by simp [preOf]
  rw [hpre]
  simp only
  rw [hf, decodeFields_eq d fs _ _ (dvs.flatMap (·.2) ++ tail) (by rw [hq.2.1]; exact hrest) hfs]
  rw [fieldsPure_ok d fs rs _ _ (by rw [hpo]; exact hI) (by rw [hpo]; exact hexp) (by rw [hq.2.2.2.1]; exact hc)]
  simp only [Res.bind, readSt_o, hpo, hexp, Bool.false_eq_true, ↓reduceIte]
  have hmid : noteMesg d.mesgNum ((preOf header d s).2 ++ rs.filterMap id)
      (readSt (preOf header d s).1 (totalF fs) (tsFold fs rs ((preOf header d s).1.q.ts, (preOf header d s).1.q.lastOff))) = midOf header d s fs rs := rfl
  rw [hmid]
  have hmo : (midOf header d s fs rs).o = s.o := by
    unfold midOf; rw [(noteMesg_quiet _ _ _).1, readSt_o, hpo]
  -- the stream after the fields
  have hmrest : (midOf header d s fs rs).rest = dvs.flatMap (·.2) ++ tail := by
    unfold midOf
    rw [(noteMesg_quiet _ _ _).2.1]
    simp only [readSt]
    rw [hq.2.1, hrest]
    have : totalF fs = (fs.flatMap (·.2)).length := totalF_eq fs (fun p hp => (hfs p hp).1)
    rw [this]; simp
  by_cases hde : d.devs.isEmpty = true
  · -- no developer fields
    have hdv : dvs = [] := by
      have : d.devs = [] := by simpa [List.isEmpty_iff] using hde
      rw [hd] at this; simpa using this
    subst hdv
    cases rds with
    | cons _ _ => cases hD
    | nil =>
      simp only [hde, ↓reduceIte, Res.bind]
      have hcm : (midOf header d s fs rs).q.cur < 4294967296 := by
        unfold midOf; rw [noteMesg_cur]; exact readSt_cur_lt _ _ _
      have : dataResult header d s fs [] rs [] = pushMsg (msgOf header d s rs []) (midOf header d s fs rs) := by
        simp only [dataResult, totalD, List.map_nil, List.sum_nil, readSt_zero _ hcm]
      rw [this]
      simp only [msgOf, List.filterMap_nil]
      have : (pushMsg ⟨header, d.mesgNum, (preOf header d s).2 ++ rs.filterMap id, []⟩ (midOf header d s fs rs)).o.ml = false := by
        rw [(pushMsg_quiet _ _).1, hmo]; exact hml
      simp only [this, Bool.false_eq_true, ↓reduceIte]
  · simp only [hde, Bool.false_eq_true, ↓reduceIte]
    rw [hd, decodeDevFields_eq d dvs [] _ tail hmrest hds]
    have hcm : (midOf header d s fs rs).q.cur < 4294967296 := by
      unfold midOf; rw [noteMesg_cur]; exact readSt_cur_lt _ _ _
    rw [devsPure_ok d dvs rds [] _ hD hcm]
    simp only [Res.bind, List.nil_append]
    have : (pushMsg (msgOf header d s rs rds) (readSt (midOf header d s fs rs) (totalD dvs)
        ((midOf header d s fs rs).q.ts, (midOf header d s fs rs).q.lastOff))).o.ml = false := by
      rw [(pushMsg_quiet _ _).1, readSt_o, hmo]; exact hml
    simp only [dataResult, msgOf] at this ⊢
    simp only [this, Bool.false_eq_true, ↓reduceIte]

/-! ### one definition record -/

/-- the state after a definition record of `k` bytes (after its header byte) binding `d` to its local number -/
def defResult (s : St) (k : Nat) (localNum : Nat) (d : MesgDef) : St :=
  { readSt s k (s.q.ts, s.q.lastOff) with look := { s.look with defs := (localNum, d) :: s.look.defs } }

theorem readN_readSt (k : Nat) (s : St) (hk : k ≤ reservedbuf) (hl : k ≤ s.rest.length) :
    readN k s = .ok (s.rest.take k, readSt s k (s.q.ts, s.q.lastOff)) := readN_ok k s hk hl

theorem decodeDefinition_ok (header : Nat) (s : St) (res arch m0 m1 n : Nat) (fb devPart tail : List Nat)
    (fields : List FieldDef) (devs : List DevDef)
    (hrest : s.rest = [res, arch, m0, m1, n] ++ (fb ++ (devPart ++ tail)))
    (hfb : fb.length = n * 3) (hn : n < 256) (hpf : parseFieldDefs fb = some fields)
    (hdev : if header &&& devDataMask = devDataMask
      then ∃ k db, devPart = k :: db ∧ db.length = k * 3 ∧ k < 256 ∧ devs = parseDevDefs db
      else devPart = [] ∧ devs = [])
    (hdl : s.o.dl = false) :
    decodeDefinition header s = .ok (defResult s (5 + n * 3 + devPart.length) (header &&& localMesgNumMask)
      ⟨header, res, arch, if arch = littleEndian then le16 [m0, m1] else be16 [m0, m1], fields, devs⟩, none) := by
  have hrb : reservedbuf = 765 := rfl
  unfold decodeDefinition
  simp only [bind, Res.bind, pure]
  rw [readN_readSt 5 s (by omega) (by rw [hrest]; simp)]
  simp only
  have hln := localNum_lt header
  rw [if_neg (by omega)]
  have ht5 : s.rest.take 5 = [res, arch, m0, m1, n] := by rw [hrest]; simp
  rw [ht5]
  simp only [idx, List.getElem?_cons_zero, List.getElem?_cons_succ, slice, List.length_cons, List.length_nil,
    Nat.reduceAdd, Nat.reduceLeDiff, and_self, ↓reduceIte, List.drop_succ_cons, List.drop_zero, Nat.reduceSub,
    List.take_succ_cons, List.take_zero, Res.bind]
  have hr1 : (readSt s 5 (s.q.ts, s.q.lastOff)).rest = fb ++ (devPart ++ tail) := by
    simp only [readSt]; rw [hrest]; simp
  rw [readN_readSt (n * 3) _ (by omega) (by rw [hr1]; simp [hfb])]
  simp only [hr1, readSt_readSt, readSt_ts, readSt_lastOff]
  have htf : (fb ++ (devPart ++ tail)).take (n * 3) = fb := by rw [← hfb]; simp
  rw [htf, hpf]
  simp only
  have hr2 : (readSt s (5 + n * 3) (s.q.ts, s.q.lastOff)).rest = devPart ++ tail := by
    simp only [readSt]; rw [hrest]
    have : 5 + n * 3 = ([res, arch, m0, m1, n] ++ fb).length := by simp [hfb]; omega
    rw [this, ← List.append_assoc, List.drop_left]
  by_cases hd : header &&& devDataMask = devDataMask
  · rw [if_pos hd] at hdev
    obtain ⟨k, db, hdp, hdb, hk, hdevs⟩ := hdev
    simp only [hd, ↓reduceIte, Res.bind]
    rw [readN_readSt 1 _ (by omega) (by rw [hr2, hdp]; simp)]
    simp only [hr2, hdp, List.cons_append, List.take_succ_cons, List.take_zero, List.getElem?_cons_zero, Res.bind,
      readSt_readSt, readSt_ts, readSt_lastOff]
    have hr3 : (readSt s (5 + n * 3 + 1) (s.q.ts, s.q.lastOff)).rest = db ++ tail := by
      simp only [readSt]; rw [hrest, hdp]
      have : 5 + n * 3 + 1 = ([res, arch, m0, m1, n] ++ fb ++ [k]).length := by simp [hfb]; omega
      rw [this]
      have e : [res, arch, m0, m1, n] ++ (fb ++ (k :: db ++ tail)) = ([res, arch, m0, m1, n] ++ fb ++ [k]) ++ (db ++ tail) := by simp
      rw [e, List.drop_left]
    rw [readN_readSt (k * 3) _ (by omega) (by rw [hr3]; simp [hdb])]
    have htd : (db ++ tail).take (k * 3) = db := by rw [← hdb]; simp
    simp only [hr3, htd, readSt_readSt, readSt_ts, readSt_lastOff, Res.bind, hdevs]
    have hlen : 5 + n * 3 + (k :: db).length = 5 + n * 3 + 1 + k * 3 := by simp [hdb]; omega
    simp only [defResult, hlen, readSt_o, hdl, Bool.false_eq_true, ↓reduceIte]
    rfl
  · rw [if_neg hd] at hdev
    obtain ⟨hdp, hdevs⟩ := hdev
    simp only [hd, ↓reduceIte, Res.bind, hdp, hdevs, List.length_nil, Nat.add_zero]
    simp only [defResult, readSt_o, hdl, Bool.false_eq_true, ↓reduceIte]
    rfl

/-! ### the framing decoder's record, taken apart -/

def cvF (f : Wire.FieldDef) : FieldDef := ⟨f.num, f.size, f.bt⟩
def cvD (f : Wire.DevDef) : DevDef := ⟨f.num, f.size, f.idx⟩
def cvFs (l : List (Wire.FieldDef × List Nat)) : List (FieldDef × List Nat) := l.map fun p => (cvF p.1, p.2)
def cvDs (l : List (Wire.DevDef × List Nat)) : List (DevDef × List Nat) := l.map fun p => (cvD p.1, p.2)

theorem wire_valid_lt : ∀ b, b < 256 → Wire.validBaseType b = true → btValid b = true := by decide +kernel

theorem parseFieldDefs_bridge : ∀ (n : Nat) (bs : List Nat) (fds : List Wire.FieldDef) (rest : List Nat),
    Wire.parseFieldDefs n bs = .ok (fds, rest) → IsBytes bs → (∀ f ∈ fds, Wire.validBaseType f.bt = true) →
    ∃ fb, bs = fb ++ rest ∧ fb.length = n * 3 ∧ parseFieldDefs fb = some (fds.map cvF) := by
  intro n
  induction n with
  | zero =>
    intro bs fds rest h _ _
    simp only [Wire.parseFieldDefs, Except.ok.injEq, Prod.mk.injEq] at h
    obtain ⟨rfl, rfl⟩ := h
    exact ⟨[], rfl, rfl, rfl⟩
  | succ n ih =>
    intro bs fds rest h hb hv
    match bs, h with
    | a :: b :: c :: bs', h =>
      simp only [Wire.parseFieldDefs] at h
      cases hp : Wire.parseFieldDefs n bs' with
      | error e => rw [hp] at h; cases h
      | ok pr =>
        obtain ⟨fs, rest'⟩ := pr
        rw [hp] at h
        simp only [Except.ok.injEq, Prod.mk.injEq] at h
        obtain ⟨rfl, rfl⟩ := h
        obtain ⟨fb, h1, h2, h3⟩ := ih bs' fs rest' hp (fun x hx => hb x (by simp [hx])) (fun f hf => hv f (List.mem_cons_of_mem _ hf))
        refine ⟨a :: b :: c :: fb, by simp [h1], by simp [h2]; omega, ?_⟩
        have hvc : validBaseType c = true := wire_valid_lt c (hb c (by simp)) (hv ⟨a, b, c⟩ (by simp))
        simp [parseFieldDefs, hvc, h3, cvF]
    | [], h => simp [Wire.parseFieldDefs] at h
    | [_], h => simp [Wire.parseFieldDefs] at h
    | [_, _], h => simp [Wire.parseFieldDefs] at h

theorem parseDevDefs_bridge : ∀ (n : Nat) (bs : List Nat) (fds : List Wire.DevDef) (rest : List Nat),
    Wire.parseDevDefs n bs = .ok (fds, rest) →
    ∃ fb, bs = fb ++ rest ∧ fb.length = n * 3 ∧ parseDevDefs fb = fds.map cvD := by
  intro n
  induction n with
  | zero =>
    intro bs fds rest h
    simp only [Wire.parseDevDefs, Except.ok.injEq, Prod.mk.injEq] at h
    obtain ⟨rfl, rfl⟩ := h
    exact ⟨[], rfl, rfl, rfl⟩
  | succ n ih =>
    intro bs fds rest h
    match bs, h with
    | a :: b :: c :: bs', h =>
      simp only [Wire.parseDevDefs] at h
      cases hp : Wire.parseDevDefs n bs' with
      | error e => rw [hp] at h; cases h
      | ok pr =>
        obtain ⟨fs, rest'⟩ := pr
        rw [hp] at h
        simp only [Except.ok.injEq, Prod.mk.injEq] at h
        obtain ⟨rfl, rfl⟩ := h
        obtain ⟨fb, h1, h2, h3⟩ := ih bs' fs rest' hp
        exact ⟨a :: b :: c :: fb, by simp [h1], by simp [h2]; omega, by simp [parseDevDefs, h3, cvD]⟩
    | [], h => simp [Wire.parseDevDefs] at h
    | [_], h => simp [Wire.parseDevDefs] at h
    | [_, _], h => simp [Wire.parseDevDefs] at h

theorem takeFields_split : ∀ (fds : List Wire.FieldDef) (bs : List Nat) (fs : List (Wire.FieldDef × List Nat)) (rest : List Nat),
    Wire.takeFields fds bs = .ok (fs, rest) →
    fs.map (·.1) = fds ∧ bs = fs.flatMap (·.2) ++ rest ∧ ∀ p ∈ fs, p.2.length = p.1.size := by
  intro fds
  induction fds with
  | nil =>
    intro bs fs rest h
    simp only [Wire.takeFields, Except.ok.injEq, Prod.mk.injEq] at h
    obtain ⟨rfl, rfl⟩ := h
    exact ⟨rfl, rfl, fun p hp => by cases hp⟩
  | cons fd fds ih =>
    intro bs fs rest h
    simp only [Wire.takeFields] at h
    split at h
    · cases h
    · rename_i hlen
      cases hp : Wire.takeFields fds (bs.drop fd.size) with
      | error e => rw [hp] at h; cases h
      | ok pr =>
        obtain ⟨fs', rest'⟩ := pr
        rw [hp] at h
        simp only [Except.ok.injEq, Prod.mk.injEq] at h
        obtain ⟨rfl, rfl⟩ := h
        obtain ⟨h1, h2, h3⟩ := ih _ _ _ hp
        refine ⟨by simp [h1], ?_, ?_⟩
        · simp only [List.flatMap_cons, List.append_assoc, ← h2, List.take_append_drop]
        · intro p hp'
          rcases List.mem_cons.mp hp' with rfl | hp'
          · simp; omega
          · exact h3 p hp'

-- `takeDevs_split` and `wire_record_cases` (about the framing skeleton `decodeRecordF`) live in FitProps/WireLemmas.lean
open Fit.Wire (takeDevs_split wire_record_cases)

/-! ### simulation between the two decoders' states -/

def DefRel (w : Wire.MesgDef) (d : MesgDef) : Prop :=
  d.header = w.header ∧ d.arch = w.arch ∧ d.mesgNum = w.mesgNum ∧ d.fields = w.fields.map cvF ∧ d.devs = w.devs.map cvD

/-- the two definition tables hold related definitions under the same local numbers, in the same order -/
inductive DefsRel : List (Nat × Wire.MesgDef) → List (Nat × MesgDef) → Prop
  | nil : DefsRel [] []
  | cons {p q a b} : (p.1 = q.1 ∧ DefRel p.2 q.2) → DefsRel a b → DefsRel (p :: a) (q :: b)

structure SimW (ds : Wire.DecState) (s : St) : Prop where
  defs : DefsRel ds.defs s.look.defs
  ts : s.q.ts = ds.timestamp
  lo : s.q.lastOff = ds.lastOff
  lo32 : ds.lastOff < 32
  sizes : ∀ p ∈ ds.defs, (∀ f ∈ p.2.fields, f.size < 256) ∧ (∀ f ∈ p.2.devs, f.size < 256)

theorem forall2_lookup : ∀ (a : List (Nat × Wire.MesgDef)) (b : List (Nat × MesgDef)) (i : Nat),
    DefsRel a b →
    ((a.find? (·.1 == i)).map (·.2) = none ∧ (b.find? (·.1 == i)).map (·.2) = none) ∨
    ∃ w d, (a.find? (·.1 == i)).map (·.2) = some w ∧ (b.find? (·.1 == i)).map (·.2) = some d ∧ DefRel w d := by
  intro a b i h
  induction h with
  | nil => left; simp
  | @cons p q as' bs' hpq _ ih =>
    obtain ⟨hk, hr⟩ := hpq
    by_cases hi : p.1 = i
    · right
      have hq : q.1 = i := by rw [← hk]; exact hi
      exact ⟨p.2, q.2, by simp [List.find?_cons, hi], by simp [List.find?_cons, hq], hr⟩
    · have hq : ¬ q.1 = i := by rw [← hk]; exact hi
      have e1 : (p :: as').find? (·.1 == i) = as'.find? (·.1 == i) := by simp [List.find?_cons, hi]
      have e2 : (q :: bs').find? (·.1 == i) = bs'.find? (·.1 == i) := by simp [List.find?_cons, hq]
      rw [e1, e2]; exact ih

theorem SimW.lookup {ds : Wire.DecState} {s : St} (h : SimW ds s) (i : Nat) :
    (ds.lookup i = none ∧ s.look.lookup i = none) ∨ ∃ w d, ds.lookup i = some w ∧ s.look.lookup i = some d ∧ DefRel w d :=
  forall2_lookup ds.defs s.look.defs i h.defs

structure PlainOpts (o : Opts) : Prop where
  exp : o.exp = false
  bo : o.bo = false
  ml : o.ml = false
  dl : o.dl = false

/-- the timestamp field a compressed-timestamp header yields -/
def tsDField (fac : Factory) (m t : Nat) : DField :=
  if (fac.create m fieldNumTimestamp).known then
    ⟨fieldNumTimestamp, (fac.create m fieldNumTimestamp).bt, true, (fac.create m fieldNumTimestamp).isBool,
      (fac.create m fieldNumTimestamp).array, .uint32 t, false⟩
  else ⟨fieldNumTimestamp, btUint32, false, false, false, .uint32 t, false⟩

/-- the timestamp a decoded field carries, as the decoder's tracking sees it -/
def tsOfRes : Option DField → Option Nat
  | some f => (match f.value with | .uint32 t => some t | _ => none)
  | none => none

/-- on every field numbered 253 the two decoders agree about the timestamp it sets -/
def TsAgreeAll (known : Bool) (arch : Nat) : List (Wire.FieldDef × List Nat) → List (Option DField) → Prop
  | [], [] => True
  | p :: ps, r :: rs => (p.1.num = 253 → tsOfRes r = Wire.tsFromField known arch p.1 p.2) ∧ TsAgreeAll known arch ps rs
  | _, _ => False

theorem and31 (t : Nat) : t &&& compressedTimeMask = t % 32 := by
  have : compressedTimeMask = 2 ^ 5 - 1 := rfl
  rw [this, Nat.and_two_pow_sub_one_eq_mod]

theorem tsStep_of_none (num : Nat) (r : Option DField) (tl : Nat × Nat) (h : tsOfRes r = none) : tsStep num r tl = tl := by
  cases r with
  | none => rfl
  | some f =>
    obtain ⟨_, _, _, _, _, v, _⟩ := f
    cases v <;> simp [tsStep, tsOfRes] at *

theorem tsStep_of_some (num : Nat) (r : Option DField) (tl : Nat × Nat) (t : Nat) (h : tsOfRes r = some t)
    (hn : num = fieldNumTimestamp) : tsStep num r tl = (t, t % 32) := by
  cases r with
  | none => simp [tsOfRes] at h
  | some f =>
    obtain ⟨_, _, _, _, _, v, _⟩ := f
    cases v <;> simp [tsStep, tsOfRes] at *
    subst h
    simp [hn, and31]

theorem tsStep_other (num : Nat) (r : Option DField) (tl : Nat × Nat) (hn : num ≠ fieldNumTimestamp) : tsStep num r tl = tl := by
  cases r with
  | none => rfl
  | some f =>
    obtain ⟨_, _, _, _, _, v, _⟩ := f
    cases v <;> simp [tsStep, hn]

theorem trackTs_defs (known : Bool) (arch : Nat) : ∀ (fs : List (Wire.FieldDef × List Nat)) (ds : Wire.DecState),
    (Wire.trackTs known arch ds fs).defs = ds.defs := by
  intro fs
  induction fs with
  | nil => intro ds; rfl
  | cons p ps ih =>
    intro ds
    obtain ⟨fd, data⟩ := p
    simp only [Wire.trackTs, List.foldl_cons] at ih ⊢
    rw [ih]
    split
    · split <;> rfl
    · rfl

theorem tsFold_track (known : Bool) (arch : Nat) : ∀ (fs : List (Wire.FieldDef × List Nat)) (rs : List (Option DField))
    (ds : Wire.DecState), TsAgreeAll known arch fs rs → ds.lastOff < 32 →
    tsFold (cvFs fs) rs (ds.timestamp, ds.lastOff) =
      ((Wire.trackTs known arch ds fs).timestamp, (Wire.trackTs known arch ds fs).lastOff) ∧
    (Wire.trackTs known arch ds fs).lastOff < 32 := by
  intro fs
  induction fs with
  | nil =>
    intro rs ds h hl
    cases rs with
    | nil => exact ⟨rfl, hl⟩
    | cons _ _ => cases h
  | cons p ps ih =>
    intro rs ds h hl
    cases rs with
    | nil => cases h
    | cons r rs =>
      obtain ⟨fd, data⟩ := p
      obtain ⟨h1, h2⟩ := h
      simp only at h1
      simp only [cvFs, List.map_cons, tsFold, Wire.trackTs, List.foldl_cons]
      by_cases hn : fd.num = 253
      · have ha := h1 hn
        have hb : (fd.num == Wire.tsFieldNum) = true := by simp [hn, Wire.tsFieldNum]
        simp only [hb, ↓reduceIte]
        cases ht : Wire.tsFromField known arch fd data with
        | none =>
          rw [ht] at ha
          rw [tsStep_of_none _ _ _ ha]
          exact ih rs ds h2 hl
        | some t =>
          rw [ht] at ha
          rw [tsStep_of_some _ _ _ t ha (by simp [cvF, hn, fieldNumTimestamp])]
          exact ih rs { ds with timestamp := t, lastOff := t % 32 } h2 (Nat.mod_lt _ (by decide))
      · have hb : (fd.num == Wire.tsFieldNum) = false := by simp [Wire.tsFieldNum, hn]
        simp only [hb, Bool.false_eq_true, ↓reduceIte]
        rw [tsStep_other _ _ _ (by simp [cvF, fieldNumTimestamp, hn])]
        exact ih rs ds h2 hl

/-! ### what a data record leaves behind -/

/-- the field descriptions after a message (`noteMesg`) -/
def descsAfter (descs : List Desc) (m : Nat) (fields : List DField) : List Desc :=
  if m = mesgNumFieldDescription then descs ++ [mkDesc fields] else descs

theorem noteMesg_spec (m : Nat) (fields : List DField) (s : St) :
    (noteMesg m fields s).look.descs = descsAfter s.look.descs m fields ∧
    (noteMesg m fields s).q.ts = s.q.ts ∧ (noteMesg m fields s).q.lastOff = s.q.lastOff ∧
    (noteMesg m fields s).q.msgs = s.q.msgs := by
  have hne : mesgNumDeveloperDataId ≠ mesgNumFieldDescription := by decide
  unfold noteMesg descsAfter
  simp only
  have h0 : ∀ s0 : St, s0 = (if s.q.fileId.isNone = true ∧ m = mesgNumFileId then
      ({ s with q := { s.q with fileId := some (mkFileId fields) } } : St) else s) →
      s0.look = s.look ∧ s0.q.ts = s.q.ts ∧ s0.q.lastOff = s.q.lastOff ∧ s0.q.msgs = s.q.msgs := by
    intro s0 h; rw [h]; split <;> exact ⟨rfl, rfl, rfl, rfl⟩
  generalize hs : (if s.q.fileId.isNone = true ∧ m = mesgNumFileId then
    ({ s with q := { s.q with fileId := some (mkFileId fields) } } : St) else s) = s0
  obtain ⟨a1, a2, a3, a4⟩ := h0 s0 hs.symm
  by_cases h1 : m = mesgNumDeveloperDataId
  · have h2 : ¬ m = mesgNumFieldDescription := by rw [h1]; exact hne
    subst h1
    simp only [hne, ↓reduceIte]
    exact ⟨by rw [a1], a2, a3, a4⟩
  · by_cases h2 : m = mesgNumFieldDescription
    · subst h2
      simp only [h1, ↓reduceIte]
      exact ⟨by rw [a1], a2, a3, a4⟩
    · simp only [h1, h2, ↓reduceIte]
      exact ⟨by rw [a1], a2, a3, a4⟩

theorem pushMsg_spec (m : Msg) (s : St) (hbo : s.o.bo = false) :
    (pushMsg m s).q.msgs = m :: s.q.msgs ∧ (pushMsg m s).look = s.look ∧ (pushMsg m s).q.ts = s.q.ts ∧
    (pushMsg m s).q.lastOff = s.q.lastOff := by
  simp [pushMsg, hbo]

structure DataSpec (header : Nat) (d : MesgDef) (s s' : St) (fs : List (FieldDef × List Nat)) (dvs : List (DevDef × List Nat))
    (rs : List (Option DField)) (rds : List (Option DDev)) : Prop where
  o : s'.o = s.o
  rest : s'.rest = s.rest.drop (totalF fs + totalD dvs)
  cur : s'.q.cur = (s.q.cur + (totalF fs + totalD dvs)) % 4294967296
  crc16 : s'.q.crc16 = if s.o.chk then write s.q.crc16 (s.rest.take (totalF fs + totalD dvs)) else s.q.crc16
  hdr : s'.q.hdr = s.q.hdr
  hdrDone : s'.q.hdrDone = s.q.hdrDone
  err : s'.q.err = s.q.err
  defs : s'.look.defs = s.look.defs
  descs : s'.look.descs = descsAfter s.look.descs d.mesgNum ((preOf header d s).2 ++ rs.filterMap id)
  msgs : s'.q.msgs = msgOf header d s rs rds :: s.q.msgs
  ts : (s'.q.ts, s'.q.lastOff) = tsFold fs rs ((preOf header d s).1.q.ts, (preOf header d s).1.q.lastOff)

theorem midOf_descs (header : Nat) (d : MesgDef) (s : St) (fs : List (FieldDef × List Nat)) (rs : List (Option DField)) :
    (midOf header d s fs rs).look.descs = descsAfter s.look.descs d.mesgNum ((preOf header d s).2 ++ rs.filterMap id) := by
  unfold midOf
  rw [(noteMesg_spec _ _ _).1, readSt_look, preOf_look]

theorem dataResult_spec (header : Nat) (d : MesgDef) (s : St) (fs : List (FieldDef × List Nat)) (dvs : List (DevDef × List Nat))
    (rs : List (Option DField)) (rds : List (Option DDev)) (hbo : s.o.bo = false) :
    DataSpec header d s (dataResult header d s fs dvs rs rds) fs dvs rs rds := by
  have hq := preOf_quiet header d s
  obtain ⟨q1, q2, q3, q4, q5, q6, q7, q8⟩ := hq
  have hmid : ∀ n tl, Quiet (preOf header d s).1 (noteMesg d.mesgNum ((preOf header d s).2 ++ rs.filterMap id) (readSt (preOf header d s).1 n tl)) →
      True := fun _ _ _ => trivial
  -- name the intermediate states
  generalize hs1 : readSt (preOf header d s).1 (totalF fs) (tsFold fs rs ((preOf header d s).1.q.ts, (preOf header d s).1.q.lastOff)) = s1
  have hm := noteMesg_quiet d.mesgNum ((preOf header d s).2 ++ rs.filterMap id) s1
  have hmsp := noteMesg_spec d.mesgNum ((preOf header d s).2 ++ rs.filterMap id) s1
  obtain ⟨m1, m2, m3, m4, m5, m6, m7, m8⟩ := hm
  have hd : dataResult header d s fs dvs rs rds = pushMsg (msgOf header d s rs rds)
      (readSt (noteMesg d.mesgNum ((preOf header d s).2 ++ rs.filterMap id) s1) (totalD dvs)
        ((noteMesg d.mesgNum ((preOf header d s).2 ++ rs.filterMap id) s1).q.ts, (noteMesg d.mesgNum ((preOf header d s).2 ++ rs.filterMap id) s1).q.lastOff)) := by
    simp only [dataResult, midOf, hs1]
  rw [hd]
  generalize hs2 : noteMesg d.mesgNum ((preOf header d s).2 ++ rs.filterMap id) s1 = s2 at *
  have hbo2 : (readSt s2 (totalD dvs) (s2.q.ts, s2.q.lastOff)).o.bo = false := by
    rw [readSt_o, m1, ← hs1, readSt_o, q1]; exact hbo
  obtain ⟨p1, p2, p3, p4⟩ := pushMsg_spec (msgOf header d s rs rds) _ hbo2
  have hp := pushMsg_quiet (msgOf header d s rs rds) (readSt s2 (totalD dvs) (s2.q.ts, s2.q.lastOff))
  obtain ⟨r1, r2, r3, r4, r5, r6, r7, r8⟩ := hp
  have e1 : s1.o = s.o := by rw [← hs1, readSt_o, q1]
  have e2 : s1.rest = s.rest.drop (totalF fs) := by rw [← hs1]; simp only [readSt]; rw [q2]
  have e3 : s1.q.cur = (s.q.cur + totalF fs) % 4294967296 := by rw [← hs1]; simp only [readSt]; rw [q4]
  have e4 : s1.q.crc16 = if s.o.chk then write s.q.crc16 (s.rest.take (totalF fs)) else s.q.crc16 := by
    rw [← hs1]; simp only [readSt]; rw [q1, q2, q5]
  refine ⟨?_, ?_, ?_, ?_, ?_, ?_, ?_, ?_, ?_, ?_, ?_⟩
  · rw [r1, readSt_o, m1, e1]
  · rw [r2]; simp only [readSt]; rw [m2, e2, List.drop_drop]
  · rw [r4]; simp only [readSt]; rw [m4, e3]; omega
  · rw [r5]; simp only [readSt]; rw [m1, e1, m5, e4, m2, e2]
    split
    · rw [write_append, take_add_drop]
    · rfl
  · rw [r6]; simp only [readSt]; rw [m6, ← hs1]; simp only [readSt]; exact q6
  · rw [r7]; simp only [readSt]; rw [m7, ← hs1]; simp only [readSt]; exact q7
  · rw [r8]; simp only [readSt]; rw [m8, ← hs1]; simp only [readSt]; exact q8
  · rw [r3]; simp only [readSt]; rw [m3, ← hs1]; simp only [readSt]; exact q3
  · rw [p2, readSt_look, hmsp.1, ← hs1, readSt_look, preOf_look]
  · rw [p1]; simp only [readSt]; rw [hmsp.2.2.2, ← hs1]; simp only [readSt]
    have : (preOf header d s).1.q.msgs = s.q.msgs := by
      unfold preOf; split <;> rfl
    rw [this]
  · rw [p3, p4, readSt_ts, readSt_lastOff, hmsp.2.1, hmsp.2.2.1, ← hs1, readSt_ts, readSt_lastOff]

theorem parseFieldDefs_sizes : ∀ (n : Nat) (bs : List Nat) (fds : List Wire.FieldDef) (rest : List Nat),
    Wire.parseFieldDefs n bs = .ok (fds, rest) → IsBytes bs → ∀ f ∈ fds, f.size < 256 := by
  intro n
  induction n with
  | zero =>
    intro bs fds rest h _ f hf
    simp only [Wire.parseFieldDefs, Except.ok.injEq, Prod.mk.injEq] at h
    obtain ⟨rfl, rfl⟩ := h
    cases hf
  | succ n ih =>
    intro bs fds rest h hb
    match bs, h with
    | a :: b :: c :: bs', h =>
      simp only [Wire.parseFieldDefs] at h
      cases hp : Wire.parseFieldDefs n bs' with
      | error e => rw [hp] at h; cases h
      | ok pr =>
        obtain ⟨fs, rest'⟩ := pr
        rw [hp] at h
        simp only [Except.ok.injEq, Prod.mk.injEq] at h
        obtain ⟨rfl, rfl⟩ := h
        intro f hf
        rcases List.mem_cons.mp hf with rfl | hf
        · exact hb b (by simp)
        · exact ih bs' fs rest' hp (fun x hx => hb x (by simp [hx])) f hf
    | [], h => simp [Wire.parseFieldDefs] at h
    | [_], h => simp [Wire.parseFieldDefs] at h
    | [_, _], h => simp [Wire.parseFieldDefs] at h

theorem parseDevDefs_sizes : ∀ (n : Nat) (bs : List Nat) (fds : List Wire.DevDef) (rest : List Nat),
    Wire.parseDevDefs n bs = .ok (fds, rest) → IsBytes bs → ∀ f ∈ fds, f.size < 256 := by
  intro n
  induction n with
  | zero =>
    intro bs fds rest h _ f hf
    simp only [Wire.parseDevDefs, Except.ok.injEq, Prod.mk.injEq] at h
    obtain ⟨rfl, rfl⟩ := h
    cases hf
  | succ n ih =>
    intro bs fds rest h hb
    match bs, h with
    | a :: b :: c :: bs', h =>
      simp only [Wire.parseDevDefs] at h
      cases hp : Wire.parseDevDefs n bs' with
      | error e => rw [hp] at h; cases h
      | ok pr =>
        obtain ⟨fs, rest'⟩ := pr
        rw [hp] at h
        simp only [Except.ok.injEq, Prod.mk.injEq] at h
        obtain ⟨rfl, rfl⟩ := h
        intro f hf
        rcases List.mem_cons.mp hf with rfl | hf
        · exact hb b (by simp)
        · exact ih bs' fs rest' hp (fun x hx => hb x (by simp [hx])) f hf
    | [], h => simp [Wire.parseDevDefs] at h
    | [_], h => simp [Wire.parseDevDefs] at h
    | [_, _], h => simp [Wire.parseDevDefs] at h

/-- the reconstruction of a compressed timestamp: both models add the same offset -/
theorem ts_offset : ∀ o, o < 32 → ∀ l, l < 32 → ((o + 256 - l) % 256) &&& 31 = (o + 32 - l) % 32 := by decide +kernel

/-! ### the items interpret to messages -/

/-- the fields of the message a data record decodes to -/
def fieldsOfRec (fac : Factory) (r : Wire.WRec) (rs : List (Option DField)) : List DField :=
  (match r.ts with | some t => [tsDField fac r.num t] | none => []) ++ rs.filterMap id

/-- every data record among the items is interpreted successfully — its fields (`rs`) and, under the field descriptions
known by then, its developer fields (`rds`) — the two decoders agree on the timestamps its fields set, and the messages
are `msgs` -/
def GoodItems (fac : Factory) : List Desc → List Wire.Item → List Msg → Prop
  | _, [], msgs => msgs = []
  | descs, .def_ _ _ :: items, msgs => GoodItems fac descs items msgs
  | descs, .data r :: items, msgs =>
    ∃ rs rds msgs',
      InterpAll fac r.num r.arch (cvFs r.fields) rs ∧
      TsAgreeAll (fac.create r.num fieldNumTimestamp).known r.arch r.fields rs ∧
      InterpDevs (descsAfter descs r.num (fieldsOfRec fac r rs)) r.arch (cvDs r.devs) rds ∧
      msgs = ⟨r.header, r.num, fieldsOfRec fac r rs, rds.filterMap id⟩ :: msgs' ∧
      GoodItems fac (descsAfter descs r.num (fieldsOfRec fac r rs)) items msgs'

end Fit.E2E
