import FitProps.Go2LeanBasetypeNames
/-!
# C19 — tie of the base type names to the source by translation

`BaseType.String()` and `basetype.FromString` (the CSV writer prints the one, the CSV reader parses with the other) are
translated from the CURRENT source of profile/basetype/basetype.go on every run; they are inverse to each other on the 17
names of the CSV model's table, `FromString` is 255 on every other string and `String()` is `invalid(N)` on every other byte.

PROPERTY THEOREMS (audited by ./check): C19_go2lean_names, C19_go2lean_fromString_other, C19_go2lean_string_other
-/
namespace Fit.C19
open Fit.Go2Lean

theorem C19_go2lean_names : ∀ p ∈ Fit.Gen.Csv.baseTypeNames,
    Go.basetype.BaseType.String_ p.1 = p.2 ∧ Go.basetype.FromString p.2 = p.1 := bt_names

theorem C19_go2lean_fromString_other (s : String) (h : ∀ p ∈ Fit.Gen.Csv.baseTypeNames, p.2 ≠ s) :
    Go.basetype.FromString s = 255 := bt_fromString_other s h

theorem C19_go2lean_string_other : ∀ t < 256, (Fit.Gen.Csv.baseTypeNames.lookup t).isNone →
    Go.basetype.BaseType.String_ t = "invalid(" ++ toString t ++ ")" := bt_string_other

end Fit.C19
