import FitProps.LinkLemmasInteg
import FitProps.LinkLemmasDefs
/-!
LINK (A) ↔ (D): the wire-level decoder of `FitModel/Wire.lean` (C01) against the reader-client model `FitModel/DecProg.lean`
on the exact-n reader, in the common form `WEv`: the two agree on EVERY byte list — events, error class (the invalid base
type of a field description a developer field refers to included: both keep the field descriptions of the sequence).
-/
set_option linter.unusedSimpArgs false
set_option linter.unusedVariables false

namespace Fit.Link
open Fit.ReadBuffer Fit.Crc

def tripWF (f : Wire.FieldDef) : DecProg.Triplet := (f.num, f.size, f.bt)
def tripWD (f : Wire.DevDef) : DecProg.Triplet := (f.num, f.size, f.idx)
def defOfW (d : Wire.MesgDef) : DecProg.Def := ⟨d.arch, d.mesgNum, d.fields.map tripWF, d.devs.map tripWD⟩

/-- what (D) collects for the fields (A) takes: number and bytes of those of non-zero size -/
def payloadOf (fs : List (Wire.FieldDef × List Nat)) : List (Nat × List Nat) :=
  (fs.filter fun p => p.1.size != 0).map fun p => (p.1.num, p.2)

/-- `st'` is `st` after reading the prefix of `rest` that ends where `rest'` begins -/
def AdvW (chk : Bool) (st st' : DecProg.St) (rest rest' : List Nat) : Prop :=
  ∃ c, rest = c ++ rest' ∧ st'.cur = st.cur + c.length ∧ st'.crc = (if chk then write st.crc c else st.crc)

theorem AdvW.refl (chk : Bool) (st : DecProg.St) (rest : List Nat) : AdvW chk st st rest rest :=
  ⟨[], rfl, rfl, by cases chk <;> simp [write]⟩

theorem AdvW.trans {chk : Bool} {a b c : DecProg.St} {r1 r2 r3 : List Nat} (h1 : AdvW chk a b r1 r2) (h2 : AdvW chk b c r2 r3) :
    AdvW chk a c r1 r3 := by
  obtain ⟨c1, e1, n1, k1⟩ := h1
  obtain ⟨c2, e2, n2, k2⟩ := h2
  refine ⟨c1 ++ c2, by rw [e1, e2, List.append_assoc], by rw [n2, n1, List.length_append, Nat.add_assoc], ?_⟩
  cases chk
  · simp_all
  · simp only [if_true] at *; rw [k2, k1, Integrity.write_append]

/-- one `rdN` of (D) on the exact-n reader -/
theorem rdN_W {Φ : DecProg.Out → Prop} (chk : Bool) (n : Nat) (st : DecProg.St) (k : Bytes → DecProg.St → DecProg.P) (rest : Bytes)
    (hshort : rest.length < n → ∀ e, Φ (DecProg.fail st (.io e)))
    (hok : n ≤ rest.length → ∀ st', Same st st' → AdvW chk st st' rest (rest.drop n) → Φ (runExact (k (rest.take n) st') (rest.drop n))) :
    Φ (runExact (DecProg.rdN chk n st k) rest) := by
  unfold DecProg.rdN
  by_cases hl : n ≤ rest.length
  · rw [runExact_read_ok _ _ _ hl]
    exact hok hl _ ⟨rfl, rfl, rfl, rfl⟩ ⟨rest.take n, (List.take_append_drop _ _).symm, by simp [Nat.min_eq_left hl], rfl⟩
  · rw [runExact_read_short _ _ _ (by omega)]
    exact hshort (by omega) _

/-- `decodeFields` of (D) against `takeFields` of (A) -/
theorem fieldsW {Φ : DecProg.Out → Prop} (chk : Bool) : ∀ (fds : List Wire.FieldDef) (st : DecProg.St)
    (acc : List (Nat × Bytes)) (k : DecProg.St → List (Nat × Bytes) → DecProg.P) (rest : Bytes),
    (match Wire.takeFields fds rest with
      | .error _ => ∀ st' e, st'.evs = st.evs → Φ (DecProg.fail st' (.io e))
      | .ok (fs, rest') => ∀ st', Same st st' → AdvW chk st st' rest rest' → Φ (runExact (k st' (acc ++ payloadOf fs)) rest')) →
    Φ (runExact (DecProg.fields chk (fds.map tripWF) st acc k) rest)
  | [], st, acc, k, rest, h => by
    simp only [Wire.takeFields] at h
    have := h st (Same.refl _) (AdvW.refl _ _ _)
    simpa [DecProg.fields, payloadOf] using this
  | fd :: fds, st, acc, k, rest, h => by
    simp only [List.map_cons, tripWF, DecProg.fields]
    unfold Wire.takeFields at h
    by_cases hz : fd.size = 0
    · simp only [hz, if_true]
      have hnl : ¬ rest.length < fd.size := by omega
      simp only [hz, Nat.not_lt_zero, if_false, List.drop_zero, List.take_zero] at h
      apply fieldsW chk fds st acc k rest
      cases ht : Wire.takeFields fds rest with
      | error e => rw [ht] at h; exact h
      | ok p =>
        obtain ⟨fs, rest'⟩ := p
        rw [ht] at h
        simp only at h ⊢
        intro st' hs ha
        have := h st' hs ha
        simpa [payloadOf, hz] using this
    · simp only [hz, if_false]
      apply rdN_W
      · intro hl e
        simp only [hl, if_true] at h
        exact h st e rfl
      · intro hl st1 hs1 ha1
        have hnl : ¬ rest.length < fd.size := by omega
        simp only [hnl, if_false] at h
        apply fieldsW chk fds st1 _ k (rest.drop fd.size)
        cases ht : Wire.takeFields fds (rest.drop fd.size) with
        | error e =>
          rw [ht] at h
          simp only at h ⊢
          intro st' e' he; exact h st' e' (he.trans hs1.evs)
        | ok p =>
          obtain ⟨fs, rest'⟩ := p
          rw [ht] at h
          simp only at h ⊢
          intro st' hs ha
          have := h st' (hs1.trans hs) (ha1.trans ha)
          have hne : (fd.size != 0) = true := by simpa using hz
          simpa [payloadOf, hne, List.append_assoc] using this

theorem validBaseTypeW (b : Nat) : Wire.validBaseType b = DecProg.validBaseType b := by
  by_cases h : b < 256
  · have : ∀ b, b < 256 → Wire.validBaseType b = DecProg.validBaseType b := by decide +kernel
    exact this b h
  · have h1 : DecProg.validBaseType b = false := by
      simp only [DecProg.validBaseType, Fit.Gen.Integ.validBaseTypes, List.contains_eq_mem, List.mem_cons, List.not_mem_nil,
        or_false, decide_eq_false_iff_not]
      omega
    have h2 : Wire.validBaseType b = false := by
      simp only [Wire.validBaseType, Bool.or_eq_false_iff, beq_eq_false_iff_ne, ne_eq]
      omega
    rw [h1, h2]

/-- (A)'s and (D)'s reading of a `field_description` message are the same function: the literals of FitModel/Wire.lean
(206; fields 0, 1, 2; 255) are the constants regenerated from the source -/
theorem noteDescW (descs : List DecProg.Triplet) (mesgNum : Nat) (fs : List (Wire.FieldDef × List Nat)) :
    (if mesgNum = Fit.Gen.Integ.mesgNumFieldDescription then
      descs ++ [(DecProg.lastVal (payloadOf fs) Fit.Gen.Integ.fdDeveloperDataIndex,
                 DecProg.lastVal (payloadOf fs) Fit.Gen.Integ.fdFieldDefinitionNumber,
                 DecProg.lastVal (payloadOf fs) Fit.Gen.Integ.fdFitBaseTypeId)]
      else descs) = Wire.noteDesc descs mesgNum fs := rfl

/-- `decodeDeveloperFields` of (D) against `takeDevs` of (A), under the same field descriptions: the same bytes are consumed
and both stop — with the same error class — at a developer field whose field description has an invalid base type -/
theorem devsW {Φ : DecProg.Out → Prop} (chk : Bool) (descs : List DecProg.Triplet) : ∀ (dds : List Wire.DevDef) (st : DecProg.St)
    (acc : List (Nat × Nat × Bytes)) (k : DecProg.St → List (Nat × Nat × Bytes) → DecProg.P) (rest : Bytes),
    (match Wire.takeDevs descs dds rest with
      | .error e => ∀ st' e', st'.evs = st.evs → errAofD e' = e → Φ (DecProg.fail st' e')
      | .ok (ds, rest') => ∀ st' acc', Same st st' → AdvW chk st st' rest rest' → Φ (runExact (k st' acc') rest')) →
    Φ (runExact (DecProg.devFields chk descs (dds.map tripWD) st acc k) rest)
  | [], st, acc, k, rest, h => by
    simp only [Wire.takeDevs] at h
    have := h st acc (Same.refl _) (AdvW.refl _ _ _)
    simpa [DecProg.devFields] using this
  | dd :: dds, st, acc, k, rest, h => by
    simp only [List.map_cons, tripWD, DecProg.devFields]
    unfold Wire.takeDevs at h
    -- reading `dd.size` bytes and going on, whatever is collected
    have hread : Wire.descInvalid descs dd = false → ∀ (g : Bytes → List (Nat × Nat × Bytes)),
        Φ (runExact (DecProg.rdN chk dd.size st fun b st => DecProg.devFields chk descs (dds.map tripWD) st (g b) k) rest) := by
      intro hdi g
      simp only [hdi, Bool.false_eq_true, if_false] at h
      apply rdN_W
      · intro hl e
        simp only [hl, if_true] at h
        exact h st (.io e) rfl rfl
      · intro hl st1 hs1 ha1
        have hnl : ¬ rest.length < dd.size := by omega
        simp only [hnl, if_false] at h
        apply devsW chk descs dds st1 _ k (rest.drop dd.size)
        cases ht : Wire.takeDevs descs dds (rest.drop dd.size) with
        | error e =>
          rw [ht] at h
          simp only at h ⊢
          intro st' e' he hee; exact h st' e' (he.trans hs1.evs) hee
        | ok p =>
          obtain ⟨ds, rest'⟩ := p
          rw [ht] at h
          simp only at h ⊢
          intro st' acc' hs ha
          exact h st' acc' (hs1.trans hs) (ha1.trans ha)
    cases hf : descs.find? fun d => d.1 = dd.idx ∧ d.2.1 = dd.num with
    | none =>
      have hdi : Wire.descInvalid descs dd = false := by simp only [Wire.descInvalid, Wire.findDesc, hf]
      exact hread hdi (fun _ => acc)
    | some d =>
      simp only
      by_cases hv : (!DecProg.validBaseType d.2.2) = true
      · have hdi : Wire.descInvalid descs dd = true := by
          simp only [Wire.descInvalid, Wire.findDesc, hf, validBaseTypeW, hv]
        simp only [hdi, if_true] at h
        simp only [hv, if_true, runExact]
        exact h st .invalidBaseType rfl rfl
      · have hdi : Wire.descInvalid descs dd = false := by
          simp only [Wire.descInvalid, Wire.findDesc, hf, validBaseTypeW]; simpa using hv
        simp only [hv, Bool.false_eq_true, if_false]
        by_cases hz : dd.size = 0
        · simp only [hz, if_true]
          simp only [hdi, Bool.false_eq_true, if_false, hz, Nat.not_lt_zero, List.drop_zero, List.take_zero] at h
          apply devsW chk descs dds st acc k rest
          cases ht : Wire.takeDevs descs dds rest with
          | error e => rw [ht] at h; exact h
          | ok p =>
            obtain ⟨ds, rest'⟩ := p
            rw [ht] at h
            exact h
        · simp only [hz, if_false]
          exact hread hdi (fun b => acc ++ [(dd.num, dd.idx, b)])

/-! ### definitions -/

def fdOfT (t : DecProg.Triplet) : Wire.FieldDef := ⟨t.1, t.2.1, t.2.2⟩
def ddOfT (t : DecProg.Triplet) : Wire.DevDef := ⟨t.1, t.2.1, t.2.2⟩

theorem parseFieldDefsW : ∀ (n : Nat) (bs : Bytes),
    Wire.parseFieldDefs n bs = if n * 3 ≤ bs.length then .ok ((DecProg.triplets (bs.take (n * 3))).map fdOfT, bs.drop (n * 3)) else .error .eof
  | 0, bs => by simp [Wire.parseFieldDefs, DecProg.triplets]
  | n + 1, [] => by simp [Wire.parseFieldDefs]
  | n + 1, [_] => by simp [Wire.parseFieldDefs]; omega
  | n + 1, [_, _] => by simp [Wire.parseFieldDefs]; omega
  | n + 1, a :: b :: c :: bs => by
    unfold Wire.parseFieldDefs
    rw [parseFieldDefsW n bs]
    have e : (n + 1) * 3 = n * 3 + 3 := by omega
    by_cases hl : n * 3 ≤ bs.length
    · have hl' : (n + 1) * 3 ≤ (a :: b :: c :: bs).length := by simp; omega
      simp only [hl, hl', if_true, e]
      simp [DecProg.triplets, fdOfT, List.take_succ_cons, List.drop_succ_cons, hl]
    · have hl' : ¬ (n + 1) * 3 ≤ (a :: b :: c :: bs).length := by simp; omega
      simp only [hl, hl', if_false]

theorem parseDevDefsW : ∀ (n : Nat) (bs : Bytes),
    Wire.parseDevDefs n bs = if n * 3 ≤ bs.length then .ok ((DecProg.triplets (bs.take (n * 3))).map ddOfT, bs.drop (n * 3)) else .error .eof
  | 0, bs => by simp [Wire.parseDevDefs, DecProg.triplets]
  | n + 1, [] => by simp [Wire.parseDevDefs]
  | n + 1, [_] => by simp [Wire.parseDevDefs]; omega
  | n + 1, [_, _] => by simp [Wire.parseDevDefs]; omega
  | n + 1, a :: b :: c :: bs => by
    unfold Wire.parseDevDefs
    rw [parseDevDefsW n bs]
    have e : (n + 1) * 3 = n * 3 + 3 := by omega
    by_cases hl : n * 3 ≤ bs.length
    · have hl' : (n + 1) * 3 ≤ (a :: b :: c :: bs).length := by simp; omega
      simp only [hl, hl', if_true, e]
      simp [DecProg.triplets, ddOfT, List.take_succ_cons, List.drop_succ_cons, hl]
    · have hl' : ¬ (n + 1) * 3 ≤ (a :: b :: c :: bs).length := by simp; omega
      simp only [hl, hl', if_false]

theorem tripWF_fdOfT (l : List DecProg.Triplet) : (l.map fdOfT).map tripWF = l := by
  induction l with
  | nil => rfl
  | cons a t ih => simp only [List.map_cons, ih]; rfl

theorem tripWD_ddOfT (l : List DecProg.Triplet) : (l.map ddOfT).map tripWD = l := by
  induction l with
  | nil => rfl
  | cons a t ih => simp only [List.map_cons, ih]; rfl

/-- the states of (D) and (A) agree on the live definitions, and the events (D) has reported so far are `seen` -/
structure RelW (st : DecProg.St) (s : Wire.DecState) (seen : List WEv) : Prop where
  defs : st.defs = s.defs.map (fun p => (p.1, defOfW p.2))
  descs : st.descs = s.descs
  evs : st.evs.reverse.map wevOfD = seen

theorem lookupW {st : DecProg.St} {s : Wire.DecState} {seen : List WEv} (h : RelW st s seen) (i : Nat) :
    st.lookup i = (s.lookup i).map defOfW := by
  unfold DecProg.St.lookup Wire.DecState.lookup
  rw [h.defs, List.find?_map]
  simp only [Option.map_map]
  congr 1

theorem takeFields_err : ∀ (fds : List Wire.FieldDef) (bs : Bytes) (e : Wire.Err), Wire.takeFields fds bs = .error e → e = .eof
  | [], bs, e, h => by simp [Wire.takeFields] at h
  | fd :: fds, bs, e, h => by
    unfold Wire.takeFields at h
    split at h
    · cases h; rfl
    · cases ht : Wire.takeFields fds (bs.drop fd.size) with
      | error e' => rw [ht] at h; simp only at h; cases h; exact takeFields_err fds _ _ ht
      | ok p => rw [ht] at h; simp at h

theorem trackTs_descs (known : Bool) (arch : Nat) (st : Wire.DecState) (fs : List (Wire.FieldDef × Bytes)) :
    (Wire.trackTs known arch st fs).descs = st.descs := by
  unfold Wire.trackTs
  induction fs generalizing st with
  | nil => rfl
  | cons p fs ih =>
    simp only [List.foldl_cons]
    rw [ih]
    split
    · split <;> rfl
    · rfl

theorem trackTs_defs (known : Bool) (arch : Nat) (st : Wire.DecState) (fs : List (Wire.FieldDef × Bytes)) :
    (Wire.trackTs known arch st fs).defs = st.defs := by
  unfold Wire.trackTs
  induction fs generalizing st with
  | nil => rfl
  | cons p fs ih =>
    simp only [List.foldl_cons]
    rw [ih]
    split
    · split <;> rfl
    · rfl

theorem AdvW.len {chk : Bool} {st st' : DecProg.St} {rest rest' : List Nat} (h : AdvW chk st st' rest rest') :
    rest'.length ≤ rest.length := by
  obtain ⟨c, e, _, _⟩ := h
  rw [e, List.length_append]; omega

/-- **one record**: `decodeMessage` of (D) on the exact-n reader against `decodeRecord` of (A) -/
theorem recordW {Φ : DecProg.Out → Prop} (tsKnown : Nat → Bool) (chk : Bool) (st : DecProg.St) (s : Wire.DecState)
    (seen : List WEv) (k : DecProg.St → DecProg.P) (rest : Bytes) (hrel : RelW st s seen)
    (h : match Wire.decodeRecord tsKnown s rest with
      | .error e => ∀ st' e', st'.evs = st.evs → errAofD e' = e → Φ (DecProg.fail st' e')
      | .ok (it, s', rest') => ∀ st', RelW st' s' (seen ++ [wevOfA (.item it)]) → AdvW chk st st' rest rest' →
          rest'.length < rest.length → Φ (runExact (k st') rest')) :
    Φ (runExact (DecProg.message chk st k) rest) := by
  unfold DecProg.message
  apply rdN_W
  · intro hl e
    have : rest = [] := List.eq_nil_of_length_eq_zero (by omega)
    subst this
    simp only [Wire.decodeRecord] at h
    exact h st (.io e) rfl rfl
  · intro hl st1 hs1 ha1
    match rest, hl with
    | hb :: bs, _ =>
    dsimp only
    generalize hy : (List.take 1 (hb :: bs)).headD 0 = y
    have hyx : hb = y := by rw [← hy]; rfl
    subst hyx
    have hd1 : List.drop 1 (hb :: bs) = bs := rfl
    rw [hd1] at ha1 ⊢
    unfold Wire.decodeRecord at h
    have hmask : (hb &&& (Fit.Gen.Integ.mesgCompressedHeaderMask ||| Fit.Gen.Integ.mesgDefinitionMask) = Fit.Gen.Integ.mesgDefinitionMask) ↔
        ((hb &&& 0xC0 == 0x40) = true) := by
      simp only [beq_iff_eq]; exact Iff.rfl
    by_cases hdef : (hb &&& 0xC0 == 0x40) = true
    · -- definition record
      rw [if_pos (hmask.mpr hdef)]
      simp only [hdef, if_true] at h
      unfold DecProg.definition
      have hshort : ∀ (kk : Bytes → DecProg.St → DecProg.P) (l : Bytes), l.length < 5 →
          (∀ (st' : DecProg.St) (e' : DecProg.Err), st'.evs = st.evs → errAofD e' = Wire.Err.eof → Φ (DecProg.fail st' e')) →
          Φ (runExact (DecProg.rdN chk 5 st1 kk) l) := by
        intro kk l hl5 h'
        apply rdN_W
        · intro _ e; exact h' st1 (.io e) hs1.evs rfl
        · intro hc; omega
      rcases bs with _ | ⟨res, _ | ⟨arch, _ | ⟨m0, _ | ⟨m1, _ | ⟨n, bs1⟩⟩⟩⟩⟩
      · exact hshort _ _ (by simp) (by simpa using h)
      · exact hshort _ _ (by simp) (by simpa using h)
      · exact hshort _ _ (by simp) (by simpa using h)
      · exact hshort _ _ (by simp) (by simpa using h)
      · exact hshort _ _ (by simp) (by simpa using h)
      · simp only at h
        apply rdN_W
        · intro hc; simp at hc; omega
        · intro _ st2 hs2 ha2
          have hd5 : List.drop 5 (res :: arch :: m0 :: m1 :: n :: bs1) = bs1 := rfl
          rw [hd5] at ha2 ⊢
          dsimp only
          generalize hga : (List.drop 1 (List.take 5 (res :: arch :: m0 :: m1 :: n :: bs1))).headD 0 = ga
          have ega : arch = ga := by rw [← hga]; rfl
          subst ega
          generalize hgn : (List.drop 4 (List.take 5 (res :: arch :: m0 :: m1 :: n :: bs1))).headD 0 = gn
          have egn : n = gn := by rw [← hgn]; rfl
          subst egn
          generalize hgm : (if arch = Fit.Gen.Integ.littleEndian then DecProg.le16 (List.drop 2 (List.take 5 (res :: arch :: m0 :: m1 :: n :: bs1)))
            else DecProg.be16 (List.drop 2 (List.take 5 (res :: arch :: m0 :: m1 :: n :: bs1)))) = gm
          have egm : (if arch = 0 then m0 + 256 * m1 else m1 + 256 * m0) = gm := by
            rw [← hgm]
            by_cases ha0 : arch = 0
            · have : arch = Fit.Gen.Integ.littleEndian := ha0
              simp only [ha0, this, if_true]; rfl
            · have : ¬ arch = Fit.Gen.Integ.littleEndian := ha0
              simp only [ha0, this, if_false]
              show m1 + 256 * m0 = 256 * m0 + m1
              omega
          generalize (if arch = 0 then m0 + 256 * m1 else m1 + 256 * m0) = mesgNum at h egm
          subst egm
          have hs02 : Same st st2 := hs1.trans hs2
          have ha02 : AdvW chk st st2 (hb :: res :: arch :: m0 :: m1 :: n :: bs1) bs1 := ha1.trans ha2
          -- the common last step
          have finish : ∀ (stl : DecProg.St) (ft dt : List DecProg.Triplet) (r : Bytes), Same st stl →
              AdvW chk st stl (hb :: res :: arch :: m0 :: m1 :: n :: bs1) r → r.length ≤ bs1.length →
              (∀ st', RelW st' { s with defs := (hb &&& 15, ⟨hb, arch, mesgNum, ft.map fdOfT, dt.map ddOfT⟩) :: s.defs }
                  (seen ++ [wevOfA (.item (.def_ (hb &&& 15) ⟨hb, arch, mesgNum, ft.map fdOfT, dt.map ddOfT⟩))]) →
                AdvW chk st st' (hb :: res :: arch :: m0 :: m1 :: n :: bs1) r →
                r.length < (hb :: res :: arch :: m0 :: m1 :: n :: bs1).length → Φ (runExact (k st') r)) →
              Φ (runExact (k { stl with defs := (hb &&& Fit.Gen.Integ.localMesgNumMask, ⟨arch, mesgNum, ft, dt⟩) :: stl.defs,
                                        evs := DecProg.Ev.def_ hb arch mesgNum ft dt :: stl.evs }) r) := by
            intro stl ft dt r hsl hal hrl hk
            refine hk _ ?_ ?_ (by simp only [List.length_cons]; omega)
            · constructor
              · simp only [List.map_cons, defOfW, tripWF_fdOfT, tripWD_ddOfT]
                rw [hsl.defs, hrel.defs]; rfl
              · show stl.descs = s.descs
                rw [hsl.descs, hrel.descs]
              · simp only [List.reverse_cons, List.map_append, List.map_cons, List.map_nil]
                rw [hsl.evs, hrel.evs]
                have e1 : ∀ l : List DecProg.Triplet, List.map ((fun f : Wire.FieldDef => (f.num, f.size, f.bt)) ∘ fdOfT) l = l := by
                  intro l; induction l with
                  | nil => rfl
                  | cons a t ih => simp only [List.map_cons, ih]; rfl
                have e2 : ∀ l : List DecProg.Triplet, List.map ((fun f : Wire.DevDef => (f.num, f.size, f.idx)) ∘ ddOfT) l = l := by
                  intro l; induction l with
                  | nil => rfl
                  | cons a t ih => simp only [List.map_cons, ih]; rfl
                simp [wevOfA, wevOfD, List.map_map, e1, e2]
            · obtain ⟨c, e1, e2, e3⟩ := hal
              exact ⟨c, e1, e2, e3⟩
          rw [parseFieldDefsW] at h
          apply rdN_W
          · intro hl2 e
            have hn2 : ¬ n * 3 ≤ bs1.length := by omega
            simp only [hn2, if_false] at h
            exact h st2 (.io e) hs02.evs rfl
          · intro hl2 st3 hs3 ha3
            simp only [hl2, if_true] at h
            have hs03 := hs02.trans hs3
            have ha03 := ha02.trans ha3
            have hany : ((DecProg.triplets (bs1.take (n * 3))).map fdOfT).any (fun f => !Wire.validBaseType f.bt) =
                (DecProg.triplets (bs1.take (n * 3))).any (fun t => !DecProg.validBaseType t.2.2) := by
              rw [List.any_map]; congr 1; funext t; simp [fdOfT, validBaseTypeW, Function.comp]
            rw [hany] at h
            by_cases hv : ((DecProg.triplets (bs1.take (n * 3))).any fun t => !DecProg.validBaseType t.2.2) = true
            · simp only [hv, if_true] at h ⊢
              exact h st3 .invalidBaseType hs03.evs rfl
            · simp only [hv, Bool.false_eq_true, if_false] at h ⊢
              have hdm : (hb &&& Fit.Gen.Integ.devDataMask = Fit.Gen.Integ.devDataMask) ↔ ((hb &&& 32 == 32) = true) := by
                simp only [beq_iff_eq]; exact Iff.rfl
              by_cases hdev : (hb &&& 32 == 32) = true
              · rw [if_pos (hdm.mpr hdev)]
                simp only [hdev, if_true] at h
                generalize hbs2 : List.drop (n * 3) bs1 = bs2 at h ha3 ha03 ⊢
                cases bs2 with
                | nil =>
                  simp only at h
                  apply rdN_W
                  · intro _ e; exact h st3 (.io e) hs03.evs rfl
                  · intro hc; simp at hc
                | cons kk bs3 =>
                  simp only at h
                  rw [parseDevDefsW] at h
                  apply rdN_W
                  · intro hc; simp at hc
                  · intro _ st4 hs4 ha4
                    have hd1' : List.drop 1 (kk :: bs3) = bs3 := rfl
                    rw [hd1'] at ha4 ⊢
                    generalize hgk : (List.take 1 (kk :: bs3)).headD 0 = gk
                    have egk : kk = gk := by rw [← hgk]; rfl
                    subst egk
                    have hs04 := hs03.trans hs4
                    have ha04 := ha03.trans ha4
                    apply rdN_W
                    · intro hl4 e
                      have hn4 : ¬ kk * 3 ≤ bs3.length := by omega
                      simp only [hn4, if_false] at h
                      exact h st4 (.io e) hs04.evs rfl
                    · intro hl4 st5 hs5 ha5
                      simp only [hl4, if_true] at h
                      exact finish st5 (DecProg.triplets (bs1.take (n * 3))) (DecProg.triplets (bs3.take (kk * 3))) _
                        (hs04.trans hs5) (ha04.trans ha5) ((ha3.trans ha4).trans ha5).len h
              · rw [if_neg (fun hc => hdev (hdm.mp hc))]
                simp only [hdev, Bool.false_eq_true, if_false] at h
                have := finish st3 (DecProg.triplets (bs1.take (n * 3))) [] _ hs03 ha03 ha3.len (by simpa using h)
                simpa using this
    · -- data record
      rw [if_neg (fun hc => hdef (hmask.mp hc))]
      simp only [hdef, Bool.false_eq_true, if_false] at h
      unfold DecProg.data
      simp only
      have hloc : ((if hb &&& Fit.Gen.Integ.mesgCompressedHeaderMask = Fit.Gen.Integ.mesgCompressedHeaderMask
            then (hb &&& Fit.Gen.Integ.compressedLocalMesgNumMask) >>> Fit.Gen.Integ.compressedBitShift else hb) &&&
            Fit.Gen.Integ.localMesgNumMask) =
          ((if (hb &&& 0x80 == 0x80) = true then (hb &&& 0x60) >>> 5 else hb) &&& 0xF) := by
        by_cases hc : hb &&& 0x80 = 0x80
        · have hc' : hb &&& Fit.Gen.Integ.mesgCompressedHeaderMask = Fit.Gen.Integ.mesgCompressedHeaderMask := hc
          simp only [hc', if_true, hc, beq_self_eq_true]; rfl
        · have hc' : ¬ (hb &&& Fit.Gen.Integ.mesgCompressedHeaderMask = Fit.Gen.Integ.mesgCompressedHeaderMask) := hc
          have : (hb &&& 0x80 == 0x80) = false := by simpa using hc
          simp only [hc', if_false, this, Bool.false_eq_true]; rfl
      rw [hloc]
      have hrel1 : RelW st1 s seen := ⟨by rw [hs1.defs]; exact hrel.defs, by rw [hs1.descs]; exact hrel.descs, by rw [hs1.evs]; exact hrel.evs⟩
      rw [lookupW hrel1]
      cases hlk : s.lookup ((if (hb &&& 0x80 == 0x80) = true then (hb &&& 0x60) >>> 5 else hb) &&& 0xF) with
      | none =>
        rw [hlk] at h
        simp only [Option.map_none, runExact] at h ⊢
        exact h st1 .defMissing hs1.evs rfl
      | some d =>
        rw [hlk] at h
        simp only [Option.map_some, defOfW] at h ⊢
        apply fieldsW chk d.fields st1 [] _ bs
        generalize hs0 : (if (hb &&& 0x80 == 0x80) = true then
            (match Wire.decompressHdr s hb with | (s', t) => (s', some t)) else (s, none)) = s0ts at h
        have hs0d : s0ts.1.defs = s.defs ∧ s0ts.1.descs = s.descs := by
          rw [← hs0]; split <;> exact ⟨rfl, rfl⟩
        obtain ⟨s1', ts⟩ := s0ts
        simp only at h hs0d
        cases htf : Wire.takeFields d.fields bs with
        | error e =>
          rw [htf] at h
          simp only at h ⊢
          have := takeFields_err _ _ _ htf
          subst this
          intro st' e' he
          exact h st' (.io e') (he.trans hs1.evs) rfl
        | ok p =>
          obtain ⟨fs, bs1⟩ := p
          rw [htf] at h
          simp only [List.nil_append] at h ⊢
          intro st2 hs2 ha2
          have hdescs : st2.descs = (Wire.trackTs (tsKnown d.mesgNum) d.arch s1' fs).descs := by
            rw [hs2.descs, hs1.descs, hrel.descs, trackTs_descs, hs0d.2]
          rw [noteDescW, hdescs]
          refine devsW chk _ d.devs _ [] _ bs1 ?_
          cases htd : Wire.takeDevs (Wire.noteDesc (Wire.trackTs (tsKnown d.mesgNum) d.arch s1' fs).descs d.mesgNum fs) d.devs bs1 with
          | error e =>
            rw [htd] at h
            simp only at h ⊢
            intro st' e' he hee
            exact h st' e' (he.trans (hs2.evs.trans hs1.evs)) hee
          | ok q =>
            obtain ⟨ds, bs2⟩ := q
            rw [htd] at h
            simp only [List.nil_append] at h ⊢
            intro st3 acc3 hs3 ha3
            apply h
            · constructor
              · simp only
                rw [hs3.defs]
                simp only
                rw [hs2.defs, hs1.defs, hrel.defs, trackTs_defs, hs0d.1]
              · simp only
                rw [hs3.descs]
              · simp only [List.reverse_cons, List.map_append, List.map_cons, List.map_nil]
                rw [hs3.evs]
                simp only
                rw [hs2.evs, hs1.evs, hrel.evs]
                rfl
            · exact (ha1.trans ha2).trans (by
                obtain ⟨c, e1, e2, e3⟩ := ha3
                exact ⟨c, e1, by simpa using e2, by simpa using e3⟩)
            · have h1 := ha2.len
              have h2 := ha3.len
              simp only [List.length_cons]; omega

def itemsW (items : List Wire.Item) : List WEv := items.map fun it => wevOfA (.item it)

/-- **the record loop**: `decodeMessages` of (D) against `decodeRecords` of (A) -/
theorem recordsW {Φ : DecProg.Out → Prop} (tsKnown : Nat → Bool) (chk : Bool) (ds : Nat) (k : DecProg.St → DecProg.P) :
    ∀ (fuelA fuelD : Nat) (st : DecProg.St) (s : Wire.DecState) (seen : List WEv) (bs : Bytes) (remaining : Nat),
    RelW st s seen → bs.length ≤ fuelA → ds ≤ st.cur + fuelD → remaining = ds - st.cur →
    (match Wire.decodeRecords tsKnown fuelA s remaining bs with
      | (items, .error e) => ∀ st' e', st'.evs.reverse.map wevOfD = seen ++ itemsW items → errAofD e' = e → Φ (DecProg.fail st' e')
      | (items, .ok rest') => ∀ st', st'.evs.reverse.map wevOfD = seen ++ itemsW items → AdvW chk st st' bs rest' →
          Φ (runExact (k st') rest')) →
    Φ (runExact (DecProg.messages chk ds fuelD st k) bs) := by
  intro fuelA
  induction fuelA with
  | zero =>
    intro fuelD st s seen bs remaining hrel hfa hfd hrem h
    have hbs : bs = [] := List.eq_nil_of_length_eq_zero (by omega)
    subst hbs
    unfold Wire.decodeRecords at h
    by_cases hlt : st.cur < ds
    · have hr : ¬ remaining = 0 := by omega
      simp only [hr, if_false] at h
      obtain ⟨f, rfl⟩ : ∃ f, fuelD = f + 1 := ⟨fuelD - 1, by omega⟩
      unfold DecProg.messages DecProg.message
      simp only [hlt, if_true]
      apply rdN_W
      · intro _ e; exact h st (.io e) (by simp [itemsW, hrel.evs]) rfl
      · intro hc; simp at hc
    · have hr : remaining = 0 := by omega
      simp only [hr, if_true] at h
      have := h st (by simp [itemsW, hrel.evs]) (AdvW.refl _ _ _)
      cases fuelD with
      | zero => simpa [DecProg.messages] using this
      | succ f => simpa [DecProg.messages, hlt] using this
  | succ fuelA ih =>
    intro fuelD st s seen bs remaining hrel hfa hfd hrem h
    unfold Wire.decodeRecords at h
    by_cases hlt : st.cur < ds
    · have hr : ¬ remaining = 0 := by omega
      simp only [hr, if_false] at h
      obtain ⟨f, rfl⟩ : ∃ f, fuelD = f + 1 := ⟨fuelD - 1, by omega⟩
      unfold DecProg.messages
      simp only [hlt, if_true]
      apply recordW tsKnown chk st s seen _ bs hrel
      cases hd : Wire.decodeRecord tsKnown s bs with
      | error e =>
        rw [hd] at h
        simp only at h ⊢
        intro st' e' he hee
        exact h st' e' (by rw [he]; simp [itemsW, hrel.evs]) hee
      | ok p =>
        obtain ⟨it, s', rest⟩ := p
        rw [hd] at h
        simp only at h ⊢
        intro st' hrel' ha hlen
        obtain ⟨c, hc1, hc2, hc3⟩ := ha
        have hcl : bs.length - rest.length = c.length := by rw [hc1, List.length_append]; omega
        apply ih f st' s' (seen ++ [wevOfA (.item it)]) rest (remaining - (bs.length - rest.length)) hrel' (by omega)
          (by rw [hc2]; rw [hc1, List.length_append] at hlen; omega) (by rw [hcl, hc2, hrem]; omega)
        rcases hdr : Wire.decodeRecords tsKnown fuelA s' (remaining - (bs.length - rest.length)) rest with ⟨its, r⟩
        rw [hdr] at h
        simp only at h ⊢
        cases r with
        | error e =>
          simp only at h ⊢
          intro st2 e' he hee
          exact h st2 e' (by rw [he]; simp [itemsW, List.append_assoc]) hee
        | ok rest2 =>
          simp only at h ⊢
          intro st2 he ha2
          exact h st2 (by rw [he]; simp [itemsW, List.append_assoc]) (AdvW.trans ⟨c, hc1, hc2, hc3⟩ ha2)
    · have hr : remaining = 0 := by omega
      simp only [hr, if_true] at h
      have := h st (by simp [itemsW, hrel.evs]) (AdvW.refl _ _ _)
      cases fuelD with
      | zero => simpa [DecProg.messages] using this
      | succ f => simpa [DecProg.messages, hlt] using this

/-! ### file header -/

def errAB : Integrity.Err → Wire.Err
  | .eof => .eof
  | .notFit => .notFit
  | .crc => .crcMismatch
  | .defMissing => .defMissing
  | .invalidBaseType => .invalidBaseType

theorem errAofD_eq (e : DecProg.Err) : errAofD e = errAB (errB e) := by cases e <;> rfl

theorem len11W {l : List Nat} (h : l.length = 11) : ∃ a0 a1 a2 a3 a4 a5 a6 a7 a8 a9 a10, l = [a0, a1, a2, a3, a4, a5, a6, a7, a8, a9, a10] := by
  match l, h with
  | [a0, a1, a2, a3, a4, a5, a6, a7, a8, a9, a10], _ => exact ⟨a0, a1, a2, a3, a4, a5, a6, a7, a8, a9, a10, rfl⟩

theorem len13W {l : List Nat} (h : l.length = 13) : ∃ a0 a1 a2 a3 a4 a5 a6 a7 a8 a9 a10 a11 a12, l = [a0, a1, a2, a3, a4, a5, a6, a7, a8, a9, a10, a11, a12] := by
  match l, h with
  | [a0, a1, a2, a3, a4, a5, a6, a7, a8, a9, a10, a11, a12], _ => exact ⟨a0, a1, a2, a3, a4, a5, a6, a7, a8, a9, a10, a11, a12, rfl⟩

/-- the header (A) keeps, from (B)'s header and the header bytes -/
def hdrW (h : Integrity.Hdr) (bs : List Nat) : Wire.DecHdr :=
  ⟨h.size, ((bs.drop 1).take (h.size - 1)).headD 0, DecProg.le16 (((bs.drop 1).take (h.size - 1)).drop 1), h.dataSize, h.crc⟩

theorem le32_getD (b : List Nat) (h : 7 ≤ b.length) :
    b.getD 3 0 + 256 * b.getD 4 0 + 65536 * b.getD 5 0 + 16777216 * b.getD 6 0 = Integrity.le32 (b.drop 3) := by
  match b, h with
  | _ :: _ :: _ :: _ :: _ :: _ :: _ :: _, _ => rfl

theorem le16_getD11 (b : List Nat) (h : 13 ≤ b.length) : b.getD 11 0 + 256 * b.getD 12 0 = Integrity.le16 (b.drop 11) := by
  match b, h with
  | _ :: _ :: _ :: _ :: _ :: _ :: _ :: _ :: _ :: _ :: _ :: _ :: _ :: _, _ => rfl

theorem pv_getD (b : List Nat) (h : 3 ≤ b.length) :
    b.getD 0 0 = b.headD 0 ∧ b.getD 1 0 + 256 * b.getD 2 0 = DecProg.le16 (b.drop 1) := by
  match b, h with
  | _ :: _ :: _ :: _, _ => exact ⟨rfl, rfl⟩

/-- `decodeHeader` of (A) is (B)'s `decodeFileHeader` -/
theorem headerW (chk : Bool) (bs : List Nat) :
    Wire.decodeHeader chk bs = match Integrity.decodeFileHeader chk bs with
      | .ok (h, rest) => .ok (hdrW h bs, rest)
      | .error e => .error (errAB e) := by
  cases bs with
  | nil => rfl
  | cons size rest =>
    unfold Wire.decodeHeader
    by_cases hsz : size ≠ 12 ∧ size ≠ 14
    · have : (size != 12 && size != 14) = true := by simp [hsz.1, hsz.2]
      simp [this, Integrity.decodeFileHeader, hsz, errAB]
    have hsz' : size = 12 ∨ size = 14 := by omega
    have hb1 : (size != 12 && size != 14) = false := by rcases hsz' with h | h <;> subst h <;> rfl
    simp only [hb1, Bool.false_eq_true, if_false]
    by_cases hl : size - 1 ≤ rest.length
    · have hnl : ¬ rest.length < size - 1 := by omega
      simp only [hnl, if_false]
      have hblen : (List.take (size - 1) rest).length = size - 1 := by simp; omega
      have hB := hdrB_cons chk size rest hsz hl
      have hhdr : ∀ d c, hdrW ⟨size, d, c⟩ (size :: rest) =
          ⟨size, (List.take (size - 1) rest).headD 0, DecProg.le16 ((List.take (size - 1) rest).drop 1), d, c⟩ := by
        intro d c; simp only [hdrW, List.drop_succ_cons, List.drop_zero]
      generalize hb : List.take (size - 1) rest = b at hblen hB hhdr ⊢
      have hpv := pv_getD b (by omega)
      rw [le32_getD b (by omega), hpv.1, hpv.2]
      have htagL : ([0x2E, 0x46, 0x49, 0x54] : List Nat) = Fit.Gen.Integ.dataTypeFIT := rfl
      rw [htagL]
      by_cases htag : List.take 4 (List.drop 7 b) ≠ Fit.Gen.Integ.dataTypeFIT
      · have : (List.take 4 (List.drop 7 b) != Fit.Gen.Integ.dataTypeFIT) = true := by simpa using htag
        simp [this, Integrity.decodeFileHeader, hsz, hasN_true hl, hb, htag, errAB]
      · have htb : (List.take 4 (List.drop 7 b) != Fit.Gen.Integ.dataTypeFIT) = false := by simpa using htag
        simp only [htb, Bool.false_eq_true, if_false]
        by_cases hds : Integrity.le32 (List.drop 3 b) = 0
        · simp [hds, Integrity.decodeFileHeader, hsz, hasN_true hl, hb, htag, errAB]
        · simp only [hds, if_false]
          rw [hB htag hds]
          rcases hsz' with h12 | h14
          · subst h12
            simp [hhdr]
          · subst h14
            simp only [beq_self_eq_true, if_true, le16_getD11 b (by omega)]
            by_cases hc0 : Integrity.le16 (List.drop 11 b) = 0
            · simp [hc0, hhdr]
            · by_cases hchk : chk = true
              · subst hchk
                have hw : write 0 (14 :: List.take 11 b) = write (write 0 [14]) (List.take (14 - 1 - 2) b) := rfl
                rw [hw]
                by_cases hne : write (write 0 [14]) (List.take (14 - 1 - 2) b) ≠ Integrity.le16 (List.drop 11 b)
                · have : (write (write 0 [14]) (List.take (14 - 1 - 2) b) != Integrity.le16 (List.drop 11 b)) = true := by simpa using hne
                  simp [hc0, this, hne, errAB]
                · have : (write (write 0 [14]) (List.take (14 - 1 - 2) b) != Integrity.le16 (List.drop 11 b)) = false := by simpa using hne
                  simp [hc0, this, hne, hhdr]
              · have hchk' : chk = false := by simpa using hchk
                subst hchk'
                simp [hc0, hhdr]
    · have hnl : rest.length < size - 1 := by omega
      simp [hnl, Integrity.decodeFileHeader, hsz, hasN_false' hnl, errAB]

/-! ### the `Next`/`Decode` loop -/

/-- the observable of the run is `R` -/
def QW (R : List WEv × Option Wire.Err) (out : DecProg.Out) : Prop := wireObsD out = R

theorem QW_fail (st : DecProg.St) (e : DecProg.Err) (seen : List WEv) (h : st.evs.reverse.map wevOfD = seen) :
    QW (seen, some (errAofD e)) (DecProg.fail st e) := by
  simp [QW, wireObsD, DecProg.fail, h]

/-- one iteration of (A)'s loop when the header decodes -/
theorem decodeStream_succ (tsKnown : Nat → Bool) (chk : Bool) (fuel : Nat) (first : Bool) (bs : Bytes) (hd : Wire.DecHdr) (rest : Bytes)
    (hA : Wire.decodeHeader chk bs = .ok (hd, rest)) :
    Wire.decodeStream tsKnown chk (fuel + 1) first bs =
      match Wire.decodeRecords tsKnown rest.length Wire.DecState.fresh hd.dataSize rest with
      | (items, .error e) => (items.map .item, some e)
      | (items, .ok rest2) =>
        match rest2 with
        | c0 :: c1 :: rest3 =>
          if (chk && write 0 (rest.take (rest.length - rest2.length)) != c0 + 256 * c1) = true then (items.map .item, some .crcMismatch)
          else (items.map .item ++ [.seq ⟨hd, items, c0 + 256 * c1⟩] ++ (Wire.decodeStream tsKnown chk fuel false rest3).1,
            (Wire.decodeStream tsKnown chk fuel false rest3).2)
        | _ => (items.map .item, some .eof) := by
  conv => lhs; unfold Wire.decodeStream
  have hnone : (!first && (Wire.decodeHeader chk bs).toOption.isNone) = false := by
    rw [hA]; simp [Except.toOption]
  rw [if_neg (by rw [hnone]; simp)]
  unfold Wire.decodeFit
  rw [hA]
  simp only
  rcases Wire.decodeRecords tsKnown rest.length Wire.DecState.fresh hd.dataSize rest with ⟨items, r⟩
  cases r with
  | error e => rfl
  | ok rest2 =>
    simp only
    match rest2 with
    | [] => rfl
    | [_] => rfl
    | c0 :: c1 :: rest3 =>
      simp only
      by_cases hc : (chk && write 0 (List.take (List.length rest - (c0 :: c1 :: rest3).length) rest) != c0 + 256 * c1) = true
      · simp only [hc, if_true]
      · simp only [hc, if_false, Bool.false_eq_true]

/-- **THE LOOP, (A) against (D).** -/
theorem streamW (tsKnown : Nat → Bool) (chk : Bool) : ∀ (fuel : Nat) (first : Bool) (evs : List DecProg.Ev) (bs : Bytes),
    QW ((evs.reverse.map wevOfD) ++ (Wire.decodeStream tsKnown chk fuel first bs).1.map wevOfA,
        (Wire.decodeStream tsKnown chk fuel first bs).2)
      (runExact (DecProg.decodeLoop chk fuel first evs) bs) := by
  intro fuel
  induction fuel with
  | zero =>
    intro first evs bs
    simp [QW, Wire.decodeStream, DecProg.decodeLoop, runExact, wireObsD]
  | succ fuel ih =>
    intro first evs bs
    unfold DecProg.decodeLoop
    have hA := headerW chk bs
    apply fileHeader_wp (Φ := QW _)
    · -- empty stream
      intro hbs
      subst hbs
      cases first <;> simp [QW, Wire.decodeStream, Wire.decodeHeader, Wire.decodeFit, runExact, wireObsD, DecProg.Err.endsIteration, errAofD, Except.toOption]
    · -- the header does not decode
      intro e' r hne he hends
      rw [he] at hA
      simp only at hA
      cases first <;> simp [QW, Wire.decodeStream, Wire.decodeFit, hA, runExact, wireObsD, hends, errAofD_eq, Except.toOption]
    · -- the header decodes
      intro h rest he
      rw [he] at hA
      simp only at hA
      have hAS := decodeStream_succ tsKnown chk fuel first bs _ rest hA
      have hds : (hdrW h bs).dataSize = h.dataSize := rfl
      rw [hds] at hAS
      rcases hdr : Wire.decodeRecords tsKnown rest.length Wire.DecState.fresh h.dataSize rest with ⟨items, r⟩
      rw [hdr] at hAS
      apply recordsW tsKnown chk h.dataSize _ rest.length h.dataSize { evs := evs } Wire.DecState.fresh
        (evs.reverse.map wevOfD) rest h.dataSize ⟨rfl, rfl, rfl⟩ (Nat.le_refl _) (by simp) (by simp)
      rw [hdr]
      cases r with
      | error e =>
        simp only at hAS ⊢
        intro st' e' hev hee
        rw [hAS, ← hee]
        have := QW_fail st' e' _ hev
        simpa [itemsW, List.map_map, Function.comp_def] using this
      | ok rest2 =>
        simp only at hAS ⊢
        intro st' hev ha
        unfold DecProg.fileCrc
        obtain ⟨c, hc1, hc2, hc3⟩ := ha
        have hcons : rest.take (rest.length - rest2.length) = c := by
          rw [hc1, List.length_append, Nat.add_sub_cancel, List.take_left' rfl]
        rw [hcons] at hAS
        match rest2, hAS, hc1 with
        | [], hAS, hc1 =>
          simp only at hAS
          rw [runExact_read_short _ _ _ (by simp), hAS]
          have := QW_fail st' (.io .eof) _ hev
          simpa [itemsW, List.map_map, Function.comp_def, runExact, errAofD] using this
        | [x], hAS, hc1 =>
          simp only at hAS
          rw [runExact_read_short _ _ _ (by simp), hAS]
          have := QW_fail st' (.io .unexpectedEof) _ hev
          simpa [itemsW, List.map_map, Function.comp_def, runExact, errAofD] using this
        | c0 :: c1 :: rest3, hAS, hc1 =>
          simp only at hAS
          rw [runExact_read_ok _ _ _ (by simp)]
          dsimp only
          generalize hgc : DecProg.le16 (List.take 2 (c0 :: c1 :: rest3)) = gc
          have egc : c0 + 256 * c1 = gc := by rw [← hgc]; rfl
          subst egc
          have hd2 : List.drop 2 (c0 :: c1 :: rest3) = rest3 := rfl
          rw [hd2]
          have hcrc : st'.crc = if chk = true then write 0 c else 0 := hc3
          by_cases hbad : chk = true ∧ st'.crc ≠ c0 + 256 * c1
          · rw [if_pos hbad]
            have hb' : (chk && write 0 c != c0 + 256 * c1) = true := by
              rw [hbad.1] at hcrc ⊢
              simp only [if_true] at hcrc
              rw [← hcrc]; simpa using hbad.2
            rw [if_pos hb'] at hAS
            rw [hAS]
            have := QW_fail st' .crc _ hev
            simpa [itemsW, List.map_map, Function.comp_def, runExact, errAofD] using this
          · rw [if_neg hbad]
            have hgood : ¬ (chk && write 0 c != c0 + 256 * c1) = true := by
              cases chk with
              | false => simp
              | true =>
                simp only [if_true] at hcrc
                simp only [true_and, ne_eq, Decidable.not_not] at hbad
                simp [← hcrc, hbad]
            rw [if_neg hgood] at hAS
            rw [hAS]
            have hih := ih false (DecProg.Ev.seq h.size (((bs.drop 1).take (h.size - 1)).headD 0)
              (DecProg.le16 (((bs.drop 1).take (h.size - 1)).drop 1)) h.dataSize h.crc (c0 + 256 * c1) st'.msgs :: st'.evs) rest3
            show wireObsD _ = _
            rw [show wireObsD _ = _ from hih]
            simp [hev, itemsW, List.map_map, Function.comp_def, wevOfD, wevOfA, hdrW, List.append_assoc]

end Fit.Link
