import FitModel.Writer
import FitProps.WriterLemmas
/-!
`EncodeWithContext` (the `…Ctx` functions of FitModel/Writer.lean): with a context that is never cancelled they are the plain
output paths; a cancellation that is observed never lets the call report success, and what the call has done until then is
exactly the plain path on the messages before the cancellation point.
-/
namespace Fit.Writer
open Fit.Wire Fit.Crc

def resOf (b : Bool) : Res := if b then .ok else .err

theorem resOf_ne_ok {b : Bool} : (resOf b != Res.ok) = !b := by cases b <;> rfl

/-! ### a context that is never cancelled -/

theorem encodeMessagesCtx_none (F : Faults) (o : Opts) : ∀ (ms : List WMsg) (e : Enc),
    encodeMessagesCtx F o none e ms = ((encodeMessages F o e ms).1, none, resOf (encodeMessages F o e ms).2)
  | [], _ => rfl
  | m :: ms, e => by
    unfold encodeMessagesCtx encodeMessages
    simp only [Ctx.cancelled, Bool.false_eq_true, if_false]
    by_cases h : (encodeMessage F o e m).2 = true
    · simp only [h, if_true]
      exact encodeMessagesCtx_none F o ms _
    · simp [h, resOf, Ctx.tick]

theorem dryPassCtx_none (o : Opts) : ∀ (ms : List WMsg) (s : EncState) (ds : Nat),
    dryPassCtx o none s ds ms = (none, some (dryPass o s ds ms))
  | [], _, _ => rfl
  | m :: ms, s, ds => by
    unfold dryPassCtx dryPass
    simp only [Ctx.cancelled, Bool.false_eq_true, if_false]
    rw [show Ctx.tick none = none from rfl, dryPassCtx_none o ms]
    rfl

theorem encodeBodyCtx_none (F : Faults) (o : Opts) (e : Enc) (h : Hdr) (ds : Nat) (ms : List WMsg) :
    encodeBodyCtx F o none e h ds ms = ((encodeBody F o e h ds ms).1, none, resOf (encodeBody F o e h ds ms).2) := by
  unfold encodeBodyCtx encodeBody
  by_cases h1 : (encodeFileHeader F e h ds).2 = true
  · simp only [h1, Bool.not_true, Bool.false_eq_true, if_false]
    rw [encodeMessagesCtx_none]
    simp only [resOf_ne_ok]
    by_cases h2 : (encodeMessages F o (encodeFileHeader F e h ds).1 ms).2 = true
    · simp [h2, resOf]
    · simp [h2, resOf]
  · simp [h1, resOf]

theorem encodeDirectCtx_none (F : Faults) (o : Opts) (e : Enc) (h : Hdr) (ds0 : Nat) (ms : List WMsg) :
    encodeDirectCtx F o none e h ds0 ms = ((encodeDirect F o e h ds0 ms).1, none, resOf (encodeDirect F o e h ds0 ms).2) := by
  unfold encodeDirectCtx encodeDirect
  rw [encodeBodyCtx_none]
  simp only [resOf_ne_ok]
  by_cases h1 : (encodeBody F o e h ds0 ms).2 = true
  · simp [h1, resOf]
  · simp [h1, resOf]

theorem encodeEarlyCtx_none (cc : CtxCfg) (F : Faults) (o : Opts) (e : Enc) (h : Hdr) (ms : List WMsg) :
    encodeEarlyCtx cc F o none e h ms = ((encodeEarly F o e h ms).1, none, resOf (encodeEarly F o e h ms).2, false) := by
  unfold encodeEarlyCtx encodeEarly
  rw [dryPassCtx_none]
  simp only
  rw [encodeBodyCtx_none]

theorem encodeCtx_none (cc : CtxCfg) (F : Faults) (o : Opts) (e : Enc) (f : FitIn) :
    encodeCtx cc F o none ⟨e, false⟩ f = (⟨(encode F o e f).1, false⟩, resOf (encode F o e f).2) := by
  unfold encodeCtx encode
  simp only [Bool.false_eq_true, if_false]
  by_cases hk : e.w.kind.direct = true
  · simp only [hk, if_true]
    rw [encodeDirectCtx_none]
    simp only [resOf_ne_ok]
    by_cases h1 : (encodeDirect F o e f.hdr f.ds0 f.msgs).2 = true
    · simp only [h1, Bool.not_true, Bool.false_eq_true, if_false]
      cases hfl : ((encodeDirect F o e f.hdr f.ds0 f.msgs).1.reset o).w.flush F with
      | mk w b => cases b <;> simp [resOf]
    · simp [h1, resOf]
  · simp only [hk, Bool.false_eq_true, if_false]
    rw [encodeEarlyCtx_none]
    simp only [resOf_ne_ok]
    by_cases h1 : (encodeEarly F o e f.hdr f.msgs).2 = true
    · simp only [h1, Bool.not_true, Bool.false_eq_true, if_false]
      cases hfl : ((encodeEarly F o e f.hdr f.msgs).1.reset o).w.flush F with
      | mk w b => cases b <;> simp [resOf]
    · simp [h1, resOf]

theorem encodeCtxV_none {σ : Type} (V : MsgValidator σ) (cc : CtxCfg) (F : Faults) (o : Opts) (e : Enc) (f : FitIn) :
    encodeCtxV V cc F o none ⟨e, false⟩ f = (⟨(encodeV V F o e f).1, false⟩, (encodeV V F o e f).2) := by
  unfold encodeCtxV encodeV
  split
  · rfl
  · split
    · rfl
    · cases hv : validateAll V V.init f.msgs with
      | none => rfl
      | some ms' =>
        simp only
        rw [encodeCtx_none]
        rfl

/-! ### a cancellation that is observed -/

/-- what `encodeMessagesWithContext` has done when it observes the cancellation at poll `k`: exactly `encodeMessages` of the
first `k` messages — nothing else is written, flushed or undone — and it does not report success -/
theorem encodeMessagesCtx_cancel (F : Faults) (o : Opts) : ∀ (ms : List WMsg) (k : Nat) (e : Enc), k < ms.length →
    (encodeMessagesCtx F o (some k) e ms).1 = (encodeMessages F o e (ms.take k)).1 ∧
    (encodeMessagesCtx F o (some k) e ms).2.2 = (if (encodeMessages F o e (ms.take k)).2 then .ec else .err)
  | [], _, _, h => by cases h
  | m :: ms, 0, e, _ => by
    unfold encodeMessagesCtx
    simp [Ctx.cancelled, encodeMessages]
  | m :: ms, k + 1, e, h => by
    unfold encodeMessagesCtx
    simp only [Ctx.cancelled, Bool.false_eq_true, if_false, List.take_succ_cons, encodeMessages]
    by_cases h1 : (encodeMessage F o e m).2 = true
    · simp only [h1, if_true]
      exact encodeMessagesCtx_cancel F o ms k _ (by simpa using h)
    · simp [h1]

/-- a context that outlives the loop: `encodeMessages`, and the polls are used up -/
theorem encodeMessagesCtx_later (F : Faults) (o : Opts) : ∀ (ms : List WMsg) (k : Nat) (e : Enc), ms.length ≤ k →
    (encodeMessagesCtx F o (some k) e ms).1 = (encodeMessages F o e ms).1 ∧
    (encodeMessagesCtx F o (some k) e ms).2.2 = resOf (encodeMessages F o e ms).2
  | [], _, _, _ => ⟨rfl, rfl⟩
  | m :: ms, 0, e, h => by simp at h
  | m :: ms, k + 1, e, h => by
    unfold encodeMessagesCtx
    simp only [Ctx.cancelled, Bool.false_eq_true, if_false, encodeMessages]
    by_cases h1 : (encodeMessage F o e m).2 = true
    · simp only [h1, if_true]
      exact encodeMessagesCtx_later F o ms k _ (by simpa using h)
    · simp [h1, resOf]

theorem dryPassCtx_cancel (o : Opts) : ∀ (ms : List WMsg) (k : Nat) (s : EncState) (ds : Nat), k < ms.length →
    (dryPassCtx o (some k) s ds ms).2 = none
  | [], _, _, _, h => by cases h
  | m :: ms, 0, s, ds, _ => by unfold dryPassCtx; simp [Ctx.cancelled]
  | m :: ms, k + 1, s, ds, h => by
    unfold dryPassCtx
    simp only [Ctx.cancelled, Bool.false_eq_true, if_false]
    rw [show Ctx.tick (some (k + 1)) = some k from rfl, dryPassCtx_cancel o ms k _ _ (by simpa using h)]
    rfl

theorem dryPassCtx_later (o : Opts) : ∀ (ms : List WMsg) (k : Nat) (s : EncState) (ds : Nat), ms.length ≤ k →
    dryPassCtx o (some k) s ds ms = (some (k - ms.length), some (dryPass o s ds ms))
  | [], _, _, _, _ => rfl
  | m :: ms, 0, s, ds, h => by simp at h
  | m :: ms, k + 1, s, ds, h => by
    unfold dryPassCtx dryPass
    simp only [Ctx.cancelled, Bool.false_eq_true, if_false]
    rw [show Ctx.tick (some (k + 1)) = some k from rfl, dryPassCtx_later o ms k _ _ (by simpa using h)]
    simp

theorem dryPass_length (o : Opts) : ∀ (ms : List WMsg) (s : EncState) (ds : Nat), (dryPass o s ds ms).2.length = ms.length
  | [], _, _ => rfl
  | m :: ms, s, ds => by
    unfold dryPass
    simp [dryPass_length o ms]

theorem encodeBodyCtx_cancel (F : Faults) (o : Opts) (k : Nat) (e : Enc) (h : Hdr) (ds : Nat) (ms : List WMsg) (hk : k < ms.length) :
    (encodeBodyCtx F o (some k) e h ds ms).2.2 = .ec ∨ (encodeBodyCtx F o (some k) e h ds ms).2.2 = .err := by
  unfold encodeBodyCtx
  by_cases h1 : (encodeFileHeader F e h ds).2 = true
  · simp only [h1, Bool.not_true, Bool.false_eq_true, if_false]
    obtain ⟨_, b⟩ := encodeMessagesCtx_cancel F o ms k (encodeFileHeader F e h ds).1 hk
    have hne : ((encodeMessagesCtx F o (some k) (encodeFileHeader F e h ds).1 ms).2.2 != Res.ok) = true := by
      rw [b]; split <;> rfl
    simp only [hne, if_true]
    rw [b]
    split
    · exact Or.inl rfl
    · exact Or.inr rfl
  · simp [h1]

/-- AN OBSERVED CANCELLATION NEVER LETS THE CALL REPORT SUCCESS (after validation; any fault schedule): `ctx.Err()`, or the
destination's error when an operation failed first -/
theorem encodeCtx_cancel (cc : CtxCfg) (F : Faults) (o : Opts) (k : Nat) (e : Enc) (f : FitIn)
    (hk : k < ctxPolls e.w.kind f.msgs.length) :
    (encodeCtx cc F o (some k) ⟨e, false⟩ f).2 = .ec ∨ (encodeCtx cc F o (some k) ⟨e, false⟩ f).2 = .err := by
  unfold encodeCtx
  simp only [Bool.false_eq_true, if_false]
  unfold ctxPolls at hk
  by_cases hd : e.w.kind.direct = true
  · simp only [hd, if_true] at hk ⊢
    have hb : (encodeDirectCtx F o (some k) e f.hdr f.ds0 f.msgs).2.2 = .ec ∨ (encodeDirectCtx F o (some k) e f.hdr f.ds0 f.msgs).2.2 = .err := by
      unfold encodeDirectCtx
      rcases encodeBodyCtx_cancel F o k e f.hdr f.ds0 f.msgs hk with h | h
      · simp [h]
      · simp [h]
    rcases hb with h | h
    · simp [h]
    · simp [h]
  · simp only [hd, Bool.false_eq_true, if_false] at hk ⊢
    have hb : (encodeEarlyCtx cc F o (some k) e f.hdr f.msgs).2.2.1 = .ec ∨ (encodeEarlyCtx cc F o (some k) e f.hdr f.msgs).2.2.1 = .err := by
      unfold encodeEarlyCtx
      by_cases hlt : k < f.msgs.length
      · have := dryPassCtx_cancel o f.msgs k e.es e.dataSize hlt
        cases hdp : dryPassCtx o (some k) e.es e.dataSize f.msgs with
        | mk c' r =>
          rw [hdp] at this
          simp only at this
          subst this
          exact Or.inl rfl
      · rw [dryPassCtx_later o f.msgs k e.es e.dataSize (by omega)]
        simp only
        exact encodeBodyCtx_cancel F o _ _ _ _ _ (by rw [dryPass_length]; omega)
    rcases hb with h | h
    · simp [h]
    · simp [h]

/-- the cancellation observed in the DRY RUN (plain writer, `k` < number of messages): no destination operation at all, the
encoder's writer state is untouched, the call returns `ctx.Err()`; and the encoder is left on `io.Discard` unless the writer
is restored (`CtxCfg`) -/
theorem encodeCtx_cancel_dry (cc : CtxCfg) (F : Faults) (o : Opts) (k : Nat) (e : Enc) (f : FitIn)
    (hd : e.w.kind.direct = false) (hk : k < f.msgs.length) :
    encodeCtx cc F o (some k) ⟨e, false⟩ f = (⟨e.reset o, !cc.restoresWriter⟩, .ec) := by
  unfold encodeCtx encodeEarlyCtx
  simp only [Bool.false_eq_true, if_false, hd]
  have := dryPassCtx_cancel o f.msgs k e.es e.dataSize hk
  cases hdp : dryPassCtx o (some k) e.es e.dataSize f.msgs with
  | mk c' r =>
    rw [hdp] at this
    simp only at this
    subst this
    simp

end Fit.Writer
