import FitProps.WireLemmas
import FitModel.FitFormat
/-! The decoder's framing (Fit.Wire.decodeRecords) refines the independent framing spec
(Fit.FitFormat.parseRecords): whenever the decoder model parses records that cover a byte range exactly,
the spec parses the same range into as many records. Used by C02 (every encoder output is well-formed). -/
namespace Fit.Bridge
open Fit.Wire

theorem and_small (h m : Nat) (hm : m < 256) : h &&& m = (h % 256) &&& m := by
  have h1 : (h &&& m) % 2 ^ 8 = (h % 2 ^ 8) &&& (m % 2 ^ 8) := Nat.and_mod_two_pow
  have h2 : h &&& m < 2 ^ 8 := Nat.and_lt_two_pow h (by omega)
  rw [Nat.mod_eq_of_lt h2, Nat.mod_eq_of_lt (show m < 2 ^ 8 by omega)] at h1
  exact h1

theorem byte_bits : ∀ r, r < 256 →
    ((r &&& 0xC0 == 0x40) = (decide (r &&& 0x80 = 0) && decide (r &&& 0x40 ≠ 0))) ∧
    ((r &&& 0x80 == 0x80) = decide (r &&& 0x80 ≠ 0)) ∧
    (((r &&& 0x60) >>> 5) &&& 0xF = r / 32 % 4) ∧ (r &&& 0xF = r % 16) ∧
    ((r &&& 0x20 == 0x20) = decide (r &&& 0x20 ≠ 0)) := by decide +kernel

/-- the same facts for an arbitrary natural number (only its low byte matters) -/
theorem hdr_facts (h : Nat) :
    ((h &&& 0xC0 == 0x40) = FitFormat.isDefinition h) ∧
    ((h &&& 0x80 == 0x80) = FitFormat.isCompressed h) ∧
    ((if (h &&& 0x80 == 0x80) then (h &&& 0x60) >>> 5 else h) &&& 0xF = FitFormat.localNum h) ∧
    ((h &&& 0x20 == 0x20) = FitFormat.hasDevData h) := by
  obtain ⟨b1, b2, b3, b4, b5⟩ := byte_bits (h % 256) (Nat.mod_lt _ (by decide))
  have e1 := and_small h 0xC0 (by decide)
  have e2 := and_small h 0x80 (by decide)
  have e3 := and_small h 0x40 (by decide)
  have e4 := and_small h 0x60 (by decide)
  have e5 := and_small h 0x0F (by decide)
  have e6 := and_small h 0x20 (by decide)
  have hs : (h >>> 5) &&& 0x3 = (h % 256) / 32 % 4 := by
    have : (0x3 : Nat) = 2 ^ 2 - 1 := by decide
    rw [this, Nat.and_two_pow_sub_one_eq_mod, Nat.shiftRight_eq_div_pow]; omega
  have hl : h &&& 0xF = (h % 256) % 16 := by rw [e5, b4]
  refine ⟨?_, ?_, ?_, ?_⟩
  · simp only [FitFormat.isDefinition, e1, e2, e3, b1]; exact (Bool.decide_and _ _).symm
  · simp only [FitFormat.isCompressed, e2, b2]
  · simp only [FitFormat.localNum, FitFormat.isCompressed, e2, e4, b2, hs, hl]
    by_cases hc : (h % 256) &&& 0x80 ≠ 0
    · have hd : decide (h % 256 &&& 128 ≠ 0) = true := by simpa using hc
      rw [if_pos hd, if_pos hd, b3]
    · have hd : ¬ (decide (h % 256 &&& 128 ≠ 0) = true) := by simpa using hc
      rw [if_neg hd, if_neg hd, hl]
  · simp only [FitFormat.hasDevData, e6, b5]

/-- triplets of field definitions as the spec sees them -/
def tripF (fds : List FieldDef) : List FitFormat.Triplet := fds.map fun f => (f.num, f.size, f.bt)
def tripD (fds : List DevDef) : List FitFormat.Triplet := fds.map fun f => (f.num, f.size, f.idx)

def sumF (fds : List FieldDef) : Nat := (fds.map (·.size)).foldl (· + ·) 0
def sumD (fds : List DevDef) : Nat := (fds.map (·.size)).foldl (· + ·) 0
/-- payload length of a data record under definition `d` -/
def payloadLen (d : MesgDef) : Nat := sumF d.fields + sumD d.devs

theorem foldl_add (l : List Nat) (a : Nat) : l.foldl (· + ·) a = a + l.foldl (· + ·) 0 := by
  induction l generalizing a with
  | nil => simp
  | cons x xs ih => simp only [List.foldl_cons]; rw [ih, ih (0 + x)]; omega

theorem sizeSum_tripF (fds : List FieldDef) : FitFormat.sizeSum (tripF fds) = sumF fds := by
  simp [FitFormat.sizeSum, tripF, sumF, List.map_map, Function.comp_def]
theorem sizeSum_tripD (fds : List DevDef) : FitFormat.sizeSum (tripD fds) = sumD fds := by
  simp [FitFormat.sizeSum, tripD, sumD, List.map_map, Function.comp_def]

theorem parseFieldDefs_spec : ∀ (n : Nat) (bs : Bytes) (fds : List FieldDef) (rest : Bytes),
    parseFieldDefs n bs = .ok (fds, rest) →
    3 * n ≤ bs.length ∧ FitFormat.triplets (bs.take (3 * n)) = tripF fds ∧ bs.drop (3 * n) = rest := by
  intro n
  induction n with
  | zero => intro bs fds rest h; simp [parseFieldDefs] at h; obtain ⟨rfl, rfl⟩ := h; simp [FitFormat.triplets, tripF]
  | succ n ih =>
    intro bs fds rest h
    match bs, h with
    | a :: b :: c :: bs', h =>
      simp only [parseFieldDefs] at h
      cases hp : parseFieldDefs n bs' with
      | error e => simp [hp] at h
      | ok p =>
        obtain ⟨fs, r⟩ := p
        simp only [hp] at h
        injection h with h
        injection h with h1 h2
        subst h1 h2
        obtain ⟨i1, i2, i3⟩ := ih bs' fs r hp
        have e : 3 * (n + 1) = 3 * n + 3 := by omega
        refine ⟨by simp; omega, ?_, ?_⟩
        · rw [e]; simp [FitFormat.triplets, tripF, List.take_succ_cons]; simpa [tripF] using i2
        · rw [e]; simpa using i3

theorem parseDevDefs_spec : ∀ (n : Nat) (bs : Bytes) (fds : List DevDef) (rest : Bytes),
    parseDevDefs n bs = .ok (fds, rest) →
    3 * n ≤ bs.length ∧ FitFormat.triplets (bs.take (3 * n)) = tripD fds ∧ bs.drop (3 * n) = rest := by
  intro n
  induction n with
  | zero => intro bs fds rest h; simp [parseDevDefs] at h; obtain ⟨rfl, rfl⟩ := h; simp [FitFormat.triplets, tripD]
  | succ n ih =>
    intro bs fds rest h
    match bs, h with
    | a :: b :: c :: bs', h =>
      simp only [parseDevDefs] at h
      cases hp : parseDevDefs n bs' with
      | error e => simp [hp] at h
      | ok p =>
        obtain ⟨fs, r⟩ := p
        simp only [hp] at h
        injection h with h
        injection h with h1 h2
        subst h1 h2
        obtain ⟨i1, i2, i3⟩ := ih bs' fs r hp
        have e : 3 * (n + 1) = 3 * n + 3 := by omega
        refine ⟨by simp; omega, ?_, ?_⟩
        · rw [e]; simp [FitFormat.triplets, tripD, List.take_succ_cons]; simpa [tripD] using i2
        · rw [e]; simpa using i3

theorem takeFields_spec : ∀ (fds : List FieldDef) (bs : Bytes) (fs : List (FieldDef × Bytes)) (rest : Bytes),
    takeFields fds bs = .ok (fs, rest) → sumF fds ≤ bs.length ∧ bs.drop (sumF fds) = rest := by
  intro fds
  induction fds with
  | nil => intro bs fs rest h; simp [takeFields] at h; simp [sumF, h.2]
  | cons fd fds ih =>
    intro bs fs rest h
    simp only [takeFields] at h
    by_cases hl : bs.length < fd.size
    · simp [hl] at h
    · simp only [hl, if_false] at h
      cases hp : takeFields fds (bs.drop fd.size) with
      | error e => simp [hp] at h
      | ok p =>
        obtain ⟨fs', r⟩ := p
        simp only [hp] at h
        injection h with h
        injection h with _ h2
        subst h2
        obtain ⟨i1, i2⟩ := ih _ _ _ hp
        have e : sumF (fd :: fds) = fd.size + sumF fds := by
          simp only [sumF, List.map_cons, List.foldl_cons]; rw [foldl_add]; omega
        rw [e]
        refine ⟨by simp at i1; omega, ?_⟩
        rw [← i2, List.drop_drop]

theorem takeDevs_spec : ∀ (fds : List DevDef) (bs : Bytes) (fs : List (DevDef × Bytes)) (rest : Bytes),
    takeDevs fds bs = .ok (fs, rest) → sumD fds ≤ bs.length ∧ bs.drop (sumD fds) = rest := by
  intro fds
  induction fds with
  | nil => intro bs fs rest h; simp [takeDevs] at h; simp [sumD, h.2]
  | cons fd fds ih =>
    intro bs fs rest h
    simp only [takeDevs] at h
    by_cases hl : bs.length < fd.size
    · simp [hl] at h
    · simp only [hl, if_false] at h
      cases hp : takeDevs fds (bs.drop fd.size) with
      | error e => simp [hp] at h
      | ok p =>
        obtain ⟨fs', r⟩ := p
        simp only [hp] at h
        injection h with h
        injection h with _ h2
        subst h2
        obtain ⟨i1, i2⟩ := ih _ _ _ hp
        have e : sumD (fd :: fds) = fd.size + sumD fds := by
          simp only [sumD, List.map_cons, List.foldl_cons]; rw [foldl_add]; omega
        rw [e]
        refine ⟨by simp at i1; omega, ?_⟩
        rw [← i2, List.drop_drop]

def Rel (s : DecState) (defs : FitFormat.Defs) : Prop := ∀ i, defs i = (s.lookup i).map payloadLen

theorem lookup_of_defs {s s' : DecState} (h : s'.defs = s.defs) (i : Nat) : s'.lookup i = s.lookup i := by
  simp [DecState.lookup, h]

theorem record_spec (tsKnown : Nat → Bool) (s : DecState) (bs : Bytes) (it : Item) (s' : DecState) (rest : Bytes)
    (h : decodeRecord tsKnown s bs = .ok (it, s', rest)) (defs : FitFormat.Defs) (hrel : Rel s defs) (off : Nat) :
    ∃ hd tl, bs = hd :: tl ∧
     ((FitFormat.isDefinition hd = true ∧ ∃ r, FitFormat.parseDefinition hd off tl = some (r, rest) ∧
        Rel s' (defs.set r.localNum (FitFormat.sizeSum r.fields + FitFormat.sizeSum r.devFields))) ∨
      (FitFormat.isDefinition hd = false ∧ ∃ n, defs (FitFormat.localNum hd) = some n ∧ n ≤ tl.length ∧
        tl.drop n = rest ∧ Rel s' defs)) := by
  match bs, h with
  | hd :: tl, h =>
    refine ⟨hd, tl, rfl, ?_⟩
    obtain ⟨f1, f2, f3, f4⟩ := hdr_facts hd
    simp only [decodeRecord] at h
    by_cases hdef : (hd &&& 0xC0 == 0x40) = true
    · left
      rw [f1] at hdef
      refine ⟨hdef, ?_⟩
      rw [← f1] at hdef
      simp only [hdef, if_true] at h
      match tl, h with
      | _res :: arch :: m0 :: m1 :: n :: bs1, h =>
        simp only at h
        cases hp : parseFieldDefs n bs1 with
        | error e => simp [hp] at h
        | ok p =>
          obtain ⟨fds, bs2⟩ := p
          obtain ⟨p1, p2, p3⟩ := parseFieldDefs_spec n bs1 fds bs2 hp
          simp only [hp] at h
          by_cases hany : (fds.any fun f => !validBaseType f.bt) = true
          · simp [hany] at h
          · simp only [hany, Bool.false_eq_true, if_false] at h
            by_cases hdev : (hd &&& 0x20 == 0x20) = true
            · simp only [hdev, if_true] at h
              match bs2, h with
              | k :: bs3, h =>
                simp only at h
                cases hq : parseDevDefs k bs3 with
                | error e => simp [hq] at h
                | ok q =>
                  obtain ⟨dds, bs4⟩ := q
                  obtain ⟨q1, q2, q3⟩ := parseDevDefs_spec k bs3 dds bs4 hq
                  simp only [hq] at h
                  injection h with h
                  injection h with h1 h2
                  injection h2 with h2 h3
                  subst h1 h2 h3
                  rw [f4] at hdev
                  have n1 : FitFormat.hasN bs1 (3 * n) = true := (FitFormat.hasN_iff _ _).mpr p1
                  have n2 : FitFormat.hasN bs3 (3 * k) = true := (FitFormat.hasN_iff _ _).mpr q1
                  refine ⟨{ kind := .definition, hdr := hd, localNum := hd &&& 0xF, off := off, len := 6 + 3 * n + 1 + 3 * k,
                            arch := arch, globalNum := if arch = 0 then FitFormat.le16 m0 m1 else FitFormat.le16 m1 m0,
                            fields := tripF fds, devFields := tripD dds },
                    by simp only [FitFormat.parseDefinition, n1, Bool.not_true, Bool.false_eq_true, if_false, hdev, if_true, p3, n2, p2, q2, q3], ?_⟩
                  intro i
                  simp only [FitFormat.Defs.set, lookup_cons, sizeSum_tripF, sizeSum_tripD]
                  by_cases hi : i = hd &&& 0xF
                  · simp [hi, payloadLen]
                  · simp [hi, hrel i]
            · simp only [hdev, Bool.false_eq_true, if_false] at h
              injection h with h
              injection h with h1 h2
              injection h2 with h2 h3
              subst h1 h2 h3
              have hdev' : FitFormat.hasDevData hd = false := by rw [← f4]; simpa using hdev
              have n1 : FitFormat.hasN bs1 (3 * n) = true := (FitFormat.hasN_iff _ _).mpr p1
              refine ⟨{ kind := .definition, hdr := hd, localNum := hd &&& 0xF, off := off, len := 6 + 3 * n,
                        arch := arch, globalNum := if arch = 0 then FitFormat.le16 m0 m1 else FitFormat.le16 m1 m0,
                        fields := tripF fds, devFields := [] },
                by simp only [FitFormat.parseDefinition, n1, Bool.not_true, Bool.false_eq_true, if_false, hdev', p3, p2], ?_⟩
              intro i
              simp only [FitFormat.Defs.set, lookup_cons, sizeSum_tripF]
              by_cases hi : i = hd &&& 0xF
              · simp [hi, payloadLen, FitFormat.sizeSum, sumD]
              · simp [hi, hrel i]
    · right
      have hdef' : (hd &&& 0xC0 == 0x40) = false := by simpa using hdef
      refine ⟨by rw [← f1]; exact hdef', ?_⟩
      simp only [hdef', Bool.false_eq_true, if_false] at h
      rw [f3] at h
      cases hl : s.lookup (FitFormat.localNum hd) with
      | none => simp [hl] at h
      | some d =>
        simp only [hl] at h
        generalize hs1 : (if (hd &&& 0x80 == 0x80) = true then
            (match decompressHdr s hd with | (s', t) => (s', some t)) else (s, none)) = p1 at h
        obtain ⟨s1, ts⟩ := p1
        simp only at h
        cases htf : takeFields d.fields tl with
        | error e => simp [htf] at h
        | ok q =>
          obtain ⟨fs, bs1⟩ := q
          simp only [htf] at h
          cases htd : takeDevs d.devs bs1 with
          | error e => simp [htd] at h
          | ok q2 =>
            obtain ⟨ds, bs2⟩ := q2
            simp only [htd] at h
            injection h with h
            injection h with _ h2
            injection h2 with h2 h3
            subst h2 h3
            obtain ⟨a1, a2⟩ := takeFields_spec _ _ _ _ htf
            obtain ⟨c1, c2⟩ := takeDevs_spec _ _ _ _ htd
            have hs1d : s1.defs = s.defs := by
              by_cases hc : (hd &&& 0x80 == 0x80) = true
              · simp only [hc, if_true] at hs1; injection hs1 with e _; rw [← e]; rfl
              · simp only [hc, Bool.false_eq_true, if_false] at hs1; injection hs1 with e _; rw [← e]
            refine ⟨payloadLen d, by rw [hrel, hl]; rfl, ?_, ?_, ?_⟩
            · subst a2; simp at c1; simp [payloadLen]; omega
            · subst a2; rw [← c2, List.drop_drop]; rfl
            · intro i
              rw [hrel i, lookup_of_defs (s := s) (s' := trackTs (tsKnown d.mesgNum) d.arch s1 fs) (by rw [trackTs_defs, hs1d]) i]

end Fit.Bridge
