import FitProps.WireLemmas
import FitModel.FitFormat
/-! The decoder's framing (Fit.Wire.decodeRecordsF) refines the independent framing spec
(Fit.FitFormat.parseRecords): whenever the decoder model parses records that cover a byte range exactly,
the spec parses the same range into as many records. Used by C02 (every encoder output is well-formed). -/
namespace Fit.Bridge
open Fit.Wire

theorem and_small (h m : Nat) (hm : m < 256) : h &&& m = (h % 256) &&& m := by
  have h1 : (h &&& m) % 2 ^ 8 = (h % 2 ^ 8) &&& (m % 2 ^ 8) := Nat.and_mod_two_pow
  have h2 : h &&& m < 2 ^ 8 := Nat.and_lt_two_pow h (by omega)
  rw [Nat.mod_eq_of_lt h2, Nat.mod_eq_of_lt (show m < 2 ^ 8 by omega)] at h1
  exact h1

theorem byte_bits : ∀ r, r < 256 →
    ((r &&& 0xC0 == 0x40) = (decide (r &&& 0x80 = 0) && decide (r &&& 0x40 ≠ 0))) ∧
    ((r &&& 0x80 == 0x80) = decide (r &&& 0x80 ≠ 0)) ∧
    (((r &&& 0x60) >>> 5) &&& 0xF = r / 32 % 4) ∧ (r &&& 0xF = r % 16) ∧
    ((r &&& 0x20 == 0x20) = decide (r &&& 0x20 ≠ 0)) := by decide +kernel

/-- the same facts for an arbitrary natural number (only its low byte matters) -/
theorem hdr_facts (h : Nat) :
    ((h &&& 0xC0 == 0x40) = FitFormat.isDefinition h) ∧
    ((h &&& 0x80 == 0x80) = FitFormat.isCompressed h) ∧
    ((if (h &&& 0x80 == 0x80) then (h &&& 0x60) >>> 5 else h) &&& 0xF = FitFormat.localNum h) ∧
    ((h &&& 0x20 == 0x20) = FitFormat.hasDevData h) := by
  obtain ⟨b1, b2, b3, b4, b5⟩ := byte_bits (h % 256) (Nat.mod_lt _ (by decide))
  have e1 := and_small h 0xC0 (by decide)
  have e2 := and_small h 0x80 (by decide)
  have e3 := and_small h 0x40 (by decide)
  have e4 := and_small h 0x60 (by decide)
  have e5 := and_small h 0x0F (by decide)
  have e6 := and_small h 0x20 (by decide)
  have hs : (h >>> 5) &&& 0x3 = (h % 256) / 32 % 4 := by
    have : (0x3 : Nat) = 2 ^ 2 - 1 := by decide
    rw [this, Nat.and_two_pow_sub_one_eq_mod, Nat.shiftRight_eq_div_pow]; omega
  have hl : h &&& 0xF = (h % 256) % 16 := by rw [e5, b4]
  refine ⟨?_, ?_, ?_, ?_⟩
  · simp only [FitFormat.isDefinition, e1, e2, e3, b1]; exact (Bool.decide_and _ _).symm
  · simp only [FitFormat.isCompressed, e2, b2]
  · simp only [FitFormat.localNum, FitFormat.isCompressed, e2, e4, b2, hs, hl]
    by_cases hc : (h % 256) &&& 0x80 ≠ 0
    · have hd : decide (h % 256 &&& 128 ≠ 0) = true := by simpa using hc
      rw [if_pos hd, if_pos hd, b3]
    · have hd : ¬ (decide (h % 256 &&& 128 ≠ 0) = true) := by simpa using hc
      rw [if_neg hd, if_neg hd, hl]
  · simp only [FitFormat.hasDevData, e6, b5]

/-- triplets of field definitions as the spec sees them -/
def tripF (fds : List FieldDef) : List FitFormat.Triplet := fds.map fun f => (f.num, f.size, f.bt)
def tripD (fds : List DevDef) : List FitFormat.Triplet := fds.map fun f => (f.num, f.size, f.idx)

def sumF (fds : List FieldDef) : Nat := (fds.map (·.size)).foldl (· + ·) 0
def sumD (fds : List DevDef) : Nat := (fds.map (·.size)).foldl (· + ·) 0
/-- payload length of a data record under definition `d` -/
def payloadLen (d : MesgDef) : Nat := sumF d.fields + sumD d.devs

theorem foldl_add (l : List Nat) (a : Nat) : l.foldl (· + ·) a = a + l.foldl (· + ·) 0 := by
  induction l generalizing a with
  | nil => simp
  | cons x xs ih => simp only [List.foldl_cons]; rw [ih, ih (0 + x)]; omega

theorem sizeSum_tripF (fds : List FieldDef) : FitFormat.sizeSum (tripF fds) = sumF fds := by
  simp [FitFormat.sizeSum, tripF, sumF, List.map_map, Function.comp_def]
theorem sizeSum_tripD (fds : List DevDef) : FitFormat.sizeSum (tripD fds) = sumD fds := by
  simp [FitFormat.sizeSum, tripD, sumD, List.map_map, Function.comp_def]

theorem parseFieldDefs_spec : ∀ (n : Nat) (bs : Bytes) (fds : List FieldDef) (rest : Bytes),
    parseFieldDefs n bs = .ok (fds, rest) →
    3 * n ≤ bs.length ∧ FitFormat.triplets (bs.take (3 * n)) = tripF fds ∧ bs.drop (3 * n) = rest := by
  intro n
  induction n with
  | zero => intro bs fds rest h; simp [parseFieldDefs] at h; obtain ⟨rfl, rfl⟩ := h; simp [FitFormat.triplets, tripF]
  | succ n ih =>
    intro bs fds rest h
    match bs, h with
    | a :: b :: c :: bs', h =>
      simp only [parseFieldDefs] at h
      cases hp : parseFieldDefs n bs' with
      | error e => simp [hp] at h
      | ok p =>
        obtain ⟨fs, r⟩ := p
        simp only [hp] at h
        injection h with h
        injection h with h1 h2
        subst h1 h2
        obtain ⟨i1, i2, i3⟩ := ih bs' fs r hp
        have e : 3 * (n + 1) = 3 * n + 3 := by omega
        refine ⟨by simp; omega, ?_, ?_⟩
        · rw [e]; simp [FitFormat.triplets, tripF, List.take_succ_cons]; simpa [tripF] using i2
        · rw [e]; simpa using i3

theorem parseDevDefs_spec : ∀ (n : Nat) (bs : Bytes) (fds : List DevDef) (rest : Bytes),
    parseDevDefs n bs = .ok (fds, rest) →
    3 * n ≤ bs.length ∧ FitFormat.triplets (bs.take (3 * n)) = tripD fds ∧ bs.drop (3 * n) = rest := by
  intro n
  induction n with
  | zero => intro bs fds rest h; simp [parseDevDefs] at h; obtain ⟨rfl, rfl⟩ := h; simp [FitFormat.triplets, tripD]
  | succ n ih =>
    intro bs fds rest h
    match bs, h with
    | a :: b :: c :: bs', h =>
      simp only [parseDevDefs] at h
      cases hp : parseDevDefs n bs' with
      | error e => simp [hp] at h
      | ok p =>
        obtain ⟨fs, r⟩ := p
        simp only [hp] at h
        injection h with h
        injection h with h1 h2
        subst h1 h2
        obtain ⟨i1, i2, i3⟩ := ih bs' fs r hp
        have e : 3 * (n + 1) = 3 * n + 3 := by omega
        refine ⟨by simp; omega, ?_, ?_⟩
        · rw [e]; simp [FitFormat.triplets, tripD, List.take_succ_cons]; simpa [tripD] using i2
        · rw [e]; simpa using i3

theorem takeFields_spec : ∀ (fds : List FieldDef) (bs : Bytes) (fs : List (FieldDef × Bytes)) (rest : Bytes),
    takeFields fds bs = .ok (fs, rest) → sumF fds ≤ bs.length ∧ bs.drop (sumF fds) = rest := by
  intro fds
  induction fds with
  | nil => intro bs fs rest h; simp [takeFields] at h; simp [sumF, h.2]
  | cons fd fds ih =>
    intro bs fs rest h
    simp only [takeFields] at h
    by_cases hl : bs.length < fd.size
    · simp [hl] at h
    · simp only [hl, if_false] at h
      cases hp : takeFields fds (bs.drop fd.size) with
      | error e => simp [hp] at h
      | ok p =>
        obtain ⟨fs', r⟩ := p
        simp only [hp] at h
        injection h with h
        injection h with _ h2
        subst h2
        obtain ⟨i1, i2⟩ := ih _ _ _ hp
        have e : sumF (fd :: fds) = fd.size + sumF fds := by
          simp only [sumF, List.map_cons, List.foldl_cons]; rw [foldl_add]; omega
        rw [e]
        refine ⟨by simp at i1; omega, ?_⟩
        rw [← i2, List.drop_drop]

theorem takeDevs_spec : ∀ (fds : List DevDef) (bs : Bytes) (fs : List (DevDef × Bytes)) (rest : Bytes),
    takeDevsF fds bs = .ok (fs, rest) → sumD fds ≤ bs.length ∧ bs.drop (sumD fds) = rest := by
  intro fds
  induction fds with
  | nil => intro bs fs rest h; simp [takeDevsF] at h; simp [sumD, h.2]
  | cons fd fds ih =>
    intro bs fs rest h
    simp only [takeDevsF] at h
    by_cases hl : bs.length < fd.size
    · simp [hl] at h
    · simp only [hl, if_false] at h
      cases hp : takeDevsF fds (bs.drop fd.size) with
      | error e => simp [hp] at h
      | ok p =>
        obtain ⟨fs', r⟩ := p
        simp only [hp] at h
        injection h with h
        injection h with _ h2
        subst h2
        obtain ⟨i1, i2⟩ := ih _ _ _ hp
        have e : sumD (fd :: fds) = fd.size + sumD fds := by
          simp only [sumD, List.map_cons, List.foldl_cons]; rw [foldl_add]; omega
        rw [e]
        refine ⟨by simp at i1; omega, ?_⟩
        rw [← i2, List.drop_drop]

def Rel (s : DecState) (defs : FitFormat.Defs) : Prop := ∀ i, defs i = (s.lookup i).map payloadLen

theorem lookup_of_defs {s s' : DecState} (h : s'.defs = s.defs) (i : Nat) : s'.lookup i = s.lookup i := by
  simp [DecState.lookup, h]

theorem record_spec (tsKnown : Nat → Bool) (s : DecState) (bs : Bytes) (it : Item) (s' : DecState) (rest : Bytes)
    (h : decodeRecordF tsKnown s bs = .ok (it, s', rest)) (defs : FitFormat.Defs) (hrel : Rel s defs) (off : Nat) :
    ∃ hd tl, bs = hd :: tl ∧
     ((FitFormat.isDefinition hd = true ∧ ∃ r, FitFormat.parseDefinition hd off tl = some (r, rest) ∧
        Rel s' (defs.set r.localNum (FitFormat.sizeSum r.fields + FitFormat.sizeSum r.devFields))) ∨
      (FitFormat.isDefinition hd = false ∧ ∃ n, defs (FitFormat.localNum hd) = some n ∧ n ≤ tl.length ∧
        tl.drop n = rest ∧ Rel s' defs)) := by
  match bs, h with
  | hd :: tl, h =>
    refine ⟨hd, tl, rfl, ?_⟩
    obtain ⟨f1, f2, f3, f4⟩ := hdr_facts hd
    simp only [decodeRecordF] at h
    by_cases hdef : (hd &&& 0xC0 == 0x40) = true
    · left
      rw [f1] at hdef
      refine ⟨hdef, ?_⟩
      rw [← f1] at hdef
      simp only [hdef, if_true] at h
      match tl, h with
      | _res :: arch :: m0 :: m1 :: n :: bs1, h =>
        simp only at h
        cases hp : parseFieldDefs n bs1 with
        | error e => simp [hp] at h
        | ok p =>
          obtain ⟨fds, bs2⟩ := p
          obtain ⟨p1, p2, p3⟩ := parseFieldDefs_spec n bs1 fds bs2 hp
          simp only [hp] at h
          by_cases hany : (fds.any fun f => !validBaseType f.bt) = true
          · simp [hany] at h
          · simp only [hany, Bool.false_eq_true, if_false] at h
            by_cases hdev : (hd &&& 0x20 == 0x20) = true
            · simp only [hdev, if_true] at h
              match bs2, h with
              | k :: bs3, h =>
                simp only at h
                cases hq : parseDevDefs k bs3 with
                | error e => simp [hq] at h
                | ok q =>
                  obtain ⟨dds, bs4⟩ := q
                  obtain ⟨q1, q2, q3⟩ := parseDevDefs_spec k bs3 dds bs4 hq
                  simp only [hq] at h
                  injection h with h
                  injection h with h1 h2
                  injection h2 with h2 h3
                  subst h1 h2 h3
                  rw [f4] at hdev
                  have n1 : FitFormat.hasN bs1 (3 * n) = true := (FitFormat.hasN_iff _ _).mpr p1
                  have n2 : FitFormat.hasN bs3 (3 * k) = true := (FitFormat.hasN_iff _ _).mpr q1
                  refine ⟨{ kind := .definition, hdr := hd, localNum := hd &&& 0xF, off := off, len := 6 + 3 * n + 1 + 3 * k,
                            arch := arch, globalNum := if arch = 0 then FitFormat.le16 m0 m1 else FitFormat.le16 m1 m0,
                            fields := tripF fds, devFields := tripD dds },
                    by simp only [FitFormat.parseDefinition, n1, Bool.not_true, Bool.false_eq_true, if_false, hdev, if_true, p3, n2, p2, q2, q3], ?_⟩
                  intro i
                  simp only [FitFormat.Defs.set, lookup_cons, sizeSum_tripF, sizeSum_tripD]
                  by_cases hi : i = hd &&& 0xF
                  · simp [hi, payloadLen]
                  · simp [hi, hrel i]
            · simp only [hdev, Bool.false_eq_true, if_false] at h
              injection h with h
              injection h with h1 h2
              injection h2 with h2 h3
              subst h1 h2 h3
              have hdev' : FitFormat.hasDevData hd = false := by rw [← f4]; simpa using hdev
              have n1 : FitFormat.hasN bs1 (3 * n) = true := (FitFormat.hasN_iff _ _).mpr p1
              refine ⟨{ kind := .definition, hdr := hd, localNum := hd &&& 0xF, off := off, len := 6 + 3 * n,
                        arch := arch, globalNum := if arch = 0 then FitFormat.le16 m0 m1 else FitFormat.le16 m1 m0,
                        fields := tripF fds, devFields := [] },
                by simp only [FitFormat.parseDefinition, n1, Bool.not_true, Bool.false_eq_true, if_false, hdev', p3, p2], ?_⟩
              intro i
              simp only [FitFormat.Defs.set, lookup_cons, sizeSum_tripF]
              by_cases hi : i = hd &&& 0xF
              · simp [hi, payloadLen, FitFormat.sizeSum, sumD]
              · simp [hi, hrel i]
    · right
      have hdef' : (hd &&& 0xC0 == 0x40) = false := by simpa using hdef
      refine ⟨by rw [← f1]; exact hdef', ?_⟩
      simp only [hdef', Bool.false_eq_true, if_false] at h
      rw [f3] at h
      cases hl : s.lookup (FitFormat.localNum hd) with
      | none => simp [hl] at h
      | some d =>
        simp only [hl] at h
        generalize hs1 : (if (hd &&& 0x80 == 0x80) = true then
            (match decompressHdr s hd with | (s', t) => (s', some t)) else (s, none)) = p1 at h
        obtain ⟨s1, ts⟩ := p1
        simp only at h
        cases htf : takeFields d.fields tl with
        | error e => simp [htf] at h
        | ok q =>
          obtain ⟨fs, bs1⟩ := q
          simp only [htf] at h
          cases htd : takeDevsF d.devs bs1 with
          | error e => simp [htd] at h
          | ok q2 =>
            obtain ⟨ds, bs2⟩ := q2
            simp only [htd] at h
            injection h with h
            injection h with _ h2
            injection h2 with h2 h3
            subst h2 h3
            obtain ⟨a1, a2⟩ := takeFields_spec _ _ _ _ htf
            obtain ⟨c1, c2⟩ := takeDevs_spec _ _ _ _ htd
            have hs1d : s1.defs = s.defs := by
              by_cases hc : (hd &&& 0x80 == 0x80) = true
              · simp only [hc, if_true] at hs1; injection hs1 with e _; rw [← e]; rfl
              · simp only [hc, Bool.false_eq_true, if_false] at hs1; injection hs1 with e _; rw [← e]
            refine ⟨payloadLen d, by rw [hrel, hl]; rfl, ?_, ?_, ?_⟩
            · subst a2; simp at c1; simp [payloadLen]; omega
            · subst a2; rw [← c2, List.drop_drop]; rfl
            · intro i
              rw [hrel i, lookup_of_defs (s := s) (s' := trackTs (tsKnown d.mesgNum) d.arch s1 fs) (by rw [trackTs_defs, hs1d]) i]

theorem take_take_app (l ys : List Nat) (n : Nat) (h : n ≤ l.length) : (l.take n ++ ys).take n = l.take n := by
  have hl : (l.take n).length = n := by rw [List.length_take]; omega
  rw [List.take_append_of_le_length (by omega), List.take_take]; simp
theorem drop_take_app (l ys : List Nat) (n : Nat) (h : n ≤ l.length) : (l.take n ++ ys).drop n = ys := by
  have hl : (l.take n).length = n := by rw [List.length_take]; omega
  have := List.drop_left (l₁ := l.take n) (l₂ := ys)
  rw [hl] at this; exact this
theorem hasN_take_app (l ys : List Nat) (n : Nat) (h : n ≤ l.length) : FitFormat.hasN (l.take n ++ ys) n = true := by
  apply (FitFormat.hasN_iff _ _).mpr; rw [List.length_append, List.length_take]; omega

/-- `parseDefinition` consumes a definite number of bytes and looks at nothing else -/
theorem parseDefinition_consumes (h off : Nat) (bs : List Nat) (r : FitFormat.Rec) (zs : List Nat)
    (hp : FitFormat.parseDefinition h off bs = some (r, zs)) :
    ∃ k, k ≤ bs.length ∧ zs = bs.drop k ∧ ∀ ys', FitFormat.parseDefinition h off (bs.take k ++ ys') = some (r, ys') := by
  match bs, hp with
  | a :: b :: c :: d :: nf :: rest, hp =>
    simp only [FitFormat.parseDefinition] at hp
    by_cases h1 : FitFormat.hasN rest (3 * nf) = true
    · have l1 := (FitFormat.hasN_iff _ _).mp h1
      simp only [h1, Bool.not_true, Bool.false_eq_true, if_false] at hp
      by_cases hd : FitFormat.hasDevData h = true
      · simp only [hd, if_true] at hp
        cases hr : rest.drop (3 * nf) with
        | nil => simp [hr] at hp
        | cons nd rest2 =>
          simp only [hr] at hp
          by_cases h2 : FitFormat.hasN rest2 (3 * nd) = true
          · have l2 := (FitFormat.hasN_iff _ _).mp h2
            simp only [h2, Bool.not_true, Bool.false_eq_true, if_false] at hp
            injection hp with hp
            injection hp with hr1 hr2
            have hsplit : rest = rest.take (3 * nf) ++ (nd :: rest2) := by rw [← hr]; simp
            have hl : (rest.take (3 * nf)).length = 3 * nf := by rw [List.length_take]; omega
            have hlen : rest.length = 3 * nf + 1 + rest2.length := by
              have := congrArg List.length hsplit
              rw [List.length_append, hl] at this; simp at this; omega
            refine ⟨(3 * nf + (3 * nd + 1)) + 5, by simp; omega, ?_, ?_⟩
            · rw [← hr2]
              show List.drop (3 * nd) rest2 = List.drop (3 * nf + (3 * nd + 1)) rest
              rw [← List.drop_drop, hr]; rfl
            · intro ys'
              have e : (a :: b :: c :: d :: nf :: rest).take ((3 * nf + (3 * nd + 1)) + 5) =
                  a :: b :: c :: d :: nf :: (rest.take (3 * nf) ++ (nd :: rest2.take (3 * nd))) := by
                show a :: b :: c :: d :: nf :: rest.take (3 * nf + (3 * nd + 1)) = _
                congr 5
                conv => lhs; rw [hsplit]
                rw [List.take_append, hl]
                simp [List.take_take, Nat.add_sub_cancel_left, List.take_succ_cons]
              rw [e]
              simp only [List.cons_append, List.append_assoc, FitFormat.parseDefinition]
              have g1 : FitFormat.hasN (rest.take (3 * nf) ++ (nd :: (rest2.take (3 * nd) ++ ys'))) (3 * nf) = true :=
                hasN_take_app rest _ _ l1
              have g2 : (rest.take (3 * nf) ++ (nd :: (rest2.take (3 * nd) ++ ys'))).take (3 * nf) = rest.take (3 * nf) :=
                take_take_app rest _ _ l1
              have g3 : (rest.take (3 * nf) ++ (nd :: (rest2.take (3 * nd) ++ ys'))).drop (3 * nf) = nd :: (rest2.take (3 * nd) ++ ys') :=
                drop_take_app rest _ _ l1
              have g4 := hasN_take_app rest2 ys' _ l2
              have g5 := take_take_app rest2 ys' _ l2
              have g6 := drop_take_app rest2 ys' _ l2
              simp only [g1, g2, g3, g4, g5, g6, Bool.not_true, Bool.false_eq_true, if_false, hd, if_true, ← hr1]
          · simp [h2] at hp
      · have hd' : FitFormat.hasDevData h = false := by simpa using hd
        simp only [hd', Bool.false_eq_true, if_false] at hp
        injection hp with hp
        injection hp with hr1 hr2
        refine ⟨3 * nf + 5, by simp; omega, ?_, ?_⟩
        · rw [← hr2]; rfl
        · intro ys'
          have e : (a :: b :: c :: d :: nf :: rest).take (3 * nf + 5) = a :: b :: c :: d :: nf :: rest.take (3 * nf) := rfl
          rw [e]
          simp only [List.cons_append, FitFormat.parseDefinition, hasN_take_app rest ys' _ l1, take_take_app rest ys' _ l1,
            drop_take_app rest ys' _ l1, Bool.not_true, Bool.false_eq_true, if_false, hd', ← hr1]
    · simp [h1] at hp

/-- a decoded record is a non-empty prefix of the input -/
theorem decodeRecord_suffix (tsKnown : Nat → Bool) (s : DecState) (bs : Bytes) (it : Item) (s' : DecState) (rest : Bytes)
    (h : decodeRecordF tsKnown s bs = .ok (it, s', rest)) : ∃ rec, bs = rec ++ rest ∧ 1 ≤ rec.length := by
  obtain ⟨hd, tl, rfl, hc⟩ := record_spec tsKnown s bs it s' rest h (fun i => (s.lookup i).map payloadLen) (fun _ => rfl) 0
  rcases hc with ⟨_, r, hp, _⟩ | ⟨_, n, _, hn, hd', _⟩
  · obtain ⟨k, hk, hz, _⟩ := parseDefinition_consumes _ _ _ _ _ hp
    exact ⟨hd :: tl.take k, by rw [hz]; simp, by simp⟩
  · exact ⟨hd :: tl.take n, by rw [← hd']; simp, by simp⟩

/-- the record loop returns a suffix of its input and consumes at least the announced number of bytes -/
theorem decodeRecords_suffix (tsKnown : Nat → Bool) : ∀ (fuel : Nat) (s : DecState) (n : Nat) (bs : Bytes) (items : List Item) (r : Bytes),
    decodeRecordsF tsKnown fuel s n bs = (items, .ok r) → ∃ pre, bs = pre ++ r ∧ n ≤ pre.length := by
  intro fuel
  induction fuel with
  | zero =>
    intro s n bs items r h
    simp only [decodeRecordsF] at h
    by_cases hn : n = 0
    · simp only [hn, if_true] at h; injection h with _ h; injection h with h; exact ⟨[], by simp [h], by omega⟩
    · simp [hn] at h
  | succ fuel ih =>
    intro s n bs items r h
    simp only [decodeRecordsF] at h
    by_cases hn : n = 0
    · simp only [hn, if_true] at h; injection h with _ h; injection h with h; exact ⟨[], by simp [h], by omega⟩
    · simp only [hn, if_false] at h
      cases hd : decodeRecordF tsKnown s bs with
      | error e => simp [hd] at h
      | ok p =>
        obtain ⟨it, s', rest1⟩ := p
        simp only [hd] at h
        obtain ⟨rec, hrec, hpos⟩ := decodeRecord_suffix tsKnown s bs it s' rest1 hd
        generalize hsub : decodeRecordsF tsKnown fuel s' (n - (bs.length - rest1.length)) rest1 = q at h
        obtain ⟨its, rr⟩ := q
        simp only at h
        injection h with _ h2
        subst h2
        obtain ⟨pre, hpre, hlen⟩ := ih _ _ _ _ _ hsub
        refine ⟨rec ++ pre, by rw [hrec, hpre]; simp, ?_⟩
        have : bs.length - rest1.length = rec.length := by rw [hrec]; simp
        rw [this] at hlen
        simp; omega

/-- THE DECODER'S FRAMING REFINES THE SPEC: whenever the decoder's record loop covers `body` exactly, the
independent framing spec parses `body` into as many records. -/
theorem records_spec (tsKnown : Nat → Bool) : ∀ (fuel : Nat) (s : DecState) (body rest : Bytes) (items : List Item),
    decodeRecordsF tsKnown fuel s body.length (body ++ rest) = (items, .ok rest) →
    ∀ (defs : FitFormat.Defs) (off fuel2 : Nat), Rel s defs → body.length ≤ fuel2 →
    ∃ recs, FitFormat.parseRecords fuel2 defs off body = some recs ∧ recs.length = items.length := by
  intro fuel
  induction fuel with
  | zero =>
    intro s body rest items h defs off fuel2 _ _
    simp only [decodeRecordsF] at h
    by_cases hn : body.length = 0
    · have hb : body = [] := List.length_eq_zero_iff.mp hn
      subst hb
      simp only [List.length_nil, if_true] at h
      injection h with h1 _
      exact ⟨[], by cases fuel2 <;> simp [FitFormat.parseRecords], by simp [← h1]⟩
    · simp [hn] at h
  | succ fuel ih =>
    intro s body rest items h defs off fuel2 hrel hfuel
    simp only [decodeRecordsF] at h
    by_cases hn : body.length = 0
    · have hb : body = [] := List.length_eq_zero_iff.mp hn
      subst hb
      simp only [List.length_nil, if_true] at h
      injection h with h1 _
      exact ⟨[], by cases fuel2 <;> simp [FitFormat.parseRecords], by simp [← h1]⟩
    · simp only [hn, if_false] at h
      cases hd : decodeRecordF tsKnown s (body ++ rest) with
      | error e => simp [hd] at h
      | ok p =>
        obtain ⟨it, s', rest1⟩ := p
        simp only [hd] at h
        generalize hsub : decodeRecordsF tsKnown fuel s' (body.length - ((body ++ rest).length - rest1.length)) rest1 = q at h
        obtain ⟨its, rr⟩ := q
        simp only at h
        injection h with h1 h2
        subst h2
        -- the record is a prefix `rec` of body; what follows is `pre ++ rest`
        obtain ⟨rec, hrec, hpos⟩ := decodeRecord_suffix tsKnown s _ it s' rest1 hd
        obtain ⟨pre, hpre, hlen⟩ := decodeRecords_suffix tsKnown _ _ _ _ _ _ hsub
        have hbody : body = rec ++ pre := by
          have : body ++ rest = (rec ++ pre) ++ rest := by rw [hrec, hpre]; simp
          exact List.append_cancel_right this
        have hused : (body ++ rest).length - rest1.length = rec.length := by rw [hrec]; simp
        rw [hused, hbody, List.length_append, Nat.add_sub_cancel_left, hpre] at hsub
        obtain ⟨hdb, tl, hbs, hc⟩ := record_spec tsKnown s _ it s' rest1 hd defs hrel off
        -- body = hdb :: btl
        obtain ⟨btl, hbt⟩ : ∃ btl, body = hdb :: btl := by
          cases body with
          | nil => simp at hn
          | cons x xs => simp at hbs; exact ⟨xs, by rw [hbs.1]⟩
        have htl : tl = btl ++ rest := by rw [hbt] at hbs; simp at hbs; exact hbs.symm
        obtain ⟨f2, rfl⟩ : ∃ f2, fuel2 = f2 + 1 := ⟨fuel2 - 1, by rw [hbt] at hfuel; simp at hfuel; omega⟩
        have hlenb : btl.length = rec.length - 1 + pre.length := by
          have := congrArg List.length hbody; rw [hbt] at this; simp at this; omega
        have hpf2 : pre.length ≤ f2 := by
          have hb2 : body.length = btl.length + 1 := by rw [hbt]; simp
          omega
        rcases hc with ⟨hisdef, rc, hp, hrel'⟩ | ⟨hisdef, n', hdefs, hn', hdrop, hrel'⟩
        · obtain ⟨k, hk, hz, hloc⟩ := parseDefinition_consumes _ _ _ _ _ hp
          -- rest1 = tl.drop k = pre ++ rest, so k ≤ btl.length and btl.drop k = pre
          have hk' : k ≤ btl.length := by
            have e1 : rest1.length = tl.length - k := by rw [hz]; simp
            have e2 : rest1.length = pre.length + rest.length := by rw [hpre]; simp
            have e3 : tl.length = btl.length + rest.length := by rw [htl]; simp
            omega
          have hdk : btl.drop k = pre := by
            have : (btl.drop k) ++ rest = pre ++ rest := by
              rw [← hpre, hz, htl, List.drop_append_of_le_length hk']
            exact List.append_cancel_right this
          have hpd : FitFormat.parseDefinition hdb off btl = some (rc, pre) := by
            have := hloc pre
            rw [htl, List.take_append_of_le_length hk'] at this
            have e : btl.take k ++ pre = btl := by rw [← hdk]; exact List.take_append_drop k btl
            rw [e] at this; exact this
          obtain ⟨recs, hr1, hr2⟩ := ih s' pre rest its hsub _ (off + rc.len) f2 hrel' hpf2
          refine ⟨rc :: recs, ?_, by simp [← h1, hr2]⟩
          rw [hbt]
          simp only [FitFormat.parseRecords, hisdef, if_true, hpd, hr1]
        · have hk' : n' ≤ btl.length := by
            have e1 : rest1.length = tl.length - n' := by rw [← hdrop]; simp
            have e2 : rest1.length = pre.length + rest.length := by rw [hpre]; simp
            have e3 : tl.length = btl.length + rest.length := by rw [htl]; simp
            omega
          have hdk : btl.drop n' = pre := by
            have : (btl.drop n') ++ rest = pre ++ rest := by
              rw [← hpre, ← hdrop, htl, List.drop_append_of_le_length hk']
            exact List.append_cancel_right this
          obtain ⟨recs, hr1, hr2⟩ := ih s' pre rest its hsub defs (off + 1 + n') f2 hrel' hpf2
          refine ⟨({ kind := .data, hdr := hdb, localNum := FitFormat.localNum hdb, off := off, len := 1 + n' } : FitFormat.Rec) :: recs, ?_, by simp [← h1, hr2]⟩
          rw [hbt]
          simp only [FitFormat.parseRecords, hisdef, Bool.false_eq_true, if_false, hdefs,
            (FitFormat.hasN_iff _ _).mpr hk', Bool.not_true, hdk, hr1]

theorem rel_fresh : Rel DecState.fresh FitFormat.Defs.empty := by
  intro i; simp [DecState.fresh, DecState.lookup, FitFormat.Defs.empty]

theorem parseHeader_hdrBytes (h : Hdr) (ds : Nat) (rest : Bytes) (hs : h.size = 12 ∨ h.size = 14)
    (hp : h.profileVer < 65536) (hds : ds < 4294967296) :
    FitFormat.parseHeader (hdrBytes h ds ++ rest) =
      some ⟨h.size, h.protoVer, h.profileVer, ds, if h.size = 14 then some (Fit.Crc.write 0 (b12 h ds)) else none⟩ := by
  have hcrc : Fit.Crc.write 0 (b12 h ds) < 2 ^ 16 := Fit.Crc.write_lt 0 (by decide) _
  have hpf : h.profileVer % 256 + 256 * (h.profileVer / 256 % 256) = h.profileVer := by omega
  obtain ⟨sz, pv, pf⟩ := h
  simp only at hs hp hpf
  rcases hs with rfl | rfl
  · simp [hdrBytes, FitFormat.parseHeader, Wire.le16, Wire.le32, FitFormat.le16, FitFormat.le32, FitFormat.tag, hpf, le32_val ds hds]
  · simp [hdrBytes, FitFormat.parseHeader, Wire.le16, Wire.le32, FitFormat.le16, FitFormat.le32, FitFormat.tag, hpf, le32_val ds hds, b12] at hcrc ⊢
    generalize Fit.Crc.write 0 _ = c at *
    omega

/-- ONE SEQUENCE parses under the independent framing spec, consuming exactly its bytes -/
theorem parseSeq_encodeFit (o : Opts) (ho : OptsOK o) (h : Hdr) (ms : List WMsg) (hf : FitOK o h ms) (off : Nat) (tail : Bytes) :
    ∃ v, FitFormat.parseSeq off (encodeFit o h ms ++ tail) = some (v, tail) ∧
      v.len = (encodeFit o h ms).length ∧ v.start = off ∧ v.header.size = h.size ∧
      v.header.dataSize = (encodeMsgs o (freshEnc o) ms).length := by
  simp only [encodeFit]
  have hpos := encodeMsgs_pos o (freshEnc o) ms hf.nonempty
  have hsmall := hf.small
  have hmod : (encodeMsgs o (freshEnc o) ms).length % 4294967296 = (encodeMsgs o (freshEnc o) ms).length := Nat.mod_eq_of_lt hsmall
  obtain ⟨items, hdec, _⟩ := encodeMsgs_roundtripF (fun _ => false) o ho.arch ms (freshEnc o) DecState.fresh hf.msgs
    (DefInv.fresh o.arch o.lruCap ho.capPos ho.cap16 _) ho.cap4
    (fun _ => Or.inl rfl)
    (Wire.le16 (Fit.Crc.write 0 (encodeMsgs o (freshEnc o) ms)) ++ tail) _ (Nat.le_refl _)
  obtain ⟨recs, hrecs, _⟩ := records_spec (fun _ => false) _ _ _ _ _ hdec FitFormat.Defs.empty (off + h.size)
    (encodeMsgs o (freshEnc o) ms).length rel_fresh (Nat.le_refl _)
  generalize encodeMsgs o (freshEnc o) ms = R at *
  have hph := parseHeader_hdrBytes h R.length (R ++ (Wire.le16 (Fit.Crc.write 0 R) ++ tail)) hf.size hf.profile hsmall
  have hlenH : (hdrBytes h R.length).length = h.size := by
    rcases hf.size with hs | hs <;> simp [hdrBytes, hs, Wire.le16, Wire.le32]
  refine ⟨⟨off, ⟨h.size, h.protoVer, h.profileVer, R.length, if h.size = 14 then some (Fit.Crc.write 0 (b12 h R.length)) else none⟩,
      recs, FitFormat.le16 (Fit.Crc.write 0 R % 256) (Fit.Crc.write 0 R / 256 % 256)⟩, ?_, ?_, rfl, rfl, rfl⟩
  · simp only [FitFormat.parseSeq, hmod, List.append_assoc, hph]
    have hdrop : (hdrBytes h R.length ++ (R ++ (Wire.le16 (Fit.Crc.write 0 R) ++ tail))).drop h.size =
        R ++ (Wire.le16 (Fit.Crc.write 0 R) ++ tail) := by
      rw [← hlenH]; exact List.drop_left
    simp only [hdrop]
    have hhas : FitFormat.hasN (R ++ (Wire.le16 (Fit.Crc.write 0 R) ++ tail)) (R.length + 2) = true := by
      apply (FitFormat.hasN_iff _ _).mpr; simp [Wire.le16]
    simp only [hhas, Bool.not_true, Bool.false_eq_true, if_false, List.take_left', List.drop_left', hrecs]
    simp [Wire.le16, List.take_left', List.drop_left']
  · simp [FitFormat.SeqView.len, hmod, hlenH, Wire.le16]; omega

theorem encodeFit_length_pos (o : Opts) (h : Hdr) (ms : List WMsg) : 0 < (encodeFit o h ms).length := by
  simp [encodeFit, Wire.le16, List.length_append]; omega

/-- CHAINS: the whole stream parses, one sequence view per encoded sequence, nothing left over -/
theorem parseSeqs_encodeChain (o : Opts) (ho : OptsOK o) (fits : List (Hdr × List WMsg)) :
    (∀ f ∈ fits, FitOK o f.1 f.2) → ∀ (off fuel : Nat), fits.length ≤ fuel →
    ∃ seqs, FitFormat.parseSeqs fuel off (encodeChain o fits) = some seqs ∧ seqs.length = fits.length := by
  induction fits with
  | nil => intro _ off fuel _; exact ⟨[], by cases fuel <;> simp [encodeChain, FitFormat.parseSeqs], rfl⟩
  | cons hm fits ih =>
    intro hall off fuel hfuel
    obtain ⟨h, ms⟩ := hm
    obtain ⟨f2, rfl⟩ : ∃ f2, fuel = f2 + 1 := ⟨fuel - 1, by simp at hfuel; omega⟩
    obtain ⟨v, hv, hvl, _⟩ := parseSeq_encodeFit o ho h ms (hall (h, ms) (by simp)) off (encodeChain o fits)
    obtain ⟨seqs, hs, hl⟩ := ih (fun x hx => hall x (by simp [hx])) (off + v.len) f2 (by simp at hfuel; omega)
    have e : encodeChain o ((h, ms) :: fits) = encodeFit o h ms ++ encodeChain o fits := by simp [encodeChain]
    have hne : ∃ a t, encodeFit o h ms ++ encodeChain o fits = a :: t := by
      have := encodeFit_length_pos o h ms
      cases hE : encodeFit o h ms with
      | nil => simp [hE] at this
      | cons a t => exact ⟨a, t ++ encodeChain o fits, by simp⟩
    obtain ⟨a, t, hat⟩ := hne
    refine ⟨v :: seqs, ?_, by simp [hl]⟩
    rw [e, hat, FitFormat.parseSeqs, ← hat, hv]
    simp only [hs]

end Fit.Bridge
