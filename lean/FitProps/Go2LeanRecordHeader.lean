import FitModel.Wire
import FitModel.FitFormat
import FitModel.Generated.Go_decoder
import FitModel.Generated.Go_encoder
import FitProps.Go2LeanLemmas
/-!
Agreement of the record-header bit handling GENERATED from the current source — decoder/decoder.go (`decodeMessage`:
definition or data record; `decodeMessageDefinition`: developer-data flag; `decodeMessageData`: which local message type a
data record addresses) and encoder/encoder.go (`encodeMessage`: where the local message type goes in the header) — with the
format specification `Fit.FitFormat` and the encoder model `Fit.Wire.encodeMsg`.
-/
set_option linter.unusedSimpArgs false
namespace Fit.Go2Lean

/-- decoder: "this record is a message definition" / "it carries developer field definitions" as the format says -/
theorem hdr_dec_kind : ∀ h < 256, Go.decoder.decodeMessage_isDefinition h = Fit.FitFormat.isDefinition h ∧
    Go.decoder.decodeMessageDefinition_hasDevData h = Fit.FitFormat.hasDevData h := by decide +kernel

/-- decoder: the local message type of a data record (after the `& LocalMesgNumMask` of the look-up) is the format's
`localNum`; in a compressed-timestamp header it is already below 4 -/
theorem hdr_dec_local : ∀ h < 256,
    (Go.decoder.decodeMessageData_localMesgNum h).localMesgNum &&& 15 = Fit.FitFormat.localNum h ∧
    (h ≥ 128 → (Go.decoder.decodeMessageData_localMesgNum h).localMesgNum < 4) := by decide +kernel

/-- encoder: the header byte of a data record as the encoder model composes it — `(0x80 ||| offset) ||| (i <<< 5) % 256` for a
compressed timestamp, `i` otherwise (the header is `MesgNormalHeaderMask` = 0 before) — for every local message type `i` -/
theorem hdr_enc (i t : Nat) :
    (Go.encoder.encodeMessage_header true i (0x80 ||| t)).mesg_Header = (0x80 ||| t) ||| ((i <<< 5) % 256) ∧
    (Go.encoder.encodeMessage_header false i 0).mesg_Header = i := by
  simp [Go.encoder.encodeMessage_header, id_run, id_pure, id_bind]

/-- encoder and decoder agree on where the local message type sits: what the encoder puts into a header (local message
types 0..3 next to a time offset, 0..15 otherwise) is what the decoder reads back -/
theorem hdr_roundtrip : (∀ i < 4, ∀ t < 32,
      (Go.decoder.decodeMessageData_localMesgNum (Go.encoder.encodeMessage_header true i (0x80 ||| t)).mesg_Header).localMesgNum = i) ∧
    (∀ i < 16, (Go.decoder.decodeMessageData_localMesgNum (Go.encoder.encodeMessage_header false i 0).mesg_Header).localMesgNum = i) := by
  decide +kernel

end Fit.Go2Lean
