import FitProps.DecoderApiHistLemmas
/-! **What `Decode` returns does not depend on the bytes that follow the sequence.** `ext t s` is the decoder state `s` on a
stream that goes on with `t` after what `s` has; every function of the model, run on `ext t s`, does what it does on `s`
— same result, same listener calls, the state again extended by `t` — unless the shorter stream ended too early for it
(`.err .eof`). Relational Hoare layer `Res.Ext` over the result monad, one lemma per function. -/
namespace Fit.DecApi
open Fit.Crc Fit.Value Fit.Gen Fit.Gen.DecApi

/-- the same decoder on a stream that continues with `t` -/
def ext (t : List Nat) (s : St) : St := { s with rest := s.rest ++ t }

@[simp] theorem ext_q (t : List Nat) (s : St) : (ext t s).q = s.q := rfl
@[simp] theorem ext_o (t : List Nat) (s : St) : (ext t s).o = s.o := rfl
@[simp] theorem ext_look (t : List Nat) (s : St) : (ext t s).look = s.look := rfl
@[simp] theorem ext_rest (t : List Nat) (s : St) : (ext t s).rest = s.rest ++ t := rfl
theorem ext_setQ (t : List Nat) (s : St) (q : Seq) : ext t { s with q := q } = { ext t s with q := q } := rfl
theorem ext_setLook (t : List Nat) (s : St) (l : Look) : ext t { s with look := l } = { ext t s with look := l } := rfl
theorem ext_setO (t : List Nat) (s : St) (o : Opts) : ext t { s with o := o } = { ext t s with o := o } := rfl

/-- the run on the longer stream does what the run on the shorter one does, unless the shorter one met the end of its
stream (panic / hang on the left never happen: C03) -/
def Res.Ext {α β} (R : α → β → Prop) : Res α → Res β → Prop
  | .ok a, .ok b => R a b
  | .ok _, _ => False
  | .err e, r => e = .eof ∨ r = .err e
  | .panic, _ => True
  | .hang, _ => True

theorem Res.Ext.bind {α β γ δ} {R : α → β → Prop} {Q : γ → δ → Prop} {r1 : Res α} {r2 : Res β} {f : α → Res γ} {g : β → Res δ}
    (h1 : Res.Ext R r1 r2) (h2 : ∀ a b, R a b → Res.Ext Q (f a) (g b)) : Res.Ext Q (r1 >>= f) (r2 >>= g) := by
  cases r1 with
  | ok a =>
    cases r2 with
    | ok b => exact h2 a b h1
    | err e => exact h1.elim
    | panic => exact h1.elim
    | hang => exact h1.elim
  | err e =>
    rcases h1 with h | h
    · exact Or.inl h
    · subst h; exact Or.inr rfl
  | panic => trivial
  | hang => trivial

theorem Res.Ext.refl {α} (r : Res α) : Res.Ext (fun a b => b = a) r r := by
  cases r with
  | ok a => rfl
  | err e => exact Or.inr rfl
  | panic => trivial
  | hang => trivial

theorem Res.Ext.mono {α β} {R Q : α → β → Prop} {r1 : Res α} {r2 : Res β} (h : Res.Ext R r1 r2) (hq : ∀ a b, R a b → Q a b) :
    Res.Ext Q r1 r2 := by
  cases r1 <;> cases r2 <;> simp_all [Res.Ext]

/-- result and state of a reading function on the longer stream -/
abbrev RS {α} (t : List Nat) : α × St → α × St → Prop := fun p p' => p'.1 = p.1 ∧ p'.2 = ext t p.2

theorem rawRead_ext (t : List Nat) (k : Nat) (s : St) : Res.Ext (RS t) (rawRead k s) (rawRead k (ext t s)) := by
  unfold rawRead
  split
  · trivial
  · simp only [ext_rest]
    by_cases h : Fit.Integrity.hasN s.rest k = true
    · have hk : k ≤ s.rest.length := (hasN_iff _ _).mp h
      have h' : Fit.Integrity.hasN (s.rest ++ t) k = true := (hasN_iff _ _).mpr (by rw [List.length_append]; omega)
      simp only [h, h', if_true]
      refine ⟨?_, ?_⟩
      · simp [List.take_append_of_le_length hk]
      · simp [ext, List.drop_append_of_le_length hk]
    · simp only [h]
      exact Or.inl rfl

theorem readN_ext (t : List Nat) (k : Nat) (s : St) : Res.Ext (RS t) (readN k s) (readN k (ext t s)) := by
  unfold readN
  refine Res.Ext.bind (rawRead_ext t k s) ?_
  rintro ⟨b, s1⟩ ⟨b', s1'⟩ ⟨hb, hs⟩
  simp only at hb hs
  subst hb hs
  exact ⟨rfl, rfl⟩

theorem Res.Ext.ite {α β} {R : α → β → Prop} {c : Prop} [Decidable c] {a b : Res α} {a' b' : Res β}
    (h1 : c → Res.Ext R a a') (h2 : ¬ c → Res.Ext R b b') : Res.Ext R (if c then a else b) (if c then a' else b') := by
  by_cases hc : c
  · simp only [hc, if_true]; exact h1 hc
  · simp only [hc, if_false]; exact h2 hc

theorem Res.Ext.err {α β} {R : α → β → Prop} (e : Err) : Res.Ext R (.err e : Res α) (.err e : Res β) := Or.inr rfl

/-- a step that reads: same bytes, state extended -/
macro "ext_read" h:term " => " b:ident s:ident : tactic =>
  `(tactic| (refine Res.Ext.bind $h ?_; rintro ⟨$b:ident, $s:ident⟩ ⟨b', s1'⟩ ⟨hb, hs⟩; simp only at hb hs; have hb2 := hb.symm; subst hb2; subst hs;
             simp only [ext_q, ext_o, ext_look]))
/-- a step that does not touch the state -/
macro "ext_pure" " => " x:ident : tactic =>
  `(tactic| (refine Res.Ext.bind (Res.Ext.refl _) ?_; intro $x:ident y hxy; have hxy2 := hxy.symm; subst hxy2))

theorem decodeFileHeader_ext (t : List Nat) (s : St) :
    Res.Ext (fun s' s'' => s'' = ext t s') (decodeFileHeader s) (decodeFileHeader (ext t s)) := by
  unfold decodeFileHeader
  ext_read (rawRead_ext t _ _) => b0 s1
  ext_pure => size
  refine Res.Ext.ite (fun _ => Res.Ext.err _) (fun _ => ?_)
  ext_read (rawRead_ext t _ _) => b1 s2
  ext_pure => dt
  refine Res.Ext.ite (fun _ => Res.Ext.err _) (fun _ => ?_)
  ext_pure => pv
  ext_pure => prof
  ext_pure => ds
  refine Res.Ext.ite (fun _ => Res.Ext.err _) (fun _ => ?_)
  refine Res.Ext.ite (fun _ => ?_) (fun _ => ?_)
  · ext_pure => crcb
    refine Res.Ext.ite (fun _ => rfl) (fun _ => ?_)
    ext_pure => body
    exact Res.Ext.ite (fun _ => Res.Ext.err _) (fun _ => rfl)
  · ext_pure => crcb
    refine Res.Ext.ite (fun _ => rfl) (fun _ => ?_)
    ext_pure => body
    exact Res.Ext.ite (fun _ => Res.Ext.err _) (fun _ => rfl)

theorem headerOnce_ext (t : List Nat) (s : St) :
    Res.Ext (fun s' s'' => s'' = ext t s') (headerOnce s) (headerOnce (ext t s)) := by
  unfold headerOnce
  simp only [ext_q]
  refine Res.Ext.ite (fun _ => ?_) (fun _ => ?_)
  · cases s.q.err with
    | some e => exact Res.Ext.err _
    | none => rfl
  · have h := decodeFileHeader_ext t s
    cases h1 : decodeFileHeader s with
    | ok s' =>
      rw [h1] at h
      cases h2 : decodeFileHeader (ext t s) with
      | ok s'' => rw [h2] at h; simp only [Res.Ext] at h; subst h; rfl
      | err e => rw [h2] at h; exact h.elim
      | panic => rw [h2] at h; exact h.elim
      | hang => rw [h2] at h; exact h.elim
    | err e =>
      rw [h1] at h
      rcases h with h | h
      · exact Or.inl h
      · rw [h]; exact Or.inr rfl
    | panic => trivial
    | hang => trivial

/-- result of a record-level function on the longer stream: the state extended, the same listener call -/
abbrev RE (t : List Nat) : St × Option Event → St × Option Event → Prop := fun p p' => p'.1 = ext t p.1 ∧ p'.2 = p.2

theorem decodeDefinition_ext (t : List Nat) (header : Nat) (s : St) :
    Res.Ext (RE t) (decodeDefinition header s) (decodeDefinition header (ext t s)) := by
  unfold decodeDefinition
  ext_read (readN_ext t _ _) => b5 s1
  refine Res.Ext.ite (fun _ => trivial) (fun _ => ?_)
  ext_pure => reserved
  ext_pure => arch
  ext_pure => mn
  ext_pure => n
  ext_read (readN_ext t _ _) => fb s2
  cases parseFieldDefs fb with
  | none => exact Res.Ext.err _
  | some fields =>
    simp only
    refine Res.Ext.bind (R := RS t) ?_ ?_
    · refine Res.Ext.ite (fun _ => ?_) (fun _ => ⟨rfl, rfl⟩)
      ext_read (readN_ext t _ _) => nb s3
      ext_pure => k
      ext_read (readN_ext t _ _) => db s4
      exact ⟨rfl, rfl⟩
    · rintro ⟨devs, s5⟩ ⟨devs', s5'⟩ ⟨hd, hs⟩
      simp only at hd hs
      subst hd hs
      exact ⟨rfl, rfl⟩

theorem readValue_ext (t : List Nat) (size arch bt : Nat) (isBool isArray ov : Bool) (s : St) :
    Res.Ext (RS t) (readValue size arch bt isBool isArray ov s) (readValue size arch bt isBool isArray ov (ext t s)) := by
  unfold readValue
  ext_read (readN_ext t _ _) => b s1
  split
  · exact ⟨rfl, rfl⟩
  · exact Res.Ext.err _
  · trivial

theorem noteTs_ext (t : List Nat) (num : Nat) (v : Value) (s : St) : noteTs num v (ext t s) = ext t (noteTs num v s) := by
  unfold noteTs
  split
  · split <;> rfl
  · rfl

theorem noteAcc_ext (t : List Nat) (a : Bool) (m n : Nat) (v : Value) (s : St) :
    noteAcc a m n v (ext t s) = ext t (noteAcc a m n v s) := by
  unfold noteAcc
  simp only [ext_o, ext_q]
  by_cases h : a = true ∧ s.o.exp = true
  · simp only [h, and_self, if_true]; rfl
  · simp only [h, if_false]

theorem decodeField_ext (t : List Nat) (d : MesgDef) (fd : FieldDef) (s : St) :
    Res.Ext (RS t) (decodeField d fd s) (decodeField d fd (ext t s)) := by
  unfold decodeField
  simp only [ext_o]
  ext_pure => shape
  refine Res.Ext.ite (fun _ => ⟨rfl, rfl⟩) (fun _ => ?_)
  ext_read (readValue_ext t _ _ _ _ _ _ _) => v s1
  refine ⟨rfl, ?_⟩
  simp only
  rw [noteTs_ext, noteAcc_ext]

theorem decodeFields_ext (t : List Nat) (d : MesgDef) : ∀ (fds : List FieldDef) (acc : List DField) (s : St),
    Res.Ext (RS t) (decodeFields d fds acc s) (decodeFields d fds acc (ext t s))
  | [], acc, s => by unfold decodeFields; exact ⟨rfl, rfl⟩
  | fd :: fds, acc, s => by
    unfold decodeFields
    ext_read (decodeField_ext t d fd s) => f s1
    exact decodeFields_ext t d fds _ s1

theorem decodeDevField_ext (t : List Nat) (d : MesgDef) (dd : DevDef) (fdsc : Desc) (s : St) :
    Res.Ext (RS t) (decodeDevField d dd fdsc s) (decodeDevField d dd fdsc (ext t s)) := by
  unfold decodeDevField
  refine Res.Ext.ite (fun _ => Res.Ext.err _) (fun _ => ?_)
  ext_pure => arr
  refine Res.Ext.ite (fun _ => ⟨rfl, rfl⟩) (fun _ => ?_)
  ext_read (readValue_ext t _ _ _ _ _ _ _) => v s1
  exact ⟨rfl, rfl⟩

theorem decodeDevFields_ext (t : List Nat) (d : MesgDef) : ∀ (dds : List DevDef) (acc : List DDev) (s : St),
    Res.Ext (RS t) (decodeDevFields d dds acc s) (decodeDevFields d dds acc (ext t s))
  | [], acc, s => by unfold decodeDevFields; exact ⟨rfl, rfl⟩
  | dd :: dds, acc, s => by
    unfold decodeDevFields
    simp only [ext_look]
    split
    · ext_read (readN_ext t _ _) => b s1
      exact decodeDevFields_ext t d dds _ s1
    · ext_read (decodeDevField_ext t d dd _ s) => f s1
      exact decodeDevFields_ext t d dds _ s1

theorem noteMesg_ext (t : List Nat) (mesgNum : Nat) (fields : List DField) (s : St) :
    noteMesg mesgNum fields (ext t s) = ext t (noteMesg mesgNum fields s) := by
  unfold noteMesg
  simp only [ext_q]
  by_cases h1 : s.q.fileId.isNone = true ∧ mesgNum = mesgNumFileId
  · simp only [h1, and_self, if_true]
    split
    · rfl
    · split <;> rfl
  · simp only [h1, if_false]
    split
    · rfl
    · split <;> rfl

theorem pushMsg_ext (t : List Nat) (m : Msg) (s : St) : pushMsg m (ext t s) = ext t (pushMsg m s) := by
  unfold pushMsg
  simp only [ext_o, ext_q]
  by_cases h : (!s.o.bo) = true
  · simp only [h, if_true]; rfl
  · simp only [h, if_false]; rfl

theorem decodeData_ext (t : List Nat) (header : Nat) (s : St) :
    Res.Ext (RE t) (decodeData header s) (decodeData header (ext t s)) := by
  unfold decodeData
  show Res.Ext (RE t) (match s.look.lookup _ with | none => _ | some d => _) (match s.look.lookup _ with | none => _ | some d => _)
  split
  · exact Res.Ext.err _
  rename_i d hd
  simp only
  have hc : compressedTs header d (ext t s) = (ext t (compressedTs header d s).1, (compressedTs header d s).2) := rfl
  refine Res.Ext.bind (R := RS t) ?_ ?_
  · split
    · rw [hc]; exact decodeFields_ext t d d.fields _ _
    · exact decodeFields_ext t d d.fields _ _
  rintro ⟨fields0, s0⟩ ⟨f', s0'⟩ ⟨hf, hs⟩
  simp only at hf hs
  have hf2 := hf.symm; subst hf2; subst hs
  simp only [ext_o, ext_q]
  refine Res.Ext.bind (R := RS t) ?_ ?_
  · refine Res.Ext.ite (fun _ => ?_) (fun _ => ⟨rfl, rfl⟩)
    split
    · exact ⟨rfl, rfl⟩
    · trivial
  rintro ⟨fields, s1⟩ ⟨f', s1'⟩ ⟨hf, hs⟩
  simp only at hf hs
  have hf2 := hf.symm; subst hf2; subst hs
  simp only [noteMesg_ext]
  refine Res.Ext.bind (R := RS t) ?_ ?_
  · refine Res.Ext.ite (fun _ => ⟨rfl, rfl⟩) (fun _ => ?_)
    exact decodeDevFields_ext t d d.devs [] _
  rintro ⟨devs, s2⟩ ⟨d', s2'⟩ ⟨hd', hs⟩
  simp only at hd' hs
  have hd2 := hd'.symm; subst hd2; subst hs
  simp only [pushMsg_ext]
  exact ⟨rfl, rfl⟩

theorem decodeMessage_ext (t : List Nat) (s : St) : Res.Ext (RE t) (decodeMessage s) (decodeMessage (ext t s)) := by
  unfold decodeMessage
  ext_read (readN_ext t _ _) => b s1
  ext_pure => header
  refine Res.Ext.ite (fun _ => decodeDefinition_ext t header s1) (fun _ => decodeData_ext t header s1)

/-- how a record loop on the longer stream relates to the loop on the shorter one -/
def LoopExt (t : List Nat) (l l' : LoopOut) : Prop :=
  match l.2.2 with
  | .ok () => l' = (ext t l.1, l.2.1, .ok ())
  | .err e => e = .eof ∨ (l'.2.1 = l.2.1 ∧ l'.2.2 = .err e)
  | _ => True

theorem decodeMessages_ext (t : List Nat) : ∀ (fuel : Nat) (s : St),
    LoopExt t (decodeMessages fuel s) (decodeMessages fuel (ext t s))
  | 0, s => by
    unfold decodeMessages
    simp only [ext_q]
    by_cases h : s.q.cur < s.q.hdr.dataSize
    · simp only [h, if_true, LoopExt]
    · simp only [h, if_false, LoopExt]
  | fuel + 1, s => by
    unfold decodeMessages
    simp only [ext_q]
    by_cases h : s.q.cur < s.q.hdr.dataSize
    · simp only [h, if_true]
      have hm := decodeMessage_ext t s
      cases h1 : decodeMessage s with
      | ok p =>
        obtain ⟨s', ev⟩ := p
        rw [h1] at hm
        cases h2 : decodeMessage (ext t s) with
        | ok p' =>
          obtain ⟨s'', ev'⟩ := p'
          rw [h2] at hm
          obtain ⟨hs, hev⟩ := hm
          simp only at hs hev
          subst hs hev
          have ih := decodeMessages_ext t fuel s'
          simp only
          rcases hl : decodeMessages fuel s' with ⟨sf, evs, r⟩
          rw [hl] at ih
          unfold LoopExt at ih ⊢
          cases r with
          | ok u => simp only at ih ⊢; rw [ih]
          | err e =>
            simp only at ih ⊢
            rcases ih with ih | ih
            · exact Or.inl ih
            · exact Or.inr ⟨by rw [ih.1], ih.2⟩
          | panic => trivial
          | hang => trivial
        | err e => rw [h2] at hm; exact hm.elim
        | panic => rw [h2] at hm; exact hm.elim
        | hang => rw [h2] at hm; exact hm.elim
      | err e =>
        rw [h1] at hm
        simp only [loopFail, LoopExt]
        rcases hm with hm | hm
        · exact Or.inl hm
        · rw [hm]; exact Or.inr ⟨rfl, rfl⟩
      | panic => simp only [loopFail, LoopExt]
      | hang => simp only [loopFail, LoopExt]
    · simp only [h, if_false, LoopExt]

theorem decodeCRC_ext (t : List Nat) (s : St) :
    Res.Ext (fun s' s'' => s'' = ext t s') (decodeCRC s) (decodeCRC (ext t s)) := by
  unfold decodeCRC
  ext_read (rawRead_ext t _ _) => b s1
  ext_pure => lo
  ext_pure => hi
  exact Res.Ext.ite (fun _ => Res.Ext.err _) (fun _ => rfl)

/-- the outcome of an API call on the longer stream -/
def StepExt (t : List Nat) (r r' : StepOut) : Prop :=
  match r.2.1 with
  | .fit f => r' = (ext t r.1, .fit f, r.2.2)
  | .err e => e = .eof ∨ r'.2 = (.err e, r.2.2)
  | _ => True

theorem release_ext (t : List Nat) (s : St) : release (ext t s) = ext t (release s) := rfl
theorem resetSeq_ext (t : List Nat) (s : St) : resetSeq (ext t s) = ext t (resetSeq s) := rfl

theorem decodeTail_ext (t : List Nat) (l l' : LoopOut) (h : LoopExt t l l') : StepExt t (decodeTail l) (decodeTail l') := by
  obtain ⟨s2, evs, r⟩ := l
  unfold LoopExt at h
  cases r with
  | ok u =>
    simp only at h
    subst h
    unfold decodeTail
    simp only
    have hc := decodeCRC_ext t s2
    cases h1 : decodeCRC s2 with
    | ok s3 =>
      rw [h1] at hc
      cases h2 : decodeCRC (ext t s2) with
      | ok s3' =>
        rw [h2] at hc
        simp only [Res.Ext] at hc
        subst hc
        simp only [StepExt]
        rfl
      | err e => rw [h2] at hc; exact hc.elim
      | panic => rw [h2] at hc; exact hc.elim
      | hang => rw [h2] at hc; exact hc.elim
    | err e =>
      rw [h1] at hc
      simp only [StepExt, fail]
      rcases hc with hc | hc
      · exact Or.inl hc
      · rw [hc]; exact Or.inr rfl
    | panic => simp only [StepExt, fail]
    | hang => simp only [StepExt, fail]
  | err e =>
    simp only at h
    obtain ⟨s2', evs', r'⟩ := l'
    unfold decodeTail
    simp only [StepExt, fail]
    rcases h with h | h
    · exact Or.inl h
    · simp only at h
      obtain ⟨h1, h2⟩ := h
      subst h1 h2
      exact Or.inr rfl
  | panic => unfold decodeTail; simp only [StepExt, fail]
  | hang => unfold decodeTail; simp only [StepExt, fail]

/-- **`Decode` does not look beyond the sequence**: on a stream that continues with `t`, `Decode` returns the same FIT
with the same listener calls and stands at the same place (the state it leaves is the one it leaves on the shorter
stream, extended by `t`); and an error other than "the stream ended" is the same error after the same listener calls. -/
theorem stepDecode_ext (t : List Nat) (s : St) (hi : Inv s) : StepExt t (stepDecode s) (stepDecode (ext t s)) := by
  unfold stepDecode
  simp only [ext_q]
  cases he : s.q.err with
  | some e => exact Or.inr rfl
  | none =>
    simp only
    have hh := headerOnce_ext t s
    cases h1 : headerOnce s with
    | ok s1 =>
      rw [h1] at hh
      cases h2 : headerOnce (ext t s) with
      | ok s1' =>
        rw [h2] at hh
        simp only [Res.Ext] at hh
        subst hh
        rw [decodeBody_eq s s1 h1, decodeBody_eq (ext t s) (ext t s1) h2]
        have i1 := (headerOnce_ok s s1 hi he h1).1
        have hf : decodeMessages (fuelOf s1) s1 = decodeMessages (fuelOf (ext t s1)) s1 :=
          (decodeMessages_fuel (fuelOf (ext t s1)) s1 i1 (by simp [fuelOf])).symm
        rw [hf]
        exact decodeTail_ext t _ _ (decodeMessages_ext t _ s1)
      | err e => rw [h2] at hh; exact hh.elim
      | panic => rw [h2] at hh; exact hh.elim
      | hang => rw [h2] at hh; exact hh.elim
    | err e =>
      rw [h1] at hh
      unfold decodeBody
      rw [h1]
      simp only [StepExt, failHeader, fail]
      rcases hh with hh | hh
      · exact Or.inl hh
      · rw [hh]; exact Or.inr rfl
    | panic => unfold decodeBody; rw [h1]; simp only [StepExt, failHeader, fail]
    | hang => unfold decodeBody; rw [h1]; simp only [StepExt, failHeader, fail]

end Fit.DecApi
