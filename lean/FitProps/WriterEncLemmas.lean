import FitProps.WriterLemmas
import FitProps.IntegrityLemmas
/-!
Helper lemmas about the writer model, part 2: the encoder's output functions under ANY fault schedule.
`Wrote` = `Appended` plus the encoder's counters (`n`, running CRC, data size); `encodeBody_wrote` is the common
part of every output path; `Rewrote` is the contract of `updateFileHeader`.
-/
namespace Fit.Writer
open Fit.Wire Fit.Crc

/-- the contract of the encoder functions that append records: `Appended` for the writer plus the encoder's counters -/
structure Wrote (F : Faults) (e : Enc) (out : Bytes) (e' : Enc) (ok : Bool) : Prop where
  app : Appended F e.w out e'.w ok
  hdrPos : e'.lastHdrPos = e.lastHdrPos
  n : ok = true → e'.n = e.n + out.length
  crc : ok = true → e'.crc = write e.crc out
  ds : ok = true → e'.dataSize = (e.dataSize + out.length) % 4294967296

theorem Wrote.refl (F : Faults) (e : Enc) (hg : e.w.Good) (hds : e.dataSize < 4294967296) : Wrote F e [] e true :=
  ⟨Appended.refl F e.w hg, rfl, (by intro _; rfl), (by intro _; rfl), (by intro _; simp; omega)⟩

theorem Wrote.trans {F : Faults} {e e1 e2 : Enc} {p q : Bytes} {ok : Bool}
    (h1 : Wrote F e p e1 true) (h2 : Wrote F e1 q e2 ok) : Wrote F e (p ++ q) e2 ok := by
  refine ⟨h1.app.trans h2.app, h2.hdrPos.trans h1.hdrPos, ?_, ?_, ?_⟩
  · intro hok; rw [h2.n hok, h1.n rfl, List.length_append]; omega
  · intro hok; rw [h2.crc hok, h1.crc rfl, Fit.Integrity.write_append]
  · intro hok; rw [h2.ds hok, h1.ds rfl, List.length_append]; omega

theorem Wrote.fail_mono {F : Faults} {e e1 : Enc} {p : Bytes} (q : Bytes)
    (h1 : Wrote F e p e1 false) : Wrote F e (p ++ q) e1 false :=
  ⟨h1.app.fail_mono q, h1.hdrPos, (by intro h; cases h), (by intro h; cases h), (by intro h; cases h)⟩

theorem writeRecord_wrote (F : Faults) (e : Enc) (b : Bytes) (hg : e.w.Good) :
    Wrote F e b (writeRecord F e b).1 (writeRecord F e b).2 ∧ (writeRecord F e b).1.es = e.es := by
  have ha := write_appended F e.w b hg
  unfold writeRecord
  by_cases hok : (e.w.write F b).2.2 = true
  · have hn := write_n F e.w b hg hok
    rw [hok] at ha
    simp only [hok, if_true]
    exact ⟨⟨ha, rfl, (by intro _; simp [hn]), (by intro _; rfl), (by intro _; simp [hn])⟩, trivial⟩
  · have hok' : (e.w.write F b).2.2 = false := by simpa using hok
    rw [hok'] at ha
    simp only [hok', Bool.false_eq_true, if_false]
    exact ⟨⟨ha, rfl, (by intro h; cases h), (by intro h; cases h), (by intro h; cases h)⟩, trivial⟩

theorem encodeMessage_wrote (F : Faults) (o : Opts) (e : Enc) (m : WMsg) (hg : e.w.Good) :
    Wrote F e (encodeMsg o e.es m).2 (encodeMessage F o e m).1 (encodeMessage F o e m).2 ∧
    (encodeMessage F o e m).1.es = (encodeMsg o e.es m).1 := by
  rw [encodeMsg_parts]
  unfold encodeMessage
  generalize encodeMsgParts o e.es m = parts
  obtain ⟨es', d?, rec⟩ := parts
  cases d? with
  | none =>
    simp only [List.nil_append]
    have := writeRecord_wrote F { e with es := es' } rec hg
    exact ⟨⟨this.1.app, this.1.hdrPos, this.1.n, this.1.crc, this.1.ds⟩, this.2⟩
  | some db =>
    simp only
    have h1 := writeRecord_wrote F { e with es := es' } db hg
    by_cases hok : (writeRecord F { e with es := es' } db).2 = true
    · simp only [hok, if_true]
      rw [hok] at h1
      have h2 := writeRecord_wrote F (writeRecord F { e with es := es' } db).1 rec h1.1.app.good
      have := h1.1.trans h2.1
      exact ⟨⟨this.app, this.hdrPos, this.n, this.crc, this.ds⟩, h2.2.trans h1.2⟩
    · have hok' : (writeRecord F { e with es := es' } db).2 = false := by simpa using hok
      simp only [hok', Bool.false_eq_true, if_false]
      rw [hok'] at h1
      have := h1.1.fail_mono rec
      exact ⟨⟨this.app, this.hdrPos, this.n, this.crc, this.ds⟩, h1.2⟩

theorem encodeMessages_wrote (F : Faults) (o : Opts) (e : Enc) (ms : List WMsg) (hg : e.w.Good) (hds : e.dataSize < 4294967296) :
    Wrote F e (encodeMsgs o e.es ms) (encodeMessages F o e ms).1 (encodeMessages F o e ms).2 := by
  induction ms generalizing e with
  | nil => simpa [encodeMessages, encodeMsgs] using Wrote.refl F e hg hds
  | cons m ms ih =>
    obtain ⟨h1, hes⟩ := encodeMessage_wrote F o e m hg
    unfold encodeMessages
    rw [encodeMsgs_cons]
    by_cases hok : (encodeMessage F o e m).2 = true
    · simp only [hok, if_true]
      rw [hok] at h1
      have hds1 : (encodeMessage F o e m).1.dataSize < 4294967296 := by rw [h1.ds rfl]; omega
      have h2 := ih (encodeMessage F o e m).1 h1.app.good hds1
      rw [hes] at h2
      exact h1.trans h2
    · have hok' : (encodeMessage F o e m).2 = false := by simpa using hok
      simp only [hok', Bool.false_eq_true, if_false]
      rw [hok'] at h1
      exact h1.fail_mono _

theorem encodeFileHeader_spec (F : Faults) (e : Enc) (h : Hdr) (ds : Nat) (hg : e.w.Good) :
    Appended F e.w (hdrBytesFrom e.crc h ds) (encodeFileHeader F e h ds).1.w (encodeFileHeader F e h ds).2 ∧
    (encodeFileHeader F e h ds).1.lastHdrPos = e.n ∧
    ((encodeFileHeader F e h ds).2 = true → (encodeFileHeader F e h ds).1.n = e.n + (hdrBytesFrom e.crc h ds).length) ∧
    (encodeFileHeader F e h ds).1.crc = (if h.size = 14 then 0 else e.crc) ∧
    (encodeFileHeader F e h ds).1.dataSize = e.dataSize ∧ (encodeFileHeader F e h ds).1.es = e.es := by
  refine ⟨write_appended F e.w _ hg, rfl, ?_, rfl, rfl, rfl⟩
  intro hok
  have := write_n F e.w _ hg hok
  simp only [encodeFileHeader, this]

theorem encodeCRC_spec (F : Faults) (e : Enc) (hg : e.w.Good) :
    Appended F e.w (Wire.le16 e.crc) (encodeCRC F e).1.w (encodeCRC F e).2 ∧
    (encodeCRC F e).1.lastHdrPos = e.lastHdrPos ∧ (encodeCRC F e).1.dataSize = e.dataSize ∧
    ((encodeCRC F e).2 = true → (encodeCRC F e).1.n = e.n + 2 ∧ (encodeCRC F e).1.crc = 0) := by
  have ha := write_appended F e.w (Wire.le16 e.crc) hg
  unfold encodeCRC
  by_cases hok : (e.w.write F (Wire.le16 e.crc)).2.2 = true
  · have hn := write_n F e.w _ hg hok
    rw [if_pos hok]
    rw [hok] at ha
    refine ⟨ha, rfl, rfl, fun _ => ⟨?_, rfl⟩⟩
    show e.n + _ = e.n + 2
    rw [hn]; rfl
  · have hok' : (e.w.write F (Wire.le16 e.crc)).2.2 = false := by simpa using hok
    rw [if_neg hok]
    rw [hok'] at ha
    exact ⟨ha, rfl, rfl, by intro h; cases h⟩

/-- the encoder's per-sequence state right after `reset()` -/
structure Enc.Fresh (o : Opts) (e : Enc) : Prop where
  crc : e.crc = 0
  ds : e.dataSize = 0
  es : e.es = freshEnc o

/-- the bytes of one sequence as the first pass writes them: header carrying data size `ds`, records, file CRC -/
def seqBytes (o : Opts) (h : Hdr) (ds : Nat) (ms : List WMsg) : Bytes :=
  hdrBytes h ds ++ encodeMsgs o (freshEnc o) ms ++ Wire.le16 (write 0 (encodeMsgs o (freshEnc o) ms))

theorem encodeBody_spec (F : Faults) (o : Opts) (e : Enc) (h : Hdr) (ds : Nat) (ms : List WMsg)
    (hg : e.w.Good) (hf : e.Fresh o) :
    Appended F e.w (seqBytes o h ds ms) (encodeBody F o e h ds ms).1.w (encodeBody F o e h ds ms).2 ∧
    (encodeBody F o e h ds ms).1.lastHdrPos = e.n ∧
    ((encodeBody F o e h ds ms).2 = true →
      (encodeBody F o e h ds ms).1.n = e.n + (seqBytes o h ds ms).length ∧ (encodeBody F o e h ds ms).1.crc = 0 ∧
      (encodeBody F o e h ds ms).1.dataSize = (encodeMsgs o (freshEnc o) ms).length % 4294967296) := by
  obtain ⟨h1, h1p, h1n, h1c, h1d, h1e⟩ := encodeFileHeader_spec F e h ds hg
  rw [hf.crc] at h1 h1n
  have hc0 : (encodeFileHeader F e h ds).1.crc = 0 := by rw [h1c, hf.crc]; simp
  unfold encodeBody seqBytes
  rw [hdrBytesFrom_zero] at h1 h1n
  by_cases hok1 : (encodeFileHeader F e h ds).2 = true
  · rw [hok1] at h1
    simp only [hok1, Bool.not_true, Bool.false_eq_true, if_false]
    have h2 := encodeMessages_wrote F o (encodeFileHeader F e h ds).1 ms h1.good (by rw [h1d, hf.ds]; decide)
    rw [h1e, hf.es] at h2
    by_cases hok2 : (encodeMessages F o (encodeFileHeader F e h ds).1 ms).2 = true
    · rw [hok2] at h2
      simp only [hok2, Bool.not_true, Bool.false_eq_true, if_false]
      obtain ⟨h3, h3p, h3d, h3n⟩ := encodeCRC_spec F (encodeMessages F o (encodeFileHeader F e h ds).1 ms).1 h2.app.good
      rw [h2.crc rfl, hc0] at h3
      refine ⟨(h1.trans h2.app).trans h3, by rw [h3p, h2.hdrPos, h1p], ?_⟩
      intro hok3
      obtain ⟨hn3, hc3⟩ := h3n hok3
      refine ⟨?_, hc3, ?_⟩
      · rw [hn3, h2.n rfl, h1n hok1]; simp [Wire.le16]; omega
      · rw [h3d, h2.ds rfl, h1d, hf.ds]; simp
    · have hok2' : (encodeMessages F o (encodeFileHeader F e h ds).1 ms).2 = false := by simpa using hok2
      rw [hok2'] at h2
      simp only [hok2', Bool.not_false, if_true]
      refine ⟨(h1.trans h2.app).fail_mono _, by rw [h2.hdrPos, h1p], by intro h; cases h⟩
  · have hok1' : (encodeFileHeader F e h ds).2 = false := by simpa using hok1
    rw [hok1'] at h1
    simp only [hok1', Bool.not_false, if_true]
    refine ⟨?_, h1p, by intro h; cases h⟩
    have := (h1.fail_mono (encodeMsgs o (freshEnc o) ms)).fail_mono (Wire.le16 (write 0 (encodeMsgs o (freshEnc o) ms)))
    exact this

end Fit.Writer
