import FitProps.ValidatorLemmas
/-!
# C10 — The encoder writes only what the protocol allows and rejects the rest

All statements are about `FitModel/Validator.lean` (`Fit.Validator`): `validate` models
`encoder.messageValidator.Validate`, `protoValidate` models `proto.Validator.ValidateMessage`, `gateStream` /
`gateBatch` the order in which `StreamEncoder.WriteMessage` / `Encoder.validateMessages` call them before anything
is written. They hold for every `D : Discard` (the float64 arithmetic of `scaleoffset.DiscardValue`, C12).

PROPERTY THEOREMS (audited by ./check): C10_validate_iff_spec, C10_validate_filter, C10_post, C10_post_v1,
C10_def_sizes_are_bytes, C10_reject, C10_reject_batch, C10_gate_no_panic,
C10_accept_batch, C10_idempotent_partial, C10_idempotent_full_fails_rescale

Known findings: KF-C10-1 (F11, nil `FieldBase` under protocol 1.0 panicked) is FIXED in /repo: `C10_gate_no_panic`
is now the full statement. KF-C10-3 (no field kept and all developer fields dropped → the empty message was accepted
once, rejected the second time) is FIXED in /repo (`Validate` repeats the emptiness test after the developer-field
loop): `C10_post` now states that an accepted message is never empty and `C10_idempotent_partial` no longer excludes
that class. Open: KF-C10-2 (a float64 value under base type float64 is scaled again): `C10_idempotent_partial`
excludes it, `C10_idempotent_full_fails_rescale` refutes the full statement.
-/
namespace Fit.C10
open Fit.Gen Fit.Value Fit.Msg Fit.Validator

/-- **`Validate` computes its specification.** The message is accepted exactly when `specValidate` says it
is writable, and then the validated message is the specified one; otherwise an error is returned. -/
theorem C10_validate_iff_spec (D : Discard) (o : Options) (st : State) (m : Message) :
    (∀ m', specValidate D o st m = some m' ↔ (validate D o st m).1 = .ok m') ∧
    (specValidate D o st m = none ↔ ∃ e, (validate D o st m).1 = .error e) := by
  have h := validate_spec D o st m
  cases hs : specValidate D o st m with
  | none =>
    rw [hs] at h
    obtain ⟨e, he⟩ := h
    refine ⟨fun m' => ⟨fun hc => (by cases hc), fun hc => ?_⟩, ⟨fun _ => ⟨e, he⟩, fun _ => rfl⟩⟩
    rw [he] at hc; cases hc
  | some m'' =>
    rw [hs] at h
    refine ⟨fun m' => ⟨fun hc => ?_, fun hc => ?_⟩, ⟨fun hc => (by cases hc), fun hc => ?_⟩⟩
    · cases hc; exact h
    · rw [h] at hc; cases hc; rfl
    · obtain ⟨e, he⟩ := hc
      rw [h] at he; cases he

/-- **Validation = filter, then restore.** An accepted message keeps its number; its fields are exactly the
input fields that have a `FieldBase`, are not expanded and (unless invalid values are preserved) hold a
valid value — in their original order, each with its scaled float64 value restored; likewise the developer
fields (against the descriptions known after this message's own fields). Nothing else is removed or changed. -/
theorem C10_validate_filter (D : Discard) (o : Options) (st : State) (m m' : Message)
    (h : (validate D o st m).1 = .ok m') :
    m'.num = m.num ∧ m'.fields = (m.fields.filter (keepField D o)).map (restoredField D) ∧
    m'.devFields = (m.devFields.filter (keepDev D o (validate D o st m).2)).map (restoredDev D o (validate D o st m).2) := by
  have hst := validate_state D o st m m' h
  have hs := ((C10_validate_iff_spec D o st m).1 m').mpr h
  obtain ⟨hm, _⟩ := specValidate_some D o st m m' hs
  have hf : m'.fields = specFields D o m.fields := by rw [hm]
  refine ⟨by rw [hm], hf, ?_⟩
  rw [hst, hf, hm]
  rfl

/-- **Post-condition of acceptance.** Every accepted message respects the limits of the protocol: at most 255
fields and 255 developer fields, and something is left to write (the accepted message is never the empty message: at
least one field or one developer field was kept — since the repair of KF-C10-3); every field has its `FieldBase`, is not an
expanded field, its value aligns with its base type, is valid UTF-8, occupies at most 255 bytes and (unless
preserved) is valid; every developer field is backed by a developer-data-id and a field-description known to
the validator, aligns with the described base type, is valid UTF-8 and at most 255 bytes. -/
theorem C10_post (D : Discard) (o : Options) (st : State) (m m' : Message)
    (h : (validate D o st m).1 = .ok m') :
    m'.fields.length ≤ 255 ∧ m'.devFields.length ≤ 255 ∧ ¬(m'.fields = [] ∧ m'.devFields = []) ∧
    (∀ f ∈ m'.fields, ∃ b, f.base = some b ∧ f.isExpanded = false ∧ align f.value b.baseType = true ∧
      utf8Valid f.value = true ∧ size f.value ≤ 255 ∧ (o.omitInvalid = true → valid f.value b.baseType = true)) ∧
    (∀ d ∈ m'.devFields, ∃ fd, lookupFd (validate D o st m).2.fds d = some fd ∧
      (validate D o st m).2.ddis.contains d.devIdx = true ∧ align d.value fd.btId = true ∧
      utf8Valid d.value = true ∧ size d.value ≤ 255 ∧ (o.omitInvalid = true → valid d.value fd.btId = true)) := by
  have hst := validate_state D o st m m' h
  have hs := ((C10_validate_iff_spec D o st m).1 m').mpr h
  obtain ⟨hm, hall, hlen, hnempty, hback, hdall, hdlen⟩ := specValidate_some D o st m m' hs
  have hf : m'.fields = specFields D o m.fields := by rw [hm]
  have hd : m'.devFields = specDevs D o (remember st m.num (specFields D o m.fields)) m.devFields := by rw [hm]
  have hst' : (validate D o st m).2 = remember st m.num (specFields D o m.fields) := by rw [hst, hf]
  refine ⟨by rw [hf]; exact hlen, by rw [hd]; exact hdlen, ?_, ?_, ?_⟩
  · rintro ⟨h1, h2⟩
    rw [hf] at h1
    rw [hd] at h2
    exact hnempty ⟨by rw [h1]; rfl, by rw [h2]; rfl⟩
  · intro f hfm
    rw [hf] at hfm
    obtain ⟨g, _, hk, rfl⟩ := mem_specFields hfm
    obtain ⟨b, _, hb, hx, hv⟩ := kept_field_props hk
    have hok := (List.all_eq_true.mp hall) _ hfm
    simp only [fieldOk, hb] at hok
    obtain ⟨ha, hu, hsz⟩ := integrity_none hok
    exact ⟨b, hb, hx, ha, hu, hsz, hv⟩
  · intro d hdm
    rw [hd] at hdm
    rw [hst']
    obtain ⟨g, hg, hk, rfl⟩ := mem_specDevs hdm
    have hbk := (List.all_eq_true.mp hback) g hg
    simp only [devBacked, Bool.and_eq_true] at hbk
    cases hl : lookupFd (remember st m.num (specFields D o m.fields)).fds g with
    | none => simp [hl] at hbk
    | some fd =>
      have hr : restoredDev D o (remember st m.num (specFields D o m.fields)) g = restoreDev D o fd g := by
        simp [restoredDev, hl]
      have hkey := restoreDev_key D o fd g
      have hl' : lookupFd (remember st m.num (specFields D o m.fields)).fds (restoreDev D o fd g) = some fd := by
        rw [lookupFd_congr _ g _ hkey.1 hkey.2]; exact hl
      have hok := (List.all_eq_true.mp hdall) _ hdm
      rw [hr] at hok ⊢
      simp only [devOk, hl'] at hok
      obtain ⟨ha, hu, hsz⟩ := integrity_none hok
      refine ⟨fd, hl', by rw [hkey.1]; exact hbk.1, ha, hu, hsz, ?_⟩
      intro ho
      simp only [keepDev, hl, ho, Bool.not_true, Bool.false_or] at hk
      exact hk

/-- **… and under protocol 1.0** a message that passed the gate has no developer fields and no field of a base
type added after `byte` (the 64-bit types). -/
theorem C10_post_v1 (D : Discard) (o : Options) (st st' : State) (m m' : Message)
    (h : gateStream D protoV1 o st m = (.ok m', st')) :
    m'.devFields = [] ∧ ∀ f ∈ m'.fields, ∃ b, f.base = some b ∧ afterV1 b.baseType = false := by
  unfold gateStream at h
  cases hp : protoValidate protoV1 m with
  | panic => simp [hp] at h
  | err e => simp [hp] at h
  | ok u =>
    simp only [hp] at h
    cases hv : validate D o st m with
    | mk r s =>
      rw [hv] at h
      cases r with
      | error e => simp at h
      | ok m'' =>
        simp only [Prod.mk.injEq, Res.ok.injEq] at h
        obtain ⟨rfl, _⟩ := h
        have hok : (validate D o st m).1 = .ok m'' := by rw [hv]
        obtain ⟨_, hf, hd⟩ := C10_validate_filter D o st m m'' hok
        obtain ⟨hnil, hall⟩ := (protoValidate_ok protoV1 m u hp).2 rfl
        refine ⟨by rw [hd, hnil]; rfl, ?_⟩
        intro f hfm
        rw [hf] at hfm
        obtain ⟨g, hg, hk, rfl⟩ := mem_specFields hfm
        obtain ⟨b', hgb', hb', _, _⟩ := kept_field_props hk
        exact ⟨b', hb', hall g hg b' hgb'⟩

/-- **Definition sizes are bytes.** `byte(Value.Size())` in `newMessageDefinition` never truncates for a
validated message: every size is its own residue modulo 256. -/
theorem C10_def_sizes_are_bytes (D : Discard) (o : Options) (st : State) (m m' : Message)
    (h : (validate D o st m).1 = .ok m') :
    (∀ f ∈ m'.fields, size f.value % 256 = size f.value) ∧ (∀ d ∈ m'.devFields, size d.value % 256 = size d.value) := by
  obtain ⟨_, _, _, hf, hd⟩ := C10_post D o st m m' h
  refine ⟨fun f hfm => ?_, fun d hdm => ?_⟩
  · obtain ⟨_, _, _, _, _, hsz, _⟩ := hf f hfm
    exact Nat.mod_eq_of_lt (by omega)
  · obtain ⟨_, _, _, _, _, hsz, _⟩ := hd d hdm
    exact Nat.mod_eq_of_lt (by omega)

/-- **Rejection.** A message that the targeted protocol version does not allow, or that is not writable
(`specValidate = none`: a kept value misaligned / not UTF-8 / longer than 255 bytes, more than 255 kept, nothing
to write, a developer field not backed), never reaches the writer: the gate answers with an error — provided
the gate does not panic, which it never does (`C10_gate_no_panic`). -/
theorem C10_reject (D : Discard) (ver : Nat) (o : Options) (st : State) (m : Message)
    (h : protoOk ver m = false ∨ specValidate D o st m = none) :
    ∀ m', (gateStream D ver o st m).1 ≠ .ok m' := by
  intro m' hc
  unfold gateStream at hc
  cases hp : protoValidate ver m with
  | panic => simp [hp] at hc
  | err e => simp [hp] at hc
  | ok u =>
    simp only [hp] at hc
    rcases h with h | h
    · rw [(protoValidate_ok ver m u hp).1] at h; cases h
    · obtain ⟨e, he⟩ := (C10_validate_iff_spec D o st m).2.mp h
      cases hv : validate D o st m with
      | mk r s =>
        rw [hv] at hc he
        simp only at he
        subst he
        simp at hc

/-- the specification of a batch: every message through `specValidate`, the validator state threaded -/
def specAll (D : Discard) (o : Options) : State → List Message → Option (List Message)
  | _, [] => some []
  | st, m :: ms =>
    match specValidate D o st m with
    | none => none
    | some m' => (specAll D o (validate D o st m).2 ms).map (m' :: ·)

/-- **Batch: nothing is written unless everything is writable.** `Encoder.validateMessages` runs before the
first write; it lets a list of messages through only if the protocol version allows every one of them and
every one (in order, with the descriptions seen so far) is writable — and then hands on exactly the
specified messages. -/
theorem C10_reject_batch (D : Discard) (ver : Nat) (o : Options) (ms ms' : List Message)
    (h : gateBatch D ver o ms = .ok ms') :
    ms.all (protoOk ver) = true ∧ specAll D o {} ms = some ms' := by
  unfold gateBatch at h
  cases hp : protoAll ver ms with
  | panic => simp [hp] at h
  | err e => simp [hp] at h
  | ok u =>
    simp only [hp] at h
    constructor
    · -- protoAll ok → every message allowed
      clear h
      induction ms with
      | nil => rfl
      | cons m ms ih =>
        simp only [protoAll] at hp
        cases hm : protoValidate ver m with
        | panic => simp [hm] at hp
        | err e => simp [hm] at hp
        | ok u' =>
          simp only [hm] at hp
          simp only [List.all_cons, Bool.and_eq_true]
          exact ⟨(protoValidate_ok ver m u' hm).1, ih hp⟩
    · -- validateAll = specAll
      have key : ∀ (ms : List Message) (st : State) (r : List Message),
          validateAll D o st ms = .ok r → specAll D o st ms = some r := by
        intro ms
        induction ms with
        | nil => intro st r hr; simp only [validateAll, Except.ok.injEq] at hr; subst hr; rfl
        | cons m ms ih =>
          intro st r hr
          simp only [validateAll] at hr
          cases hv : validate D o st m with
          | mk x s =>
            rw [hv] at hr
            cases x with
            | error e => simp at hr
            | ok m1 =>
              simp only at hr
              have hok : (validate D o st m).1 = .ok m1 := by rw [hv]
              have hs := ((C10_validate_iff_spec D o st m).1 m1).mpr hok
              cases hrest : validateAll D o s ms with
              | error e => simp [hrest, Except.map] at hr
              | ok r' =>
                simp only [hrest, Except.map, Except.ok.injEq] at hr
                subst hr
                simp only [specAll, hs, hv, ih s r' hrest, Option.map_some]
      cases hva : validateAll D o {} ms with
      | error e => simp [hva] at h
      | ok r =>
        simp only [hva, Res.ok.injEq] at h
        subst h
        exact key ms {} r hva

/-- **No panic.** Whatever the protocol version, the options, the validator state and the message — fields without
`FieldBase` included — the gate answers with a message or an error. (Before the repair of F11 this held only when
the version was not 1.0 or every field had a `FieldBase`: the protocol validator dereferenced the nil pointer;
known finding KF-C10-1, now fixed. The witness stays in the corpus.) -/
theorem C10_gate_no_panic (D : Discard) (ver : Nat) (o : Options) (st : State) (m : Message) :
    (gateStream D ver o st m).1 ≠ .panic := by
  have hp : protoValidate ver m ≠ .panic := protoValidate_not_panic ver m
  unfold gateStream
  cases hq : protoValidate ver m with
  | panic => exact absurd hq hp
  | err e => simp
  | ok u =>
    simp only
    cases hv : validate D o st m with
    | mk r s => cases r <;> simp

/-- the former witness of KF-C10-1 (a record whose second field has no `FieldBase`, protocol 1.0) now passes the
gate and is written without that field -/
example : (gateStream (fun v _ _ _ => v) protoV1 {} {}
    { num := 20, fields := [{ base := some { num := 3, baseType := btUint8, nameKnown := true }, value := .uint8 70 },
                            { base := none, value := .uint8 1 }], devFields := [] }).1
    = .ok { num := 20, fields := [{ base := some { num := 3, baseType := btUint8, nameKnown := true }, value := .uint8 70 }],
            devFields := [] } := by decide

/-- **Acceptance is complete.** Conversely, an allowed and writable message passes
the gate unchanged from its specification — nothing that can be written is rejected. -/
theorem C10_accept_batch (D : Discard) (ver : Nat) (o : Options) (st : State) (m m' : Message)
    (hp : protoOk ver m = true) (hs : specValidate D o st m = some m') :
    (gateStream D ver o st m).1 = .ok m' := by
  have hnp := C10_gate_no_panic D ver o st m
  have hok := ((C10_validate_iff_spec D o st m).1 m').mp hs
  unfold gateStream at hnp ⊢
  cases hq : protoValidate ver m with
  | panic => simp [hq] at hnp
  | ok u =>
    simp only
    cases hv : validate D o st m with
    | mk r s =>
      rw [hv] at hok
      simp only at hok
      subst hok
      rfl
  | err e => exact absurd hq (protoOk_not_err ver m hp e)

/-- **Validating twice equals validating once (partial: excludes the class of KF-C10-2).**
If a message was accepted as `m'`, validating `m'` again with the same validator accepts it unchanged — provided
restoring is stable on `m'` (no kept value is scaled a second time: true whenever the restored value is no longer
float64-typed, i.e. for every base type but float64). (The former second exclusion, "`m'` is not the empty message"
— KF-C10-3 —, is gone: an accepted message is never empty, `C10_post`.) -/
theorem C10_idempotent_partial (D : Discard) (o : Options) (st : State) (m m' : Message)
    (h : (validate D o st m).1 = .ok m')
    (hsf : ∀ f ∈ m'.fields, restoredField D f = f)
    (hsd : ∀ d ∈ m'.devFields, restoredDev D o (validate D o st m).2 d = d) :
    (validate D o (validate D o st m).2 m').1 = .ok m' := by
  obtain ⟨hlf, hld, hne, hpf, hpd⟩ := C10_post D o st m m' h
  have hs := ((C10_validate_iff_spec D o st m).1 m').mpr h
  obtain ⟨hm, hall, _, _, _, hdall, _⟩ := specValidate_some D o st m m' hs
  have hstate := validate_state D o st m m' h
  have hf : m'.fields = specFields D o m.fields := by rw [hm]
  generalize hst' : (validate D o st m).2 = st' at *
  apply ((C10_validate_iff_spec D o st' m').1 m').mp
  -- fields: all kept, all unchanged
  have hsf' : specFields D o m'.fields = m'.fields := by
    apply filter_map_id
    intro f hfm
    obtain ⟨b, hb, hx, _, _, _, hv⟩ := hpf f hfm
    refine ⟨?_, hsf f hfm⟩
    have hr : restoreField D f b = f := by have := hsf f hfm; simpa [restoredField, hb] using this
    simp only [keepField, hb, hx, Bool.not_false, Bool.true_and, hr]
    cases ho : o.omitInvalid with
    | false => rfl
    | true => simp [hv ho]
  have hallf : m'.fields.all fieldOk = true := by rw [hf]; exact hall
  -- developer fields
  have hlk : ∀ d ∈ m'.devFields, ∃ fd, lookupFd (remember st' m'.num m'.fields).fds d = some fd ∧
      lookupFd st'.fds d = some fd ∧ (remember st' m'.num m'.fields).ddis.contains d.devIdx = true := by
    intro d hd
    obtain ⟨fd, hl, hc, _⟩ := hpd d hd
    exact ⟨fd, remember_lookup st' _ _ d fd hl, hl, remember_contains st' _ _ _ hc⟩
  have hsd' : specDevs D o (remember st' m'.num m'.fields) m'.devFields = m'.devFields := by
    apply filter_map_id
    intro d hd
    obtain ⟨fd, hl1, hl0, _⟩ := hlk d hd
    obtain ⟨fd', hl, _, _, _, _, hv⟩ := hpd d hd
    rw [hl0] at hl; cases hl
    have hr0 : restoreDev D o fd d = d := by have := hsd d hd; simpa [restoredDev, hl0] using this
    refine ⟨?_, by simp [restoredDev, hl1, hr0]⟩
    simp only [keepDev, hl1, hr0]
    cases ho : o.omitInvalid with
    | false => rfl
    | true => simp [hv ho]
  have hback : m'.devFields.all (devBacked (remember st' m'.num m'.fields)) = true := by
    apply List.all_eq_true.mpr
    intro d hd
    obtain ⟨fd, hl1, _, hc⟩ := hlk d hd
    simp [devBacked, hl1, List.contains_iff_mem.mp hc]
  have hdok : m'.devFields.all (devOk (remember st' m'.num m'.fields)) = true := by
    apply List.all_eq_true.mpr
    intro d hd
    obtain ⟨fd, hl1, hl0, _⟩ := hlk d hd
    obtain ⟨fd', hl, _, ha, hu, hsz, _⟩ := hpd d hd
    rw [hl0] at hl; cases hl
    simp [devOk, hl1, integrity, ha, hu]
    omega
  unfold specValidate
  simp only [hsf', hallf, Bool.not_true, Bool.false_or, hsd', hback, hdok]
  have h1 : decide (m'.fields.length > 255) = false := by simp; omega
  have h2 : decide (m'.devFields.length > 255) = false := by simp; omega
  have h3 : (m'.fields.isEmpty && m'.devFields.isEmpty) = false := by
    cases hfe : m'.fields with
    | nil =>
      cases hde : m'.devFields with
      | nil => exact absurd ⟨hfe, hde⟩ hne
      | cons _ _ => simp
    | cons _ _ => simp
  simp [h1, h2, h3]

/-- non-vacuity: a record whose scaled altitude (scale 5, offset 500) has been restored to a uint16, any `D` -/
example (D : Discard) (f : Field)
    (hf : f = ⟨some ⟨2, btUint16, false, false, 0x4014000000000000, 0x407F400000000000, true, false⟩, .uint16 2600, false⟩) :
    restoredField D f = f := by
  subst hf
  simp [restoredField, restoreField, discardValue]

/-- the full statement: validating an accepted message again returns it unchanged -/
def C10_idempotent_full (D : Discard) : Prop :=
  ∀ (o : Options) (st : State) (m m' : Message), (validate D o st m).1 = .ok m' →
    (validate D o (validate D o st m).2 m').1 = .ok m'

/-- a float64 field (base type float64) with scale 2 holding `bits` -/
def kf2Mesg (bits : Nat) : Message :=
  ⟨20, [⟨some ⟨9, btFloat64, false, false, 0x4000000000000000, 0, true, false⟩, .float64 bits, false⟩], []⟩

/-- **KF-C10-2.** For any discard function that computes (1.5+0)·2 = 3 and (3+0)·2 = 6 (as binary64 does) the full
statement is false: a float64 field with scale 2 is scaled again by the second validation. -/
theorem C10_idempotent_full_fails_rescale (D : Discard)
    (h1 : D (.float64 0x3FF8000000000000) btFloat64 0x4000000000000000 0 = .float64 0x4008000000000000)
    (h2 : D (.float64 0x4008000000000000) btFloat64 0x4000000000000000 0 = .float64 0x4018000000000000) :
    ¬ C10_idempotent_full D := by
  intro h
  unfold C10_idempotent_full at h
  have e1 : validate D {} {} (kf2Mesg 0x3FF8000000000000) = (.ok (kf2Mesg 0x4008000000000000), {}) := by
    simp [validate, validateFields, kf2Mesg, restoreField, scaleNotOne, offsetNotZero, f64One, discardValue, h1,
      valid, integrity, align, utf8Valid, size, float64Invalid, protoSize, protoSizes, typeOf, typeFloat64,
      remember, mesgNumDeveloperDataId, mesgNumFieldDescription, Except.map]
  have e2 : validate D {} {} (kf2Mesg 0x4008000000000000) = (.ok (kf2Mesg 0x4018000000000000), {}) := by
    simp [validate, validateFields, kf2Mesg, restoreField, scaleNotOne, offsetNotZero, f64One, discardValue, h2,
      valid, integrity, align, utf8Valid, size, float64Invalid, protoSize, protoSizes, typeOf, typeFloat64,
      remember, mesgNumDeveloperDataId, mesgNumFieldDescription, Except.map]
  have := h {} {} (kf2Mesg 0x3FF8000000000000) (kf2Mesg 0x4008000000000000) (by rw [e1])
  rw [e1] at this
  simp only at this
  rw [e2] at this
  simp [kf2Mesg] at this

/-- a developer field whose only value is invalid, after its developer-data-id and field-description were seen -/
def kf3State : State := ⟨[0], [⟨0, 1, btUint8, 255, 127, 65535, 255⟩]⟩
def kf3Mesg : Message := ⟨20, [], [⟨0, 1, .uint8 255⟩]⟩

/-- the former witness of KF-C10-3 (a message without fields whose only developer field is dropped as invalid; it
used to be accepted as the empty message, which the second validation rejected) is now rejected with `errNoFields`
the first time, for every discard function, and so is the empty message it used to become -/
example (D : Discard) : (validate D {} kf3State kf3Mesg).1 = .error .noFields ∧
    (validate D {} kf3State ⟨20, [], []⟩).1 = .error .noFields := by
  constructor
  · simp [validate, validateFields, validateDevs, kf3Mesg, kf3State, lookupFd, restoreDev, valid, remember,
      mesgNumDeveloperDataId, mesgNumFieldDescription, mesgNumInvalid, uint8Invalid, sint8Invalid, btUint8, btEnum, btByte, enumInvalid, byteInvalid]
  · simp [validate, validateFields]
end Fit.C10
