import FitProps.ValidatorLemmas
/-!
# C10 — The encoder writes only what the protocol allows and rejects the rest

All statements are about `FitModel/Validator.lean` (`Fit.Validator`): `validate` models
`encoder.messageValidator.Validate`, `protoValidate` models `proto.Validator.ValidateMessage`, `gateStream` /
`gateBatch` the order in which `StreamEncoder.WriteMessage` / `Encoder.validateMessages` call them before anything
is written. They hold for every `D : Discard` (the float64 arithmetic of `scaleoffset.DiscardValue`, C12).

PROPERTY THEOREMS (audited by ./check): C10_validate_iff_spec, C10_validate_filter, C10_post, C10_post_v1,
C10_def_sizes_are_bytes, C10_reject, C10_reject_batch, C10_gate_no_panic,
C10_accept_batch, C10_idempotent_partial, C10_idempotent_full_fails_rescale,
C10_reject_too_many_fields, C10_reject_bad_value, C10_reject_unbacked_dev, C10_reject_too_many_dev_fields,
C10_reject_bad_dev_value, C10_reject_nothing_left, C10_reject_v1, C10_idempotent_not_f64, C10_idempotent_no_float64_base,
C10_batch_no_panic, C10_accept_batch_all, C10_select_version
(and, in FitProps/C10Arith.lean: C10_std_factory_in_range, C10_validate_filter_arith, C10_restore_exact, C10_physical_eq_raw,
C10_restore_exact_native, C10_restore_exact_desc, C10_rescale_witness_arith)

THE ARITHMETIC INSIDE: see FitProps/C10Arith.lean (kept in its own module: it imports C12 and with it Mathlib, which the
modules that import C10 — the end-to-end lemmas of C01 — must not see in their simp sets).
-/
namespace Fit.C10
open Fit.Gen Fit.Value Fit.Msg Fit.Validator

/-- **`Validate` computes its specification.** The message is accepted exactly when `specValidate` says it
is writable, and then the validated message is the specified one; otherwise an error is returned. -/
theorem C10_validate_iff_spec (D : Discard) (o : Options) (st : State) (m : Message) :
    (∀ m', specValidate D o st m = some m' ↔ (validate D o st m).1 = .ok m') ∧
    (specValidate D o st m = none ↔ ∃ e, (validate D o st m).1 = .error e) := by
  have h := validate_spec D o st m
  cases hs : specValidate D o st m with
  | none =>
    rw [hs] at h
    obtain ⟨e, he⟩ := h
    refine ⟨fun m' => ⟨fun hc => (by cases hc), fun hc => ?_⟩, ⟨fun _ => ⟨e, he⟩, fun _ => rfl⟩⟩
    rw [he] at hc; cases hc
  | some m'' =>
    rw [hs] at h
    refine ⟨fun m' => ⟨fun hc => ?_, fun hc => ?_⟩, ⟨fun hc => (by cases hc), fun hc => ?_⟩⟩
    · cases hc; exact h
    · rw [h] at hc; cases hc; rfl
    · obtain ⟨e, he⟩ := hc
      rw [h] at he; cases he

/-- **Validation = filter, then restore.** An accepted message keeps its number; its fields are exactly the
input fields that have a `FieldBase`, are not expanded and (unless invalid values are preserved) hold a
valid value — in their original order, each with its scaled float64 value restored; likewise the developer
fields (against the descriptions known after this message's own fields). Nothing else is removed or changed. -/
theorem C10_validate_filter (D : Discard) (o : Options) (st : State) (m m' : Message)
    (h : (validate D o st m).1 = .ok m') :
    m'.num = m.num ∧ m'.fields = (m.fields.filter (keepField D o)).map (restoredField D) ∧
    m'.devFields = (m.devFields.filter (keepDev D o (validate D o st m).2)).map (restoredDev D o (validate D o st m).2) := by
  have hst := validate_state D o st m m' h
  have hs := ((C10_validate_iff_spec D o st m).1 m').mpr h
  obtain ⟨hm, _⟩ := specValidate_some D o st m m' hs
  have hf : m'.fields = specFields D o m.fields := by rw [hm]
  refine ⟨by rw [hm], hf, ?_⟩
  rw [hst, hf, hm]
  rfl

/-- **Post-condition of acceptance.** Every accepted message respects the limits of the protocol: at most 255
fields and 255 developer fields, and something is left to write (the accepted message is never the empty message: at
least one field or one developer field was kept — since the repair of KF-C10-3); every field has its `FieldBase`, is not an
expanded field, its value aligns with its base type, is valid UTF-8, occupies at most 255 bytes and (unless
preserved) is valid; every developer field is backed by a developer-data-id and a field-description known to
the validator, aligns with the described base type, is valid UTF-8 and at most 255 bytes. -/
theorem C10_post (D : Discard) (o : Options) (st : State) (m m' : Message)
    (h : (validate D o st m).1 = .ok m') :
    m'.fields.length ≤ 255 ∧ m'.devFields.length ≤ 255 ∧ ¬(m'.fields = [] ∧ m'.devFields = []) ∧
    (∀ f ∈ m'.fields, ∃ b, f.base = some b ∧ f.isExpanded = false ∧ align f.value b.baseType = true ∧
      utf8Valid f.value = true ∧ size f.value ≤ 255 ∧ (o.omitInvalid = true → valid f.value b.baseType = true)) ∧
    (∀ d ∈ m'.devFields, ∃ fd, lookupFd (validate D o st m).2.fds d = some fd ∧
      (validate D o st m).2.ddis.contains d.devIdx = true ∧ align d.value fd.btId = true ∧
      utf8Valid d.value = true ∧ size d.value ≤ 255 ∧ (o.omitInvalid = true → valid d.value fd.btId = true)) := by
  have hst := validate_state D o st m m' h
  have hs := ((C10_validate_iff_spec D o st m).1 m').mpr h
  obtain ⟨hm, hall, hlen, hnempty, hback, hdall, hdlen⟩ := specValidate_some D o st m m' hs
  have hf : m'.fields = specFields D o m.fields := by rw [hm]
  have hd : m'.devFields = specDevs D o (remember st m.num (specFields D o m.fields)) m.devFields := by rw [hm]
  have hst' : (validate D o st m).2 = remember st m.num (specFields D o m.fields) := by rw [hst, hf]
  refine ⟨by rw [hf]; exact hlen, by rw [hd]; exact hdlen, ?_, ?_, ?_⟩
  · rintro ⟨h1, h2⟩
    rw [hf] at h1
    rw [hd] at h2
    exact hnempty ⟨by rw [h1]; rfl, by rw [h2]; rfl⟩
  · intro f hfm
    rw [hf] at hfm
    obtain ⟨g, _, hk, rfl⟩ := mem_specFields hfm
    obtain ⟨b, _, hb, hx, hv⟩ := kept_field_props hk
    have hok := (List.all_eq_true.mp hall) _ hfm
    simp only [fieldOk, hb] at hok
    obtain ⟨ha, hu, hsz⟩ := integrity_none hok
    exact ⟨b, hb, hx, ha, hu, hsz, hv⟩
  · intro d hdm
    rw [hd] at hdm
    rw [hst']
    obtain ⟨g, hg, hk, rfl⟩ := mem_specDevs hdm
    have hbk := (List.all_eq_true.mp hback) g hg
    simp only [devBacked, Bool.and_eq_true] at hbk
    cases hl : lookupFd (remember st m.num (specFields D o m.fields)).fds g with
    | none => simp [hl] at hbk
    | some fd =>
      have hr : restoredDev D o (remember st m.num (specFields D o m.fields)) g = restoreDev D o fd g := by
        simp [restoredDev, hl]
      have hkey := restoreDev_key D o fd g
      have hl' : lookupFd (remember st m.num (specFields D o m.fields)).fds (restoreDev D o fd g) = some fd := by
        rw [lookupFd_congr _ g _ hkey.1 hkey.2]; exact hl
      have hok := (List.all_eq_true.mp hdall) _ hdm
      rw [hr] at hok ⊢
      simp only [devOk, hl'] at hok
      obtain ⟨ha, hu, hsz⟩ := integrity_none hok
      refine ⟨fd, hl', by rw [hkey.1]; exact hbk.1, ha, hu, hsz, ?_⟩
      intro ho
      simp only [keepDev, hl, ho, Bool.not_true, Bool.false_or] at hk
      exact hk

/-- **… and under protocol 1.0** a message that passed the gate has no developer fields and no field of a base
type added after `byte` (the 64-bit types). -/
theorem C10_post_v1 (D : Discard) (o : Options) (st st' : State) (m m' : Message)
    (h : gateStream D protoV1 o st m = (.ok m', st')) :
    m'.devFields = [] ∧ ∀ f ∈ m'.fields, ∃ b, f.base = some b ∧ afterV1 b.baseType = false := by
  unfold gateStream at h
  cases hp : protoValidate protoV1 m with
  | panic => simp [hp] at h
  | err e => simp [hp] at h
  | ok u =>
    simp only [hp] at h
    cases hv : validate D o st m with
    | mk r s =>
      rw [hv] at h
      cases r with
      | error e => simp at h
      | ok m'' =>
        simp only [Prod.mk.injEq, Res.ok.injEq] at h
        obtain ⟨rfl, _⟩ := h
        have hok : (validate D o st m).1 = .ok m'' := by rw [hv]
        obtain ⟨_, hf, hd⟩ := C10_validate_filter D o st m m'' hok
        obtain ⟨hnil, hall⟩ := (protoValidate_ok protoV1 m u hp).2 rfl
        refine ⟨by rw [hd, hnil]; rfl, ?_⟩
        intro f hfm
        rw [hf] at hfm
        obtain ⟨g, hg, hk, rfl⟩ := mem_specFields hfm
        obtain ⟨b', hgb', hb', _, _⟩ := kept_field_props hk
        exact ⟨b', hb', hall g hg b' hgb'⟩

/-- **Definition sizes are bytes.** `byte(Value.Size())` in `newMessageDefinition` never truncates for a
validated message: every size is its own residue modulo 256. -/
theorem C10_def_sizes_are_bytes (D : Discard) (o : Options) (st : State) (m m' : Message)
    (h : (validate D o st m).1 = .ok m') :
    (∀ f ∈ m'.fields, size f.value % 256 = size f.value) ∧ (∀ d ∈ m'.devFields, size d.value % 256 = size d.value) := by
  obtain ⟨_, _, _, hf, hd⟩ := C10_post D o st m m' h
  refine ⟨fun f hfm => ?_, fun d hdm => ?_⟩
  · obtain ⟨_, _, _, _, _, hsz, _⟩ := hf f hfm
    exact Nat.mod_eq_of_lt (by omega)
  · obtain ⟨_, _, _, _, _, hsz, _⟩ := hd d hdm
    exact Nat.mod_eq_of_lt (by omega)

/-- **Rejection.** A message that the targeted protocol version does not allow, or that is not writable
(`specValidate = none`: a kept value misaligned / not UTF-8 / longer than 255 bytes, more than 255 kept, nothing
to write, a developer field not backed), never reaches the writer: the gate answers with an error — provided
the gate does not panic, which it never does (`C10_gate_no_panic`). -/
theorem C10_reject (D : Discard) (ver : Nat) (o : Options) (st : State) (m : Message)
    (h : protoOk ver m = false ∨ specValidate D o st m = none) :
    ∀ m', (gateStream D ver o st m).1 ≠ .ok m' := by
  intro m' hc
  unfold gateStream at hc
  cases hp : protoValidate ver m with
  | panic => simp [hp] at hc
  | err e => simp [hp] at hc
  | ok u =>
    simp only [hp] at hc
    rcases h with h | h
    · rw [(protoValidate_ok ver m u hp).1] at h; cases h
    · obtain ⟨e, he⟩ := (C10_validate_iff_spec D o st m).2.mp h
      cases hv : validate D o st m with
      | mk r s =>
        rw [hv] at hc he
        simp only at he
        subst he
        simp at hc

/-- the specification of a batch: every message through `specValidate`, the validator state threaded -/
def specAll (D : Discard) (o : Options) : State → List Message → Option (List Message)
  | _, [] => some []
  | st, m :: ms =>
    match specValidate D o st m with
    | none => none
    | some m' => (specAll D o (validate D o st m).2 ms).map (m' :: ·)

/-- **Batch: nothing is written unless everything is writable.** `Encoder.validateMessages` runs before the
first write; it lets a list of messages through only if the protocol version allows every one of them and
every one (in order, with the descriptions seen so far) is writable — and then hands on exactly the
specified messages. -/
theorem C10_reject_batch (D : Discard) (ver : Nat) (o : Options) (ms ms' : List Message)
    (h : gateBatch D ver o ms = .ok ms') :
    ms.all (protoOk ver) = true ∧ specAll D o {} ms = some ms' := by
  unfold gateBatch at h
  cases hp : protoAll ver ms with
  | panic => simp [hp] at h
  | err e => simp [hp] at h
  | ok u =>
    simp only [hp] at h
    constructor
    · -- protoAll ok → every message allowed
      clear h
      induction ms with
      | nil => rfl
      | cons m ms ih =>
        simp only [protoAll] at hp
        cases hm : protoValidate ver m with
        | panic => simp [hm] at hp
        | err e => simp [hm] at hp
        | ok u' =>
          simp only [hm] at hp
          simp only [List.all_cons, Bool.and_eq_true]
          exact ⟨(protoValidate_ok ver m u' hm).1, ih hp⟩
    · -- validateAll = specAll
      have key : ∀ (ms : List Message) (st : State) (r : List Message),
          validateAll D o st ms = .ok r → specAll D o st ms = some r := by
        intro ms
        induction ms with
        | nil => intro st r hr; simp only [validateAll, Except.ok.injEq] at hr; subst hr; rfl
        | cons m ms ih =>
          intro st r hr
          simp only [validateAll] at hr
          cases hv : validate D o st m with
          | mk x s =>
            rw [hv] at hr
            cases x with
            | error e => simp at hr
            | ok m1 =>
              simp only at hr
              have hok : (validate D o st m).1 = .ok m1 := by rw [hv]
              have hs := ((C10_validate_iff_spec D o st m).1 m1).mpr hok
              cases hrest : validateAll D o s ms with
              | error e => simp [hrest, Except.map] at hr
              | ok r' =>
                simp only [hrest, Except.map, Except.ok.injEq] at hr
                subst hr
                simp only [specAll, hs, hv, ih s r' hrest, Option.map_some]
      cases hva : validateAll D o {} ms with
      | error e => simp [hva] at h
      | ok r =>
        simp only [hva, Res.ok.injEq] at h
        subst h
        exact key ms {} r hva

/-- **No panic.** Whatever the protocol version, the options, the validator state and the message — fields without
`FieldBase` included — the gate answers with a message or an error. (Before the repair of F11 this held only when
the version was not 1.0 or every field had a `FieldBase`: the protocol validator dereferenced the nil pointer;
known finding KF-C10-1, now fixed. The witness stays in the corpus.) -/
theorem C10_gate_no_panic (D : Discard) (ver : Nat) (o : Options) (st : State) (m : Message) :
    (gateStream D ver o st m).1 ≠ .panic := by
  have hp : protoValidate ver m ≠ .panic := protoValidate_not_panic ver m
  unfold gateStream
  cases hq : protoValidate ver m with
  | panic => exact absurd hq hp
  | err e => simp
  | ok u =>
    simp only
    cases hv : validate D o st m with
    | mk r s => cases r <;> simp

/-- the former witness of KF-C10-1 (a record whose second field has no `FieldBase`, protocol 1.0) now passes the
gate and is written without that field -/
example : (gateStream (fun v _ _ _ => v) protoV1 {} {}
    { num := 20, fields := [{ base := some { num := 3, baseType := btUint8, nameKnown := true }, value := .uint8 70 },
                            { base := none, value := .uint8 1 }], devFields := [] }).1
    = .ok { num := 20, fields := [{ base := some { num := 3, baseType := btUint8, nameKnown := true }, value := .uint8 70 }],
            devFields := [] } := by decide

/-- **Acceptance is complete.** Conversely, an allowed and writable message passes
the gate unchanged from its specification — nothing that can be written is rejected. -/
theorem C10_accept_batch (D : Discard) (ver : Nat) (o : Options) (st : State) (m m' : Message)
    (hp : protoOk ver m = true) (hs : specValidate D o st m = some m') :
    (gateStream D ver o st m).1 = .ok m' := by
  have hnp := C10_gate_no_panic D ver o st m
  have hok := ((C10_validate_iff_spec D o st m).1 m').mp hs
  unfold gateStream at hnp ⊢
  cases hq : protoValidate ver m with
  | panic => simp [hq] at hnp
  | ok u =>
    simp only
    cases hv : validate D o st m with
    | mk r s =>
      rw [hv] at hok
      simp only at hok
      subst hok
      rfl
  | err e => exact absurd hq (protoOk_not_err ver m hp e)

/-- **Validating twice equals validating once (partial: excludes the class of KF-C10-2).**
If a message was accepted as `m'`, validating `m'` again with the same validator accepts it unchanged — provided
restoring is stable on `m'` (no kept value is scaled a second time: true whenever the restored value is no longer
float64-typed, i.e. for every base type but float64). (The former second exclusion, "`m'` is not the empty message"
— KF-C10-3 —, is gone: an accepted message is never empty, `C10_post`.) -/
theorem C10_idempotent_partial (D : Discard) (o : Options) (st : State) (m m' : Message)
    (h : (validate D o st m).1 = .ok m')
    (hsf : ∀ f ∈ m'.fields, restoredField D f = f)
    (hsd : ∀ d ∈ m'.devFields, restoredDev D o (validate D o st m).2 d = d) :
    (validate D o (validate D o st m).2 m').1 = .ok m' := by
  obtain ⟨hlf, hld, hne, hpf, hpd⟩ := C10_post D o st m m' h
  have hs := ((C10_validate_iff_spec D o st m).1 m').mpr h
  obtain ⟨hm, hall, _, _, _, hdall, _⟩ := specValidate_some D o st m m' hs
  have hstate := validate_state D o st m m' h
  have hf : m'.fields = specFields D o m.fields := by rw [hm]
  generalize hst' : (validate D o st m).2 = st' at *
  apply ((C10_validate_iff_spec D o st' m').1 m').mp
  -- fields: all kept, all unchanged
  have hsf' : specFields D o m'.fields = m'.fields := by
    apply filter_map_id
    intro f hfm
    obtain ⟨b, hb, hx, _, _, _, hv⟩ := hpf f hfm
    refine ⟨?_, hsf f hfm⟩
    have hr : restoreField D f b = f := by have := hsf f hfm; simpa [restoredField, hb] using this
    simp only [keepField, hb, hx, Bool.not_false, Bool.true_and, hr]
    cases ho : o.omitInvalid with
    | false => rfl
    | true => simp [hv ho]
  have hallf : m'.fields.all fieldOk = true := by rw [hf]; exact hall
  -- developer fields
  have hlk : ∀ d ∈ m'.devFields, ∃ fd, lookupFd (remember st' m'.num m'.fields).fds d = some fd ∧
      lookupFd st'.fds d = some fd ∧ (remember st' m'.num m'.fields).ddis.contains d.devIdx = true := by
    intro d hd
    obtain ⟨fd, hl, hc, _⟩ := hpd d hd
    exact ⟨fd, remember_lookup st' _ _ d fd hl, hl, remember_contains st' _ _ _ hc⟩
  have hsd' : specDevs D o (remember st' m'.num m'.fields) m'.devFields = m'.devFields := by
    apply filter_map_id
    intro d hd
    obtain ⟨fd, hl1, hl0, _⟩ := hlk d hd
    obtain ⟨fd', hl, _, _, _, _, hv⟩ := hpd d hd
    rw [hl0] at hl; cases hl
    have hr0 : restoreDev D o fd d = d := by have := hsd d hd; simpa [restoredDev, hl0] using this
    refine ⟨?_, by simp [restoredDev, hl1, hr0]⟩
    simp only [keepDev, hl1, hr0]
    cases ho : o.omitInvalid with
    | false => rfl
    | true => simp [hv ho]
  have hback : m'.devFields.all (devBacked (remember st' m'.num m'.fields)) = true := by
    apply List.all_eq_true.mpr
    intro d hd
    obtain ⟨fd, hl1, _, hc⟩ := hlk d hd
    simp [devBacked, hl1, List.contains_iff_mem.mp hc]
  have hdok : m'.devFields.all (devOk (remember st' m'.num m'.fields)) = true := by
    apply List.all_eq_true.mpr
    intro d hd
    obtain ⟨fd, hl1, hl0, _⟩ := hlk d hd
    obtain ⟨fd', hl, _, ha, hu, hsz, _⟩ := hpd d hd
    rw [hl0] at hl; cases hl
    simp [devOk, hl1, integrity, ha, hu]
    omega
  unfold specValidate
  simp only [hsf', hallf, Bool.not_true, Bool.false_or, hsd', hback, hdok]
  have h1 : decide (m'.fields.length > 255) = false := by simp; omega
  have h2 : decide (m'.devFields.length > 255) = false := by simp; omega
  have h3 : (m'.fields.isEmpty && m'.devFields.isEmpty) = false := by
    cases hfe : m'.fields with
    | nil =>
      cases hde : m'.devFields with
      | nil => exact absurd ⟨hfe, hde⟩ hne
      | cons _ _ => simp
    | cons _ _ => simp
  simp [h1, h2, h3]

/-- non-vacuity: a record whose scaled altitude (scale 5, offset 500) has been restored to a uint16, any `D` -/
example (D : Discard) (f : Field)
    (hf : f = ⟨some ⟨2, btUint16, false, false, 0x4014000000000000, 0x407F400000000000, true, false⟩, .uint16 2600, false⟩) :
    restoredField D f = f := by
  subst hf
  simp [restoredField, restoreField, discardValue]

/-- the full statement: validating an accepted message again returns it unchanged -/
def C10_idempotent_full (D : Discard) : Prop :=
  ∀ (o : Options) (st : State) (m m' : Message), (validate D o st m).1 = .ok m' →
    (validate D o (validate D o st m).2 m').1 = .ok m'

/-- a float64 field (base type float64) with scale 2 holding `bits` -/
def kf2Mesg (bits : Nat) : Message :=
  ⟨20, [⟨some ⟨9, btFloat64, false, false, 0x4000000000000000, 0, true, false⟩, .float64 bits, false⟩], []⟩

/-- **KF-C10-2.** For any discard function that computes (1.5+0)·2 = 3 and (3+0)·2 = 6 (as binary64 does) the full
statement is false: a float64 field with scale 2 is scaled again by the second validation. -/
theorem C10_idempotent_full_fails_rescale (D : Discard)
    (h1 : D (.float64 0x3FF8000000000000) btFloat64 0x4000000000000000 0 = .float64 0x4008000000000000)
    (h2 : D (.float64 0x4008000000000000) btFloat64 0x4000000000000000 0 = .float64 0x4018000000000000) :
    ¬ C10_idempotent_full D := by
  intro h
  unfold C10_idempotent_full at h
  have e1 : validate D {} {} (kf2Mesg 0x3FF8000000000000) = (.ok (kf2Mesg 0x4008000000000000), {}) := by
    simp [validate, validateFields, kf2Mesg, restoreField, scaleNotOne, offsetNotZero, f64One, discardValue, h1,
      valid, integrity, align, utf8Valid, size, float64Invalid, protoSize, protoSizes, typeOf, typeFloat64,
      remember, mesgNumDeveloperDataId, mesgNumFieldDescription, Except.map]
  have e2 : validate D {} {} (kf2Mesg 0x4008000000000000) = (.ok (kf2Mesg 0x4018000000000000), {}) := by
    simp [validate, validateFields, kf2Mesg, restoreField, scaleNotOne, offsetNotZero, f64One, discardValue, h2,
      valid, integrity, align, utf8Valid, size, float64Invalid, protoSize, protoSizes, typeOf, typeFloat64,
      remember, mesgNumDeveloperDataId, mesgNumFieldDescription, Except.map]
  have := h {} {} (kf2Mesg 0x3FF8000000000000) (kf2Mesg 0x4008000000000000) (by rw [e1])
  rw [e1] at this
  simp only at this
  rw [e2] at this
  simp [kf2Mesg] at this

/-- a developer field whose only value is invalid, after its developer-data-id and field-description were seen -/
def kf3State : State := ⟨[0], [⟨0, 1, btUint8, 255, 127, 65535, 255⟩]⟩
def kf3Mesg : Message := ⟨20, [], [⟨0, 1, .uint8 255⟩]⟩

/-- the former witness of KF-C10-3 (a message without fields whose only developer field is dropped as invalid; it
used to be accepted as the empty message, which the second validation rejected) is now rejected with `errNoFields`
the first time, for every discard function, and so is the empty message it used to become -/
example (D : Discard) : (validate D {} kf3State kf3Mesg).1 = .error .noFields ∧
    (validate D {} kf3State ⟨20, [], []⟩).1 = .error .noFields := by
  constructor
  · simp [validate, validateFields, validateDevs, kf3Mesg, kf3State, lookupFd, restoreDev, valid, remember,
      mesgNumDeveloperDataId, mesgNumFieldDescription, mesgNumInvalid, uint8Invalid, sint8Invalid, btUint8, btEnum, btByte, enumInvalid, byteInvalid]
  · simp [validate, validateFields]

/-! ### rejection, limit by limit (corollaries of `C10_validate_iff_spec` / `C10_reject`) -/

/-- the message never reaches the writer: `Validate` returns an error and the gate, under every protocol version, lets
nothing through -/
def Rejected (D : Discard) (o : Options) (st : State) (m : Message) : Prop :=
  (∃ e, (validate D o st m).1 = .error e) ∧ ∀ ver m', (gateStream D ver o st m).1 ≠ .ok m'

theorem rejected_of_spec_none (D : Discard) (o : Options) (st : State) (m : Message) (h : specValidate D o st m = none) :
    Rejected D o st m :=
  ⟨(C10_validate_iff_spec D o st m).2.mp h, fun ver m' => C10_reject D ver o st m (Or.inr h) m'⟩

/-- the state in which the developer fields of `m` are judged: `m`'s own kept fields have been remembered -/
def devState (D : Discard) (o : Options) (st : State) (m : Message) : State := remember st m.num (specFields D o m.fields)

/-- **More than 255 kept fields → rejected.** Whatever else the message holds: if more than 255 of its fields survive the
filter (have a `FieldBase`, are not expanded, hold a valid value or invalid values are preserved), `Validate` returns an error
and the gate lets nothing through under any protocol version. (With exactly 255 kept fields the message is writable: example
below.) -/
theorem C10_reject_too_many_fields (D : Discard) (o : Options) (st : State) (m : Message)
    (h : (m.fields.filter (keepField D o)).length > 255) : Rejected D o st m := by
  apply rejected_of_spec_none
  have : (specFields D o m.fields).length > 255 := by simpa [specFields] using h
  simp [specValidate, this]

/-- **A kept field whose (restored) value does not fit the protocol → rejected**: its type does not align with the field's
base type, or a string of it is not valid UTF-8, or it occupies more than 255 bytes (the definition's size is one byte). -/
theorem C10_reject_bad_value (D : Discard) (o : Options) (st : State) (m : Message) (f : Field) (b : FieldBase)
    (hf : f ∈ m.fields) (hb : f.base = some b) (hk : keepField D o f = true)
    (hbad : align (restoreField D f b).value b.baseType = false ∨ utf8Valid (restoreField D f b).value = false ∨
      size (restoreField D f b).value > 255) : Rejected D o st m := by
  apply rejected_of_spec_none
  have hmem : restoredField D f ∈ specFields D o m.fields :=
    List.mem_map.mpr ⟨f, List.mem_filter.mpr ⟨hf, hk⟩, rfl⟩
  have hnot : fieldOk (restoredField D f) = false := by
    simp only [restoredField, hb, fieldOk, restoreField_base, integrity]
    rcases hbad with h | h | h
    · simp [h]
    · cases align (restoreField D f b).value b.baseType <;> simp [h]
    · cases align (restoreField D f b).value b.baseType <;> cases utf8Valid (restoreField D f b).value <;> simp [h]
  have : (specFields D o m.fields).all fieldOk = false := by
    rw [List.all_eq_false]
    exact ⟨_, hmem, by simp [hnot]⟩
  simp [specValidate, this]


theorem spec_dev_none (D : Discard) (o : Options) (st : State) (m : Message)
    (h : (!(m.devFields.all (devBacked (devState D o st m))) ||
      !((specDevs D o (devState D o st m) m.devFields).all (devOk (devState D o st m))) ||
      decide ((specDevs D o (devState D o st m) m.devFields).length > 255)) = true) : specValidate D o st m = none := by
  unfold specValidate
  simp only [devState] at h
  simp only
  split
  · rfl
  · split
    · rfl
    · rename_i hc; exact absurd h hc

/-- **A developer field that is not backed → rejected**: its developer data index was not announced by a developer-data-id
message, or no field description for (index, number) has been seen — judged in the state after this message's own kept
fields were remembered (a developer-data-id / field-description message backs its own developer fields). -/
theorem C10_reject_unbacked_dev (D : Discard) (o : Options) (st : State) (m : Message) (d : DevField)
    (hd : d ∈ m.devFields)
    (h : (devState D o st m).ddis.contains d.devIdx = false ∨ lookupFd (devState D o st m).fds d = none) :
    Rejected D o st m := by
  apply rejected_of_spec_none
  apply spec_dev_none
  have : m.devFields.all (devBacked (devState D o st m)) = false := by
    rw [List.all_eq_false]
    refine ⟨d, hd, ?_⟩
    rcases h with h | h
    · simp only [devBacked, h, Bool.false_and]; exact Bool.false_ne_true
    · simp only [devBacked, h, Option.isSome_none, Bool.and_false]; exact Bool.false_ne_true
  simp [this]

/-- **More than 255 kept developer fields → rejected.** -/
theorem C10_reject_too_many_dev_fields (D : Discard) (o : Options) (st : State) (m : Message)
    (h : (m.devFields.filter (keepDev D o (devState D o st m))).length > 255) : Rejected D o st m := by
  apply rejected_of_spec_none
  apply spec_dev_none
  have : (specDevs D o (devState D o st m) m.devFields).length > 255 := by simpa [specDevs] using h
  simp [this]

/-- **A kept developer field whose (restored) value does not fit the described base type, is not valid UTF-8 or is longer
than 255 bytes → rejected.** -/
theorem C10_reject_bad_dev_value (D : Discard) (o : Options) (st : State) (m : Message) (d : DevField) (fd : FieldDesc)
    (hd : d ∈ m.devFields) (hl : lookupFd (devState D o st m).fds d = some fd)
    (hk : keepDev D o (devState D o st m) d = true)
    (hbad : align (restoreDev D o fd d).value fd.btId = false ∨ utf8Valid (restoreDev D o fd d).value = false ∨
      size (restoreDev D o fd d).value > 255) : Rejected D o st m := by
  apply rejected_of_spec_none
  apply spec_dev_none
  have hr : restoredDev D o (devState D o st m) d = restoreDev D o fd d := by simp [restoredDev, hl]
  have hmem : restoreDev D o fd d ∈ specDevs D o (devState D o st m) m.devFields := by
    rw [← hr]; exact List.mem_map.mpr ⟨d, List.mem_filter.mpr ⟨hd, hk⟩, rfl⟩
  have hkey := restoreDev_key D o fd d
  have hl' : lookupFd (devState D o st m).fds (restoreDev D o fd d) = some fd := by
    rw [lookupFd_congr _ d _ hkey.1 hkey.2]; exact hl
  have hnot : devOk (devState D o st m) (restoreDev D o fd d) = false := by
    simp only [devOk, hl', integrity]
    rcases hbad with h | h | h
    · simp [h]
    · cases align (restoreDev D o fd d).value fd.btId <;> simp [h]
    · cases align (restoreDev D o fd d).value fd.btId <;> cases utf8Valid (restoreDev D o fd d).value <;> simp [h]
  have : (specDevs D o (devState D o st m) m.devFields).all (devOk (devState D o st m)) = false := by
    rw [List.all_eq_false]
    exact ⟨_, hmem, by simp [hnot]⟩
  simp [this]

/-- **Nothing left to write → rejected**: no field and no developer field survives the filter (`errNoFields`; since the
repair of KF-C10-3 also when the message had developer fields that were all dropped). -/
theorem C10_reject_nothing_left (D : Discard) (o : Options) (st : State) (m : Message)
    (hf : ∀ f ∈ m.fields, keepField D o f = false)
    (hd : ∀ d ∈ m.devFields, keepDev D o (devState D o st m) d = false) : Rejected D o st m := by
  apply rejected_of_spec_none
  have h1 : specFields D o m.fields = [] := by
    simp only [specFields, List.map_eq_nil_iff, List.filter_eq_nil_iff]
    intro f hfm; simp [hf f hfm]
  have h2 : specDevs D o (devState D o st m) m.devFields = [] := by
    simp only [specDevs, List.map_eq_nil_iff, List.filter_eq_nil_iff]
    intro d hdm; simp [hd d hdm]
  simp only [devState, h1] at h2
  unfold specValidate
  simp only [h1, h2]
  simp

/-- **Protocol 1.0: developer fields and base types added after `byte` (the 64-bit types) → rejected** by the gate, before
the message validator is even asked. -/
theorem C10_reject_v1 (D : Discard) (o : Options) (st : State) (m : Message)
    (h : m.devFields ≠ [] ∨ ∃ f ∈ m.fields, ∃ b, f.base = some b ∧ afterV1 b.baseType = true) :
    ∀ m', (gateStream D protoV1 o st m).1 ≠ .ok m' := by
  apply C10_reject
  left
  simp only [protoOk, bne_self_eq_false, Bool.false_or, Bool.and_eq_false_iff]
  rcases h with h | ⟨f, hf, b, hb, ha⟩
  · left; cases hd : m.devFields with
    | nil => exact absurd hd h
    | cons _ _ => rfl
  · right
    rw [List.all_eq_false]
    exact ⟨f, hf, by simp [fieldAllowed, hb, ha]⟩



/-- non-vacuity of the limits (kernel-evaluated): 256 kept fields are rejected and 255 are accepted; a 256-byte value, a
uint16 under base type uint8, an undescribed developer field meet the hypotheses of their corollaries -/
def manyFields (n : Nat) : List Field :=
  (List.range n).map fun i => (⟨some ⟨i % 256, btUint8, false, false, f64One, 0, true, false⟩, .uint8 1, false⟩ : Field)
example : ((manyFields 256).filter (keepField (fun v _ _ _ => v) {})).length > 255 := by decide +kernel
example : (match (validate (fun v _ _ _ => v) {} {} ⟨20, manyFields 255, []⟩).1 with
      | .ok m => decide (m = ⟨20, manyFields 255, []⟩) | .error _ => false) = true ∧
    (match (validate (fun v _ _ _ => v) {} {} ⟨20, manyFields 256, []⟩).1 with
      | .error e => decide (e = .exceed) | .ok _ => false) = true := by
  decide +kernel
example : size (.sliceUint8 (List.replicate 256 1)) > 255 ∧ align (.uint16 5) btUint8 = false ∧
    lookupFd (devState (fun v _ _ _ => v) {} {} ⟨20, [], [⟨0, 1, .uint8 5⟩]⟩).fds ⟨0, 1, .uint8 5⟩ = none := by decide +kernel

/-! ### idempotence, syntactic form -/

/-- the value is not float64-typed (`TypeFloat64` / `TypeSliceFloat64`): `DiscardValue` leaves it alone -/
def notF64 : Value → Bool
  | .float64 _ | .sliceFloat64 _ => false
  | _ => true

theorem discardValue_not_f64 (D : Discard) (v : Value) (bt s o : Nat) (h : notF64 v = true) :
    Validator.discardValue D v bt s o = v := by
  cases v <;> first | rfl | simp [notF64] at h

theorem restored_id_of_not_f64 (D : Discard) (f : Field) (h : notF64 f.value = true) : restoredField D f = f := by
  unfold restoredField
  cases hb : f.base with
  | none => rfl
  | some b =>
    simp only [restoreField]
    split
    · rw [discardValue_not_f64 D _ _ _ _ h]
    · rfl

theorem restoreDev_id_of_not_f64 (D : Discard) (o : Options) (fd : FieldDesc) (d : DevField) (h : notF64 d.value = true) :
    restoreDev D o fd d = d := by
  unfold restoreDev
  split
  · simp only
    split
    · rw [discardValue_not_f64 D _ _ _ _ h]
    · rfl
  · split
    · rw [discardValue_not_f64 D _ _ _ _ h]
    · rfl

/-- **Validating twice = validating once, syntactic form.** If no value of the accepted message is float64-typed
(`TypeFloat64` / `TypeSliceFloat64`) a second validation returns it unchanged: restoring touches float64-typed values only
(`restored_id_of_not_f64`). The class left out is exactly KF-C10-2's (a float64 value that stays float64). -/
theorem C10_idempotent_not_f64 (D : Discard) (o : Options) (st : State) (m m' : Message)
    (h : (validate D o st m).1 = .ok m')
    (hf : ∀ f ∈ m'.fields, notF64 f.value = true) (hd : ∀ d ∈ m'.devFields, notF64 d.value = true) :
    (validate D o (validate D o st m).2 m').1 = .ok m' := by
  apply C10_idempotent_partial D o st m m' h
  · intro f hfm; exact restored_id_of_not_f64 D f (hf f hfm)
  · intro d hdm
    unfold restoredDev
    split
    · exact restoreDev_id_of_not_f64 D o _ d (hd d hdm)
    · rfl

theorem align_f64 (v : Value) (bt : Nat) (ha : align v bt = true) (hbt : bt ≠ btFloat64) : notF64 v = true := by
  cases v <;> first | rfl | (simp only [align, beq_iff_eq] at ha; exact absurd ha hbt)

/-- **… stated on the input**: if no field of the message has base type float64 and no field description known to the
validator afterwards describes a float64 developer field, validating twice equals validating once — a kept value aligns with
its base type (`C10_post`), so it is not float64-typed. Every message of the standard profile meets the first condition except
through custom / unknown float64 fields. -/
theorem C10_idempotent_no_float64_base (D : Discard) (o : Options) (st : State) (m m' : Message)
    (h : (validate D o st m).1 = .ok m')
    (hf : ∀ f ∈ m.fields, ∀ b, f.base = some b → b.baseType ≠ btFloat64)
    (hd : ∀ fd ∈ (validate D o st m).2.fds, fd.btId ≠ btFloat64) :
    (validate D o (validate D o st m).2 m').1 = .ok m' := by
  obtain ⟨_, _, _, hpf, hpd⟩ := C10_post D o st m m' h
  obtain ⟨_, h2, _⟩ := C10_validate_filter D o st m m' h
  apply C10_idempotent_not_f64 D o st m m' h
  · intro f hfm
    obtain ⟨b, hb, _, ha, _⟩ := hpf f hfm
    rw [h2] at hfm
    obtain ⟨g, hg, _, rfl⟩ := mem_specFields hfm
    have hgb : g.base = some b := by
      cases hgb : g.base with
      | none => simp [restoredField, hgb] at hb
      | some b' => simp only [restoredField, hgb, restoreField_base] at hb; exact hb
    exact align_f64 _ _ ha (hf g hg b hgb)
  · intro d hdm
    obtain ⟨fd, hl, _, ha, _⟩ := hpd d hdm
    have hmem : fd ∈ (validate D o st m).2.fds := List.mem_of_find?_eq_some hl
    exact align_f64 _ _ ha (hd fd hmem)

/-! ### the batch gate; the protocol version the encoder validates under -/

theorem protoAll_not_panic (ver : Nat) : ∀ ms : List Message, protoAll ver ms ≠ .panic := by
  intro ms
  induction ms with
  | nil => simp [protoAll]
  | cons m ms ih =>
    simp only [protoAll]
    cases hp : protoValidate ver m with
    | panic => exact absurd hp (protoValidate_not_panic ver m)
    | err e => simp
    | ok u => exact ih

/-- **The batch gate never panics** (`Encoder.validateMessages`), whatever the version, options and messages. -/
theorem C10_batch_no_panic (D : Discard) (ver : Nat) (o : Options) (ms : List Message) : gateBatch D ver o ms ≠ .panic := by
  unfold gateBatch
  cases hp : protoAll ver ms with
  | panic => exact absurd hp (protoAll_not_panic ver ms)
  | err e => simp
  | ok u =>
    simp only
    cases validateAll D o {} ms <;> simp

theorem protoAll_ok (ver : Nat) : ∀ ms : List Message, ms.all (protoOk ver) = true → protoAll ver ms = .ok () := by
  intro ms
  induction ms with
  | nil => intro _; rfl
  | cons m ms ih =>
    intro h
    simp only [List.all_cons, Bool.and_eq_true] at h
    simp only [protoAll]
    cases hp : protoValidate ver m with
    | panic => exact absurd hp (protoValidate_not_panic ver m)
    | err e => exact absurd hp (protoOk_not_err ver m h.1 e)
    | ok u => exact ih h.2

theorem validateAll_of_spec (D : Discard) (o : Options) : ∀ (ms : List Message) (st : State) (r : List Message),
    specAll D o st ms = some r → validateAll D o st ms = .ok r := by
  intro ms
  induction ms with
  | nil => intro st r h; simp only [specAll, Option.some.injEq] at h; subst h; rfl
  | cons m ms ih =>
    intro st r h
    simp only [specAll] at h
    cases hs : specValidate D o st m with
    | none => simp [hs] at h
    | some m1 =>
      simp only [hs] at h
      have hok := ((C10_validate_iff_spec D o st m).1 m1).mp hs
      cases hrest : specAll D o (validate D o st m).2 ms with
      | none => simp [hrest] at h
      | some r' =>
        simp only [hrest, Option.map_some, Option.some.injEq] at h
        subst h
        have := ih _ _ hrest
        simp only [validateAll]
        cases hv : validate D o st m with
        | mk x s =>
          rw [hv] at hok this
          simp only at hok this
          subst hok
          simp [this, Except.map]

/-- **The batch gate is complete** (converse of `C10_reject_batch`): a list of messages each allowed by the protocol version and
each writable (in order, state threaded) passes as exactly the specified messages — nothing writable is rejected. -/
theorem C10_accept_batch_all (D : Discard) (ver : Nat) (o : Options) (ms ms' : List Message)
    (hp : ms.all (protoOk ver) = true) (hs : specAll D o {} ms = some ms') : gateBatch D ver o ms = .ok ms' := by
  unfold gateBatch
  rw [protoAll_ok ver ms hp]
  simp only [validateAll_of_spec D o ms {} ms' hs]

/-- **Which protocol version the gate validates under** (`selectProtocolVersion`): the encoder option when given, else the
file header's, an unspecified one (0) meaning 1.0; it is 1.0 exactly when the option says 1.0, or the option is absent and the
header says 1.0 or nothing. -/
theorem C10_select_version (opt hdr : Nat) :
    (opt ≠ 0 → selectVersion opt hdr = opt) ∧ (opt = 0 → hdr ≠ 0 → selectVersion opt hdr = hdr) ∧
    selectVersion 0 0 = protoV1 ∧
    (selectVersion opt hdr = protoV1 ↔ opt = protoV1 ∨ (opt = 0 ∧ (hdr = 0 ∨ hdr = protoV1))) := by
  have hv : protoV1 ≠ 0 := by decide
  refine ⟨fun h => by simp [selectVersion, h], fun h1 h2 => by simp [selectVersion, h1, h2], by simp [selectVersion], ?_⟩
  unfold selectVersion
  by_cases h0 : opt = 0
  · subst h0
    by_cases h1 : hdr = 0
    · subst h1; simp
    · simp [h1, Ne.symm hv]
  · simp only [ne_eq, h0, not_false_eq_true, if_true, false_and, or_false]


end Fit.C10
