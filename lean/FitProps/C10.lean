import FitModel.Validator
/-! # C10 (placeholder while the lemma files are written) -/
namespace Fit.C10
end Fit.C10
