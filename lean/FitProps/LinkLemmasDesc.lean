import FitProps.LinkLemmasField
/-!
LINK (C) ↔ (D), part 3: the field description a `field_description` message (206) leaves behind. (D) reads the first byte
of the last field numbered 0 / 1 / 2 straight from the record; (C) builds `mesgdef.FieldDescription` from the decoded
message. With a factory that treats those three fields as the profile does (`facFdOK`) the two agree.
-/
set_option linter.unusedSimpArgs false
set_option linter.unusedVariables false

namespace Fit.Link
open Fit.DecApi Fit.Gen Fit.Gen.DecApi Fit.Crc Fit.Value

/-- what `facFdOK` says, as propositions -/
structure FdPlain (fac : Factory) : Prop where
  plain : ∀ n, n = fnFieldDescriptionDeveloperDataIndex ∨ n = fnFieldDescriptionFieldDefinitionNumber ∨ n = fnFieldDescriptionFitBaseTypeId →
    (fac.create mesgNumFieldDescription n).known = true ∧ (fac.create mesgNumFieldDescription n).bt = btUint8 ∧
    (fac.create mesgNumFieldDescription n).isBool = false ∧ (fac.create mesgNumFieldDescription n).array = false
  nocomp : ∀ n, (fac.create mesgNumFieldDescription n).comps = []

theorem fdPlain_of {fac : Factory} (h : facFdOK fac = true) : FdPlain fac := by
  unfold facFdOK at h
  simp only [Bool.and_eq_true, List.all_cons, List.all_nil, Bool.and_true, Bool.not_eq_true', beq_iff_eq,
    List.all_eq_true, Bool.or_eq_true, bne_iff_ne, ne_eq, List.isEmpty_iff] at h
  obtain ⟨⟨h0, h1, h2⟩, hc⟩ := h
  refine ⟨?_, ?_⟩
  · intro n hn
    rcases hn with rfl | rfl | rfl
    · exact ⟨h0.1.1.1, h0.1.1.2, h0.1.2, h0.2⟩
    · exact ⟨h1.1.1.1, h1.1.1.2, h1.1.2, h1.2⟩
    · exact ⟨h2.1.1.1, h2.1.1.2, h2.1.2, h2.2⟩
  · intro n
    unfold Factory.create
    cases hf : fac.find? (fun e => e.mesgNum == mesgNumFieldDescription && e.num == n) with
    | none => rfl
    | some e =>
      have hm := List.mem_of_find?_eq_some hf
      have hp := List.find?_some hf
      simp only [Bool.and_eq_true, beq_iff_eq] at hp
      rcases hc e hm with h | h
      · exact absurd hp.1 h
      · exact h

theorem fieldPure_num {fac : Factory} {d : MesgDef} {fd : FieldDef} {b : List Nat} {f : DField}
    (h : fieldPure fac d fd b = .ok f) : f.num = fd.num ∧ f.known = (fac.create d.mesgNum fd.num).known := by
  unfold fieldPure at h
  simp only [Bind.bind, Res.bind] at h
  split at h
  · rename_i sh hsh
    obtain ⟨bt, isBoolF, arrayF, ov⟩ := sh
    simp only at h
    split at h
    · cases h; exact ⟨rfl, rfl⟩
    all_goals cases h
  all_goals cases h

/-- a plain one-byte field decodes to its first byte -/
theorem fieldPure_plain {fac : Factory} {d : MesgDef} {fd : FieldDef} {b : List Nat} {f : DField}
    (hk : (fac.create d.mesgNum fd.num).known = true) (hbt : (fac.create d.mesgNum fd.num).bt = btUint8)
    (hb : (fac.create d.mesgNum fd.num).isBool = false) (ha : (fac.create d.mesgNum fd.num).array = false)
    (h0 : fd.size ≠ 0) (hlen : b.length = fd.size) (h : fieldPure fac d fd b = .ok f) : f.value = .uint8 (b.headD 0) := by
  unfold fieldPure fieldShape at h
  simp only [hk, if_true, Bind.bind, Res.bind, Pure.pure, hbt, hb, ha] at h
  have hrs : readShape fd.size btUint8 false false = (btUint8, false, false) := by
    unfold readShape
    have : ¬ fd.size < btSize btUint8 := by
      have : btSize btUint8 = 1 := by decide
      omega
    simp only [this, if_false]
  simp only [hrs, Bool.false_eq_true, false_and, if_false, ne_eq, not_true_eq_false] at h
  have hu : unmarshal b d.arch btUint8 false false = .ok (.uint8 (b.headD 0)) := by
    match b, hlen with
    | x :: r, _ =>
      simp [unmarshal, btUint8, btSint8, btEnum, btByte, btUint8z, decScalar, dec, ofLE]
  rw [hu] at h
  simp only at h
  cases h; rfl

def fdNums (n : Nat) : Prop :=
  n = fnFieldDescriptionDeveloperDataIndex ∨ n = fnFieldDescriptionFieldDefinitionNumber ∨ n = fnFieldDescriptionFitBaseTypeId

theorem valsOf_append_hit (bound : Nat) (pre : List DField) (f : DField) (n : Nat)
    (h : (decide (f.num ≤ bound) && f.known && f.num == n) = true) : valsOf bound (pre ++ [f]) n = f.value := by
  unfold valsOf
  rw [List.filter_append]
  simp only [List.filter_cons, h, if_true, List.filter_nil, List.getLast?_append, List.getLast?_singleton, Option.or_some]
  simp

theorem valsOf_append_miss (bound : Nat) (pre : List DField) (f : DField) (n : Nat)
    (h : (decide (f.num ≤ bound) && f.known && f.num == n) = false) : valsOf bound (pre ++ [f]) n = valsOf bound pre n := by
  unfold valsOf
  rw [List.filter_append]
  simp only [List.filter_cons, h, Bool.false_eq_true, if_false, List.filter_nil, List.append_nil]

/-- THE FIELD DESCRIPTION. The three values (C) reads out of the decoded `field_description` message are the first bytes of
the last fields numbered 0 / 1 / 2 among the bytes (D) collected. -/
theorem iFields_vals (d : MesgDef) (hm : d.mesgNum = mesgNumFieldDescription) (n : Nat) (hn : fdNums n) :
    ∀ (fds : List FieldDef) (new : List (Nat × List Nat)), Aligned fds new →
    ∀ (pre : List DField) (t : St) (fs : List DField) (t' : St), FdPlain t.o.fac →
      (∀ f ∈ fds, btValid f.bt = true ∧ f.size < 256) →
      iFields d fds new pre t = .ok (fs, t') →
      uint8Of (valsOf fieldDescBound fs n) =
        match (new.filter fun p => decide (p.1 = n)).getLast? with
        | some p => p.2.headD 0
        | none => uint8Of (valsOf fieldDescBound pre n) := by
  intro fds new hal
  induction hal with
  | nil =>
    intro pre t fs t' _ _ h
    simp only [iFields] at h
    cases h
    simp
  | skip fd fds new h0 hal ih =>
    intro pre t fs t' hp hfds h
    have hfd := hfds fd (by simp)
    obtain ⟨sh, hsh, _⟩ := fieldShape_ok (t.o.fac.create d.mesgNum fd.num) fd hfd.1
    unfold iFields at h
    simp only [h0, if_true] at h
    rw [decodeField_zero d fd { t with rest := [] } h0 ⟨sh, hsh⟩] at h
    simp only at h
    exact ih pre { t with rest := [] } fs t' hp (fun f hf => hfds f (by simp [hf])) h
  | take fd fds b new h0 hlen hb hal ih =>
    intro pre t fs t' hp hfds h
    have hfd := hfds fd (by simp)
    have hszr : fd.size ≤ reservedbuf := by have := hfd.2; simp [reservedbuf]; omega
    obtain ⟨sh, hsh, _⟩ := fieldShape_ok (t.o.fac.create d.mesgNum fd.num) fd hfd.1
    unfold iFields at h
    simp only [h0, if_false, List.head?_cons, Option.map_some, Option.getD_some, List.tail_cons] at h
    rw [decodeField_eq d fd { t with rest := b } hszr h0 ⟨sh, hsh⟩] at h
    have hbl : ({ t with rest := b } : St).rest.length = fd.size := hlen
    simp only [hbl, Nat.le_refl, if_true] at h
    have htk : List.take fd.size b = b := by rw [← hlen]; exact List.take_length
    simp only [htk] at h
    cases hf : fieldPure t.o.fac d fd b with
    | err e => rw [hf] at h; cases h
    | panic => rw [hf] at h; cases h
    | hang => rw [hf] at h; cases h
    | ok f =>
      rw [hf] at h
      simp only at h
      have hq := fieldUpd_quiet t.o.fac d fd f (adv { t with rest := b } fd.size)
      have hih := ih (pre ++ [f]) _ fs t' (by rw [hq.1]; exact hp) (fun f hf => hfds f (by simp [hf])) h
      rw [hih]
      obtain ⟨hnum, hknown⟩ := fieldPure_num hf
      by_cases hfn : fd.num = n
      · -- this field is one of the three: its value is its first byte
        have hpl := hp.plain n hn
        rw [hm, hfn] at hknown
        have hval := fieldPure_plain (by rw [hm, hfn]; exact hpl.1) (by rw [hm, hfn]; exact hpl.2.1)
          (by rw [hm, hfn]; exact hpl.2.2.1) (by rw [hm, hfn]; exact hpl.2.2.2) h0 hlen hf
        have hle : n ≤ fieldDescBound := by rcases hn with h | h | h <;> subst h <;> decide
        have hhit : (decide (f.num ≤ fieldDescBound) && f.known && f.num == n) = true := by
          rw [hnum, hfn, hknown, hpl.1]; simp [hle]
        have hb0 : b.headD 0 < 256 := by
          cases b with
          | nil => simp
          | cons x r => exact hb x (by simp)
        simp only [List.filter_cons, hfn, decide_true, if_true]
        cases hl : (new.filter fun p => decide (p.1 = n)).getLast? with
        | some p => simp [List.getLast?_cons, hl]
        | none =>
          have : new.filter (fun p => decide (p.1 = n)) = [] := by simpa using hl
          simp only [this, List.getLast?_singleton]
          rw [valsOf_append_hit _ _ _ _ hhit, hval]
          simp only [uint8Of, Nat.mod_eq_of_lt hb0]
      · have hmiss : (decide (f.num ≤ fieldDescBound) && f.known && f.num == n) = false := by
          rw [hnum]; simp [hfn]
        have hfn' : decide (fd.num = n) = false := by simp [hfn]
        simp only [List.filter_cons, hfn', Bool.false_eq_true, if_false]
        rw [valsOf_append_miss _ _ _ _ hmiss]

end Fit.Link
