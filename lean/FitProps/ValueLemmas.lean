import FitModel.Value
/-! Helper lemmas about the byte-order functions, chunking and string terminators of `FitModel/Value.lean`. -/
namespace Fit.Value
open Fit.Gen

/-! ### little/big-endian encodings -/

@[simp] theorem leBytes_length (w n : Nat) : (leBytes w n).length = w := by
  induction w generalizing n with
  | zero => rfl
  | succ w ih => simp [leBytes, ih]

@[simp] theorem enc_length (w a n : Nat) : (enc w a n).length = w := by
  unfold enc; split <;> simp

theorem leBytes_lt (w n : Nat) : ∀ b ∈ leBytes w n, b < 256 := by
  induction w generalizing n with
  | zero => intro b hb; cases hb
  | succ w ih =>
    intro b hb
    simp only [leBytes, List.mem_cons] at hb
    rcases hb with h | h
    · omega
    · exact ih _ b h

theorem enc_lt (w a n : Nat) : ∀ b ∈ enc w a n, b < 256 := by
  intro b hb
  unfold enc at hb
  split at hb
  · exact leBytes_lt w n b hb
  · exact leBytes_lt w n b (List.mem_reverse.mp hb)

theorem ofLE_leBytes (w n : Nat) : ofLE (leBytes w n) = n % 256 ^ w := by
  induction w generalizing n with
  | zero => simp [leBytes, ofLE, Nat.mod_one]
  | succ w ih =>
    simp only [leBytes, ofLE, ih]
    rw [Nat.pow_succ, Nat.mul_comm (256 ^ w) 256, Nat.mod_mul]

theorem dec_enc (w a n : Nat) : dec a (enc w a n) = n % 256 ^ w := by
  unfold dec enc
  split <;> simp [ofLE_leBytes]

/-! ### chunks -/

theorem chunks_nil (w fuel : Nat) : chunks w fuel [] = [] := by
  cases fuel with
  | zero => rfl
  | succ f =>
    simp only [chunks, List.length_nil]
    split
    · omega
    · rfl

/-- chunking a concatenation of `w`-byte blocks gives the blocks back -/
theorem chunks_flatMap (w : Nat) (hw : 0 < w) (f : Nat → List Nat) (hf : ∀ x, (f x).length = w)
    (vs : List Nat) (fuel : Nat) (h : (vs.flatMap f).length ≤ fuel) :
    chunks w fuel (vs.flatMap f) = vs.map f := by
  induction vs generalizing fuel with
  | nil => simpa using chunks_nil w fuel
  | cons x xs ih =>
    simp only [List.flatMap_cons, List.length_append, hf] at h
    cases fuel with
    | zero => omega
    | succ fuel =>
      simp only [chunks, List.flatMap_cons, List.length_append, hf, List.map_cons]
      rw [if_pos ⟨by omega, hw⟩]
      have e1 : (f x ++ List.flatMap f xs).take w = f x := by
        rw [List.take_append_of_le_length (by rw [hf]; exact Nat.le_refl w), List.take_of_length_le (by rw [hf]; exact Nat.le_refl w)]
      have e2 : (f x ++ List.flatMap f xs).drop w = List.flatMap f xs := by
        rw [List.drop_append_of_le_length (by rw [hf]; exact Nat.le_refl w), List.drop_of_length_le (by rw [hf]; exact Nat.le_refl w), List.nil_append]
      rw [e1, e2, ih fuel (by omega)]

theorem decSlice_enc (w a : Nat) (hw : 0 < w) (vs : List Nat) :
    decSlice w a (vs.flatMap (enc w a)) = vs.map (· % 256 ^ w) := by
  unfold decSlice
  rw [chunks_flatMap w hw (enc w a) (enc_length w a) vs _ (Nat.le_refl _)]
  simp [List.map_map, Function.comp_def, dec_enc]

theorem map_mod_of_allLt (n : Nat) (vs : List Nat) (h : allLt n vs = true) : vs.map (· % n) = vs := by
  induction vs with
  | nil => rfl
  | cons x xs ih =>
    simp only [allLt, List.all_cons, Bool.and_eq_true, decide_eq_true_eq] at h
    simp only [List.map_cons, Nat.mod_eq_of_lt h.1]
    rw [ih (by simpa [allLt] using h.2)]

theorem flatMap_enc_length (w a : Nat) (vs : List Nat) : (vs.flatMap (enc w a)).length = vs.length * w := by
  induction vs with
  | nil => simp
  | cons x xs ih => simp [List.flatMap_cons, ih, Nat.succ_mul, Nat.add_comm]

/-! ### strings and their terminators -/

theorem strBytes_length (s : List Nat) : (strBytes s).length = strSize s := by
  unfold strBytes strSize
  split <;> simp

theorem strSize_pos (s : List Nat) : 0 < strSize s := by
  unfold strSize
  split
  · omega
  · rename_i h
    cases s with
    | nil => simp at h
    | cons => simp

theorem flatMap_strBytes_length (vs : List (List Nat)) :
    (vs.flatMap strBytes).length = (vs.map strSize).sum := by
  induction vs with
  | nil => rfl
  | cons x xs ih => simp [List.flatMap_cons, ih, strBytes_length]

theorem sum_strSize_eq_zero (vs : List (List Nat)) : (vs.map strSize).sum = 0 ↔ vs = [] := by
  cases vs with
  | nil => simp
  | cons x xs =>
    have := strSize_pos x
    simp only [List.map_cons, List.sum_cons, reduceCtorEq, iff_false]
    omega

end Fit.Value
