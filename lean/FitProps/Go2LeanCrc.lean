import FitModel.Crc
import FitModel.Generated.Go_crc16
import FitProps.Go2LeanLemmas
import FitProps.CrcLemmas
/-!
Agreement of the definitions GENERATED from kit/hash/crc16/crc16.go (`Go.crc16.*`, re-translated from the current source
on every run) with the hand-written model `Fit.Crc.*` that the theorems of C18 and C04 are about — for ALL arguments.
A change of a Go function body that changes its meaning makes one of these fail at `lake build` time.
-/
set_option linter.unusedSimpArgs false  -- spare lemmas keep the proofs stable under harmless rewrites of the source
namespace Fit.Go2Lean
open Fit.Crc

/-- the 16 literals of `var table`, as the translator reads them (go/types constant values), are the table the model
indexes (`Fit.Crc.T`, unpacked from the astfacts extraction) — and there are exactly 16 -/
theorem crc_table : Go.crc16.table.length = 16 ∧ ∀ i < 16, Go.crc16.table[i]? = some (T i) := by decide +kernel

/-- on a `uint16` the mask of `(crc >> 4) & 0x0FFF` is redundant -/
theorem mask_drop (x : Nat) (h : x < 65536) : (x >>> 4) &&& 4095 = x >>> 4 := by
  have : x >>> 4 < 2 ^ 12 := by rw [Nat.shiftRight_eq_div_pow]; omega
  rw [show (4095 : Nat) = 2 ^ 12 - 1 by decide, Nat.and_two_pow_sub_one_eq_mod, Nat.mod_eq_of_lt this]

theorem mask_drop' (x : Nat) (h : x < 65536) : 4095 &&& (x >>> 4) = x >>> 4 := by
  rw [Nat.and_comm]; exact mask_drop x h

/-! 16-bit bounds that `simp` chains by itself (side conditions of `mask_drop`), whatever the association of the xors -/
theorem xor_lt16 (a b : Nat) (ha : a < 65536) (hb : b < 65536) : a ^^^ b < 65536 :=
  Nat.xor_lt_two_pow (n := 16) ha hb
theorem T_lt16 (i : Nat) : T i < 65536 := T_lt i
theorem shr_lt16 (x k : Nat) (h : x < 65536) : x >>> k < 65536 :=
  Nat.lt_of_le_of_lt (Nat.shiftRight_le x k) h

/-- `(*crc16).compute(crc, b)` never panics and is `Fit.Crc.compute`, for every state (a `uint16`) and every byte.
(The range hypothesis is what a `uint16` parameter means; with it the proof does not depend on whether the source keeps the
masks `& 0x0FFF`, which are redundant on a `uint16`.) -/
theorem crc_compute (c crc b : Nat) (hc : crc < 2 ^ 16) : Go.crc16.crc16.compute c crc b = some (compute crc b) := by
  have hc' : crc < 65536 := hc
  simp (maxDischargeDepth := 8) [Go.crc16.crc16.compute, crc_table.2, and_15_lt, compute, nibStep, mask_drop, mask_drop', hc',
    xor_lt16, T_lt16, shr_lt16]
  first | done | ac_rfl

/-- `(*crc16).Write(p)`: new state = the model's `write` (a left fold of `compute`), `n = len(p)`, never panics -/
theorem crc_write (c : Nat) (p : List Nat) (hc : c < 2 ^ 16) :
    Go.crc16.crc16.Write c p = some (write c p, (p.length : Int)) := by
  simp only [Go.crc16.crc16.Write, upI_zero, forIn_rangeI_idx, Option.bind_eq_bind, Option.pure_def, bind, pure]
  rw [forIn_some_yield_inv (fun s => s < 2 ^ 16) p (fun s a => Go.crc16.crc16.compute c s a) compute
    (fun s a hs => crc_compute c s a hs) (fun s a _ => compute_lt s a) c hc]
  simp [write]

theorem crc_sum16 (c : Nat) : Go.crc16.crc16.Sum16 c = sum16 c := by
  simp [Go.crc16.crc16.Sum16, sum16]

theorem crc_sum (c : Nat) (b : List Nat) : Go.crc16.crc16.Sum c b = sum c b := by
  simp [Go.crc16.crc16.Sum, sum]

theorem crc_reset (c : Nat) : Go.crc16.crc16.Reset c = reset := by
  simp [Go.crc16.crc16.Reset, reset]

theorem crc_sizes (c : Nat) : Go.crc16.crc16.Size c = 2 ∧ Go.crc16.crc16.BlockSize c = 1 := by
  simp [Go.crc16.crc16.Size, Go.crc16.crc16.BlockSize]

end Fit.Go2Lean
