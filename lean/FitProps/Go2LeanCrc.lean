import FitModel.Crc
import FitModel.Generated.Go_crc16
import FitProps.Go2LeanLemmas
/-!
Agreement of the definitions GENERATED from kit/hash/crc16/crc16.go (`Go.crc16.*`, re-translated from the current source
on every run) with the hand-written model `Fit.Crc.*` that the theorems of C18 and C04 are about — for ALL arguments.
A change of a Go function body that changes its meaning makes one of these fail at `lake build` time.
-/
set_option linter.unusedSimpArgs false  -- spare lemmas keep the proofs stable under harmless rewrites of the source
namespace Fit.Go2Lean
open Fit.Crc

/-- the 16 literals of `var table`, as the translator reads them (go/types constant values), are the table the model
indexes (`Fit.Crc.T`, unpacked from the astfacts extraction) — and there are exactly 16 -/
theorem crc_table : Go.crc16.table.length = 16 ∧ ∀ i < 16, Go.crc16.table[i]? = some (T i) := by decide +kernel

/-- `(*crc16).compute(crc, b)` never panics and is `Fit.Crc.compute`, for every state and byte (no range hypothesis) -/
theorem crc_compute (c crc b : Nat) : Go.crc16.crc16.compute c crc b = some (compute crc b) := by
  simp [Go.crc16.crc16.compute, crc_table.2, and_15_lt, compute, nibStep]
  first | done | ac_rfl

/-- `(*crc16).Write(p)`: new state = the model's `write` (a left fold of `compute`), `n = len(p)`, never panics -/
theorem crc_write (c : Nat) (p : List Nat) : Go.crc16.crc16.Write c p = some (write c p, (p.length : Int)) := by
  simp [Go.crc16.crc16.Write, crc_compute, write, forIn_some_yield, upI_zero, forIn_rangeI_idx]

theorem crc_sum16 (c : Nat) : Go.crc16.crc16.Sum16 c = sum16 c := by
  simp [Go.crc16.crc16.Sum16, sum16]

theorem crc_sum (c : Nat) (b : List Nat) : Go.crc16.crc16.Sum c b = sum c b := by
  simp [Go.crc16.crc16.Sum, sum]

theorem crc_reset (c : Nat) : Go.crc16.crc16.Reset c = reset := by
  simp [Go.crc16.crc16.Reset, reset]

theorem crc_sizes (c : Nat) : Go.crc16.crc16.Size c = 2 ∧ Go.crc16.crc16.BlockSize c = 1 := by
  simp [Go.crc16.crc16.Size, Go.crc16.crc16.BlockSize]

end Fit.Go2Lean
