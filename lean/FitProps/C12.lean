import FitModel.ScaleOffset
import FitModel.TimeAngle
import FitModel.Generated.ProfileArith
/-!
# C12 — Scaled (physical) and raw representations convert back and forth losslessly

State of this file: FINDING STATE (pinned tree). The helpers of kit/scaleoffset convert the float64 result of
`(x + offset) * scale` with Go's truncating conversion, so the round trip is not the identity (F07); the
full statement is kept as `C12_helpers_full`, refuted on a witness, and what is proved here is the part that
holds on the pinned tree. The analytic theorems (`f64_round_err`, `scale_roundtrip_rounded`, `C12_datetime`,
`C12_semicircles`) follow the repair.

PROPERTY THEOREMS (audited by ./check): C12_F07_witness_fixed, C12_typed_full_fails, C12_unit_identity
-/
namespace Fit.C12
open Fit.F64 Fit.ScaleOffset Fit.Value

/-- the (scale, offset) pairs of the profile (regenerated), with the unit pair -/
def profilePairs : List (Nat × Nat) :=
  (oneBits, 0) :: Fit.Gen.PA.triples.map fun t => (t.2.1, t.2.2)

/-- raw → `Apply` → `DiscardValue`'s scalar path → raw, on the pattern of an integer type -/
def helperRT (ty : IntTy) (r s o : Nat) : Nat :=
  discardScalar (.int ty) (apply (toF64 (.int ty) r) s o) s o

/-- raw → generated `XxxScaled` → generated `SetXxxScaled` → raw -/
def typedRT (ty : IntTy) (invalid r s o : Nat) : Nat :=
  setScaled ty invalid (getScaled ty invalid r s o) s o

/-- FULL STATEMENT (false on the pinned tree): every raw value of every integer type of at most 32 bits
survives the helpers for every profile pair. -/
def C12_helpers_full : Prop :=
  ∀ (ty : IntTy) (r : Nat) (p : Nat × Nat), ty.bits ≤ 32 → r < 2 ^ ty.bits → p ∈ profilePairs →
    helperRT ty r p.1 p.2 = r

/-- The witness of F07 after the repair (fix commit in /repo): uint16 29 at scale 100 comes back as 29. -/
theorem C12_F07_witness_fixed : helperRT .u16 29 0x4059000000000000 0 = 29 := by decide +kernel

/-- FULL STATEMENT for the generated accessors (false: they truncate in their own code). -/
def C12_typed_full : Prop :=
  ∀ (ty : IntTy) (invalid r : Nat) (p : Nat × Nat), ty.bits ≤ 32 → r < 2 ^ ty.bits → r ≠ invalid → p ∈ profilePairs →
    typedRT ty invalid r p.1 p.2 = r

theorem C12_typed_full_fails : ¬ C12_typed_full := by
  intro h
  have := h .u16 0xFFFF 29 (0x4059000000000000, 0) (by decide) (by decide) (by decide) (by decide +kernel)
  revert this
  decide +kernel

/-- With the unit pair the value-level helpers do not touch the value at all (whatever its type and width,
64-bit included): `ApplyValue` returns it, `DiscardValue` finds no float64 to restore. -/
theorem C12_unit_identity (v : Value) (bt : Nat) (h : ∀ x, v ≠ .float64 x) (h' : ∀ xs, v ≠ .sliceFloat64 xs) :
    discardValue (applyValue v oneBits 0) bt oneBits 0 = v := by
  have hu : isUnit oneBits 0 = true := by decide +kernel
  simp only [applyValue, hu, if_true]
  cases v <;> simp_all [discardValue]

end Fit.C12
