import FitProps.C12Lemmas
import FitProps.C12CsvLemmas
import FitModel.TimeAngle
import FitModel.ScaleOffsetProfile
import FitModel.Generated.ProfileArith
/-!
# C12 — Scaled (physical) and raw representations convert back and forth losslessly

The model: `FitModel/F64.lean` (binary64 on bit patterns), `FitModel/ScaleOffset.lean` (kit/scaleoffset, the
validator's restoration, the generated typed accessors, the CSV scaled path), `FitModel/TimeAngle.lean`.
The profile's (base type, scale, offset) triples are regenerated (`Generated/ProfileArith.lean`).

After the repair of F07 (/repo 1e2d662: `math.Round` before the conversion to an integer base type) the round
trip through the helpers, the validator and the CSV reader is the identity: `C12_helpers`,
`C12_value_route`, `C12_validator`, `C12_csv`, `C12_slice` — for every integer type of at most 32 bits, every raw value and every profile
pair; for int64 on the exact domain |raw| ≤ 2^49 (`C12_helpers_int64`). The generated `SetXxxScaled` setters truncated in
their own code (KF-C12-2); after the repair of the template and the regeneration of profile/mesgdef: `C12_typed`.

The generated accessors of slice and fixed-array fields have their own loops: `C12_typed_slice`, `C12_typed_array`; that every
row of the regenerated accessor table meets the hypotheses is `C12_typed_table` (hence `C12_typed_all`, `C12_typed_slice_all`).
Developer fields mapped to native fields, one validator over a sequence of messages: `C12_validator_dev`, `_dev_std`, `_seq`
(`C12_native_table`). The CSV reader's choice between the scaled and the integer path — a '.' in the text: `C12_csv_text`,
`C12_csv_cell` (`C12_csv_pairs`).

PROPERTY THEOREMS (audited by ./check): C12_f64_round_err, C12_scale_roundtrip_rounded, C12_profile_pairs_in_range,
C12_helpers, C12_helpers_int64, C12_value_route, C12_validator, C12_csv, C12_slice, C12_unit_identity,
C12_datetime, C12_semicircles, C12_typed, C12_typed_invalid, C12_typed_witness_fixed, C12_F07_witness_fixed,
C12_typed_table, C12_typed_all, C12_typed_slice, C12_typed_array, C12_typed_slice_all, C12_native_table, C12_validator_dev,
C12_validator_dev_std, C12_validator_dev_own, C12_validator_seq, C12_csv_pairs, C12_csv_text, C12_csv_cell
-/
namespace Fit.C12
open Fit.F64 Fit.ScaleOffset Fit.Value Fit.C12L

/-! ### binary64 -/

/-- `f64_round_err`: one rounding of a positive rational `a/b·2^e0` in the normal range
(2^-1022 ≤ v < 2^1023) yields a finite positive datum `m·2^q` with relative error at most 2^-53; and the
datum is `v` itself whenever `v` is representable. The four operations, `float64(int)` are each this one rounding
of their exact result (`F64.mul_spec`, `div_spec`, `add_spec`, `sub_spec`, `ofInt_exact`). -/
theorem C12_f64_round_err (a b : Nat) (e0 : Int) (ha : 0 < a) (hb : 0 < b)
    (hlo : (2 : ℚ) ^ (-1022 : Int) ≤ (a : ℚ) / b * (2 : ℚ) ^ e0)
    (hhi : (a : ℚ) / b * (2 : ℚ) ^ e0 < (2 : ℚ) ^ (1023 : Int)) :
    ∃ m q, decode (roundPos b64 a b e0) = .fin false m q ∧
      |(m : ℚ) * (2 : ℚ) ^ q - (a : ℚ) / b * (2 : ℚ) ^ e0| ≤ 2 * ((a : ℚ) / b * (2 : ℚ) ^ e0) / 2 ^ 53 ∧
      (∀ (M : Nat) (E : Int), M < 2 ^ 53 → -1074 ≤ E → (a : ℚ) / b * (2 : ℚ) ^ e0 = (M : ℚ) * (2 : ℚ) ^ E →
        (m : ℚ) * (2 : ℚ) ^ q = (a : ℚ) / b * (2 : ℚ) ^ e0) := by
  obtain ⟨_, m, q, hd, herr, hex⟩ := roundPos_spec a b e0 ha hb hhi
  refine ⟨m, q, hd, ?_, hex⟩
  -- the absolute slack 2^-1075 is below v/2^53 in the normal range
  have h2 : (2 : ℚ) ≠ 0 := by norm_num
  have : (2 : ℚ) ^ (-1075 : Int) ≤ (a : ℚ) / b * (2 : ℚ) ^ e0 / 2 ^ 53 := by
    rw [le_div_iff₀ (by positivity)]
    have e : (2 : ℚ) ^ (-1075 : Int) * 2 ^ 53 = (2 : ℚ) ^ (-1022 : Int) := by
      rw [← zpow_natCast, ← zpow_add₀ h2]; norm_num
    rw [e]; exact hlo
  have e2 : 2 * ((a : ℚ) / b * (2 : ℚ) ^ e0) / 2 ^ 53
      = (a : ℚ) / b * (2 : ℚ) ^ e0 / 2 ^ 53 + (a : ℚ) / b * (2 : ℚ) ^ e0 / 2 ^ 53 := by ring
  rw [e2]; linarith

/-! ### the round trip -/

/-- raw → `Apply` → `DiscardValue`'s scalar path (with `math.Round`) → raw, on the pattern of an integer type -/
def helperRT (ty : IntTy) (r s o : Nat) : Nat :=
  discardScalar (.int ty) (apply (toF64 (.int ty) r) s o) s o

/-- `scale_roundtrip_rounded` at the level of float64: for every integer `r` with |r| ≤ 2^49 and every pair
that meets the decidable side condition `pairOK` (a positive normal scale in [1/2, 2^17), |offset| < 2^10),
`math.Round(((float64(r)/scale − offset) + offset)·scale)` is a finite datum whose exact value is `r`. -/
theorem C12_scale_roundtrip_rounded (r : Int) (hr : r.natAbs ≤ 2 ^ 49) (s o : Nat) (h : pairOK s o = true) :
    IsFin (round (discard (apply (ofInt r) s o) s o)) (r : ℚ) := by
  obtain ⟨S, O, hs, ho, ho64, hu, hS, hS', hO⟩ := pairOK_spec s o h
  simp only [ScaleOffset.discard, ScaleOffset.apply, hu, Bool.false_eq_true, if_false]
  exact chain_fin r hr s o S O hs ho ho64 hS hS' hO

/-- the (scale, offset) pairs of the profile (regenerated) -/
def profilePairs : List (Nat × Nat) := Fit.Gen.PA.triples.map fun t => (t.2.1, t.2.2)

/-- `profile_pairs_in_range`: every (scale, offset) pair that occurs in the regenerated profile meets the side
condition of the round-trip theorem; no 64-bit and no float field of the profile is scaled. -/
theorem C12_profile_pairs_in_range :
    (∀ p ∈ profilePairs, pairOK p.1 p.2 = true) ∧ Fit.Gen.PA.scaled64 = 0 ∧ Fit.Gen.PA.scaledFloat = 0 := by
  decide +kernel

theorem helperRT_int (ty : IntTy) (hty : ty.bits ≤ 32) (p : Nat) (hp : p < 2 ^ ty.bits) (s o : Nat)
    (h : pairOK s o = true ∨ (s = oneBits ∧ o = 0)) : helperRT ty p s o = p := by
  have hrb : (ty.toInt p).natAbs ≤ 2 ^ 32 :=
    le_trans (toInt_natAbs_le ty p) (Nat.pow_le_pow_right (by norm_num) hty)
  have hfin : IsFin (round (discard (apply (ofInt (ty.toInt p)) s o) s o)) ((ty.toInt p : Int) : ℚ) := by
    rcases h with h | ⟨rfl, rfl⟩
    · exact C12_scale_roundtrip_rounded _ (by omega) s o h
    · have hu : isUnit oneBits 0 = true := by decide +kernel
      simp only [ScaleOffset.discard, ScaleOffset.apply, hu, if_true]
      exact unit_fin _ (by omega)
  simp only [helperRT, discardScalar, Num.isInteger, if_true, conv, toF64]
  rw [cvt_int ty hty _ _ hfin (toInt_inRange ty p), wrap_toInt ty p hp]

/-- **C12 for the helpers.** Every raw value of every integer type of at most 32 bits survives
`Apply` → `DiscardValue`/`DiscardAny` (scalar path) for every pair of the profile and for the unit pair. -/
theorem C12_helpers (ty : IntTy) (hty : ty.bits ≤ 32) (p : Nat) (hp : p < 2 ^ ty.bits) (pr : Nat × Nat)
    (hpr : pr ∈ (oneBits, 0) :: profilePairs) : helperRT ty p pr.1 pr.2 = p := by
  apply helperRT_int ty hty p hp
  rcases List.mem_cons.mp hpr with h | h
  · right; rw [h]; exact ⟨rfl, rfl⟩
  · left; exact C12_profile_pairs_in_range.1 pr h

/-- **64-bit types: the exact domain.** binary64 has 53 significand bits, so the identity cannot hold on all of
int64; it holds for |raw| ≤ 2^49 (four roundings of relative error 2^-53 stay below 1/2), for every profile
pair. (No 64-bit field of the profile is scaled: `C12_profile_pairs_in_range`.) -/
theorem C12_helpers_int64 (p : Nat) (hp : p < 2 ^ 64) (hdom : (IntTy.i64.toInt p).natAbs ≤ 2 ^ 49)
    (pr : Nat × Nat) (hpr : pr ∈ profilePairs) : helperRT .i64 p pr.1 pr.2 = p := by
  have hfin := C12_scale_roundtrip_rounded _ hdom pr.1 pr.2 (C12_profile_pairs_in_range.1 pr hpr)
  simp only [helperRT, discardScalar, Num.isInteger, if_true, conv, toF64, cvt, IntTy.bits]
  have hr := toInt_inRange .i64 p
  simp only [InRange, IntTy.signed, IntTy.bits, if_true] at hr
  rw [cvtt_int 64 _ _ hfin hr, wrap_mod 64 64 (le_refl _)]
  exact wrap_toInt .i64 p hp

/-- beyond 2^53 the identity fails even for the unit pair through the generic helpers: int64 2^53+1 → float64 →
int64 is 2^53 (inherent to the float64 representation of the scaled value, not a defect of the SDK). -/
example : cvt .i64 (apply (toF64 (.int .i64) (2 ^ 53 + 1)) oneBits 0) = 2 ^ 53 := by decide +kernel

/-! ### the routes at the level of protocol values -/

/-- the scalar value of Go type `ty` -/
def scalarV (ty : IntTy) (p : Nat) : Value := mkScalar (.int ty) p

theorem scalarOf_scalarV (ty : IntTy) (p : Nat) : scalarOf (scalarV ty p) = some (.int ty, p) := by
  cases ty <;> rfl

/-- **ApplyValue → DiscardValue** is the identity on every scalar of an integer type of at most 32 bits, for
every base type `bt` that restores to that type and every profile pair. -/
theorem C12_value_route (ty : IntTy) (hty : ty.bits ≤ 32) (p : Nat) (hp : p < 2 ^ ty.bits) (bt : Nat)
    (hbt : tgtOfBaseType bt = some (.int ty)) (pr : Nat × Nat) (hpr : pr ∈ profilePairs) :
    discardValue (applyValue (scalarV ty p) pr.1 pr.2) bt pr.1 pr.2 = scalarV ty p := by
  have hok := C12_profile_pairs_in_range.1 pr hpr
  obtain ⟨_, _, _, _, _, hu, _⟩ := pairOK_spec _ _ hok
  have := helperRT_int ty hty p hp pr.1 pr.2 (Or.inl hok)
  simp only [applyValue, hu, Bool.false_eq_true, if_false, scalarOf_scalarV, discardValue, hbt]
  simp only [helperRT] at this
  rw [this]; rfl

/-- **Encoder validator.** Restoring the float64 value of a scaled field gives back the raw value. -/
theorem C12_validator (ty : IntTy) (hty : ty.bits ≤ 32) (p : Nat) (hp : p < 2 ^ ty.bits) (bt : Nat)
    (hbt : tgtOfBaseType bt = some (.int ty)) (pr : Nat × Nat) (hpr : pr ∈ profilePairs) :
    validatorRestore (applyValue (scalarV ty p) pr.1 pr.2) bt pr.1 pr.2 = scalarV ty p := by
  have hok := C12_profile_pairs_in_range.1 pr hpr
  obtain ⟨_, _, _, _, _, hu, _⟩ := pairOK_spec _ _ hok
  have hne : (!(feq pr.1 oneBits) || !(feq pr.2 0)) = true := by
    simp only [isUnit] at hu
    cases h1 : feq pr.1 oneBits <;> cases h2 : feq pr.2 0 <;> simp_all
  simp only [validatorRestore, hne, if_true]
  exact C12_value_route ty hty p hp bt hbt pr hpr

/-- **CSV reader.** The scaled cell (the float64 that `ApplyValue` produced, read back exactly by `strconv`)
is restored to the raw value. -/
theorem C12_csv (ty : IntTy) (hty : ty.bits ≤ 32) (p : Nat) (hp : p < 2 ^ ty.bits) (bt : Nat)
    (hbt : csvTgt bt = some (.int ty)) (pr : Nat × Nat) (hpr : pr ∈ profilePairs) :
    csvParseScaled (apply (toF64 (.int ty) p) pr.1 pr.2) bt pr.1 pr.2 = some (scalarV ty p) := by
  have hok := C12_profile_pairs_in_range.1 pr hpr
  have := helperRT_int ty hty p hp pr.1 pr.2 (Or.inl hok)
  simp only [helperRT, discardScalar, Num.isInteger, if_true] at this
  simp only [csvParseScaled, hbt, Option.map_some, Num.isInteger, if_true, this]
  rfl

/-- **Slices** (`ApplySlice` → `DiscardSlice[T]`, also what `ApplyValue`/`DiscardValue` do on slice values):
every element comes back. -/
theorem C12_slice (ty : IntTy) (hty : ty.bits ≤ 32) (ps : List Nat) (hps : ∀ p ∈ ps, p < 2 ^ ty.bits)
    (pr : Nat × Nat) (hpr : pr ∈ profilePairs) :
    discardSlice (.int ty) (applySlice (.int ty) ps pr.1 pr.2) pr.1 pr.2 = ps := by
  have hok := C12_profile_pairs_in_range.1 pr hpr
  obtain ⟨_, _, _, _, _, hu, _⟩ := pairOK_spec _ _ hok
  simp only [discardSlice, hu, Bool.false_eq_true, if_false, Num.isInteger, if_true, applySlice, List.map_map]
  induction ps with
  | nil => rfl
  | cons p ps ih =>
    have h1 := helperRT_int ty hty p (hps p (by simp)) pr.1 pr.2 (Or.inl hok)
    simp only [helperRT, discardScalar, Num.isInteger, if_true, ScaleOffset.discard, hu, Bool.false_eq_true, if_false] at h1
    simp only [List.map_cons, Function.comp]
    rw [h1, ih (fun q hq => hps q (by simp [hq]))]

/-- With the unit pair the value-level helpers do not touch the value at all (whatever its type and width,
64-bit included): `ApplyValue` returns it, `DiscardValue` finds no float64 to restore. -/
theorem C12_unit_identity (v : Value) (bt : Nat) (h : ∀ x, v ≠ .float64 x) (h' : ∀ xs, v ≠ .sliceFloat64 xs) :
    discardValue (applyValue v oneBits 0) bt oneBits 0 = v := by
  have hu : isUnit oneBits 0 = true := by decide +kernel
  simp only [applyValue, hu, if_true]
  cases v <;> simp_all [discardValue]

/-- non-vacuity: uint16 at scale 100 and at scale 5 / offset 500 are profile pairs, and the theorem's
hypotheses hold for the former F07 witnesses -/
example : (0x4059000000000000, 0) ∈ profilePairs ∧ (0x4014000000000000, 0x407f400000000000) ∈ profilePairs := by
  decide +kernel

/-- The witness of F07 after the repair (/repo 1e2d662): uint16 29 at scale 100 comes back as 29. -/
theorem C12_F07_witness_fixed : helperRT .u16 29 0x4059000000000000 0 = 29 := by decide +kernel

/-! ### timestamps and angles -/

/-- **C12_datetime.** `ToUint32(ToTime(v)) = v` for every uint32 `v`, the invalid sentinel included (it maps to
the zero `time.Time`, which lies before the FIT epoch and maps back to the sentinel): `v·10^9` ns fits an int64,
`Duration.Seconds()` of a whole number of seconds below 2^32 is exact in binary64, and `uint32(·)` of it is `v`. -/
theorem C12_datetime (v : Nat) (hv : v < 2 ^ 32) : Fit.TimeAngle.toUint32 (Fit.TimeAngle.toTime v) = v :=
  datetime_roundtrip v hv

/-- **C12_semicircles.** `ToSemicircles(ToDegrees(s)) = s` for every int32 pattern `s` (the invalid sentinel maps
to the float64 invalid pattern and back): `s·(180/2^31) = s·45·2^-29` is exactly representable (|s|·45 < 2^53), and
the correctly rounded quotient of two data whose exact quotient `s` is representable is `s`. -/
theorem C12_semicircles (s : Nat) (hs : s < 2 ^ 32) :
    Fit.TimeAngle.toSemicircles (Fit.TimeAngle.toDegrees s) = s :=
  semicircles_roundtrip s hs

/-! ### the generated typed accessors -/

/-- raw → generated `XxxScaled` → generated `SetXxxScaled` → raw -/
def typedRT (ty : IntTy) (invalid r s o : Nat) : Nat :=
  setScaled ty invalid (getScaled ty invalid r s o) s o

/-- the invalid sentinel of the generated accessors: the largest value of the type -/
def maxPat (ty : IntTy) : Nat := if ty.signed then 2 ^ (ty.bits - 1) - 1 else 2 ^ ty.bits - 1

/-- **C12_typed.** The generated `XxxScaled` / `SetXxxScaled` pair of profile/mesgdef (after the repair of the
template, /repo fix of KF-C12-2: `math.Round` before the conversion) returns every raw value of every integer type of at
most 32 bits other than the invalid sentinel (which maps to the float64 invalid pattern and back: `C12_typed_invalid`),
for every pair of the profile: the product `(x + offset) * scale` is finite, not above the sentinel, and rounds to the
raw value. -/
theorem C12_typed (ty : IntTy) (hty : ty.bits ≤ 32) (r : Nat) (hr : r < 2 ^ ty.bits) (hrinv : r ≠ maxPat ty)
    (pr : Nat × Nat) (hpr : pr ∈ profilePairs) : typedRT ty (maxPat ty) r pr.1 pr.2 = r := by
  have hmax : maxPat ty < 2 ^ ty.bits ∧ ty.toInt r ≤ ty.toInt (maxPat ty) ∧ 0 < ty.toInt (maxPat ty) := by
    cases ty <;> simp only [IntTy.toInt, maxPat, IntTy.signed, IntTy.bits, true_and, Bool.false_eq_true, false_and,
      if_false, if_true] at hr ⊢ <;> (try split_ifs) <;> omega
  exact typed_roundtrip ty hty r (maxPat ty) pr.1 pr.2 hr hmax.1 hrinv hmax.2.1 hmax.2.2
    (C12_profile_pairs_in_range.1 pr hpr)

/-- the invalid sentinel goes to the float64 invalid pattern (a NaN) and comes back as the sentinel -/
theorem C12_typed_invalid (ty : IntTy) (s o : Nat) :
    typedRT ty (maxPat ty) (maxPat ty) s o = maxPat ty := by
  have h1 : ∀ y, decode (add Fit.Gen.float64Invalid y) = .nan := by
    intro y
    have : decode Fit.Gen.float64Invalid = .nan := by decide +kernel
    have hn : decode nanBits = .nan := by decide +kernel
    simp only [add, this]; cases decode y <;> exact hn
  have h2 : ∀ x y, decode x = .nan → decode (mul x y) = .nan := by
    intro x y hx
    have hn : decode nanBits = .nan := by decide +kernel
    simp only [mul, hx]; cases decode y <;> exact hn
  simp only [typedRT, getScaled, if_true, setScaled]
  have : isNaN (mul (add Fit.Gen.float64Invalid o) s) = true := by
    simp [isNaN, h2 _ s (h1 o)]
  simp [this]

/-- non-vacuity and the former witnesses of KF-C12-2: Record.Distance 29 at scale 100 comes back as 29, Record.Altitude 1 at
scale 5 / offset 500 as 1; the sentinel of a uint16 accessor is 0xFFFF -/
theorem C12_typed_witness_fixed :
    typedRT .u32 0xFFFFFFFF 29 0x4059000000000000 0 = 29 ∧
    typedRT .u16 0xFFFF 1 0x4014000000000000 0x407f400000000000 = 1 ∧ maxPat .u16 = 0xFFFF := by decide +kernel

/-! ### every generated accessor: the regenerated table -/

/-- **C12_typed_table.** Every row of the regenerated table of generated `XxxScaled` / `SetXxxScaled` pairs
(`Generated/ProfileArith.lean`, printed on every run by reflection over the compiled mesgdef structs: Go kind of the
element, invalid sentinel, and the scale / offset of the factory field the struct field maps to) meets the hypotheses
of `C12_typed`: the element type is an integer type of at most 32 bits, the sentinel is the largest value of that
type, and the (scale, offset) pair is a pair of the profile. Kernel-evaluated over the whole table. -/
theorem C12_typed_table : ∀ t ∈ Fit.Gen.PA.typed,
    (intTyOfCode t.ty).bits ≤ 32 ∧ t.invalid = maxPat (intTyOfCode t.ty) ∧ (t.scale, t.offset) ∈ profilePairs := by
  decide +kernel

/-- **C12_typed_all.** For EVERY generated accessor pair of profile/mesgdef (scalar accessors, and the element rule of
the slice / fixed-array ones): every raw value of the element type other than the sentinel comes back. -/
theorem C12_typed_all (t : Fit.PA.Typed) (ht : t ∈ Fit.Gen.PA.typed) (r : Nat) (hr : r < 2 ^ (intTyOfCode t.ty).bits)
    (hne : r ≠ t.invalid) : typedRT (intTyOfCode t.ty) t.invalid r t.scale t.offset = r := by
  obtain ⟨hb, hi, hp⟩ := C12_typed_table t ht
  rw [hi] at hne ⊢
  exact C12_typed (intTyOfCode t.ty) hb r hr hne (t.scale, t.offset) hp

/-- non-vacuity: the table is not empty, it has scalar, slice and fixed-array rows, and `Record.Altitude` is one of them -/
example : Fit.Gen.PA.typed.length = 381 ∧ (Fit.Gen.PA.typed.filter (·.arr == 1)).length = 66 ∧
    (Fit.Gen.PA.typed.filter (·.arr > 1)).map (·.arr) = [4, 10] ∧
    (lookupTyped "Record" "Altitude").map (fun t => (t.ty, t.invalid)) = some (3, 0xFFFF) := by decide +kernel

/-! ### slice and fixed-array accessors -/

/-- an element of a slice / array accessor: the sentinel included (it maps to the float64 invalid pattern and back) -/
theorem typedRT_elem (ty : IntTy) (hty : ty.bits ≤ 32) (r : Nat) (hr : r < 2 ^ ty.bits)
    (pr : Nat × Nat) (hpr : pr ∈ profilePairs) : typedRT ty (maxPat ty) r pr.1 pr.2 = r := by
  by_cases h : r = maxPat ty
  · rw [h]; exact C12_typed_invalid ty pr.1 pr.2
  · exact C12_typed ty hty r hr h pr hpr

theorem map_typedRT (ty : IntTy) (hty : ty.bits ≤ 32) (xs : List Nat) (hxs : ∀ x ∈ xs, x < 2 ^ ty.bits)
    (pr : Nat × Nat) (hpr : pr ∈ profilePairs) :
    (xs.map fun x => getScaled ty (maxPat ty) x pr.1 pr.2).map (fun v => setScaled ty (maxPat ty) v pr.1 pr.2) = xs := by
  induction xs with
  | nil => rfl
  | cons x xs ih =>
    have h1 := typedRT_elem ty hty x (hxs x (by simp)) pr hpr
    simp only [typedRT] at h1
    simp only [List.map_cons, h1, ih (fun y hy => hxs y (by simp [hy]))]

/-- the fixed-array setter ("fill with the sentinel, skip the elements that cannot be stored") is the scalar setter
applied to every element -/
theorem setScaledArray_eq_map (ty : IntTy) (inv : Nat) (vs : List Nat) (s o : Nat) :
    setScaledArray ty inv vs s o = vs.map fun v => setScaled ty inv v s o := by
  unfold setScaledArray
  induction vs with
  | nil => rfl
  | cons v vs ih =>
    simp only [List.length_cons, List.replicate_succ, List.zipWith_cons_cons, List.map_cons, ih]
    rfl

/-- **C12_typed_slice.** The generated accessors of a slice field `[]T` (`T` an integer type of at most 32 bits):
`SetXxxScaled(XxxScaled())` gives back the slice — nil stays nil (`none`), an empty slice stays empty, and EVERY
element comes back, the invalid sentinel included (element-wise: it maps to the float64 invalid pattern and back),
negative elements of signed types included — for every pair of the profile. -/
theorem C12_typed_slice (ty : IntTy) (hty : ty.bits ≤ 32) (xs : Option (List Nat))
    (hxs : ∀ l, xs = some l → ∀ x ∈ l, x < 2 ^ ty.bits) (pr : Nat × Nat) (hpr : pr ∈ profilePairs) :
    setScaledSlice ty (maxPat ty) (getScaledSlice ty (maxPat ty) xs pr.1 pr.2) pr.1 pr.2 = xs := by
  cases xs with
  | none => rfl
  | some l =>
    simp only [getScaledSlice, setScaledSlice]
    rw [map_typedRT ty hty l (hxs l rfl) pr hpr]

/-- **C12_typed_array.** The generated accessors of a fixed-array field `[N]T`: the same identity for every array
of any length `N`, whether it is the all-sentinel array (answered by the getter's whole-array test) or not. -/
theorem C12_typed_array (ty : IntTy) (hty : ty.bits ≤ 32) (xs : List Nat)
    (hxs : ∀ x ∈ xs, x < 2 ^ ty.bits) (pr : Nat × Nat) (hpr : pr ∈ profilePairs) :
    setScaledArray ty (maxPat ty) (getScaledArray ty (maxPat ty) xs pr.1 pr.2) pr.1 pr.2 = xs := by
  have hinv : setScaled ty (maxPat ty) Fit.Gen.float64Invalid pr.1 pr.2 = maxPat ty := by
    have := C12_typed_invalid ty pr.1 pr.2
    simpa [typedRT, getScaled] using this
  rw [setScaledArray_eq_map]
  unfold getScaledArray
  split
  · next h => rw [List.map_replicate, hinv]; exact h.symm
  · exact map_typedRT ty hty xs hxs pr hpr

/-- non-vacuity of the two theorems: a nil slice, a slice holding a negative element, the sentinel and the largest
valid value at scale 100 (AviationAttitude.AccelLateral); the all-sentinel and a mixed [3]int16 (GpsMetadata.Velocity) -/
example :
    getScaledSlice .i16 0x7FFF none 0x4059000000000000 0 = none ∧
    setScaledSlice .i16 0x7FFF (getScaledSlice .i16 0x7FFF (some [0xFF6A, 0x7FFF, 0x7FFE]) 0x4059000000000000 0)
      0x4059000000000000 0 = some [0xFF6A, 0x7FFF, 0x7FFE] ∧
    getScaledArray .i16 0x7FFF [0x7FFF, 0x7FFF, 0x7FFF] 0x4059000000000000 0 = List.replicate 3 Fit.Gen.float64Invalid ∧
    setScaledArray .i16 0x7FFF (getScaledArray .i16 0x7FFF [0x8000, 0x7FFF, 29] 0x4059000000000000 0)
      0x4059000000000000 0 = [0x8000, 0x7FFF, 29] := by decide +kernel

/-- **C12_typed_slice_all.** For EVERY generated slice accessor (rows with `arr = 1` of the regenerated table) and
every generated fixed-array accessor (rows with `arr = N + 1`): the round trip of the whole field is the identity. -/
theorem C12_typed_slice_all (t : Fit.PA.Typed) (ht : t ∈ Fit.Gen.PA.typed) :
    (∀ xs : Option (List Nat), (∀ l, xs = some l → ∀ x ∈ l, x < 2 ^ (intTyOfCode t.ty).bits) →
      setScaledSlice (intTyOfCode t.ty) t.invalid (getScaledSlice (intTyOfCode t.ty) t.invalid xs t.scale t.offset)
        t.scale t.offset = xs) ∧
    (∀ xs : List Nat, (∀ x ∈ xs, x < 2 ^ (intTyOfCode t.ty).bits) →
      setScaledArray (intTyOfCode t.ty) t.invalid (getScaledArray (intTyOfCode t.ty) t.invalid xs t.scale t.offset)
        t.scale t.offset = xs) := by
  obtain ⟨hb, hi, hp⟩ := C12_typed_table t ht
  rw [hi]
  exact ⟨fun xs hxs => C12_typed_slice _ hb xs hxs (t.scale, t.offset) hp,
    fun xs hxs => C12_typed_array _ hb xs hxs (t.scale, t.offset) hp⟩

/-! ### encoder validator: developer fields mapped to native fields -/

/-- **C12_native_table.** Every field the standard factory knows (regenerated: `Generated/ProfileArith.lean` `fields`,
what `factory.StandardFactory().CreateField` returns as far as the validator reads it) has the unit pair or a pair of
the profile. -/
theorem C12_native_table : ∀ e ∈ Fit.Gen.PA.fields,
    isUnit e.2.2.2.1 e.2.2.2.2 = true ∨ (e.2.2.2.1, e.2.2.2.2) ∈ profilePairs := by
  decide +kernel

/-- **C12_validator_dev.** A developer field whose field description designates a native field (valid native message
and field number) and whose value is that native field's scaled float64 form comes back from the validator as the raw
integer: for EVERY state `st` of the validator (whatever messages and look-ups came before) in which the developer data
index was announced and `d` is the description found for the field, every factory `fac` that answers `(bt, scale,
offset)` for THAT description's native (message, field) with a pair of the profile, every raw value of the integer type
the base type restores to (at most 32 bits), aligned with the description's own base type. -/
theorem C12_validator_dev (fac : Factory) (st : VState) (devIdx num : Nat) (d : DevDesc)
    (hddi : st.ddis.contains devIdx = true)
    (hfind : st.descs.find? (fun x => x.devIdx == devIdx && x.num == num) = some d)
    (hn : d.nativeMesg ≠ Fit.Gen.mesgNumInvalid ∧ d.nativeField ≠ Fit.Gen.uint8Invalid) (bt : Nat) (pr : Nat × Nat)
    (hfac : fac d.nativeMesg d.nativeField = some (bt, pr.1, pr.2)) (hpr : pr ∈ profilePairs)
    (ty : IntTy) (hty : ty.bits ≤ 32) (p : Nat) (hp : p < 2 ^ ty.bits) (hbt : tgtOfBaseType bt = some (.int ty))
    (hal : align (scalarV ty p) d.btId = true) :
    validatorDevField fac st devIdx num (applyValue (scalarV ty p) pr.1 pr.2) = .ok (scalarV ty p) := by
  have hv := C12_validator ty hty p hp bt hbt pr hpr
  have hr : validatorRestoreDev fac d (applyValue (scalarV ty p) pr.1 pr.2) = scalarV ty p := by
    unfold validatorRestoreDev
    rw [if_pos hn, hfac]
    simpa [validatorRestore] using hv
  simp only [validatorDevField, hddi, Bool.not_true, Bool.false_eq_true, if_false, hfind, hr, hal]

/-- the same with the standard factory: no hypothesis on the pair is left — whatever native field of the profile
the description designates, if it is scaled its pair is a profile pair (`C12_native_table`) -/
theorem C12_validator_dev_std (st : VState) (devIdx num : Nat) (d : DevDesc)
    (hddi : st.ddis.contains devIdx = true)
    (hfind : st.descs.find? (fun x => x.devIdx == devIdx && x.num == num) = some d)
    (hn : d.nativeMesg ≠ Fit.Gen.mesgNumInvalid ∧ d.nativeField ≠ Fit.Gen.uint8Invalid) (bt s o : Nat)
    (hfac : stdFactory d.nativeMesg d.nativeField = some (bt, s, o)) (hnu : isUnit s o = false)
    (ty : IntTy) (hty : ty.bits ≤ 32) (p : Nat) (hp : p < 2 ^ ty.bits) (hbt : tgtOfBaseType bt = some (.int ty))
    (hal : align (scalarV ty p) d.btId = true) :
    validatorDevField stdFactory st devIdx num (applyValue (scalarV ty p) s o) = .ok (scalarV ty p) := by
  have hpr : (s, o) ∈ profilePairs := by
    unfold stdFactory at hfac
    cases hf : Fit.Gen.PA.fields.find? (fun e => e.1 == d.nativeMesg && e.2.1 == d.nativeField) with
    | none => simp [hf] at hfac
    | some e =>
      simp only [hf, Option.map_some, Option.some.injEq, Prod.mk.injEq] at hfac
      obtain ⟨_, rfl, rfl⟩ := hfac
      rcases C12_native_table e (List.mem_of_find?_eq_some hf) with h | h
      · rw [h] at hnu; cases hnu
      · exact h
  exact C12_validator_dev stdFactory st devIdx num d hddi hfind hn bt (s, o) hfac hpr ty hty p hp hbt hal

/-- the helper round trip for a pair given by its exact values (no bit-level side condition) -/
theorem helperRT_fin (ty : IntTy) (hty : ty.bits ≤ 32) (p : Nat) (hp : p < 2 ^ ty.bits) (s o : Nat) (S O : ℚ)
    (hs : IsFin s S) (ho : IsFin o O) (ho64 : o < 2 ^ 64) (hS : 1 / 2 ≤ S) (hS' : S ≤ 2 ^ 17) (hO : |O| ≤ 2 ^ 10)
    (hu : isUnit s o = false) : helperRT ty p s o = p := by
  have hrb : (ty.toInt p).natAbs ≤ 2 ^ 32 :=
    le_trans (toInt_natAbs_le ty p) (Nat.pow_le_pow_right (by norm_num) hty)
  have hfin : IsFin (round (discard (apply (ofInt (ty.toInt p)) s o) s o)) ((ty.toInt p : Int) : ℚ) := by
    simp only [ScaleOffset.discard, ScaleOffset.apply, hu, Bool.false_eq_true, if_false]
    exact chain_fin _ (by omega) s o S O hs ho ho64 hS hS' hO
  simp only [helperRT, discardScalar, Num.isInteger, if_true, conv, toF64]
  rw [cvt_int ty hty _ _ hfin (toInt_inRange ty p), wrap_toInt ty p hp]

/-- **C12_validator_dev_own.** A developer field whose description designates NO native field but carries a scale
(uint8, 1…254) and an offset (int8) of its own: the value scaled with `float64(scale)`, `float64(offset)` is restored
to the raw integer, for every such scale and offset (the unit pair included: the value is then never a float64),
every integer type of at most 32 bits the description's base type restores to, every raw value. -/
theorem C12_validator_dev_own (fac : Factory) (d : DevDesc)
    (hn : ¬(d.nativeMesg ≠ Fit.Gen.mesgNumInvalid ∧ d.nativeField ≠ Fit.Gen.uint8Invalid))
    (hso : d.scale ≠ Fit.Gen.uint8Invalid ∧ d.offset ≠ Fit.Gen.sint8Invalid) (hs1 : 1 ≤ d.scale) (hs2 : d.scale ≤ 254)
    (ty : IntTy) (hty : ty.bits ≤ 32) (p : Nat) (hp : p < 2 ^ ty.bits) (hbt : tgtOfBaseType d.btId = some (.int ty)) :
    validatorRestoreDev fac d (applyValue (scalarV ty p) (ofInt d.scale) (ofInt (IntTy.i8.toInt d.offset))) = scalarV ty p := by
  unfold validatorRestoreDev
  rw [if_neg hn, if_pos hso]
  by_cases hu : isUnit (ofInt d.scale) (ofInt (IntTy.i8.toInt d.offset)) = true
  · simp only [applyValue, hu, if_true]
    cases ty <;> rfl
  · have hu' : isUnit (ofInt d.scale) (ofInt (IntTy.i8.toInt d.offset)) = false := by simpa using hu
    have hS := ofInt_fin (d.scale : Int) (by omega)
    have hOb : (IntTy.i8.toInt d.offset).natAbs ≤ 2 ^ 8 := toInt_natAbs_le .i8 d.offset
    have hO := ofInt_fin (IntTy.i8.toInt d.offset) (by omega)
    have hOq : |((IntTy.i8.toInt d.offset : Int) : ℚ)| ≤ 2 ^ 10 := by
      rw [← Int.cast_abs, ← Nat.cast_natAbs]
      have : ((IntTy.i8.toInt d.offset).natAbs : ℚ) ≤ 2 ^ 8 := by exact_mod_cast hOb
      linarith [show (2 : ℚ) ^ 8 ≤ 2 ^ 10 by norm_num]
    have h1 : (1 : ℚ) / 2 ≤ ((d.scale : Int) : ℚ) := by
      have : (1 : ℚ) ≤ ((d.scale : Int) : ℚ) := by exact_mod_cast hs1
      linarith
    have h2 : ((d.scale : Int) : ℚ) ≤ 2 ^ 17 := by
      have : ((d.scale : Int) : ℚ) ≤ 254 := by exact_mod_cast hs2
      linarith [show (254 : ℚ) ≤ 2 ^ 17 by norm_num]
    have := helperRT_fin ty hty p hp _ _ _ _ hS hO (ofInt_lt64 _ (by omega)) h1 h2 hOq hu'
    simp only [applyValue, hu', Bool.false_eq_true, if_false, scalarOf_scalarV, discardValue, hbt]
    simp only [helperRT] at this
    rw [this]; rfl

/-- non-vacuity: a uint16 developer field with its own scale 10 / offset −3 (pattern 253), raw 29 -/
example : validatorRestoreDev stdFactory ⟨0, 0, 0x84, 10, 253, 65535, 255⟩
    (applyValue (.uint16 29) (ofInt 10) (ofInt (IntTy.i8.toInt 253))) = .uint16 29 := by decide +kernel

/-- non-vacuity (the example of the seeded change C12-3): after a developer_data_id, a description mapped to
lap.avg_altitude (19/42, uint16, 5/500) and one mapped to session.avg_stroke_distance (18/42, uint16, 100), and a lap
carrying the first, the session's developer field 2.50 m comes back as raw 250 -/
example :
    stdFactory 19 42 = some (0x84, 0x4014000000000000, 0x407f400000000000) ∧
    stdFactory 18 42 = some (0x84, 0x4059000000000000, 0) ∧
    validatorSeq stdFactory {} [.ddi 0, .desc ⟨0, 0, 0x84, 255, 127, 19, 42⟩, .desc ⟨0, 1, 0x84, 255, 127, 18, 42⟩,
      .mesg [(0, 0, applyValue (.uint16 2513) 0x4014000000000000 0x407f400000000000)],
      .mesg [(0, 1, applyValue (.uint16 250) 0x4059000000000000 0)]] =
      [.ok [], .ok [], .ok [], .ok [.uint16 2513], .ok [.uint16 250]] := by decide +kernel

/-- the developer data indexes / field descriptions a sequence of messages announces, in order -/
def ddisOf (items : List VItem) : List Nat := items.filterMap fun | .ddi i => some i | _ => none
def descsOf (items : List VItem) : List DevDesc := items.filterMap fun | .desc d => some d | _ => none

theorem validatorSeq_append (fac : Factory) (pre : List VItem) (st : VState) (it : VItem) :
    validatorSeq fac st (pre ++ [it]) =
      validatorSeq fac st pre ++ [(validatorStep fac ⟨st.ddis ++ ddisOf pre, st.descs ++ descsOf pre⟩ it).2] := by
  induction pre generalizing st with
  | nil => simp [validatorSeq, ddisOf, descsOf]
  | cons a pre ih =>
    simp only [List.cons_append, validatorSeq]
    rw [ih]
    cases a <;> simp [validatorStep, ddisOf, descsOf, List.append_assoc]

/-- **C12_validator_seq.** ONE validator over a sequence of messages: what it answers for a message with developer
fields depends on the messages before it only through the developer data indexes and field descriptions they
announced, in order — not on the data messages validated or the native fields looked up before. (With
`C12_validator_dev`, which holds for every such state: each natively-mapped developer field of the sequence is restored
with the scale / offset / base type of ITS OWN native field.) -/
theorem C12_validator_seq (fac : Factory) (pre : List VItem) (devs : List (Nat × Nat × Value)) :
    (validatorSeq fac {} (pre ++ [.mesg devs])).getLast? =
      some (devs.mapM fun d => validatorDevField fac ⟨ddisOf pre, descsOf pre⟩ d.1 d.2.1 d.2.2) := by
  rw [validatorSeq_append]
  simp [validatorStep]

/-! ### the CSV text of a scaled value -/

/-- **C12_csv_pairs.** Every pair of the profile meets the decidable side condition of the CSV text lemma
(`csvPairOK`: in range, and either no offset and a scale of at most 2^16, or integer scale ≤ 2^11 and integer offset). -/
theorem C12_csv_pairs : ∀ pr ∈ profilePairs, csvPairOK pr.1 pr.2 = true := by decide +kernel

/-- the distinct pairs of the profile without offset -/
def smallPairs : List (Nat × Nat) :=
  (profilePairs.foldl (fun acc p => if acc.contains p then acc else acc ++ [p]) []).filter fun p => zeroOffset p.2

theorem smallPairs_cover : ∀ pr ∈ profilePairs, zeroOffset pr.2 = true → pr ∈ smallPairs := by decide +kernel

/-- raw values of magnitude below 7 at the pairs without offset: evaluated -/
theorem csv_small : ∀ pr ∈ smallPairs, ∀ i ∈ List.range 13,
    csvHasDot (apply (ofInt ((i : Int) - 6)) pr.1 pr.2) = true := by decide +kernel

/-- **C12_csv_text.** The text the CSV writer produces for the scaled value `raw/scale − offset` of ANY raw value of an
integer type of at most 32 bits at ANY pair of the profile contains a '.' (`csvHasDot`, the model of fitcsv `format` +
strconv tied by the operation `socd`): a whole value is written "x.0"; any other value of magnitude at least 10^-4 in
`%f` or many-digit `%e` form; the values below 10^-4 (raw 1…6 at scales above 10^4) are evaluated and are not one-digit
decimals. So `parseValue` reads every such cell through its scaled path — never through `ParseUint`/`ParseInt`,
which would take "5" for raw 5 instead of raw 500. -/
theorem C12_csv_text (ty : IntTy) (hty : ty.bits ≤ 32) (p : Nat) (pr : Nat × Nat) (hpr : pr ∈ profilePairs) :
    csvHasDot (apply (toF64 (.int ty) p) pr.1 pr.2) = true := by
  have hrb : (ty.toInt p).natAbs ≤ 2 ^ 32 :=
    le_trans (toInt_natAbs_le ty p) (Nat.pow_le_pow_right (by norm_num) hty)
  simp only [toF64]
  by_cases hbig : zeroOffset pr.2 = true → 7 ≤ (ty.toInt p).natAbs
  · exact csv_text_main _ hrb pr.1 pr.2 (C12_csv_pairs pr hpr) hbig
  · rw [Classical.not_imp] at hbig
    obtain ⟨hz, hsm⟩ := hbig
    have hi : ((ty.toInt p + 6).toNat : Int) - 6 = ty.toInt p := by omega
    have := csv_small pr (smallPairs_cover pr hpr hz) (ty.toInt p + 6).toNat (by simp only [List.mem_range]; omega)
    rwa [hi] at this

/-- **C12_csv_cell.** FIT → CSV cell → FIT for a scaled column, text decision included: the cell written for
`ApplyValue(raw)` is read back as the raw value (`csvCell` = "contains '.'" test, then `parseValue`'s scaled path;
strconv's parsing of its own shortest text is assumed exact). -/
theorem C12_csv_cell (ty : IntTy) (hty : ty.bits ≤ 32) (p : Nat) (hp : p < 2 ^ ty.bits) (bt : Nat)
    (hbt : csvTgt bt = some (.int ty)) (pr : Nat × Nat) (hpr : pr ∈ profilePairs) :
    csvCell (apply (toF64 (.int ty) p) pr.1 pr.2) bt pr.1 pr.2 = some (some (scalarV ty p)) := by
  simp only [csvCell, C12_csv_text ty hty p pr hpr, if_true, C12_csv ty hty p hp bt hbt pr hpr]

/-- non-vacuity of the hypotheses on the base type: uint16 (0x84) is read as uint16 by the CSV reader and aligns with it -/
example : csvTgt 0x84 = some (.int .u16) ∧ align (scalarV .u16 250) 0x84 = true ∧
    tgtOfBaseType 0x84 = some (.int .u16) := by decide

/-- non-vacuity, and what the theorem excludes: raw 500 at scale 100 is written "5.0" (whole), raw 1 at scale 65536 is
1.52587890625e-05 (many digits); the float64 nearest to 1e-05 or 2e+19 would be written without a '.' — no scaled value
of the profile is such a number -/
example : csvHasDot (apply (toF64 (.int .u16) 500) 0x4059000000000000 0) = true ∧
    csvHasDot (apply (toF64 (.int .u32) 1) 0x40f0000000000000 0) = true ∧
    csvHasDot 0x3ee4f8b588e368f1 = false ∧ csvHasDot 0x43f158e460913d00 = false ∧
    csvCell 0x3ee4f8b588e368f1 0x84 0x4059000000000000 0 = none := by decide +kernel

end Fit.C12
