import FitProps.Go2LeanKitInt
/-!
# C12 — tie of the integer parts of kit/datetime and kit/semicircles to the source by translation

The guards of `datetime.ToTime` (`value == basetype.Uint32Invalid`) and `semicircles.ToDegrees`
(`semicircles == basetype.Sint32Invalid`), the integer constant `piRadians = 1 << 31` and `TzOffsetHoursFromUint32` are
translated to Lean from the CURRENT source on every run (`FitModel/Generated/Go_kitint.lean`, `Go_kitangle.lean`); the
theorems state that they are the guards / the constant of `Fit.TimeAngle.toTime` / `toDegrees` / `conversionFactor`, the
model `C12_datetime` and `C12_semicircles` are about. `time.Time`, `Duration.Seconds()` and all float arithmetic are
outside the translator's subset: that part of the model stays tied by the correspondence families.

PROPERTY THEOREMS (audited by ./check): C12_go2lean_toTime, C12_go2lean_toDegrees, C12_go2lean_piRadians, C12_go2lean_tzOffset
-/
namespace Fit.C12
open Fit.Go2Lean Fit.TimeAngle Fit.F64 Fit.Gen

theorem C12_go2lean_toTime (v : Nat) :
    toTime v = (if Go.kitint.ToTime_isInvalid v then zeroTime else ⟨v, 0⟩) ∧
    Go.kitint.ToTime_isInvalid v = decide (v = uint32Invalid) := kit_toTime v

theorem C12_go2lean_toDegrees (s : Nat) (hs : s < 2 ^ 32) :
    Go.kitangle.ToDegrees_isInvalid (IntTy.i32.toInt s) = decide (s = sint32Invalid) ∧
    toDegrees s = (if Go.kitangle.ToDegrees_isInvalid (IntTy.i32.toInt s) then float64Invalid
                   else mul (ofInt (IntTy.i32.toInt s)) conversionFactor) := kit_toDegrees s hs

theorem C12_go2lean_piRadians : Go.kitangle.piRadians = 2 ^ 31 ∧
    conversionFactor = div (ofInt 180) (ofInt (Go.kitangle.piRadians : Int)) := kit_piRadians

theorem C12_go2lean_tzOffset (l d : Nat) (hl : l < 2 ^ 32) (hd : d < 2 ^ 32) :
    Go.kitint.TzOffsetHoursFromUint32 l d = (((l + 2 ^ 32 - d) % 2 ^ 32 / 3600 : Nat) : Int) ∧
    (d ≤ l → Go.kitint.TzOffsetHoursFromUint32 l d = (((l - d) / 3600 : Nat) : Int)) := kit_tzOffset l d hl hd

end Fit.C12
