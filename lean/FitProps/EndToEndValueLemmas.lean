import FitModel.EndToEnd
import FitProps.ValueUnmarshalLemmas
/-!
Value layer of the end-to-end composition (C01): what `unmarshal` makes of the bytes `marshal` wrote when the decoder
reads them under flags (profile-bool, array) that are NOT the value's own — `Fit.E2E.reread` — and when that equals the
normal form the property allows (`Fit.E2E.normalValue`). Built on the C06 lemmas (`decSlice_enc`, `decScalar_enc`,
`utf8String_clean`, `unmarshalStrings_marshal`).
-/
set_option linter.unusedSimpArgs false
namespace Fit.E2E
open Fit.Gen Fit.Value Fit.Utf8

/-! ### scalars and slices through the byte order functions -/

theorem decScalar_enc_append (w a x : Nat) (rest : List Nat) (mk : Nat → Value) :
    decScalar w a (enc w a x ++ rest) mk = .ok (mk (x % 256 ^ w)) := by
  unfold decScalar
  rw [if_neg (by simp), List.take_append_of_le_length (by simp), List.take_of_length_le (by simp), dec_enc]

theorem decScalar_cons (a x : Nat) (rest : List Nat) (mk : Nat → Value) :
    decScalar 1 a (x :: rest) mk = .ok (mk x) := by
  simp [decScalar, dec_single]

theorem decSlice_enc_one (w a x : Nat) (hw : 0 < w) : decSlice w a (enc w a x) = [x % 256 ^ w] := by
  have := decSlice_enc w a hw [x]
  simpa using this

theorem mod_of_lt_pow {x w : Nat} (h : x < 256 ^ w) : x % 256 ^ w = x := Nat.mod_eq_of_lt h

theorem allLt_cons {n x : Nat} {xs : List Nat} (h : allLt n (x :: xs) = true) : x < n ∧ allLt n xs = true := by
  simpa [allLt] using h

/-! ### `unmarshal ∘ marshal` under foreign flags -/

attribute [local simp] btEnum btSint8 btByte btUint8 btUint8z btSint16 btUint16 btUint16z btSint32 btUint32 btUint32z
  btSint64 btUint64 btUint64z btFloat32 btFloat64 btString

/-- **what the decoder makes of a written value**: for every well-formed value aligned with `bt`, every byte order and
whatever profile-bool / array flags the decoder reads the field with, `UnmarshalValue` of the marshalled bytes is
`reread` — provided a scalar read has something to read (the decoder skips fields of size zero). -/
theorem unmarshal_reread (v : Value) (a bt : Nat) (bs : List Nat) (isBool isArray : Bool)
    (hwf : wf v = true) (hal : align v bt = true) (hm : marshal v a = some bs)
    (hne : isArray = true ∨ bs ≠ []) :
    unmarshal bs a bt isBool isArray = .ok (reread bt isBool isArray v) := by
  cases v <;> simp only [marshal, Option.some.injEq, reduceCtorEq] at hm <;> subst hm <;>
    simp only [align, beq_iff_eq, Bool.or_eq_true, Bool.false_eq_true] at hal
  case string s =>
    subst hal
    cases isArray <;>
      simp [unmarshal, reread, strData, marshal]
  case sliceString vs =>
    subst hal
    cases isArray <;>
      simp [unmarshal, reread, strData, marshal]
  case bool b =>
    subst hal
    cases isArray <;> cases isBool <;>
      simp [unmarshal, reread, elems, scalarOf, sliceOf, decScalar_single]
  case sliceBool vs =>
    subst hal
    cases isArray
    · cases vs with
      | nil => simp at hne
      | cons x xs =>
        cases isBool <;>
          simp [unmarshal, reread, elems, scalarOf, sliceOf, decScalar_cons]
    · cases isBool <;>
        simp [unmarshal, reread, elems, scalarOf, sliceOf]
  case int8 x =>
    subst hal
    have hx : x < 256 := by simpa [wf] using hwf
    cases isArray <;>
      simp [unmarshal, reread, elems, scalarOf, sliceOf, decScalar_single,
        Nat.mod_eq_of_lt hx]
  case uint8 x =>
    have hx : x < 256 := by simpa [wf] using hwf
    rcases hal with ((hal | hal) | hal) | hal <;> subst hal <;> cases isArray <;> cases isBool <;>
      simp [unmarshal, reread, elems, scalarOf, sliceOf, decScalar_single,
        Nat.mod_eq_of_lt hx]
  case sliceInt8 vs =>
    subst hal
    have hv : vs.map (· % 256) = vs := map_mod256 vs (by simpa [wf] using hwf)
    cases isArray
    · cases vs with
      | nil => simp at hne
      | cons x xs =>
        have hx := (allLt_cons (by simpa [wf] using hwf : allLt (2 ^ 8) (x :: xs) = true)).1
        simp [unmarshal, reread, elems, scalarOf, sliceOf, decScalar_cons,
          Nat.mod_eq_of_lt hx]
    · simp [unmarshal, reread, elems, scalarOf, sliceOf, hv]
  case sliceUint8 vs =>
    have hv : vs.map (· % 256) = vs := map_mod256 vs (by simpa [wf] using hwf)
    cases isArray
    · cases vs with
      | nil => simp at hne
      | cons x xs =>
        have hx := (allLt_cons (by simpa [wf] using hwf : allLt (2 ^ 8) (x :: xs) = true)).1
        rcases hal with ((hal | hal) | hal) | hal <;> subst hal <;> cases isBool <;>
          simp [unmarshal, reread, elems, scalarOf, sliceOf, decScalar_cons,
            Nat.mod_eq_of_lt hx]
    · rcases hal with ((hal | hal) | hal) | hal <;> subst hal <;> cases isBool <;>
        simp [unmarshal, reread, elems, scalarOf, sliceOf, hv]
  case int16 x | int32 x | int64 x | float32 x | float64 x =>
    subst hal
    simp only [wf, decide_eq_true_eq] at hwf
    cases isArray <;>
      simp [unmarshal, reread, elems, scalarOf, sliceOf, decScalar_enc, decSlice_enc_one, Nat.mod_eq_of_lt hwf]
  case uint16 x | uint32 x | uint64 x =>
    simp only [wf, decide_eq_true_eq] at hwf
    rcases hal with hal | hal <;> subst hal <;> cases isArray <;>
      simp [unmarshal, reread, elems, scalarOf, sliceOf, decScalar_enc, decSlice_enc_one, Nat.mod_eq_of_lt hwf]
  case sliceInt16 vs | sliceInt32 vs | sliceInt64 vs | sliceFloat32 vs | sliceFloat64 vs =>
    subst hal
    simp only [wf] at hwf
    cases isArray
    · cases vs with
      | nil => simp at hne
      | cons x xs =>
        have hx := (allLt_cons hwf).1
        simp [unmarshal, reread, elems, scalarOf, sliceOf, decScalar_enc_append, Nat.mod_eq_of_lt hx]
    · simp [unmarshal, reread, elems, scalarOf, sliceOf, decSlice_enc, map_mod_of_allLt _ _ hwf]
  case sliceUint16 vs | sliceUint32 vs | sliceUint64 vs =>
    simp only [wf] at hwf
    cases isArray
    · cases vs with
      | nil => simp at hne
      | cons x xs =>
        have hx := (allLt_cons hwf).1
        rcases hal with hal | hal <;> subst hal <;>
        simp [unmarshal, reread, elems, scalarOf, sliceOf, decScalar_enc_append, Nat.mod_eq_of_lt hx]
    · rcases hal with hal | hal <;> subst hal <;>
      simp [unmarshal, reread, elems, scalarOf, sliceOf, decSlice_enc, map_mod_of_allLt _ _ hwf]

/-! ### when what comes back is the normal form -/

theorem takeWhile_nz_append_zero_cons (x y : List Nat) :
    (x ++ 0 :: y).takeWhile (· != 0) = x.takeWhile (· != 0) := by
  induction x with
  | nil => simp [List.takeWhile]
  | cons b bs ih =>
    by_cases hb : b = 0
    · subst hb; simp [List.takeWhile]
    · have hb' : (b != 0) = true := by simpa using hb
      simp only [List.cons_append, List.takeWhile, hb', ih]

/-- the bytes of a string array up to the first NUL are its first string up to its first NUL -/
theorem cutNul_flatMap_strBytes (s : List Nat) (rest : List (List Nat)) :
    cutNul ((s :: rest).flatMap strBytes) = cutNul s := by
  obtain ⟨a, ha⟩ := strBytes_endsNul s
  have h1 : cutNul (strBytes s) = cutNul s := cutNul_strBytes s
  simp only [List.flatMap_cons, ha, cutNul] at h1 ⊢
  rw [List.append_assoc, List.singleton_append, takeWhile_nz_append_zero_cons]
  rw [takeWhile_nz_append_zero] at h1
  exact h1

theorem splitNul_cut (bs : List Nat) : ∀ cur, 0 ∈ bs →
    ∃ tl, splitNul cur bs = (cur ++ bs.takeWhile (· != 0)) :: tl := by
  induction bs with
  | nil => intro _ h; cases h
  | cons b bs ih =>
    intro cur h
    by_cases hb : b = 0
    · subst hb; exact ⟨splitNul [] bs, by simp [splitNul, List.takeWhile]⟩
    · have hb' : (b != 0) = true := by simpa using hb
      have hm : 0 ∈ bs := by
        rcases List.mem_cons.mp h with h | h
        · exact absurd h.symm hb
        · exact h
      obtain ⟨tl, htl⟩ := ih (cur ++ [b]) hm
      exact ⟨tl, by simp [splitNul, hb, List.takeWhile, hb', htl]⟩

/-- the part of a string before its first NUL, when not empty, is the first piece of every array that starts with it -/
theorem cutNul_mem_pieces (s : List Nat) (rest : List (List Nat)) (h : cutNul s ≠ []) :
    ∃ tl, pieces (s :: rest) = cutNul s :: tl := by
  obtain ⟨a, ha⟩ := strBytes_endsNul s
  obtain ⟨tl, htl⟩ := splitNul_cut (strBytes s) [] (by rw [ha]; simp)
  have hc : (strBytes s).takeWhile (· != 0) = cutNul s := cutNul_strBytes s
  rw [List.nil_append, hc] at htl
  refine ⟨(tl ++ rest.flatMap fun s => splitNul [] (strBytes s)).filter (fun s => !s.isEmpty), ?_⟩
  simp only [pieces, List.flatMap_cons, htl, List.cons_append]
  rw [List.filter_cons_of_pos (by simpa [List.isEmpty_iff] using h)]

/-- every piece of the value's strings is clean UTF-8 (no well-formed U+FFFD): the complement of the class of KF-C06-1 -/
def cleanAll (v : Value) : Bool := clean v && (pieces (strList v)).all cleanStr

theorem cleanStr_nil : cleanStr [] = true := by decide

theorem bytes_flatMap_strBytes (vs : List (List Nat)) (hb : ∀ s ∈ vs, Bytes s) : Bytes (vs.flatMap strBytes) := by
  intro b hbm
  obtain ⟨s, hs, hbs⟩ := List.mem_flatMap.mp hbm
  exact bytes_strBytes s (hb s hs) b hbs

/-- **the code returns the normal form** for a well-formed value aligned with `bt` whose strings are clean, outside
the two classes where it cannot: a value of size zero (`kfZeroV`) and an array read in scalar mode (`kfArrV`). -/
theorem reread_eq_normal (v : Value) (bt : Nat) (isBool isArray : Bool)
    (hwf : wf v = true) (hal : align v bt = true) (hcl : cleanAll v = true)
    (hz : kfZeroV v = false) (ha : kfArrV bt isBool isArray v = false) :
    reread bt isBool isArray v = normalValue bt isBool isArray v := by
  simp only [cleanAll, Bool.and_eq_true] at hcl
  obtain ⟨hc1, hc2⟩ := hcl
  cases v <;> simp only [align, beq_iff_eq, Bool.or_eq_true] at hal
  case invalid => cases hal
  case string s =>
    subst hal
    have hb : Bytes s := bytes_of_allLt s (by simpa [wf] using hwf)
    cases isArray
    · simp [reread, normalValue, strData, marshal, utf8String_strBytes s hb (by simpa [clean] using hc1)]
    · have := unmarshalStrings_marshal [s] (by intro x hx; simp at hx; subst hx; exact hb) (by simpa [strList] using hc2)
      simp only [List.isEmpty_cons, Bool.false_eq_true, ↓reduceIte, List.flatMap_cons, List.flatMap_nil, List.append_nil] at this
      simp [reread, normalValue, strData, marshal, this]
  case sliceString vs =>
    subst hal
    have hb : ∀ s ∈ vs, Bytes s := by
      intro s hs
      simp only [wf, List.all_eq_true] at hwf
      exact bytes_of_allLt s (hwf s hs)
    cases isArray
    · -- scalar read: the bytes up to the first NUL
      simp only [kfArrV, Bool.not_false, Bool.true_and, beq_self_eq_true, Bool.not_eq_false', Bool.or_eq_true,
        beq_iff_eq] at ha
      simp only [strList] at hc2
      cases vs with
      | nil =>
        have : utf8String [0] = [] := by decide
        simp [reread, normalValue, strData, marshal, pieces, this]
      | cons s rest =>
        have hbs : Bytes s := hb s (by simp)
        have hcut : cutNul ((s :: rest).flatMap strBytes) = cutNul s := cutNul_flatMap_strBytes s rest
        have hclean : cleanStr (cutNul s) = true := by
          by_cases he : cutNul s = []
          · rw [he]; exact cleanStr_nil
          · obtain ⟨tl, htl⟩ := cutNul_mem_pieces s rest he
            exact (List.all_eq_true.mp hc2) _ (by rw [htl]; simp)
        have hu : utf8String ((s :: rest).flatMap strBytes) = cutNul s := by
          simp only [cleanStr, Bool.and_eq_true, Bool.not_eq_true'] at hclean
          have := utf8String_clean ((s :: rest).flatMap strBytes) (bytes_flatMap_strBytes _ hb)
            (by have h := hcut; unfold cutNul at h; rw [h]; exact hclean.1)
            (by have h := hcut; unfold cutNul at h; rw [h]; exact hclean.2)
          rw [this]; exact hcut
        have hd : strData (.sliceString (s :: rest)) = (s :: rest).flatMap strBytes := by
          simp [strData, marshal]
        simp only [reread, ↓reduceIte, Bool.false_eq_true, hd, hu, normalValue]
        rcases ha with ha | ha
        · rw [ha]
          by_cases he : cutNul s = []
          · rw [he]
          · obtain ⟨tl, htl⟩ := cutNul_mem_pieces s rest he
            rw [htl] at ha; cases ha
        · simp only [List.headD_cons] at ha
          rw [ha]
    · have := unmarshalStrings_marshal vs hb hc2
      simp only [List.isEmpty_iff] at this
      simp [reread, normalValue, strData, marshal, this]
  all_goals
    have hbt : ¬ bt = 7 := by intro h; subst h; simp at hal
    simp only [kfZeroV, size, typeOf, beq_eq_false_iff_ne, ne_eq] at hz
    simp only [kfArrV, elems, List.length_cons, List.length_nil, List.length_map] at ha
  case bool | int8 | uint8 | int16 | uint16 | int32 | uint32 | int64 | uint64 | float32 | float64 =>
    cases isArray <;> simp [reread, normalValue, elems, hbt]
  all_goals
    rename_i vs
    cases isArray
    · simp only [Bool.not_false, Bool.true_and, decide_eq_false_iff_not, Nat.not_le] at ha
      cases vs with
      | nil => simp at hz
      | cons x xs =>
        cases xs with
        | nil => simp [reread, normalValue, elems, hbt]
        | cons y ys => exfalso; first | (simp at ha; done) | (simp only [List.length_cons] at ha; omega)
    · simp [reread, normalValue, elems, hbt]

end Fit.E2E
