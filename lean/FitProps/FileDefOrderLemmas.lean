import FitProps.FileDefLemmas
/-! C14, first half, ordering in terms of ARRIVAL order: within one message kind (number) and one timestamp the output of
`ToFIT` keeps the order in which the messages were added — for every file type, sorted or not; and what the file types
that do not sort everything (KF-C14-2) do guarantee. Core Lean only. -/
namespace Fit.FileDef
open Generated
namespace G
variable {μ : Type} (C : Carrier μ)

/-- messages of number `n` -/
def ofNum (n : Nat) (l : List μ) : List μ := l.filter (fun m => C.num m == n)

/-- messages of number `n` whose sort key is `k` -/
def ofNumKey (n : Nat) (k : Option Nat) (l : List μ) : List μ := l.filter (fun m => C.num m == n && decide (C.key m = k))

theorem ofNumKey_eq (n : Nat) (k : Option Nat) (l : List μ) : ofNumKey C n k l = ofNum C n (withKey C k l) := by
  unfold ofNumKey ofNum withKey
  rw [List.filter_filter]

/-- the stable sort does not reorder the messages of one kind and one key -/
theorem ofNumKey_sortStable (n : Nat) (k : Option Nat) (l : List μ) : ofNumKey C n k (sortStable C l) = ofNumKey C n k l := by
  rw [ofNumKey_eq, ofNumKey_eq, sortStable_withKey]

theorem ofNumKey_append (n : Nat) (k : Option Nat) (a b : List μ) : ofNumKey C n k (a ++ b) = ofNumKey C n k a ++ ofNumKey C n k b := by
  unfold ofNumKey; rw [List.filter_append]

/-- sorting a suffix of the groups does not reorder the messages of one kind and one key -/
theorem ofNumKey_toFIT (T : FileType) (f : List μ) (n : Nat) (k : Option Nat) :
    ofNumKey C n k (toFIT C T f) = ofNumKey C n k (emission C T f) := by
  unfold toFIT emission
  rw [ofNumKey_append, ofNumKey_sortStable, ← ofNumKey_append, ← List.flatten_append, List.take_append_drop]

/-- the typed slots of a duplicate-free slot list none of which is a value slot of number `n`: the messages of number `n`
they emit are all stored messages of number `n` (in arrival order) if `n` is one of the slots, none otherwise -/
theorem ofNum_slots (hC : C.Lawful) (T : FileType) (f : List μ) (n : Nat) :
    ∀ (ss : List Slot), (ss.map (·.num)).Nodup → (∀ s ∈ ss, s.num = n → s.kind ≠ .value) →
      ofNum C n ((ss.map (slotMsgs C T f)).flatten) = if inSlots ss n then ofNum C n f else []
  | [], _, _ => rfl
  | s :: ss, hnd, hv => by
    have hnd' : s.num ∉ ss.map (·.num) ∧ (ss.map (·.num)).Nodup := List.nodup_cons.mp hnd
    have ih := ofNum_slots hC T f n ss hnd'.2 (fun s' hs' => hv s' (List.mem_cons_of_mem _ hs'))
    simp only [List.map_cons, List.flatten_cons]
    unfold ofNum at ih ⊢
    rw [List.filter_append, ih]
    by_cases hs : s.num = n
    · -- this slot is the one: it emits exactly the stored messages of number n; no later slot has the number
      have hk := hv s List.mem_cons_self hs
      rw [slotMsgs_of_not_value C T f s hk, List.filter_filter]
      have hno : inSlots ss n = false := by
        unfold inSlots
        rw [List.any_eq_false]
        intro s' hs'
        have : s'.num ≠ n := fun e => hnd'.1 (by rw [hs, ← e]; exact List.mem_map_of_mem hs')
        simpa using this
      have hyes : inSlots (s :: ss) n = true := by simp [inSlots, hs]
      rw [hno, hyes]
      simp only [Bool.false_eq_true, if_false, if_true, List.append_nil]
      apply List.filter_congr
      intro m _
      rw [hs]; simp
    · -- another number: nothing of number n in this group (the made-up message of a value slot has the slot's number)
      have hnone : (slotMsgs C T f s).filter (fun m => C.num m == n) = [] := by
        rw [List.filter_eq_nil_iff]
        intro m hm
        have hnum : C.num m = s.num := by
          unfold slotMsgs at hm
          simp only at hm
          split at hm
          · simp only [List.mem_cons, List.not_mem_nil, or_false] at hm
            rw [hm, hC.dflt_num]
          · simpa using (List.mem_filter.mp hm).2
        rw [hnum]; simpa using hs
      have : inSlots (s :: ss) n = inSlots ss n := by
        have : (s.num == n) = false := by simpa using hs
        simp [inSlots, this]
      rw [hnone, this]; rfl

/-- **the emission is in arrival order within every kind**: the messages of number `n` (not file_id) in the emission are the
stored messages of number `n`, in the order in which they were stored -/
theorem ofNum_emission (hC : C.Lawful) {T : FileType} (hok : TableOK T) (f : List μ) (n : Nat) (hn : n ≠ mesgNumFileId) :
    ofNum C n (emission C T f) = ofNum C n f := by
  obtain ⟨s0, s1, s2, rest, hsl, h0n, _, _, h1k, _, h2k, hrest⟩ := tableOK_slots hok
  have hv : ∀ s ∈ T.slots, s.num = n → s.kind ≠ .value := by
    intro s hs hsn
    rw [hsl] at hs
    rcases List.mem_cons.mp hs with rfl | hs
    · exact absurd (hsn ▸ h0n) hn
    · rcases List.mem_cons.mp hs with rfl | hs
      · rw [h1k]; decide
      · rcases List.mem_cons.mp hs with rfl | hs
        · rw [h2k]; decide
        · exact hrest s hs
  unfold emission groups
  have h1 := ofNum_slots C hC T f n T.slots hok.1 hv
  unfold ofNum at h1 ⊢
  rw [List.flatten_append, List.filter_append, h1]
  simp only [List.flatten_cons, List.flatten_nil, List.append_nil]
  unfold unrelated
  rw [List.filter_filter]
  cases hin : inSlots T.slots n with
  | true =>
    simp only [if_true]
    have : f.filter (fun m => (C.num m == n) && (slotOf T (C.num m)).isNone) = [] := by
      rw [List.filter_eq_nil_iff]
      intro m _
      by_cases hm : C.num m = n
      · rw [slotOf_isNone, hm, hin]; simp
      · simp [hm]
    rw [this, List.append_nil]
  | false =>
    simp only [Bool.false_eq_true, if_false, List.nil_append]
    apply List.filter_congr
    intro m _
    by_cases hm : C.num m = n
    · rw [slotOf_isNone, hm, hin]; simp
    · simp [hm]

/-- **Stability in terms of arrival order.** For every file type and every message list: among the messages of one kind
(number `n`, not file_id) that carry the same timestamp key `k` (`none` = no timestamp field), the output of `ToFIT` keeps
the order in which the file keeps them — i.e. the order of arrival (of the last occurrence, for a single-valued kind). -/
theorem stable_within_kind (hC : C.Lawful) {T : FileType} (hok : TableOK T) (msgs : List μ) (n : Nat)
    (hn : n ≠ mesgNumFileId) (k : Option Nat) :
    ofNumKey C n k (toFIT C T (build C T msgs)) = ofNumKey C n k (keepLastDecl C T (msgs.map (C.norm T))) := by
  rw [ofNumKey_toFIT, ofNumKey_eq, ofNumKey_eq]
  have hcomm : ∀ l : List μ, ofNum C n (withKey C k l) = withKey C k (ofNum C n l) := by
    intro l; unfold ofNum withKey; rw [List.filter_filter, List.filter_filter]
    apply List.filter_congr; intro m _; rw [Bool.and_comm]
  rw [hcomm, hcomm, ofNum_emission C hC hok _ n hn, build_keeps_last C hok]

/-- the groups after the prefix: the typed slots after file_id / developer_data_id / field_description, then the unrelated messages -/
theorem restGroups_eq {T : FileType} (h : TableOK T) (f : List μ) :
    restGroups C T f = (T.slots.drop 3).map (slotMsgs C T f) ++ [unrelated C T f] := by
  obtain ⟨s0, s1, s2, rest, hsl, _⟩ := tableOK_slots h
  unfold restGroups groups
  rw [hsl]; rfl

/-- the typed messages after the prefix, slot by slot in table order, each slot in arrival order -/
def typedRest (T : FileType) (f : List μ) : List μ := ((T.slots.drop 3).map (slotMsgs C T f)).flatten

/-- **What the file types that do not sort everything guarantee** (`sortFrom ≥ slots.length`: KF-C14-2). After the prefix
come the typed messages, kind by kind in the file type's fixed order, each kind in arrival order (NOT sorted by timestamp);
then the unrelated messages — stably sorted by timestamp among themselves when `sortFrom = slots.length` (device, settings,
sport, schedules, goals, segment, segment_list), in arrival order when the file type sorts nothing (workout). -/
theorem sorted_unrelated_only (hC : C.Lawful) {T : FileType} (hok : TableOK T) (hs : T.slots.length ≤ T.sortFrom) (msgs : List μ) :
    ∃ fid, OutputShape C T msgs fid
      (typedRest C T (build C T msgs) ++
        (if T.sortFrom = T.slots.length then sortStable C (unrelated C T (build C T msgs)) else unrelated C T (build C T msgs))) := by
  obtain ⟨fid, _, hshape⟩ := output_shape C hC hok msgs
  refine ⟨fid, ?_⟩
  rw [restGroups_eq C hok] at hshape
  obtain ⟨s0, s1, s2, rest, hsl, _⟩ := tableOK_slots hok
  have hlen : ((T.slots.drop 3).map (slotMsgs C T (build C T msgs))).length = T.slots.length - 3 := by simp
  have h3 : 3 ≤ T.slots.length := by rw [hsl]; simp
  by_cases he : T.sortFrom = T.slots.length
  · rw [if_pos he]
    have e : T.sortFrom - 3 = ((T.slots.drop 3).map (slotMsgs C T (build C T msgs))).length := by rw [hlen, he]
    rw [e, List.take_left, List.drop_left] at hshape
    simpa [typedRest] using hshape
  · rw [if_neg he]
    have hgt : ((T.slots.drop 3).map (slotMsgs C T (build C T msgs)) ++ [unrelated C T (build C T msgs)]).length ≤ T.sortFrom - 3 := by
      rw [List.length_append, hlen]; simp; omega
    rw [List.take_of_length_le hgt, List.drop_eq_nil_of_le hgt] at hshape
    simpa [typedRest, sortStable] using hshape

end G
end Fit.FileDef
