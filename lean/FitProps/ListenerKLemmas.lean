import FitModel.ListenerK
/-! Invariant, progress, refinement of the listener transition system with options (`FitModel/ListenerK.lean`; C14, second
half). Core Lean only. -/
namespace Fit.ListenerK

section
variable {M σ κ : Type} (proc : κ → σ → M → σ) (init : σ)

/-- slices held by the producer / by the worker -/
def holdP : PC M κ → List Nat
  | .onSend _ t => [t]
  | .closingPut _ t _ => [t]
  | _ => []

def holdC : WC → List Nat
  | .proc t => [t]
  | .ret t => [t]
  | _ => []

/-- every slice of the listener, by where it is: in the pool channel, in the message queue, in the producer's hands,
in the worker's hands -/
def tokens (s : St M σ κ) : List Nat := s.pool ++ s.queue ++ holdP s.p ++ holdC s.c

/-- slice the worker has received but not yet processed -/
def pendC : WC → List Nat
  | .proc t => [t]
  | _ => []

/-- message the producer has accepted (`OnMesg` entered) but not yet queued -/
def pendP : PC M κ → List M
  | .onTake m => [m]
  | .onSend m _ => [m]
  | _ => []

/-- the file cell as it will be once everything in flight has been processed, in order -/
def vfile (s : St M σ κ) : σ :=
  (pendP s.p).foldl (proc s.cfg) ((pendC s.c ++ s.queue).foldl (fun f t => procO proc s.cfg f (s.mem t)) s.file)

def afterSeq (k : κ) (a : After κ) (V : σ) (cs : List (Cmd M κ)) : List σ :=
  match a with
  | .file => V :: seqRun proc init k false V cs
  | .close => seqRun proc init k false V cs
  | .reset _ k' => seqRun proc init k' true init cs

/-- the results the *sequential* specification still produces from this state -/
def seqRest (s : St M σ κ) : List σ :=
  match s.p with
  | .idle => seqRun proc init s.cfg s.active (vfile proc s) s.script
  | .onTake _ => seqRun proc init s.cfg true (vfile proc s) s.script
  | .onSend _ _ => seqRun proc init s.cfg true (vfile proc s) s.script
  | .closing _ a => afterSeq proc init s.cfg a (vfile proc s) s.script
  | .closingPut _ _ a => afterSeq proc init s.cfg a (vfile proc s) s.script
  | .closeWait a => afterSeq proc init s.cfg a (vfile proc s) s.script
  | .fin => []

def isClosing : PC M κ → Bool
  | .closing _ _ => true
  | .closingPut _ _ _ => true
  | .closeWait _ => true
  | _ => false

def isIdleFin : PC M κ → Bool
  | .idle => true
  | .fin => true
  | _ => false

def afterOf : PC M κ → Option (After κ)
  | .closing _ a => some a
  | .closingPut _ _ a => some a
  | .closeWait a => some a
  | _ => none

/-- the invariant; `R` = what the sequential specification yields for the whole script -/
structure Inv (R : List σ) (s : St M σ κ) : Prop where
  /-- exclusive ownership: no slice is in two places -/
  nodup : (tokens s).Nodup
  /-- conservation: pool + queue + held = capacity of the pool channel -/
  count : (tokens s).length = s.P
  fresh : ∀ t ∈ tokens s, t < s.nextId
  /-- results so far ++ what the specification still produces = the specification's results -/
  seq : s.results ++ seqRest proc init s = R
  closedIff : s.closed = true ↔ (isClosing s.p = true ∨ s.active = false)
  inactive : s.active = false → isIdleFin s.p = true ∧ s.c = .exited
  doneIff : s.done = true ↔ s.c = .exited
  exited : s.c = .exited → s.closed = true ∧ s.queue = []
  sendMem : ∀ m t, s.p = .onSend m t → s.mem t = some m
  /-- `cap(l.poolc) = max(channelBuffer, 1)`: at least one slice circulates, whatever the buffer size -/
  capP : s.P = poolSize s.N
  /-- `mesgc` never holds more than its capacity (nothing at all when it is unbuffered) -/
  qcap : s.queue.length ≤ s.N

theorem foldl_update_notin (k : κ) (mem : Nat → Option M) (t : Nat) (v : Option M) (L : List Nat) (h : t ∉ L) (f0 : σ) :
    L.foldl (fun f x => procO proc k f (update mem t v x)) f0 = L.foldl (fun f x => procO proc k f (mem x)) f0 := by
  induction L generalizing f0 with
  | nil => rfl
  | cons a L ih =>
    have ha : a ≠ t := fun e => h (by rw [e]; exact List.mem_cons_self)
    have hL : t ∉ L := fun e => h (List.mem_cons_of_mem _ e)
    simp only [List.foldl_cons, update, ha, if_false]
    exact ih hL _

theorem inv_init (N : Nat) (k0 : κ) (script : List (Cmd M κ)) :
    Inv proc init (seqRun proc init k0 true init script) (initSt init N k0 script) := by
  refine ⟨?_, ?_, ?_, ?_, ?_, ?_, ?_, ?_, ?_, rfl, ?_⟩
  · simp [tokens, initSt, holdP, holdC, List.nodup_range]
  · simp [tokens, initSt, holdP, holdC]
  · intro t ht; simpa [tokens, initSt, holdP, holdC] using ht
  · simp [seqRest, initSt, vfile, pendP, pendC]
  · simp [initSt, isClosing]
  · simp [initSt]
  · simp [initSt]
  · simp [initSt]
  · intro m t h; simp [initSt] at h
  · simp [initSt]



theorem seqRest_congr {s s' : St M σ κ} (hv : vfile proc s' = vfile proc s) (hp : s'.p = s.p) (hs : s'.script = s.script)
    (ha : s'.active = s.active) (hk : s'.cfg = s.cfg) : seqRest proc init s' = seqRest proc init s := by
  unfold seqRest
  rw [hp, hs, ha, hv, hk]

theorem inv_stepC {R : List σ} {s s' : St M σ κ} (inv : Inv proc init R s) (h : stepC proc s = some s') :
    Inv proc init R s' := by
  obtain ⟨hnd, hcnt, hfr, hseq, hcl, hina, hdone, hex, hsm, hP, hqc⟩ := inv
  unfold stepC at h
  split at h
  · -- recv
    rename_i hc
    split at h
    · rename_i t q hq
      injection h with h; subst h
      have hperm : (tokens ({ s with queue := q, c := .proc t } : St M σ κ)).Perm (tokens s) := by
        simp only [tokens, holdC, hc, hq]; grind
      have hv : vfile proc ({ s with queue := q, c := .proc t } : St M σ κ) = vfile proc s := by
        simp [vfile, pendC, hc, hq]
      refine ⟨hperm.nodup_iff.mpr hnd, by rw [hperm.length_eq]; exact hcnt, fun x hx => hfr x (hperm.mem_iff.mp hx), ?_,
        hcl, ?_, ?_, ?_, hsm, hP, ?_⟩
      · rw [seqRest_congr proc init hv rfl rfl rfl rfl]; exact hseq
      · intro ha; have := hina ha; simp [hc] at this
      · simp [hc] at hdone ⊢; exact hdone
      · intro h; cases h
      · rw [hq] at hqc; simp at hqc ⊢; omega
    · rename_i hq
      split at h
      · rename_i hclosed
        injection h with h; subst h
        have htok : tokens ({ s with done := true, c := .exited } : St M σ κ) = tokens s := by
          simp [tokens, holdC, hc]
        have hv : vfile proc ({ s with done := true, c := .exited } : St M σ κ) = vfile proc s := by
          simp [vfile, pendC, hc]
        refine ⟨by rw [htok]; exact hnd, by rw [htok]; exact hcnt, by rw [htok]; exact hfr, ?_, hcl, ?_, ?_, ?_, hsm, hP, hqc⟩
        · rw [seqRest_congr proc init hv rfl rfl rfl rfl]; exact hseq
        · intro ha
          exact ⟨(hina ha).1, rfl⟩
        · simp
        · intro _; exact ⟨hclosed, hq⟩
      · cases h
  · -- proc t
    rename_i t hc
    injection h with h; subst h
    have htok : tokens ({ s with file := procO proc s.cfg s.file (s.mem t), c := .ret t } : St M σ κ) = tokens s := by
      simp [tokens, holdC, hc]
    have hv : vfile proc ({ s with file := procO proc s.cfg s.file (s.mem t), c := .ret t } : St M σ κ) = vfile proc s := by
      simp [vfile, pendC, hc]
    refine ⟨by rw [htok]; exact hnd, by rw [htok]; exact hcnt, by rw [htok]; exact hfr, ?_, hcl, ?_, ?_, ?_, hsm, hP, hqc⟩
    · rw [seqRest_congr proc init hv rfl rfl rfl rfl]; exact hseq
    · intro ha; have := hina ha; simp [hc] at this
    · simp [hc] at hdone ⊢; exact hdone
    · intro h; cases h
  · -- ret t
    rename_i t hc
    split at h
    · rename_i hlen
      injection h with h; subst h
      have hperm : (tokens ({ s with pool := s.pool ++ [t], c := .recv } : St M σ κ)).Perm (tokens s) := by
        simp only [tokens, holdC, hc]; grind
      have hv : vfile proc ({ s with pool := s.pool ++ [t], c := .recv } : St M σ κ) = vfile proc s := by
        simp [vfile, pendC, hc]
      refine ⟨hperm.nodup_iff.mpr hnd, by rw [hperm.length_eq]; exact hcnt, fun x hx => hfr x (hperm.mem_iff.mp hx), ?_,
        hcl, ?_, ?_, ?_, hsm, hP, hqc⟩
      · rw [seqRest_congr proc init hv rfl rfl rfl rfl]; exact hseq
      · intro ha; have := hina ha; simp [hc] at this
      · simp [hc] at hdone ⊢; exact hdone
      · intro h; cases h
    · cases h
  · cases h



theorem inv_finishClose {R : List σ} (a : After κ) (s : St M σ κ)
    (hnd : s.pool.Nodup) (hcnt : s.pool.length = s.P) (hfr : ∀ t ∈ s.pool, t < s.nextId)
    (hc : s.c = .exited) (hq : s.queue = []) (hclosed : s.closed = true) (hdone : s.done = true)
    (hseq : s.results ++ afterSeq proc init s.cfg a s.file s.script = R)
    (hP : s.P = poolSize s.N) :
    Inv proc init R (finishClose init a s) := by
  cases a with
  | file =>
    refine ⟨?_, ?_, ?_, ?_, ?_, ?_, ?_, ?_, ?_, hP, ?_⟩
    · simpa [finishClose, tokens, holdP, holdC, hc, hq] using hnd
    · simpa [finishClose, tokens, holdP, holdC, hc, hq] using hcnt
    · simpa [finishClose, tokens, holdP, holdC, hc, hq] using hfr
    · simpa [finishClose, seqRest, vfile, pendP, pendC, hc, hq, afterSeq] using hseq
    · simp [finishClose, isClosing, hclosed]
    · simp [finishClose, isIdleFin, hc]
    · simp [finishClose, hc, hdone]
    · simp [finishClose, hclosed, hq]
    · intro m t h; simp [finishClose] at h
    · simp [finishClose, hq]
  | close =>
    refine ⟨?_, ?_, ?_, ?_, ?_, ?_, ?_, ?_, ?_, hP, ?_⟩
    · simpa [finishClose, tokens, holdP, holdC, hc, hq] using hnd
    · simpa [finishClose, tokens, holdP, holdC, hc, hq] using hcnt
    · simpa [finishClose, tokens, holdP, holdC, hc, hq] using hfr
    · simpa [finishClose, seqRest, vfile, pendP, pendC, hc, hq, afterSeq] using hseq
    · simp [finishClose, isClosing, hclosed]
    · simp [finishClose, isIdleFin, hc]
    · simp [finishClose, hc, hdone]
    · simp [finishClose, hclosed, hq]
    · intro m t h; simp [finishClose] at h
    · simp [finishClose, hq]
  | reset n k =>
    by_cases hnN : poolSize n = s.P
    · refine ⟨?_, ?_, ?_, ?_, ?_, ?_, ?_, ?_, ?_, ?_, ?_⟩
      · simpa [finishClose, respawn, resize, hnN, tokens, holdP, holdC] using hnd
      · simpa [finishClose, respawn, resize, hnN, tokens, holdP, holdC] using hcnt
      · simpa [finishClose, respawn, resize, hnN, tokens, holdP, holdC] using hfr
      · simpa [finishClose, respawn, resize, hnN, seqRest, vfile, pendP, pendC, afterSeq] using hseq
      · simp [finishClose, respawn, resize, hnN, isClosing]
      · simp [finishClose, respawn, resize, hnN]
      · simp [finishClose, respawn, resize, hnN]
      · simp [finishClose, respawn, resize, hnN]
      · intro m t h; simp [finishClose, respawn, resize, hnN] at h
      · simp [finishClose, respawn, resize, hnN]
      · simp [finishClose, respawn, resize, hnN]
    · refine ⟨?_, ?_, ?_, ?_, ?_, ?_, ?_, ?_, ?_, ?_, ?_⟩
      · simp only [finishClose, respawn, resize, hnN, if_false, tokens, holdP, holdC, List.append_nil]
        rw [List.nodup_append]
        refine ⟨hnd.sublist (List.take_sublist _ _), List.nodup_range', ?_⟩
        intro x hx y hy
        have h1 := hfr x (List.mem_of_mem_take hx)
        have h2 := (List.mem_range'_1.mp hy).1
        omega
      · simp only [finishClose, respawn, resize, hnN, if_false, tokens, holdP, holdC, List.append_nil,
          List.length_append, List.length_take, List.length_range']
        omega
      · simp only [finishClose, respawn, resize, hnN, if_false, tokens, holdP, holdC, List.append_nil]
        intro x hx
        rcases List.mem_append.mp hx with hx | hx
        · have := hfr x (List.mem_of_mem_take hx); omega
        · have := (List.mem_range'_1.mp hx).2; omega
      · simpa [finishClose, respawn, resize, hnN, seqRest, vfile, pendP, pendC, afterSeq] using hseq
      · simp [finishClose, respawn, resize, hnN, isClosing]
      · simp [finishClose, respawn, resize, hnN]
      · simp [finishClose, respawn, resize, hnN]
      · simp [finishClose, respawn, resize, hnN]
      · intro m t h; simp [finishClose, respawn, resize, hnN] at h
      · simp [finishClose, respawn, resize, hnN]
      · simp [finishClose, respawn, resize, hnN]




theorem inv_startClose {R : List σ} (a : After κ) (s : St M σ κ) (c : Cmd M κ) (cs : List (Cmd M κ))
    (inv : Inv proc init R s) (hp : s.p = .idle) (hs : s.script = c :: cs)
    (hcmd : ∀ k act V, seqRun proc init k act V (c :: cs) = afterSeq proc init k a V cs) :
    Inv proc init R (startClose init a { s with script := cs }) := by
  obtain ⟨hnd, hcnt, hfr, hseq, hcl, hina, hdone, hex, hsm, hP, hqc⟩ := inv
  by_cases hact : s.active = true
  · have hN0 : ¬ s.P = 0 := by rw [hP]; unfold poolSize; omega
    have hclosedF : s.closed = false := by
      cases hc : s.closed with
      | false => rfl
      | true => have := hcl.mp hc; simp [hp, isClosing, hact] at this
    simp only [startClose, hact, if_true, hN0, if_false]
    refine ⟨?_, ?_, ?_, ?_, ?_, ?_, hdone, ?_, ?_, hP, hqc⟩
    · simpa [tokens, holdP, hp] using hnd
    · simpa [tokens, holdP, hp] using hcnt
    · simpa [tokens, holdP, hp] using hfr
    · simp only [seqRest, hp, hs, hact] at hseq
      rw [hcmd] at hseq
      simpa [seqRest, vfile, pendP, hp] using hseq
    · simp [isClosing]
    · intro h; simp at h
    · intro h; exact ⟨rfl, (hex h).2⟩
    · intro m t h; cases h
  · have hact' : s.active = false := by simpa using hact
    obtain ⟨_, hc⟩ := hina hact'
    obtain ⟨hclosed, hq⟩ := hex hc
    simp only [startClose, hact', Bool.false_eq_true, if_false]
    apply inv_finishClose proc init a
    · simpa [tokens, holdP, holdC, hp, hc, hq] using hnd
    · simpa [tokens, holdP, holdC, hp, hc, hq] using hcnt
    · simpa [tokens, holdP, holdC, hp, hc, hq] using hfr
    · exact hc
    · exact hq
    · exact hclosed
    · exact hdone.mpr hc
    · simp only [seqRest, hp, hs, hact'] at hseq
      rw [hcmd] at hseq
      simpa [vfile, pendP, pendC, hp, hc, hq] using hseq
    · exact hP




theorem inv_stepP {R : List σ} {s s' : St M σ κ} (inv : Inv proc init R s) (h : stepP init s = some s') :
    Inv proc init R s' := by
  have inv0 := inv
  obtain ⟨hnd, hcnt, hfr, hseq, hcl, hina, hdone, hex, hsm, hP, hqc⟩ := inv
  unfold stepP at h
  split at h
  · -- idle
    rename_i hp
    split at h
    · -- script = []
      rename_i hs
      injection h with h; subst h
      refine ⟨?_, ?_, ?_, ?_, ?_, ?_, hdone, hex, ?_, hP, hqc⟩
      · simpa [tokens, holdP, hp] using hnd
      · simpa [tokens, holdP, hp] using hcnt
      · simpa [tokens, holdP, hp] using hfr
      · simp only [seqRest, hp, hs, seqRun] at hseq
        simpa [seqRest] using hseq
      · simpa [isClosing, hp] using hcl
      · intro ha; exact ⟨rfl, (hina ha).2⟩
      · intro m t h; cases h
    · -- onMesg m :: cs
      rename_i m cs hs
      injection h with h; subst h
      by_cases hact : s.active = true
      · simp only [hact, if_true]
        refine ⟨?_, ?_, ?_, ?_, ?_, ?_, hdone, hex, ?_, hP, hqc⟩
        · simpa [tokens, holdP, hp] using hnd
        · simpa [tokens, holdP, hp] using hcnt
        · simpa [tokens, holdP, hp] using hfr
        · simp only [seqRest, hp, hs, hact, seqRun, if_true] at hseq
          simpa [seqRest, vfile, pendP, hp] using hseq
        · simpa [isClosing, hp, hact] using hcl
        · intro ha; simp at ha
        · intro m' t h; cases h
      · have hact' : s.active = false := by simpa using hact
        obtain ⟨_, hc⟩ := hina hact'
        obtain ⟨hclosed, hq⟩ := hex hc
        simp only [hact', Bool.false_eq_true, if_false]
        refine ⟨?_, ?_, ?_, ?_, ?_, ?_, ?_, ?_, ?_, hP, ?_⟩
        · simpa [respawn, tokens, holdP, holdC, hp, hc, hq] using hnd
        · simpa [respawn, tokens, holdP, holdC, hp, hc, hq] using hcnt
        · simpa [respawn, tokens, holdP, holdC, hp, hc, hq] using hfr
        · simp only [seqRest, hp, hs, hact', seqRun, Bool.false_eq_true, if_false] at hseq
          simpa [respawn, seqRest, vfile, pendP, pendC] using hseq
        · simp [respawn, isClosing]
        · intro ha; simp [respawn] at ha
        · simp [respawn]
        · intro h; simp [respawn] at h
        · intro m' t h; cases h
        · simp [respawn]
    · -- file :: cs
      rename_i cs hs
      injection h with h; subst h
      exact inv_startClose proc init .file s .file cs inv0 hp hs (fun _ _ _ => rfl)
    · rename_i cs hs
      injection h with h; subst h
      exact inv_startClose proc init .close s .close cs inv0 hp hs (fun _ _ _ => rfl)
    · rename_i n k cs hs
      injection h with h; subst h
      exact inv_startClose proc init (.reset n k) s (.reset n k) cs inv0 hp hs (fun _ _ _ => rfl)
  · -- onTake m
    rename_i m hp
    split at h
    · cases h
    · rename_i t pool' hpool
      injection h with h; subst h
      have hact : s.active = true := by
        cases ha : s.active with
        | true => rfl
        | false => have := (hina ha).1; simp [hp, isIdleFin] at this
      have hperm : (tokens ({ s with pool := pool', mem := update s.mem t (some m), p := .onSend m t } : St M σ κ)).Perm (tokens s) := by
        simp only [tokens, holdP, hp, hpool]; grind
      have hnotin : t ∉ pendC s.c ++ s.queue := by
        have hnd' := hnd
        simp only [tokens, hpool, holdP, hp] at hnd'
        intro hmem
        rcases List.mem_append.mp hmem with hm | hm
        · cases hc : s.c <;> simp [hc, pendC] at hm
          subst hm
          simp [hc, holdC] at hnd'
        · have : t ∈ pool' ++ s.queue ++ [] ++ holdC s.c := by simp [hm]
          simp at hnd'
          grind
      refine ⟨hperm.nodup_iff.mpr hnd, by rw [hperm.length_eq]; exact hcnt, fun x hx => hfr x (hperm.mem_iff.mp hx), ?_,
        ?_, ?_, hdone, hex, ?_, hP, hqc⟩
      · simp only [seqRest, hp] at hseq
        simp only [seqRest, vfile, pendP]
        rw [foldl_update_notin proc s.cfg s.mem t (some m) _ hnotin]
        simpa [vfile, pendP, hp] using hseq
      · simpa [isClosing, hp] using hcl
      · intro ha; simp [hact] at ha
      · intro m' t' h; injection h with h1 h2; subst h1 h2; simp [update]
  · -- onSend m t
    rename_i m t hp
    have hact : s.active = true := by
      cases ha : s.active with
      | true => rfl
      | false => have := (hina ha).1; simp [hp, isIdleFin] at this
    split at h
    · rename_i hlen
      injection h with h; subst h
      have hperm : (tokens ({ s with queue := s.queue ++ [t], p := .idle } : St M σ κ)).Perm (tokens s) := by
        simp only [tokens, holdP, hp]; grind
      refine ⟨hperm.nodup_iff.mpr hnd, by rw [hperm.length_eq]; exact hcnt, fun x hx => hfr x (hperm.mem_iff.mp hx), ?_,
        ?_, ?_, hdone, ?_, ?_, hP, ?_⟩
      · have hm := hsm m t hp
        have e : vfile proc ({ s with queue := s.queue ++ [t], p := .idle } : St M σ κ) = vfile proc s := by
          simp only [vfile, pendP, hp, List.foldl_nil, List.foldl_cons, ← List.append_assoc, List.foldl_append, hm]
          rfl
        simp only [seqRest, hp] at hseq
        simp only [seqRest]
        rw [e, hact]
        exact hseq
      · simpa [isClosing, hp] using hcl
      · intro ha; simp [hact] at ha
      · intro hc
        have := hex hc
        have hcl' := hcl.mp this.1
        simp [hp, isClosing, hact] at hcl'
      · intro m' t' h; cases h
      · simp only [List.length_append, List.length_cons, List.length_nil]; omega
    · split at h
      · -- unbuffered channel: rendezvous with the receiving worker
        rename_i hlen hsync
        obtain ⟨hN0, hc⟩ := hsync
        injection h with h; subst h
        have hq : s.queue = [] := by
          have := hqc; rw [hN0] at this
          exact List.eq_nil_of_length_eq_zero (by omega)
        have hperm : (tokens ({ s with p := .idle, c := .proc t } : St M σ κ)).Perm (tokens s) := by
          simp only [tokens, holdP, holdC, hp, hc]; grind
        refine ⟨hperm.nodup_iff.mpr hnd, by rw [hperm.length_eq]; exact hcnt, fun x hx => hfr x (hperm.mem_iff.mp hx), ?_,
          ?_, ?_, ?_, ?_, ?_, hP, hqc⟩
        · have hm := hsm m t hp
          have e : vfile proc ({ s with p := .idle, c := .proc t } : St M σ κ) = vfile proc s := by
            simp [vfile, pendP, pendC, hp, hc, hq, hm, procO]
          simp only [seqRest, hp] at hseq
          simp only [seqRest]
          rw [e, hact]
          exact hseq
        · simpa [isClosing, hp] using hcl
        · intro ha; simp [hact] at ha
        · simp [hc] at hdone ⊢; exact hdone
        · intro h; cases h
        · intro m' t' h; cases h
      · cases h
  · -- closing k a
    rename_i k a hp
    split at h
    · cases h
    · rename_i t pool' hpool
      injection h with h; subst h
      have hact : s.active = true := by
        cases ha : s.active with
        | true => rfl
        | false => have := (hina ha).1; simp [hp, isIdleFin] at this
      have hperm : (tokens ({ s with pool := pool', mem := update s.mem t none, p := .closingPut k t a } : St M σ κ)).Perm (tokens s) := by
        simp only [tokens, holdP, hp, hpool]; grind
      have hnotin : t ∉ pendC s.c ++ s.queue := by
        have hnd' := hnd
        simp only [tokens, hpool, holdP, hp] at hnd'
        intro hmem
        rcases List.mem_append.mp hmem with hm | hm
        · cases hc : s.c <;> simp [hc, pendC] at hm
          subst hm
          simp [hc, holdC] at hnd'
        · simp at hnd'
          grind
      refine ⟨hperm.nodup_iff.mpr hnd, by rw [hperm.length_eq]; exact hcnt, fun x hx => hfr x (hperm.mem_iff.mp hx), ?_,
        ?_, ?_, hdone, hex, ?_, hP, hqc⟩
      · simp only [seqRest, hp] at hseq
        simp only [seqRest, vfile, pendP]
        rw [foldl_update_notin proc s.cfg s.mem t none _ hnotin]
        simpa [vfile, pendP, hp] using hseq
      · simpa [isClosing, hp] using hcl
      · intro ha; simp [hact] at ha
      · intro m' t' h; cases h
  · -- closingPut k t a
    rename_i k t a hp
    split at h
    · rename_i hlen
      injection h with h; subst h
      have hact : s.active = true := by
        cases ha : s.active with
        | true => rfl
        | false => have := (hina ha).1; simp [hp, isIdleFin] at this
      by_cases hk : k + 1 < s.P
      · simp only [hk, if_true]
        have hperm : (tokens ({ s with pool := s.pool ++ [t], p := .closing (k + 1) a } : St M σ κ)).Perm (tokens s) := by
          simp only [tokens, holdP, hp]; grind
        refine ⟨hperm.nodup_iff.mpr hnd, by rw [hperm.length_eq]; exact hcnt, fun x hx => hfr x (hperm.mem_iff.mp hx), ?_,
          ?_, ?_, hdone, hex, ?_, hP, hqc⟩
        · simp only [seqRest, hp] at hseq
          simpa [seqRest, vfile, pendP, hp] using hseq
        · simpa [isClosing, hp] using hcl
        · intro ha; simp [hact] at ha
        · intro m' t' h; cases h
      · simp only [hk, if_false]
        have hperm : (tokens ({ s with pool := s.pool ++ [t], p := .closeWait a } : St M σ κ)).Perm (tokens s) := by
          simp only [tokens, holdP, hp]; grind
        refine ⟨hperm.nodup_iff.mpr hnd, by rw [hperm.length_eq]; exact hcnt, fun x hx => hfr x (hperm.mem_iff.mp hx), ?_,
          ?_, ?_, hdone, hex, ?_, hP, hqc⟩
        · simp only [seqRest, hp] at hseq
          simpa [seqRest, vfile, pendP, hp] using hseq
        · simpa [isClosing, hp] using hcl
        · intro ha; simp [hact] at ha
        · intro m' t' h; cases h
    · cases h
  · -- closeWait a
    rename_i a hp
    split at h
    · rename_i hd
      injection h with h; subst h
      have hc := hdone.mp hd
      obtain ⟨hclosed, hq⟩ := hex hc
      apply inv_finishClose proc init a
      · simpa [tokens, holdP, holdC, hp, hc, hq] using hnd
      · simpa [tokens, holdP, holdC, hp, hc, hq] using hcnt
      · simpa [tokens, holdP, holdC, hp, hc, hq] using hfr
      · exact hc
      · exact hq
      · exact hclosed
      · exact hd
      · simp only [seqRest, hp] at hseq
        simpa [vfile, pendP, pendC, hp, hc, hq] using hseq
      · exact hP
    · cases h
  · cases h




/-- the invariant holds in every reachable state: every initial buffer size (0 included), every script (every `Reset` size,
0 included), every interleaving -/
theorem inv_reachable {N : Nat} {k0 : κ} {script : List (Cmd M κ)} {s : St M σ κ}
    (hr : Reachable proc init N k0 script s) : Inv proc init (seqRun proc init k0 true init script) s := by
  induction hr with
  | init => exact inv_init proc init N k0 script
  | step _ hstep ih =>
    rcases hstep with h | h
    · exact inv_stepP proc init ih h
    · exact inv_stepC proc init ih h

/-- deadlock freedom: in a state satisfying the invariant, if the producer has not finished, somebody can move -/
theorem progress {R : List σ} {s : St M σ κ} (inv : Inv proc init R s) (hfin : isFin s.p = false) :
    (stepP init s).isSome = true ∨ (stepC proc s).isSome = true := by
  obtain ⟨hnd, hcnt, hfr, hseq, hcl, hina, hdone, hex, hsm, hP, hqc⟩ := inv
  have hlen : s.pool.length + s.queue.length + (holdP s.p).length + (holdC s.c).length = s.P := by
    simpa [tokens, Nat.add_assoc] using hcnt
  have hP1 : 1 ≤ s.P := by rw [hP]; unfold poolSize; omega
  cases hc : s.c with
  | proc t => right; simp [stepC, hc]
  | ret t =>
    right
    have : s.pool.length < s.P := by simp [hc, holdC] at hlen; omega
    simp [stepC, hc, this]
  | recv =>
    cases hq : s.queue with
    | cons t q => right; simp [stepC, hc, hq]
    | nil =>
      by_cases hclosed : s.closed = true
      · right; simp [stepC, hc, hq, hclosed]
      · left
        have hnc : isClosing s.p = false ∧ s.active = true := by
          have := mt hcl.mpr hclosed
          simp at this
          exact this
        cases hp : s.p with
        | idle => cases hs : s.script with
          | nil => simp [stepP, hp, hs]
          | cons c cs => cases c <;> simp [stepP, hp, hs]
        | onTake m =>
          have : s.pool.length = s.P := by simp [hc, hp, hq, holdP, holdC] at hlen; omega
          cases hpool : s.pool with
          | nil => rw [hpool] at this; simp at this; omega
          | cons t pool' => simp [stepP, hp, hpool]
        | onSend m t =>
          -- the worker is waiting in `range l.mesgc`: a buffered channel has room (it is empty), an unbuffered one
          -- has its receiver ready
          by_cases hN0 : s.N = 0
          · simp [stepP, hp, hq, hN0, hc]
          · have : s.queue.length < s.N := by rw [hq]; simp; omega
            simp [stepP, hp, this]
        | closing k a => simp [hp, isClosing] at hnc
        | closingPut k t a => simp [hp, isClosing] at hnc
        | closeWait a => simp [hp, isClosing] at hnc
        | fin => simp [hp, isFin] at hfin
  | exited =>
    obtain ⟨hclosed, hq⟩ := hex hc
    have hd := hdone.mpr hc
    left
    cases hp : s.p with
    | idle => cases hs : s.script with
      | nil => simp [stepP, hp, hs]
      | cons c cs => cases c <;> simp [stepP, hp, hs]
    | onTake m =>
      have := hcl.mp hclosed
      rcases this with h | h
      · simp [hp, isClosing] at h
      · have := (hina h).1; simp [hp, isIdleFin] at this
    | onSend m t =>
      have := hcl.mp hclosed
      rcases this with h | h
      · simp [hp, isClosing] at h
      · have := (hina h).1; simp [hp, isIdleFin] at this
    | closing k a =>
      have : s.pool.length = s.P := by simp [hc, hp, hq, holdP, holdC] at hlen; omega
      cases hpool : s.pool with
      | nil => rw [hpool] at this; simp at this; omega
      | cons t pool' => simp [stepP, hp, hpool]
    | closingPut k t a =>
      have : s.pool.length < s.P := by simp [hc, hp, hq, holdP, holdC] at hlen; omega
      simp [stepP, hp, this]
    | closeWait a => simp [stepP, hp, hd]
    | fin => simp [hp, isFin] at hfin

/-- when the producer has made all its calls, the results are the specification's -/
theorem final_results {R : List σ} {s : St M σ κ} (inv : Inv proc init R s) (hfin : isFin s.p = true) : s.results = R := by
  have := inv.seq
  cases hp : s.p <;> simp [hp, isFin] at hfin
  simpa [seqRest, hp] using this

/-- a listener that is not active (after `File`/`Close`) has its worker gone, an empty queue and ALL its slices back in
the pool; the `OnMesg` that re-activates it starts from an empty file cell -/
theorem no_carry_over {R : List σ} {s : St M σ κ} (inv : Inv proc init R s) (ha : s.active = false) :
    s.c = .exited ∧ s.queue = [] ∧ s.pool.length = s.P ∧ s.pool.Nodup ∧
    ∀ m cs s', s.script = .onMesg m :: cs → stepP init s = some s' → s'.file = init ∧ s'.queue = [] ∧ s'.pool = s.pool := by
  obtain ⟨hidle, hc⟩ := inv.inactive ha
  obtain ⟨_, hq⟩ := inv.exited hc
  have hp : holdP s.p = [] := by cases hp : s.p <;> simp [hp, isIdleFin] at hidle <;> rfl
  have hcnt := inv.count
  have hnd := inv.nodup
  simp only [tokens, hq, hp, hc, holdC, List.append_nil] at hcnt hnd
  refine ⟨hc, hq, hcnt, hnd, ?_⟩
  intro m cs s' hs hstep
  cases hpp : s.p <;> simp [hpp, isIdleFin] at hidle
  · simp only [stepP, hpp, hs, ha, Bool.false_eq_true, if_false, Option.some.injEq] at hstep
    subst hstep
    simp [respawn]
  · simp [stepP, hpp] at hstep




/-- the driver's scheduler-driven run only follows transitions -/
theorem run_reachable {N : Nat} {k0 : κ} {script : List (Cmd M κ)} (pick : Nat → Bool) (fuel : Nat) :
    ∀ (i : Nat) (s : St M σ κ), Reachable proc init N k0 script s → Reachable proc init N k0 script (run proc init pick fuel i s) := by
  induction fuel with
  | zero => intro i s h; exact h
  | succ fuel ih =>
    intro i s h
    unfold run
    by_cases hp : pick i = true
    · simp only [hp, if_true]
      cases h1 : stepP init s with
      | some s' => exact ih _ _ (Reachable.step h (Or.inl h1))
      | none =>
        cases h2 : stepC proc s with
        | some s' => exact ih _ _ (Reachable.step h (Or.inr h2))
        | none => exact h
    · simp only [hp, Bool.false_eq_true, if_false]
      cases h1 : stepC proc s with
      | some s' => exact ih _ _ (Reachable.step h (Or.inr h1))
      | none =>
        cases h2 : stepP init s with
        | some s' => exact ih _ _ (Reachable.step h (Or.inl h2))
        | none => exact h

/-- follow a fixed schedule (`true` = producer) -/
def runSched : List Bool → St M σ κ → Option (St M σ κ)
  | [], s => some s
  | b :: bs, s => (if b then stepP init s else stepC proc s).bind (runSched bs)

theorem reachable_runSched {N : Nat} {k0 : κ} {script : List (Cmd M κ)} (l : List Bool) :
    ∀ (s s' : St M σ κ), Reachable proc init N k0 script s → runSched proc init l s = some s' → Reachable proc init N k0 script s' := by
  induction l with
  | nil => intro s s' h e; simp [runSched] at e; subst e; exact h
  | cons b bs ih =>
    intro s s' h e
    simp only [runSched] at e
    cases b with
    | true =>
      simp only [if_true] at e
      cases h1 : stepP init s with
      | none => rw [h1] at e; simp at e
      | some s1 => rw [h1] at e; exact ih s1 s' (Reachable.step h (Or.inl h1)) e
    | false =>
      simp only [Bool.false_eq_true, if_false] at e
      cases h1 : stepC proc s with
      | none => rw [h1] at e; simp at e
      | some s1 => rw [h1] at e; exact ih s1 s' (Reachable.step h (Or.inr h1)) e

/-- with an unbuffered message channel (buffer size 0) nothing is ever queued: every message goes from `OnMesg` straight into
the worker's hands -/
theorem unbuffered_queue_empty {R : List σ} {s : St M σ κ} (inv : Inv proc init R s) (h0 : s.N = 0) : s.queue = [] := by
  have := inv.qcap
  rw [h0] at this
  exact List.eq_nil_of_length_eq_zero (by omega)

/-- **Buffer size 0 works** (the former witness of known finding KF-C14-1): `NewListener(WithChannelBuffer(0))`, one
message, `File()` — a run exists in which the producer finishes (the schedule below: OnMesg enters, takes the one pooled
slice, hands it over; the worker processes and returns it; File closes, cycles the slice, the worker exits, File returns),
and it yields the file of the message. -/
theorem buffer0_completes (k0 : κ) (m : M) :
    ∃ s : St M σ κ, Reachable proc init 0 k0 [.onMesg m, .file] s ∧ isFin s.p = true ∧ s.results = [proc k0 init m] := by
  refine ⟨_, reachable_runSched proc init [true, true, true, false, false, true, true, true, false, true, true] _ _ Reachable.init rfl, rfl, rfl⟩

/-- the same after `Reset(WithChannelBuffer(0))` of a listener that worked with buffer size 2 (the pool shrinks to one slice),
and back: `Reset(WithChannelBuffer(2))` afterwards grows it again -/
theorem buffer0_after_reset_completes (k0 k1 k2 : κ) (m m' : M) :
    ∃ s : St M σ κ, Reachable proc init 2 k0 [.reset 0 k1, .onMesg m, .file, .reset 2 k2, .onMesg m', .file] s ∧ isFin s.p = true ∧
      s.results = [proc k1 init m, proc k2 init m'] ∧ s.P = 2 ∧ s.pool.length = 2 := by
  refine ⟨_, reachable_runSched proc init
    [true, true, true, true, true, false, true,          -- Reset(0): close, cycle both slices, worker exits, new pool of 1
     true, true, true, false, false,                      -- OnMesg m (rendezvous), worker processes and returns the slice
     true, true, true, false, true,                       -- File
     true,                                                -- Reset(2): inactive, so straight to the new pool of 2
     true, true, true, false, false, false,               -- OnMesg m' (queued), worker receives, processes, returns
     true, true, true, true, true, false, true, true] _ _ Reachable.init rfl, rfl, rfl, rfl, rfl⟩

theorem seqRun_onMesgs (k : κ) (msgs : List M) (rest : List (Cmd M κ)) (f : σ) :
    seqRun proc init k true f (msgs.map .onMesg ++ rest) = seqRun proc init k true (msgs.foldl (proc k) f) rest := by
  induction msgs generalizing f with
  | nil => rfl
  | cons m ms ih => simp only [List.map_cons, List.cons_append, seqRun, if_true, List.foldl_cons]; exact ih _

end

open Fit.FileDef in
theorem foldl_processMesg (fs : FileSets) (T : FileDef.FileType) (rest : List Msg) (h : ∀ m ∈ rest, m.num ≠ Generated.mesgNumFileId) (f : FileDef.File) :
    rest.foldl (processMesg fs) (some (T, f)) = some (T, rest.foldl (add T) f) := by
  induction rest generalizing f with
  | nil => rfl
  | cons m ms ih =>
    have hm : m.num ≠ Generated.mesgNumFileId := h m List.mem_cons_self
    simp only [List.foldl_cons, processMesg, hm, if_false]
    exact ih (fun x hx => h x (List.mem_cons_of_mem _ hx)) _

end Fit.ListenerK
