import FitProps.LinkLemmasHist
import FitProps.C07
/-!
# Link (C) ↔ (D'): histories of API calls

(C) `FitModel/DecoderApi.lean` — `DecApi.run`, the object of C03 / C07 (value level, exact-n reader built in);
(D') `FitModel/DecHist.lean` — `DecHist.history`, a history of calls as ONE program over the read buffer, the object of
`C08_chunk_indep_ops` (framing level).

`Link_dechist_eq_api_partial`: for every list of `Decode`, `DecodeWithContext` (context live or cancelled before the call),
`PeekFileHeader`, `Discard`, `Next`, then possibly one `CheckIntegrity`, the per-call results of (D') on the exact-n reader ARE those of (C) on the same bytes, in the
common observable `LinkH.Tok`. The full statement
(`Link_dechist_eq_api_statement`, every call of (D')'s alphabet) is kept as a `def`: see notes/links.md for what is missing.
`Link_dechist_values_partial`: the FITs with all VALUES and the listener calls of the successful `Decode` calls are `apiOf`'s
reconstruction of (D')'s events. Corollaries: C07's conclusion and chunk independence of what (C) returns — values included — over
ANY clean fragmentation and buffer size.
-/
namespace Fit.Links
open Fit.DecApi Fit.Link Fit.LinkH Fit.ReadBuffer

/-- **the full statement** (not proved for the whole alphabet): every call list of (D')'s alphabet — `Decode`,
`DecodeWithContext` (live, cancelled, cancelled after `k` records), `PeekFileHeader`, `PeekFileId`, `Discard`, `Next`,
`CheckIntegrity` —, every option set, every byte stream of the common domain of `Link_decprog_eq_api`: the per-call results of
(D')'s history program on the exact-n reader are the results of (C)'s `run` on the same bytes, call by call, in the common
observable — for as many calls as the program executes (it ends with the first `CheckIntegrity` reached by a live decoder:
the reader has to be re-seeked then) -/
def Link_dechist_eq_api_statement : Prop :=
  ∀ (o : Opts) (bs : List Nat) (ops : List DecHist.Op) (fuelCi : Nat), bs.length < fuelCi → DecApi.IsBytes bs →
    bs.length < 4294967296 → FacOK o.fac → facBtOK o.fac = true → facFdOK o.fac = true →
    ∃ n, n ≤ ops.length ∧ (DecHist.Op.checkIntegrity ∉ ops → n = ops.length) ∧
      (runExact (DecHist.history o.chk fuelCi ops) bs).res.map tokH = (toksC (Api.fresh o bs) (ops.map apiOp)).take n

/-- **(C) = (D') call by call.** For every list of `Decode`, `DecodeWithContext` (context live, or cancelled before the call),
`PeekFileHeader`, `Discard` and `Next`, possibly followed by one `CheckIntegrity` (`linkedL`: the alphabet of (D') without
`PeekFileId` and `DecodeWithContext` cancelled while it runs; (D')'s program ends with `CheckIntegrity` — the reader has to be
re-seeked —, `fuelCi`, the bound on the sequences it walks, exceeds the stream length), every option set and every byte stream in the common domain of `Link_decprog_eq_api` (bytes < 256,
below 4 GiB, `FacOK`, `facBtOK`, `facFdOK`): what each call returns in (D')'s history program run on the exact-n reader — FIT
header and file CRC, file header, nil, `Next`'s bool, the verdict and count of `CheckIntegrity`, error class, and the sticky
answers once the decoder is dead — is what the
same call returns in (C)'s `run` on the same bytes. By the state correspondence `LinkH.Rel` carried through every call
(`LinkH.run_link`): remaining stream, sticky error, the `sync.Once` and its header, position in the sequence, running checksum,
`d.n ≠ 0`, empty definition / description tables and accumulator at a sequence boundary, and (D')'s events being those of the
completed `Decode` calls; inside `Decode` the record loop is `messages_link` transferred to `DecHist.messages`
(`LinkH.messagesH_link`). -/
theorem Link_dechist_eq_api_partial (o : Opts) (bs : List Nat) (ops : List DecHist.Op) (fuelCi : Nat) (hb : DecApi.IsBytes bs)
    (hlen : bs.length < 4294967296) (hfac : FacOK o.fac) (hbt : facBtOK o.fac = true) (hfd : facFdOK o.fac = true)
    (hfu : bs.length < fuelCi) (hops : linkedL ops = true) :
    (runExact (DecHist.history o.chk fuelCi ops) bs).res.map tokH = toksC (Api.fresh o bs) (ops.map apiOp) := by
  have := (run_link o hfac hbt hfd fuelCi ops [] { chk := o.chk } (Api.fresh o bs) (Rel.new o fuelCi bs hb hlen hfu) hops).1
  rw [show (Api.fresh o bs).d.rest = bs from rfl] at this
  simpa [DecHist.history] using this

/-- **… and the VALUES.** Same hypotheses: the FITs that (C)'s successful `Decode` / `DecodeWithContext` calls of the history
return — header, every message with every decoded VALUE, developer fields, expanded components, CRC — and the listener calls made
during each of them (reserved byte of definitions zeroed) are exactly what `apiOf`'s reconstruction (`iStep`, (C)'s own
value-level functions applied to the bytes the events carry) rebuilds from the events of (D')'s history program on the exact-n
reader: one entry per completed sequence, in order (`foldDone`). So the values a history returns are a function of (D')'s
observation — the object of `C08_chunk_indep_ops`. -/
theorem Link_dechist_values_partial (o : Opts) (bs : List Nat) (ops : List DecHist.Op) (fuelCi : Nat) (hb : DecApi.IsBytes bs)
    (hlen : bs.length < 4294967296) (hfac : FacOK o.fac) (hbt : facBtOK o.fac = true) (hfd : facFdOK o.fac = true)
    (hfu : bs.length < fuelCi) (hops : linkedL ops = true) :
    foldDone o (runExact (DecHist.history o.chk fuelCi ops) bs).evs = fitsC (Api.fresh o bs) (ops.map apiOp) := by
  have := (run_link o hfac hbt hfd fuelCi ops [] { chk := o.chk } (Api.fresh o bs) (Rel.new o fuelCi bs hb hlen hfu) hops).2
  rw [show (Api.fresh o bs).d.rest = bs from rfl] at this
  simpa [DecHist.history] using this

/-- **CHUNK INDEPENDENCE OF WHAT THE API RETURNS — VALUES INCLUDED —, for every linked history (C08 ∘ link).** Whatever clean
schedule delivers the stream, whatever the buffer size and the previous state of the buffer: the history program over the
read buffer does not panic, every call returns what (C)'s `run` returns on the bytes, and the FITs with all decoded values and the
listener calls of (C)'s successful `Decode` calls are what `apiOf`'s reconstruction gives on the events of that run. -/
theorem Link_C08_ops_values_partial (o : Opts) (ops : List DecHist.Op) (fuelCi : Nat) (b : RB) (s : Sched) (size : Int)
    (hs : Clean s) (hb : ReadBuffer.IsBytes (bytesOf s)) (hlen : (bytesOf s).length < 4294967296) (hfac : FacOK o.fac)
    (hbt : facBtOK o.fac = true) (hfd : facFdOK o.fac = true) (hfu : (bytesOf s).length < fuelCi) (hops : linkedL ops = true) :
    ∃ out, runRB (DecHist.history o.chk fuelCi ops) (b.reset s size) = .done out ∧
      out.res.map tokH = toksC (Api.fresh o (bytesOf s)) (ops.map apiOp) ∧
      foldDone o out.evs = fitsC (Api.fresh o (bytesOf s)) (ops.map apiOp) := by
  obtain ⟨out, e, m, _⟩ := runRB_refines DecHist.Out.merge _ (C08.C08_request_bound_ops o.chk fuelCi ops) _ _
    (reset_inv b s size) hs hb
  refine ⟨out, e, ?_, ?_⟩
  · rw [← tokH_merge_list, m, tokH_merge_list]
    exact Link_dechist_eq_api_partial o _ ops fuelCi hb hlen hfac hbt hfd hfu hops
  · have hev0 := congrArg DecHist.Out.evs m
    have hev : out.evs = (runExact (DecHist.history o.chk fuelCi ops) (bytesOf s)).evs := hev0  -- `merge` keeps the events
    rw [hev]
    exact Link_dechist_values_partial o _ ops fuelCi hb hlen hfac hbt hfd hfu hops

/-- … hence any two clean fragmentations, buffer sizes and previous buffer states give the same per-call results -/
theorem Link_C08_ops_values_partial_two (o : Opts) (ops : List DecHist.Op) (fuelCi : Nat) (b₁ b₂ : RB) (s₁ s₂ : Sched)
    (size₁ size₂ : Int) (h₁ : Clean s₁) (h₂ : Clean s₂) (hb : ReadBuffer.IsBytes (bytesOf s₁)) (heq : bytesOf s₁ = bytesOf s₂)
    (hlen : (bytesOf s₁).length < 4294967296) (hfac : FacOK o.fac) (hbt : facBtOK o.fac = true) (hfd : facFdOK o.fac = true)
    (hfu : (bytesOf s₁).length < fuelCi) (hops : linkedL ops = true) :
    ∃ o₁ o₂, runRB (DecHist.history o.chk fuelCi ops) (b₁.reset s₁ size₁) = .done o₁ ∧
      runRB (DecHist.history o.chk fuelCi ops) (b₂.reset s₂ size₂) = .done o₂ ∧ o₁.res.map tokH = o₂.res.map tokH ∧
      foldDone o o₁.evs = foldDone o o₂.evs := by
  obtain ⟨o₁, e₁, m₁⟩ := Link_C08_ops_values_partial o ops fuelCi b₁ s₁ size₁ h₁ hb hlen hfac hbt hfd hfu hops
  obtain ⟨o₂, e₂, m₂⟩ := Link_C08_ops_values_partial o ops fuelCi b₂ s₂ size₂ h₂ (heq ▸ hb) (heq ▸ hlen) hfac hbt hfd (heq ▸ hfu) hops
  exact ⟨o₁, o₂, e₁, e₂, by rw [m₁.1, m₂.1, heq], by rw [m₁.2, m₂.2, heq]⟩

theorem apiOp_small (ops : List DecHist.Op) : ∀ op ∈ ops.map apiOp, OpSmall op := by
  intro op hop
  obtain ⟨x, _, rfl⟩ := List.mem_map.mp hop
  cases x <;> trivial

/-- **C07 OVER ANY READER (C07 ∘ C08 ∘ link).** History independence as the decoder over the read buffer shows it: for every
history of `Decode` / `DecodeWithContext` (live or cancelled before the call) / `PeekFileHeader` / `Discard` / `Next` outside the
class of KF-C07-4, every clean fragmentation of the stream, every buffer size and previous buffer state, the history program ends
without panic and every call returns (as a token) what C07's specification — new decoders only — demands of it; and the FITs
with all their values that the reconstruction `apiOf` rebuilds from that run's events (`foldDone`) are those of (C)'s successful
`Decode` calls (`fitsC`: a sub-list of the run whose every entry the specification demands — second conjunct, C07's `Agree`). -/
theorem Link_C07_any_reader_partial (o : Opts) (ops : List DecHist.Op) (fuelCi : Nat) (b : RB) (s : Sched) (size : Int)
    (hs : Clean s) (hsm : Small (bytesOf s)) (hf : FacOK o.fac) (hbt : facBtOK o.fac = true) (hfd : facFdOK o.fac = true)
    (hno : C07.NoOverrun o (bytesOf s) (ops.map apiOp)) (hfu : (bytesOf s).length < fuelCi) (hops : linkedL ops = true) :
    ∃ out, runRB (DecHist.history o.chk fuelCi ops) (b.reset s size) = .done out ∧
      (∀ p ∈ (out.res.map tokH).zip (specRun (Spec.fresh o (bytesOf s)) (ops.map apiOp)), ∀ r, p.2 = some r → p.1 = tokC r.1) ∧
      (∀ p ∈ (DecApi.run (Api.fresh o (bytesOf s)) (ops.map apiOp)).zip (specRun (Spec.fresh o (bytesOf s)) (ops.map apiOp)),
        ∀ r, p.2 = some r → p.1 = r) ∧
      foldDone o out.evs = fitsC (Api.fresh o (bytesOf s)) (ops.map apiOp) := by
  obtain ⟨out, e, m, mv⟩ := Link_C08_ops_values_partial o ops fuelCi b s size hs hsm.1 hsm.2 hf hbt hfd hfu hops
  refine ⟨out, e, ?_, C07.C07_history_indep_partial o (bytesOf s) (ops.map apiOp) hsm hf (apiOp_small ops) hno, mv⟩
  have hag := C07.C07_history_indep_partial o (bytesOf s) (ops.map apiOp) hsm hf (apiOp_small ops) hno
  rw [m]
  intro p hp r hr
  unfold toksC at hp
  rw [List.zip_map_left] at hp
  obtain ⟨q, hq, rfl⟩ := List.mem_map.mp hp
  have := hag q hq r hr
  show tokC q.1.1 = tokC r.1
  rw [this]

/-- non-vacuity: the history PeekFileHeader, Next, Decode, Next, Decode on C04's sample file (one sequence, two messages) with the
standard factory lies in the linked alphabet and returns header, true, the FIT, false, end of stream — in both models -/
example : (runExact (DecHist.history true 3 [.peekHeader, .next, .decode, .next, .decode]) C04.sampleFit).res.map tokH =
      toksC (Api.fresh { fac := stdFactory } C04.sampleFit) [.peekHeader, .next, .decode, .next, .decode] ∧
    ((toksC (Api.fresh { fac := stdFactory } C04.sampleFit) [.peekHeader, .next, .decode, .next, .decode]).map fun t =>
      match t with | .fit _ _ => 1 | .bool true => 2 | .bool false => 3 | .err .eof => 4 | .header _ => 5 | _ => 0) = [5, 2, 1, 3, 4] := by
  decide +kernel

/-- non-vacuity with a final `CheckIntegrity` after a peek: one valid sequence -/
example : linkedL [.peekHeader, .next, .checkIntegrity] = true ∧
    (runExact (DecHist.history true 47 [.peekHeader, .next, .checkIntegrity]) C04.sampleFit).res.map tokH =
      toksC (Api.fresh {} C04.sampleFit) [.peekHeader, .next, .checkIntegrity] ∧
    (toksC (Api.fresh {} C04.sampleFit) [.peekHeader, .next, .checkIntegrity]).drop 1 = [.bool true, .integrity 1 none] := by
  decide +kernel

/-- … and the values: one FIT with two messages, rebuilt from (D')'s events -/
example : foldDone { fac := stdFactory } (runExact (DecHist.history true 3 [.peekHeader, .next, .decode, .next, .decode]) C04.sampleFit).evs =
      fitsC (Api.fresh { fac := stdFactory } C04.sampleFit) [.peekHeader, .next, .decode, .next, .decode] ∧
    ((fitsC (Api.fresh { fac := stdFactory } C04.sampleFit) [.peekHeader, .next, .decode, .next, .decode]).map fun p =>
      match p.1 with | .fit f => f.msgs.length | _ => 0) = [2] := by
  decide +kernel

end Fit.Links
