import FitProps.EndToEndItemsLemmas
/-!
The timestamp of a compressed-timestamp record is in front EXACTLY where the encoder compressed it (audit C01-5): the
wire-level round trip restated with the encoder's decision (`tsDecision`), and the interpretation of the items as
`Fit.E2E.seqBack` (deterministic) instead of "one of the allowed forms". `encodeMsg_step_exact` /
`encodeMsgs_roundtripF_exact` repeat the proofs of `encodeMsg_step` / `encodeMsgs_roundtripF` (FitProps/WireLemmas.lean) with
one more conjunct.
-/
set_option linter.unusedSimpArgs false
set_option linter.unusedVariables false
namespace Fit.Wire

/-- what `encodeMsg` decides about the timestamp of `m`: new reference, new last timestamp, the offset when compressed -/
def tsDecision (o : Opts) (tsRef tsLast : Nat) (m : WMsg) : Nat × Nat × Option Nat :=
  if o.compress then compressTs o.arch tsRef tsLast m else (tsRef, tsLast, none)

theorem encodeMsg_ts (o : Opts) (e : EncState) (m : WMsg) :
    (encodeMsg o e m).1.tsRef = (tsDecision o e.tsRef e.tsLast m).1 ∧ (encodeMsg o e m).1.tsLast = (tsDecision o e.tsRef e.tsLast m).2.1 := by
  simp [encodeMsg, tsDecision]

theorem encodeMsg_step_exact (tsKnown : Nat → Bool) (o : Opts) (ha : o.arch = 0 ∨ o.arch = 1)
    (e : EncState) (d : DecState) (m : WMsg) (hm : MsgOK m)
    (hcap : o.compress = true → e.lru.cap ≤ 4)
    (inv : DefInv o.arch e.lru d)
    (hts : o.compress = true → LastInv e.tsLast d)
    (tail : Bytes) :
    ∃ d' rec k pre,
      RecMatches o.arch m rec ∧ rec.ts.isSome = (tsDecision o e.tsRef e.tsLast m).2.2.isSome ∧
      DefInv o.arch (encodeMsg o e m).1.lru d' ∧
      (encodeMsg o e m).1.lru.cap = e.lru.cap ∧
      (o.compress = true → LastInv (encodeMsg o e m).1.tsLast d') ∧
      k ≤ (encodeMsg o e m).2.length ∧ dataOf pre = [rec] ∧
      ∀ fuel remaining,
        decodeRecordsF tsKnown (fuel + k) d ((encodeMsg o e m).2.length + remaining) ((encodeMsg o e m).2 ++ tail) =
          (pre ++ (decodeRecordsF tsKnown fuel d' remaining tail).1, (decodeRecordsF tsKnown fuel d' remaining tail).2) := by
  -- the uncompressed emission, shared by several cases
  have plain :
      ∃ d1, d1.timestamp = d.timestamp ∧ d1.lastOff = d.lastOff ∧
        let p := e.lru.put (defBytes o.arch m)
        let out := (if p.2.2 then defRecord o.arch p.2.1 m else []) ++ (p.2.1 :: payload m)
        let d' := trackTs (tsKnown m.num) o.arch d1 (recFieldsOf m)
        DefInv o.arch p.1 d' ∧ p.1.cap = e.lru.cap ∧
        ∃ k pre, k ≤ out.length ∧ dataOf pre = [⟨p.2.1, m.num, o.arch, none, recFieldsOf m, recDevsOf m⟩] ∧
          ∀ fuel remaining, decodeRecordsF tsKnown (fuel + k) d (out.length + remaining) (out ++ tail) =
            (pre ++ (decodeRecordsF tsKnown fuel d' remaining tail).1, (decodeRecordsF tsKnown fuel d' remaining tail).2) := by
    obtain ⟨d1, _, h2, h3, h4, h5, h6, k, pre, _, hk, hpre, hdec⟩ :=
      emit_step tsKnown o.arch ha e.lru d m hm inv (fun i => i) tail
        (fun i _ => ⟨i, m.num, o.arch, none, recFieldsOf m, recDevsOf m⟩)
        (fun _ s => trackTs (tsKnown m.num) o.arch s (recFieldsOf m))
        (fun i s hi hl => decodeRecord_data tsKnown s o.arch i m tail (by have := inv.cap16; omega) hm hl)
        (fun _ s => trackTs_defs _ _ _ s)
    exact ⟨d1, h2, h3, h4, h5, k, pre, hk, hpre, hdec⟩
  by_cases hc : o.compress = true
  · have linv := hts hc
    rcases compressTs_cases o.arch e.tsRef e.tsLast m with ⟨r', hct⟩ | ⟨hct, hne, hmin, hnear⟩
    · -- written with a normal header (no timestamp, unsupported one, below the minimum, or a roll-over)
      obtain ⟨d1, t1, t2, hI, hC, k, pre, hk, hpre, hdec⟩ := plain
      refine ⟨(trackTs (tsKnown m.num) o.arch d1 (recFieldsOf m)), (⟨(e.lru.put (defBytes o.arch m)).2.1, m.num, o.arch, none, recFieldsOf m, recDevsOf m⟩ : WRec), k, pre, ⟨rfl, rfl, rfl, Or.inl ⟨rfl, rfl⟩⟩, (by simp [tsDecision, hc, hct]), ?_, ?_, ?_, (by simpa [encodeMsg, hc, hct] using hk), ?_, ?_⟩
      · simpa [encodeMsg, hc, hct] using hI
      · simpa [encodeMsg, hc, hct] using hC
      · intro _
        have hl1 : LastInv e.tsLast d1 := by
          rcases linv with h | ⟨h1, h2, h3⟩
          · exact Or.inl h
          · exact Or.inr ⟨by rw [t1]; exact h1, by rw [t2]; exact h2, h3⟩
        have := track_sim (tsKnown m.num) o.arch ha m.fields hm.bytes e.tsLast d1 hl1
        simpa [encodeMsg, hc, hct, recFieldsOf] using this
      · simpa [encodeMsg, hc, hct] using hpre
      · simpa [encodeMsg, hc, hct] using hdec
    · -- compressed: the timestamp travels in the record header
      obtain ⟨pre, f, post, hf, hpre, hnum, hclean⟩ := encTsOf_split o.arch m hne
      generalize hv : encTsOf o.arch m = v at *
      have hfb : ∀ b ∈ f.data, b < 256 := hm.bytes f (by rw [hf]; simp)
      obtain ⟨htag, hu32, hv32, _⟩ := cleanTs_some (tsKnown m.num) o.arch ha f v hnum hfb hclean
      have hval : tsOf o.arch m = v := tsOf_ts o.arch m pre post f v hf hpre hnum htag hu32
      have hmin' : 268435456 ≤ v := by simpa [dateTimeMin] using hmin
      have hne' : v ≠ u32Invalid := hne
      -- the encoder knows the decoder's timestamp (0 = "unknown" is never within 32 s of a valid timestamp)
      obtain ⟨hdts, hdoff, hl32⟩ : d.timestamp = e.tsLast ∧ d.lastOff = e.tsLast % 32 ∧ e.tsLast < 4294967296 := by
        rcases linv with h | h
        · rw [h] at hnear; omega
        · exact h
      have hrm : removeFirst tsFieldNum m.fields = pre ++ post := by
        rw [hf]; exact removeFirst_ts pre post f hpre hnum
      let m' : WMsg := { m with fields := removeFirst tsFieldNum m.fields }
      have hm' : MsgOK m' := hm.removeTs _ (by
        intro g hg; rw [hrm] at hg; rw [hf]
        rcases List.mem_append.mp hg with h | h
        · exact List.mem_append_left _ h
        · exact List.mem_append_right _ (List.mem_cons_of_mem _ h)) (by rw [hrm, hf]; simp)
      have hcap4 := hcap hc
      obtain ⟨d1, _, t1, t2, hI, hC, hicap, k, pre', _, hk, hpre', hdec⟩ :=
        emit_step tsKnown o.arch ha e.lru d m' hm' inv (fun i => (0x80 ||| (v % 32)) ||| ((i <<< 5) % 256)) tail
          (fun i s => ⟨(0x80 ||| (v % 32)) ||| ((i <<< 5) % 256), m'.num, o.arch,
              some (decompressHdr s ((0x80 ||| (v % 32)) ||| ((i <<< 5) % 256))).2, recFieldsOf m', recDevsOf m'⟩)
          (fun i s => trackTs (tsKnown m'.num) o.arch (decompressHdr s ((0x80 ||| (v % 32)) ||| ((i <<< 5) % 256))).1 (recFieldsOf m'))
          (fun i s hi hl => decodeRecord_cdata tsKnown s o.arch i (v % 32) m' tail (by omega) (Nat.mod_lt _ (by decide)) hm' hl)
          (fun _ s => by rw [trackTs_defs]; rfl)
      generalize hp : e.lru.put (defBytes o.arch m') = p at *
      obtain ⟨l', i, isNew⟩ := p
      dsimp only at hI hC hicap hpre' hdec hk
      have hi4 : i < 4 := by omega
      obtain ⟨_, _, _, hoff⟩ := compressed_hdr_bits i hi4 (v % 32) (Nat.mod_lt _ (by decide))
      -- the reconstructed timestamp is the original one
      have hrec : (decompressHdr d1 ((0x80 ||| (v % 32)) ||| ((i <<< 5) % 256))).2 = v := by
        simp only [decompressHdr, hoff, t1, t2, hdts, hdoff]
        omega
      have hst : (decompressHdr d1 ((0x80 ||| (v % 32)) ||| ((i <<< 5) % 256))).1 =
          { d1 with timestamp := v, lastOff := v % 32 } := by
        have := hrec
        simp only [decompressHdr, hoff] at this ⊢
        rw [this]
      have hem : encodeMsg o e m = ({ lru := l', tsRef := e.tsRef, tsLast := trackLast o.arch e.tsLast m.fields },
          (if isNew then defRecord o.arch i m' else []) ++ (((0x80 ||| (v % 32)) ||| ((i <<< 5) % 256)) :: payload m')) := by
        simp only [encodeMsg, hc, hct, if_true]
        show _ = _
        simp only [m'] at hp
        rw [hp]
      refine ⟨trackTs (tsKnown m'.num) o.arch (decompressHdr d1 ((0x80 ||| (v % 32)) ||| ((i <<< 5) % 256))).1 (recFieldsOf m'), _, k, pre', ?_, (by simp [tsDecision, hc, hct]), ?_, ?_, ?_, (by rw [hem]; exact hk), hpre', ?_⟩
      · exact ⟨rfl, rfl, rfl, Or.inr ⟨by rw [hrec, hval], by rw [hval]; exact hne', rfl⟩⟩
      · rw [hem]; exact hI
      · rw [hem]; exact hC
      · intro _
        rw [hem, hst]
        -- the remaining fields (further fields 253 included) are tracked by both sides from `v` on
        have hlast : trackLast o.arch e.tsLast m.fields = trackLast o.arch v post := by
          rw [hf, trackLast_append, trackLast_noTs _ _ _ hpre]
          simp [trackLast, hnum, tsFieldNum, hclean]
        have hfs : recFieldsOf m' = (pre.map fun f => ((⟨f.num, f.data.length % 256, f.bt⟩ : FieldDef), f.data)) ++
            (post.map fun f => ((⟨f.num, f.data.length % 256, f.bt⟩ : FieldDef), f.data)) := by
          show (removeFirst tsFieldNum m.fields).map _ = _
          rw [hrm, List.map_append]
        show LastInv (trackLast o.arch e.tsLast m.fields) _
        rw [hlast, hfs, trackTs_append, trackTs_fields_noTs _ _ _ hpre]
        exact track_sim (tsKnown m'.num) o.arch ha post
          (fun g hg => hm.bytes g (by rw [hf]; exact List.mem_append_right _ (List.mem_cons_of_mem _ hg)))
          v _ (Or.inr ⟨rfl, rfl, hv32⟩)
      · rw [hem]; exact hdec
  · -- normal headers only
    have hc' : o.compress = false := by simpa using hc
    obtain ⟨d1, t1, t2, hI, hC, k, pre, hk, hpre, hdec⟩ := plain
    refine ⟨(trackTs (tsKnown m.num) o.arch d1 (recFieldsOf m)), (⟨(e.lru.put (defBytes o.arch m)).2.1, m.num, o.arch, none, recFieldsOf m, recDevsOf m⟩ : WRec), k, pre, ⟨rfl, rfl, rfl, Or.inl ⟨rfl, rfl⟩⟩, (by simp [tsDecision, hc']), ?_, ?_, by intro h; exact absurd h hc, (by simpa [encodeMsg, hc'] using hk), ?_, ?_⟩
    · simpa [encodeMsg, hc'] using hI
    · simpa [encodeMsg, hc'] using hC
    · simpa [encodeMsg, hc'] using hpre
    · simpa [encodeMsg, hc'] using hdec


/-- the data records match the messages, each with its timestamp in the header EXACTLY when the encoder — whose two timestamps
are threaded — compressed it -/
def ExactAll (o : Opts) : Nat → Nat → List WMsg → List WRec → Prop
  | _, _, [], [] => True
  | r, l, m :: ms, rec :: recs =>
    RecMatches o.arch m rec ∧ rec.ts.isSome = (tsDecision o r l m).2.2.isSome ∧
      ExactAll o (tsDecision o r l m).1 (tsDecision o r l m).2.1 ms recs
  | _, _, _, _ => False

theorem encodeMsgs_roundtripF_exact (tsKnown : Nat → Bool) (o : Opts) (ha : o.arch = 0 ∨ o.arch = 1) (ms : List WMsg) :
    ∀ (e : EncState) (d : DecState), (∀ m ∈ ms, MsgOK m) → DefInv o.arch e.lru d →
      (o.compress = true → e.lru.cap ≤ 4) → (o.compress = true → LastInv e.tsLast d) →
      ∀ (tail : Bytes) (fuel : Nat), (encodeMsgs o e ms).length ≤ fuel →
      ∃ items, decodeRecordsF tsKnown fuel d (encodeMsgs o e ms).length (encodeMsgs o e ms ++ tail) = (items, .ok tail) ∧
        ExactAll o e.tsRef e.tsLast ms (dataOf items) := by
  induction ms with
  | nil =>
    intro e d _ _ _ _ tail fuel _
    exact ⟨[], by simp [encodeMsgs, decodeRecords_done], by simp [dataOf, ExactAll]⟩
  | cons m ms ih =>
    intro e d hok inv hcap hts tail fuel hfuel
    have hm := hok m (by simp)
    obtain ⟨d', rec, k, pre, hmatch, hex, inv', hcap', hts', hk, hpre, hdec⟩ :=
      encodeMsg_step_exact tsKnown o ha e d m hm hcap inv hts
        (encodeMsgs o (encodeMsg o e m).1 ms ++ tail)
    rw [encodeMsgs_cons] at hfuel ⊢
    simp only [List.length_append] at hfuel
    obtain ⟨items, hrest, hall⟩ := ih (encodeMsg o e m).1 d' (fun x hx => hok x (by simp [hx])) inv'
      (fun hc => by rw [hcap']; exact hcap hc) hts'
      tail (fuel - k) (by omega)
    refine ⟨pre ++ items, ?_, ?_⟩
    · have := hdec (fuel - k) (encodeMsgs o (encodeMsg o e m).1 ms).length
      rw [show fuel - k + k = fuel by omega] at this
      simp only [List.length_append, List.append_assoc]
      rw [this, hrest]
    · rw [dataOf_append, hpre]
      obtain ⟨t1, t2⟩ := encodeMsg_ts o e m
      rw [t1, t2] at hall
      exact ⟨hmatch, hex, hall⟩

theorem ExactAll.allMatch (o : Opts) : ∀ (ms : List WMsg) (recs : List WRec) (r l : Nat), ExactAll o r l ms recs →
    AllMatch (RecMatches o.arch) ms recs := by
  intro ms
  induction ms with
  | nil => intro recs r l h; cases recs with | nil => exact AllMatch.nil | cons _ _ => cases h
  | cons m ms ih =>
    intro recs r l h
    cases recs with
    | nil => cases h
    | cons rec recs => exact AllMatch.cons h.1 (ih recs _ _ h.2.2)

end Fit.Wire

namespace Fit.E2E
open Fit.Gen Fit.Gen.DecApi Fit.Value Fit.DecApi Fit.Crc Fit.Msg Fit.Wire

/-- `good_items` with the encoder's decisions: the messages the decoder-API model produces are `seqBack reread` of the
validated messages — each with its timestamp in front exactly when the encoder compressed it -/
theorem good_items_exact (fac : Factory) (hfac : facOKB fac = true) (w : Wire.Opts) : ∀ (items : List Wire.Item) (kept : List Message)
    (vst : Fit.Validator.State) (r l : Nat),
    ExactAll w r l (kept.map (toWire w.arch)) (dataOf items) →
    KeptOK vst kept → (∀ m ∈ kept, MsgDom fac m) →
    ∃ msgs, GoodItems fac (vst.fds.map cvDesc) items msgs ∧
      seqMatches reread true fac w.arch vst kept (msgs.map proj) = true ∧
      msgs.map proj = seqBack reread true fac w ⟨vst, r, l⟩ kept := by
  intro items
  induction items with
  | nil =>
    intro kept vst r l hm _ _
    cases kept with
    | nil => exact ⟨[], rfl, rfl, rfl⟩
    | cons k ks => simp only [List.map_cons, dataOf, List.filterMap_nil, ExactAll] at hm
  | cons it items ih =>
    intro kept vst r0 l0 hm hk hdom
    cases it with
    | def_ i d =>
      rw [dataOf_cons_def] at hm
      obtain ⟨msgs, h1, h2, h3⟩ := ih kept vst r0 l0 hm hk hdom
      exact ⟨msgs, h1, h2, h3⟩
    | data r =>
      rw [dataOf_cons_data] at hm
      cases kept with
      | nil => simp only [List.map_nil, ExactAll] at hm
      | cons km kms =>
        simp only [List.map_cons, ExactAll] at hm
        obtain ⟨hrec, hdecision, hrest⟩ := hm
        obtain ⟨hnum, harch, hdevs, hcase⟩ := hrec
        obtain ⟨_, _, hF, hD, hkrest⟩ := hk
        have hd := hdom km (by simp)
        have hnum' : r.num = km.num := hnum
        -- IH on the rest, under the validator's state after this message and the encoder's timestamps after it
        obtain ⟨msgs', g1, g2, g3⟩ := ih kms (Fit.Validator.remember vst km.num km.fields) _ _ hrest hkrest
          (fun m hm' => hdom m (List.mem_cons_of_mem _ hm'))
        -- the fields that travel in the record
        have key : ∀ (used : List Field) (pre : List DField), (used = km.fields ∨ used = removeTs km.fields) →
            r.fields = recOf w.arch used → (∀ d ∈ pre, d.num = 253 ∧ d.expanded = false) →
            (∀ rs, fieldsOfRec fac r rs = pre ++ rs.filterMap id) →
            ∃ msgs, GoodItems fac (vst.fds.map cvDesc) (.data r :: items) msgs ∧
              msgs.map proj = ⟨km.num, pre.map projF ++ used.filterMap (fieldBack reread true fac km.num),
                km.devFields.filterMap (devBack reread true (Fit.Validator.remember vst km.num km.fields).fds)⟩ :: msgs'.map proj := by
          intro used pre hused hfields hpre hts
          have hsub : ∀ f ∈ used, f ∈ km.fields := by
            rcases hused with h | h
            · rw [h]; exact fun f hf => hf
            · rw [h]; exact mem_removeTs km.fields
          obtain ⟨i1, i2⟩ := interp_fields fac hfac km.num w.arch used
            (fun f hf => ⟨hF f (hsub f hf), hd.wff f (hsub f hf), (hd.agree f (hsub f hf)).2⟩)
          have hfo : fieldsOfRec fac r (used.map (dfieldBack fac km.num)) = pre ++ used.filterMap (dfieldBack fac km.num) := by
            rw [hts, filterMap_map_id]
          have hdesc := desc_sync fac hfac km used pre (fun d hd' => (hpre d hd').1) hused hd.agree hd.plain vst
          have i3 := interp_devs w.arch (Fit.Validator.remember vst km.num km.fields).fds km.devFields
            (fun d hd' => ⟨hD d hd', hd.wfd d hd'⟩)
          refine ⟨⟨r.header, r.num, fieldsOfRec fac r (used.map (dfieldBack fac km.num)),
            (km.devFields.map (ddevBack (Fit.Validator.remember vst km.num km.fields).fds)).filterMap id⟩ :: msgs', ?_, ?_⟩
          · simp only [GoodItems]
            refine ⟨used.map (dfieldBack fac km.num), km.devFields.map (ddevBack (Fit.Validator.remember vst km.num km.fields).fds),
              msgs', ?_, ?_, ?_, rfl, ?_⟩
            · rw [hnum', harch, hfields]; exact i1
            · rw [hnum', harch, hfields]; exact i2
            · rw [hfo, hnum', hdesc, harch, hdevs, recDevsOf_toWire]; exact i3
            · rw [hfo, hnum', hdesc]; exact g1
          · simp only [List.map_cons]
            congr 1
            rw [hfo, hnum', ← filterMap_map_id (dfieldBack fac km.num) used]
            exact proj_msg fac r.header km.num pre used _ km.devFields (fun d hd' => (hpre d hd').2)
        -- the decision of the encoder, as `msgBack` computes it
        have hdec' : (if w.compress then Wire.compressTs w.arch r0 l0 (toWire w.arch km) else (r0, l0, none)) =
            tsDecision w r0 l0 (toWire w.arch km) := rfl
        rcases hcase with ⟨hts, hfs⟩ | ⟨hts, hvalid, hfs⟩
        · -- the timestamp (if any) stayed in the message
          obtain ⟨msgs, m1, m2⟩ := key km.fields [] (Or.inl rfl) (by rw [hfs, recFieldsOf_toWire])
            (fun d hd' => by cases hd') (fun rs => by simp [fieldsOfRec, hts])
          have hoff : (tsDecision w r0 l0 (toWire w.arch km)).2.2 = none := by
            rw [hts] at hdecision
            cases h : (tsDecision w r0 l0 (toWire w.arch km)).2.2 with
            | none => rfl
            | some _ => rw [h] at hdecision; cases hdecision
          refine ⟨msgs, m1, ?_, ?_⟩
          · rw [m2]
            simp only [seqMatches, List.map_nil, List.nil_append, Bool.and_eq_true]
            refine ⟨?_, g2⟩
            simp only [msgVariants]
            split <;> simp
          · rw [m2]
            simp only [seqBack, msgBack, hdec', hoff, List.map_nil, List.nil_append]
            congr 1
        · -- the timestamp travelled in the record header
          have hfs' : r.fields = recOf w.arch (removeTs km.fields) := by
            rw [hfs]
            simp only [recFieldsOf, recOf, toWire]
            rw [removeFirst_toW w.arch km.fields (fun f hf => (hd.agree f hf).1)]
          obtain ⟨msgs, m1, m2⟩ := key (removeTs km.fields) [tsDField fac r.num (tsOf w.arch (toWire w.arch km))] (Or.inr rfl) hfs'
            (fun d hd' => by
              simp only [List.mem_cons, List.not_mem_nil, or_false] at hd'
              rw [hd']; exact ⟨(tsDField_proj fac _ _).2.2, (tsDField_proj fac _ _).2.1⟩)
            (fun rs => by simp [fieldsOfRec, hts])
          obtain ⟨t, hoff⟩ : ∃ t, (tsDecision w r0 l0 (toWire w.arch km)).2.2 = some t := by
            rw [hts] at hdecision
            cases h : (tsDecision w r0 l0 (toWire w.arch km)).2.2 with
            | none => rw [h] at hdecision; cases hdecision
            | some t => exact ⟨t, rfl⟩
          refine ⟨msgs, m1, ?_, ?_⟩
          · rw [m2]
            simp only [seqMatches, Bool.and_eq_true]
            refine ⟨?_, g2⟩
            have hne : (tsOf w.arch (toWire w.arch km) != u32Invalid) = true := by simpa using hvalid
            simp only [msgVariants, hne, ↓reduceIte, List.map_cons, List.map_nil, (tsDField_proj fac _ _).1, hnum',
              List.singleton_append]
            simp
          · rw [m2]
            simp only [seqBack, msgBack, hdec', hoff, List.map_cons, List.map_nil, (tsDField_proj fac _ _).1, hnum',
              List.singleton_append]
            congr 1

end Fit.E2E
