import FitModel.WriterPanic
import FitProps.WriterLemmas
import FitProps.WireLemmas
import FitProps.WriterShortLemmas
/-!
No guard of `FitModel/WriterPanic.lean` ever fails: the invariant `Enc.Safe` (bufio's `n ≤ len(buf)`, the LRU's index
ranges, `lastFileHeaderPos ≤ n`) holds for a new encoder, is kept by every operation under every answer schedule of the
destination, and implies every guard.
-/
namespace Fit.Writer
open Fit.Wire Fit.Crc

/-! ### bufio's invariant -/

def W.BufOK (w : W) : Prop := w.size = 0 ∨ w.buf.length ≤ w.size

theorem W.bufOK_iff (w : W) : w.bufOK = true ↔ w.BufOK := by
  simp [W.bufOK, W.BufOK]

theorem bflushR_buf (R : Sched) (w : W) (h : w.BufOK) : (w.bflushR R).1.BufOK ∧ (w.bflushR R).1.size = w.size ∧ (w.bflushR R).1.kind = w.kind := by
  unfold W.bflushR
  split
  · exact ⟨h, rfl, rfl⟩
  · split
    · exact ⟨h, rfl, rfl⟩
    · dsimp only
      split
      · exact ⟨Or.inr (by simp), rfl, rfl⟩
      · refine ⟨?_, rfl, rfl⟩
        rcases h with h | h
        · exact Or.inl h
        · exact Or.inr (by simp only [List.length_drop]; omega)

theorem bwriteLoop_buf (R : Sched) : ∀ (fuel : Nat) (w : W) (p : Bytes) (nn : Nat), w.BufOK →
    (W.bwriteLoop R fuel w p nn).1.BufOK ∧ (W.bwriteLoop R fuel w p nn).1.size = w.size ∧ (W.bwriteLoop R fuel w p nn).1.kind = w.kind
  | 0, w, p, nn, h => ⟨h, rfl, rfl⟩
  | fuel + 1, w, p, nn, h => by
    unfold W.bwriteLoop
    split
    · rename_i hc
      split
      · exact bwriteLoop_buf R fuel _ _ _ h
      · simp only [Bool.and_eq_true, decide_eq_true_eq] at hc
        have hfill : ({ w with buf := w.buf ++ p.take (w.size - w.buf.length) } : W).BufOK := by
          rcases h with h | h
          · exact Or.inl h
          · exact Or.inr (by simp only [List.length_append, List.length_take]; omega)
        obtain ⟨a, b, c⟩ := bflushR_buf R _ hfill
        obtain ⟨a', b', c'⟩ := bwriteLoop_buf R fuel _ (p.drop (w.size - w.buf.length)) (nn + (w.size - w.buf.length)) a
        exact ⟨a', b'.trans b, c'.trans c⟩
    · rename_i hc
      split
      · exact ⟨h, rfl, rfl⟩
      · rename_i hb
        refine ⟨?_, rfl, rfl⟩
        rcases h with h | h
        · exact Or.inl h
        · right
          simp only [Bool.and_eq_true, decide_eq_true_eq, not_and, Bool.not_eq_eq_eq_not] at hc
          simp only [List.length_append]
          by_cases hp : p.length > w.size - w.buf.length
          · have := hc hp
            simp_all
          · omega

theorem writeR_buf (R : Sched) (w : W) (p : Bytes) (h : w.BufOK) :
    (w.writeR R p).1.BufOK ∧ (w.writeR R p).1.size = w.size ∧ (w.writeR R p).1.kind = w.kind := by
  unfold W.writeR
  split
  · rename_i hs
    exact ⟨Or.inl hs, rfl, rfl⟩
  · exact bwriteLoop_buf R _ w p 0 h

theorem flushR_buf (R : Sched) (w : W) (h : w.BufOK) :
    (w.flushR R).1.BufOK ∧ (w.flushR R).1.size = w.size ∧ (w.flushR R).1.kind = w.kind := by
  unfold W.flushR
  split
  · exact ⟨h, rfl, rfl⟩
  · exact bflushR_buf R w h

theorem seekCurR_buf (R : Sched) (w : W) (δ : Int) (h : w.BufOK) :
    (w.seekCurR R δ).1.BufOK ∧ (w.seekCurR R δ).1.size = w.size ∧ (w.seekCurR R δ).1.kind = w.kind := by
  obtain ⟨a, b, c⟩ := flushR_buf R w h
  unfold W.seekCurR
  simp only
  split
  · exact ⟨a, b, c⟩
  · refine ⟨?_, b, c⟩
    rcases a with a | a
    · exact Or.inl a
    · exact Or.inr a

theorem writeAtR_buf (R : Sched) (w : W) (p : Bytes) (off : Nat) (h : w.BufOK) :
    (w.writeAtR R p off).1.BufOK ∧ (w.writeAtR R p off).1.size = w.size ∧ (w.writeAtR R p off).1.kind = w.kind := by
  obtain ⟨a, b, c⟩ := flushR_buf R w h
  unfold W.writeAtR
  simp only
  split
  · exact ⟨a, b, c⟩
  · refine ⟨?_, b, c⟩
    rcases a with a | a
    · exact Or.inl a
    · exact Or.inr a

theorem rewriteSeekR_buf (R : Sched) (w : W) (b : Bytes) (sz : Int) (h : w.BufOK) :
    (w.rewriteSeekR R b sz).1.BufOK ∧ (w.rewriteSeekR R b sz).1.size = w.size ∧ (w.rewriteSeekR R b sz).1.kind = w.kind := by
  obtain ⟨a1, b1, c1⟩ := seekCurR_buf R w (-sz) h
  unfold W.rewriteSeekR
  simp only
  split
  · exact ⟨a1, b1, c1⟩
  · obtain ⟨a2, b2, c2⟩ := writeR_buf R (w.seekCurR R (-sz)).1 b a1
    split
    · exact ⟨a2, b2.trans b1, c2.trans c1⟩
    · obtain ⟨a3, b3, c3⟩ := seekCurR_buf R ((w.seekCurR R (-sz)).1.writeR R b).1 (sz - ((w.seekCurR R (-sz)).1.writeR R b).2.1) a2
      exact ⟨a3, b3.trans (b2.trans b1), c3.trans (c2.trans c1)⟩

/-! ### the LRU's index ranges -/

structure LruOK (l : Lru) : Prop where
  cap : 0 < l.cap
  len : l.bucket.length ≤ l.cap
  lt : ∀ i ∈ l.bucket, i < l.cap

theorem LruOK.empty (cap : Nat) (h : 0 < cap) : LruOK (Lru.empty cap) :=
  ⟨h, Nat.zero_le _, fun _ hi => by cases hi⟩

theorem filter_ne_length : ∀ (l : List Nat) (i : Nat), i ∈ l → (l.filter (· != i)).length + 1 ≤ l.length
  | [], _, h => by cases h
  | x :: xs, i, h => by
    by_cases hx : x = i
    · subst hx
      simp only [List.filter_cons, bne_self_eq_false, Bool.false_eq_true, if_false, List.length_cons]
      have := List.length_filter_le (· != x) xs
      omega
    · have hm : i ∈ xs := by
        rcases List.mem_cons.mp h with h | h
        · exact absurd h.symm hx
        · exact h
      have := filter_ne_length xs i hm
      have hne : (x != i) = true := by simp [hx]
      simp only [List.filter_cons, hne, if_true, List.length_cons]
      omega

theorem LruOK.putOK {l : Lru} (h : LruOK l) (item : Bytes) : l.putOK item = true := by
  unfold Lru.putOK
  simp only [Bool.and_eq_true, Bool.or_eq_true, List.all_eq_true, decide_eq_true_eq]
  refine ⟨⟨h.lt, h.len⟩, ?_⟩
  by_cases hl : l.bucket.length < l.cap
  · exact Or.inl (Or.inr hl)
  · right
    have := h.cap; have := h.len
    cases hb : l.bucket with
    | nil => rw [hb] at hl; simp at hl; omega
    | cons _ _ => rfl

theorem LruOK.put {l : Lru} (h : LruOK l) (item : Bytes) : LruOK (l.put item).1 := by
  obtain ⟨s1, s2, _, _, s5, _⟩ := put_spec l item h.cap h.lt
  refine ⟨by rw [s1]; exact h.cap, ?_, ?_⟩
  · rw [s1]
    unfold Lru.put
    cases hf : l.bucket.find? (fun i => l.get i == some item) with
    | some i =>
      have hmem := List.mem_of_find?_eq_some hf
      have := filter_ne_length l.bucket i hmem
      have := h.len
      simp only [List.length_append, List.length_singleton]
      omega
    | none =>
      by_cases hlen : l.bucket.length < l.cap
      · simp only [hlen, if_true, Lru.set, List.length_append, List.length_singleton]; omega
      · simp only [hlen, if_false]
        cases hb : l.bucket with
        | nil => first | exact h.len | (simp; exact h.len) | simp
        | cons i rest =>
          have := h.len; rw [hb] at this
          simp only [Lru.set, List.length_append, List.length_singleton]
          simpa using this
  · intro j hj
    rw [s1]
    rcases s5 j hj with e | ⟨hm, _⟩
    · rw [e]; exact s2
    · exact h.lt j hm

theorem msgDefBytes_ne_nil (o : Opts) (s : EncState) (m : WMsg) : (msgDefBytes o s m).isEmpty = false := by
  have key : ∀ m' : WMsg, (defBytes o.arch m').isEmpty = false := fun m' => by simp [defBytes]
  unfold msgDefBytes
  exact key _

theorem parts_lru (o : Opts) (s : EncState) (m : WMsg) :
    (encodeMsgParts o s m).1.lru = (s.lru.put (msgDefBytes o s m)).1 := by
  unfold encodeMsgParts msgDefBytes
  cases o.compress
  · simp
  · simp
    rfl

theorem encodeMsgOK_of (o : Opts) (s : EncState) (m : WMsg) (h : LruOK s.lru) : encodeMsgOK o s m = true := by
  unfold encodeMsgOK
  rw [h.putOK, msgDefBytes_ne_nil]; rfl

theorem revertOK_always (o : Opts) (s : EncState) (m : WMsg) : revertOK o s m = true := by
  unfold revertOK
  by_cases hc : (o.compress && (compressTs o.arch s.tsRef s.tsLast m).2.2.isSome) = true
  · simp only [hc, Bool.not_true, Bool.false_or, decide_eq_true_eq]
    simp only [Bool.and_eq_true] at hc
    obtain ⟨ts, h1, _⟩ := revert_exact m.fields (compressed_has_ts o.arch s.tsRef s.tsLast m hc.2)
    exact (List.getElem?_eq_some_iff.mp h1).1
  · simp only [Bool.not_eq_true] at hc
    simp [hc]

/-! ### the invariant and the guarded operations -/

structure Enc.Safe (e : Enc) : Prop where
  buf : e.w.BufOK
  lru : LruOK e.es.lru
  off : e.lastHdrPos ≤ e.n

/-- the header size as `encodeFileHeader` leaves it (`if header.Size != 12 { header.Size = 14 }`; `Wire.mkHdr`) -/
def HdrNorm (h : Hdr) : Prop := h.size = 12 ∨ h.size = 14

theorem mkHdr_norm (size pv prof dflt : Nat) : HdrNorm (mkHdr size pv prof dflt) := by
  unfold HdrNorm mkHdr
  by_cases h : size = 12 <;> simp [h]

theorem hdrSliceOK_of {h : Hdr} (hn : HdrNorm h) : hdrSliceOK h = true := by
  rcases hn with e | e <;> simp [hdrSliceOK, hdrMarshalLen, e]

theorem Enc.Safe.new (o : Opts) (kind : Kind) (size : Nat) (d : Dest) (ho : 0 < o.lruCap) : (Enc.new o kind size d).Safe :=
  ⟨Or.inr (Nat.zero_le _), LruOK.empty _ ho, Nat.le_refl _⟩

theorem Enc.Safe.reset {e : Enc} (h : e.Safe) (o : Opts) (ho : 0 < o.lruCap) : (e.reset o).Safe :=
  ⟨h.buf, LruOK.empty _ ho, h.off⟩

theorem writeG_ret (R : Sched) (w : W) (p : Bytes) (h : w.BufOK) : w.writeG false R p = .ret (w.writeR R p) := by
  simp [W.writeG, guarded, (W.bufOK_iff w).mpr h]

theorem flushG_ret (R : Sched) (w : W) (h : w.BufOK) : w.flushG false R = .ret (w.flushR R) := by
  simp [W.flushG, guarded, (W.bufOK_iff w).mpr h]

theorem encodeFileHeaderG_spec (R : Sched) (e : Enc) (h : Hdr) (ds : Nat) (hn : HdrNorm h) (hs : e.Safe) :
    encodeFileHeaderG false R e h ds = .ret (encodeFileHeaderR R e h ds) ∧ (encodeFileHeaderR R e h ds).1.Safe := by
  obtain ⟨a, _, _⟩ := writeR_buf R e.w (hdrBytesFrom e.crc h ds) hs.buf
  refine ⟨by simp [encodeFileHeaderG, guarded, hdrSliceOK_of hn, writeG_ret R e.w _ hs.buf, Run.bind, encodeFileHeaderR], ?_⟩
  exact ⟨a, hs.lru, Nat.le_add_right _ _⟩

theorem writeRecordG_spec (R : Sched) (e : Enc) (b : Bytes) (hs : e.Safe) :
    writeRecordG false R e b = .ret (writeRecordR R e b) ∧ (writeRecordR R e b).1.Safe := by
  obtain ⟨a, _, _⟩ := writeR_buf R e.w b hs.buf
  refine ⟨by simp [writeRecordG, writeG_ret R e.w _ hs.buf, Run.bind, writeRecordR], ?_⟩
  unfold writeRecordR
  simp only
  split
  · exact ⟨a, hs.lru, Nat.le_trans hs.off (Nat.le_add_right _ _)⟩
  · exact ⟨a, hs.lru, Nat.le_trans hs.off (Nat.le_add_right _ _)⟩

theorem encodeMessageG_spec (R : Sched) (o : Opts) (e : Enc) (m : WMsg) (hs : e.Safe) :
    encodeMessageG false R o e m = .ret (encodeMessageR R o e m) ∧ (encodeMessageR R o e m).1.Safe := by
  have h1 : ({ e with es := (encodeMsgParts o e.es m).1 } : Enc).Safe :=
    ⟨hs.buf, by show LruOK (encodeMsgParts o e.es m).1.lru; rw [parts_lru]; exact hs.lru.put _, hs.off⟩
  unfold encodeMessageG encodeMessageR
  simp only [guarded, encodeMsgOK_of o e.es m hs.lru, if_true]
  cases hp : (encodeMsgParts o e.es m).2.1 with
  | none =>
    simp only
    exact writeRecordG_spec R _ _ h1
  | some db =>
    simp only
    obtain ⟨a, b⟩ := writeRecordG_spec R _ db h1
    rw [a]
    simp only [Run.bind]
    split
    · exact writeRecordG_spec R _ _ b
    · exact ⟨rfl, b⟩

theorem encodeMessagesG_spec (R : Sched) (o : Opts) : ∀ (ms : List WMsg) (c : Ctx) (e : Enc), e.Safe →
    ∃ r, encodeMessagesG false R o c e ms = .ret r ∧ r.1.Safe ∧
      (c = none → r = ((encodeMessagesR R o e ms).1, none, if (encodeMessagesR R o e ms).2 then .ok else .err))
  | [], c, e, hs => ⟨_, rfl, hs, fun hc => by subst hc; rfl⟩
  | m :: ms, c, e, hs => by
    unfold encodeMessagesG
    by_cases hc : c.cancelled = true
    · rw [if_pos hc]
      exact ⟨_, rfl, hs, fun h => by subst h; cases hc⟩
    · rw [if_neg hc]
      obtain ⟨a, b⟩ := encodeMessageG_spec R o e m hs
      rw [a]
      simp only [Run.bind]
      by_cases hok : (encodeMessageR R o e m).2 = true
      · rw [if_pos hok]
        obtain ⟨r, r1, r2, r3⟩ := encodeMessagesG_spec R o ms c.tick _ b
        refine ⟨r, r1, r2, fun h => ?_⟩
        subst h
        rw [r3 rfl]
        simp [encodeMessagesR, hok]
      · rw [if_neg hok]
        refine ⟨_, rfl, b, fun h => ?_⟩
        subst h
        simp [encodeMessagesR, hok, Ctx.tick]

theorem encodeCRCG_spec (R : Sched) (e : Enc) (hs : e.Safe) :
    encodeCRCG false R e = .ret (encodeCRCR R e) ∧ (encodeCRCR R e).1.Safe := by
  obtain ⟨a, _, _⟩ := writeR_buf R e.w (le16 e.crc) hs.buf
  refine ⟨by simp [encodeCRCG, writeG_ret R e.w _ hs.buf, Run.bind, encodeCRCR], ?_⟩
  unfold encodeCRCR
  simp only
  split
  · exact ⟨a, hs.lru, Nat.le_trans hs.off (Nat.le_add_right _ _)⟩
  · exact ⟨a, hs.lru, Nat.le_trans hs.off (Nat.le_add_right _ _)⟩

theorem updateFileHeaderG_spec (R : Sched) (e : Enc) (h : Hdr) (hdrDs : Nat) (hn : HdrNorm h) (hs : e.Safe) :
    updateFileHeaderG R e h hdrDs = .ret (updateFileHeaderR R e h hdrDs) ∧ (updateFileHeaderR R e h hdrDs).1.Safe := by
  unfold updateFileHeaderG updateFileHeaderR
  by_cases hd : hdrDs = e.dataSize
  · simp only [hd, if_true]
    exact ⟨trivial, hs⟩
  · simp only [hd, if_false]
    refine ⟨by simp [guarded, hdrSliceOK_of hn, Enc.offsetsOK, hs.off, (W.bufOK_iff e.w).mpr hs.buf], ?_⟩
    split
    · obtain ⟨a, _, _⟩ := rewriteSeekR_buf R e.w (hdrBytesFrom e.crc h e.dataSize) ((e.n : Int) - e.lastHdrPos) hs.buf
      exact ⟨a, hs.lru, hs.off⟩
    · split
      · obtain ⟨a, _, _⟩ := writeAtR_buf R e.w (hdrBytesFrom e.crc h e.dataSize) e.lastHdrPos hs.buf
        exact ⟨a, hs.lru, hs.off⟩
      · exact ⟨hs.buf, hs.lru, hs.off⟩

theorem dryMessageG_spec (o : Opts) (s : EncState) (m : WMsg) (hl : LruOK s.lru) :
    dryMessageG o s m = .ret (dryMessage o s m) ∧ LruOK (dryMessage o s m).1.lru := by
  refine ⟨by simp [dryMessageG, guarded, encodeMsgOK_of o s m hl, revertOK_always], ?_⟩
  show LruOK (encodeMsgParts o s m).1.lru
  rw [parts_lru]; exact hl.put _

theorem dryPassG_spec (o : Opts) : ∀ (ms : List WMsg) (c : Ctx) (s : EncState) (ds : Nat), LruOK s.lru →
    ∃ r, dryPassG o c s ds ms = .ret r ∧ (c = none → r = (none, some (dryPass o s ds ms)))
  | [], c, s, ds, _ => ⟨_, rfl, fun h => by subst h; rfl⟩
  | m :: ms, c, s, ds, hl => by
    unfold dryPassG
    by_cases hc : c.cancelled = true
    · rw [if_pos hc]
      exact ⟨_, rfl, fun h => by subst h; cases hc⟩
    · rw [if_neg hc]
      obtain ⟨a, b⟩ := dryMessageG_spec o s m hl
      rw [a]
      simp only [Run.bind]
      obtain ⟨r, r1, r2⟩ := dryPassG_spec o ms c.tick (dryMessage o s m).1 ((ds + (dryMessage o s m).2.1) % 4294967296) b
      rw [r1]
      refine ⟨_, rfl, fun h => ?_⟩
      subst h
      rw [r2 rfl]
      simp [dryPass]

theorem encodeBodyG_spec (R : Sched) (o : Opts) (c : Ctx) (e : Enc) (h : Hdr) (ds : Nat) (ms : List WMsg) (hn : HdrNorm h)
    (hs : e.Safe) : ∃ r, encodeBodyG false R o c e h ds ms = .ret r ∧ r.1.Safe ∧
      (c = none → r = ((encodeBodyR R o e h ds ms).1, none, if (encodeBodyR R o e h ds ms).2 then .ok else .err)) := by
  obtain ⟨a, b⟩ := encodeFileHeaderG_spec R e h ds hn hs
  unfold encodeBodyG encodeBodyR
  rw [a]
  simp only [Run.bind]
  by_cases h1 : (encodeFileHeaderR R e h ds).2 = true
  · simp only [h1, Bool.not_true, Bool.false_eq_true, if_false]
    obtain ⟨r, r1, r2, r3⟩ := encodeMessagesG_spec R o ms c _ b
    rw [r1]
    simp only
    by_cases h2 : r.2.2 = .ok
    · simp only [h2, bne_self_eq_false, Bool.false_eq_true, if_false]
      obtain ⟨a3, b3⟩ := encodeCRCG_spec R r.1 r2
      rw [a3]
      refine ⟨_, rfl, b3, fun hc => ?_⟩
      have := r3 hc
      subst hc
      rw [this] at h2 ⊢
      simp only at h2 ⊢
      by_cases h4 : (encodeMessagesR R o (encodeFileHeaderR R e h ds).1 ms).2 = true
      · simp [h4]
      · simp [h4] at h2
    · have hne : (r.2.2 != Res.ok) = true := by simp [h2]
      simp only [hne, if_true]
      refine ⟨r, rfl, r2, fun hc => ?_⟩
      have := r3 hc
      subst hc
      rw [this] at h2 ⊢
      by_cases h4 : (encodeMessagesR R o (encodeFileHeaderR R e h ds).1 ms).2 = true
      · simp [h4] at h2
      · simp [h4]
  · simp only [h1, Bool.not_false, if_true]
    refine ⟨_, rfl, b, fun hc => ?_⟩
    subst hc
    simp [h1]

theorem encodeDirectG_spec (R : Sched) (o : Opts) (c : Ctx) (e : Enc) (h : Hdr) (ds0 : Nat) (ms : List WMsg) (hn : HdrNorm h)
    (hs : e.Safe) : ∃ r, encodeDirectG R o c e h ds0 ms = .ret r ∧ r.1.Safe ∧
      (c = none → r = ((encodeDirectR R o e h ds0 ms).1, none, if (encodeDirectR R o e h ds0 ms).2 then .ok else .err)) := by
  obtain ⟨r, r1, r2, r3⟩ := encodeBodyG_spec R o c e h ds0 ms hn hs
  unfold encodeDirectG encodeDirectR
  rw [r1]
  simp only [Run.bind]
  by_cases h2 : r.2.2 = .ok
  · simp only [h2, bne_self_eq_false, Bool.false_eq_true, if_false]
    obtain ⟨a, b⟩ := updateFileHeaderG_spec R r.1 h ds0 hn r2
    rw [a]
    refine ⟨_, rfl, b, fun hc => ?_⟩
    have := r3 hc
    subst hc
    rw [this] at h2 ⊢
    simp only at h2 ⊢
    by_cases h4 : (encodeBodyR R o e h ds0 ms).2 = true
    · simp [h4]
    · simp [h4] at h2
  · have hne : (r.2.2 != Res.ok) = true := by simp [h2]
    simp only [hne, if_true]
    refine ⟨r, rfl, r2, fun hc => ?_⟩
    have := r3 hc
    subst hc
    rw [this] at h2 ⊢
    by_cases h4 : (encodeBodyR R o e h ds0 ms).2 = true
    · simp [h4] at h2
    · simp [h4]

theorem encodeEarlyG_spec (cc : CtxCfg) (R : Sched) (o : Opts) (c : Ctx) (e : Enc) (h : Hdr) (ms : List WMsg) (hn : HdrNorm h)
    (ho : 0 < o.lruCap) (hs : e.Safe) : ∃ r, encodeEarlyG cc R o c e h ms = .ret r ∧ r.1.Safe ∧
      (c = none → r = ((encodeEarlyR R o e h ms).1, none, (if (encodeEarlyR R o e h ms).2 then .ok else .err), false)) := by
  obtain ⟨d, d1, d2⟩ := dryPassG_spec o ms c e.es e.dataSize hs.lru
  unfold encodeEarlyG encodeEarlyR
  rw [d1]
  simp only [Run.bind]
  obtain ⟨c', dr⟩ := d
  cases dr with
  | none =>
    refine ⟨_, rfl, hs, fun hc => ?_⟩
    have := d2 hc
    cases this
  | some dry =>
    simp only
    obtain ⟨r, r1, r2, r3⟩ := encodeBodyG_spec R o c' (e.reset o) h dry.1 dry.2 hn (hs.reset o ho)
    rw [r1]
    refine ⟨_, rfl, r2, fun hc => ?_⟩
    have hd := d2 hc
    injection hd with hc' hdry
    injection hdry with hdry
    subst hc' hdry
    rw [r3 rfl]

theorem encodeG_spec (cc : CtxCfg) (nilw : Bool) (R : Sched) (o : Opts) (c : Ctx) (x : EncC) (f : FitIn) (hn : HdrNorm f.hdr)
    (ho : 0 < o.lruCap) (hs : x.e.Safe) : ∃ r, encodeG cc nilw R o c x f = .ret r ∧ r.1.e.Safe ∧
      (nilw = false → c = none → x.discard = false →
        r = (⟨(encodeR R o x.e f).1, false⟩, if (encodeR R o x.e f).2 then .ok else .err)) := by
  unfold encodeG
  cases nilw with
  | true => exact ⟨_, rfl, hs.reset o ho, fun h => by cases h⟩
  | false =>
    simp only [Bool.false_eq_true, if_false]
    by_cases hd : x.discard = true
    · simp only [hd, if_true]
      obtain ⟨d, d1, _⟩ := dryPassG_spec o f.msgs none x.e.es x.e.dataSize hs.lru
      obtain ⟨d', d1', _⟩ := dryPassG_spec o f.msgs none (freshEnc o) 0 (LruOK.empty _ ho)
      rw [d1]
      simp only [Run.bind, guarded, hdrSliceOK_of hn, if_true]
      rw [d1']
      exact ⟨_, rfl, hs.reset o ho, fun _ _ h => by first | cases h | (rw [hd] at h; cases h)⟩
    · simp only [hd, Bool.false_eq_true, if_false]
      by_cases hk : x.e.w.kind.direct = true
      · simp only [hk, if_true]
        obtain ⟨r, r1, r2, r3⟩ := encodeDirectG_spec R o c x.e f.hdr f.ds0 f.msgs hn hs
        rw [r1]
        simp only [Run.bind]
        by_cases h2 : r.2.2 = .ok
        · simp only [h2, bne_self_eq_false, Bool.false_eq_true, if_false]
          have hs' := r2.reset o ho
          rw [flushG_ret R _ hs'.buf]
          obtain ⟨a, _, _⟩ := flushR_buf R (r.1.reset o).w hs'.buf
          refine ⟨_, rfl, ⟨a, hs'.lru, hs'.off⟩, fun _ hc _ => ?_⟩
          have := r3 hc
          subst hc
          rw [this] at h2 ⊢
          simp only at h2 ⊢
          unfold encodeR
          by_cases h4 : (encodeDirectR R o x.e f.hdr f.ds0 f.msgs).2 = true
          · simp [hk, h4]
          · simp [h4] at h2
        · have hne : (r.2.2 != Res.ok) = true := by simp [h2]
          simp only [hne, if_true]
          refine ⟨_, rfl, r2.reset o ho, fun _ hc _ => ?_⟩
          have := r3 hc
          subst hc
          rw [this] at h2 ⊢
          unfold encodeR
          by_cases h4 : (encodeDirectR R o x.e f.hdr f.ds0 f.msgs).2 = true
          · simp [h4] at h2
          · simp [hk, h4]
      · simp only [hk, Bool.false_eq_true, if_false]
        obtain ⟨r, r1, r2, r3⟩ := encodeEarlyG_spec cc R o c x.e f.hdr f.msgs hn ho hs
        rw [r1]
        simp only [Run.bind]
        by_cases h2 : r.2.2.1 = .ok
        · simp only [h2, bne_self_eq_false, Bool.false_eq_true, if_false]
          have hs' := r2.reset o ho
          rw [flushG_ret R _ hs'.buf]
          obtain ⟨a, _, _⟩ := flushR_buf R (r.1.reset o).w hs'.buf
          refine ⟨_, rfl, ⟨a, hs'.lru, hs'.off⟩, fun _ hc _ => ?_⟩
          have := r3 hc
          subst hc
          rw [this] at h2 ⊢
          simp only at h2 ⊢
          unfold encodeR
          by_cases h4 : (encodeEarlyR R o x.e f.hdr f.msgs).2 = true
          · simp [hk, h4]
          · simp [h4] at h2
        · have hne : (r.2.2.1 != Res.ok) = true := by simp [h2]
          simp only [hne, if_true]
          refine ⟨_, rfl, r2.reset o ho, fun _ hc _ => ?_⟩
          have := r3 hc
          subst hc
          rw [this] at h2 ⊢
          unfold encodeR
          by_cases h4 : (encodeEarlyR R o x.e f.hdr f.msgs).2 = true
          · simp [h4] at h2
          · simp [hk, h4]

theorem encodeVG_spec {σ : Type} (V : MsgValidator σ) (cc : CtxCfg) (nilw : Bool) (R : Sched) (o : Opts) (c : Ctx) (x : EncC) (f : FitIn)
    (hn : HdrNorm f.hdr) (ho : 0 < o.lruCap) (hs : x.e.Safe) : ∃ r, encodeVG V cc nilw R o c x f = .ret r ∧ r.1.e.Safe ∧
      (nilw = false → c = none → x.discard = false → r = (⟨(encodeVR V R o x.e f).1, false⟩, (encodeVR V R o x.e f).2)) := by
  unfold encodeVG encodeVR
  split
  · exact ⟨_, rfl, hs, fun _ _ hd => by cases x; simp_all⟩
  · split
    · exact ⟨_, rfl, hs, fun _ _ hd => by cases x; simp_all⟩
    · cases hv : validateAll V V.init f.msgs with
      | none => exact ⟨_, rfl, hs, fun _ _ hd => by cases x; simp_all⟩
      | some ms' =>
        simp only
        obtain ⟨r, r1, r2, r3⟩ := encodeG_spec cc nilw R o c x { f with msgs := ms' } hn ho hs
        exact ⟨r, r1, r2, r3⟩

/-! ### stream encoder -/

theorem ensureHeaderG_spec (R : Sched) (h : Hdr) (s : Stream) (hn : HdrNorm h) (hs : s.e.Safe) :
    s.ensureHeaderG R h = .ret (s.ensureHeaderR R h) ∧ (s.ensureHeaderR R h).1.e.Safe := by
  unfold Stream.ensureHeaderG Stream.ensureHeaderR
  split
  · exact ⟨rfl, hs⟩
  · obtain ⟨a, b⟩ := encodeFileHeaderG_spec R s.e h s.hdrDs hn hs
    rw [a]
    exact ⟨rfl, b⟩

theorem writeMessageVG_spec {σ : Type} (V : MsgValidator σ) (R : Sched) (o : Opts) (h : Hdr) (s : Stream) (vs : σ) (m : WMsg)
    (hn : HdrNorm h) (hs : s.e.Safe) :
    s.writeMessageVG V R o h vs m = .ret (s.writeMessageVR V R o h vs m) ∧ (s.writeMessageVR V R o h vs m).1.e.Safe := by
  obtain ⟨a, b⟩ := ensureHeaderG_spec R h s hn hs
  unfold Stream.writeMessageVG Stream.writeMessageVR
  rw [a]
  simp only [Run.bind]
  split
  · exact ⟨rfl, b⟩
  · split
    · exact ⟨rfl, b⟩
    · cases hv : V.step vs m with
      | mk vs' om =>
        cases om with
        | none => exact ⟨rfl, b⟩
        | some m' =>
          simp only
          obtain ⟨a2, b2⟩ := encodeMessageG_spec R o (s.ensureHeaderR R h).1.e m' b
          rw [a2]
          exact ⟨rfl, b2⟩

theorem sequenceCompletedVG_spec {σ : Type} (V : MsgValidator σ) (R : Sched) (c : StreamCfg) (o : Opts) (h : Hdr) (s : Stream) (vs : σ)
    (hn : HdrNorm h) (ho : 0 < o.lruCap) (hs : s.e.Safe) :
    s.sequenceCompletedVG V R c o h vs = .ret (s.sequenceCompletedVR V R c o h vs) ∧
      (s.sequenceCompletedVR V R c o h vs).1.e.Safe := by
  obtain ⟨a1, b1⟩ := encodeCRCG_spec R s.e hs
  unfold Stream.sequenceCompletedVG Stream.sequenceCompletedVR Stream.sequenceCompletedR
  rw [a1]
  simp only [Run.bind]
  by_cases h1 : (encodeCRCR R s.e).2 = true
  · simp only [h1, Bool.not_true, Bool.false_eq_true, if_false]
    obtain ⟨a2, b2⟩ := updateFileHeaderG_spec R (encodeCRCR R s.e).1 h s.hdrDs hn b1
    rw [a2]
    simp only
    by_cases h2 : (updateFileHeaderR R (encodeCRCR R s.e).1 h s.hdrDs).2.2 = true
    · simp only [h2, Bool.not_true, Bool.false_eq_true, if_false]
      have hs' := b2.reset o ho
      rw [flushG_ret R _ hs'.buf]
      obtain ⟨a, _, _⟩ := flushR_buf R ((updateFileHeaderR R (encodeCRCR R s.e).1 h s.hdrDs).1.reset o).w hs'.buf
      first | exact ⟨rfl, ⟨a, hs'.lru, hs'.off⟩⟩ | exact ⟨trivial, ⟨a, hs'.lru, hs'.off⟩⟩
    · simp only [h2, Bool.not_false, if_true]
      first | exact ⟨rfl, b2⟩ | exact ⟨trivial, b2⟩
  · simp only [h1, Bool.not_false, if_true]
    first | exact ⟨rfl, b1⟩ | exact ⟨trivial, b1⟩

/-! ### runs -/

theorem runEncCalls_spec {σ : Type} (V : MsgValidator σ) (cc : CtxCfg) (nilw : Bool) (R : Sched) (o : Opts) (ho : 0 < o.lruCap) :
    ∀ (cs : List EncCall) (x : EncC), (∀ c ∈ cs, HdrNorm c.fit.hdr) → x.e.Safe →
      ∃ r, runEncCalls V cc nilw R o x cs = .ret r ∧ r.1.e.Safe ∧ r.2.length = cs.length
  | [], x, _, hs => ⟨_, rfl, hs, rfl⟩
  | c :: cs, x, hn, hs => by
    obtain ⟨r, r1, r2, _⟩ := encodeVG_spec V cc nilw R o c.ctx x c.fit (hn c (by simp)) ho hs
    obtain ⟨t, t1, t2, t3⟩ := runEncCalls_spec V cc nilw R o ho cs r.1 (fun c' hc' => hn c' (by simp [hc'])) r2
    unfold runEncCalls
    rw [r1]
    simp only [Run.bind]
    rw [t1]
    exact ⟨_, rfl, t2, by simp [t3]⟩

theorem runStreamCalls_spec {σ : Type} (V : MsgValidator σ) (R : Sched) (sc : StreamCfg) (o : Opts) (h : Hdr) (hn : HdrNorm h)
    (ho : 0 < o.lruCap) : ∀ (cs : List StreamCall) (s : Stream) (vs : σ), s.e.Safe →
      ∃ r, runStreamCalls V R sc o h s vs cs = .ret r ∧ r.1.e.Safe ∧ r.2.2.length = cs.length
  | [], s, vs, hs => ⟨_, rfl, hs, rfl⟩
  | c :: cs, s, vs, hs => by
    unfold runStreamCalls
    cases c with
    | writeMessage m =>
      obtain ⟨a, b⟩ := writeMessageVG_spec V R o h s vs m hn hs
      simp only
      rw [a]
      simp only [Run.bind]
      obtain ⟨t, t1, t2, t3⟩ := runStreamCalls_spec V R sc o h hn ho cs _ (s.writeMessageVR V R o h vs m).2.1 b
      rw [t1]
      exact ⟨_, rfl, t2, by simp [t3]⟩
    | sequenceCompleted =>
      obtain ⟨a, b⟩ := sequenceCompletedVG_spec V R sc o h s vs hn ho hs
      simp only
      rw [a]
      simp only [Run.bind]
      obtain ⟨t, t1, t2, t3⟩ := runStreamCalls_spec V R sc o h hn ho cs _ (s.sequenceCompletedVR V R sc o h vs).2.1 b
      rw [t1]
      exact ⟨_, rfl, t2, by simp [t3]⟩

/-! ### with cancellation points: on contract-abiding schedules the guarded model returns what `encodeCtxV` says -/

theorem Run.ret_inj {α : Type} {a b : α} (h : (Run.ret a : Run α) = .ret b) : a = b := by injection h

theorem encodeMessagesG_ctx (F : Faults) (o : Opts) : ∀ (ms : List WMsg) (c : Ctx) (e : Enc), e.Safe →
    encodeMessagesG false (Sched.ofFaults F) o c e ms = .ret (encodeMessagesCtx F o c e ms)
  | [], _, _, _ => rfl
  | m :: ms, c, e, hs => by
    unfold encodeMessagesG encodeMessagesCtx
    split
    · rfl
    · obtain ⟨a, b⟩ := encodeMessageG_spec (Sched.ofFaults F) o e m hs
      rw [a, encodeMessageR_ofFaults] at *
      simp only [Run.bind]
      split
      · exact encodeMessagesG_ctx F o ms c.tick _ b
      · rfl

theorem dryPassG_ctx (o : Opts) : ∀ (ms : List WMsg) (c : Ctx) (s : EncState) (ds : Nat), LruOK s.lru →
    dryPassG o c s ds ms = .ret (dryPassCtx o c s ds ms)
  | [], _, _, _, _ => rfl
  | m :: ms, c, s, ds, hl => by
    unfold dryPassG dryPassCtx
    split
    · rfl
    · obtain ⟨a, b⟩ := dryMessageG_spec o s m hl
      rw [a]
      simp only [Run.bind]
      rw [dryPassG_ctx o ms c.tick _ _ b]

theorem encodeBodyG_ctx (F : Faults) (o : Opts) (c : Ctx) (e : Enc) (h : Hdr) (ds : Nat) (ms : List WMsg) (hn : HdrNorm h)
    (hs : e.Safe) : encodeBodyG false (Sched.ofFaults F) o c e h ds ms = .ret (encodeBodyCtx F o c e h ds ms) := by
  obtain ⟨a, b⟩ := encodeFileHeaderG_spec (Sched.ofFaults F) e h ds hn hs
  rw [encodeFileHeaderR_ofFaults] at a b
  unfold encodeBodyG encodeBodyCtx
  rw [a]
  simp only [Run.bind]
  split
  · rfl
  · obtain ⟨r, r1, r2, _⟩ := encodeMessagesG_spec (Sched.ofFaults F) o ms c _ b
    have hm := encodeMessagesG_ctx F o ms c _ b
    have hr : r = encodeMessagesCtx F o c (encodeFileHeader F e h ds).1 ms := Run.ret_inj (r1.symm.trans hm)
    rw [hm]
    simp only
    split
    · rfl
    · obtain ⟨a3, _⟩ := encodeCRCG_spec (Sched.ofFaults F) _ (hr ▸ r2)
      rw [a3, encodeCRCR_ofFaults]

theorem encodeBodyG_ctx_safe (F : Faults) (o : Opts) (c : Ctx) (e : Enc) (h : Hdr) (ds : Nat) (ms : List WMsg) (hn : HdrNorm h)
    (hs : e.Safe) : (encodeBodyCtx F o c e h ds ms).1.Safe := by
  obtain ⟨r, r1, r2, _⟩ := encodeBodyG_spec (Sched.ofFaults F) o c e h ds ms hn hs
  have := Run.ret_inj (r1.symm.trans (encodeBodyG_ctx F o c e h ds ms hn hs))
  exact this ▸ r2

theorem encodeDirectG_ctx (F : Faults) (o : Opts) (c : Ctx) (e : Enc) (h : Hdr) (ds0 : Nat) (ms : List WMsg) (hn : HdrNorm h)
    (hs : e.Safe) : encodeDirectG (Sched.ofFaults F) o c e h ds0 ms = .ret (encodeDirectCtx F o c e h ds0 ms) := by
  unfold encodeDirectG encodeDirectCtx
  rw [encodeBodyG_ctx F o c e h ds0 ms hn hs]
  simp only [Run.bind]
  split
  · rfl
  · obtain ⟨a, _⟩ := updateFileHeaderG_spec (Sched.ofFaults F) _ h ds0 hn (encodeBodyG_ctx_safe F o c e h ds0 ms hn hs)
    rw [a, updateFileHeaderR_ofFaults]

theorem encodeEarlyG_ctx (cc : CtxCfg) (F : Faults) (o : Opts) (c : Ctx) (e : Enc) (h : Hdr) (ms : List WMsg) (hn : HdrNorm h)
    (ho : 0 < o.lruCap) (hs : e.Safe) :
    encodeEarlyG cc (Sched.ofFaults F) o c e h ms = .ret (encodeEarlyCtx cc F o c e h ms) := by
  unfold encodeEarlyG encodeEarlyCtx
  rw [dryPassG_ctx o ms c e.es e.dataSize hs.lru]
  simp only [Run.bind]
  cases hd : dryPassCtx o c e.es e.dataSize ms with
  | mk c' r =>
    cases r with
    | none => rfl
    | some dry =>
      simp only
      rw [encodeBodyG_ctx F o c' (e.reset o) h dry.1 dry.2 hn (hs.reset o ho)]

/-- ON CONTRACT-ABIDING SCHEDULES THE GUARDED MODEL RETURNS EXACTLY WHAT THE MODEL WITH CANCELLATION POINTS SAYS (any context,
also on an encoder left on `io.Discard`) -/
theorem encodeVG_ctx {σ : Type} (V : MsgValidator σ) (cc : CtxCfg) (F : Faults) (o : Opts) (c : Ctx) (x : EncC) (f : FitIn)
    (hn : HdrNorm f.hdr) (ho : 0 < o.lruCap) (hs : x.e.Safe) :
    encodeVG V cc false (Sched.ofFaults F) o c x f = .ret (encodeCtxV V cc F o c x f) := by
  unfold encodeVG encodeCtxV
  split
  · rfl
  · split
    · rfl
    · cases hv : validateAll V V.init f.msgs with
      | none => rfl
      | some ms' =>
        simp only
        unfold encodeG encodeCtx
        simp only [Bool.false_eq_true, if_false]
        by_cases hd : x.discard = true
        · simp only [hd, if_true]
          rw [dryPassG_ctx o ms' none x.e.es x.e.dataSize hs.lru]
          simp only [Run.bind, guarded, hdrSliceOK_of hn, if_true]
          rw [dryPassG_ctx o ms' none (freshEnc o) 0 (LruOK.empty _ ho)]
          cases x with
          | mk xe xd =>
            simp only at hd
            subst hd
            rfl
        · simp only [hd, Bool.false_eq_true, if_false]
          by_cases hk : x.e.w.kind.direct = true
          · simp only [hk, if_true]
            rw [encodeDirectG_ctx F o c x.e f.hdr f.ds0 ms' hn hs]
            simp only [Run.bind]
            split
            · rfl
            · obtain ⟨r, r1, r2, _⟩ := encodeDirectG_spec (Sched.ofFaults F) o c x.e f.hdr f.ds0 ms' hn hs
              have hr := Run.ret_inj (r1.symm.trans (encodeDirectG_ctx F o c x.e f.hdr f.ds0 ms' hn hs))
              have hs' := (hr ▸ r2 : (encodeDirectCtx F o c x.e f.hdr f.ds0 ms').1.Safe).reset o ho
              rw [flushG_ret _ _ hs'.buf, W.flushR_ofFaults]
          · simp only [hk, Bool.false_eq_true, if_false]
            rw [encodeEarlyG_ctx cc F o c x.e f.hdr ms' hn ho hs]
            simp only [Run.bind]
            split
            · rfl
            · obtain ⟨r, r1, r2, _⟩ := encodeEarlyG_spec cc (Sched.ofFaults F) o c x.e f.hdr ms' hn ho hs
              have hr := Run.ret_inj (r1.symm.trans (encodeEarlyG_ctx cc F o c x.e f.hdr ms' hn ho hs))
              have hs' := (hr ▸ r2 : (encodeEarlyCtx cc F o c x.e f.hdr ms').1.Safe).reset o ho
              rw [flushG_ret _ _ hs'.buf, W.flushR_ofFaults]

end Fit.Writer
