import FitProps.DecoderApiLemmas
import FitProps.WireLemmas
import FitModel.EndToEnd
import FitProps.EndToEndExpandInvLemmas
/-! Simulation of the decoder-API model with component expansion ON by the same model with expansion OFF
(`C01_e2e_expansion_on`). The two runs read the same stream and differ only in the option itself, the accumulator (which
only expansion reads) and the decoded messages. `ov b e a m` is the state `b` with the option, the accumulator and the
message list overridden: every function of the record loop that touches none of the three commutes with `ov` (`…_ov`);
`decodeField` changes the accumulator only (`Lift`); `decodeData` with expansion on returns, beside the accumulator, a message
related to the expansion-off message by `MsgSim` (`expandAll_sim`, FitProps/EndToEndExpandInvLemmas.lean); the record loop,
`Decode`, `Next` and the `for dec.Next() { dec.Decode() }` loop follow by induction. -/
namespace Fit.DecApi
open Fit.Crc Fit.Value Fit.Gen Fit.Gen.DecApi
open Fit.Wire (AllMatch)

def ov (b : St) (e : Bool) (a : List AccEntry) (m : List Msg) : St :=
  { b with o := { b.o with exp := e }, q := { b.q with acc := a, msgs := m } }

def Res.map {α β} (g : α → β) : Res α → Res β
  | .ok x => .ok (g x) | .err e => .err e | .panic => .panic | .hang => .hang

@[simp] theorem Res.map_ok {α β} (g : α → β) (x : α) : Res.map g (.ok x) = .ok (g x) := rfl
@[simp] theorem Res.map_err {α β} (g : α → β) (e : Err) : Res.map g (.err e) = .err e := rfl
@[simp] theorem Res.map_panic {α β} (g : α → β) : Res.map g (.panic) = .panic := rfl
@[simp] theorem Res.map_hang {α β} (g : α → β) : Res.map g (.hang) = .hang := rfl

theorem Res.map_bind {α β γ} (g : α → β) (r : Res α) (f : β → Res γ) : (Res.map g r >>= f) = (r >>= fun x => f (g x)) := by
  cases r <;> rfl

macro "obl" : tactic => `(tactic| repeat' (first | rfl | split | simp only [*, ↓reduceIte, Res.map_ok] | (exfalso; simp_all [mesgNumFileId, mesgNumDeveloperDataId, mesgNumFieldDescription]; done)))

theorem rawRead_ov (k : Nat) (b : St) (e : Bool) (a : List AccEntry) (m : List Msg) :
    rawRead k (ov b e a m) = Res.map (fun p => (p.1, ov p.2 e a m)) (rawRead k b) := by
  unfold rawRead
  split
  · rfl
  · show (if Fit.Integrity.hasN b.rest k = true then _ else _) = _
    split <;> rfl

theorem readN_ov (k : Nat) (b : St) (e : Bool) (a : List AccEntry) (m : List Msg) :
    readN k (ov b e a m) = Res.map (fun p => (p.1, ov p.2 e a m)) (readN k b) := by
  unfold readN
  rw [rawRead_ov]
  cases rawRead k b <;> rfl

theorem decodeFileHeader_ov (b : St) (e : Bool) (a : List AccEntry) (m : List Msg) :
    decodeFileHeader (ov b e a m) = Res.map (fun p => ov p e a m) (decodeFileHeader b) := by
  unfold decodeFileHeader
  rw [rawRead_ov]
  cases h1 : rawRead 1 b with
  | ok p =>
    obtain ⟨bs, s⟩ := p
    simp only [Res.map_ok, bind, Res.bind]
    cases idx bs 0 with
    | ok size =>
      simp only []
      split
      · rfl
      · rw [rawRead_ov]
        cases rawRead (size - 1) s with
        | ok p2 =>
          obtain ⟨b2, s2⟩ := p2
          simp only [Res.map_ok, pure]
          dsimp only [ov]
          obl
        | _ => rfl
    | _ => rfl
  | _ => rfl

theorem headerOnce_ov (b : St) (e : Bool) (a : List AccEntry) (m : List Msg) :
    headerOnce (ov b e a m) = Res.map (fun p => ov p e a m) (headerOnce b) := by
  unfold headerOnce
  rw [decodeFileHeader_ov]
  show (if b.q.hdrDone = true then (match b.q.err with | some e => Res.err e | none => Res.ok (ov b e a m)) else _) = _
  split
  · cases b.q.err <;> rfl
  · cases decodeFileHeader b <;> rfl

theorem decodeDefinition_ov (h : Nat) (b : St) (e : Bool) (a : List AccEntry) (m : List Msg) :
    decodeDefinition h (ov b e a m) = Res.map (fun p => (ov p.1 e a m, p.2)) (decodeDefinition h b) := by
  unfold decodeDefinition
  rw [readN_ov]
  cases readN 5 b <;> try rfl
  rename_i p; obtain ⟨bs, s⟩ := p
  simp only [Res.map_ok, bind, Res.bind]
  split
  · rfl
  cases idx bs 0 <;> try rfl
  cases idx bs 1 <;> try rfl
  cases slice bs 2 4 <;> try rfl
  cases idx bs 4 <;> try rfl
  rename_i n
  simp only [readN_ov]
  cases readN (n * 3) s <;> try rfl
  rename_i p; obtain ⟨fb, s⟩ := p
  simp only [Res.map_ok]
  cases parseFieldDefs fb <;> try rfl
  by_cases hd : h &&& devDataMask = devDataMask
  · simp only [hd, ↓reduceIte, readN_ov]
    cases readN 1 s <;> try rfl
    rename_i p; obtain ⟨nb, s⟩ := p
    simp only [Res.map_ok]
    cases idx nb 0 <;> try rfl
    rename_i k
    simp only [readN_ov]
    cases readN (k * 3) s <;> rfl
  · simp only [hd, ↓reduceIte]
    rfl

theorem readValue_ov (size arch bt : Nat) (ib ia os : Bool) (b : St) (e : Bool) (a : List AccEntry) (m : List Msg) :
    readValue size arch bt ib ia os (ov b e a m) = Res.map (fun p => (p.1, ov p.2 e a m)) (readValue size arch bt ib ia os b) := by
  unfold readValue
  rw [readN_ov]
  cases readN size b <;> try rfl
  rename_i p; obtain ⟨bs, s⟩ := p
  simp only [Res.map_ok, bind, Res.bind]
  obl

theorem decodeDevField_ov (d : MesgDef) (dd : DevDef) (f : Desc) (b : St) (e : Bool) (a : List AccEntry) (m : List Msg) :
    decodeDevField d dd f (ov b e a m) = Res.map (fun p => (p.1, ov p.2 e a m)) (decodeDevField d dd f b) := by
  unfold decodeDevField
  split
  · rfl
  simp only [bind, Res.bind, readValue_ov]
  split <;> try rfl
  split
  · rfl
  cases readValue dd.size d.arch _ _ _ _ b <;> rfl

theorem decodeDevFields_ov (d : MesgDef) (e : Bool) (a : List AccEntry) (m : List Msg) :
    ∀ (dds : List DevDef) (acc : List DDev) (b : St),
    decodeDevFields d dds acc (ov b e a m) = Res.map (fun p => (p.1, ov p.2 e a m)) (decodeDevFields d dds acc b)
  | [], acc, b => rfl
  | dd :: dds, acc, b => by
    unfold decodeDevFields
    show (match b.look.descs.find? (fun f => f.ddi == dd.idx && f.fdn == dd.num) with | none => _ | some fdsc => _) = _
    cases b.look.descs.find? (fun f => f.ddi == dd.idx && f.fdn == dd.num) with
    | none =>
      simp only [readN_ov, bind, Res.bind]
      cases readN dd.size b <;> try rfl
      rename_i p; obtain ⟨x, s⟩ := p
      simp only [Res.map_ok]
      exact decodeDevFields_ov d e a m dds acc s
    | some fdsc =>
      simp only [decodeDevField_ov, bind, Res.bind]
      cases decodeDevField d dd fdsc b <;> try rfl
      rename_i p; obtain ⟨x, s⟩ := p
      simp only [Res.map_ok]
      exact decodeDevFields_ov d e a m dds _ s

theorem compressedTs_ov (h : Nat) (d : MesgDef) (b : St) (e : Bool) (a : List AccEntry) (m : List Msg) :
    compressedTs h d (ov b e a m) = (ov (compressedTs h d b).1 e a m, (compressedTs h d b).2) := rfl

theorem noteTs_ov (num : Nat) (v : Value) (b : St) (e : Bool) (a : List AccEntry) (m : List Msg) :
    noteTs num v (ov b e a m) = ov (noteTs num v b) e a m := by
  unfold noteTs
  split
  · split <;> rfl
  · rfl

theorem decodeCRC_ov (b : St) (e : Bool) (a : List AccEntry) (m : List Msg) :
    decodeCRC (ov b e a m) = Res.map (fun p => ov p e a m) (decodeCRC b) := by
  unfold decodeCRC
  rw [rawRead_ov]
  cases rawRead 2 b <;> try rfl
  rename_i p; obtain ⟨bs, s⟩ := p
  simp only [Res.map_ok, bind, Res.bind]
  dsimp only [ov]
  obl

theorem noteMesg_ov (n : Nat) (fs : List DField) (b : St) (e : Bool) (a : List AccEntry) (m : List Msg) :
    noteMesg n fs (ov b e a m) = ov (noteMesg n fs b) e a m := by
  unfold noteMesg
  dsimp only [ov]
  obl

theorem noteAcc_ov (ac : Bool) (mn n : Nat) (v : Value) (b : St) (e : Bool) (a : List AccEntry) (m : List Msg) :
    ∃ a', noteAcc ac mn n v (ov b e a m) = ov b e a' m := by
  unfold noteAcc
  split
  · exact ⟨_, rfl⟩
  · exact ⟨a, rfl⟩

theorem noteAcc_off (ac : Bool) (mn n : Nat) (v : Value) (b : St) (h : b.o.exp = false) :
    noteAcc ac mn n v b = b := by
  unfold noteAcc
  simp [h]

/-- result on an overridden state against the result on the base state, for a step that may touch the accumulator -/
def Lift {α} (e : Bool) (m : List Msg) (ron rbase : Res (α × St)) : Prop :=
  match rbase with
  | .ok p => ∃ a', ron = .ok (p.1, ov p.2 e a' m)
  | .err x => ron = .err x
  | .panic => ron = .panic
  | .hang => ron = .hang

theorem ov_noteAcc (ac : Bool) (mn n : Nat) (v : Value) (b : St) (e : Bool) (a : List AccEntry) (m : List Msg) :
    ov (noteAcc ac mn n v b) e a m = ov b e a m := by
  unfold noteAcc
  split <;> rfl

theorem decodeField_ov (d : MesgDef) (fd : FieldDef) (b : St) (e : Bool) (a : List AccEntry) (m : List Msg) :
    Lift e m (decodeField d fd (ov b e a m)) (decodeField d fd b) := by
  unfold decodeField
  have hfac : (ov b e a m).o.fac = b.o.fac := rfl
  simp only [hfac, bind, Res.bind]
  cases fieldShape (b.o.fac.create d.mesgNum fd.num) fd <;> try exact rfl
  rename_i p; obtain ⟨bt, ib, ar, os⟩ := p
  simp only []
  by_cases hz : fd.size = 0
  · simp only [hz, ↓reduceIte]
    exact ⟨a, rfl⟩
  · simp only [hz, ↓reduceIte, readValue_ov]
    cases readValue fd.size d.arch _ _ _ os b <;> try exact rfl
    rename_i p; obtain ⟨v, s⟩ := p
    simp only [Res.map_ok, Lift, pure, noteTs_ov, ov_noteAcc]
    obtain ⟨a', ha'⟩ := noteAcc_ov (b.o.fac.create d.mesgNum fd.num).accumulate d.mesgNum fd.num
      (if (readShape fd.size bt ib ar).1 ≠ bt then undersizedValue ar (sliceUint8Of v) d.arch bt else v) (noteTs fd.num
      (if (readShape fd.size bt ib ar).1 ≠ bt then undersizedValue ar (sliceUint8Of v) d.arch bt else v) s) e a m
    exact ⟨a', by rw [ha']⟩

theorem decodeFields_ov (d : MesgDef) (e : Bool) (m : List Msg) :
    ∀ (fds : List FieldDef) (acc : List DField) (b : St) (a : List AccEntry),
    Lift e m (decodeFields d fds acc (ov b e a m)) (decodeFields d fds acc b)
  | [], acc, b, a => ⟨a, rfl⟩
  | fd :: fds, acc, b, a => by
    unfold decodeFields
    have h := decodeField_ov d fd b e a m
    simp only [bind, Res.bind]
    cases hr : decodeField d fd b with
    | ok p =>
      obtain ⟨f, s⟩ := p
      rw [hr] at h
      obtain ⟨a', ha'⟩ := h
      rw [ha']
      exact decodeFields_ov d e m fds _ s a'
    | err x => rw [hr] at h; simp only [Lift] at h; rw [h]; exact rfl
    | panic => rw [hr] at h; simp only [Lift] at h; rw [h]; exact rfl
    | hang => rw [hr] at h; simp only [Lift] at h; rw [h]; exact rfl

/-- the fields `decodeFields` returns are not marked expanded -/
theorem decodeField_unexp (d : MesgDef) (fd : FieldDef) (s s' : St) (f : DField)
    (h : decodeField d fd s = .ok (some f, s')) : f.expanded = false := by
  unfold decodeField at h
  simp only [bind, Res.bind] at h
  split at h <;> try cases h
  split at h
  · cases h
  · split at h <;> try cases h
    rfl

theorem decodeFields_unexp (d : MesgDef) : ∀ (fds : List FieldDef) (acc : List DField) (s s' : St) (fs : List DField),
    (∀ f ∈ acc, f.expanded = false) → decodeFields d fds acc s = .ok (fs, s') → ∀ f ∈ fs, f.expanded = false
  | [], acc, s, s', fs, ha, h => by cases h; exact ha
  | fd :: fds, acc, s, s', fs, ha, h => by
    unfold decodeFields at h
    simp only [bind, Res.bind] at h
    cases hr : decodeField d fd s with
    | ok p =>
      obtain ⟨f, s1⟩ := p
      rw [hr] at h
      refine decodeFields_unexp d fds _ s1 s' fs ?_ h
      cases f with
      | none => exact ha
      | some f =>
        intro g hg
        rcases List.mem_append.mp hg with hg | hg
        · exact ha g hg
        · simp only [List.mem_singleton] at hg
          rw [hg]; exact decodeField_unexp d fd s s1 f hr
    | err x => rw [hr] at h; cases h
    | panic => rw [hr] at h; cases h
    | hang => rw [hr] at h; cases h

theorem compressedTs_unexp (h : Nat) (d : MesgDef) (s : St) : ∀ f ∈ (compressedTs h d s).2, f.expanded = false := by
  intro f hf
  unfold compressedTs at hf
  simp only [List.mem_singleton] at hf
  rw [hf]
  split <;> rfl

/-- a message decoded with expansion on against the same record decoded with expansion off -/
def MsgSim (fac : Factory) (on off : Msg) : Prop :=
  on.header = off.header ∧ on.num = off.num ∧ on.devs = off.devs ∧
  AllMatch (FieldSim (compDests fac off.num)) (on.fields.filter (fun f => !f.expanded)) off.fields

/-- the decoder with expansion on against the decoder with expansion off on the same stream: the same state except the
option itself, the accumulator, and the messages decoded so far, which are related by `MsgSim` -/
def SimSt (fac : Factory) (s t : St) : Prop :=
  ∃ b a a' m m', s = ov b true a m ∧ t = ov b false a' m' ∧ AllMatch (MsgSim fac) m m'

/-- events (listener calls) are not compared -/
def SimRes (fac : Factory) (ron roff : Res (St × Option Event)) : Prop :=
  match roff with
  | .ok p => ∃ s' ev, ron = .ok (s', ev) ∧ SimSt fac s' p.1
  | .err x => ron = .err x
  | .panic => ron = .panic
  | .hang => ron = .hang

/-- the factory puts no components on file_id / field_description / developer_data_id -/
def NoKeyComps (fac : Factory) : Prop := ∀ e ∈ fac, e.mesgNum = 0 ∨ e.mesgNum = 206 ∨ e.mesgNum = 207 → e.info.comps = []

theorem create_nocomps (fac : Factory) (h : NoKeyComps fac) (m : Nat) (hm : m = 0 ∨ m = 206 ∨ m = 207) (n : Nat) :
    (fac.create m n).comps = [] := by
  unfold Factory.create
  cases hf : fac.find? (fun e => e.mesgNum == m && e.num == n) with
  | none => rfl
  | some e =>
    have hmem := List.mem_of_find?_eq_some hf
    have hp := List.find?_some hf
    simp only [Bool.and_eq_true, beq_iff_eq] at hp
    exact h e hmem (by rw [hp.1]; exact hm)

theorem noteMesg_key (n : Nat) (fs fs' : List DField) (b : St) (h : n = 0 ∨ n = 206 ∨ n = 207 → fs' = fs) :
    noteMesg n fs' b = noteMesg n fs b := by
  by_cases hk : n = 0 ∨ n = 206 ∨ n = 207
  · rw [h hk]
  · have h0 : n ≠ mesgNumFileId := fun h => hk (Or.inl h)
    have h1 : n ≠ mesgNumFieldDescription := fun h => hk (Or.inr (Or.inl h))
    have h2 : n ≠ mesgNumDeveloperDataId := fun h => hk (Or.inr (Or.inr h))
    unfold noteMesg
    simp only [h0, h1, h2, and_false, ↓reduceIte]

theorem filter_unexp (fs : List DField) (h : ∀ f ∈ fs, f.expanded = false) : fs.filter (fun f => !f.expanded) = fs := by
  apply List.filter_eq_self.mpr
  intro f hf; simp [h f hf]

def expStep (d : MesgDef) (p : List DField × St) : Res (List DField × St) :=
  if p.2.o.exp then
    match expandAll p.2.o.fac d.mesgNum p.1.length 0 (p.1, p.2.q.acc) with
    | some (fields, acc) => pure (fields, { p.2 with q := { p.2.q with acc := acc } })
    | none => .hang
  else pure p

def devPart (d : MesgDef) (s : St) : Res (List DDev × St) :=
  if d.devs.isEmpty then pure ([], s) else decodeDevFields d d.devs [] s

def finish (h : Nat) (d : MesgDef) (p : List DField × St) : Res (St × Option Event) := do
  let q ← devPart d (noteMesg d.mesgNum p.1 p.2)
  let s := pushMsg ⟨h, d.mesgNum, p.1, q.1⟩ q.2
  pure (s, if s.o.ml then some (.mesg ⟨h, d.mesgNum, p.1, q.1⟩) else none)

theorem decodeData_eq (h : Nat) (s : St) : decodeData h s =
    (let c := decide (h &&& mesgCompressedHeaderMask = mesgCompressedHeaderMask)
     match s.look.lookup ((if c then (h &&& compressedLocalMesgNumMask) >>> compressedBitShift else h) &&& localMesgNumMask) with
     | none => .err .defMissing
     | some d =>
       let X := if c then compressedTs h d s else (s, [])
       decodeFields d d.fields X.2 X.1 >>= fun p => expStep d p >>= fun p => finish h d p) := by
  unfold decodeData expStep finish devPart
  rfl

theorem devPart_ov (d : MesgDef) (b : St) (e : Bool) (a : List AccEntry) (m : List Msg) :
    devPart d (ov b e a m) = Res.map (fun p => (p.1, ov p.2 e a m)) (devPart d b) := by
  unfold devPart
  split
  · rfl
  · exact decodeDevFields_ov d e a m d.devs [] b

theorem finish_ov (h : Nat) (d : MesgDef) (fs : List DField) (b : St) (e : Bool) (a : List AccEntry) (m : List Msg) :
    match devPart d (noteMesg d.mesgNum fs b) with
    | .ok q => ∃ ev, finish h d (fs, ov b e a m) =
        .ok (ov q.2 e a (if q.2.o.bo then m else ⟨h, d.mesgNum, fs, q.1⟩ :: m), ev)
    | .err x => finish h d (fs, ov b e a m) = .err x
    | .panic => finish h d (fs, ov b e a m) = .panic
    | .hang => finish h d (fs, ov b e a m) = .hang := by
  unfold finish
  simp only [noteMesg_ov, devPart_ov, bind, Res.bind]
  cases devPart d (noteMesg d.mesgNum fs b) <;> try exact rfl
  rename_i q
  simp only [Res.map_ok, pure]
  have hp : pushMsg ⟨h, d.mesgNum, fs, q.1⟩ (ov q.2 e a m) =
      ov q.2 e a (if q.2.o.bo then m else ⟨h, d.mesgNum, fs, q.1⟩ :: m) := by
    unfold pushMsg
    cases hb : q.2.o.bo
    · have : (ov q.2 e a m).o.bo = false := hb
      simp only [this]; rfl
    · have : (ov q.2 e a m).o.bo = true := hb
      simp only [this]; rfl
  rw [hp]
  exact ⟨_, rfl⟩

theorem ov_ov (b : St) (e e' : Bool) (a a' : List AccEntry) (m m' : List Msg) :
    ov (ov b e a m) e' a' m' = ov b e' a' m' := rfl

theorem decodeData_sim (h : Nat) (b : St) (a a' : List AccEntry) (m m' : List Msg)
    (hi : Inv b) (hkey : NoKeyComps b.o.fac) (hm : AllMatch (MsgSim b.o.fac) m m') :
    SimRes b.o.fac (decodeData h (ov b true a m)) (decodeData h (ov b false a' m')) := by
  have hfac : FacOK b.o.fac := hi.2.2.2
  rw [decodeData_eq, decodeData_eq]
  have hl1 : (ov b true a m).look = b.look := rfl
  have hl2 : (ov b false a' m').look = b.look := rfl
  simp only [hl1, hl2]
  cases hlk : b.look.lookup _ with
  | none => exact rfl
  | some d =>
  simp only []
  have hd := lookup_ok b.look hi.2.1 _ d hlk
  generalize hc : decide (h &&& mesgCompressedHeaderMask = mesgCompressedHeaderMask) = c
  have hX : ∀ (e : Bool) (a : List AccEntry) (m : List Msg),
      (if c = true then compressedTs h d (ov b e a m) else (ov b e a m, [])) =
        (ov (if c = true then compressedTs h d b else (b, [])).1 e a m, (if c = true then compressedTs h d b else (b, [])).2) := by
    intro e a m; split <;> rfl
  have hpre : ∀ f ∈ (if c = true then compressedTs h d b else (b, [])).2, f.expanded = false := by
    split
    · exact compressedTs_unexp h d b
    · intro f hf; cases hf
  have hXi : Inv (if c = true then compressedTs h d b else (b, [])).1 ∧ (if c = true then compressedTs h d b else (b, [])).1.o = b.o := by
    split
    · exact ⟨(compressedTs_quiet h d b).inv hi, rfl⟩
    · exact ⟨hi, rfl⟩
  simp only [hX]
  generalize (if c = true then compressedTs h d b else (b, [])) = X at hpre hXi ⊢
  have hon := decodeFields_ov d true m d.fields X.2 X.1 a
  have hoff := decodeFields_ov d false m' d.fields X.2 X.1 a'
  have hsat := decodeFields_sat d d.fields X.2 X.1 hXi.1 hd.1
  cases hr : decodeFields d d.fields X.2 X.1 with
  | err x => rw [hr] at hon hoff; simp only [Lift] at hon hoff; rw [hon, hoff]; exact rfl
  | panic => rw [hr] at hon hoff; simp only [Lift] at hon hoff; rw [hon, hoff]; exact rfl
  | hang => rw [hr] at hon hoff; simp only [Lift] at hon hoff; rw [hon, hoff]; exact rfl
  | ok p =>
    obtain ⟨fields, b2⟩ := p
    have hun := decodeFields_unexp d d.fields X.2 X.1 b2 fields hpre hr
    rw [hr] at hsat
    have hfo : b2.o = b.o := by
      obtain ⟨_, _, _, _, ho, _⟩ := hsat.1.2
      rw [← hXi.2]; exact ho
    rw [hr] at hon hoff
    obtain ⟨a2, e2⟩ := hon
    obtain ⟨a2', e2'⟩ := hoff
    rw [e2, e2']
    simp only [bind, Res.bind]
    have hon2 : expStep d (fields, ov b2 true a2 m) = match expandAll b.o.fac d.mesgNum fields.length 0 (fields, a2) with
        | some (f, acc) => .ok (f, ov b2 true acc m) | none => .hang := by
      rw [← hfo]; rfl
    have hoff2 : expStep d (fields, ov b2 false a2' m') = .ok (fields, ov b2 false a2' m') := rfl
    rw [hon2, hoff2]
    have hsome := expandAll_some b.o.fac hfac d.mesgNum fields.length 0 (fields, a2)
    cases hex : expandAll b.o.fac d.mesgNum fields.length 0 (fields, a2) with
    | none => rw [hex] at hsome; cases hsome
    | some st =>
      obtain ⟨fields', a3⟩ := st
      simp only []
      have hfs : d.mesgNum = 0 ∨ d.mesgNum = 206 ∨ d.mesgNum = 207 → fields' = fields := by
        intro hk
        have := expandAll_nocomps b.o.fac d.mesgNum (create_nocomps b.o.fac hkey d.mesgNum hk) fields.length 0 (fields, a2)
        rw [hex] at this; cases this; rfl
      have hsim := expandAll_sim b.o.fac d.mesgNum fields.length 0 fields a2 fields' a3 hex
      rw [filter_unexp fields hun] at hsim
      have f1 := finish_ov h d fields' b2 true a3 m
      have f2 := finish_ov h d fields b2 false a2' m'
      rw [noteMesg_key d.mesgNum fields fields' b2 hfs] at f1
      cases hdp : devPart d (noteMesg d.mesgNum fields b2) with
      | err x => rw [hdp] at f1 f2; simp only [] at f1 f2; rw [f1, f2]; exact rfl
      | panic => rw [hdp] at f1 f2; simp only [] at f1 f2; rw [f1, f2]; exact rfl
      | hang => rw [hdp] at f1 f2; simp only [] at f1 f2; rw [f1, f2]; exact rfl
      | ok q =>
        rw [hdp] at f1 f2
        obtain ⟨ev1, f1⟩ := f1
        obtain ⟨ev2, f2⟩ := f2
        rw [f1, f2]
        refine ⟨_, ev1, rfl, q.2, a3, a2', _, _, rfl, rfl, ?_⟩
        cases q.2.o.bo
        · simp only [Bool.false_eq_true, ↓reduceIte]; exact AllMatch.cons ⟨rfl, rfl, rfl, hsim⟩ hm
        · simp only [↓reduceIte]; exact hm

theorem Inv_ov (b : St) (e : Bool) (a : List AccEntry) (m : List Msg) : Inv (ov b e a m) ↔ Inv b := Iff.rfl

theorem decodeMessage_sim (b : St) (a a' : List AccEntry) (m m' : List Msg)
    (hi : Inv b) (hkey : NoKeyComps b.o.fac) (hm : AllMatch (MsgSim b.o.fac) m m') :
    SimRes b.o.fac (decodeMessage (ov b true a m)) (decodeMessage (ov b false a' m')) := by
  unfold decodeMessage
  simp only [readN_ov]
  have hsat := readN_sat 1 b (by decide) hi
  cases hr : readN 1 b with
  | err x => exact rfl
  | panic => exact rfl
  | hang => exact rfl
  | ok p =>
    obtain ⟨bs, s⟩ := p
    rw [hr] at hsat
    obtain ⟨_, _, his, hrd, _⟩ := hsat
    have hso : s.o = b.o := hrd.choose_spec.2.2.2.1
    simp only [Res.map_ok, bind, Res.bind]
    cases idx bs 0 <;> try exact rfl
    rename_i header
    simp only []
    split
    · simp only [decodeDefinition_ov]
      cases decodeDefinition header s <;> try exact rfl
      rename_i q
      exact ⟨_, _, rfl, q.1, a, a', m, m', rfl, rfl, hm⟩
    · rw [← hso] at hkey hm ⊢
      exact decodeData_sim header s a a' m m' his hkey hm

theorem decodeMessages_sim : ∀ (fuel : Nat) (b : St) (a a' : List AccEntry) (m m' : List Msg),
    Inv b → NoKeyComps b.o.fac → AllMatch (MsgSim b.o.fac) m m' →
    (decodeMessages fuel (ov b true a m)).2.2 = (decodeMessages fuel (ov b false a' m')).2.2 ∧
    SimSt b.o.fac (decodeMessages fuel (ov b true a m)).1 (decodeMessages fuel (ov b false a' m')).1
  | 0, b, a, a', m, m', hi, hkey, hm => ⟨rfl, b, a, a', m, m', rfl, rfl, hm⟩
  | fuel + 1, b, a, a', m, m', hi, hkey, hm => by
    unfold decodeMessages
    have hc1 : ((ov b true a m).q.cur < (ov b true a m).q.hdr.dataSize) = (b.q.cur < b.q.hdr.dataSize) := rfl
    have hc2 : ((ov b false a' m').q.cur < (ov b false a' m').q.hdr.dataSize) = (b.q.cur < b.q.hdr.dataSize) := rfl
    simp only [hc1, hc2]
    by_cases hc : b.q.cur < b.q.hdr.dataSize
    · simp only [hc, ↓reduceIte]
      have hs := decodeMessage_sim b a a' m m' hi hkey hm
      have hsat := decodeMessage_sat (ov b false a' m') hi
      cases hoff : decodeMessage (ov b false a' m') with
      | err x => rw [hoff] at hs; simp only [SimRes] at hs; rw [hs]; exact ⟨rfl, b, a, a', m, m', rfl, rfl, hm⟩
      | panic => rw [hoff] at hs; simp only [SimRes] at hs; rw [hs]; exact ⟨rfl, b, a, a', m, m', rfl, rfl, hm⟩
      | hang => rw [hoff] at hs; simp only [SimRes] at hs; rw [hs]; exact ⟨rfl, b, a, a', m, m', rfl, rfl, hm⟩
      | ok p =>
        rw [hoff] at hs hsat
        obtain ⟨s', ev, hon, b1, a1, a1', m1, m1', rfl, hp, hm1⟩ := hs
        rw [hon]
        obtain ⟨t', ev'⟩ := p
        simp only [] at hp
        subst hp
        obtain ⟨⟨hi1, hrd⟩, _⟩ := hsat
        have ho : (ov b1 false a1' m1').o = (ov b false a' m').o := hrd.choose_spec.2.2.2.1
        have hf : b1.o.fac = b.o.fac := by
          show (ov b1 false a1' m1').o.fac = (ov b false a' m').o.fac
          rw [ho]
        rw [← hf] at hkey hm1 ⊢
        have ih := decodeMessages_sim fuel b1 a1 a1' m1 m1' hi1 hkey hm1
        exact ih
    · simp only [hc, ↓reduceIte]
      exact ⟨trivial, b, a, a', m, m', rfl, rfl, hm⟩

theorem AllMatch.append' {α β : Type} {R : α → β → Prop} {as cs : List α} {bs ds : List β}
    (h1 : AllMatch R as bs) (h2 : AllMatch R cs ds) : AllMatch R (as ++ cs) (bs ++ ds) := by
  induction h1 with
  | nil => exact h2
  | cons hab _ ih => exact AllMatch.cons hab ih

theorem AllMatch.reverse' {α β : Type} {R : α → β → Prop} {as : List α} {bs : List β}
    (h : AllMatch R as bs) : AllMatch R as.reverse bs.reverse := by
  induction h with
  | nil => exact AllMatch.nil
  | cons hab _ ih =>
    rw [List.reverse_cons, List.reverse_cons]
    exact AllMatch.append' ih (AllMatch.cons hab AllMatch.nil)

def FitSim (fac : Factory) (f g : Fit) : Prop :=
  f.hdr = g.hdr ∧ f.crc = g.crc ∧ AllMatch (MsgSim fac) f.msgs g.msgs

/-- `Decode` with expansion on against `Decode` with expansion off -/
def DecSim (fac : Factory) (ron roff : StepOut) : Prop :=
  match roff.2.1 with
  | .fit g => ∃ f b', ron.2.1 = .fit f ∧ FitSim fac f g ∧ ron.1 = ov b' true [] [] ∧ roff.1 = ov b' false [] [] ∧
      b'.o.fac = fac
  | out => ron.2.1 = out

theorem decodeBody_sim (b : St) (a a' : List AccEntry) (m m' : List Msg) (hi : Inv b) (he : b.q.err = none)
    (hkey : NoKeyComps b.o.fac) (hm : AllMatch (MsgSim b.o.fac) m m') :
    DecSim b.o.fac (decodeBody (ov b true a m)) (decodeBody (ov b false a' m')) := by
  unfold decodeBody
  simp only [headerOnce_ov]
  have hsat := headerOnce_sat b hi he
  cases hh : headerOnce b with
  | err x => exact rfl
  | panic => exact rfl
  | hang => exact rfl
  | ok s1 =>
    rw [hh] at hsat
    obtain ⟨hi1, ho1, _, _, _, _⟩ := hsat
    simp only [Res.map_ok]
    have hf1 : fuelOf (ov s1 true a m) = fuelOf s1 := rfl
    have hf2 : fuelOf (ov s1 false a' m') = fuelOf s1 := rfl
    rw [hf1, hf2]
    rw [← ho1] at hkey hm ⊢
    have hms := decodeMessages_sim (fuelOf s1) s1 a a' m m' hi1 hkey hm
    have hmsat := decodeMessages_sat (fuelOf s1) (ov s1 false a' m') hi1 (by show s1.rest.length < s1.rest.length + 1; omega)
    rcases hL1 : decodeMessages (fuelOf s1) (ov s1 true a m) with ⟨s2on, evs1, r1⟩
    rcases hL2 : decodeMessages (fuelOf s1) (ov s1 false a' m') with ⟨s2off, evs2, r2⟩
    rw [hL1, hL2] at hms
    rw [hL2] at hmsat
    obtain ⟨hr, b2, a2, a2', m2, m2', rfl, rfl, hm2⟩ := hms
    simp only [] at hr
    subst hr
    obtain ⟨_, hi2, hrd2, _⟩ := hmsat
    simp only [] at hi2 hrd2
    have ho2 : (ov b2 false a2' m2').o = (ov s1 false a' m').o := hrd2.choose_spec.2.2.2.1
    have hfac2 : b2.o.fac = s1.o.fac := by
      show (ov b2 false a2' m2').o.fac = (ov s1 false a' m').o.fac
      rw [ho2]
    cases r1 with
    | err x => exact rfl
    | panic => exact rfl
    | hang => exact rfl
    | ok u =>
      cases u
      simp only [decodeCRC_ov]
      cases hcrc : decodeCRC b2 with
      | err x => exact rfl
      | panic => exact rfl
      | hang => exact rfl
      | ok s3 =>
        have hc3 := decodeCRC_sat b2 hi2
        rw [hcrc] at hc3
        obtain ⟨c0, c1, _, heq, _⟩ := hc3
        have ho3 : s3.o = b2.o := by rw [heq]
        refine ⟨_, release (resetSeq s3), rfl, ⟨rfl, rfl, AllMatch.reverse' hm2⟩, rfl, rfl, ?_⟩
        show s3.o.fac = s1.o.fac
        rw [ho3, hfac2]

theorem stepDecode_sim (b : St) (a a' : List AccEntry) (m m' : List Msg) (hi : Inv b)
    (hkey : NoKeyComps b.o.fac) (hm : AllMatch (MsgSim b.o.fac) m m') :
    DecSim b.o.fac (stepDecode (ov b true a m)) (stepDecode (ov b false a' m')) := by
  unfold stepDecode
  have h1 : (ov b true a m).q.err = b.q.err := rfl
  have h2 : (ov b false a' m').q.err = b.q.err := rfl
  rw [h1, h2]
  cases he : b.q.err with
  | some x => exact rfl
  | none => exact decodeBody_sim b a a' m m' hi he hkey hm

theorem stepNext_ov (z : Bool) (b : St) (e : Bool) (a : List AccEntry) (m : List Msg) :
    stepNext z (ov b e a m) = (ov (stepNext z b).1 e a m, (stepNext z b).2.1, (stepNext z b).2.2) := by
  unfold stepNext
  have h1 : (ov b e a m).q.err = b.q.err := rfl
  rw [h1, headerOnce_ov]
  cases b.q.err with
  | some x => rfl
  | none =>
    simp only []
    cases z
    · simp only [Bool.false_eq_true, ↓reduceIte]
      cases headerOnce b <;> rfl
    · rfl

theorem stepNext_o (z : Bool) (s : St) (hi : Inv s) : (stepNext z s).1.o = s.o := by
  unfold stepNext
  cases he : s.q.err with
  | some x => rfl
  | none =>
    simp only []
    cases z
    · simp only [Bool.false_eq_true, ↓reduceIte]
      have := headerOnce_sat s hi he
      cases hh : headerOnce s with
      | ok s1 => rw [hh] at this; exact this.2.1
      | _ => rfl
    · rfl

theorem decodeLoop_sim (fac : Factory) (w : List Nat) : ∀ (fuel : Nat) (B : St) (a a' : List AccEntry) (m m' : List Msg) (n : Nat),
    Inv B → B.o.fac = fac → NoKeyComps fac → AllMatch (MsgSim fac) m m' →
    (Fit.E2E.decodeLoop fuel { d := ov B true a m, whole := w, n := n }).2 =
      (Fit.E2E.decodeLoop fuel { d := ov B false a' m', whole := w, n := n }).2 ∧
    AllMatch (FitSim fac) (Fit.E2E.decodeLoop fuel { d := ov B true a m, whole := w, n := n }).1
      (Fit.E2E.decodeLoop fuel { d := ov B false a' m', whole := w, n := n }).1
  | 0, B, a, a', m, m', n, hi, hf, hkey, hm => ⟨rfl, AllMatch.nil⟩
  | fuel + 1, B, a, a', m, m', n, hi, hf, hkey, hm => by
    unfold Fit.E2E.decodeLoop
    have hN : ∀ (e : Bool) (a : List AccEntry) (m : List Msg), step { d := ov B e a m, whole := w, n := n } .next =
        ({ d := ov (stepNext (n == 0) B).1 e a m, whole := w, n := n + (B.rest.length - (stepNext (n == 0) B).1.rest.length) },
          (stepNext (n == 0) B).2.1, (stepNext (n == 0) B).2.2) := by
      intro e a m
      simp only [step, stepNext_ov, Api.advance]
      rfl
    rw [hN, hN]
    have hgood := stepNext_good (n == 0) B hi
    have ho1 := stepNext_o (n == 0) B hi
    rcases hS : stepNext (n == 0) B with ⟨B1, out, evs⟩
    rw [hS] at hgood ho1
    have hi1 : Inv B1 := hgood.2.2.1
    simp only [] at ho1
    cases out with
    | bool bb =>
      cases bb with
      | false => exact ⟨rfl, AllMatch.nil⟩
      | true =>
        simp only []
        have hD : ∀ (e : Bool) (a : List AccEntry) (m : List Msg) (k : Nat), step { d := ov B1 e a m, whole := w, n := k } .decode =
            ({ d := (stepDecode (ov B1 e a m)).1, whole := w, n := k + (B1.rest.length - (stepDecode (ov B1 e a m)).1.rest.length) },
              (stepDecode (ov B1 e a m)).2.1, (stepDecode (ov B1 e a m)).2.2) := by
          intro e a m k
          simp only [step, Api.advance]
          rfl
        rw [hD, hD]
        have hf1 : B1.o.fac = fac := by rw [ho1]; exact hf
        have hsim := stepDecode_sim B1 a a' m m' hi1 (by rw [hf1]; exact hkey) (by rw [hf1]; exact hm)
        have hg2 := stepDecode_good (ov B1 false a' m') hi1
        rcases hOn : stepDecode (ov B1 true a m) with ⟨s2, out2, ev2⟩
        rcases hOff : stepDecode (ov B1 false a' m') with ⟨t2, out2', ev2'⟩
        rw [hOn, hOff, hf1] at hsim
        rw [hOff] at hg2
        have hi2 : Inv t2 := hg2.2.2.1
        cases out2' with
        | fit g =>
          obtain ⟨f, b', h1, hfs, h2, h3, h4⟩ := hsim
          simp only [] at h1 h2 h3
          subst h1; subst h2; subst h3
          simp only []
          have ih := decodeLoop_sim fac w fuel b' [] [] [] [] (n + (B.rest.length - B1.rest.length) + (B1.rest.length - b'.rest.length))
            hi2 h4 hkey AllMatch.nil
          exact ⟨ih.1, AllMatch.cons hfs ih.2⟩
        | _ =>
          simp only [DecSim] at hsim
          subst hsim
          exact ⟨rfl, AllMatch.nil⟩
    | _ => exact ⟨rfl, AllMatch.nil⟩

/-- **the decoder with expansion ON is simulated by the decoder with expansion OFF** over the whole `Next` / `Decode` loop -/
theorem expansion_on_main (o : Opts) (bytes : List Nat) (hf : FacOK o.fac) (hkey : NoKeyComps o.fac) (hb : ∀ b ∈ bytes, b < 256) :
    (Fit.E2E.decodeChain { o with exp := true } bytes).2 = (Fit.E2E.decodeChain { o with exp := false } bytes).2 ∧
    AllMatch (FitSim o.fac) (Fit.E2E.decodeChain { o with exp := true } bytes).1
      (Fit.E2E.decodeChain { o with exp := false } bytes).1 := by
  have hi : Inv (St.fresh o bytes) := ⟨hb, DefsOK.empty, (by decide : (0 : Nat) < 4294967296), hf⟩
  exact decodeLoop_sim o.fac bytes (bytes.length + 1) (St.fresh o bytes) [] [] [] [] 0 hi rfl hkey AllMatch.nil
end Fit.DecApi
