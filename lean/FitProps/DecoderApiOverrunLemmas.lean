import FitProps.DecoderApiLemmas
/-! The last record of an accepted sequence starts strictly inside the declared data size: the record loop
`for d.cur < d.fileHeader.DataSize { decodeMessage }` enters a record only while `d.cur < DataSize`, so the bytes by which
the records overrun the declared size are fewer than the bytes of the last record. -/
namespace Fit.DecApi
open Fit.Crc

/-- how a successful run of the record loop from `s` to `sf` ended: no record at all (`cur` was already past the data
size), or a last record read by ONE `decodeMessage` from a state `sl` with `sl.cur < dataSize` -/
def LastRec (s sf : St) : Prop :=
  (sf = s ∧ ¬ s.q.cur < s.q.hdr.dataSize) ∨
  ∃ sl ev, Reads s sl ∧ Inv sl ∧ sl.q.cur < sl.q.hdr.dataSize ∧ decodeMessage sl = .ok (sf, ev) ∧ Reads sl sf

theorem decodeMessages_last : ∀ (fuel : Nat) (s : St), Inv s → s.rest.length < fuel →
    ∀ sf evs, decodeMessages fuel s = (sf, evs, .ok ()) → LastRec s sf
  | 0, s, _, hf => by omega
  | fuel + 1, s, hi, hf => by
    intro sf evs h
    unfold decodeMessages at h
    by_cases hc : s.q.cur < s.q.hdr.dataSize
    · simp only [hc, if_true] at h
      have hm := decodeMessage_sat s hi
      cases hd : decodeMessage s with
      | ok p =>
        obtain ⟨s1, ev⟩ := p
        rw [hd] at hm h
        obtain ⟨m1, hlt⟩ := hm
        simp only at m1 hlt h
        rcases hr : decodeMessages fuel s1 with ⟨sf', evs', r'⟩
        rw [hr] at h
        simp only [Prod.mk.injEq] at h
        obtain ⟨rfl, _, rfl⟩ := h
        rcases decodeMessages_last fuel s1 m1.1 (by omega) sf' evs' hr with ⟨rfl, _⟩ | ⟨sl, ev', r1, il, hl, hdl, rl⟩
        · exact Or.inr ⟨s, ev, Reads.refl s hi.2.2.1, hi, hc, hd, m1.2⟩
        · exact Or.inr ⟨sl, ev', m1.2.trans r1, il, hl, hdl, rl⟩
      | err e => rw [hd] at h; simp [loopFail] at h
      | panic => rw [hd] at h; simp [loopFail] at h
      | hang => rw [hd] at h; simp [loopFail] at h
    · simp only [hc, if_false, Prod.mk.injEq] at h
      exact Or.inl ⟨h.1.symm, hc⟩

/-- **the last record of an accepted sequence starts strictly inside the declared data size**, and it is ONE record: the
bytes of the sequence are header ++ earlier records ++ last record ++ CRC with `|earlier records| < dataSize ≤ |earlier
records| + |last record|`, the last record being exactly what one `decodeMessage` consumed (from a decoder state `sl` reached
by reading the earlier records) -/
theorem decode_fresh_last (o : Opts) (bytes : List Nat) (hb : IsBytes bytes) (hfac : FacOK o.fac) (hlen : bytes.length < 4294967296)
    (s' : St) (f : Fit) (evs : List Event) (h : stepDecode (St.fresh o bytes) = (s', .fit f, evs)) :
    ∃ hdr recs₀ last c0 c1 sl sf ev, bytes = hdr ++ recs₀ ++ last ++ [c0, c1] ++ s'.rest ∧ HdrOK o.chk 0 hdr f.hdr ∧
      recs₀.length < f.hdr.dataSize ∧ f.hdr.dataSize ≤ recs₀.length + last.length ∧
      sl.rest = last ++ sf.rest ∧ sf.rest = [c0, c1] ++ s'.rest ∧ decodeMessage sl = .ok (sf, ev) := by
  have hi : Inv (St.fresh o bytes) := ⟨hb, DefsOK.empty, (by decide : (0 : Nat) < 4294967296), hfac⟩
  unfold stepDecode decodeBody at h
  simp only [St.fresh] at h
  have hh := decodeFileHeader_sat (St.fresh o bytes) hi
  unfold headerOnce at h
  simp only [Bool.false_eq_true, if_false] at h
  simp only [St.fresh] at hh
  cases hr : decodeFileHeader { o := o, rest := bytes } with
  | err e => rw [hr] at h; simp [failHeader, fail] at h
  | panic => rw [hr] at hh; exact hh.elim
  | hang => rw [hr] at hh; exact hh.elim
  | ok s1 =>
    rw [hr] at hh h
    obtain ⟨hbs, hd, h1, h2, hok⟩ := hh
    simp only at h h1 h2 hok
    have i1 : Inv { s1 with q := { s1.q with hdrDone := true } } := by
      rw [h2]
      have : IsBytes (hbs ++ s1.rest) := h1 ▸ hb
      exact ⟨(IsBytes.append.mp this).2, DefsOK.empty, (by decide : (0 : Nat) < 4294967296), hfac⟩
    have hm := decodeMessages_sat (fuelOf { s1 with q := { s1.q with hdrDone := true } }) _ i1 (by simp [fuelOf])
    rcases hd' : decodeMessages (fuelOf { s1 with q := { s1.q with hdrDone := true } }) { s1 with q := { s1.q with hdrDone := true } } with ⟨s2, evs2, r⟩
    rw [hd'] at hm h
    obtain ⟨_, i2, r2, hex⟩ := hm
    simp only at i2 r2 hex h
    cases r with
    | err e => simp [fail] at h
    | panic => simp [fail] at h
    | hang => simp [fail] at h
    | ok u =>
      simp only at h
      have hlast := decodeMessages_last _ _ i1 (by simp [fuelOf]) s2 evs2 hd'
      have hc := decodeCRC_sat s2 i2
      cases hcr : decodeCRC s2 with
      | err e => rw [hcr] at h; simp [fail] at h
      | panic => rw [hcr] at hc; exact hc.elim
      | hang => rw [hcr] at hc; exact hc.elim
      | ok s3 =>
        rw [hcr] at hc h
        obtain ⟨c0, c1, g1, g2, gchk⟩ := hc
        simp only [Prod.mk.injEq, Out.fit.injEq] at h
        obtain ⟨hs', hf, _⟩ := h
        have hs1q : s1.q.cur = 0 ∧ s1.q.hdr = hd := by rw [h2]; exact ⟨rfl, rfl⟩
        obtain ⟨c, rc, ucur, _, _, uhdr, _, _⟩ := r2
        simp only at rc ucur uhdr
        have hfh : f.hdr = hd := by
          rw [← hf]; show s3.q.hdr = hd
          rw [g2]; show s2.q.hdr = hd
          rw [uhdr]; exact hs1q.2
        have hs'r : s'.rest = s3.rest := by rw [← hs']; rfl
        rcases hlast with ⟨_, hno⟩ | ⟨sl, ev, ra, il, hl, hdl, rb⟩
        · -- no record at all: impossible, the header's data size is not 0 and `cur` starts at 0
          exfalso
          apply hno
          show s1.q.cur < s1.q.hdr.dataSize
          rw [hs1q.1, hs1q.2]
          have := hok.dataSize.2
          omega
        · obtain ⟨ca, rca, uca, _, _, hha, _, _⟩ := ra
          obtain ⟨cb, rcb, _, _, _, _, _, _⟩ := rb
          simp only at rca uca hha rcb
          have hcalen : ca.length < 4294967296 := by
            have : bytes.length = hbs.length + (ca.length + sl.rest.length) := by rw [h1, rca]; simp
            omega
          have hslcur : sl.q.cur = ca.length := by
            rw [uca, hs1q.1, Nat.zero_add, Nat.mod_eq_of_lt hcalen]
          have hsld : sl.q.hdr.dataSize = f.hdr.dataSize := by rw [hha, hfh]; show s1.q.hdr.dataSize = _; rw [hs1q.2]
          refine ⟨hbs, ca, cb, c0, c1, sl, s2, ev, ?_, ?_, ?_, ?_, rcb, ?_, hdl⟩
          · rw [hs'r, h1, rca, rcb, g1]; simp
          · rw [hfh]; exact hok
          · rw [← hsld, ← hslcur]; exact hl
          · -- the loop ended: `cur ≥ dataSize`
            have hend := hex rfl
            have hcc : c = ca ++ cb := by
              have e1 : s1.rest = c ++ s2.rest := rc
              have e2 : s1.rest = ca ++ (cb ++ s2.rest) := by rw [rca, rcb]
              rw [e1, ← List.append_assoc] at e2
              exact List.append_cancel_right e2
            have hclen : c.length < 4294967296 := by
              have : bytes.length = hbs.length + (c.length + s2.rest.length) := by rw [h1, rc]; simp
              omega
            rw [ucur, hs1q.1, Nat.zero_add, Nat.mod_eq_of_lt hclen, uhdr] at hend
            have : s1.q.hdr.dataSize = f.hdr.dataSize := by rw [hs1q.2, hfh]
            rw [hcc, List.length_append] at hend
            show f.hdr.dataSize ≤ ca.length + cb.length
            have hx : ({ s1 with q := { s1.q with hdrDone := true } } : St).q.hdr.dataSize = s1.q.hdr.dataSize := rfl
            omega
          · rw [hs'r]; exact g1

end Fit.DecApi
