import FitProps.CsvLemmas
/-! More of the fitconv model (C19): arrays, unknown fields and messages under verbose, developer fields, sub-field
substitution and its reversal. Core Lean only. -/
set_option linter.unusedSimpArgs false
set_option linter.unusedVariables false
namespace Fit.Csv
open Fit.Value Fit.Msg Fit.Gen Fit.Gen.Csv

/-! ### arrays: `|`-joined pieces -/

/-- the pieces one formatted element contributes to a cell -/
def pieceOf (a : Atom) : List Atom :=
  match a with
  | .str s => (splitBar s).map .str
  | a => [a]

theorem cellPieces_eq (as : List Atom) : cellPieces as = if as.isEmpty then [.str []] else as.flatMap pieceOf := by
  unfold cellPieces
  split
  · rfl
  · first
    | rfl
    | (congr 1; funext a; cases a <;> rfl)

theorem single_nonstr (a : Atom) (h : ∀ s, a ≠ .str s) : [a].flatMap pieceOf = [a] ∧ cellPieces [a] = [a] := by
  cases a <;> first
    | exact absurd rfl (h _)
    | exact ⟨rfl, rfl⟩

theorem flatMap_single {α β : Type} (f : α → β) : ∀ l : List α, l.flatMap (fun x => [f x]) = l.map f
  | [] => rfl
  | x :: xs => by simp [List.flatMap_cons, flatMap_single f xs]

/-- a decoded scalar is written as exactly one piece -/
theorem scalar_pieces {bt : Nat} {isBool : Bool} {e : Value} (h : scalarOK bt isBool e = true) :
    ∃ a, (formatAtoms e).flatMap pieceOf = [a] ∧ cellPieces (formatAtoms e) = [a] := by
  cases e <;> simp only [scalarOK, Bool.false_eq_true] at h <;>
    first
    | (refine ⟨_, single_nonstr _ ?_⟩; intro s hh; cases hh; done)
    | skip
  case string s =>
    simp only [Bool.and_eq_true] at h
    have hs := h.2
    refine ⟨.str s, ?_, ?_⟩
    · simp [formatAtoms, pieceOf, fmtStr_safe s hs, splitBar_safe s hs]
    · simp [formatAtoms, cellPieces, fmtStr_safe s hs, splitBar_safe s hs]

theorem parse_single (ar : Arith) (a : Atom) (bt : Nat) (isBool : Bool) (scale offset : Nat) (units : Txt) :
    parseCellValue ar [a] bt isBool false scale offset units = parseAtom ar a bt isBool scale offset units := by
  simp [parseCellValue]

/-- the one piece of a decoded scalar reads back as the scalar -/
theorem atom_rt (ar : Arith) (bt : Nat) (isBool : Bool) (scale offset : Nat) (units : Txt) (e : Value)
    (h : scalarOK bt isBool e = true) (hu : ¬(units = degreesTxt ∧ bt = btSint32))
    (hf : (bt = btFloat32 ∨ bt = btFloat64) → isScaledField scale offset = false) :
    ∃ a, (formatAtoms e).flatMap pieceOf = [a] ∧ parseAtom ar a bt isBool scale offset units = .ok (csvNormS e) := by
  obtain ⟨a, h1, h2⟩ := scalar_pieces h
  refine ⟨a, h1, ?_⟩
  have := scalar_rt ar bt isBool scale offset units e h hu hf
  rw [h2, parse_single] at this
  exact this

/-- the formatter prints an array element by element -/
theorem formatAtoms_slice {v : Value} {es : List Value} (he : elemsOf v = (es, true)) :
    formatAtoms v = es.flatMap formatAtoms := by
  cases v <;> simp only [elemsOf, Prod.mk.injEq, Bool.false_eq_true, and_false, and_true] at he <;> subst he <;>
    simp only [formatAtoms, List.flatMap_map, natAtom] <;>
    first
    | (rw [flatMap_single]; done)
    | (rw [flatMap_single]; apply List.map_congr_left; intro x _; congr 1; done)
    | (rw [flatMap_single]; apply List.map_congr_left; intro x _; congr 1; omega)
    | (rw [flatMap_single]; apply List.map_congr_left; intro x _; simp)

theorem mapR_elems (ar : Arith) (bt : Nat) (isBool : Bool) (scale offset : Nat) (units : Txt)
    (hu : ¬(units = degreesTxt ∧ bt = btSint32))
    (hf : (bt = btFloat32 ∨ bt = btFloat64) → isScaledField scale offset = false) :
    ∀ es : List Value, (∀ e ∈ es, scalarOK bt isBool e = true) →
      ((es.flatMap formatAtoms).flatMap pieceOf).length = es.length ∧
      mapR (fun a => parseAtom ar a bt isBool scale offset units) ((es.flatMap formatAtoms).flatMap pieceOf) = .ok (es.map csvNormS)
  | [], _ => ⟨rfl, rfl⟩
  | e :: es, h => by
    obtain ⟨a, h1, h2⟩ := atom_rt ar bt isBool scale offset units e (h e (List.mem_cons_self ..)) hu hf
    obtain ⟨ih1, ih2⟩ := mapR_elems ar bt isBool scale offset units hu hf es (fun x hx => h x (List.mem_cons_of_mem _ hx))
    simp only [List.flatMap_cons, List.flatMap_append, h1, List.cons_append, List.nil_append, List.length_cons, ih1, mapR, h2, ih2,
      List.map_cons, and_self]

/-- **an array survives the round trip through its `|`-joined cell**: element by element, for a non-empty array of
decoded scalars of the field's base type (strings within the safe alphabet), read as an array because the field is an
array field or because there are several pieces -/
theorem array_rt (ar : Arith) (bt : Nat) (isBool : Bool) (scale offset : Nat) (units : Txt) (v : Value) (es : List Value)
    (he : elemsOf v = (es, true)) (hne : es ≠ []) (hall : ∀ e ∈ es, scalarOK bt isBool e = true)
    (hu : ¬(units = degreesTxt ∧ bt = btSint32))
    (hf : (bt = btFloat32 ∨ bt = btFloat64) → isScaledField scale offset = false)
    (array : Bool) (hflag : array = true ∨ es.length ≠ 1) :
    parseCellValue ar (cellPieces (formatAtoms v)) bt isBool array scale offset units = .ok (packValues (es.map csvNormS)) := by
  obtain ⟨hl, hm⟩ := mapR_elems ar bt isBool scale offset units hu hf es hall
  have hnil : (es.flatMap formatAtoms).isEmpty = false := by
    cases hh : es.flatMap formatAtoms with
    | nil => rw [hh] at hl; simp at hl; exact absurd (List.eq_nil_of_length_eq_zero hl.symm) hne
    | cons _ _ => rfl
  rw [formatAtoms_slice he, cellPieces_eq, hnil]
  simp only [Bool.false_eq_true, ↓reduceIte]
  unfold parseCellValue
  have hc : (((es.flatMap formatAtoms).flatMap pieceOf).length != 1 || array) = true := by
    rcases hflag with h | h
    · simp [h]
    · simp [hl, h]
  rw [if_pos hc, hm]

/-- a decoded value (`valueOK`) — scalar, or non-empty array read as an array — survives the round trip through its cell -/
theorem value_rt (ar : Arith) (bt : Nat) (isBool : Bool) (scale offset : Nat) (units : Txt) (v : Value)
    (h : valueOK bt isBool v = true) (hu : ¬(units = degreesTxt ∧ bt = btSint32))
    (hf : (bt = btFloat32 ∨ bt = btFloat64) → isScaledField scale offset = false)
    (array : Bool) (hflag : (elemsOf v).2 = false ∧ array = false ∨ (elemsOf v).2 = true ∧ (array = true ∨ (elemsOf v).1.length ≠ 1)) :
    parseCellValue ar (cellPieces (formatAtoms v)) bt isBool array scale offset units = .ok (csvNorm v) := by
  unfold valueOK at h
  cases he : elemsOf v with
  | mk es sl =>
    rw [he] at h hflag
    simp only [Bool.and_eq_true, Bool.not_eq_true', List.all_eq_true] at h
    obtain ⟨hne, hall⟩ := h
    unfold csvNorm
    rw [he]
    rcases hflag with ⟨h1, h2⟩ | ⟨h1, h2⟩
    · simp only at h1
      subst h1; subst h2
      -- a scalar: `elemsOf v = ([v], false)`
      have hv : es = [v] := by
        cases v <;> simp only [elemsOf, Prod.mk.injEq, reduceCtorEq, and_false, and_true, Bool.true_eq_false] at he <;> exact he.symm
      subst hv
      simp only [Bool.false_eq_true, ↓reduceIte]
      exact scalar_rt ar bt isBool scale offset units v (hall v (List.mem_cons_self ..)) hu hf
    · simp only at h1 h2
      subst h1
      simp only [↓reduceIte]
      have hne' : es ≠ [] := by intro h0; rw [h0] at hne; simp at hne
      exact array_rt ar bt isBool scale offset units v es he hne' hall hu hf array h2

/-- **a known field, scalar or array, survives the round trip through its cell** (raw mode or a field without
scale/offset; no sub-field substitution) -/
theorem field_rt_value (ar : Arith) (o : Opts) (ds : List Desc) (msg : Message) (fld : Field) (pm : PMesg) (p : PField)
    (hpm : pm ∈ profile) (hnum : pm.num = msg.num) (hn : msg.num < mfgRangeMin) (hp : p ∈ pm.fields)
    (hfn : fieldNumOf fld = p.num)
    (hdeg : o.degrees = false) (hraw : o.raw = true ∨ isScaledField p.scale p.offset = false)
    (hsub : substitute msg.fields p.subs = none) (harr : (elemsOf fld.value).2 = p.array)
    (hv : valueOK p.bt p.isBool fld.value = true) :
    readCell ar ds msg.num (writeField o msg fld) = .ok (.field (mkField p.num p.bt (csvNorm fld.value))) := by
  obtain ⟨h1, h2, h3, h4, h5, hfl⟩ := field_facts hpm (hnum ▸ hn) hp
  rw [hnum] at h1 h2
  have hw : writeField o msg fld = ⟨txt p.name, cellPieces (formatAtoms fld.value), txt p.units⟩ := by
    simp only [writeField, hfn, h2, hsub, hdeg, Bool.false_and, Bool.false_eq_true, ↓reduceIte]
    congr 1
    simp only [fieldAtoms, hdeg, Bool.false_and, Bool.false_eq_true, ↓reduceIte]
    rcases hraw with hr | hs
    · simp [hr]
    · simp [hs]
  rw [hw]
  have hflag : (elemsOf fld.value).2 = false ∧ p.array = false ∨
      (elemsOf fld.value).2 = true ∧ (p.array = true ∨ (elemsOf fld.value).1.length ≠ 1) := by
    cases hs : (elemsOf fld.value).2
    · left; exact ⟨rfl, by rw [← harr, hs]⟩
    · right; exact ⟨rfl, Or.inl (by rw [← harr, hs])⟩
  have := value_rt ar p.bt p.isBool p.scale p.offset (txt p.units) fld.value hv h5 hfl p.array hflag
  simp only [readCell, h3, Bool.false_eq_true, ↓reduceIte, h1, h2]
  rw [this]
  simp

/-! ### unknown fields and messages under verbose: `unknown(N)` -/

theorem natOfDigits_append (a b : Txt) : natOfDigits (a ++ b) = b.foldl (fun a d => a * 10 + (d - 48)) (natOfDigits a) := by
  unfold natOfDigits; rw [List.foldl_append]

theorem natDigits_spec (n : Nat) : natOfDigits (natDigits n) = n ∧ (natDigits n).all isDigit = true ∧ natDigits n ≠ [] := by
  rw [natDigits]
  split
  · rename_i h
    refine ⟨by simp [natOfDigits], by simp [isDigit]; omega, by simp⟩
  · rename_i h
    obtain ⟨ih1, ih2, ih3⟩ := natDigits_spec (n / 10)
    refine ⟨?_, ?_, by simp⟩
    · rw [natOfDigits_append, ih1]
      show (n / 10) * 10 + (48 + n % 10 - 48) = n
      omega
    · simp only [List.all_append, ih2, List.all_cons, List.all_nil, Bool.and_true, Bool.true_and, isDigit,
        Bool.and_eq_true, decide_eq_true_eq]
      omega
termination_by n
decreasing_by omega

theorem filter_eq_self_of_all {α : Type} {p : α → Bool} {l : List α} (h : l.all p = true) : l.filter p = l :=
  List.filter_eq_self.mpr (fun a ha => List.all_eq_true.mp h a ha)

/-- the digits of "unknown(N)" are the digits of N -/
theorem digitsOf_formatUnknown (n : Nat) : digitsOf (formatUnknown n) = natDigits n := by
  unfold digitsOf formatUnknown
  simp only [List.filter_append, filter_eq_self_of_all (natDigits_spec n).2.1]
  have h1 : unknownTxt.filter isDigit = [] := by decide +kernel
  have h2 : (txt "(").filter isDigit = [] := by decide +kernel
  have h3 : (txt ")").filter isDigit = [] := by decide +kernel
  rw [h1, h2, h3]; simp

theorem formatUnknown_nonempty (n : Nat) : (formatUnknown n).isEmpty = false := by
  have h : unknownTxt ≠ [] := by decide +kernel
  unfold formatUnknown
  cases hu : unknownTxt with
  | nil => exact absurd hu h
  | cons _ _ => rfl

theorem prefix_formatUnknown (n : Nat) : isPrefixOf' unknownTxt (formatUnknown n) = true := by
  unfold isPrefixOf' formatUnknown
  simp [List.append_assoc, List.take_left']


theorem lookup_mem' {α β : Type} [BEq α] [LawfulBEq α] : ∀ (l : List (α × β)) (a : α) (b : β), l.lookup a = some b → (a, b) ∈ l :=
  lookup_mem

theorem lookupFieldNum_unknown (mesgNum : Nat) (name : Txt) (h : isPrefixOf' unknownTxt name = true) :
    lookupFieldNum mesgNum name = none := by
  have ht := lookupNamesOK_true
  simp only [lookupNamesOK, Bool.and_eq_true, List.all_eq_true, Bool.not_eq_true'] at ht
  unfold lookupFieldNum
  split
  · cases hr : fieldNumLookup.lookup mesgNum with
    | none => rfl
    | some row =>
      have hmem := lookup_mem _ _ _ hr
      simp only [Option.map_eq_none_iff, List.find?_eq_none, beq_iff_eq]
      intro x hx hxe
      have := ht.1 (mesgNum, row) hmem x hx
      rw [hxe, h] at this; cases this
  · rfl

theorem lookupMesgNum_unknown (name : Txt) (h : isPrefixOf' unknownTxt name = true) : lookupMesgNum name = none := by
  have ht := lookupNamesOK_true
  simp only [lookupNamesOK, Bool.and_eq_true, List.all_eq_true, Bool.not_eq_true'] at ht
  unfold lookupMesgNum
  simp only [Option.map_eq_none_iff, List.find?_eq_none, beq_iff_eq]
  intro x hx hxe
  have := ht.2 x hx
  rw [hxe, h] at this; cases this


/-- **an unknown field survives the round trip with the verbose option**: written as `unknown(N)` with the base type's
name in the units cell, read back as field N of that base type with its value (scalar, or an array of at least two
elements: a one-element array of a field without profile entry is read as a scalar, which is also what the decoder
makes of it) -/
theorem unknown_field_rt (ar : Arith) (o : Opts) (ds : List Desc) (msg : Message) (fld : Field)
    (hverb : o.verbose = true) (hunk : pfield msg.num (fieldNumOf fld) = none) (hnum : fieldNumOf fld < 256)
    (hbt : ∃ s, (fieldBtOf fld, s) ∈ baseTypeNames) (hv : valueOK (fieldBtOf fld) false fld.value = true)
    (hshape : (elemsOf fld.value).2 = true → (elemsOf fld.value).1.length ≠ 1) :
    readCell ar ds msg.num (writeField o msg fld) =
      .ok (.field (mkField (fieldNumOf fld) (fieldBtOf fld) (csvNorm fld.value))) := by
  have hw : writeField o msg fld =
      ⟨formatUnknown (fieldNumOf fld), cellPieces (formatAtoms fld.value), baseTypeName (fieldBtOf fld)⟩ := by
    simp [writeField, hunk, hverb]
  rw [hw]
  obtain ⟨s, hs⟩ := hbt
  have htab := baseTypeNamesOK_true
  simp only [baseTypeNamesOK, List.all_eq_true, Bool.and_eq_true, beq_iff_eq, bne_iff_ne, ne_eq] at htab
  obtain ⟨hback, hnd⟩ := htab _ hs
  simp only at hback hnd
  have hpre := prefix_formatUnknown (fieldNumOf fld)
  have hne : (formatUnknown (fieldNumOf fld)).isEmpty = false := formatUnknown_nonempty _
  have hdig := digitsOf_formatUnknown (fieldNumOf fld)
  obtain ⟨hd1, _, hd3⟩ := natDigits_spec (fieldNumOf fld)
  have hde : (natDigits (fieldNumOf fld)).isEmpty = false := by
    cases hh : natDigits (fieldNumOf fld) with
    | nil => exact absurd hh hd3
    | cons _ _ => rfl
  have hflag : (elemsOf fld.value).2 = false ∧ false = false ∨
      (elemsOf fld.value).2 = true ∧ (false = true ∨ (elemsOf fld.value).1.length ≠ 1) := by
    cases hsl : (elemsOf fld.value).2
    · left; exact ⟨rfl, rfl⟩
    · right; exact ⟨rfl, Or.inr (hshape hsl)⟩
  have hrt := value_rt ar (fieldBtOf fld) false f64One 0 (baseTypeName (fieldBtOf fld)) fld.value hv
    (fun h => hnd h.1) (fun _ => by decide) false hflag
  have hlt : ¬ (fieldNumOf fld ≥ 256) := by omega
  simp only [readCell, hne, Bool.false_eq_true, ↓reduceIte, lookupFieldNum_unknown _ _ hpre, hpre, hdig, hde, hd1,
    Bool.true_and, decide_eq_true_eq, hlt, hunk, hback, hrt]

/-! ### developer fields -/

theorem csvNormS_ne_invalid {bt : Nat} {isBool : Bool} {e : Value} (h : scalarOK bt isBool e = true) : csvNormS e ≠ .invalid := by
  cases e <;> simp only [scalarOK, Bool.false_eq_true] at h <;> simp [csvNormS, mkBool]

theorem csvNorm_ne_invalid {bt : Nat} {isBool : Bool} {v : Value} (h : valueOK bt isBool v = true) : csvNorm v ≠ .invalid := by
  unfold valueOK at h
  unfold csvNorm
  cases v <;> simp only [elemsOf, Bool.and_eq_true, Bool.not_eq_true', List.all_eq_true, List.mem_cons, List.not_mem_nil, or_false,
      forall_eq, List.isEmpty_eq_false_iff, ne_eq, List.map_eq_nil_iff] at h <;>
    simp only [elemsOf, Bool.false_eq_true, ↓reduceIte]
  all_goals first
    | exact csvNormS_ne_invalid h.2
    | (obtain ⟨hne, hall⟩ := h
       rename_i vs
       cases vs with
       | nil => exact absurd rfl hne
       | cons x xs => simp [packValues, csvNormS, mkBool])

/-- **a developer field survives the round trip through its cell**: written under the name (and units) of the most
recent description of its (developer data index, field number), read back through the most recent description
carrying that name — the same one when names are unique —, with the description's base type; the description's scale
and offset play no part (the writer does not apply them, the reader — since the fix of KF-C19-6 — does not discard them) -/
theorem dev_field_rt (ar : Arith) (o : Opts) (ds : List Desc) (mesgNum : Nat) (dv : DevField) (d : Desc)
    (hfind : findDesc ds dv.devIdx dv.num = some d)
    (hname : ds.reverse.find? (fun x => x.name == d.name) = some d)
    (hnative : lookupFieldNum mesgNum d.name = none) (hne : d.name.isEmpty = false)
    (hunk : isPrefixOf' unknownTxt d.name = false)
    (hv : valueOK d.bt false dv.value = true) (hdeg : ¬(d.units = degreesTxt ∧ d.bt = btSint32))
    (hshape : (elemsOf dv.value).2 = true → (elemsOf dv.value).1.length ≠ 1) :
    readCell ar ds mesgNum (writeDev o ds dv) = .ok (.dev ⟨dv.devIdx, dv.num, csvNorm dv.value⟩) := by
  have hw : writeDev o ds dv = ⟨d.name, cellPieces (formatAtoms dv.value), d.units⟩ := by simp [writeDev, hfind]
  rw [hw]
  have hkey : d.devIdx = dv.devIdx ∧ d.num = dv.num := by
    have := List.find?_some hfind
    simpa using this
  have hninv := csvNorm_ne_invalid hv
  have hf : (d.bt = btFloat32 ∨ d.bt = btFloat64) → isScaledField f64One 0 = false := fun _ => by decide
  simp only [readCell, hne, Bool.false_eq_true, ↓reduceIte, hnative, hunk, hname]
  cases hsl : (elemsOf dv.value).2
  · -- scalar: one piece
    have hflag : (elemsOf dv.value).2 = false ∧ false = false ∨
        (elemsOf dv.value).2 = true ∧ (false = true ∨ (elemsOf dv.value).1.length ≠ 1) := Or.inl ⟨hsl, rfl⟩
    have hrt := value_rt ar d.bt false f64One 0 d.units dv.value hv hdeg hf false hflag
    -- the cell has exactly one piece
    have hone : ∃ a, cellPieces (formatAtoms dv.value) = [a] := by
      unfold valueOK at hv
      have hv1 : elemsOf dv.value = ([dv.value], false) := by
        cases hdv : dv.value <;> rw [hdv] at hsl <;> simp [elemsOf] at hsl ⊢
      rw [hv1] at hv
      simp only [Bool.and_eq_true, List.all_cons, List.all_nil, Bool.and_true] at hv
      obtain ⟨a, _, ha⟩ := scalar_pieces hv.2
      exact ⟨a, ha⟩
    obtain ⟨a, ha⟩ := hone
    rw [ha] at hrt ⊢
    rw [parse_single] at hrt
    simp only [List.length_cons, List.length_nil, Nat.zero_add, bne_self_eq_false, Bool.false_eq_true, ↓reduceIte, hrt]
    cases hc : csvNorm dv.value <;> first
      | exact absurd hc hninv
      | simp [hkey.1, hkey.2]
  · have hlen := hshape hsl
    have hflag : (elemsOf dv.value).2 = false ∧ false = false ∨
        (elemsOf dv.value).2 = true ∧ (false = true ∨ (elemsOf dv.value).1.length ≠ 1) := Or.inr ⟨hsl, Or.inr hlen⟩
    have hrt := value_rt ar d.bt false f64One 0 d.units dv.value hv hdeg hf false hflag
    unfold parseCellValue at hrt
    -- several pieces
    by_cases hl : (cellPieces (formatAtoms dv.value)).length = 1
    · -- impossible: as many pieces as elements
      exfalso
      unfold valueOK at hv
      cases he : elemsOf dv.value with
      | mk es sl =>
        rw [he] at hv hsl hlen
        simp only at hsl hlen
        subst hsl
        simp only [Bool.and_eq_true, Bool.not_eq_true', List.all_eq_true] at hv
        obtain ⟨l1, _⟩ := mapR_elems ar d.bt false f64One 0 d.units hdeg hf es hv.2
        rw [formatAtoms_slice he, cellPieces_eq] at hl
        split at hl
        · rename_i hemp
          have : ((es.flatMap formatAtoms).flatMap pieceOf).length = 0 := by
            rw [List.isEmpty_iff.mp hemp]; rfl
          rw [l1] at this
          have : es = [] := List.eq_nil_of_length_eq_zero this
          rw [this] at hv; simp at hv
        · rw [l1] at hl; exact hlen hl
    · have hl' : ((cellPieces (formatAtoms dv.value)).length != 1) = true := by simpa using hl
      simp only [hl', Bool.true_or, ↓reduceIte] at hrt
      simp only [hl', ↓reduceIte]
      cases hm : mapR (fun a => parseAtom ar a d.bt false f64One 0 d.units) (cellPieces (formatAtoms dv.value)) with
      | ok vs =>
        rw [hm] at hrt
        simp only [R.ok.injEq] at hrt
        simp only [hrt]
        cases hc : csvNorm dv.value <;> first
          | exact absurd hc hninv
          | simp [hkey.1, hkey.2]
      | err => rw [hm] at hrt; cases hrt
      | unmodelled => rw [hm] at hrt; cases hrt

/-! ### sub-field substitution and its reversal -/


theorem sub_facts {m : PMesg} {p : PField} {s : PSub} (hm : m ∈ profile) (hn : m.num < mfgRangeMin) (hp : p ∈ m.fields)
    (hs : s ∈ p.subs) :
    lookupFieldNum m.num (txt s.name) = none ∧ (txt s.name).isEmpty = false ∧ isPrefixOf' unknownTxt (txt s.name) = false ∧
    ∀ p' ∈ m.fields, ∀ s' ∈ p'.subs, txt s'.name = txt s.name → p' = p := by
  have h := subNamesOK_true
  simp only [subNamesOK, List.all_eq_true, Bool.or_eq_true, decide_eq_true_eq, Bool.and_eq_true, Option.isNone_iff_eq_none,
    Bool.not_eq_true', beq_iff_eq] at h
  rcases h m hm with h1 | h2
  · omega
  · obtain ⟨⟨⟨a, b⟩, c⟩, d⟩ := h2 p hp s hs
    refine ⟨a, b, c, fun p' hp' s' hs' hname => ?_⟩
    rcases d p' hp' s' hs' with h | h
    · simp only [beq_eq_false_iff_ne, ne_eq] at h; exact absurd hname h
    · exact h

/-- **writer**: a field one of whose sub-fields applies is written under the sub-field's name and units (the value as
for the main field) -/
theorem subfield_write (o : Opts) (msg : Message) (fld : Field) (p : PField) (s : PSub)
    (hp : pfield msg.num (fieldNumOf fld) = some p) (hdeg : o.degrees = false) (hsub : substitute msg.fields p.subs = some s) :
    writeField o msg fld = ⟨txt s.name, fieldAtoms o (txt p.units) p.scale p.offset fld.value, txt s.units⟩ := by
  simp [writeField, hp, hsub, hdeg]

/-- **reader, first pass**: the cell is kept as a placeholder (no native field and no developer field has that name) -/
theorem subfield_placeholder (ar : Arith) (ds : List Desc) (pm : PMesg) (p : PField) (s : PSub) (hm : pm ∈ profile)
    (hn : pm.num < mfgRangeMin) (hp : p ∈ pm.fields) (hs : s ∈ p.subs) (val : List Atom) (units : Txt)
    (hds : ds.reverse.find? (fun d => d.name == txt s.name) = none) :
    readCell ar ds pm.num ⟨txt s.name, val, units⟩ = .ok (.placeholder (txt s.name) val) := by
  obtain ⟨h1, h2, h3, _⟩ := sub_facts hm hn hp hs
  simp only [readCell, h2, Bool.false_eq_true, ↓reduceIte, h1, h3, hds]

/-- **reader, second pass** (`revertSubFieldSubtitution`): when one of the sub-field's maps matches the reference field as
read so far, the placeholder is replaced by the MAIN field, its value parsed with the main field's base type, scale,
offset and units — the sub-field's name designates one main field only -/
theorem subfield_revert (ar : Arith) (mesgNum : Nat) (pm : PMesg) (p : PField) (s : PSub) (hpm : pmesg mesgNum = some pm)
    (hn : mesgNum < mfgRangeMin) (hp : p ∈ pm.fields) (hs : s ∈ p.subs) (fields : List Field) (mp : Nat × Int) (hmp : mp ∈ s.maps)
    (hmatch : toInt64 (fvalFirst fields mp.1) = some mp.2) (a : Atom) (v : Value)
    (hparse : parseAtom ar a p.bt p.isBool p.scale p.offset (txt p.units) = .ok v) :
    revert ar mesgNum fields (txt s.name) [a] = .ok (some (mkField p.num p.bt v)) := by
  have hm : pm ∈ profile := List.mem_of_find?_eq_some hpm
  have hnum : pm.num = mesgNum := by simpa using List.find?_some hpm
  obtain ⟨_, _, _, huniq⟩ := sub_facts hm (hnum ▸ hn) hp hs
  unfold revert
  rw [hpm]
  simp only
  generalize hc : (pm.fields.flatMap fun p => (p.subs.filter fun s' => txt s'.name == txt s.name).flatMap fun s' => s'.maps.map fun mp => (p, mp)) = cands
  have hA : (p, mp) ∈ cands := by
    rw [← hc]
    simp only [List.mem_flatMap, List.mem_filter, List.mem_map, beq_iff_eq]
    exact ⟨p, hp, s, ⟨hs, rfl⟩, mp, hmp, rfl⟩
  have hB : ∀ c ∈ cands, c.1 = p := by
    intro c hcm
    rw [← hc] at hcm
    simp only [List.mem_flatMap, List.mem_filter, List.mem_map, beq_iff_eq] at hcm
    obtain ⟨p', hp', s', ⟨hs', hname⟩, mp', _, rfl⟩ := hcm
    exact huniq p' hp' s' hs' hname
  cases hf : cands.find? (fun c => toInt64 (fvalFirst fields c.2.1) == some c.2.2) with
  | none =>
    have := List.find?_eq_none.mp hf (p, mp) hA
    simp [hmatch] at this
  | some c =>
    obtain ⟨p', mp'⟩ := c
    have : p' = p := hB (p', mp') (List.mem_of_find?_eq_some hf)
    subst this
    simp only [hparse]

end Fit.Csv
